#!/bin/bash
# usage: tools_seed_confirm.sh <PROP> <i>   — confirm a seeded change in its scratch worktree:
#   with the change: builds, existing tests pass, demo fails; without: demo passes.
# writes /tmp/seedout_<PROP>/confirm<i>.txt
P=$1; I=$2; WT=/tmp/seedwt_$P; OUT=/tmp/seedout_$P; LOG=$OUT/confirm$I.txt
exec > $LOG 2>&1
set -x
cd $WT && git checkout -- . && git apply $OUT/change$I.diff || { echo "RESULT apply-failed"; exit 1; }
cd $WT/lib60870-C && cmake -G Ninja -B $WT/_build -DBUILD_TESTS=ON . >/dev/null && cmake --build $WT/_build 2>&1 | tail -2 || { echo "RESULT build-failed"; exit 1; }
cd $WT/_build/tests && (unshare -rn sh -c 'ip link set lo up; timeout 900 ./tests' | tail -4) > $OUT/confirm_tests$I.txt 2>&1
cat $OUT/confirm_tests$I.txt
TESTS_OK=0; grep -q " 0 Failures" $OUT/confirm_tests$I.txt && TESTS_OK=1
R=$WT/lib60870-C/src
DEMO="gcc -g -I$R/inc/api -I$R/inc/internal -I$R/hal/inc -I$R/common/inc -I$R/file-service -I$WT/lib60870-C/config $OUT/demo$I.c $WT/_build/src/liblib60870.a -lpthread -lm -o $OUT/demo${I}_bin"
$DEMO && (unshare -rn sh -c "ip link set lo up; timeout 300 $OUT/demo${I}_bin" > $OUT/confirm_demo_with$I.txt 2>&1; echo "exit=$?" >> $OUT/confirm_demo_with$I.txt)
tail -3 $OUT/confirm_demo_with$I.txt
cd $WT && git checkout -- . && cmake --build $WT/_build 2>&1 | tail -1
$DEMO && (unshare -rn sh -c "ip link set lo up; timeout 300 $OUT/demo${I}_bin" > $OUT/confirm_demo_without$I.txt 2>&1; echo "exit=$?" >> $OUT/confirm_demo_without$I.txt)
tail -3 $OUT/confirm_demo_without$I.txt
W=$(tail -1 $OUT/confirm_demo_with$I.txt); WO=$(tail -1 $OUT/confirm_demo_without$I.txt)
set +x
echo "RESULT tests_ok=$TESTS_OK with=$W without=$WO"
