"""Shared machinery of the /verif checks (orchestrator E4 of DESIGN.md).

Every check follows the protocol of DESIGN.md section 4:
  1. regenerate facts from /repo (translator), 2. build the Lean obligations and
  audit their axioms, 3. build harness + driver and diff implementation against
  model, 4. on any break search the real code for a failing input, 5. match known
  findings, 6. write evidence.
"""
import fcntl, hashlib, json, os, re, shutil, subprocess, sys, time
from concurrent.futures import ThreadPoolExecutor

ROOT = os.path.dirname(os.path.dirname(os.path.abspath(__file__)))
REPO = os.environ.get("VERIF_REPO", "/repo")
SRC = os.path.join(REPO, "lib60870-C", "src")
LEAN = os.path.join(ROOT, "lean")
BUILD = os.path.join(ROOT, "build")
DRV = os.path.join(LEAN, ".lake", "build", "bin", "iecdrv")
GUARD = "MZ_AUTOMATION_LIB60870_VERIF"

INCLUDES = ["-I" + os.path.join(REPO, "lib60870-C", "config")] + [
    "-I" + os.path.join(SRC, d) for d in
    ("inc/api", "inc/internal", "common/inc", "hal/inc", "file-service")] + [
    "-I" + os.path.join(ROOT, "harness")]
SAN = ["-O1", "-g", "-fsanitize=address,undefined", "-fno-sanitize-recover=all",
       "-fno-omit-frame-pointer", "-D" + GUARD, "-w"]

# protocol sources of the library (HAL excluded: harnesses choose real or simulated HAL)
LIB_SOURCES = [
    "iec60870/apl/cpXXtime2a.c", "iec60870/cs101/cs101_asdu.c", "iec60870/cs101/cs101_bcr.c",
    "iec60870/cs101/cs101_information_objects.c", "iec60870/cs101/cs101_master.c",
    "iec60870/cs101/cs101_master_connection.c", "iec60870/cs101/cs101_queue.c",
    "iec60870/cs101/cs101_slave.c", "iec60870/cs104/cs104_connection.c", "iec60870/cs104/cs104_frame.c",
    "iec60870/cs104/cs104_slave.c", "iec60870/link_layer/buffer_frame.c", "iec60870/link_layer/link_layer.c",
    "iec60870/link_layer/serial_transceiver_ft_1_2.c", "iec60870/frame.c", "iec60870/lib60870_common.c",
    "common/linked_list.c", "file-service/file_server.c", "hal/memory/lib_memory.c",
]
REAL_HAL = ["hal/socket/linux/socket_linux.c", "hal/thread/linux/thread_linux.c",
            "hal/time/unix/time.c", "hal/serial/linux/serial_port_linux.c"]

TRUSTED_BASE = [
    "Lean 4.33.0 kernel (thorough tier: re-checked by leanchecker)",
    "axioms allowed: propext, Classical.choice, Quot.sound (audited by #print axioms on every run; no native_decide, no bv_decide, no sorry)",
    "statement of the theorems in lean/Iec/Props as a reading of the property",
    "hand-written model tied to the C code by the correspondence (differential) check of this run; translator facts where stated",
    "gcc 12, ASan/UBSan, glibc",
]


def log(*a):
    print(*a, flush=True)


def seed():
    try:
        return int(os.environ.get("VERIF_SEED", "1"))
    except ValueError:
        return 1


def sh(cmd, cwd=None, timeout=3600, env=None, stdin=None):
    e = dict(os.environ)
    if env:
        e.update(env)
    p = subprocess.run(cmd, cwd=cwd, stdout=subprocess.PIPE, stderr=subprocess.STDOUT, text=True,
                       timeout=timeout, env=e, stdin=stdin, errors="replace")
    return p.returncode, p.stdout


class Lock:
    def __init__(self, name):
        os.makedirs(BUILD, exist_ok=True)
        self.path = os.path.join(BUILD, name + ".lock")

    def __enter__(self):
        self.f = open(self.path, "w")
        fcntl.flock(self.f, fcntl.LOCK_EX)
        return self

    def __exit__(self, *a):
        fcntl.flock(self.f, fcntl.LOCK_UN)
        self.f.close()


# ---------------------------------------------------------------- Lean side

def lake_build(targets):
    """build Lean targets (library modules and/or the driver); returns (ok, log)"""
    with Lock("lake"):
        rc, out = sh(["lake", "build"] + list(targets), cwd=LEAN, timeout=3000)
    return rc == 0, out


FORBIDDEN = re.compile(r"\bsorry\b|\badmit\b|^\s*axiom\s|native_decide|bv_decide|implemented_by|\bunsafe\s|maxHeartbeats\s+0")


def strip_lean_comments(text):
    # remove /- ... -/ (nested) and -- line comments
    out, i, depth = [], 0, 0
    while i < len(text):
        if text.startswith("/-", i):
            depth += 1; i += 2; continue
        if depth and text.startswith("-/", i):
            depth -= 1; i += 2; continue
        if depth:
            if text[i] == "\n":
                out.append("\n")
            i += 1; continue
        if text.startswith("--", i):
            while i < len(text) and text[i] != "\n":
                i += 1
            continue
        out.append(text[i]); i += 1
    return "".join(out)


def forbidden_scan():
    hits = []
    for dp, dn, fn in os.walk(LEAN):
        if ".lake" in dp:
            continue
        for f in fn:
            if f.endswith(".lean"):
                p = os.path.join(dp, f)
                for n, line in enumerate(strip_lean_comments(open(p).read()).split("\n"), 1):
                    if FORBIDDEN.search(line):
                        hits.append("%s:%d: %s" % (os.path.relpath(p, ROOT), n, line.strip()))
    return hits


ALLOWED_AXIOMS = {"propext", "Classical.choice", "Quot.sound"}


def prop_theorems(pid):
    """names of all theorems in lean/Iec/Props/<pid>.lean (fully qualified)"""
    path = os.path.join(LEAN, "Iec", "Props", pid + ".lean")
    txt = strip_lean_comments(open(path).read())
    ns = []
    names = []
    for line in txt.split("\n"):
        m = re.match(r"\s*namespace\s+(\S+)", line)
        if m:
            ns.append(m.group(1)); continue
        m = re.match(r"\s*end\s+(\S+)", line)
        if m and ns and ns[-1] == m.group(1):
            ns.pop(); continue
        m = re.match(r"\s*(?:private\s+|protected\s+)?theorem\s+(\S+)", line)
        if m:
            names.append(".".join(ns + [m.group(1)]))
    return names


def audit(pid):
    """#print axioms for every theorem of the property file; returns (names, bad, log)"""
    names = prop_theorems(pid)
    os.makedirs(os.path.join(ROOT, "audit"), exist_ok=True)
    apath = os.path.join(ROOT, "audit", pid + ".lean")
    with open(apath, "w") as f:
        f.write("import Iec.Props.%s\n" % pid)
        for n in names:
            f.write("#print axioms %s\n" % n)
    rc, out = sh(["lake", "env", "lean", apath], cwd=LEAN, timeout=1200)
    bad = []
    if rc != 0:
        bad.append("audit file does not elaborate: " + out[-400:])
    seen = 0
    for m in re.finditer(r"^'(.+?)' (does not depend on any axioms|depends on axioms: \[([^\]]*)\])", out, re.M):
        seen += 1
        if m.group(3):
            ax = [a.strip() for a in m.group(3).replace("\n", " ").split(",")]
            extra = [a for a in ax if a not in ALLOWED_AXIOMS]
            if extra:
                bad.append("%s depends on %s" % (m.group(1), extra))
    if seen != len(names):
        bad.append("audited %d of %d theorems" % (seen, len(names)))
    return names, bad, out


def leanchecker(module):
    rc, out = sh(["lake", "env", "leanchecker", module], cwd=LEAN, timeout=3000)
    return rc == 0, out


# ---------------------------------------------------------------- C side

def repo_hash(files):
    h = hashlib.sha256()
    for f in sorted(files):
        h.update(f.encode())
        try:
            h.update(open(f, "rb").read())
        except OSError:
            h.update(b"<missing>")
    return h.hexdigest()[:16]


def all_repo_inputs():
    fs = []
    for base in (SRC, os.path.join(REPO, "lib60870-C", "config")):
        for dp, dn, fn in os.walk(base):
            for f in fn:
                if f.endswith((".c", ".h")):
                    fs.append(os.path.join(dp, f))
    return fs


def build_lib(extra_flags=(), tag="asan", cc="gcc", san=True):
    """compile the library's protocol sources + real HAL from /repo's working tree into
    per-file objects (cached by content hash of every .c/.h under src and config).
    returns dict relpath -> object path, or raises BuildError"""
    base_flags = SAN if san else ["-O2", "-g", "-D" + GUARD, "-w"]
    if not san and tag == "asan":
        tag = "plain"
    key = repo_hash(all_repo_inputs()) + "-" + hashlib.sha256(" ".join(list(extra_flags) + base_flags + [cc]).encode()).hexdigest()[:8]
    odir = os.path.join(BUILD, "obj", tag + "-" + key)
    with Lock("obj-" + tag):
        done = os.path.join(odir, ".done")
        srcs = LIB_SOURCES + REAL_HAL
        objs = {s: os.path.join(odir, s.replace("/", "_")[:-2] + ".o") for s in srcs}
        if os.path.exists(done):
            return objs
        # drop stale caches of this tag
        base = os.path.join(BUILD, "obj")
        if os.path.isdir(base):
            for d in os.listdir(base):
                if d.startswith(tag + "-") and d != os.path.basename(odir):
                    shutil.rmtree(os.path.join(base, d), ignore_errors=True)
        os.makedirs(odir, exist_ok=True)

        def one(s):
            return s, sh([cc] + base_flags + list(extra_flags) + INCLUDES + ["-c", os.path.join(SRC, s), "-o", objs[s]])
        with ThreadPoolExecutor(16) as ex:
            res = list(ex.map(one, srcs))
        errs = [(s, o) for s, (rc, o) in res if rc != 0]
        if errs:
            raise BuildError("library does not compile: %s\n%s" % (errs[0][0], errs[0][1][-2000:]))
        open(done, "w").write("ok")
        return objs


class BuildError(Exception):
    pass


def build_harness(name, sources, lib_objs, out_dir, exclude=(), extra_flags=(), cc="gcc", san=True):
    """compile harness sources (paths under /verif/harness) and link with the library
    objects, leaving out `exclude` (library files the harness #includes itself)"""
    os.makedirs(out_dir, exist_ok=True)
    exe = os.path.join(out_dir, name)
    cmd = [cc] + (SAN if san else ["-O2", "-g", "-D" + GUARD, "-w"]) + list(extra_flags) + INCLUDES + [os.path.join(ROOT, "harness", s) for s in sources]
    cmd += [o for s, o in lib_objs.items() if s not in exclude]
    cmd += ["-o", exe, "-lpthread", "-lm"]
    rc, out = sh(cmd, timeout=600)
    if rc != 0:
        raise BuildError("harness %s does not build:\n%s" % (name, out[-3000:]))
    return exe


def run_model(ops_path, model_path):
    with open(ops_path) as fi, open(model_path, "w") as fo:
        p = subprocess.run([DRV], stdin=fi, stdout=fo, stderr=subprocess.PIPE, timeout=3000)
    if p.returncode != 0:
        raise BuildError("iecdrv failed: " + p.stderr.decode(errors="replace")[-500:])


def first_diff(ops_path, impl_path, model_path, limit=5):
    """compare the two observation streams line by line; returns (n_lines, [diffs])"""
    diffs = []
    n = 0
    with open(ops_path) as fo, open(impl_path) as fi, open(model_path) as fm:
        for op in fo:
            a = fi.readline(); b = fm.readline()
            n += 1
            if a != b:
                if len(diffs) < limit:
                    diffs.append({"line": n, "op": op.strip(), "impl": a.strip(), "model": b.strip()})
                elif len(diffs) == limit:
                    diffs.append({"more": True})
        rest_i = fi.readline(); rest_m = fm.readline()
        if (rest_i or rest_m) and len(diffs) < limit:
            diffs.append({"line": n + 1, "op": "<stream length>", "impl": rest_i.strip(), "model": rest_m.strip()})
    return n, diffs


# ---------------------------------------------------------------- findings / reporting

def load_known():
    """known_findings.txt: lines `known: property=<id> key=<key> <what fails>` and
    `fixed: property=<id> <commit> <what failed>`; read-only at run time"""
    known = []
    p = os.path.join(ROOT, "known_findings.txt")
    if os.path.exists(p):
        for line in open(p):
            line = line.strip()
            m = re.match(r"known:\s+property=(\S+)\s+key=(\S+)\s+(.*)", line)
            if m:
                known.append({"property": m.group(1), "key": m.group(2), "what": m.group(3)})
    return known


class Result:
    """collects what one check run did; decides exit code and writes evidence"""

    def __init__(self, pid, tier):
        self.pid, self.tier = pid, tier
        self.t0 = time.time()
        self.violations = []      # dicts: key, what, replay(dict), found_input(bool)
        self.known_hit = []
        self.obligations = 0
        self.discharged = 0
        self.cov = {}
        self.assumptions = []
        self.notes = []

    def violation(self, key, what, replay, found_input=True):
        self.violations.append({"key": key, "what": what, "replay": replay, "found_input": found_input})

    def finish(self, level="proof", checker_cmd="", extra_trusted=()):
        known = [k for k in load_known() if k["property"] == self.pid]
        real = []
        seen_keys = set()
        for v in self.violations:
            if v["key"] in seen_keys:
                continue
            seen_keys.add(v["key"])
            k = next((k for k in known if k["key"] == v["key"]), None)
            if k is not None and v["found_input"]:
                self.known_hit.append((k, v))
            else:
                real.append(v)
        for k, v in self.known_hit:
            log("KNOWN-FINDING: property=%s %s [%s]" % (self.pid, k["what"], k["key"]))
        os.makedirs(os.path.join(ROOT, "replays"), exist_ok=True)
        for v in real:
            body = json.dumps({"property": self.pid, "key": v["key"], "what": v["what"], "replay": v["replay"],
                               "failing_input_found": v["found_input"]}, indent=1, sort_keys=True)
            h = hashlib.sha256((self.pid + v["key"]).encode()).hexdigest()[:10]
            path = os.path.join(ROOT, "replays", "%s-%s.json" % (self.pid, h))
            open(path, "w").write(body + "\n")
            tail = "" if v["found_input"] else " no-failing-input-found"
            log("VIOLATION property=%s replay=%s%s" % (self.pid, path, tail))
            log("  " + v["what"])
        cov = dict(self.cov)
        cov.setdefault("obligations", self.obligations)
        cov.setdefault("discharged", self.discharged)
        cov.setdefault("checker_cmd", checker_cmd or "cd lean && lake build Iec.Props.%s && lake env lean ../audit/%s.lean" % (self.pid, self.pid))
        cov.setdefault("trusted_base", TRUSTED_BASE + list(extra_trusted))
        cov.setdefault("samples", [])
        cov["known_findings_reproduced"] = [k["key"] for k, _ in self.known_hit]
        if self.notes:
            cov["notes"] = self.notes
        ev = {"property_id": self.pid, "tier": self.tier, "seed": seed(), "level": level, "coverage": cov,
              "assumptions": self.assumptions, "wall_s": round(time.time() - self.t0, 2), "violations": len(real)}
        os.makedirs(os.path.join(ROOT, "evidence"), exist_ok=True)
        tmp = os.path.join(ROOT, "evidence", self.pid + ".json.tmp")
        json.dump(ev, open(tmp, "w"), indent=1, sort_keys=True)
        os.replace(tmp, os.path.join(ROOT, "evidence", self.pid + ".json"))
        return 1 if real else 0


def proof_stage(res, pid, extra_targets=(), thorough_checker=True):
    """steps 2 of the protocol: build obligations, audit, forbidden-token scan.
    Returns True when every obligation is discharged."""
    ok, out = lake_build(["Iec.Props." + pid, "iecdrv"] + list(extra_targets))
    names = prop_theorems(pid)
    res.obligations += len(names)
    if not ok:
        errs = re.findall(r"error: (\S+?:\d+:\d+): (.*)", out)
        res.notes.append("lake build failed: " + "; ".join("%s %s" % e for e in errs[:5]))
        res.cov["broken_obligations"] = ["%s %s" % e for e in errs[:20]]
        return False, out
    _, bad, aout = audit(pid)
    hits = forbidden_scan()
    if bad or hits:
        res.notes.append("audit: %s %s" % (bad, hits))
        res.cov["broken_obligations"] = bad + hits
        return False, aout
    res.discharged += len(names)
    res.cov["theorems"] = names
    if res.tier == "thorough" and thorough_checker:
        okc, outc = leanchecker("Iec.Props." + pid)
        res.cov["leanchecker"] = "ok" if okc else outc[-300:]
        if not okc:
            return False, outc
    return True, out


def regen_consts104():
    """translator tie: translate/consts104.c is compiled against the CURRENT cs104_slave.c (it #includes it) and run;
    its output replaces lean/Iec/Gen/Consts104.lean when it changed; Iec.Props.C06 / C13 / C03 / C10 prove that the
    constants are the ones the models use"""
    bdir = os.path.join(BUILD, "_gen")
    os.makedirs(bdir, exist_ok=True)
    lib = build_lib()
    exe = os.path.join(bdir, "consts104")
    cmd = ["gcc"] + SAN + ["-I" + os.path.join(SRC, "iec60870/cs104")] + INCLUDES + [os.path.join(ROOT, "translate", "consts104.c")]
    cmd += [o for s_, o in lib.items() if s_ != "iec60870/cs104/cs104_slave.c" and s_ not in REAL_HAL] + [os.path.join(ROOT, "harness", "simhal.c")]
    cmd += ["-o", exe, "-lpthread", "-lm"]
    rc, out = sh(cmd, timeout=600)
    if rc != 0:
        raise BuildError("translate/consts104.c does not compile against the current cs104_slave.c: " + out[-800:])
    rc, out = sh([exe], timeout=60)
    if rc != 0 or "namespace Iec.Gen" not in out:
        raise BuildError("translate/consts104 failed: " + out[-400:])
    out = out[out.index("/- GENERATED"):]
    dst = os.path.join(LEAN, "Iec", "Gen", "Consts104.lean")
    if not os.path.exists(dst) or open(dst).read() != out:
        with open(dst + ".new", "w") as f:
            f.write(out)
        os.replace(dst + ".new", dst)
