import Iec.Drv.C19
/-
iecdrv — line-protocol driver: one operation per input line, one canonical result
line per operation.  The C harnesses execute the same lines on the real code; the
orchestrator diffs the two output streams.
-/
open Iec.Drv

def dispatch (ws : List String) : Option String :=
  match ws with
  | [] => some ""
  | w :: _ =>
    if w.startsWith "#" then some ""
    else (Iec.Drv.C19.handle ws)

partial def loop (h : IO.FS.Stream) (out : IO.FS.Stream) : IO Unit := do
  let line ← h.getLine
  if line.isEmpty then return ()
  let ws := (line.trimAscii.toString.splitOn " ").filter (· ≠ "")
  match dispatch ws with
  | some s => out.putStrLn s
  | none => out.putStrLn "bad-op"
  loop h out

def main : IO Unit := do
  let out ← IO.getStdout
  loop (← IO.getStdin) out
