import Iec.Drv.C19
import Iec.Drv.Asdu
import Iec.Drv.Srv104
import Iec.Drv.Cli104
import Iec.Drv.Dispatch
import Iec.Drv.Locks
import Iec.Drv.Link101
import Iec.Drv.Q101
import Iec.Drv.FileSrv
import Iec.Drv.HpQueue
/-
iecdrv — line-protocol driver: one operation per input line, one canonical result
line per operation.  The C harnesses execute the same lines on the real code; the
orchestrator diffs the two output streams.
-/
open Iec.Drv

structure DrvState where
  asdu : Iec.Drv.Asdu.St := {}
  srv : Iec.Drv.Srv104.St := {}
  cli : Iec.Drv.Cli104.St := {}
  ll : Iec.Drv.Link101.St := {}
  q : Option Iec.Q101.Q := none
  fs : Iec.Drv.FileSrv.St := {}
  hq : Option Iec.Queues.HpQueue := none

def dispatch (st : DrvState) (ws : List String) : DrvState × String :=
  match ws with
  | [] => (st, "")
  | w :: _ =>
    if w.startsWith "#" then (st, "")
    else match Iec.Drv.C19.handle ws with
      | some s => (st, s)
      | none =>
        match Iec.Drv.Asdu.handle st.asdu ws with
        | some (a, s) => ({ st with asdu := a }, s)
        | none =>
          match Iec.Drv.Srv104.handle st.srv ws with
          | some (a, s) => ({ st with srv := a }, s)
          | none =>
            match Iec.Drv.Cli104.handle st.cli ws with
            | some (a, s) => ({ st with cli := a }, s)
            | none =>
              match Iec.Drv.Dispatch.handle ws with
              | some s => (st, s)
              | none =>
                match Iec.Drv.Locks.handle ws with
                | some s => (st, s)
                | none =>
                  match Iec.Drv.Link101.handle st.ll ws with
                  | some (a, s) => ({ st with ll := a }, s)
                  | none =>
                    match Iec.Drv.Q101.handle st.q ws with
                    | some (a, s) => ({ st with q := a }, s)
                    | none =>
                      match Iec.Drv.FileSrv.handle st.fs ws with
                      | some (a, s) => ({ st with fs := a }, s)
                      | none =>
                        match Iec.Drv.HpQueue.handle st.hq ws with
                        | some (a, s) => ({ st with hq := a }, s)
                        | none => (st, "bad-op")

partial def loop (h : IO.FS.Stream) (out : IO.FS.Stream) (st : DrvState) : IO Unit := do
  let line ← h.getLine
  if line.isEmpty then return ()
  let ws := (line.trimAscii.toString.splitOn " ").filter (· ≠ "")
  let (st', s) := dispatch st ws
  out.putStrLn s
  loop h out st'

def main : IO Unit := do
  let out ← IO.getStdout
  loop (← IO.getStdin) out {}
