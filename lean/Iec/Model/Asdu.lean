import Iec.Model.TypeTable
/-
Model of lib60870-C/src/iec60870/cs101/cs101_asdu.c: an ASDU is the octet string
`asdu[0 .. asduHeaderLength + payloadSize)`; building (create / addInformationObject /
addPayload / clone / header setters) and parsing (createFromBuffer / header getters /
getElementEx) are functions on that string.
-/
namespace Iec.Asdu
open Iec.Layout

structure Params where
  sizeOfCOT : Nat
  sizeOfCA : Nat
  sizeOfIOA : Nat
  maxSize : Nat
  deriving DecidableEq, Repr, Inhabited

def Params.hdrLen (p : Params) : Nat := 2 + p.sizeOfCOT + p.sizeOfCA

def Params.Legal (p : Params) : Prop :=
  (p.sizeOfCOT = 1 ∨ p.sizeOfCOT = 2) ∧ (p.sizeOfCA = 1 ∨ p.sizeOfCA = 2) ∧
  (p.sizeOfIOA = 1 ∨ p.sizeOfIOA = 2 ∨ p.sizeOfIOA = 3)

structure Asdu where
  p : Params
  /-- header followed by payload; length = hdrLen + payloadSize -/
  bytes : List Nat
  deriving DecidableEq, Repr, Inhabited

def lookup (tid : Nat) : Option TypeEntry := typeTable.find? (·.typeId == tid)

def Asdu.payload (a : Asdu) : List Nat := a.bytes.drop a.p.hdrLen
def Asdu.payloadSize (a : Asdu) : Nat := a.bytes.length - a.p.hdrLen
def Asdu.byte (a : Asdu) (i : Nat) : Nat := a.bytes.getD i 0

/-! ### header getters (cs101_asdu.c:303-450) -/
def Asdu.typeId (a : Asdu) : Nat := a.byte 0
def Asdu.isSequence (a : Asdu) : Bool := (a.byte 1 &&& 0x80) != 0
def Asdu.count (a : Asdu) : Nat := a.byte 1 &&& 0x7f
def Asdu.cot (a : Asdu) : Nat := a.byte 2 &&& 0x3f
def Asdu.isTest (a : Asdu) : Bool := (a.byte 2 &&& 0x80) == 0x80
def Asdu.isNegative (a : Asdu) : Bool := (a.byte 2 &&& 0x40) == 0x40
/-- `-1` when there is no originator address octet -/
def Asdu.oa (a : Asdu) : Int := if a.p.sizeOfCOT < 2 then -1 else (a.byte 3 : Int)
def Asdu.ca (a : Asdu) : Nat :=
  let i := 2 + a.p.sizeOfCOT
  if a.p.sizeOfCA > 1 then a.byte i + a.byte (i + 1) * 0x100 else a.byte i

/-- `CS101_ASDU_initializeStatic` (cs101_asdu.c:127-166) -/
def create (p : Params) (sq : Bool) (cot oa ca : Nat) (test neg : Bool) : Asdu :=
  let b2 := ((cot &&& 0x3f) ||| (if test then 0x80 else 0) ||| (if neg then 0x40 else 0)) % 256
  let oaB := if p.sizeOfCOT > 1 then [oa % 256] else []
  let caB := if p.sizeOfCA > 1 then [ca % 0x100, ca / 0x100 % 256] else [ca % 0x100]
  { p := p, bytes := [0, (if sq then 0x80 else 0), b2] ++ oaB ++ caB }

def setByte (bs : List Nat) (i v : Nat) : List Nat := bs.set i v

/-- `asduFrame_getSpaceLeft` (may be negative) -/
def Asdu.spaceLeft (a : Asdu) : Int := (a.p.maxSize : Int) - (a.payloadSize : Int) - (a.p.hdrLen : Int)

/-- first IOA of the payload (`getFirstIOA` / `InformationObject_ParseObjectAddress`) -/
def parseIOA (n : Nat) (bs : List Nat) : Nat := leVal (bs.take n)

/-- `FileSegment_encode` refuses segments longer than `FileSegment_GetMaxDataSize` -/
def segFits (a : Asdu) (e : TypeEntry) (vals : List Nat) : Bool :=
  match e.fields.reverse, vals.reverse with
  | .seg :: _, _ :: los :: _ =>
    decide ((los : Int) ≤ (a.p.maxSize : Int) - (a.p.hdrLen : Int) - (a.p.sizeOfIOA : Int) - 4)
  | _, _ => true

/-- octets the space guard of `<Type>_encode` asks for -/
def guardSize (a : Asdu) (e : TypeEntry) (sq : Bool) (vals : List Nat) : Nat :=
  (if sq then fieldsSize e.fields vals else a.p.sizeOfIOA + fieldsSize e.fields vals) + e.guardExtra

/-- one `<Type>_encode` call: space guard, then IOA (unless `sq`) and the fields -/
def encodeObj (a : Asdu) (e : TypeEntry) (sq : Bool) (ioa : Nat) (vals : List Nat) : Option (List Nat) :=
  if segFits a e vals = false then none
  else if a.spaceLeft < (guardSize a e sq vals : Int) then none
  else (encodeFields e.fields vals).map fun fb => (if sq then [] else leBytes a.p.sizeOfIOA ioa) ++ fb

/-- `CS101_ASDU_addInformationObject` (cs101_asdu.c:253-294) -/
def Asdu.add (a : Asdu) (e : TypeEntry) (ioa : Nat) (vals : List Nat) : Asdu × Bool :=
  let n := a.count
  let res : Option (List Nat) :=
    if n = 0 then encodeObj a e false ioa vals
    else if n < 0x7f then
      if a.typeId = e.typeId % 256 then
        if a.isSequence then
          if ioa = parseIOA a.p.sizeOfIOA a.payload + n then encodeObj a e true ioa vals else none
        else encodeObj a e false ioa vals
      else none
    else none
  match res with
  | some bs =>
    let b := (if n = 0 then setByte a.bytes 0 (e.typeId % 256) else a.bytes) ++ bs
    ({ a with bytes := setByte b 1 ((a.byte 1 + 1) % 256) }, true)
  | none => (a, false)

/-- `CS101_ASDU_addPayload` (cs101_asdu.c:222-235) -/
def Asdu.addPayload (a : Asdu) (buf : List Nat) : Asdu × Bool :=
  if a.payloadSize + a.p.hdrLen + buf.length ≤ 256 then ({ a with bytes := a.bytes ++ buf }, true)
  else (a, false)

def Asdu.setTypeId (a : Asdu) (t : Nat) : Asdu := { a with bytes := setByte a.bytes 0 (t % 256) }
def Asdu.setSequence (a : Asdu) (v : Bool) : Asdu :=
  { a with bytes := setByte a.bytes 1 (if v then a.byte 1 ||| 0x80 else a.byte 1 &&& 0x7f) }
def Asdu.setCount (a : Asdu) (n : Nat) : Asdu :=
  { a with bytes := setByte a.bytes 1 ((a.byte 1 &&& 0x80) ||| ((n % 256) &&& 0x7f)) }
def Asdu.setCot (a : Asdu) (v : Nat) : Asdu :=
  { a with bytes := setByte a.bytes 2 (((a.byte 2 &&& 0xc0) + (v &&& 0x3f)) % 256) }
def Asdu.setTest (a : Asdu) (v : Bool) : Asdu :=
  { a with bytes := setByte a.bytes 2 (if v then a.byte 2 ||| 0x80 else a.byte 2 &&& 0x7f) }
def Asdu.setNegative (a : Asdu) (v : Bool) : Asdu :=
  { a with bytes := setByte a.bytes 2 (if v then a.byte 2 ||| 0x40 else a.byte 2 &&& 0xbf) }
/-- `CS101_ASDU_setCA` clamps to the field width -/
def Asdu.setCa (a : Asdu) (ca : Nat) : Asdu :=
  let i := 2 + a.p.sizeOfCOT
  if a.p.sizeOfCA = 1 then { a with bytes := setByte a.bytes i ((if ca > 255 then 255 else ca) % 256) }
  else
    let c := if ca > 65535 then 65535 else ca
    { a with bytes := setByte (setByte a.bytes i (c % 0x100)) (i + 1) (c / 0x100 % 256) }
def Asdu.removeAll (a : Asdu) : Asdu :=
  { a with bytes := (setByte a.bytes 1 (a.byte 1 &&& 0x80)).take a.p.hdrLen }

/-- `CS101_ASDU_clone` (cs101_asdu.c:100-124) -/
def Asdu.clone (a : Asdu) : Asdu :=
  let c := create a.p a.isSequence a.cot (if a.p.sizeOfCOT < 2 then 255 else a.byte 3) a.ca a.isTest a.isNegative
  let c := (c.setTypeId a.typeId).setCount a.count
  (c.addPayload a.payload).1

/-- `CS101_ASDU_createFromBuffer` (cs101_asdu.c:174-210) -/
def fromBuffer (p : Params) (msg : List Nat) : Option Asdu :=
  if msg.length < p.hdrLen then none else some { p := p, bytes := msg }

/-- outcome of `<Type>_getFromBuffer` at `start` with or without IOA: the `minSize > msgSize`
test first (cs101_information_objects.c, every decoder), then the reads -/
def decodeObj (p : Params) (e : TypeEntry) (payload : List Nat) (start : Nat) (withIoa : Bool) :
    Option (Nat × List Nat) :=
  if start + (if withIoa then p.sizeOfIOA else 0) + fixedSize e.fields > payload.length then none
  else
    let bs := payload.drop start
    if withIoa then
      (decodeFields e.fields (bs.drop p.sizeOfIOA)).map fun (vs, _) => (parseIOA p.sizeOfIOA bs, vs)
    else (decodeFields e.fields bs).map fun (vs, _) => (0, vs)

/-- `CS101_ASDU_getElementEx` (cs101_asdu.c:455-1247): object address and stored values -/
def Asdu.getElement (a : Asdu) (i : Nat) : Option (Nat × List Nat) :=
  match lookup a.typeId with
  | none => none
  | some e =>
    let sz := fixedSize e.fields
    match e.cat with
    | .seq =>
      if a.isSequence then
        (decodeObj a.p e a.payload (a.p.sizeOfIOA + i * sz) false).map fun (_, vs) =>
          (parseIOA a.p.sizeOfIOA a.payload + i, vs)
      else decodeObj a.p e a.payload (i * (a.p.sizeOfIOA + sz)) true
    | .noseq => decodeObj a.p e a.payload (i * (a.p.sizeOfIOA + sz)) true
    | .single => decodeObj a.p e a.payload 0 true

end Iec.Asdu
