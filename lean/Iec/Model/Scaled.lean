/-
Model of normalizedToScaled / scaledToNormalized (cs101_information_objects.c:123-162)
on IEEE-754 binary32 bit patterns.

No IEEE formalisation is available offline, so binary32 values are modelled as
exact dyadic numbers: a finite float is (sign, n) meaning ±n·2^-149 with n a
natural number (every finite binary32 value is such a multiple).  The three float
operations the C code performs are modelled exactly:
 * comparison with the two clamp constants — exact on dyadics;
 * multiplication by 32768.f — exact for |value| ≤ 1 (a power of two, no overflow,
   no underflow), i.e. the unit changes from 2^-149 to 2^-134;
 * addition/subtraction of 0.5f — exact sum, then round-to-nearest-even to 24
   significant bits (`roundF32`); the sum is ≤ 32768.5 and its least unit 2^-134 is
   above the denormal threshold, so no other rounding case exists;
 * `(int)` — truncation toward zero.
The correspondence check compares this with the compiled C function on float
bit patterns (boundaries, denormals, ±inf, random).
-/
namespace Iec.Scaled

inductive F32 where
  | fin (neg : Bool) (n : Nat)   -- ±n·2^-149
  | inf (neg : Bool)
  | nan
  deriving DecidableEq, Repr

/-- decode a binary32 bit pattern -/
def F32.ofBits (b : Nat) : F32 :=
  let neg := decide (b / 2147483648 % 2 = 1)
  let e := b / 8388608 % 256
  let m := b % 8388608
  if e = 255 then (if m = 0 then .inf neg else .nan)
  else if e = 0 then .fin neg m
  else .fin neg ((m + 8388608) * 2 ^ (e - 1))

/-- 32767/32768 in units of 2^-149 -/
def maxN : Nat := 32767 * 2 ^ 134
/-- 1.0 in units of 2^-149 -/
def oneN : Nat := 2 ^ 149

/-- round-to-nearest-even of a natural number to 24 significant bits -/
def roundF32 (s : Nat) : Nat :=
  let bits := if s = 0 then 0 else Nat.log2 s + 1
  if bits ≤ 24 then s
  else
    let sh := bits - 24
    let q := s / 2 ^ sh
    let r := s % 2 ^ sh
    let half := 2 ^ (sh - 1)
    if r > half ∨ (r = half ∧ q % 2 = 1) then (q + 1) * 2 ^ sh else q * 2 ^ sh

/-- `normalizedToScaled` on a clamped finite value given as (neg, n·2^-149). -/
def toScaledFin (neg : Bool) (n : Nat) : Int :=
  -- clamp (`value > MAX`, `value < MIN`)
  let n := if !neg && n > maxN then maxN else if neg && n > oneN then oneN else n
  -- scaledValue = value * 32768  (unit becomes 2^-134); ± 0.5f = 2^133 units
  let s := roundF32 (n + 2 ^ 133)
  let t : Int := (s / 2 ^ 134 : Nat)
  if neg && n ≠ 0 then -t else t

/-- `NormalizedValue_toScaled` on a bit pattern; `none` for NaN (excluded by the property). -/
def toScaled (bits : Nat) : Option Int :=
  match F32.ofBits bits with
  | .nan => none
  | .inf neg => some (toScaledFin neg (if neg then oneN else maxN))
  | .fin neg n => some (toScaledFin neg n)

/-- binary32 bit pattern of the integer quotient v/32768 for |v| ≤ 32768
(both `(float) value` and the division by a power of two are exact). -/
def fromScaledBits (value : Int) : Nat :=
  let v : Int := if value > 32767 then 32767 else if value < -32768 then -32768 else value
  let a := v.natAbs
  if a = 0 then 0
  else
    let e := Nat.log2 a
    let expField := 127 + e - 15
    let mant := (a * 2 ^ (23 - e)) % 8388608
    (if v < 0 then 2147483648 else 0) + expField * 8388608 + mant

end Iec.Scaled
