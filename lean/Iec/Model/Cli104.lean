import Iec.Model.Srv104
/-
Model of the CS104 client (cs104_connection.c): the connection-handling thread
`handleConnection` cut at its blocking points (Socket_connect, Handleset_waitReady), the
API calls an application thread makes in between, the k-window (shared `Iec.KWindow`),
reassembly (`Iec.Srv104.recvStep`: `receiveMessage` is the same algorithm in both files).
-/
namespace Iec.Cli104
open Iec.KWindow Iec.Srv104

structure Params where
  k : Nat
  w : Nat
  t0 : Nat
  t1 : Nat
  t2 : Nat
  t3 : Nat
  asduHdr : Nat
  deriving Repr, Inhabited

inductive Obs where
  | tx (bytes : List Nat)
  | ev (what : String)
  | asdu (bytes : List Nat)
  deriving Repr, Inhabited

structure Cli where
  p : Params
  now : Nat := 0
  /-- 0 no thread, 1 thread started (before connect), 2 inside Socket_connect, 3 in the loop, 4 finished -/
  phase : Nat := 0
  connectOk : Bool := true
  running : Bool := false
  failure : Bool := false
  close : Bool := false
  /-- 0 IDLE, 1 INACTIVE, 2 ACTIVE, 3 WAITING_FOR_STARTDT_CON, 4 WAITING_FOR_STOPDT_CON -/
  conState : Nat := 0
  recvBuf : List Nat := []
  win : List KEntry := []
  /-- k of the first connect (the k-buffer is allocated once) -/
  maxSent : Option Nat := none
  vs : Nat := 0
  vr : Nat := 0
  unconf : Nat := 0
  t2Trigger : Bool := false
  lastConf : Option Nat := none
  nextT3 : Nat := 0
  outstandingTestFR : Nat := 0
  uTimeout : Nat := 0
  sock : Sock := {}
  log : List Obs := []
  deriving Repr, Inhabited

def emit (c : Cli) (o : Obs) : Cli := { c with log := c.log ++ [o] }

/-- `writeToSocket` (result ignored by the client) -/
def write (c : Cli) (b : List Nat) : Cli :=
  -- no socket before the thread created it and after it destroyed it (phases 0, 1, 4)
  if !(c.phase = 2 || c.phase = 3) then c
  else if c.sock.writeFail || c.sock.peerClosed then c else emit c (.tx b)

def STARTDT_ACT : List Nat := [0x68, 4, 0x07, 0, 0, 0]
def STOPDT_ACT : List Nat := [0x68, 4, 0x13, 0, 0, 0]

/-- `confirmOutstandingMessages` -/
def confirmOutstanding (c : Cli) : Cli :=
  let c := { c with lastConf := some c.now, unconf := 0, t2Trigger := false }
  write c [0x68, 4, 1, 0, seqLo c.vr, seqHi c.vr]

/-- `resetConnection` -/
def resetConnection (c : Cli) : Cli :=
  { c with recvBuf := [], running := false, failure := false, close := false, vr := 0, vs := 0, unconf := 0,
           lastConf := none, t2Trigger := false, win := [],
           maxSent := some (c.maxSent.getD c.p.k), outstandingTestFR := 0, uTimeout := 0, conState := 0,
           nextT3 := c.now + c.p.t3 * 1000 }

/-- `checkMessage`: false = close -/
def checkMessage (c : Cli) (buf : List Nat) : Cli × Bool :=
  let n := buf.length
  let b2 := buf.getD 2 0
  let t3 (c : Cli) : Cli := { c with nextT3 := c.now + c.p.t3 * 1000 }
  -- an APDU is at least the six octets of the APCI; anything shorter closes the connection
  if n < 6 then (c, false)
  else if b2 &&& 1 == 0 then
    let c := if !c.t2Trigger then { c with t2Trigger := true, lastConf := some c.now } else c
    if n < 7 then (c, false)
    else
      let ns := (buf.getD 3 0 * 0x100 + (b2 &&& 0xfe)) / 2
      let nr := (buf.getD 5 0 * 0x100 + (buf.getD 4 0 &&& 0xfe)) / 2
      if ns != c.vr then (c, false)
      else
        let (ok, win', _) := checkSeq c.vs c.win nr
        let c := { c with win := win' }
        if !ok then (c, false)
        else
          let c := { c with vr := (c.vr + 1) % 32768, unconf := c.unconf + 1 }
          if n - 6 < c.p.asduHdr then (c, false)
          else (t3 (emit c (.asdu (buf.drop 6))), true)
  else if b2 &&& 0x03 == 0x03 then
    let c := { c with uTimeout := 0 }
    let c :=
      if b2 == 0x43 then write c TESTFR_CON
      else if b2 == 0x83 then { c with outstandingTestFR := 0 }
      else if b2 == 0x07 then { (write c STARTDT_CON) with conState := 2 }
      else if b2 == 0x0b then { c with conState := 2 }
      else if b2 == 0x23 then { c with conState := 1 }
      else c
    (t3 c, true)
  else if b2 == 0x01 then
    let nr := (buf.getD 4 0 + buf.getD 5 0 * 0x100) / 2
    let (ok, win', _) := checkSeq c.vs c.win nr
    let c := { c with win := win' }
    if !ok then (c, false) else (t3 c, true)
  else (t3 c, true)

/-- `handleTimeouts`, T3 part: TESTFR act when nothing was received for t3; false = close (three unconfirmed) -/
def phaseT3 (c : Cli) : Cli × Bool :=
  if c.now > c.nextT3 then
    if c.outstandingTestFR > 2 then (c, false)
    else
      let c := write c TESTFR_ACT
      ({ c with uTimeout := c.now + c.p.t1 * 1000, outstandingTestFR := c.outstandingTestFR + 1,
                nextT3 := c.now + c.p.t3 * 1000 }, true)
  else (c, true)

/-- T2 part: acknowledge when the first unacknowledged I-frame is t2 old -/
def phaseT2 (c : Cli) : Cli :=
  if c.unconf > 0 then
    match c.lastConf with
    | some l => if c.now > l && c.now - l ≥ c.p.t2 * 1000 then confirmOutstanding c else c
    | none => c
  else c

/-- T1 part: a U-format act or the oldest I-frame unconfirmed for t1; false = close -/
def phaseT1 (c : Cli) : Cli × Bool :=
  if c.uTimeout != 0 && c.now > c.uTimeout then (c, false)
  else
    match c.win with
    | [] => (c, true)
    | e :: _ => if c.now > e.sentTime && c.now - e.sentTime ≥ c.p.t1 * 1000 then (c, false) else (c, true)

/-- `handleTimeouts`: false = close -/
def handleTimeouts (c : Cli) : Cli × Bool :=
  let r1 := phaseT3 c
  if !r1.2 then r1 else phaseT1 (phaseT2 r1.1)

/-- what the thread does after the loop: confirm, destroy the socket, report -/
def finish (c : Cli) (event : String) : Cli :=
  let c := if c.unconf > 0 then confirmOutstanding c else c
  let c := { c with conState := 0, running := false, phase := 4 }
  emit c (.ev event)

/-- the `w` test after every received message (also acknowledges before STOPDT con is awaited) -/
def ackIfW (c : Cli) : Cli :=
  if c.unconf ≥ c.p.w || c.conState == 4 then confirmOutstanding c else c

/-- what a received message does in the loop: `checkMessage`, the state-change notifications, the `w` test -/
def onMessage (c : Cli) (msg : List Nat) (lr : Bool) : Cli × Bool :=
  let old := c.conState
  let (c, ok) := checkMessage c msg
  let (c, lr) := if !ok then ({ c with failure := true }, false) else (c, lr)
  let c := if c.conState != old then
      (if c.conState == 2 then emit c (.ev "STARTDT_CON") else if c.conState == 1 then emit c (.ev "STOPDT_CON") else c)
    else c
  (c, lr)

/-- the reception part of one loop iteration -/
def loopRecv (c : Cli) : Cli × Bool :=
  if c.sock.readable then
    let (buf, sk, r, msg) := recvStep c.recvBuf c.sock
    let c := { c with recvBuf := buf, sock := sk }
    let (c, lr) := if r = -1 then ({ c with failure := true }, false) else (c, true)
    let (c, lr) := if r > 0 then onMessage c msg lr else (c, lr)
    (ackIfW c, lr)
  else (c, true)

/-- one loop iteration up to the decision whether the loop goes on -/
def loopBody (c : Cli) : Cli × Bool :=
  let (c, loopRunning) := loopRecv c
  let (c, ok) := handleTimeouts c
  let loopRunning := loopRunning && ok
  (c, loopRunning && !c.close)

/-- one loop iteration: from the return of `Handleset_waitReady` to the next call -/
def loopIter (c : Cli) : Cli :=
  let (c, loopRunning) := loopBody c
  if loopRunning then c else finish c "CLOSED"

/-- run the thread from its current blocking point to the next one -/
def step (c : Cli) : Cli :=
  if c.phase = 1 then { (resetConnection c) with phase := 2 }
  else if c.phase = 2 then
    if c.connectOk then
      let c := { c with running := true, conState := 1 }
      { (emit c (.ev "OPENED")) with phase := 3 }
    else
      let c := { c with failure := true }
      finish c "FAILED"
  else if c.phase = 3 then loopIter c
  else c

/-- `CS104_Connection_connectAsync` (no previous thread) -/
def connectAsync (c : Cli) : Cli := { c with running := false, failure := false, close := false, phase := 1 }

def runToEnd : Nat → Cli → Cli
  | 0, c => c
  | f + 1, c => if c.phase = 4 || c.phase = 0 then c else runToEnd f (step c)

/-- `CS104_Connection_close`: set the flag and join the thread -/
def closeConn (c : Cli) : Cli :=
  let c := { c with close := true }
  let c := runToEnd 100 c
  { c with phase := 0 }

/-- `sendIMessageAndUpdateSentASDUs` via `sendASDUInternal` -/
def sendAsdu (c : Cli) (asdu : List Nat) : Cli × Bool :=
  if c.running then
    if !isFull (c.maxSent.getD c.p.k) c.win then
      let frame := [0x68, (asdu.length + 4) % 256, seqLo c.vs, seqHi c.vs, seqLo c.vr, seqHi c.vr] ++ asdu
      let c := write c frame
      let c := { c with vs := (c.vs + 1) % 32768, unconf := 0, t2Trigger := false }
      ({ c with win := c.win ++ [{ seq := c.vs, sentTime := c.now, qref := none }] }, true)
    else (c, false)
  else (c, false)

/-- `CS104_Connection_sendStartDT` / `sendStopDT` -/
def sendStartDT (c : Cli) : Cli := write { c with conState := 3 } STARTDT_ACT
def sendStopDT (c : Cli) : Cli :=
  let c := confirmOutstanding c
  write { c with conState := 4 } STOPDT_ACT

end Iec.Cli104
