import Iec.Model.FileSrv
import Iec.Model.Asdu
/-
Byte layer of the file-service model: how a received ASDU becomes a `Req`
(`CS101_ASDU_getTypeID/getCOT/isNegative/getCA/getOA` + `CS101_ASDU_getElementEx(asdu, 0)`)
and how an `Out` becomes the ASDU handed to `IMasterConnection_sendASDU`
(`CS101_ASDU_initializeStatic` + `<Type>_create` + `CS101_ASDU_addInformationObject`).
-/
namespace Iec.FileSrv
open Iec.Asdu Iec.Layout

def toBody (tid ioa : Nat) (vals : List Nat) : Option Body :=
  match tid, vals with
  | 120, [nof, lof, frq] => some (.fileReady ioa nof lof frq)
  | 121, [nof, nos, los, srq] => some (.sectionReady ioa nof nos los srq)
  | 122, [nof, nos, scq] => some (.callSel ioa nof nos scq)
  | 123, [nof, nos, lsq, chs] => some (.lastSeg ioa nof nos lsq chs)
  | 124, [nof, nos, afq] => some (.ack ioa nof nos afq)
  | 125, [nof, nos, los, d] => some (.segment ioa nof nos (leBytes los d))
  | _, _ => none

def decodeReq (a : Asdu) : Req :=
  { tid := a.typeId, cot := a.cot, neg := a.isNegative, ca := a.ca,
    oa := if a.p.sizeOfCOT < 2 then 255 else a.byte 3,
    obj := (a.getElement 0).bind fun (ioa, vals) => toBody a.typeId ioa vals }

/-- type id and stored members of the object the server creates for a message -/
def smsgObj (nof : Nat) : SMsg → Nat × List Nat
  | .fileReady lof pos => (120, [nof, lof, if pos then 0 else 0x80])
  | .sectionReady nos size => (121, [nof, nos, size, 0])
  | .segment nos data => (125, [nof, nos, data.length, leVal data])
  | .lastSegment nos chs => (123, [nof, nos, 3, chs])
  | .lastSection nos chs => (123, [nof, nos, 1, chs])
  | .ack nos afq => (124, [nof, nos, afq])
  | .callFile => (122, [nof, 0, 2])
  | .callSection nos => (122, [nof, nos, 6])

/-- the ASDU of a `send` event (what `IMasterConnection_sendASDU` receives) -/
def renderSend (p : Params) (oa ca ioa nof : Nat) (m : SMsg) : Asdu :=
  let (tid, vals) := smsgObj nof m
  match lookup tid with
  | some e => ((create p false cotFile oa ca false false).add e ioa vals).1
  | none => create p false cotFile oa ca false false

/-- the incoming ASDU after `setCOT` / `setNegative(true)` -/
def renderMirror (a : Asdu) (cot : Option Nat) (setNeg : Bool) : Asdu :=
  let a := if setNeg then a.setNegative true else a
  match cot with
  | some c => a.setCot c
  | none => a

/-- `FileSegment_GetMaxDataSize` (cs101_information_objects.c:7413-7421) -/
def maxSegOf (p : Params) : Nat := p.maxSize - p.hdrLen - p.sizeOfIOA - 4

end Iec.FileSrv
