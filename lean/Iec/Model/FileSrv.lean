/-
Model of lib60870-C/src/file-service/file_server.c (the file-service plugin of the slaves):
`CS101_FileServer_handleAsdu` and `CS101_FileServer_runTask` as one step function over
decoded requests.  The application side (file provider, files-available interface,
file-ready handler, file receiver) is the explicit environment `Env`; every call into it and
every ASDU handed to `IMasterConnection_sendASDU` is an output event, in program order.

Core Lean only (the driver links this file).  The byte layer (`decodeReq`, `renderSend`)
ties requests and responses to the ASDU codec model `Iec.Asdu`.
-/
namespace Iec.FileSrv

/-- `FileServerState` (file_server.c:28-40) -/
inductive St where
  | idle | waitFileCall | waitSectionCall | transmit | waitSectionAck | waitFileAck
  | sendAbort | completed | waitSectionReady | receiveSection
  deriving DecidableEq, Repr, Inhabited

/-- a file is its list of sections, each a list of octets -/
abbrev File := List (List Nat)

/-- `getSectionSize(file, k)`: 0 for a section that does not exist -/
def sectionSize (f : File) (k : Int) : Nat := if k < 0 then 0 else (f.getD k.toNat []).length
/-- `getFileSize` -/
def fileSize (f : File) : Nat := f.flatten.length
/-- `getSegmentData(file, k, off, n)` -/
def segData (f : File) (k : Int) (off n : Nat) : List Nat :=
  if k < 0 then [] else ((f.getD k.toNat []).drop off).take n
/-- `calculateChecksum` (uint8_t sum) -/
def chk (d : List Nat) : Nat := d.sum % 256

/-- the application behind the plugin -/
structure Env where
  file : File
  fca : Nat
  fioa : Nat
  fnof : Nat
  /-- files-available interface installed -/
  hasFiles : Bool
  /-- file-ready handler installed -/
  hasReady : Bool
  /-- the file-ready handler returns a receiver -/
  accept : Bool
  /-- error code it sets when it does not -/
  readyErr : Nat
  deriving Repr, Inhabited

/-- `getFile(ca, ioa, nof, &errCode)` of the harness / example provider:
`some ()` = the file, otherwise the error code -/
def Env.getFile (e : Env) (ca ioa nof : Nat) : Option Unit × Nat :=
  if !e.hasFiles then (none, 0)
  else if ca ≠ e.fca then (none, 1)
  else if ioa ≠ e.fioa then (none, 2)
  else if nof ≠ e.fnof then (none, 0)
  else (some (), 0)

structure Srv where
  st : St := .idle
  ca : Nat := 0
  ioa : Nat := 0
  oa : Nat := 0
  nof : Nat := 0
  lastSend : Nat := 0
  secNo : Nat := 0
  secOff : Nat := 0
  secSize : Nat := 0
  secChk : Nat := 0
  fileChk : Nat := 0
  maxSeg : Nat := 0
  expLen : Nat := 0
  recvLen : Nat := 0
  timeout : Nat := 3000
  /-- `selectedFile != NULL` -/
  selected : Bool := false
  selConn : Option Nat := none
  /-- `fileReceiver != NULL` -/
  receiver : Bool := false
  deriving DecidableEq, Repr, Inhabited

/-- decoded information object of a file-service ASDU -/
inductive Body where
  | fileReady (ioa nof lof frq : Nat)
  | sectionReady (ioa nof nos los srq : Nat)
  | callSel (ioa nof nos scq : Nat)
  | lastSeg (ioa nof nos lsq chs : Nat)
  | ack (ioa nof nos afq : Nat)
  | segment (ioa nof nos : Nat) (data : List Nat)
  deriving DecidableEq, Repr, Inhabited

/-- one ASDU handed to the plugin: header fields and the result of `CS101_ASDU_getElementEx(asdu, 0)`
(`none` = the decoder returned NULL) -/
structure Req where
  tid : Nat
  cot : Nat
  neg : Bool
  ca : Nat
  /-- `CS101_ASDU_getOA` as the octet that is stored / sent back (255 when there is none) -/
  oa : Nat
  obj : Option Body
  deriving DecidableEq, Repr, Inhabited

/-- ASDUs the server builds itself (COT = file transfer, CA/IOA/NOF from the server state) -/
inductive SMsg where
  | fileReady (lof : Nat) (positive : Bool)
  | sectionReady (nos size : Nat)
  | segment (nos : Nat) (data : List Nat)
  | lastSegment (nos chs : Nat)
  | lastSection (nos chs : Nat)
  | ack (nos afq : Nat)
  | callFile
  | callSection (nos : Nat)
  deriving DecidableEq, Repr, Inhabited

inductive Out where
  /-- ASDU built by the server and sent on connection `conn` -/
  | send (conn oa ca ioa nof : Nat) (m : SMsg)
  /-- the incoming ASDU sent back with the cause (`some c`) and / or the negative flag rewritten -/
  | mirror (conn : Nat) (cot : Option Nat) (setNeg : Bool)
  | getFile (ca ioa nof : Nat)
  | readyCb (ca ioa nof lof : Nat)
  | complete (ok : Bool)
  | segRecv (nos off : Nat) (data : List Nat)
  | finished (code : Nat)
  deriving DecidableEq, Repr, Inhabited

def cotFile : Nat := 13
def cotReq : Nat := 5
def cotUnknownCA : Nat := 46
def cotUnknownIOA : Nat := 47

/-- the server's own ASDU with the current CA / IOA / NOF -/
def Srv.send (s : Srv) (conn oa : Nat) (m : SMsg) : Out := .send conn oa s.ca s.ioa s.nof m

/-- timeout test at the head of handleAsdu and at the end of runTask -/
def Srv.expire (s : Srv) (now : Nat) : Srv :=
  if s.st ≠ .idle ∧ now > s.lastSend + s.timeout then { s with st := .idle } else s

/-- F_FR_NA_1: the master announces a file it wants to send (file_server.c:302-365) -/
def onFileReady (e : Env) (s : Srv) (conn now : Nat) (r : Req) : Srv × List Out :=
  if !e.hasReady then (s, [.mirror conn (some cotUnknownIOA) true])
  else match r.obj with
    | some (.fileReady ioa nof lof _) =>
      let cb := Out.readyCb r.ca ioa nof lof
      if e.accept then
        let s := { s with receiver := true, ca := r.ca, ioa := ioa, oa := r.oa, nof := nof, fileChk := 0,
                          expLen := lof, recvLen := 0 }
        ({ s with lastSend := now, st := .waitSectionReady }, [cb, s.send conn r.oa .callFile])
      else
        let s := { s with receiver := false }
        if e.readyErr = 1 then (s, [cb, .mirror conn (some cotUnknownCA) true])
        else if e.readyErr = 2 then (s, [cb, .mirror conn (some cotUnknownIOA) true])
        else
          let s := { s with ca := r.ca, ioa := ioa, nof := nof }
          (s, [cb, s.send conn r.oa (.fileReady 0 false)])
    | _ => (s, [])

/-- F_SR_NA_1 (file_server.c:367-385) -/
def onSectionReady (s : Srv) (conn now : Nat) (r : Req) : Srv × List Out :=
  if s.st = .waitSectionReady then
    match r.obj with
    | some (.sectionReady _ _ nos los _) =>
      let s := { s with secNo := nos, secOff := 0, secChk := 0, secSize := los }
      ({ s with lastSend := now, st := .receiveSection }, [s.send conn r.oa (.callSection nos)])
    | _ => (s, [])
  else (s, [])

/-- F_SG_NA_1 (file_server.c:387-412) -/
def onSegment (s : Srv) (now : Nat) (r : Req) : Srv × List Out :=
  if s.st = .receiveSection then
    match r.obj with
    | some (.segment _ _ nos data) =>
      ({ s with secOff := s.secOff + data.length, secChk := (s.secChk + chk data) % 256, lastSend := now },
        if s.receiver then [.segRecv nos s.secOff data] else [])
    | _ => (s, [])
  else (s, [])

/-- F_LS_NA_1 (file_server.c:414-502) -/
def onLastSeg (s : Srv) (conn now : Nat) (r : Req) : Srv × List Out :=
  match r.obj with
  | some (.lastSeg _ _ nos lsq chs) =>
    if s.st = .receiveSection then
      if lsq = 3 then
        if s.secOff = s.secSize ∧ chs = s.secChk then
          ({ s with recvLen := s.recvLen + s.secSize, fileChk := (s.fileChk + s.secChk) % 256,
                    lastSend := now, st := .waitSectionReady },
            [s.send conn r.oa (.ack nos 3)])
        else ({ s with lastSend := now, st := .waitSectionReady }, [s.send conn r.oa (.ack nos 4)])
      else if lsq = 2 then
        ({ s with st := .idle }, if s.receiver then [.finished 8] else [])
      else (s, [])
    else if s.st = .waitSectionReady then
      if lsq = 1 then
        let complete := s.recvLen = s.expLen ∧ chs = s.fileChk
        ({ s with lastSend := now, st := .idle },
          [s.send conn r.oa (.ack nos (if complete then 1 else 2))] ++
          (if s.receiver then [.finished (if complete then 0 else 7)] else []))
      else if lsq = 2 then
        ({ s with st := .idle }, if s.receiver then [.finished 8] else [])
      else (s, [])
    else (s, [])
  | _ => (s, [])

/-- F_AF_NA_1 (file_server.c:504-631) -/
def onAck (e : Env) (s : Srv) (conn now : Nat) (r : Req) : Srv × List Out :=
  if s.st = .idle then (s, [.mirror conn (some cotUnknownCA) false])
  else match r.obj with
    | some (.ack _ _ _ afq) =>
      if afq = 1 then
        if s.st = .waitFileAck then
          ({ s with selected := false, selConn := none, st := .idle }, if s.selected then [.complete true] else [])
        else ({ s with st := .sendAbort }, [])
      else if afq % 16 = 2 then
        if s.st = .waitFileAck then
          ({ s with selected := false, selConn := none, st := .idle }, if s.selected then [.complete false] else [])
        else ({ s with st := .sendAbort }, [])
      else if afq % 16 = 4 then
        if s.st = .waitSectionAck then
          let s := { s with secOff := 0, secChk := 0 }
          ({ s with lastSend := now, st := .transmit }, [s.send conn r.oa (.sectionReady s.secNo s.secSize)])
        else ({ s with st := .sendAbort }, [])
      else if afq % 16 = 3 then
        if s.st = .waitSectionAck then
          let s := { s with fileChk := (s.fileChk + s.secChk) % 256, secNo := (s.secNo + 1) % 256 }
          let next := sectionSize e.file ((s.secNo : Int) - 1)
          let s := { s with secOff := 0 }
          if next = 0 then
            ({ s with lastSend := now, st := .waitFileAck, secChk := 0 }, [s.send conn r.oa (.lastSection s.secNo s.fileChk)])
          else
            let s := { s with secSize := next }
            ({ s with lastSend := now, st := .waitSectionCall, secChk := 0 }, [s.send conn r.oa (.sectionReady s.secNo next)])
        else ({ s with st := .sendAbort }, [])
      else (s, [])
    | _ => (s, [])

/-- F_SC_NA_1 (file_server.c:633-858) -/
def onCallSel (e : Env) (s : Srv) (conn now : Nat) (r : Req) : Srv × List Out :=
  if r.cot ≠ cotFile then (s, [])
  else match r.obj with
    | some (.callSel ioa nof nos scq) =>
      if scq = 1 then
        if s.st = .idle then
          let cb := if e.hasFiles then [Out.getFile r.ca ioa nof] else []
          match e.getFile r.ca ioa nof with
          | (none, err) =>
            if err = 1 then (s, cb ++ [.mirror conn (some cotUnknownCA) true])
            else if err = 2 then (s, cb ++ [.mirror conn (some cotUnknownIOA) true])
            else
              let s := { s with ca := r.ca, ioa := ioa, nof := nof }
              (s, cb ++ [s.send conn r.oa (.fileReady 0 false)])
          | (some _, _) =>
            let s := { s with selected := true, selConn := some conn, ioa := ioa, ca := r.ca, nof := nof }
            ({ s with lastSend := now, st := .waitFileCall }, cb ++ [s.send conn r.oa (.fileReady (fileSize e.file) true)])
        else (s, [])
      else if scq = 3 then
        if s.st = .idle then ({ s with selected := false, selConn := none }, []) else (s, [])
      else if scq = 2 then
        if s.st = .waitFileCall then
          if ioa ≠ s.ioa ∨ r.ca ≠ s.ca then
            (s, [.mirror conn (some (if r.ca ≠ s.ca then cotUnknownCA else cotUnknownIOA)) true])
          else
            let s := { s with secNo := 1, secOff := 0, secChk := 0, fileChk := 0, secSize := sectionSize e.file 0 }
            ({ s with lastSend := now, st := .waitSectionCall }, [s.send conn r.oa (.sectionReady 1 s.secSize)])
        else (s, [])
      else if scq = 6 then
        if s.st = .waitSectionCall then
          if ioa ≠ s.ioa ∨ r.ca ≠ s.ca then
            (s, [.mirror conn (some (if r.ca ≠ s.ca then cotUnknownCA else cotUnknownIOA)) true])
          else if r.neg then
            let s := { s with secNo := (s.secNo + 1) % 256, secOff := 0 }
            let s := { s with secSize := sectionSize e.file ((s.secNo : Int) - 1) }
            if s.secSize > 0 then
              ({ s with lastSend := now, st := .waitSectionCall }, [s.send conn r.oa (.sectionReady s.secNo s.secSize)])
            else
              ({ s with lastSend := now, st := .waitFileAck }, [s.send conn r.oa (.lastSection s.secNo s.fileChk)])
          else
            -- the section that was announced, and only that one, may be called
            if nos = s.secNo ∧ sectionSize e.file ((nos : Int) - 1) > 0 then
              ({ s with secSize := sectionSize e.file ((nos : Int) - 1), secNo := nos, secOff := 0, st := .transmit }, [])
            else
              ({ s with lastSend := now }, [.mirror conn none true])
        else (s, [])
      else (s, [])
    | _ => (s, [])

/-- `CS101_FileServer_handleAsdu`: `none` = not a file-service type (NOT_HANDLED) -/
def handleAsdu (e : Env) (s : Srv) (conn now : Nat) (r : Req) : Option (Srv × List Out) :=
  if r.tid < 120 ∨ r.tid > 127 then none
  else
    let s := s.expire now
    some <|
      if r.tid = 120 then onFileReady e s conn now r
      else if r.tid = 121 then onSectionReady s conn now r
      else if r.tid = 125 then onSegment s now r
      else if r.tid = 123 then onLastSeg s conn now r
      else if r.tid = 124 then onAck e s conn now r
      else if r.tid = 122 then onCallSel e s conn now r
      else (s, [])

/-- `sendSegment` / `sendLastSegment` (file_server.c:203-267): the part of `runTask` that transmits -/
def pumpStep (e : Env) (s : Srv) (conn now : Nat) : Srv × List Out :=
  if s.st = .transmit ∧ s.selConn = some conn ∧ s.selected then
    let n := s.secSize - s.secOff
    if n > 0 then
      let n := if n > s.maxSeg then s.maxSeg else n
      let d := segData e.file ((s.secNo : Int) - 1) s.secOff n
      ({ s with secOff := s.secOff + n, lastSend := now, secChk := (s.secChk + chk d) % 256 },
        [s.send conn s.oa (.segment s.secNo d)])
    else
      ({ s with lastSend := now, st := .waitSectionAck }, [s.send conn s.oa (.lastSegment s.secNo s.secChk)])
  else (s, [])

/-- `CS101_FileServer_runTask` (file_server.c:871-903): pump, then the supervision time -/
def runTask (e : Env) (s : Srv) (conn now : Nat) : Srv × List Out :=
  if s.st = .idle then (s, [])
  else
    let p := pumpStep e s conn now
    (if now > p.1.lastSend + p.1.timeout then { p.1 with st := .idle } else p.1, p.2)

inductive Op where
  | asdu (conn now : Nat) (r : Req)
  | task (conn now : Nat)
  deriving Repr, Inhabited

def step (e : Env) (s : Srv) : Op → Srv × List Out
  | .asdu conn now r => (handleAsdu e s conn now r).getD (s, [])
  | .task conn now => runTask e s conn now

/-- run a whole history, collecting the outputs in order -/
def run (e : Env) : Srv → List Op → Srv × List Out
  | s, [] => (s, [])
  | s, op :: ops =>
    let (s1, o1) := step e s op
    let (s2, o2) := run e s1 ops
    (s2, o1 ++ o2)

end Iec.FileSrv
