/-
Model of the CS101 link layer: lib60870-C/src/iec60870/link_layer/link_layer.c and
serial_transceiver_ft_1_2.c (FT 1.2 framing, the four link-layer roles).

The C code keeps one 261-octet `buffer` per link layer, used both for the frame being
received and for the frame being sent; parsers index into it without re-checking the
received length, so octets left over from earlier frames can be read for malformed
short frames.  The model therefore carries the buffer itself (`buf`, 261 octets) and
reads it exactly where the C code does.

The application layer is a parameter of the C code (function-pointer tables); here it
is the simplest stand-in, identical to the stubs of harness/ll101.c: queues of octet
strings that `GetClass1Data` / `GetClass2Data` / `GetUserData` pop, and a Boolean that
`HandleReceivedData` returns.  The real application layers (cs101_slave.c,
cs101_master.c) are exercised end to end by harness/e2e101.c (C16).
Time is the virtual clock of the simulated HAL, in ms.
-/
namespace Iec.Link101

structure Params where
  addrLen : Nat
  tAck : Nat
  tRepeat : Nat
  singleAck : Bool
  tLinkState : Nat
  /-- the configurations the library documents: no address, one or two octets -/
  hA : addrLen ≤ 2
  deriving Repr, DecidableEq

instance : Inhabited Params := ⟨⟨0, 0, 0, false, 0, by omega⟩⟩

def sum8 (l : List Nat) : Nat := l.foldl (fun s x => (s + x) % 256) 0

/-- **What "a well-formed FT 1.2 frame carrying the configured address width" means**,
stated on the octets alone (independent of the encoder below): the single character E5;
or `10 C A* CS 16` with `aL` address octets and CS the modulo-256 sum of C and A; or
`68 L L 68 C A* data CS 16` where both length octets are equal, give the true number of
octets between the second start octet and the checksum, leave room for C and A, and CS
is the modulo-256 sum of those `L` octets. -/
def WellFormed (aL : Nat) (f : List Nat) : Prop :=
  f = [0xe5] ∨
  (f.length = 4 + aL ∧ f[0]? = some 0x10 ∧ f[3 + aL]? = some 0x16 ∧
    f[2 + aL]? = some (sum8 ((f.drop 1).take (1 + aL)))) ∨
  (∃ L, f.length = L + 6 ∧ L ≤ 255 ∧ 1 + aL ≤ L ∧ f[0]? = some 0x68 ∧ f[1]? = some L ∧ f[2]? = some L ∧
    f[3]? = some 0x68 ∧ f[L + 5]? = some 0x16 ∧ f[L + 4]? = some (sum8 ((f.drop 4).take L)))

/-- a frame handed to the serial port, with the evidence that it is well-formed: every
`Obs.tx` of the model carries one, so "every frame the stack writes is well-formed" holds
for every execution of the model by construction (`Iec.Props.C14.every_tx_wellformed`) -/
structure TxFrame where
  aL : Nat
  bytes : List Nat
  wf : WellFormed aL bytes
  deriving DecidableEq, Repr

inductive Obs where
  | tx (f : TxFrame)
  /-- `HandleReceivedData` on a secondary / balanced station -/
  | rx (bc : Bool) (d : List Nat)
  | resetCU (onlyFcb : Bool)
  /-- link state callback: slave address (-1 when not applicable), new state -/
  | st (addr : Int) (s : Nat)
  /-- primary unbalanced: `UserData` -/
  | ud (addr : Int) (d : List Nat)
  | ad (addr : Int)
  deriving Repr, DecidableEq

instance : Inhabited Obs := ⟨.ad 0⟩

/-! ### FT 1.2 encoding (SendFixedFrame, SendVariableLengthFrame, SendSingleCharCharacter) -/

def b2n (b : Bool) : Nat := if b then 1 else 0

/-- the control octet: `fc & 0x0f`, `+0x40` PRM, `+0x80` DIR, `+0x20` ACD/FCB, `+0x10` DFC/FCV -/
def ctrl (fc : Nat) (prm dir acd dfc : Bool) : Nat :=
  (fc % 16 + 0x40 * b2n prm + 0x80 * b2n dir + 0x20 * b2n acd + 0x10 * b2n dfc) % 256

def addrBytes (aL : Nat) (address : Nat) : List Nat :=
  (if aL > 0 then [address % 256] else []) ++ (if aL > 1 then [address / 256 % 256] else [])

def fixedFrame (aL : Nat) (c address : Nat) : List Nat :=
  let body := c :: addrBytes aL address
  [0x10] ++ body ++ [sum8 body, 0x16]

/-- `none`: the C function returns without sending (`l > 255`) -/
def varFrame (aL : Nat) (c address : Nat) (data : List Nat) : Option (List Nat) :=
  let l := 1 + aL + data.length
  if l > 255 then none
  else
    let body := c :: addrBytes aL address ++ data
    some ([0x68, l, l, 0x68] ++ body ++ [sum8 body, 0x16])

def singleChar : List Nat := [0xe5]

/-! ### the encoders produce well-formed frames (the evidence carried by `TxFrame`) -/

theorem addrBytes_length (aL a : Nat) (h : aL ≤ 2) : (addrBytes aL a).length = aL := by
  have : aL = 0 ∨ aL = 1 ∨ aL = 2 := by omega
  rcases this with rfl | rfl | rfl <;> simp [addrBytes]

theorem fixedFrame_wf (aL c a : Nat) (h : aL ≤ 2) : WellFormed aL (fixedFrame aL c a) := by
  have : aL = 0 ∨ aL = 1 ∨ aL = 2 := by omega
  right; left
  rcases this with rfl | rfl | rfl <;> simp [fixedFrame, addrBytes]

theorem varFrame_wf (aL c a : Nat) (d f : List Nat) (h : aL ≤ 2) (hv : varFrame aL c a d = some f) :
    WellFormed aL f := by
  have h3 : aL = 0 ∨ aL = 1 ∨ aL = 2 := by omega
  right; right
  unfold varFrame at hv
  simp only at hv
  split at hv
  · cases hv
  · rename_i hl
    injection hv with hv
    subst hv
    refine ⟨1 + aL + d.length, ?_, by omega, by omega, ?_⟩
    · rcases h3 with rfl | rfl | rfl <;> simp [addrBytes] <;> omega
    · rcases h3 with rfl | rfl | rfl
      · simp [addrBytes]
        rw [Nat.add_comm 1 d.length]
        simp
      · simp [addrBytes]
        rw [show 1 + 1 + d.length = d.length + 1 + 1 by omega]
        simp
      · simp [addrBytes]
        rw [show 1 + 2 + d.length = d.length + 1 + 1 + 1 by omega]
        simp

theorem single_wf (aL : Nat) : WellFormed aL singleChar := Or.inl rfl

/-! ### the shared buffer -/

def bufSize : Nat := 261

/-- write `bytes` into `buf` from position `pos` -/
def writeAt (buf : List Nat) (pos : Nat) (bytes : List Nat) : List Nat :=
  buf.take pos ++ bytes ++ buf.drop (pos + bytes.length)

/-- SendVariableLengthFrame writes octets 0,3,4.. and the address *before* the length
check, so a refused frame still changes the buffer -/
def varFramePartial (aL : Nat) (buf : List Nat) (c address : Nat) : List Nat :=
  let buf := writeAt buf 0 [0x68]
  let buf := writeAt buf 3 [0x68, c]
  writeAt buf 5 (addrBytes aL address)

structure LL where
  p : Params
  address : Nat
  dir : Bool := false
  buf : List Nat := List.replicate bufSize 0
  /-- userDataBuffer[0..userDataSize) -/
  userData : List Nat := []
  deriving Repr, DecidableEq

def LL.sendFixed (l : LL) (fc address : Nat) (prm dir acd dfc : Bool) : LL × List Obs :=
  let f := fixedFrame l.p.addrLen (ctrl fc prm dir acd dfc) address
  ({ l with buf := writeAt l.buf 0 f }, [.tx ⟨l.p.addrLen, f, fixedFrame_wf _ _ _ l.p.hA⟩])

def LL.sendVar (l : LL) (fc address : Nat) (prm dir acd dfc : Bool) (data : List Nat) : LL × List Obs :=
  let c := ctrl fc prm dir acd dfc
  match hv : varFrame l.p.addrLen c address data with
  | none => ({ l with buf := varFramePartial l.p.addrLen l.buf c address }, [])
  | some f => ({ l with buf := writeAt l.buf 0 f }, [.tx ⟨l.p.addrLen, f, varFrame_wf _ _ _ _ _ l.p.hA hv⟩])

def LL.sendSingle (l : LL) : LL × List Obs := (l, [.tx ⟨l.p.addrLen, singleChar, single_wf _⟩])

/-! ### SerialTransceiverFT12_readNextMessage

`q` is what the serial port holds; a read on an empty port returns -1 at once (the
simulated port has no timeouts: what is not there when the frame is read is a gap
longer than the character timeout).  Returns the new port content, the new buffer and
the size of the delimited message (`none`: nothing handed to the link layer). -/
def readNext (aL : Nat) (q : List Nat) (buf : List Nat) : List Nat × List Nat × Option Nat :=
  match q with
  | [] => ([], buf, none)
  | 0x68 :: rest =>
    match rest with
    | [] => ([], buf, none)                         -- sync error: discard
    | l :: rest' =>
      let buf := writeAt buf 0 [0x68, l]
      let want := l + 4
      let got := rest'.take want
      let buf := writeAt buf 2 got
      if got.length = want then (rest'.drop want, buf, some (want + 2))
      else ([], buf, none)                          -- ran dry: everything read so far is lost
  | 0x10 :: rest =>
    let buf := writeAt buf 0 [0x10]
    let want := 3 + aL
    let got := rest.take want
    let buf := writeAt buf 1 got
    if got.length = want then (rest.drop want, buf, some (want + 1))
    else ([], buf, none)
  | 0xe5 :: rest => (rest, writeAt buf 0 [0xe5], some 1)
  | _ :: _ => ([], buf, none)                       -- sync error: discard the port

/-! ### header parsing common to all roles -/

def g (buf : List Nat) (i : Nat) : Nat := buf.getD i 0

/-! ### secondary, unbalanced (the CS101 slave's link layer) -/

structure SecU where
  ll : LL
  state : Nat := 0
  expectedFcb : Bool := true
  lastReceived : Nat := 0
  idleTimeout : Nat := 500
  /-- stub application layer -/
  c1 : List (List Nat) := []
  c2 : List (List Nat) := []
  deriving Repr, DecidableEq

def SecU.setState (s : SecU) (n : Nat) : SecU × List Obs :=
  if s.state ≠ n then ({ s with state := n }, [.st (-1) n]) else (s, [])

def checkFCB (expected fcb : Bool) : Bool × Bool :=
  if fcb != expected then (false, expected) else (true, !expected)

def userDataOf (buf : List Nat) (start : Nat) (len : Int) : List Nat :=
  (buf.drop start).take len.toNat

/-- the response to a poll: the data (FC 8) or "no data" (single character when allowed, else FC 9) -/
def SecU.answer (s : SecU) (asdu : Option (List Nat)) : SecU × List Obs :=
  let acd := !s.c1.isEmpty
  match asdu with
  | some d =>
    let (l, o) := s.ll.sendVar 8 s.ll.address false false acd false d
    ({ s with ll := l }, o)
  | none =>
    if s.ll.p.singleAck && !acd then
      let (l, o) := s.ll.sendSingle; ({ s with ll := l }, o)
    else
      let (l, o) := s.ll.sendFixed 9 s.ll.address false false acd false
      ({ s with ll := l }, o)

/-- answer of a class-1 / class-2 poll -/
def SecU.poll (s : SecU) (cls1 : Bool) (fcb fcv : Bool) : SecU × List Obs :=
  let (valid, exp') := if fcv then checkFCB s.expectedFcb fcb else (true, s.expectedFcb)
  let s := { s with expectedFcb := exp' }
  -- which data goes out
  let (s, asdu) : SecU × Option (List Nat) :=
    if !valid then (s, if s.ll.userData.length > 0 then some s.ll.userData else none)
    else
      let (q, rest) := if cls1 then (s.c1.head?, s.c1.tail) else (s.c2.head?, s.c2.tail)
      let s := if cls1 then { s with c1 := rest } else { s with c2 := rest }
      match q with
      | some d => ({ s with ll := { s.ll with userData := d } }, some d)
      | none => ({ s with ll := { s.ll with userData := [] } }, none)
  s.answer asdu

/-- ACK as single character (when configured and allowed here) or fixed frame FC 0 -/
def SecU.ack (s : SecU) (acd singleOk : Bool) : SecU × List Obs :=
  if s.ll.p.singleAck && singleOk then
    let (l, o) := s.ll.sendSingle; ({ s with ll := l }, o)
  else
    let (l, o) := s.ll.sendFixed 0 s.ll.address false false acd false
    ({ s with ll := l }, o)

/-- FC 0 / FC 7: reset of the remote link / of the frame count bit -/
def SecU.reset (s : SecU) (fc : Nat) (fcb fcv : Bool) : SecU × List Obs :=
  if fcv || fcb then s.setState 1
  else
    let s := { s with expectedFcb := true }
    let (s, o) := s.ack false true
    (s, o ++ [.resetCU (fc = 7)])

/-- FC 3: user data, confirmed -/
def SecU.userData (s : SecU) (bc fcb fcv : Bool) (udStart : Nat) (udLen : Int) : SecU × List Obs :=
  let (valid, exp') := if fcv then checkFCB s.expectedFcb fcb else (true, s.expectedFcb)
  let s := { s with expectedFcb := exp' }
  let o := if valid && udLen > 0 then [Obs.rx bc (userDataOf s.ll.buf udStart udLen)] else []
  let acd := !s.c1.isEmpty
  let (s, o') := s.ack acd (!acd)
  (s, o ++ o')

def SecU.handleMessage (s : SecU) (fc : Nat) (bc fcb fcv : Bool) (udStart : Nat) (udLen : Int) :
    SecU × List Obs :=
  let (s, o0) := s.setState 3
  let (s, o1) : SecU × List Obs :=
    if fc = 9 then
      if fcv then s.setState 1
      else
        let (l, o) := s.ll.sendFixed 11 s.ll.address false false (!s.c1.isEmpty) false
        ({ s with ll := l }, o)
    else if fc = 0 ∨ fc = 7 then s.reset fc fcb fcv
    else if fc = 11 then s.poll false fcb fcv
    else if fc = 10 then s.poll true fcb fcv
    else if fc = 3 then s.userData bc fcb fcv udStart udLen
    else if fc = 4 then
      if fcv then s.setState 1
      else (s, if udLen > 0 then [Obs.rx bc (userDataOf s.ll.buf udStart udLen)] else [])
    else
      let (l, o) := s.ll.sendFixed 15 s.ll.address false false false false
      ({ s with ll := l }, o)
  (s, o0 ++ o1)

/-- outcome of the header checks of ParserHeaderSecondaryUnbalanced -/
inductive Verdict where
  /-- frame rejected, link state set to ERROR -/
  | error
  /-- addressed to another station: silently ignored -/
  | ignore
  | ok (fc : Nat) (bc fcb fcv : Bool) (udStart : Nat) (udLen : Int)
  deriving Repr, DecidableEq

/-! the quantities ParserHeaderSecondaryUnbalanced computes from the buffer -/

def isVar (l : LL) : Prop := g l.buf 0 = 0x68
def isFixed (l : LL) : Prop := g l.buf 0 = 0x10
instance (l : LL) : Decidable (isVar l) := by unfold isVar; infer_instance
instance (l : LL) : Decidable (isFixed l) := by unfold isFixed; infer_instance
/-- `userDataLength` of a variable-length frame (can be negative for a malformed `L`) -/
def hUdLen (l : LL) : Int := (g l.buf 1 : Int) - l.p.addrLen - 1
def hUdStart (l : LL) : Nat := 5 + l.p.addrLen
/-- the size the frame must have: `userDataStart + userDataLength + 2` -/
def sizeOk (l : LL) (msgSize : Nat) : Prop := (msgSize : Int) = (hUdStart l : Int) + hUdLen l + 2
instance (l : LL) (n : Nat) : Decidable (sizeOk l n) := by unfold sizeOk; infer_instance
def hCtrl (l : LL) : Nat := if isVar l then g l.buf 4 else g l.buf 1
def hCsStart (l : LL) : Nat := if isVar l then 4 else 1
def hCsIndex (l : LL) : Int := if isVar l then (hUdStart l : Int) + hUdLen l else 2 + l.p.addrLen
/-- the station address carried by the frame in the buffer -/
def frameAddress (l : LL) : Nat :=
  if l.p.addrLen > 0 then g l.buf (hCsStart l + 1) + (if l.p.addrLen > 1 then g l.buf (hCsStart l + 2) * 256 else 0)
  else 0
def isBroadcast (l : LL) : Prop :=
  if l.p.addrLen > 1 then frameAddress l = 65535 else if l.p.addrLen > 0 then frameAddress l = 255 else False
instance (l : LL) : Decidable (isBroadcast l) := by unfold isBroadcast; infer_instance
/-- checksum octet = modulo-256 sum of the octets from `csStart` up to it -/
def checksumOk (l : LL) : Prop :=
  sum8 ((l.buf.drop (hCsStart l)).take (hCsIndex l - hCsStart l).toNat) = g l.buf (hCsIndex l).toNat
instance (l : LL) : Decidable (checksumOk l) := by unfold checksumOk; infer_instance

/-- the checks of ParserHeaderSecondaryUnbalanced on the `msgSize` octets now in `l.buf`,
in the order of the C code -/
def secHeader (l : LL) (msgSize : Nat) : Verdict :=
  if isVar l ∧ g l.buf 1 ≠ g l.buf 2 then .error
  else if isVar l ∧ ¬ sizeOk l msgSize then .error
  else if ¬ isVar l ∧ ¬ isFixed l then .error
  else if isBroadcast l ∧ hCtrl l % 16 ≠ 4 then .error
  else if ¬ isBroadcast l ∧ frameAddress l ≠ l.address then .ignore
  else if ¬ checksumOk l then .error
  else if hCtrl l / 64 % 2 = 0 then .error
  else .ok (hCtrl l % 16) (decide (isBroadcast l)) (hCtrl l / 32 % 2 = 1) (hCtrl l / 16 % 2 = 1)
        (if isVar l then hUdStart l else 0) (if isVar l then hUdLen l else 0)

/-- ParserHeaderSecondaryUnbalanced -/
def SecU.parse (s : SecU) (now : Nat) (msgSize : Nat) : SecU × List Obs :=
  let s := { s with lastReceived := now }
  match secHeader s.ll msgSize with
  | .error => s.setState 1
  | .ignore => (s, [])
  | .ok fc bc fcb fcv udStart udLen => s.handleMessage fc bc fcb fcv udStart udLen

/-- LinkLayerSecondaryUnbalanced_run with port content `q` at time `now` -/
def SecU.run (s : SecU) (q : List Nat) (now : Nat) : SecU × List Nat × List Obs :=
  let (q', buf, m) := readNext s.ll.p.addrLen q s.ll.buf
  let s := { s with ll := { s.ll with buf := buf } }
  let (s, o) := match m with
    | some n => s.parse now n
    | none => (s, [])
  let (s, o2) := if s.state ≠ 0 ∧ now - s.lastReceived > s.idleTimeout then s.setState 0 else (s, [])
  (s, q', o ++ o2)

/-! ### balanced station: secondary part -/

structure Bal where
  ll : LL
  -- secondary
  expectedFcb : Bool := true
  /-- the last frame with a valid FCB was answered with ACK -/
  lastAck : Bool := false
  -- primary
  state : Nat := 0
  pstate : Nat := 0          -- PLL_IDLE .. PLL_TIMEOUT = 0..7
  waiting : Bool := false
  lastSend : Nat := 0
  origSend : Nat := 0
  testFn : Bool := false
  /-- the frame waiting for its ACK is the test function -/
  testSent : Bool := false
  nextFcb : Bool := true
  other : Nat := 0
  lastAsdu : List Nat := []
  lastReceived : Nat := 0
  idleTimeout : Nat := 5000
  /-- stub application layer: frames `GetUserData` will return; result of `HandleReceivedData` -/
  out : List (List Nat) := []
  accept : Bool := true
  deriving Repr, DecidableEq

def Bal.setState (s : Bal) (n : Nat) : Bal × List Obs :=
  if s.state ≠ n then ({ s with state := n }, [.st (-1) n]) else (s, [])

def Bal.ack (s : Bal) : Bal × List Obs :=
  if s.ll.p.singleAck then
    let (l, o) := s.ll.sendSingle; ({ s with ll := l }, o)
  else
    let (l, o) := s.ll.sendFixed 0 s.ll.address false s.ll.dir false false
    ({ s with ll := l }, o)

/-- LinkLayerSecondaryBalanced_handleMessage -/
def Bal.secHandle (s : Bal) (fc : Nat) (fcb fcv : Bool) (udStart : Nat) (udLen : Int) : Bal × List Obs :=
  let (valid, exp') := if fcv then checkFCB s.expectedFcb fcb else (true, s.expectedFcb)
  let s := { s with expectedFcb := exp' }
  if !valid then (if s.lastAck then s.ack else (s, []))     -- repetition: repeat the ACK, do not deliver
  else
  let s := if fcv then { s with lastAck := false } else s
  if fc = 0 then Bal.ack { s with expectedFcb := true, lastAck := false }
  else if fc = 2 then Bal.ack (if fcv then { s with lastAck := true } else s)
  else if fc = 3 then
    if udLen > 0 then
      let o := [Obs.rx false (userDataOf s.ll.buf udStart udLen)]
      if s.accept then let (s, o') := Bal.ack (if fcv then { s with lastAck := true } else s); (s, o ++ o') else (s, o)
    else (s, [])
  else if fc = 4 then
    (s, if udLen > 0 then [Obs.rx false (userDataOf s.ll.buf udStart udLen)] else [])
  else if fc = 9 then
    let (l, o) := s.ll.sendFixed 11 s.ll.address false s.ll.dir false false
    ({ s with ll := l }, o)
  else
    let (l, o) := s.ll.sendFixed 15 s.ll.address false s.ll.dir false false
    ({ s with ll := l }, o)

/-- LinkLayerPrimaryBalanced_handleMessage -/
def Bal.priHandle (s : Bal) (now : Nat) (fc : Nat) (dfc : Bool) : Bal × List Obs :=
  let ps := s.pstate
  let s := { s with lastReceived := now }
  if dfc then
    let ns := if ps = 1 ∨ ps = 2 then 1 else if ps = 4 ∨ ps = 6 then 6 else ps
    let (s, o) := s.setState 2
    ({ s with pstate := ns }, o)
  else if fc = 0 then
    if ps = 2 then
      let (s, o) := s.setState 3; ({ s with pstate := 3, waiting := false }, o)
    else if ps = 4 then
      let (s, o) := Bal.setState (if s.testSent then { s with testFn := false } else s) 3
      ({ s with pstate := 3, waiting := false }, o)
    else if ps = 1 then (s, [])
    else ({ s with waiting := false }, [])
  else if fc = 1 then
    if ps = 4 then let (s, o) := s.setState 2; ({ s with pstate := 6 }, o) else (s, [])
  else if fc = 8 ∨ fc = 9 then
    let (s, o) := s.setState 1; ({ s with pstate := 0 }, o)
  else if fc = 11 then
    if ps = 1 then
      let (l, o) := s.ll.sendFixed 0 s.other true s.ll.dir false false
      let s := { s with ll := l, lastSend := now, waiting := true, nextFcb := true }
      let (s, o') := s.setState 2
      ({ s with pstate := 2 }, o ++ o')
    else
      let (s, o) := s.setState 1; ({ s with pstate := 0 }, o)
  else if fc = 14 ∨ fc = 15 then
    let s := { s with testFn := false }
    if ps = 4 then let (s, o) := s.setState 3; ({ s with pstate := 3 }, o) else (s, [])
  else (s, [])

/-- LinkLayerPrimaryBalanced_runStateMachine -/
def Bal.priRun (s : Bal) (now : Nat) : Bal × List Obs :=
  let ps := s.pstate
  if ps = 0 then
    let (l, o) := s.ll.sendFixed 9 s.other true s.ll.dir false false
    ({ s with ll := l, origSend := 0, testFn := false, lastSend := now, waiting := true, pstate := 1 }, o)
  else if ps = 1 then
    if s.waiting then
      let s := if s.lastSend > now then { s with lastSend := now } else s
      if now > s.lastSend + s.ll.p.tAck then ({ s with pstate := 0 }, []) else (s, [])
    else
      let (l, o) := s.ll.sendFixed 0 s.other true s.ll.dir false false
      ({ s with ll := l, lastSend := now, waiting := true, nextFcb := true, pstate := 2 }, o)
  else if ps = 2 then
    if s.waiting then
      let s := if s.lastSend > now then { s with lastSend := now } else s
      if now > s.lastSend + s.ll.p.tAck then
        let (s, o) := Bal.setState { s with waiting := false } 1
        ({ s with pstate := 0 }, o)
      else (s, [])
    else
      let (s, o) := s.setState 3; ({ s with pstate := 3 }, o)
  else if ps = 3 then
    let s := if s.lastReceived > now then { s with lastReceived := now } else s
    let s := if now - s.lastReceived > s.idleTimeout then { s with testFn := true } else s
    if s.testFn then
      let (l, o) := s.ll.sendFixed 2 s.other true s.ll.dir s.nextFcb true
      ({ s with ll := l, testSent := true, nextFcb := !s.nextFcb, lastSend := now, origSend := now, pstate := 4 }, o)
    else
      match s.out with
      | [] => (s, [])
      | d :: rest =>
        let s := { s with out := rest, lastAsdu := d, ll := { s.ll with userData := d } }
        let (l, o) := s.ll.sendVar 3 s.other true s.ll.dir s.nextFcb true d
        ({ s with ll := l, testSent := false, nextFcb := !s.nextFcb, lastSend := now, origSend := now, waiting := true, pstate := 4 }, o)
  else if ps = 4 then
    let s := if s.lastSend > now then { s with lastSend := now } else s
    if now > s.lastSend + s.ll.p.tAck then
      if now > s.origSend + s.ll.p.tRepeat then
        let (s, o) := s.setState 1; ({ s with pstate := 0 }, o)
      else
        let (l, o) :=
          if s.testSent then s.ll.sendFixed 2 s.other true s.ll.dir (!s.nextFcb) true
          else s.ll.sendVar 3 s.other true s.ll.dir (!s.nextFcb) true s.lastAsdu
        ({ s with ll := l, lastSend := now }, o)
    else (s, [])
  else (s, [])

/-! ### primary, unbalanced (the CS101 master's link layer) -/

structure SlaveConn where
  address : Nat
  state : Nat := 0
  pstate : Nat := 0
  hasMsg : Bool := false
  msg : List Nat := []
  lastSend : Nat := 0
  origSend : Nat := 0
  req1 : Bool := false
  req2 : Bool := false
  dontSend : Bool := false
  waiting : Bool := false
  testFn : Bool := false
  nextFcb : Bool := true
  /-- function code of the request waiting for its response -/
  lastReq : Nat := 11
  deriving Repr, DecidableEq

structure PriU where
  ll : LL
  slaves : List SlaveConn := []
  /-- index into `slaves` of `currentSlave` -/
  cur : Option Nat := none
  curIdx : Nat := 0
  bcast : Option (List Nat) := none
  deriving Repr, DecidableEq

def SlaveConn.setState (c : SlaveConn) (n : Nat) : SlaveConn × List Obs :=
  if c.state ≠ n then ({ c with state := n }, [.st c.address n]) else (c, [])

/-- LinkLayerSlaveConnection_HandleMessage; `address` is the address in the frame (-1 for E5) -/
def SlaveConn.handle (c : SlaveConn) (l : LL) (now : Nat) (fc : Nat) (acd dfc : Bool) (address : Int)
    (udStart : Nat) (udLen : Int) : SlaveConn × LL × List Obs :=
  let ps := c.pstate
  if dfc then
    let c := { c with dontSend := true }
    let ns := if ps = 1 ∨ ps = 2 then 1 else if ps = 4 ∨ ps = 6 then 6 else ps
    let (c, o) := c.setState 2
    ({ c with pstate := ns }, l, o)
  else
    let c := { c with dontSend := false }
    let c := if acd then { c with req1 := true } else c
    let (c, l, o) : SlaveConn × LL × List Obs :=
      if fc = 0 then
        let (c, o) : SlaveConn × List Obs :=
          if ps = 2 then let (c, o) := c.setState 3; ({ c with pstate := 3 }, o)
          else if ps = 4 then
            let c := { c with hasMsg := false }
            let (c, o) := c.setState 3; ({ c with pstate := 3 }, o)
          else if ps = 5 then
            let c := if c.lastReq = 2 then { c with testFn := false } else c
            let (c, o) := c.setState 3; ({ c with pstate := 3 }, o)
          else (c, [])
        ({ c with waiting := false }, l, o)
      else if fc = 1 then
        let (c, o) : SlaveConn × List Obs :=
          if ps = 4 then let (c, o) := c.setState 2; ({ c with pstate := 6 }, o) else (c, [])
        ({ c with waiting := false }, l, o)
      else if fc = 11 then
        if ps = 1 then
          let (l, o) := l.sendFixed 0 c.address true false false false
          let c := { c with lastSend := now, waiting := true, nextFcb := true }
          let (c, o') := c.setState 2
          ({ c with pstate := 2 }, l, o ++ o')
        else
          let (c, o) := c.setState 1; ({ c with pstate := 0 }, l, o)
      else if fc = 8 then
        let (c, o) : SlaveConn × List Obs :=
          if ps = 5 then
            let o := [Obs.ud address (userDataOf l.buf udStart udLen)]
            let c := { c with req1 := false, req2 := false }
            let (c, o') := c.setState 3
            ({ c with pstate := 3 }, o ++ o')
          else let (c, o) := c.setState 1; ({ c with pstate := 0 }, o)
        ({ c with waiting := false }, l, o)
      else if fc = 9 then
        let (c, o) : SlaveConn × List Obs :=
          if ps = 5 then let (c, o) := c.setState 3; ({ c with pstate := 3 }, o)
          else let (c, o) := c.setState 1; ({ c with pstate := 0 }, o)
        ({ c with waiting := false }, l, o)
      else if fc = 14 ∨ fc = 15 then
        let (c, o) : SlaveConn × List Obs :=
          if ps = 4 then let (c, o) := c.setState 3; ({ c with pstate := 3 }, o)
          else if ps = 5 ∧ c.lastReq = 2 then
            let (c, o) := SlaveConn.setState { c with testFn := false } 3; ({ c with pstate := 3 }, o)
          else (c, [])
        ({ c with waiting := false }, l, o)
      else ({ c with waiting := false }, l, [])
    (c, l, o ++ (if acd then [Obs.ad address] else []))

/-- LinkLayerSlaveConnection_runStateMachine -/
def SlaveConn.run (c : SlaveConn) (l : LL) (now : Nat) : SlaveConn × LL × List Obs :=
  let ps := c.pstate
  let p := l.p
  if ps = 7 then
    let c := if c.lastSend > now then { c with lastSend := now } else c
    if now > c.lastSend + p.tLinkState then ({ c with pstate := 0 }, l, []) else (c, l, [])
  else if ps = 0 then
    let (l, o) := l.sendFixed 9 c.address true false false false
    ({ c with origSend := 0, testFn := false, lastSend := now, waiting := true, pstate := 1 }, l, o)
  else if ps = 1 then
    if c.waiting then
      let c := if c.lastSend > now then { c with lastSend := now } else c
      if now > c.lastSend + p.tAck then ({ c with waiting := false, lastSend := now, pstate := 7 }, l, [])
      else (c, l, [])
    else
      let (l, o) := l.sendFixed 0 c.address true false false false
      ({ c with lastSend := now, waiting := true, nextFcb := true, pstate := 2 }, l, o)
  else if ps = 2 then
    if c.waiting then
      let c := if c.lastSend > now then { c with lastSend := now } else c
      if now > c.lastSend + p.tAck then
        let (c, o) := SlaveConn.setState { c with waiting := false, lastSend := now } 1
        ({ c with pstate := 7 }, l, o)
      else (c, l, [])
    else
      let (c, o) := c.setState 3; ({ c with pstate := 3 }, l, o)
  else if ps = 3 then
    if c.testFn then
      let (l, o) := l.sendFixed 2 c.address true false c.nextFcb true
      ({ c with lastReq := 2, nextFcb := !c.nextFcb, lastSend := now, origSend := now, waiting := true, pstate := 5 }, l, o)
    else if c.hasMsg then
      let (l, o) := l.sendVar 3 c.address true false c.nextFcb true c.msg
      ({ c with nextFcb := !c.nextFcb, lastSend := now, origSend := now, waiting := true, pstate := 4 }, l, o)
    else if c.req1 ∨ c.req2 then
      let (l, o) := if c.req1 then l.sendFixed 10 c.address true false c.nextFcb true
                    else l.sendFixed 11 c.address true false c.nextFcb true
      let c := if c.req1 then { c with req1 := false, lastReq := 10 } else { c with req2 := false, lastReq := 11 }
      ({ c with nextFcb := !c.nextFcb, lastSend := now, origSend := now, waiting := true, pstate := 5 }, l, o)
    else (c, l, [])
  else if ps = 4 then
    let c := if c.lastSend > now then { c with lastSend := now } else c
    if now > c.lastSend + p.tAck then
      if now > c.origSend + p.tRepeat then
        let (c, o) := SlaveConn.setState { c with waiting := false, lastSend := now } 1
        ({ c with pstate := 7 }, l, o)
      else
        let (l, o) := l.sendVar 3 c.address true false (!c.nextFcb) true c.msg
        ({ c with lastSend := now }, l, o)
    else (c, l, [])
  else if ps = 5 then
    let c := if c.lastSend > now then { c with lastSend := now } else c
    if now > c.lastSend + p.tAck then
      if now > c.origSend + p.tRepeat then
        let (c, o) := SlaveConn.setState { c with req1 := false, req2 := false } 1
        ({ c with pstate := 0 }, l, o)
      else
        let (l, o) := l.sendFixed c.lastReq c.address true false (!c.nextFcb) true
        ({ c with lastSend := now }, l, o)
    else (c, l, [])
  else (c, l, [])

def PriU.findIdx (s : PriU) (address : Int) : Option Nat :=
  s.slaves.findIdx? (fun c => (c.address : Int) = address)

def PriU.handle (s : PriU) (now : Nat) (fc : Nat) (acd dfc : Bool) (address : Int) (udStart : Nat)
    (udLen : Int) : PriU × List Obs :=
  let idx := if address = -1 then s.cur else s.findIdx address
  match idx with
  | none => (s, [])
  | some i =>
    match s.slaves[i]? with
    | none => (s, [])
    | some c =>
      let (c, l, o) := c.handle s.ll now fc acd dfc address udStart udLen
      ({ s with slaves := s.slaves.set i c, ll := l }, o)

/-- LinkLayerPrimaryUnbalanced_runStateMachine -/
def PriU.runSM (s : PriU) (now : Nat) : PriU × List Obs :=
  let (s, o0) : PriU × List Obs :=
    match s.bcast with
    | some d =>
      let ba := if s.ll.p.addrLen = 1 then 255 else if s.ll.p.addrLen = 2 then 65535 else 0
      let (l, o) := s.ll.sendVar 4 ba true false false false d
      ({ s with ll := l, bcast := none }, o)
    | none => (s, [])
  if s.slaves.isEmpty then (s, o0)
  else
    let s := match s.cur with
      | some i => if ((s.slaves[i]?).map (fun (c : SlaveConn) => c.waiting)).getD false then s else { s with cur := none }
      | none => s
    let s := match s.cur with
      | some _ => s
      | none => { s with cur := some s.curIdx, curIdx := (s.curIdx + 1) % s.slaves.length }
    match s.cur with
    | none => (s, o0)
    | some i =>
      match s.slaves[i]? with
      | none => (s, o0)
      | some c =>
        let (c, l, o) := c.run s.ll now
        ({ s with slaves := s.slaves.set i c, ll := l }, o0 ++ o)

/-! ### HandleMessageBalancedAndPrimaryUnbalanced -/

structure Hdr where
  single : Bool
  c : Nat
  address : Nat
  udStart : Nat
  udLen : Int
  deriving Repr, DecidableEq

/-- the checks of HandleMessageBalancedAndPrimaryUnbalanced; `none`: frame ignored -/
def parseBP (l : LL) (msgSize : Nat) : Option Hdr :=
  if g l.buf 0 = 0xe5 then some ⟨true, 0, 0, 0, 0⟩
  else if isVar l ∧ g l.buf 1 ≠ g l.buf 2 then none
  else if isVar l ∧ ¬ sizeOk l msgSize then none
  else if ¬ isVar l ∧ ¬ isFixed l then none
  else if ¬ checksumOk l then none
  else some ⟨false, hCtrl l, frameAddress l, if isVar l then hUdStart l else 0, if isVar l then hUdLen l else 0⟩

def Bal.onMessage (s : Bal) (now : Nat) (msgSize : Nat) : Bal × List Obs :=
  match parseBP s.ll msgSize with
  | none => (s, [])
  | some h =>
    if h.single then s.priHandle now 0 false
    else if h.c / 64 % 2 = 1 then
      let (s, o) := s.secHandle (h.c % 16) (h.c / 32 % 2 = 1) (h.c / 16 % 2 = 1) h.udStart h.udLen
      ({ s with lastReceived := now }, o)       -- LinkLayerPrimaryBalanced_resetIdleTimeout
    else s.priHandle now (h.c % 16) (h.c / 16 % 2 = 1)

/-- LinkLayerBalanced_run -/
def Bal.run (s : Bal) (q : List Nat) (now : Nat) : Bal × List Nat × List Obs :=
  let (q', buf, m) := readNext s.ll.p.addrLen q s.ll.buf
  let s := { s with ll := { s.ll with buf := buf } }
  let (s, o) := match m with
    | some n => s.onMessage now n
    | none => (s, [])
  let (s, o2) := s.priRun now
  (s, q', o ++ o2)

def PriU.onMessage (s : PriU) (now : Nat) (msgSize : Nat) : PriU × List Obs :=
  match parseBP s.ll msgSize with
  | none => (s, [])
  | some h =>
    if h.single then s.handle now 0 false false (-1) 0 0
    else if h.c / 64 % 2 = 1 then (s, [])      -- PRM=1 towards a primary-only station: no secondary, no balanced primary
    else s.handle now (h.c % 16) (h.c / 32 % 2 = 1) (h.c / 16 % 2 = 1) h.address h.udStart h.udLen

/-- LinkLayerPrimaryUnbalanced_run -/
def PriU.run (s : PriU) (q : List Nat) (now : Nat) : PriU × List Nat × List Obs :=
  let (q', buf, m) := readNext s.ll.p.addrLen q s.ll.buf
  let s := { s with ll := { s.ll with buf := buf } }
  let (s, o) := match m with
    | some n => s.onMessage now n
    | none => (s, [])
  let (s, o2) := s.runSM now
  (s, q', o ++ o2)

/-! ### API of the unbalanced primary used by the master -/

def PriU.addSlave (s : PriU) (address : Nat) : PriU :=
  if (s.findIdx address).isSome then s else { s with slaves := s.slaves ++ [{ address := address }] }

def PriU.updSlave (s : PriU) (address : Nat) (f : SlaveConn → SlaveConn) : PriU × Bool :=
  match s.findIdx address with
  | none => (s, false)
  | some i => ({ s with slaves := s.slaves.modify i f }, true)

def PriU.sendConfirmed (s : PriU) (address : Nat) (d : List Nat) : PriU × Bool :=
  match s.findIdx address with
  | none => (s, false)
  | some i =>
    match s.slaves[i]? with
    | none => (s, false)
    | some c => if c.hasMsg then (s, false)
                else ({ s with slaves := s.slaves.set i { c with msg := d, hasMsg := true } }, true)

def PriU.sendNoReply (s : PriU) (address : Nat) (d : List Nat) : PriU × Bool :=
  let ba := if s.ll.p.addrLen = 1 then 255 else if s.ll.p.addrLen = 2 then 65535 else 0
  if address = ba then
    if s.bcast.isSome then (s, false) else ({ s with bcast := some d }, true)
  else s.sendConfirmed address d

end Iec.Link101
