/-
Generic wire-layout interpreter for information objects
(model of the ~65 `<Type>_encode` / `<Type>_getFromBuffer` pairs of
lib60870-C/src/iec60870/cs101/cs101_information_objects.c).

An element's *stored representation* (what the C struct holds after the constructor)
is a list of naturals, one per stored member in wire order; arrays and sub-records
(time tags, BCR, SCD, `encodedValue[2]`, float bit patterns) are read as little-endian
numbers.  Every public getter is a function of the struct contents only, so equality
of stored representations gives equality of every getter.
-/
namespace Iec.Layout

inductive FieldSpec where
  /-- n octets, little endian -/
  | le (n : Nat)
  /-- SIQ: stored (value ≤ 1, quality = multiple of 16) ↔ one octet -/
  | siq
  /-- DIQ: stored (value ≤ 3, quality = multiple of 16) ↔ one octet -/
  | diq
  /-- F_SG_NA_1 tail: stored (los, data) ↔ length octet + `los` data octets -/
  | seg
  deriving DecidableEq, Repr, Inhabited

inductive Cat where
  | seq | noseq | single
  deriving DecidableEq, Repr, Inhabited

structure TypeEntry where
  typeId : Nat
  name : String
  cat : Cat
  fields : List FieldSpec
  guardExtra : Nat
  deriving Repr, Inhabited

def leBytes : Nat → Nat → List Nat
  | 0, _ => []
  | n + 1, v => v % 256 :: leBytes n (v / 256)

def leVal : List Nat → Nat
  | [] => 0
  | b :: bs => b + 256 * leVal bs

/-- number of stored values a field contributes -/
def FieldSpec.arity : FieldSpec → Nat
  | .le _ => 1 | .siq => 2 | .diq => 2 | .seg => 2

/-- encode the stored values of a field list; `none` on arity mismatch -/
def encodeFields : List FieldSpec → List Nat → Option (List Nat)
  | [], [] => some []
  | [], _ :: _ => none
  | .le n :: fs, v :: vs => (encodeFields fs vs).map (leBytes n v ++ ·)
  | .siq :: fs, v :: q :: vs => (encodeFields fs vs).map (((q &&& 0xf0) + (v &&& 0x01)) % 256 :: ·)
  | .diq :: fs, v :: q :: vs => (encodeFields fs vs).map (((q &&& 0xf0) + (v &&& 0x03)) % 256 :: ·)
  | .seg :: fs, los :: data :: vs => (encodeFields fs vs).map ((los % 256 :: leBytes los data) ++ ·)
  | _ :: _, _ => none

/-- decode a field list from the front of `bs`; `none` when `bs` is too short -/
def decodeFields : List FieldSpec → List Nat → Option (List Nat × List Nat)
  | [], bs => some ([], bs)
  | .le n :: fs, bs =>
      if bs.length < n then none
      else (decodeFields fs (bs.drop n)).map fun (vs, r) => (leVal (bs.take n) :: vs, r)
  | .siq :: fs, b :: bs => (decodeFields fs bs).map fun (vs, r) => ((b &&& 0x01) :: (b &&& 0xf0) :: vs, r)
  | .diq :: fs, b :: bs => (decodeFields fs bs).map fun (vs, r) => ((b &&& 0x03) :: (b &&& 0xf0) :: vs, r)
  | .seg :: fs, los :: bs =>
      if bs.length < los then none
      else (decodeFields fs (bs.drop los)).map fun (vs, r) => (los :: leVal (bs.take los) :: vs, r)
  | _ :: _, [] => none

/-- well-formedness of stored values: what every public constructor produces -/
def WFVals : List FieldSpec → List Nat → Prop
  | [], [] => True
  | [], _ :: _ => False
  | .le n :: fs, v :: vs => v < 256 ^ n ∧ WFVals fs vs
  | .siq :: fs, v :: q :: vs => v ≤ 1 ∧ q < 256 ∧ q % 16 = 0 ∧ WFVals fs vs
  | .diq :: fs, v :: q :: vs => v ≤ 3 ∧ q < 256 ∧ q % 16 = 0 ∧ WFVals fs vs
  | .seg :: fs, los :: data :: vs => los < 256 ∧ data < 256 ^ los ∧ WFVals fs vs
  | _ :: _, _ => False

def wfVals : List FieldSpec → List Nat → Bool
  | [], [] => true
  | [], _ :: _ => false
  | .le n :: fs, v :: vs => decide (v < 256 ^ n) && wfVals fs vs
  | .siq :: fs, v :: q :: vs => decide (v ≤ 1) && decide (q < 256) && decide (q % 16 = 0) && wfVals fs vs
  | .diq :: fs, v :: q :: vs => decide (v ≤ 3) && decide (q < 256) && decide (q % 16 = 0) && wfVals fs vs
  | .seg :: fs, los :: data :: vs => decide (los < 256) && decide (data < 256 ^ los) && wfVals fs vs
  | _ :: _, _ => false

/-- octets a field list occupies for given stored values (`seg` is variable) -/
def fieldsSize : List FieldSpec → List Nat → Nat
  | [], _ => 0
  | .le n :: fs, _ :: vs => n + fieldsSize fs vs
  | .siq :: fs, _ :: _ :: vs => 1 + fieldsSize fs vs
  | .diq :: fs, _ :: _ :: vs => 1 + fieldsSize fs vs
  | .seg :: fs, los :: _ :: vs => 1 + los + fieldsSize fs vs
  | _ :: _, _ => 0

/-- fixed part of the size (what `elementSize` / `minSize` name in the C code) -/
def fixedSize : List FieldSpec → Nat
  | [] => 0
  | .le n :: fs => n + fixedSize fs
  | .siq :: fs => 1 + fixedSize fs
  | .diq :: fs => 1 + fixedSize fs
  | .seg :: fs => 1 + fixedSize fs

end Iec.Layout
