/-
The two ring buffers of cs104_slave.c, modelled at the level of byte offsets into the
buffer (pointers become `Option Nat` offsets, `NULL` = `none`), entry headers are kept in
an association list offset ↦ entry.

 * `MsgQueue`  — MessageQueue (event / low-priority queue), :112-581, 16-octet entry header
 * `HpQueue`   — HighPriorityASDUQueue (parked responses), :587-852, 2-octet entry header
-/
namespace Iec.Queues

structure QEntry where
  id : Nat
  /-- 0 = not used / confirmed, 1 = waiting for transmission, 2 = sent but not confirmed -/
  st : Nat
  data : List Nat
  deriving DecidableEq, Repr, Inhabited

structure MsgQueue where
  size : Nat
  count : Nat
  first : Option Nat
  last : Option Nat
  lib : Option Nat
  nextId : Nat
  mem : List (Nat × QEntry)
  deriving Repr, Inhabited

def HDR : Nat := 16

def MsgQueue.create (maxEntries : Nat) : MsgQueue :=
  { size := maxEntries * (HDR + 256), count := 0, first := none, last := none, lib := none, nextId := 1, mem := [] }

def MsgQueue.get (q : MsgQueue) (o : Nat) : Option QEntry := (q.mem.find? (·.1 == o)).map (·.2)

/-- size of the entry at offset `o` (0 when nothing is there: never read under the invariant) -/
def MsgQueue.esize (q : MsgQueue) (o : Nat) : Nat := ((q.get o).map (·.data.length)).getD 0

/-- write an entry: bindings inside the written range are dropped -/
def MsgQueue.put (q : MsgQueue) (o : Nat) (e : QEntry) : MsgQueue :=
  { q with mem := (o, e) :: q.mem.filter fun b => !(o ≤ b.1 && b.1 < o + HDR + e.data.length) }

def MsgQueue.setState (q : MsgQueue) (o : Nat) (st : Nat) : MsgQueue :=
  { q with mem := q.mem.map fun b => if b.1 == o then (b.1, { b.2 with st := st }) else b }

/-- next entry after `o` in FIFO order (wrap at `lib`) -/
def MsgQueue.next (q : MsgQueue) (o : Nat) : Nat :=
  if some o == q.lib then 0 else o + HDR + q.esize o

/-- `MessageQueue_countEntriesUntilEndOfBuffer` -/
def countUntilEnd (q : MsgQueue) : Nat → Nat → Nat
  | 0, _ => 0
  | fuel + 1, o => if some o == q.lib then 1 else 1 + countUntilEnd q fuel (o + HDR + q.esize o)

/-- the `while` loop that removes old entries until the new one fits -/
def evictLoop (q : MsgQueue) (nextPos entrySize : Nat) : Nat → MsgQueue
  | 0 => q
  | fuel + 1 =>
    let f := q.first.getD 0
    if nextPos + entrySize > f && q.count > 0 then
      let q1 := { q with count := q.count - 1 }
      if q.first == q.lib then { q1 with first := some 0, lib := some nextPos }
      else evictLoop { q1 with first := some (f + HDR + q.esize f) } nextPos entrySize fuel
    else q

/-- the tail of `MessageQueue_enqueueASDU`: write the entry at the chosen position -/
def writeEntry (q1 : MsgQueue) (np : Nat) (data : List Nat) : MsgQueue :=
  let q := { q1 with last := some np }
  let q := if np > q.lib.getD 0 then { q with lib := some np } else q
  let q := { q with count := q.count + 1 }
  let q := q.put np { id := q.nextId, st := 1, data := data }
  { q with nextId := q.nextId + 1 }

/-- `MessageQueue_enqueueASDU` -/
def MsgQueue.enqueue (q : MsgQueue) (data : List Nat) : MsgQueue :=
  let asduSize := data.length
  if asduSize > 250 then q
  else
    let entrySize := HDR + asduSize
    let (q, nextPos) :=
      if q.count = 0 then ({ q with first := some 0, lib := some 0 }, 0)
      else
        let l := q.last.getD 0
        let np := l + HDR + q.esize l
        let (q, np) :=
          if np + entrySize > q.size then
            let q := if np ≤ q.first.getD 0 then
                { q with count := q.count - countUntilEnd q (q.count + 1) (q.first.getD 0), first := some 0 }
              else q
            let q := if q.last.getD 0 ≥ q.first.getD 0 then { q with lib := q.last } else q
            (q, 0)
          else (q, np)
        let q := if np ≤ q.first.getD 0 then evictLoop q np entrySize (q.count + 1) else q
        (q, np)
    writeEntry q nextPos data

/-- walk from `first` looking for the first entry satisfying `p`; stops after `last` -/
def findFrom (q : MsgQueue) (p : QEntry → Bool) : Nat → Nat → Option Nat
  | 0, _ => none
  | fuel + 1, o =>
    match q.get o with
    | none => none
    | some e => if p e then some o else if some o == q.last then none else findFrom q p fuel (q.next o)

def MsgQueue.firstWaiting (q : MsgQueue) : Option Nat :=
  if q.count = 0 then none else findFrom q (·.st == 1) (q.count + 1) (q.first.getD 0)

/-- `MessageQueue_isAsduAvailable` -/
def MsgQueue.isAsduAvailable (q : MsgQueue) : Bool := q.firstWaiting.isSome

/-- `MessageQueue_getNextWaitingASDU`: (queue, (entry id, offset, data)) -/
def MsgQueue.getNextWaiting (q : MsgQueue) : MsgQueue × Option (Nat × Nat × List Nat) :=
  match q.firstWaiting with
  | none => (q, none)
  | some o => match q.get o with
    | none => (q, none)
    | some e => (q.setState o 2, some (e.id, o, e.data))

/-- `MessageQueue_hasUnconfirmedIMessages` -/
def MsgQueue.hasUnconfirmed (q : MsgQueue) : Bool :=
  if q.count = 0 then false else (findFrom q (·.st == 2) (q.count + 1) (q.first.getD 0)).isSome

def resetLoop (q : MsgQueue) : Nat → Nat → MsgQueue
  | 0, _ => q
  | fuel + 1, o =>
    match q.get o with
    | none => q
    | some e =>
      let q1 := if e.st == 2 then q.setState o 1 else q
      if some o == q.last then q1 else resetLoop q1 fuel (q.next o)

/-- `MessageQueue_setWaitingForTransmissionWhenNotConfirmed` -/
def MsgQueue.setWaitingWhenNotConfirmed (q : MsgQueue) : MsgQueue :=
  if q.count = 0 then q else resetLoop q (q.count + 1) (q.first.getD 0)

/-- `MessageQueue_releaseAllQueuedASDUs` / `MessageQueue_initialize` (pointers only) -/
def MsgQueue.releaseAll (q : MsgQueue) : MsgQueue :=
  { q with first := none, last := none, lib := none, count := 0 }

def MsgQueue.initialize (q : MsgQueue) : MsgQueue := { q.releaseAll with nextId := 1 }

/-- `removeFirstEntry` -/
def MsgQueue.removeFirst (q : MsgQueue) : MsgQueue :=
  let q1 :=
    if q.first == q.lib then
      if q.first == q.last then { q with first := none, last := none, lib := none }
      else { q with first := some 0, lib := q.last }
    else { q with first := some (q.first.getD 0 + HDR + q.esize (q.first.getD 0)) }
  { q1 with count := q1.count - 1 }

/-- `MessageQueue_markAsduAsConfirmed` -/
def MsgQueue.markConfirmed (q : MsgQueue) (o id : Nat) : MsgQueue :=
  if q.count > 0 then
    -- uint64 difference: ids above nextId-1 wrap to huge values and fail the test
    if id + 1 ≤ q.nextId && q.nextId - 1 - id < q.count then
      match q.get o with
      | some e =>
        if e.id == id then
          let q1 := q.setState o 0
          if some o == q.first then q1.removeFirst else q1
        else q
      | none => q
    else q
  else q

/-- `MessageQueue_setEntryWaitingForTransmission`: one sent-but-unconfirmed entry back to waiting -/
def MsgQueue.setEntryWaiting (q : MsgQueue) (o id : Nat) : MsgQueue :=
  if q.count > 0 then
    if id + 1 ≤ q.nextId && q.nextId - 1 - id < q.count then
      match q.get o with
      | some e => if e.id == id && e.st == 2 then q.setState o 1 else q
      | none => q
    else q
  else q

/-- FIFO view: (id, state, data) from first to last -/
def walk (q : MsgQueue) : Nat → Nat → List QEntry
  | 0, _ => []
  | fuel + 1, o =>
    match q.get o with
    | none => []
    | some e => if some o == q.last then [e] else e :: walk q fuel (q.next o)

def MsgQueue.toList (q : MsgQueue) : List QEntry :=
  if q.count = 0 then [] else walk q q.count (q.first.getD 0)

/-! ### HighPriorityASDUQueue -/

structure HpQueue where
  size : Nat
  count : Nat
  first : Option Nat
  last : Option Nat
  lib : Option Nat
  mem : List (Nat × List Nat)
  deriving Repr, Inhabited

def HpQueue.create (maxEntries : Nat) : HpQueue :=
  { size := maxEntries * (2 + 256), count := 0, first := none, last := none, lib := none, mem := [] }

def HpQueue.dataAt (q : HpQueue) (o : Nat) : List Nat := ((q.mem.find? (·.1 == o)).map (·.2)).getD []

def HpQueue.reset (q : HpQueue) : HpQueue := { q with first := none, last := none, lib := none, count := 0 }

/-- `HighPriorityASDUQueue_enqueue` -/
def HpQueue.enqueue (q : HpQueue) (data : List Nat) : HpQueue × Bool :=
  let asduSize := data.length
  if asduSize > 250 then (q, false)
  else
    let entrySize := 2 + asduSize
    let (q, np) :=
      if q.count = 0 then ({ q with first := some 0, lib := some 0 }, 0)
      else (q, q.last.getD 0 + 2 + (q.dataAt (q.last.getD 0)).length)
    -- a ring that has wrapped already (newest entry below the oldest) must not wrap a second time
    let wrapped := q.count > 0 && decide (q.last.getD 0 < q.first.getD 0)
    let (q, np, ok0) :=
      if np + entrySize > q.size then
        if wrapped then (q, np, false) else ({ q with lib := q.last }, 0, true)
      else (q, np, true)
    let (q, ok) :=
      if ok0 && q.count > 0 then
        if np ≤ q.first.getD 0 then (q, !(decide (np + entrySize > q.first.getD 0)))
        else ({ q with lib := some np }, true)
      else (q, ok0)
    if ok then
      ({ q with last := some np, count := q.count + 1,
                mem := (np, data) :: q.mem.filter fun b => !(np ≤ b.1 && b.1 < np + entrySize) }, true)
    else (q, false)

/-- `HighPriorityASDUQueue_getNextASDU` -/
def HpQueue.getNext (q : HpQueue) : HpQueue × Option (List Nat) :=
  if q.count > 0 then
    let f := q.first.getD 0
    let d := q.dataAt f
    let q1 := { q with count := q.count - 1 }
    let q2 :=
      if q1.count > 0 then
        if q1.first == q1.last then { q1 with first := none, last := none, lib := none }
        else if q1.first == q1.lib then { q1 with first := some 0, lib := q1.last }
        else { q1 with first := some (f + 2 + d.length) }
      else q1
    (q2, some d)
  else (q, none)

/-- `HighPriorityASDUQueue_isFull` -/
def HpQueue.isFull (q : HpQueue) : Bool :=
  if q.count > 0 then
    let np := q.last.getD 0 + 2 + (q.dataAt (q.last.getD 0)).length
    let np := if np + 252 > q.size then 0 else np
    decide (np ≤ q.first.getD 0) && decide (np + 252 > q.first.getD 0)
  else false

/-- FIFO content, oldest first (for observation) -/
def hpWalk (q : HpQueue) : Nat → Nat → List (List Nat)
  | 0, _ => []
  | fuel + 1, o =>
    let d := q.dataAt o
    if some o == q.last then [d]
    else d :: hpWalk q fuel (if some o == q.lib then 0 else o + 2 + d.length)

def HpQueue.toList (q : HpQueue) : List (List Nat) :=
  if q.count = 0 then [] else hpWalk q q.count (q.first.getD 0)

end Iec.Queues
