/-
Lock skeletons (property C17).

`Stmt` is the abstract syntax that translate/locks.py regenerates from the C
sources on every run: what is left of a C function when everything except
semaphore operations, calls, callbacks and control flow is erased.  Locks and
functions are numbered (the name tables are in the generated file).

`Run` is the path semantics of a skeleton (which lock sets a thread can hold
where; a *fault* is a `Semaphore_post` of a lock the thread does not hold or a
`Semaphore_wait` on a lock the thread itself already holds — the binary
semaphores of hal_thread are not recursive, so the latter never returns).
`exec` is a collecting interpreter for the same language and `balanced` the
Boolean verdict computed from it.  `Iec.Lemmas.Locks` proves `exec` sound for
`Run` on every skeleton, so the per-function verdicts, obtained by kernel
evaluation, are statements about every path, every number of loop iterations
and every branch combination.
-/
namespace Iec.Locks

inductive Stmt where
  | skip
  | wait (l : Nat)
  | post (l : Nat)
  | call (f : Nat)
  | cb (k : Nat)
  /-- `Thread_destroy`: wait until another thread has finished -/
  | join (f : Nat)
  | ret
  | brk
  | cont
  | goto (n : Nat)
  | label (n : Nat)
  | seq (a b : Stmt)
  | choice (a b : Stmt)
  /-- `loop body step`: `while`/`for`/`do`; `continue` jumps to `step`. -/
  | loop (body step : Stmt)
  /-- `switch` body: a `break` inside ends the statement normally. -/
  | catch (s : Stmt)
  deriving DecidableEq, Repr, Inhabited

/-- Locks held by the executing thread, ascending, no duplicates. -/
abbrev Held := List Nat

def hIns (l : Nat) : Held → Held
  | [] => [l]
  | x :: xs => if l < x then l :: x :: xs else if l = x then x :: xs else x :: hIns l xs

def hDel (l : Nat) : Held → Held
  | [] => []
  | x :: xs => if l = x then xs else x :: hDel l xs

/-- Control state: `seek = some n` while a `goto n` travels forward to its label. -/
structure St where
  seek : Option Nat
  held : Held
  deriving DecidableEq, Repr, Inhabited

/-- What a thread does while holding `held`. -/
inductive Site where
  | acq (l : Nat)
  | call (f : Nat)
  | cb (k : Nat)
  | join (f : Nat)
  deriving DecidableEq, Repr, Inhabited

/-! ### path semantics -/

def isAtom : Stmt → Bool
  | .label _ | .seq _ _ | .choice _ _ | .loop _ _ | .catch _ => false
  | _ => true


inductive Out where
  | norm (s : St)
  | brk (h : Held)
  | cont (h : Held)
  | ret (h : Held)
  | fault
  deriving DecidableEq, Repr, Inhabited

/-- `Run s st o`: some execution of `s` started in `st` ends with outcome `o`.
Branch conditions and loop trip counts are unconstrained (every path). -/
inductive Run : Stmt → St → Out → Prop where
  | seeking_atom {s : Stmt} {n : Nat} {h : Held} :
      isAtom s = true → Run s ⟨some n, h⟩ (.norm ⟨some n, h⟩)
  | skip {h} : Run .skip ⟨none, h⟩ (.norm ⟨none, h⟩)
  | wait_ok {l h} : l ∉ h → Run (.wait l) ⟨none, h⟩ (.norm ⟨none, hIns l h⟩)
  | wait_self {l h} : l ∈ h → Run (.wait l) ⟨none, h⟩ .fault
  | post_ok {l h} : l ∈ h → Run (.post l) ⟨none, h⟩ (.norm ⟨none, hDel l h⟩)
  | post_bad {l h} : l ∉ h → Run (.post l) ⟨none, h⟩ .fault
  | call {f h} : Run (.call f) ⟨none, h⟩ (.norm ⟨none, h⟩)
  | cb {k h} : Run (.cb k) ⟨none, h⟩ (.norm ⟨none, h⟩)
  | join {f h} : Run (.join f) ⟨none, h⟩ (.norm ⟨none, h⟩)
  | ret {h} : Run .ret ⟨none, h⟩ (.ret h)
  | brk {h} : Run .brk ⟨none, h⟩ (.brk h)
  | cont {h} : Run .cont ⟨none, h⟩ (.cont h)
  | goto {n h} : Run (.goto n) ⟨none, h⟩ (.norm ⟨some n, h⟩)
  | label_hit {n h} : Run (.label n) ⟨some n, h⟩ (.norm ⟨none, h⟩)
  | label_miss {n m h} : m ≠ n → Run (.label n) ⟨some m, h⟩ (.norm ⟨some m, h⟩)
  | label_pass {n h} : Run (.label n) ⟨none, h⟩ (.norm ⟨none, h⟩)
  | seq_norm {a b st st' o} : Run a st (.norm st') → Run b st' o → Run (.seq a b) st o
  | seq_stop {a b st o} : Run a st o → (∀ st', o ≠ .norm st') → Run (.seq a b) st o
  | choice_l {a b st o} : Run a st o → Run (.choice a b) st o
  | choice_r {a b st o} : Run b st o → Run (.choice a b) st o
  /-- leave the loop at its head (condition false / `do … while` end) -/
  | loop_exit {a b st} : Run (.loop a b) st (.norm st)
  /-- one more iteration: body ends normally or by `continue`, then the step -/
  | loop_iter {a b st st1 st2 o} : Run a st (.norm st1) → Run b st1 (.norm st2) →
      Run (.loop a b) st2 o → Run (.loop a b) st o
  | loop_cont {a b st h st2 o} : Run a st (.cont h) → Run b ⟨none, h⟩ (.norm st2) →
      Run (.loop a b) st2 o → Run (.loop a b) st o
  | loop_brk {a b st h} : Run a st (.brk h) → Run (.loop a b) st (.norm ⟨none, h⟩)
  | loop_body_stop {a b st o} : Run a st o → (o = .fault ∨ ∃ h, o = .ret h) → Run (.loop a b) st o
  | loop_step_stop {a b st st1 o} : Run a st (.norm st1) → Run b st1 o →
      (o = .fault ∨ ∃ h, o = .ret h) → Run (.loop a b) st o
  | loop_step_stop_c {a b st h o} : Run a st (.cont h) → Run b ⟨none, h⟩ o →
      (o = .fault ∨ ∃ h, o = .ret h) → Run (.loop a b) st o
  | catch_brk {a st h} : Run a st (.brk h) → Run (.catch a) st (.norm ⟨none, h⟩)
  | catch_other {a st o} : Run a st o → (∀ h, o ≠ .brk h) → Run (.catch a) st o

/-! ### collecting interpreter -/

structure Res where
  norm : List St := []
  brk : List Held := []
  cont : List Held := []
  ret : List Held := []
  fault : Bool := false
  sites : List (Held × Site) := []
  deriving DecidableEq, Repr, Inhabited

def uni {α} [DecidableEq α] (a b : List α) : List α :=
  b.foldl (fun acc x => if x ∈ acc then acc else acc ++ [x]) a

def Res.merge (a b : Res) : Res :=
  { norm := uni a.norm b.norm, brk := uni a.brk b.brk, cont := uni a.cont b.cont,
    ret := uni a.ret b.ret, fault := a.fault || b.fault, sites := uni a.sites b.sites }

/-- run `f` from every state of a list and merge -/
def overAll (f : St → Res) (sts : List St) : Res :=
  sts.foldl (fun acc st => acc.merge (f st)) {}

/-- Loop fixpoint: `S` is the set of states seen at the loop head so far. -/
def loopFix (body step : St → Res) : Nat → List St → Option (List St × Res)
  | 0, _ => none
  | fuel + 1, S =>
    let rb := overAll body S
    let mid := uni rb.norm (rb.cont.map (fun h => (⟨none, h⟩ : St)))
    let rs := overAll step mid
    let S' := uni S rs.norm
    if S'.length = S.length then some (S, rb.merge { rs with norm := [] })
    else loopFix body step fuel S'

def loopFuel : Nat := 8

/-- statements without sub-statements (everything except `label`) -/
def execAtom (s : Stmt) (st : St) : Res :=
  match st.seek with
  | some _ => { norm := [st] }
  | none =>
    let h := st.held
    match s with
    | .wait l => if l ∈ h then { fault := true, sites := [(h, .acq l)] }
                 else { norm := [⟨none, hIns l h⟩], sites := [(h, .acq l)] }
    | .post l => if l ∈ h then { norm := [⟨none, hDel l h⟩] } else { fault := true }
    | .call f => { norm := [st], sites := [(h, .call f)] }
    | .cb k => { norm := [st], sites := [(h, .cb k)] }
    | .join f => { norm := [st], sites := [(h, .join f)] }
    | .ret => { ret := [h] }
    | .brk => { brk := [h] }
    | .cont => { cont := [h] }
    | .goto n => { norm := [⟨some n, h⟩] }
    | _ => { norm := [st] }

/-- result of a loop from the fixpoint `S` of head states and the merged result `r`
of body and step over `S` -/
def loopRes (S : List St) (r : Res) : Res :=
  { norm := uni S (r.brk.map (fun h => (⟨none, h⟩ : St))), brk := [], cont := [],
    ret := r.ret, fault := r.fault, sites := r.sites }

def exec : Stmt → St → Res
  | .label n, st =>
    if st.seek = some n then { norm := [⟨none, st.held⟩] } else { norm := [st] }
  | .seq a b, st =>
    let ra := exec a st
    ({ ra with norm := [] } : Res).merge (overAll (exec b) ra.norm)
  | .choice a b, st => (exec a st).merge (exec b st)
  | .loop a b, st =>
    match loopFix (exec a) (exec b) loopFuel [st] with
    | none => { fault := true }
    | some (S, r) => loopRes S r
  | .catch a, st =>
    let r := exec a st
    { r with norm := uni r.norm (r.brk.map (fun h => (⟨none, h⟩ : St))), brk := [] }
  | .skip, st => execAtom .skip st
  | .wait l, st => execAtom (.wait l) st
  | .post l, st => execAtom (.post l) st
  | .call f, st => execAtom (.call f) st
  | .cb k, st => execAtom (.cb k) st
  | .join f, st => execAtom (.join f) st
  | .ret, st => execAtom .ret st
  | .brk, st => execAtom .brk st
  | .cont, st => execAtom .cont st
  | .goto n, st => execAtom (.goto n) st

def start : St := ⟨none, []⟩

/-- The verdict for one function: from "nothing held", no path faults, every path
that returns or falls off the end holds nothing, no `goto` is left unresolved
and no `break`/`continue` escapes. -/
def balanced (s : Stmt) : Bool :=
  let r := exec s start
  !r.fault && r.brk.isEmpty && r.cont.isEmpty &&
    r.norm.all (fun st => st == start) && r.ret.all (fun h => h.isEmpty)

/-! ### lock order -/

def sitesOf (s : Stmt) : List (Held × Site) := (exec s start).sites

/-- what a function may do, transitively through calls and joins: locks it may wait
for, application callbacks it may invoke -/
structure Summary where
  acq : List Nat
  cbs : List Nat
  deriving DecidableEq, Repr, Inhabited

def Summary.empty : Summary := ⟨[], []⟩
def Summary.join (a b : Summary) : Summary := ⟨uni a.acq b.acq, uni a.cbs b.cbs⟩

/-- effect of one site given the table so far; a join waits for a whole thread, i.e.
for everything its entry function `f` may still do -/
def siteSummary (tab : List Summary) : Site → Summary
  | .acq l => ⟨[l], []⟩
  | .call f => tab.getD f Summary.empty
  | .cb k => ⟨[], [k]⟩
  | .join f => tab.getD f Summary.empty

def summStep (fs : List Stmt) (tab : List Summary) : List Summary :=
  fs.map (fun s => (sitesOf s).foldl (fun acc p => acc.join (siteSummary tab p.2)) Summary.empty)

/-- `fs.length` rounds reach the fixpoint of a call graph of `fs.length` functions
only for chains that short; two more rounds are run and equality of the last two
tables is part of `summariesStable`. -/
def summaries (fs : List Stmt) : List Summary :=
  (List.range fs.length).foldl (fun tab _ => summStep fs tab) (fs.map (fun _ => Summary.empty))

def summariesStable (fs : List Stmt) : Bool :=
  summStep fs (summaries fs) == summaries fs

/-- Pairs `(held, acquired)` that arise inside the library: directly, through calls and
through joins.  Application callbacks are *not* followed here; `cbUnderLock` is the
separate obligation that makes that sound. -/
def orderEdges (fs : List Stmt) : List (Nat × Nat) :=
  let tab := summaries fs
  fs.foldl (fun acc s =>
    (sitesOf s).foldl (fun acc p =>
      let acquired := (siteSummary tab p.2).acq
      p.1.foldl (fun acc h => acquired.foldl (fun acc l => uni acc [(h, l)]) acc) acc) acc) []

/-- Pairs `(lock, callback)`: the application callback `callback` (not in the observer
list `obs`) may be invoked — directly, by a callee, or by a thread being joined — while
the invoking or joining thread holds `lock`.  A callback may call any public function,
so each such pair is a potential deadlock; with no pair, callbacks run lock-free and
add nothing to the lock order. -/
def cbUnderLock (obs : List Nat) (fs : List Stmt) : List (Nat × Nat) :=
  let tab := summaries fs
  fs.foldl (fun acc s =>
    (sitesOf s).foldl (fun acc p =>
      let cbs := ((siteSummary tab p.2).cbs).filter (fun k => !obs.contains k)
      p.1.foldl (fun acc h => cbs.foldl (fun acc k => uni acc [(h, k)]) acc) acc) acc) []

/-- the same with the function in which the lock is held (for reports) -/
def cbUnderLockSites (obs : List Nat) (fs : List Stmt) : List (Nat × Nat × Nat) :=
  let tab := summaries fs
  (fs.zipIdx).foldl (fun acc (s, i) =>
    (sitesOf s).foldl (fun acc p =>
      let cbs := ((siteSummary tab p.2).cbs).filter (fun k => !obs.contains k)
      p.1.foldl (fun acc h => cbs.foldl (fun acc k => uni acc [(i, h, k)]) acc) acc) acc) []

def succs (es : List (Nat × Nat)) (x : Nat) : List Nat :=
  es.filterMap (fun e => if e.1 = x then some e.2 else none)

/-- nodes reachable from `xs` in at most `fuel` more steps -/
def reach (es : List (Nat × Nat)) : Nat → List Nat → List Nat
  | 0, xs => xs
  | fuel + 1, xs => reach es fuel (xs.foldl (fun acc x => uni acc (succs es x)) xs)

/-- no lock can (transitively) be waited for while it is itself held -/
def acyclic (es : List (Nat × Nat)) (nLocks : Nat) : Bool :=
  (List.range nLocks).all (fun l => !(reach es nLocks (succs es l)).contains l)

end Iec.Locks
