/-
Model of lib60870-C/src/iec60870/cs101/cs101_bcr.c (BinaryCounterReading, 5 octets),
of the packed one-octet / four-octet status types at the top of
cs101_information_objects.c (SingleEvent :50-84, StatusAndStatusChangeDetection
:86-121) and of get/setScaledValue (:1663-1689).
-/
namespace Iec.Bcr

structure Bcr where
  b0 : Nat
  b1 : Nat
  b2 : Nat
  b3 : Nat
  b4 : Nat
  deriving DecidableEq, Repr, Inhabited

def Bcr.WF (r : Bcr) : Prop := r.b0 < 256 ∧ r.b1 < 256 ∧ r.b2 < 256 ∧ r.b3 < 256 ∧ r.b4 < 256

@[inline] def u8 (x : Nat) : Nat := x % 256

/-- `int32_t` → its four octets, little endian (the build is little endian:
`ORDER_LITTLE_ENDIAN == 1`, checked by the harness). -/
def i32Bytes (v : Int) : Nat × Nat × Nat × Nat :=
  let u := (v % 4294967296).toNat
  (u % 256, u / 256 % 256, u / 65536 % 256, u / 16777216 % 256)

def i32OfBytes (b0 b1 b2 b3 : Nat) : Int :=
  let u := b0 + b1 * 256 + b2 * 65536 + b3 * 16777216
  if u < 2147483648 then (u : Int) else (u : Int) - 4294967296

def getValue (r : Bcr) : Int := i32OfBytes r.b0 r.b1 r.b2 r.b3

def setValue (r : Bcr) (v : Int) : Bcr :=
  let (a, b, c, d) := i32Bytes v
  { r with b0 := a, b1 := b, b2 := c, b3 := d }

def getSequenceNumber (r : Bcr) : Nat := r.b4 &&& 0x1f

def setSequenceNumber (r : Bcr) (value : Nat) : Bcr :=
  let seqNumber := value &&& 0x1f
  let flags := r.b4 &&& 0xe0
  { r with b4 := u8 (flags ||| seqNumber) }

def hasCarry (r : Bcr) : Bool := (r.b4 &&& 0x20) == 0x20
def setCarry (r : Bcr) (v : Bool) : Bcr :=
  if v then { r with b4 := u8 (r.b4 ||| 0x20) } else { r with b4 := u8 (r.b4 &&& 0xdf) }

def isAdjusted (r : Bcr) : Bool := (r.b4 &&& 0x40) == 0x40
def setAdjusted (r : Bcr) (v : Bool) : Bcr :=
  if v then { r with b4 := u8 (r.b4 ||| 0x40) } else { r with b4 := u8 (r.b4 &&& 0xbf) }

def isInvalid (r : Bcr) : Bool := (r.b4 &&& 0x80) == 0x80
def setInvalid (r : Bcr) (v : Bool) : Bcr :=
  if v then { r with b4 := u8 (r.b4 ||| 0x80) } else { r with b4 := u8 (r.b4 &&& 0x7f) }

/-! ### SingleEvent: one octet, event state in bits 0-1, QDP in bits 2-7.
`value += x` on a `uint8_t` wraps modulo 256. -/

def seSetEventState (b : Nat) (es : Nat) : Nat := u8 ((b &&& 0xfc) + es)
def seGetEventState (b : Nat) : Nat := b &&& 0x3
def seSetQDP (b : Nat) (qdp : Nat) : Nat := u8 ((b &&& 0x03) + qdp)
def seGetQDP (b : Nat) : Nat := b &&& 0xfc

/-! ### StatusAndStatusChangeDetection: four octets -/

structure Scd where
  b0 : Nat
  b1 : Nat
  b2 : Nat
  b3 : Nat
  deriving DecidableEq, Repr, Inhabited

def scdGetSTn (r : Scd) : Nat := (r.b0 + 256 * r.b1) % 65536
def scdGetCDn (r : Scd) : Nat := (r.b2 + 256 * r.b3) % 65536
def scdSetSTn (r : Scd) (v : Nat) : Scd := { r with b0 := u8 (v % 256), b1 := u8 (v / 256) }
def scdGetST (r : Scd) (i : Nat) : Bool := if i < 16 then (scdGetSTn r &&& (1 <<< i)) != 0 else false
def scdGetCD (r : Scd) (i : Nat) : Bool := if i < 16 then (scdGetCDn r &&& (1 <<< i)) != 0 else false

/-! ### scaled value: two octets, two's complement -/

def getScaled (b0 b1 : Nat) : Int :=
  let value : Int := (b0 : Int) + (b1 : Int) * 0x100
  if value > 32767 then value - 65536 else value

/-- `setScaledValue`; C `%` and `/` truncate toward zero (`Int.tmod`, `Int.tdiv`). -/
def setScaled (value : Int) : Nat × Nat :=
  let valueToEncode : Int := if value < 0 then value + 65536 else value
  ((Int.tmod valueToEncode 256 % 256).toNat, (Int.tdiv valueToEncode 256 % 256).toNat)

end Iec.Bcr
