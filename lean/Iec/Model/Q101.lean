/-
Model of lib60870-C/src/iec60870/cs101/cs101_queue.c: the class 1 / class 2 queues of the
CS101 slave and the user-data queue of the balanced master.

The C code is a ring over `size` fixed slots (`entryCounter`, `firstMsgIndex`,
`lastMsgIndex`).  The model is the queue content oldest first; the tie to the ring is the
differential of checks/c16.py, which dumps the real ring from `firstMsgIndex` for
`entryCounter` slots after every operation and compares it with `items`.
-/
namespace Iec.Q101

structure Q where
  size : Nat
  items : List (List Nat)        -- oldest first
  deriving Repr, DecidableEq

def Q.init (size : Nat) : Q := ⟨size, []⟩

/-- CS101_Queue_enqueue: when `entryCounter == size` the oldest entry is overwritten -/
def Q.enqueue (q : Q) (x : List Nat) : Q :=
  if q.items.length < q.size then { q with items := q.items ++ [x] }
  else { q with items := q.items.tail ++ [x] }

/-- CS101_Queue_dequeue -/
def Q.dequeue (q : Q) : Q × Option (List Nat) :=
  match q.items with
  | [] => (q, none)
  | x :: rest => ({ q with items := rest }, some x)

def Q.flush (q : Q) : Q := { q with items := [] }
def Q.isFull (q : Q) : Bool := q.items.length == q.size
def Q.isEmpty (q : Q) : Bool := q.items.isEmpty

inductive Op where
  | enq (x : List Nat)
  | deq
  | flush
  deriving Repr, DecidableEq

def Q.step (q : Q) : Op → Q
  | .enq x => q.enqueue x
  | .deq => q.dequeue.1
  | .flush => q.flush

end Iec.Q101
