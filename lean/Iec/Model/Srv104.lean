import Iec.Model.KWindow
import Iec.Model.Queues
/-
Model of the CS104 server (cs104_slave.c) in threadless mode: connection table,
per-connection APCI state machine, k-window, event and response queues, timers.
Each function names the C function it transcribes.  Sockets are part of the state:
the harness feeds chunks / closes / makes writes fail, the model reads them exactly as
`Socket_read` of the simulated HAL hands them out (never across a chunk boundary).

Outputs are an ordered log of observations (`Obs`): octets written per connection,
connection events, ASDUs handed to the application.
-/
namespace Iec.Srv104
open Iec.KWindow Iec.Queues

structure Params where
  k : Nat
  w : Nat
  t0 : Nat
  t1 : Nat
  t2 : Nat
  t3 : Nat
  /-- 0 single redundancy group, 1 connection is redundancy group, 2 multiple groups -/
  mode : Nat
  maxOpen : Nat
  lowQ : Nat
  highQ : Nat
  /-- ASDU header length 2 + sizeOfCOT + sizeOfCA of the slave's application-layer parameters -/
  asduHdr : Nat
  /-- how many copies of a received ASDU the harness' application handler sends back -/
  replies : Nat
  nSlots : Nat
  deriving Repr, Inhabited

inductive Obs where
  | tx (c : Nat) (bytes : List Nat)
  | ev (c : Nat) (what : String)
  | asdu (c : Nat) (bytes : List Nat)
  | reply (c : Nat) (ok : Bool)
  deriving Repr, Inhabited

structure Sock where
  chunks : List (List Nat) := []
  peerClosed : Bool := false
  writeFail : Bool := false
  peer : String := ""
  /-- harness handle of the socket (observation only) -/
  hid : Nat := 0
  deriving Repr, Inhabited

/-- `Socket_read(size)` of the simulated HAL -/
def Sock.read (s : Sock) (n : Nat) : Sock × Int × List Nat :=
  match s.chunks with
  | [] => (s, if s.peerClosed then -1 else 0, [])
  | c :: rest =>
    if c.isEmpty then ({ s with chunks := rest }, 0, [])   -- not produced by the harness
    else
      let got := c.take n
      let left := c.drop n
      ({ s with chunks := if left.isEmpty then rest else left :: rest }, (got.length : Int), got)

def Sock.readable (s : Sock) : Bool := !s.chunks.isEmpty || s.peerClosed

structure Conn where
  isUsed : Bool := false
  isRunning : Bool := false
  /-- 0 STOPPED, 1 STARTED, 2 UNCONFIRMED_STOPPED -/
  state : Nat := 0
  t2Triggered : Bool := false
  waitingTestFR : Bool := false
  maxSent : Nat := 0
  win : List KEntry := []
  vs : Nat := 0
  vr : Nat := 0
  unconf : Nat := 0
  /-- none = UINT64_MAX -/
  lastConf : Option Nat := none
  nextT3 : Nat := 0
  nextTestFR : Nat := 0
  recvBuf : List Nat := []
  sock : Sock := {}
  group : Nat := 0
  deriving Repr, Inhabited

structure Group where
  name : String := ""
  /-- allowed client addresses: (isIPv6, 16 octets) — empty list = catch-all -/
  allowed : List (Bool × List Nat) := []
  lowQ : MsgQueue := MsgQueue.create 1
  highQ : HpQueue := HpQueue.create 1
  deriving Repr, Inhabited

structure Slave where
  p : Params
  now : Nat
  conns : List Conn
  /-- mode 0: one group; mode 2: configured groups; mode 1: one group per slot (index = slot) -/
  groups : List Group
  openConnections : Int := 0
  pending : List Sock := []
  /-- result the application's connection-request handler returns for the next requests -/
  acceptAnswers : List Bool := []
  log : List Obs := []
  deriving Repr, Inhabited

def emit (s : Slave) (o : Obs) : Slave := { s with log := s.log ++ [o] }

def Slave.conn (s : Slave) (i : Nat) : Conn := s.conns.getD i {}
def Slave.setConn (s : Slave) (i : Nat) (c : Conn) : Slave := { s with conns := s.conns.set i c }
def Slave.grp (s : Slave) (i : Nat) : Group := s.groups.getD i {}
def Slave.setGrp (s : Slave) (i : Nat) (g : Group) : Slave := { s with groups := s.groups.set i g }
/-- queue group a connection uses -/
def Slave.gidx (s : Slave) (i : Nat) : Nat := if s.p.mode = 1 then i else (s.conn i).group

def STARTDT_CON : List Nat := [0x68, 0x04, 0x0b, 0, 0, 0]
def STOPDT_CON : List Nat := [0x68, 0x04, 0x23, 0, 0, 0]
def TESTFR_CON : List Nat := [0x68, 0x04, 0x83, 0, 0, 0]
def TESTFR_ACT : List Nat := [0x68, 0x04, 0x43, 0, 0, 0]

/-- `writeToSocket`: result < 0 on failure -/
def write (s : Slave) (i : Nat) (bytes : List Nat) : Slave × Bool :=
  let c := s.conn i
  if c.sock.writeFail || c.sock.peerClosed then (s, false) else (emit s (.tx i bytes), true)

def seqLo (n : Nat) : Nat := (n % 128) * 2 % 256
def seqHi (n : Nat) : Nat := n / 128 % 256

/-- `_sendSMessage` -/
def sendS (s : Slave) (i : Nat) : Slave :=
  let c := s.conn i
  let (s, ok) := write s i [0x68, 0x04, 0x01, 0, seqLo c.vr, seqHi c.vr]
  if ok then s else s.setConn i { s.conn i with isRunning := false }

/-- `sendIMessage` + `sendASDU`: frame the ASDU, write, advance V(S), push on the k-buffer -/
def sendI (s : Slave) (i : Nat) (asdu : List Nat) (qref : Option (Nat × Nat)) : Slave :=
  let c := s.conn i
  let frame := [0x68, (asdu.length + 4) % 256, seqLo c.vs, seqHi c.vs, seqLo c.vr, seqHi c.vr] ++ asdu
  let (s, ok) := write s i frame
  let c := s.conn i
  let c := if ok then { c with vs := (c.vs + 1) % 32768, unconf := 0, t2Triggered := false }
           else { c with isRunning := false }
  let c := { c with unconf := 0 }
  let c := { c with win := c.win ++ [{ seq := c.vs, sentTime := s.now, qref := qref }] }
  s.setConn i c

/-- `sendASDUInternal` (responses from the application / the stack) -/
def sendAsduInternal (s : Slave) (i : Nat) (asdu : List Nat) : Slave × Bool :=
  let c := s.conn i
  if c.state = 1 then
    if !isFull c.maxSent c.win && (s.grp (s.gidx i)).highQ.count == 0 then (sendI s i asdu none, true)
    else
      let g := s.grp (s.gidx i)
      let (hq, ok) := g.highQ.enqueue asdu
      (s.setGrp (s.gidx i) { g with highQ := hq }, ok)
  else (s, false)

/-- `MasterConnection_deactivate` -/
def deactivate (s : Slave) (i : Nat) : Slave :=
  let c := s.conn i
  let s := if c.isUsed && c.state = 1 then emit s (.ev i "DEACTIVATED") else s
  s.setConn i { s.conn i with state := 2 }

/-- `MasterConnection_activate` -/
def activateConn (s : Slave) (i : Nat) : Slave :=
  let c := s.conn i
  let s := if c.state != 1 then emit s (.ev i "ACTIVATED") else s
  s.setConn i { s.conn i with state := 1 }

/-- `CS104_Slave_activate`: deactivate the other used connections of the group first -/
def activate (s : Slave) (i : Nat) : Slave :=
  let others := (List.range s.conns.length).filter fun j =>
    j != i && (s.conn j).isUsed &&
      (s.p.mode = 0 || (s.p.mode = 2 && (s.conn j).group == (s.conn i).group))
  let s := others.foldl deactivate s
  activateConn s i

/-- apply the confirmations of released k-buffer entries to the event queue -/
def confirmReleased (s : Slave) (i : Nat) (rel : List KEntry) : Slave :=
  rel.foldl (fun s e => match e.qref with
    | some (o, id) =>
      let g := s.grp (s.gidx i)
      s.setGrp (s.gidx i) { g with lowQ := g.lowQ.markConfirmed o id }
    | none => s) s

/-- `checkSequenceNumber` on connection `i` -/
def checkSeqConn (s : Slave) (i : Nat) (nr : Nat) : Slave × Bool :=
  let c := s.conn i
  let (ok, win', rel) := checkSeq c.vs c.win nr
  let s := s.setConn i { c with win := win' }
  (confirmReleased s i rel, ok)

/-- `MasterConnection_hasUnconfirmedMessages` (after the repair of the response-queue walk:
only the event queue can hold sent-but-unconfirmed entries) -/
def hasUnconfirmed (s : Slave) (i : Nat) : Bool := (s.grp (s.gidx i)).lowQ.hasUnconfirmed

/-- the harness' application handler: note the ASDU, send `replies` copies back -/
def appHandler (s : Slave) (i : Nat) (asdu : List Nat) : Slave :=
  let s := emit s (.asdu i asdu)
  (List.range s.p.replies).foldl (fun s _ =>
    let (s, ok) := sendAsduInternal s i asdu
    emit s (.reply i ok)) s

/-- the I-format branch of `handleMessage` (cs104_slave.c:2616-2700) -/
def handleI (s : Slave) (i : Nat) (buf : List Nat) : Slave × Bool :=
  let n := buf.length
  if n < 7 then (s, false)
  else
    let c := s.conn i
    if c.state != 1 then (s, false)
    else
      let c := if !c.t2Triggered then { c with t2Triggered := true, lastConf := some s.now } else c
      let s := s.setConn i c
      let ns := (buf.getD 3 0 * 0x100 + (buf.getD 2 0 &&& 0xfe)) / 2
      let nr := (buf.getD 5 0 * 0x100 + (buf.getD 4 0 &&& 0xfe)) / 2
      if ns != c.vr then (s, false)
      else
        let (s, ok) := checkSeqConn s i nr
        if !ok then (s, false)
        else
          let c := s.conn i
          let s := s.setConn i { c with vr := (c.vr + 1) % 32768, unconf := c.unconf + 1 }
          if (s.conn i).state = 1 then
            if n - 6 < s.p.asduHdr then (s, false)
            else
              let s := appHandler s i (buf.drop 6)
              (s.setConn i { s.conn i with nextT3 := s.now + s.p.t3 * 1000 }, true)
          else (s, false)

/-- every accepted message restarts the T3 supervision -/
def t3upd (s : Slave) (i : Nat) : Slave := s.setConn i { s.conn i with nextT3 := s.now + s.p.t3 * 1000 }

/-- TESTFR act -/
def hmTestFR (s : Slave) (i : Nat) : Slave × Bool :=
  let (s, ok) := write s i TESTFR_CON
  if ok then (t3upd s i, true) else (s, false)

/-- STARTDT act -/
def hmStartDT (s : Slave) (i : Nat) : Slave × Bool :=
  let s := activate s i
  let g := s.grp (s.gidx i)
  let s := s.setGrp (s.gidx i) { g with highQ := g.highQ.reset }
  let (s, ok) := write s i STARTDT_CON
  if ok then (t3upd s i, true) else (s, false)

/-- STOPDT act -/
def hmStopDT (s : Slave) (i : Nat) : Slave × Bool :=
  let s := deactivate s i
  let c := s.conn i
  let s := if c.unconf > 0 then
      sendS (s.setConn i { c with lastConf := some s.now, unconf := 0, t2Triggered := false }) i
    else s
  if hasUnconfirmed s i then (t3upd s i, true)
  else
    let s := s.setConn i { s.conn i with state := 0 }
    let (s, ok) := write s i STOPDT_CON
    if ok then (t3upd s i, true) else (s, false)

/-- S-format APDU -/
def hmS (s : Slave) (i : Nat) (buf : List Nat) : Slave × Bool :=
  let nr := (buf.getD 4 0 + buf.getD 5 0 * 0x100) / 2
  let (s, ok) := checkSeqConn s i nr
  if !ok then (s, false)
  else
    let c := s.conn i
    if c.state = 2 then
      if !hasUnconfirmed s i then
        let s := s.setConn i { c with state := 0 }
        let (s, ok) := write s i STOPDT_CON
        if ok then (t3upd s i, true) else (s, false)
      else (t3upd s i, true)
    else if c.state = 0 then (s, false)
    else (t3upd s i, true)

/-- `handleMessage`: false = close the connection -/
def handleMessage (s : Slave) (i : Nat) (buf : List Nat) : Slave × Bool :=
  let n := buf.length
  if n < 6 then (s, false)
  else if buf.getD 0 0 != 0x68 then (s, false)
  else if buf.getD 1 0 != n - 2 then (s, false)
  else
    let b2 := buf.getD 2 0
    if b2 &&& 1 == 0 then handleI s i buf
    else if b2 &&& 0x43 == 0x43 then hmTestFR s i
    else if b2 &&& 0x07 == 0x07 then hmStartDT s i
    else if b2 &&& 0x13 == 0x13 then hmStopDT s i
    else if b2 &&& 0x83 == 0x83 then (t3upd (s.setConn i { s.conn i with waitingTestFR := false }) i, true)
    else if b2 == 0x01 then hmS s i buf
    else (s, true)

/-- `receiveMessage` on the reassembly state alone (receive buffer, socket): after the repair
a missing length octet is waited for, as in the client.  Result: (-1, _) error, (0, _)
incomplete, (n, msg) complete message of n octets. -/
def recvRest (buf : List Nat) (sk : Sock) : List Nat × Sock × Int × List Nat :=
  let length := buf.getD 1 0
  let remaining : Int := (length : Int) - (buf.length : Int) + 2
  let (sk, r, got) := sk.read remaining.toNat
  if r = remaining then ([], sk, (length : Int) + 2, buf ++ got)
  else if r = -1 then ([], sk, -1, [])
  else (buf ++ got, sk, 0, [])

def recvLen (buf : List Nat) (sk : Sock) : List Nat × Sock × Int × List Nat :=
  let (sk, r, got) := sk.read 1
  if r < 0 then ([], sk, -1, [])
  else if r = 0 then (buf, sk, 0, [])
  else recvRest (buf ++ got) sk

def recvStep (buf : List Nat) (sk : Sock) : List Nat × Sock × Int × List Nat :=
  if buf.length = 0 then
    let (sk, r, got) := sk.read 1
    if r < 1 then (buf, sk, r, [])
    else if got.getD 0 0 != 0x68 then (buf, sk, -1, [])
    else recvLen got sk
  else if buf.length = 1 then recvLen buf sk
  else recvRest buf sk

def receiveMessage (s : Slave) (i : Nat) : Slave × Int × List Nat :=
  let c := s.conn i
  let (buf, sk, r, msg) := recvStep c.recvBuf c.sock
  (s.setConn i { c with recvBuf := buf, sock := sk }, r, msg)

/-- the `w` test after each received message -/
def ackIfW (s : Slave) (i : Nat) : Slave :=
  let c := s.conn i
  if c.unconf ≥ s.p.w then
    sendS (s.setConn i { c with lastConf := some s.now, unconf := 0, t2Triggered := false }) i
  else s

/-- `MasterConnection_handleTcpConnection` -/
def handleTcpConnection (s : Slave) (i : Nat) : Slave :=
  let (s, r, msg) := receiveMessage s i
  let s := if r < 0 then s.setConn i { s.conn i with isRunning := false } else s
  if r > 0 && (s.conn i).isRunning then
    let (s, ok) := handleMessage s i msg
    let s := if !ok then s.setConn i { s.conn i with isRunning := false } else s
    ackIfW s i
  else s

/-- `sendNextHighPriorityASDU` / `sendNextLowPriorityASDU` / `sendWaitingASDUs` -/
def sendWaitingHigh (s : Slave) (i : Nat) : Nat → Slave × Bool
  | 0 => (s, true)
  | fuel + 1 =>
    let g := s.grp (s.gidx i)
    if g.highQ.count > 0 then
      let c := s.conn i
      if isFull c.maxSent c.win then (s, false)       -- "return true": ASDUs still waiting
      else
        let (hq, d) := g.highQ.getNext
        let s := s.setGrp (s.gidx i) { g with highQ := hq }
        match d with
        | some asdu =>
          let s := sendI s i asdu none
          if !(s.conn i).isRunning then (s, false) else sendWaitingHigh s i fuel
        | none => (s, false)
    else (s, true)

def sendWaitingASDUs (s : Slave) (i : Nat) : Slave :=
  let (s, cont) := sendWaitingHigh s i ((s.grp (s.gidx i)).highQ.count + 1)
  if !cont then s
  else
    let c := s.conn i
    if isFull c.maxSent c.win then s
    else
      let g := s.grp (s.gidx i)
      let (lq, r) := g.lowQ.getNextWaiting
      let s := s.setGrp (s.gidx i) { g with lowQ := lq }
      match r with
      | some (id, off, data) => sendI s i data (some (off, id))
      | none => s

/-- `handleTimeouts`, first part: T3 supervision — after t3 seconds without receiving anything
(and no TESTFR con outstanding) send TESTFR act and arm the T1 timer for its confirmation -/
def phaseT3 (s : Slave) (i : Nat) : Slave :=
  let now := s.now
  let c := s.conn i
  let (c, t3hit) :=
    if c.waitingTestFR then (c, false)
    else
      let c := if c.nextT3 > now + s.p.t3 * 1000 then { c with nextT3 := now + s.p.t3 * 1000 } else c
      (c, decide (now > c.nextT3))
  let s := s.setConn i c
  if t3hit then
    let (s, ok) := write s i TESTFR_ACT
    let s := if !ok then s.setConn i { s.conn i with isRunning := false } else s
    s.setConn i { s.conn i with waitingTestFR := true, nextTestFR := now + s.p.t1 * 1000 }
  else s

/-- second part: the outstanding TESTFR con; false = T1 expired -/
def phaseTestFR (s : Slave) (i : Nat) : Slave × Bool :=
  let now := s.now
  let c := s.conn i
  if c.waitingTestFR then
    let c := if c.nextTestFR > now + s.p.t1 * 1000 then { c with nextTestFR := now + s.p.t1 * 1000 } else c
    (s.setConn i c, !(decide (now > c.nextTestFR)))
  else (s, true)

/-- third part: T2 — acknowledge received I-frames t2 seconds after the first unacknowledged one -/
def phaseT2 (s : Slave) (i : Nat) : Slave :=
  let now := s.now
  let c := s.conn i
  if c.unconf > 0 then
    let c := match c.lastConf with
      | some l => if l > now then { c with lastConf := some now } else c
      | none => c
    let s := s.setConn i c
    match c.lastConf with
    | some l =>
      if now > l && now - l ≥ s.p.t2 * 1000 then
        sendS (s.setConn i { c with lastConf := some now, unconf := 0, t2Triggered := false }) i
      else s
    | none => s
  else s

/-- fourth part: T1 on the oldest unacknowledged I-frame; `ok1` is the TESTFR verdict -/
def phaseT1 (s : Slave) (i : Nat) (ok1 : Bool) : Slave × Bool :=
  let now := s.now
  let c := s.conn i
  match c.win with
  | [] => (s, ok1)
  | e :: rest =>
    let e := if e.sentTime > now then { e with sentTime := now } else e
    let s := s.setConn i { c with win := e :: rest }
    if now > e.sentTime && now - e.sentTime ≥ s.p.t1 * 1000 then (s, false) else (s, ok1)

/-- `handleTimeouts` (cs104_slave.c:2987-3090): false = close -/
def handleTimeouts (s : Slave) (i : Nat) : Slave × Bool :=
  let s := phaseT3 s i
  let (s, ok1) := phaseTestFR s i
  let s := phaseT2 s i
  phaseT1 s i ok1

/-- `MasterConnection_executePeriodicTasks` -/
def periodic (s : Slave) (i : Nat) : Slave :=
  let s := if (s.conn i).state = 1 then sendWaitingASDUs s i else s
  let (s, ok) := handleTimeouts s i
  if !ok then s.setConn i { s.conn i with isRunning := false } else s

/-- `MasterConnection_resetUnconfirmedQueueEntries`: the events sent on THIS connection and not
yet confirmed wait for transmission again (entries sent by other connections are not touched) -/
def resetUnconfirmed (s : Slave) (j : Nat) : Slave :=
  (s.conn j).win.foldl (fun s e => match e.qref with
    | some (o, id) =>
      let g := s.grp (s.gidx j)
      s.setGrp (s.gidx j) { g with lowQ := g.lowQ.setEntryWaiting o id }
    | none => s) s

/-- `handleClientConnections` -/
def handleClientConnections (s : Slave) : Slave :=
  if s.openConnections > 0 then
    let idx := List.range s.conns.length
    -- pass 1: collect running sockets, reap stopped connections
    let (s, anyRunning, ready) := idx.foldl (fun (acc : Slave × Bool × Bool) j =>
      let (s, anyR, rdy) := acc
      let c := s.conn j
      if c.isUsed then
        if c.isRunning then (s, true, rdy || c.sock.readable)
        else
          let s := emit s (.ev j "CLOSED")
          let s := resetUnconfirmed s j
          let s := s.setConn j { s.conn j with isUsed := false, state := 0 }
          ({ s with openConnections := s.openConnections - 1 }, anyR, rdy)
      else acc) (s, false, false)
    -- pass 2: incoming messages
    let s := if anyRunning && ready then
        idx.foldl (fun s j => if (s.conn j).isUsed then handleTcpConnection s j else s) s
      else s
    -- pass 3: periodic tasks
    idx.foldl (fun s j => if (s.conn j).isUsed && (s.conn j).isRunning then periodic s j else s) s
  else s

/-! ### admission -/

/-- `CS104_IPAddress_setFromString` for dotted IPv4 text (4 groups) and full 8-group IPv6
text; other shapes are outside the modelled domain (see C08) -/
def parseIp (t : String) : Bool × List Nat :=
  if t.contains '.' then
    (false, (t.splitOn ".").map fun x => x.toNat?.getD 0 % 256)
  else
    (true, ((t.splitOn ":").map fun x =>
      let v := (x.toList.foldl (fun acc ch =>
        acc * 16 + (if '0' ≤ ch ∧ ch ≤ '9' then ch.toNat - 48 else if 'a' ≤ ch ∧ ch ≤ 'f' then ch.toNat - 87
                    else if 'A' ≤ ch ∧ ch ≤ 'F' then ch.toNat - 55 else 0)) 0) % 65536
      [v / 256, v % 256]).flatten)

/-- peer address text without the port, as `getPeerAddress` cuts it -/
def stripPort (peer : String) : String :=
  if peer.startsWith "[" then ((peer.drop 1).toString.splitOn "]").headD ""
  else (peer.splitOn ":").headD ""

/-- `getMatchingRedundancyGroup`: first group listing the address, else the last catch-all -/
def matchGroup (s : Slave) (ipText : String) : Option Nat :=
  let ip := parseIp ipText
  let idx := List.range s.groups.length
  match idx.find? (fun g => (s.grp g).allowed.any (· == ip)) with
  | some g => some g
  | none => (idx.filter fun g => (s.grp g).allowed.isEmpty).getLast?

/-- `MasterConnection_init` -/
def initConn (s : Slave) (i : Nat) (sk : Sock) (grp : Nat) : Slave :=
  let c := s.conn i
  let c := { c with sock := sk, isUsed := true, isRunning := false, vs := 0, vr := 0, state := 0, recvBuf := [],
                    maxSent := s.p.k, unconf := 0, lastConf := none, t2Triggered := false, win := [],
                    nextT3 := s.now + s.p.t3 * 1000, waitingTestFR := false, group := grp }
  let s := s.setConn i c
  let gi := s.gidx i
  let g := s.grp gi
  -- connection-is-group mode: the connection's own queue is emptied; shared queues keep their events
  let g := if s.p.mode = 1 then { g with lowQ := g.lowQ.releaseAll } else g
  s.setGrp gi { g with highQ := g.highQ.reset }

/-- `handleConnectionsThreadless`: accept at most one pending connection, then serve -/
def accept (s : Slave) : Slave :=
  if s.p.maxOpen < 1 || s.openConnections < (s.p.maxOpen : Int) then
    match s.pending with
    | [] => s
    | sk :: rest =>
      let s := { s with pending := rest }
      let (answer, s) := match s.acceptAnswers with
        | [] => (true, s)
        | a :: as => (a, { s with acceptAnswers := as })
      if !answer then s
      else
        let free := (List.range s.conns.length).find? fun j => !(s.conn j).isUsed
        let grp : Option Nat := if s.p.mode = 2 then matchGroup s (stripPort sk.peer) else some 0
        match grp, free with
        | some g, some i =>
          -- connection-is-group mode re-initialises the connection's own queues first
          let s := if s.p.mode = 1 then
              let gr := s.grp i
              s.setGrp i { gr with lowQ := gr.lowQ.initialize, highQ := gr.highQ.reset }
            else s
          let s := initConn s i sk g
          let s := { s with openConnections := s.openConnections + 1 }
          let s := s.setConn i { s.conn i with isRunning := true }
          emit s (.ev i "OPENED")
        | _, _ => s
  else s

/-- `CS104_Slave_tick` -/
def tick (s : Slave) : Slave := handleClientConnections (accept s)

/-- `CS104_Slave_enqueueASDU` -/
def enqueue (s : Slave) (asdu : List Nat) : Slave :=
  { s with groups := s.groups.map fun g => { g with lowQ := g.lowQ.enqueue asdu } }

/-- `CS104_Slave_create…` + `CS104_Slave_startThreadless` -/
def create (p : Params) (groups : List (String × List (Bool × List Nat))) : Slave :=
  let mk (n : String) (al : List (Bool × List Nat)) : Group :=
    { name := n, allowed := al, lowQ := MsgQueue.create p.lowQ, highQ := HpQueue.create p.highQ }
  let gs : List Group :=
    if p.mode = 0 then [mk "" []]
    else if p.mode = 1 then (List.range p.nSlots).map fun _ => mk "" []
    else if groups.isEmpty then [mk "" []] else groups.map fun (n, al) => mk n al
  { p := p, now := 0, conns := (List.range p.nSlots).map fun _ => {}, groups := gs }

/-- `CS104_Slave_stopThreadless` followed by `CS104_Slave_startThreadless`: every connection is dropped without an
event (`CS104_Slave_closeAllConnections`: slot freed, socket destroyed, state STOPPED, counter zeroed; nothing else
of the connection object is touched); the single-group queues and the per-connection queues are created afresh,
the queues of configured redundancy groups are kept -/
def restart (s : Slave) : Slave :=
  let conns := s.conns.map fun c => if c.isUsed then { c with isUsed := false, state := 0 } else c
  let groups := if s.p.mode = 2 then s.groups
    else s.groups.map fun g => { g with lowQ := MsgQueue.create s.p.lowQ, highQ := HpQueue.create s.p.highQ }
  { s with conns := conns, groups := groups, openConnections := 0 }

end Iec.Srv104
