/-
k-window of sent-but-unacknowledged I-format APDUs
(cs104_slave.c:1864-1900, 2343-2451; cs104_connection.c:336-427, 1215-1237).

The C code keeps a ring `sentASDUs[maxSentASDUs]` with indices `oldestSentASDU` /
`newestSentASDU` (-1 = empty).  The model keeps the same FIFO as a list, oldest first:
`(newest+1) % k == oldest` is `length = k`, advancing `oldest` is dropping the head,
"oldest ran past newest" is the empty list.  (That the ring indices implement this FIFO is
part of what the correspondence run checks: the harness walks the real ring and prints
its content after every operation.)  Each entry carries the value the C code stores:
`seqNo` = the send counter *after* the frame = the N(R) that acknowledges it.
-/
namespace Iec.KWindow

def M : Nat := 32768

structure KEntry where
  seq : Nat
  sentTime : Nat
  /-- server only: (queue offset, entry id) of the event-queue entry this frame carries -/
  qref : Option (Nat × Nat)
  deriving DecidableEq, Repr, Inhabited

/-- `isSentBufferFull` -/
def isFull (k : Nat) (win : List KEntry) : Bool := win.length != 0 && win.length == k

/-- the acceptance test at the top of `checkSequenceNumber` -/
def valid (vs : Nat) (win : List KEntry) (nr : Nat) : Bool :=
  match win with
  | [] => nr == vs
  | o :: _ =>
    let n := (win.getLast?.getD o).seq
    let inRange := if o.seq ≤ n then (o.seq ≤ nr && nr ≤ n) else (nr ≥ o.seq || nr ≤ n)
    let oldestValid := if o.seq = 0 then 32767 else (o.seq - 1) % 32768
    inRange || oldestValid == nr

def overflowDetected (win : List KEntry) : Bool :=
  match win with
  | [] => false
  | o :: _ => decide ((win.getLast?.getD o).seq < o.seq)

def oldestValid (win : List KEntry) : Nat :=
  match win with
  | [] => 0
  | o :: _ => if o.seq = 0 then 32767 else (o.seq - 1) % 32768

/-- the `do … while (true)` release loop: (remaining window, released entries in order) -/
def releaseLoop (overflow : Bool) (ov nr : Nat) : List KEntry → List KEntry × List KEntry
  | [] => ([], [])
  | e :: rest =>
    if !overflow && nr < e.seq then (e :: rest, [])
    else if nr == ov then (e :: rest, [])
    else if e.seq == nr then (rest, [e])
    else
      let (r, p) := releaseLoop overflow ov nr rest
      (r, e :: p)

/-- `checkSequenceNumber`: accepted?, new window, released entries (oldest first) -/
def checkSeq (vs : Nat) (win : List KEntry) (nr : Nat) : Bool × List KEntry × List KEntry :=
  if valid vs win nr then
    let (r, p) := releaseLoop (overflowDetected win) (oldestValid win) nr win
    (true, r, p)
  else (false, win, [])

end Iec.KWindow
