import Iec.Model.Asdu
/-
Model of the hand-written command builders of the CS104 client (cs104_connection.c:1137-1375):
`encodeIdentificationField`, `encodeIOA` and the six system-command senders.  The result is the ASDU octet string
handed to `sendASDUInternal`.
-/
namespace Iec.CliCmd
open Iec.Asdu Iec.Layout

/-- `encodeIdentificationField` -/
def ident (p : Params) (oa typeId vsq cot ca : Nat) : List Nat :=
  [typeId % 256, vsq % 256, cot % 256] ++ (if p.sizeOfCOT = 2 then [oa % 256] else []) ++
  [ca % 256] ++ (if p.sizeOfCA = 2 then [ca / 256 % 256] else [])

/-- `encodeIOA` -/
def ioaBytes (p : Params) (ioa : Nat) : List Nat :=
  [ioa % 256] ++ (if p.sizeOfIOA > 1 then [ioa / 0x100 % 256] else []) ++ (if p.sizeOfIOA > 2 then [ioa / 0x10000 % 256] else [])

inductive Cmd where
  | interrogation (cot ca qoi : Nat)
  | counter (cot ca qcc : Nat)
  | read (ca ioa : Nat)
  /-- `time`: the seven octets of the CP56Time2a -/
  | clockSync (ca : Nat) (time : List Nat)
  | test (ca : Nat)
  | testTs (ca tsc : Nat) (time : List Nat)
  deriving Repr, DecidableEq

def build (p : Params) (oa : Nat) : Cmd → List Nat
  | .interrogation cot ca qoi => ident p oa 100 1 cot ca ++ ioaBytes p 0 ++ [qoi % 256]
  | .counter cot ca qcc => ident p oa 101 1 cot ca ++ ioaBytes p 0 ++ [qcc % 256]
  | .read ca ioa => ident p oa 102 1 5 ca ++ ioaBytes p ioa
  | .clockSync ca time => ident p oa 103 1 6 ca ++ ioaBytes p 0 ++ time.take 7
  | .test ca => ident p oa 104 1 6 ca ++ ioaBytes p 0 ++ [0xcc, 0x55]
  | .testTs ca tsc time => ident p oa 107 1 6 ca ++ ioaBytes p 0 ++ [tsc % 256, tsc / 256 % 256] ++ time.take 7

end Iec.CliCmd
