import Iec.Model.Asdu
/-
Model of the system-command dispatch of both slaves:
 * `handle104` — `handleASDU` of cs104_slave.c:1971-2341 (after the repair of C_TS_TA_1)
 * `handle101` — `handleASDU` of cs101_slave.c:635-872 (after the repair of the unknown-COT path)
An ASDU is the octet string of `Iec.Asdu`; responses are the request octets with the cause
/ negative bit rewritten (`CS101_ASDU_setCOT`, `setNegative`), exactly as the C code reuses
the received ASDU object.
-/
namespace Iec.Dispatch
open Iec.Asdu Iec.Layout

/-- which application callbacks are installed and what each returns -/
structure Handlers where
  ic : Option Bool := none
  ci : Option Bool := none
  rd : Option Bool := none
  cs : Option Bool := none
  rp : Option Bool := none
  cd : Option Bool := none
  asdu : Option Bool := none
  deriving Repr, Inhabited

inductive Out where
  /-- command-specific callback with its decoded argument -/
  | cb (name : String) (arg : Nat)
  /-- generic ASDU handler, with the ASDU octets it is given -/
  | generic (bytes : List Nat)
  | resp (bytes : List Nat)
  deriving Repr, DecidableEq, Inhabited

def negative (a : Asdu) (cot : Nat) : Asdu := (a.setCot cot).setNegative true

/-- the common shape: allowed causes → (if handler installed) decode → (CS104) IOA = 0 → callback -/
def typed (a : Asdu) (is104 : Bool) (allowed : List Nat) (h : Option Bool) (name : String) (arg : Nat × List Nat → Nat)
    (checkIoa : Bool) : Option (List Out × Bool) :=
  -- result: none = "return false" (close, CS104) ; some (outputs, messageHandled)
  if allowed.contains a.cot then
    match h with
    | none => some ([], false)
    | some r =>
      match a.getElement 0 with
      | none => if is104 then none else some ([], false)
      | some el =>
        if is104 && checkIoa && el.1 != 0 then some ([.resp (negative a 47).bytes], true)
        else some ([.cb name (arg el)], r)
  else some ([.resp (negative a 45).bytes], true)

def v0 (el : Nat × List Nat) : Nat := el.2.getD 0 0

/-- what follows the type switch: generic handler, then the COT 44 mirror -/
def tail (a : Asdu) (hs : Handlers) (pre : List Out) (handled : Bool) : List Out :=
  if handled then pre
  else match hs.asdu with
    | some true => pre ++ [.generic a.bytes]
    | some false => pre ++ [.generic a.bytes, .resp (negative a 44).bytes]
    | none => pre ++ [.resp (negative a 44).bytes]

/-- CS104 slave; `none` = the ASDU is invalid (connection is closed) -/
def handle104 (a : Asdu) (hs : Handlers) : Option (List Out) :=
  let t := a.typeId
  if t = 100 then (typed a true [6, 8] hs.ic "ic" v0 true).map fun (o, h) => tail a hs o h
  else if t = 101 then (typed a true [6, 8] hs.ci "ci" v0 true).map fun (o, h) => tail a hs o h
  else if t = 102 then (typed a true [5] hs.rd "rd" (·.1) false).map fun (o, h) => tail a hs o h
  else if t = 103 then
    if a.cot = 6 then
      match hs.cs with
      | none => some (tail a hs [] false)
      | some r =>
        match a.getElement 0 with
        | none => none
        | some el =>
          if el.1 != 0 then some [.resp (negative a 47).bytes]
          else
            let time := v0 el
            if r then
              -- removeAllElements, add ClockSynchronizationCommand(ioa 0, time), ACT_CON
              let a1 := a.removeAll
              let e : TypeEntry := ⟨103, "C_CS_NA_1", .single, [.le 7], 0⟩
              let a2 := (a1.add e 0 [time]).1
              some [.cb "cs" time, .resp (a2.setCot 7).bytes]
            else some [.cb "cs" time, .resp ((a.setCot 7).setNegative true).bytes]
    else some [.resp (negative a 45).bytes]
  else if t = 105 then (typed a true [6] hs.rp "rp" v0 true).map fun (o, h) => tail a hs o h
  else if t = 106 then (typed a true [6, 3] hs.cd "cd" v0 true).map fun (o, h) => tail a hs o h
  else if t = 107 then
    if a.cot = 6 then
      match a.getElement 0 with
      | none => none
      | some el => if el.1 != 0 then some [.resp (negative a 47).bytes] else some [.resp (a.setCot 7).bytes]
    else some [.resp (negative a 45).bytes]
  else some (tail a hs [] false)

/-- CS101 slave (never closes anything: always `some`) -/
def handle101 (a : Asdu) (hs : Handlers) : List Out :=
  let t := a.typeId
  let run (r : Option (List Out × Bool)) : List Out := match r with
    | some (o, h) => tail a hs o h
    | none => []
  if t = 100 then run (typed a false [6, 8] hs.ic "ic" v0 false)
  else if t = 101 then
    -- a truncated counter interrogation returns without any response (cs101_slave.c:708)
    if [6, 8].contains a.cot && hs.ci.isSome && (a.getElement 0).isNone then []
    else run (typed a false [6, 8] hs.ci "ci" v0 false)
  else if t = 102 then run (typed a false [5] hs.rd "rd" (·.1) false)
  else if t = 103 then
    if a.cot = 6 then
      match hs.cs, a.getElement 0 with
      | some r, some el =>
        if r then [.cb "cs" (v0 el), .resp (a.setCot 7).bytes] else tail a hs [.cb "cs" (v0 el)] false
      | _, _ => tail a hs [] false
    else [.resp (negative a 45).bytes]
  else if t = 104 then
    if a.cot != 6 then [.resp (negative a 45).bytes] else [.resp (a.setCot 7).bytes]
  else if t = 105 then run (typed a false [6] hs.rp "rp" v0 false)
  else if t = 106 then run (typed a false [6, 3] hs.cd "cd" v0 false)
  else tail a hs [] false

end Iec.Dispatch
