/-
Model of lib60870-C/src/iec60870/apl/cpXXtime2a.c (CP16/CP24/CP32/CP56Time2a).

The C code keeps every time tag as `uint8_t encodedValue[n]` and manipulates it
with the static helpers `getMillisecond … setSubstituted`, shared by the three
types.  The model keeps the octets as `Nat` fields (well-formed when `< 256`)
and transcribes each helper expression by expression: `(uint8_t) e` is `e % 256`,
`&`/`|` are `&&&`/`|||`, C `int` is unbounded (the arguments are "in range" in
every statement, so no C overflow can occur).
Core Lean only (no Mathlib) so that the driver links as an executable.
-/
namespace Iec.TimeTag

/-- Seven octets; CP24Time2a uses b0..b2, CP32Time2a b0..b3, CP56Time2a all. -/
structure Tag where
  b0 : Nat
  b1 : Nat
  b2 : Nat
  b3 : Nat
  b4 : Nat
  b5 : Nat
  b6 : Nat
  deriving DecidableEq, Repr, Inhabited

def Tag.zero : Tag := ⟨0, 0, 0, 0, 0, 0, 0⟩

def Tag.WF (r : Tag) : Prop :=
  r.b0 < 256 ∧ r.b1 < 256 ∧ r.b2 < 256 ∧ r.b3 < 256 ∧ r.b4 < 256 ∧ r.b5 < 256 ∧ r.b6 < 256

instance (r : Tag) : Decidable r.WF := by unfold Tag.WF; infer_instance

/-- `(uint8_t) x` -/
@[inline] def u8 (x : Nat) : Nat := x % 256

/-! ### common static helpers (cpXXtime2a.c:78-157) -/

def getMillisecond (r : Tag) : Nat := (r.b0 + r.b1 * 0x100) % 1000

def setMillisecond (r : Tag) (value : Nat) : Tag :=
  let millies := r.b0 + r.b1 * 0x100
  let millies := millies - millies % 1000
  let millies := millies + value
  { r with b0 := u8 (millies &&& 0xff), b1 := u8 ((millies / 0x100) &&& 0xff) }

def getSecond (r : Tag) : Nat := (r.b0 + r.b1 * 0x100) / 1000

def setSecond (r : Tag) (value : Nat) : Tag :=
  let millies := r.b0 + r.b1 * 0x100
  let msPart := millies % 1000
  let millies := value * 1000 + msPart
  { r with b0 := u8 (millies &&& 0xff), b1 := u8 ((millies / 0x100) &&& 0xff) }

def getMinute (r : Tag) : Nat := r.b2 &&& 0x3f

def setMinute (r : Tag) (value : Nat) : Tag :=
  { r with b2 := u8 ((r.b2 &&& 0xc0) ||| (value &&& 0x3f)) }

def isInvalid (r : Tag) : Bool := (r.b2 &&& 0x80) != 0

def setInvalid (r : Tag) (value : Bool) : Tag :=
  if value then { r with b2 := u8 (r.b2 ||| 0x80) } else { r with b2 := u8 (r.b2 &&& 0x7f) }

def isSubstituted (r : Tag) : Bool := (r.b2 &&& 0x40) == 0x40

def setSubstituted (r : Tag) (value : Bool) : Tag :=
  if value then { r with b2 := u8 (r.b2 ||| 0x40) } else { r with b2 := u8 (r.b2 &&& 0xbf) }

/-! ### CP32 / CP56 specific (cpXXtime2a.c:336-424, 580-655) -/

/-- `CP32Time2a_setMillisecond` is written differently from the shared helper. -/
def setMillisecond32 (r : Tag) (value : Nat) : Tag :=
  let millies := getSecond r * 1000 + value
  { r with b0 := u8 (millies &&& 0xff), b1 := u8 ((millies / 0x100) &&& 0xff) }

def getHour (r : Tag) : Nat := r.b3 &&& 0x1f

def setHour (r : Tag) (value : Nat) : Tag :=
  { r with b3 := u8 ((r.b3 &&& 0xe0) ||| (value &&& 0x1f)) }

def isSummerTime (r : Tag) : Bool := (r.b3 &&& 0x80) != 0

def setSummerTime (r : Tag) (value : Bool) : Tag :=
  if value then { r with b3 := u8 (r.b3 ||| 0x80) } else { r with b3 := u8 (r.b3 &&& 0x7f) }

def getDayOfWeek (r : Tag) : Nat := (r.b4 &&& 0xe0) >>> 5

def setDayOfWeek (r : Tag) (value : Nat) : Tag :=
  { r with b4 := u8 ((r.b4 &&& 0x1f) ||| ((value &&& 0x07) <<< 5)) }

def getDayOfMonth (r : Tag) : Nat := r.b4 &&& 0x1f

def setDayOfMonth (r : Tag) (value : Nat) : Tag :=
  { r with b4 := u8 ((r.b4 &&& 0xe0) + (value &&& 0x1f)) }

def getMonth (r : Tag) : Nat := r.b5 &&& 0x0f

def setMonth (r : Tag) (value : Nat) : Tag :=
  { r with b5 := u8 ((r.b5 &&& 0xf0) + (value &&& 0x0f)) }

def getYear (r : Tag) : Nat := r.b6 &&& 0x7f

def setYear (r : Tag) (value : Nat) : Tag :=
  let value := value % 100
  { r with b6 := u8 ((r.b6 &&& 0x80) + (value &&& 0x7f)) }

/-! ### CP16Time2a (cpXXtime2a.c:55-66) — two octets, b0 b1 -/

def getElapsed (r : Tag) : Nat := r.b0 + r.b1 * 0x100

def setElapsed (r : Tag) (value : Nat) : Tag :=
  { r with b0 := u8 (value % 0x100), b1 := u8 (value / 0x100) }

/-! ### broken-down time: the part of `gmtime_r` the code uses -/

structure Tm where
  sec : Nat
  min : Nat
  hour : Nat
  mday : Nat
  /-- 0..11 -/
  mon : Nat
  /-- years since 1900 -/
  year : Nat
  deriving DecidableEq, Repr

/-- Proleptic Gregorian civil date from days since 1970-01-01 (the function
`gmtime_r` computes; compared with glibc on every day 1970..2105 on each run). -/
def civilFromDays (z : Nat) : Nat × Nat × Nat :=
  let z := z + 719468
  let era := z / 146097
  let doe := z - era * 146097
  let yoe := (doe - doe / 1460 + doe / 36524 - doe / 146096) / 365
  let y := yoe + era * 400
  let doy := doe - (365 * yoe + yoe / 4 - yoe / 100)
  let mp := (5 * doy + 2) / 153
  let d := doy - (153 * mp + 2) / 5 + 1
  let m := if mp < 10 then mp + 3 else mp - 9
  (if m ≤ 2 then y + 1 else y, m, d)

/-- `gmtime_r(&timeVal, &tm)` for `timeVal ≥ 0` (fields the library reads). -/
def gmtime (timeVal : Nat) : Tm :=
  let days := timeVal / 86400
  let rem := timeVal % 86400
  let (y, m, d) := civilFromDays days
  { sec := rem % 60, min := rem / 60 % 60, hour := rem / 3600, mday := d, mon := m - 1, year := y - 1900 }

/-- day part of `my_mktime` (cpXXtime2a.c:296-303), in `Int` exactly as the C
expression (`time_t` is a signed 64-bit integer; no wrap for the years considered;
all intermediate values are non-negative there, so C's truncating `/` and Lean's
`/` on `Int` agree). -/
def mkDays (year mon mday : Int) : Int :=
  let m : Int := if mon < 2 then mon + 12 else mon
  let y : Int := if mon < 2 then year - 1 else year
  (y - 69) * 365 + y / 4 - y / 100 * 3 / 4 + (m + 2) * 153 / 5 - 446 + mday

/-- `my_mktime` (cpXXtime2a.c:293-305) -/
def myMktime (t : Tm) : Int :=
  ((mkDays t.year t.mon t.mday * 24 + (t.hour : Int)) * 60 + (t.min : Int)) * 60 + (t.sec : Int)

/-- `CP56Time2a_setFromMsTimestamp` (cpXXtime2a.c:476-509). -/
def cp56FromMs (timestamp : Nat) : Tag :=
  let timeVal := timestamp / 1000
  let msPart := timestamp % 1000
  let tm := gmtime timeVal
  let r := Tag.zero
  let r := setMillisecond r msPart
  let r := setSecond r tm.sec
  let r := setMinute r tm.min
  let r := setHour r tm.hour
  let r := setDayOfMonth r tm.mday
  let r := setDayOfWeek r 0
  let r := setMonth r (tm.mon + 1)
  setYear r tm.year

/-- `CP56Time2a_toMsTimestamp` (cpXXtime2a.c:511-528). The C code computes
`getMonth - 1` in `int`; the model keeps it in `Int` too. -/
def cp56ToMsInt (r : Tag) : Int :=
  let tm_mon : Int := (getMonth r : Int) - 1
  let tm_year : Int := (getYear r : Int) + 100
  let ts : Int := ((mkDays tm_year tm_mon (getDayOfMonth r : Int) * 24 + (getHour r : Int)) * 60
      + (getMinute r : Int)) * 60 + (getSecond r : Int)
  ts * 1000 + (getMillisecond r : Int)

/-- `uint64_t` result. -/
def cp56ToMs (r : Tag) : Nat := (cp56ToMsInt r % (2 ^ 64 : Int)).toNat

/-- `CP32Time2a_setFromMsTimestamp` (cpXXtime2a.c:426-450). -/
def cp32FromMs (timestamp : Nat) : Tag :=
  let timeVal := timestamp / 1000
  let msPart := timestamp % 1000
  let tm := gmtime timeVal
  let r := Tag.zero
  let r := setSecond r tm.sec
  let r := setMillisecond32 r msPart
  let r := setMinute r tm.min
  setHour r tm.hour

end Iec.TimeTag
