import Iec.Lemmas.Srv104
import Iec.Model.Cli104
import Iec.Lemmas.Srv104NoAsdu
import Iec.Lemmas.Cli104Deliver
/-
C05 — Received I-frames delivered exactly once, in order, for any TCP segmentation.

Statement (properties.jsonl): while data transfer is enabled, an I-format APDU received on
a CS104 connection is handed to the application exactly once and in arrival order iff its
N(S) equals the number of I-format APDUs accepted so far (mod 32768); any other N(S) closes
the connection without delivering; the outcome does not depend on how the TCP byte stream
is split into reads.

Model: `Iec.Srv104.recvStep` is `receiveMessage` (cs104_slave.c:1756-1809 after the repair of
the length-octet case; cs104_connection.c:540-600 is the same function) over a socket that
hands out octets chunk by chunk, never across a chunk boundary; `drain` is the connection
loop calling it until the input is used up; `handleI` is the I-format branch of
`handleMessage`.  Theorems are for every octet stream, every chunking (any sizes, any
number of empty polls), every receive-buffer state, every connection state.  Over every sequence of received messages:
`delivered_exactly_once_in_order` (`Lemmas/Srv104NoAsdu.lean`).
-/
namespace Iec.Props.C05
open Iec.Srv104 Iec.KWindow

/-- **(i) segmentation independence** — the loop's result is a function of the octet stream:
it equals the stream specification `parseS` (frames in order, close decision, incomplete
tail) whatever the chunking. -/
theorem loop_is_stream_function (fuel : Nat) (buf : List Nat) (sk : Sock) (hb : PartialOk buf) (hk : sk.Ok)
    (hf : 2 * sk.stream.length + buf.length < fuel) : drain fuel buf sk = parseS (buf ++ sk.stream) :=
  drain_eq_parse fuel buf sk hb hk hf

theorem segmentation_independence (buf : List Nat) (hb : PartialOk buf) (sk1 sk2 : Sock) (h1 : sk1.Ok) (h2 : sk2.Ok)
    (hs : sk1.stream = sk2.stream) (f1 f2 : Nat) (hf1 : 2 * sk1.stream.length + buf.length < f1)
    (hf2 : 2 * sk2.stream.length + buf.length < f2) : drain f1 buf sk1 = drain f2 buf sk2 :=
  segmentation_independent buf hb sk1 sk2 h1 h2 hs f1 f2 hf1 hf2

/-- one call never loses or invents octets, and leaves a legal partial frame behind -/
theorem one_call (buf : List Nat) (hb : PartialOk buf) (sk : Sock) (h : sk.Ok) : StepPost buf sk (recvStep buf sk) :=
  recvStep_spec buf hb sk h

/-- **(ii) delivery iff N(S) = V(R)** (plus the N(R) and minimum-length checks), exactly once;
otherwise no delivery and the connection is closed (`false`). -/
theorem delivery (s : Slave) (i : Nat) (hi : i < s.conns.length) (buf : List Nat) (h7 : 7 ≤ buf.length)
    (hst : (s.conn i).state = 1) :
    (IAccept s i buf →
      (handleI s i buf).2 = true ∧
      ∃ l, (handleI s i buf).1.log = s.log ++ (.asdu i (buf.drop 6)) :: l ∧ ∀ o ∈ l, o.isAsdu = false) ∧
    (¬ IAccept s i buf → (handleI s i buf).2 = false ∧ (handleI s i buf).1.log = s.log) :=
  iframe_delivery s i hi buf h7 hst

/-- an I-format APDU on a connection that is not started is never delivered and closes it -/
theorem not_started_closes (s : Slave) (i : Nat) (buf : List Nat) (hst : (s.conn i).state ≠ 1) :
    handleI s i buf = (s, false) := by
  unfold handleI
  by_cases h : buf.length < 7
  · simp [h]
  · have : ((s.conn i).state != 1) = true := by simpa using hst
    simp [h, this]

/-- non-vacuity: the same STARTDT act + TESTFR act octets in three different chunkings -/
example :
    let bytes := [0x68, 4, 7, 0, 0, 0, 0x68, 4, 0x43, 0, 0, 0]
    let a : Sock := { chunks := [bytes] }
    let b : Sock := { chunks := bytes.map fun x => [x] }
    let c : Sock := { chunks := [[0x68], [4, 7, 0, 0, 0, 0x68], [4, 0x43, 0, 0], [0]] }
    drain 40 [] a = drain 40 [] b ∧ drain 40 [] b = drain 40 [] c ∧
    (drain 40 [] a).1 = [[0x68, 4, 7, 0, 0, 0], [0x68, 4, 0x43, 0, 0, 0]] := by decide

/-! ### every sequence of received messages -/

/-- **exactly once, in arrival order, iff deliverable - over every history of received messages.** Take any sequence of
messages (I-, S-, U-format, well-formed or not) handled on connection `i` until one of them closes it. What the
application has been handed (the `asdu` observations of the log, in order) is what it had been handed before followed by
exactly the payloads of the deliverable I-format APDUs - well framed, connection STARTED at that moment, N(S) = V(R)
(= number of I-format APDUs accepted so far, C03 `nr_is_accepted_count`), N(R) inside the window, ASDU header complete -
once each, in arrival order; nothing is handed over for any other message, and nothing after the closing one. With
`segmentation_independence` (the messages are the frames of the octet stream whatever the chunking) this is the property
for every octet stream and every segmentation. -/
theorem delivered_exactly_once_in_order (s : Slave) (i : Nat) (hi : i < s.conns.length) (ms : List (List Nat)) :
    asduLog (recvRun s i ms).1.log = asduLog s.log ++ (expectedDeliveries s i ms).map (fun a => (i, a)) :=
  deliveries_spec ms s i hi

/-- **"iff its N(S) equals the number of I-format APDUs accepted so far".** On a connection whose V(R) was 0 (just opened),
after ANY sequence of received messages `ms`, the next message `m` is deliverable - and then handed over exactly once,
`delivered_exactly_once_in_order` - exactly when it is a well-framed I-format APDU on a started connection whose N(S) equals
the number of I-format APDUs accepted so far modulo 32768 (C03 `vr_counts_accepted`), its N(R) lies in the window and the
ASDU header is complete. -/
theorem deliverable_iff_ns_is_accepted_count (s : Slave) (i : Nat) (hi : i < s.conns.length) (ms : List (List Nat)) (m : List Nat)
    (h0 : (s.conn i).vr = 0) :
    Deliverable (recvAll s i ms) i m ↔
      (m.getD 0 0 = 0x68 ∧ m.getD 1 0 = m.length - 2 ∧ m.getD 2 0 &&& 1 = 0 ∧ 7 ≤ m.length ∧
        ((recvAll s i ms).conn i).state = 1 ∧
        frameNS m = acceptedCount s i ms % 32768 ∧
        Iec.KWindow.valid ((recvAll s i ms).conn i).vs ((recvAll s i ms).conn i).win (frameNR m) = true ∧
        (recvAll s i ms).p.asduHdr ≤ m.length - 6) := by
  have hv := vr_counts_accepted ms s i hi (by rw [h0]; decide)
  rw [h0, Nat.zero_add] at hv
  unfold Deliverable IAccept
  rw [hv]

/-- the first message that is an I-format APDU with a wrong N(S) on a started connection closes it and nothing of it or
after it is delivered (instance of the above, stated for one message) -/
theorem wrong_ns_delivers_nothing (s : Slave) (i : Nat) (hi : i < s.conns.length) (m : List Nat) (ms : List (List Nat))
    (hns : frameNS m ≠ (s.conn i).vr) (hclose : (handleMessage s i m).2 = false) :
    asduLog (recvRun s i (m :: ms)).1.log = asduLog s.log := by
  rw [delivered_exactly_once_in_order s i hi]
  have hnd : ¬ Deliverable s i m := fun h => hns h.2.2.2.2.2.1
  simp [expectedDeliveries, hnd, hclose]

/-- non-vacuity on a concrete history: two in-sequence I-format APDUs (a TESTFR act in between), then one with N(S) = 5
instead of 2 - exactly the first two payloads are delivered, the third closes the connection, the fourth is not looked at -/
def demoP5 : Params := { k := 12, w := 8, t0 := 10, t1 := 15, t2 := 10, t3 := 20, mode := 0, maxOpen := 0, lowQ := 4, highQ := 4, asduHdr := 6, replies := 0, nSlots := 1 }
def demoS5 : Slave := { (create demoP5 []) with conns := [{ isUsed := true, isRunning := true, state := 1, maxSent := 12 }] }
def demoI (ns : Nat) (x : Nat) : List Nat := [0x68, 14, ns * 2, 0, 0, 0, 1, 1, 3, 0, 1, 0, x, 0, 0, 1]
example : expectedDeliveries demoS5 0 [demoI 0 7, [0x68, 4, 0x43, 0, 0, 0], demoI 1 8, demoI 5 9, demoI 2 10] = [(demoI 0 7).drop 6, (demoI 1 8).drop 6] ∧
  (recvRun demoS5 0 [demoI 0 7, [0x68, 4, 0x43, 0, 0, 0], demoI 1 8, demoI 5 9, demoI 2 10]).2 = false := by decide

/-! ### client role: the same delivery rule in `checkMessage` of cs104_connection.c (reassembly is the
same algorithm, `Iec.Srv104.recvStep`, used by the client model) -/
section Client
open Iec.Cli104 Iec.KWindow

/-- the I-format APDU `buf` is acceptable for the client in state `c` -/
def CliAccept (c : Cli) (buf : List Nat) : Prop :=
  (buf.getD 3 0 * 0x100 + (buf.getD 2 0 &&& 0xfe)) / 2 = c.vr ∧
  (checkSeq c.vs c.win ((buf.getD 5 0 * 0x100 + (buf.getD 4 0 &&& 0xfe)) / 2)).1 = true ∧
  c.p.asduHdr ≤ buf.length - 6

set_option maxRecDepth 4000 in
/-- **client: an I-format APDU is handed to the application exactly once iff N(S) = V(R)** (and N(R) is inside the
window and the ASDU header is complete); then V(R) advances by one modulo 32768; otherwise nothing is delivered
and the connection is closed. -/
theorem client_delivery (c : Cli) (buf : List Nat) (h7 : 7 ≤ buf.length) (hI : buf.getD 2 0 &&& 1 = 0) :
    (CliAccept c buf →
      (checkMessage c buf).2 = true ∧ (checkMessage c buf).1.vr = (c.vr + 1) % 32768 ∧
      (checkMessage c buf).1.log = c.log ++ [.asdu (buf.drop 6)]) ∧
    (¬ CliAccept c buf → (checkMessage c buf).2 = false ∧ (checkMessage c buf).1.log = c.log) := by
  have hn6 : ¬ (buf.length < 6) := by omega
  have hn7 : ¬ (buf.length < 7) := by omega
  have hI' : (buf.getD 2 0 &&& 1 == 0) = true := by rw [hI]; rfl
  unfold CliAccept checkMessage
  simp only [hn6, if_false, hI', if_true, hn7]
  generalize hns : (buf.getD 3 0 * 0x100 + (buf.getD 2 0 &&& 0xfe)) / 2 = ns
  generalize hnr : (buf.getD 5 0 * 0x100 + (buf.getD 4 0 &&& 0xfe)) / 2 = nr
  generalize hc' : (if !c.t2Trigger then { c with t2Trigger := true, lastConf := some c.now } else c) = c'
  have hvr : c'.vr = c.vr := by subst hc'; split <;> rfl
  have hwin : c'.win = c.win := by subst hc'; split <;> rfl
  have hvs : c'.vs = c.vs := by subst hc'; split <;> rfl
  have hlog : c'.log = c.log := by subst hc'; split <;> rfl
  have hp : c'.p = c.p := by subst hc'; split <;> rfl
  rw [hvr, hwin, hvs]
  constructor
  · rintro ⟨h1, h2, h3⟩
    have hl : ¬ (buf.length - 6 < c.p.asduHdr) := by omega
    subst h1
    simp [h2, hp, hl, Iec.Cli104.emit, hvr, hlog]
  · intro hna
    by_cases h1 : ns = c.vr
    · subst h1
      by_cases h2 : (checkSeq c.vs c.win nr).1 = true
      · have hl : buf.length - 6 < c.p.asduHdr := by
          apply Classical.byContradiction; intro hl
          exact hna ⟨rfl, h2, by omega⟩
        simp [h2, hp, hl, hlog]
      · have h2' : (checkSeq c.vs c.win nr).1 = false := by simpa using h2
        simp [h2', hlog]
    · simp [h1, hlog]

/-- **a frame shorter than the six octets of the APCI closes the client connection** (no stale control octet
is interpreted; repaired behaviour, fix 448a2c2) -/
theorem client_short_closes (c : Cli) (buf : List Nat) (h : buf.length < 6) : checkMessage c buf = (c, false) := by
  unfold checkMessage; simp [h]

/-- **client: exactly once, in arrival order, iff deliverable - over every sequence of received messages** (up to the one
that closes the connection): the `asdu` observations are what they were followed by exactly the payloads of the I-format
APDUs with N(S) = V(R), N(R) inside the window and a complete ASDU header, once each, in arrival order -/
theorem client_delivered_exactly_once_in_order (c : Cli) (ms : List (List Nat)) :
    asduLogC (recvRunC c ms).1.log = asduLogC c.log ++ expectedDeliveriesC c ms :=
  deliveries_specC ms c

/-- client: deliverable exactly when N(S) equals the number of I-format APDUs accepted so far (V(R) was 0 when the connection
was opened), N(R) lies in the window and the ASDU header is complete -/
theorem client_deliverable_iff_ns_is_accepted_count (c : Cli) (ms : List (List Nat)) (m : List Nat) (h0 : c.vr = 0) :
    CDeliverable (recvAllC c ms) m ↔
      ((7 ≤ m.length ∧ m.getD 2 0 &&& 1 = 0 ∧ Iec.Srv104.frameNS m = acceptedCountC c ms % 32768 ∧
        valid (recvAllC c ms).vs (recvAllC c ms).win (Iec.Srv104.frameNR m) = true) ∧
        (recvAllC c ms).p.asduHdr ≤ m.length - 6) := by
  have hv := vr_counts_acceptedC ms c (by rw [h0]; decide)
  rw [h0, Nat.zero_add] at hv
  unfold CDeliverable CAccepted
  rw [hv]

end Client

end Iec.Props.C05
