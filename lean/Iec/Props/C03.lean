import Iec.Lemmas.Srv104
import Iec.Model.Cli104
import Iec.Gen.Consts104
import Iec.Lemmas.Srv104Vr
import Iec.Lemmas.Cli104Vr
import Iec.Lemmas.Cli104Vs
import Iec.Lemmas.Cli104VsMix
import Iec.Lemmas.Srv104Ns
/-
C03 — CS104 wire format and send/receive sequence numbering are exact.

Statement (properties.jsonl): everything a CS104 role writes (for ASDUs ≤ 249 octets) is a
concatenation of well-formed APDUs (0x68, length octet = number of following octets in
4..253, valid I/S/U control field); the n-th I-format APDU carries N(S) = n-1 mod 32768
and every N(R) sent equals the number of I-format APDUs accepted so far, including across
the 32767→0 wrap.

Theorems on the server model `Iec.Srv104` (every frame the model writes is produced by
`sendI`, `sendS` or one of the four fixed U-frames): `seq_codec` (encoder/decoder of the
15-bit counters are inverse for every value), `sendI_spec` (frame shape, N(S) = V(S),
N(R) = V(R), V(S) advances by exactly one mod 32768 iff the write succeeded - so the n-th
I-frame of a connection carries (s0 + n - 1) mod 32768 from any start s0, the wrap being
the `% 32768`; stated over histories as `nth_iframe_ns`), `sendS_spec`, `u_frames`.  V(R) advances exactly when both sequence checks
pass: C05 `delivery` (same code path); on the wire over every history of the whole server: `ns_counts_up_on_the_wire` (`Lemmas/Srv104Ns.lean`); over message histories: `nr_is_accepted_count` / `vr_is_start_plus_accepted`
(`Lemmas/Srv104Vr.lean`: V(R) changes only when an I-format APDU passes both sequence checks).  Client role (`Iec.Cli104`, tied by its own differential):
`client_sendI_spec`, `client_sendS_spec`, `client_u_frames` - the same laws for cs104_connection.c; over histories
`client_nr_is_accepted_count` (`Lemmas/Cli104Vr.lean`), `client_vs_is_sent_count`, `client_ns_counts_up_on_the_wire`, `client_ns_counts_up_interleaved` (`Lemmas/Cli104VsMix.lean`: sends interleaved with any received messages)
(`Lemmas/Cli104Vs.lean`: every sequence of send calls, accepted or refused).
-/
namespace Iec.Props.C03
open Iec.Srv104 Iec.KWindow

/-- the two-octet encoding of a 15-bit sequence number and the receiver's decoding are inverse -/
theorem seq_codec (n : Nat) (h : n < 32768) :
    seqLo n < 256 ∧ seqHi n < 256 ∧ seqLo n % 2 = 0 ∧
    (seqHi n * 0x100 + (seqLo n &&& 0xfe)) / 2 = n ∧ (seqLo n + seqHi n * 0x100) / 2 = n := by
  unfold seqLo seqHi
  have hm : ∀ x, x < 256 → x % 2 = 0 → x &&& 0xfe = x := by decide +kernel
  have h1 : n % 128 * 2 % 256 < 256 := Nat.mod_lt _ (by omega)
  have h2 : n % 128 * 2 % 256 % 2 = 0 := by omega
  rw [hm _ h1 h2]
  omega

/-- a well-formed APDU: start octet, length octet = number of following octets, 4..253 -/
def WellFormed (f : List Nat) : Prop :=
  f.length ≥ 6 ∧ f.getD 0 0 = 0x68 ∧ f.getD 1 0 = f.length - 2 ∧ 4 ≤ f.length - 2 ∧ f.length - 2 ≤ 253

/-- `sendIMessage`: what is written is a well-formed I-format APDU carrying N(S) = V(S) and
N(R) = V(R); V(S) advances by one modulo 32768 exactly when the write succeeded; nothing
else is written. -/
theorem sendI_spec (s : Slave) (i : Nat) (hi : i < s.conns.length) (asdu : List Nat) (hl : asdu.length ≤ 249)
    (q : Option (Nat × Nat)) (hvs : (s.conn i).vs < 32768) (hvr : (s.conn i).vr < 32768) :
    let c := s.conn i
    let frame := [0x68, asdu.length + 4, seqLo c.vs, seqHi c.vs, seqLo c.vr, seqHi c.vr] ++ asdu
    WellFormed frame ∧ frame.getD 2 0 % 2 = 0 ∧
    ((c.sock.writeFail = false ∧ c.sock.peerClosed = false) →
        (sendI s i asdu q).log = s.log ++ [.tx i frame] ∧ ((sendI s i asdu q).conn i).vs = (c.vs + 1) % 32768) ∧
    (¬ (c.sock.writeFail = false ∧ c.sock.peerClosed = false) →
        (sendI s i asdu q).log = s.log ∧ ((sendI s i asdu q).conn i).vs = c.vs ∧
        ((sendI s i asdu q).conn i).isRunning = false) := by
  have hc := seq_codec (s.conn i).vs hvs
  refine ⟨⟨by simp, by simp, by simp, by simp, by simp; omega⟩, by simpa using hc.2.2.1, ?_, ?_⟩
  · rintro ⟨h1, h2⟩
    unfold sendI write
    have hm : (asdu.length + 4) % 256 = asdu.length + 4 := by omega
    simp only [h1, h2, Bool.or_self, Bool.false_eq_true, if_false, hm]
    simp only [emit, Slave.conn, Slave.setConn]
    simp [List.getD_eq_getElem?_getD, hi]
  · intro h
    unfold sendI write
    have : ((s.conn i).sock.writeFail || (s.conn i).sock.peerClosed) = true := by
      cases h1 : (s.conn i).sock.writeFail <;> cases h2 : (s.conn i).sock.peerClosed <;> simp_all
    simp only [this, if_true]
    simp only [Slave.conn, Slave.setConn]
    simp [List.getD_eq_getElem?_getD, hi]

/-- `_sendSMessage` writes a well-formed S-format APDU carrying N(R) = V(R) -/
theorem sendS_spec (s : Slave) (i : Nat) (h1 : (s.conn i).sock.writeFail = false) (h2 : (s.conn i).sock.peerClosed = false) :
    (sendS s i).log = s.log ++ [.tx i [0x68, 0x04, 0x01, 0, seqLo (s.conn i).vr, seqHi (s.conn i).vr]] := by
  unfold sendS write
  simp [h1, h2, emit]

/-- the U-format frames the server writes are the four fixed six-octet frames -/
theorem u_frames : WellFormed STARTDT_CON ∧ WellFormed STOPDT_CON ∧ WellFormed TESTFR_CON ∧ WellFormed TESTFR_ACT ∧
    STARTDT_CON.getD 2 0 = 0x0b ∧ STOPDT_CON.getD 2 0 = 0x23 ∧ TESTFR_CON.getD 2 0 = 0x83 ∧ TESTFR_ACT.getD 2 0 = 0x43 := by
  unfold WellFormed; decide

/-! ### histories: the n-th I-format APDU -/

/-- the I-format APDU carrying `asdu` with the given counters -/
def iframe (vs vr : Nat) (asdu : List Nat) : List Nat :=
  [0x68, asdu.length + 4, seqLo vs, seqHi vs, seqLo vr, seqHi vr] ++ asdu

theorem sendI_keeps (s : Slave) (i : Nat) (hi : i < s.conns.length) (asdu : List Nat) (q : Option (Nat × Nat)) :
    ((sendI s i asdu q).conn i).sock = (s.conn i).sock ∧ ((sendI s i asdu q).conn i).vr = (s.conn i).vr ∧
    (sendI s i asdu q).conns.length = s.conns.length := by
  unfold sendI write
  simp only
  split
  · simp only [Bool.false_eq_true, if_false]
    refine ⟨?_, ?_, by simp [Slave.setConn]⟩ <;> (rw [conn_setConn _ _ _ hi])
  · simp only [if_true]
    have hl : i < (emit s (Obs.tx i ([0x68, (asdu.length + 4) % 256, seqLo (s.conn i).vs, seqHi (s.conn i).vs, seqLo (s.conn i).vr, seqHi (s.conn i).vr] ++ asdu))).conns.length := hi
    refine ⟨?_, ?_, by simp [Slave.setConn, emit]⟩ <;> (rw [conn_setConn _ _ _ hl]) <;> rfl

/-- **the n-th I-format APDU of a connection carries N(S) = (s0 + n - 1) mod 32768, across the wrap**: any number of
sends from any starting V(S) write exactly the frames with consecutive send sequence numbers modulo 32768 (and
N(R) = V(R), unchanged by sending), nothing else. -/
theorem nth_iframe_ns (asdus : List (List Nat)) : ∀ (s : Slave) (i : Nat), i < s.conns.length →
    (∀ a ∈ asdus, a.length ≤ 249) → (s.conn i).sock.writeFail = false → (s.conn i).sock.peerClosed = false →
    (s.conn i).vs < 32768 → (s.conn i).vr < 32768 →
    (asdus.foldl (fun s a => sendI s i a none) s).log =
      s.log ++ (asdus.zipIdx.map fun (a, j) => Obs.tx i (iframe (((s.conn i).vs + j) % 32768) (s.conn i).vr a)) := by
  induction asdus with
  | nil => intro s i _ _ _ _ _ _; simp
  | cons a rest ih =>
    intro s i hi hl h1 h2 hvs hvr
    obtain ⟨_, _, hok, _⟩ := sendI_spec s i hi a (hl a (by simp)) none hvs hvr
    obtain ⟨hlog, hvs'⟩ := hok ⟨h1, h2⟩
    obtain ⟨k1, k2, k3⟩ := sendI_keeps s i hi a none
    have := ih (sendI s i a none) i (by rw [k3]; exact hi) (fun x hx => hl x (by simp [hx]))
      (by rw [k1]; exact h1) (by rw [k1]; exact h2) (by rw [hvs']; exact Nat.mod_lt _ (by decide)) (by rw [k2]; exact hvr)
    simp only [List.foldl_cons]
    rw [this, hlog, hvs', k2]
    simp only [List.append_assoc, List.singleton_append]
    congr 1
    rw [List.zipIdx_cons]
    simp only [List.map_cons, Nat.add_zero]
    have hm : (s.conn i).vs % 32768 = (s.conn i).vs := Nat.mod_eq_of_lt hvs
    rw [hm]
    congr 1
    rw [List.zipIdx_succ, List.map_map]
    apply List.map_congr_left
    intro x _
    simp only [Function.comp, Prod.map]
    congr 2
    omega

/-! ### histories: N(R) = number of accepted I-format APDUs -/

/-- **every N(R) the server sends equals the number of I-format APDUs accepted so far, modulo 32768, including across
the wrap**: after any sequence of received messages on a connection (I-, S-, U-format, well-formed or not), V(R) is
V(R) at the start plus the number of accepted I-format APDUs (`vr_counts_accepted`; V(R) is 0 when the connection is
opened), and the S-format APDU then written carries exactly that value (`sendS_spec`); I-format APDUs carry it by
`sendI_spec`. -/
theorem nr_is_accepted_count (s : Slave) (i : Nat) (hi : i < s.conns.length) (ms : List (List Nat))
    (h0 : (s.conn i).vr = 0) (h1 : ((recvAll s i ms).conn i).sock.writeFail = false)
    (h2 : ((recvAll s i ms).conn i).sock.peerClosed = false) :
    (sendS (recvAll s i ms) i).log = (recvAll s i ms).log ++
      [.tx i [0x68, 0x04, 0x01, 0, seqLo (acceptedCount s i ms % 32768), seqHi (acceptedCount s i ms % 32768)]] := by
  have hv := vr_counts_accepted ms s i hi (by rw [h0]; decide)
  rw [h0, Nat.zero_add] at hv
  rw [sendS_spec _ i h1 h2, hv]

/-- the counter itself, from any start value -/
theorem vr_is_start_plus_accepted (s : Slave) (i : Nat) (hi : i < s.conns.length) (ms : List (List Nat))
    (hv : (s.conn i).vr < 32768) :
    ((recvAll s i ms).conn i).vr = ((s.conn i).vr + acceptedCount s i ms) % 32768 := vr_counts_accepted ms s i hi hv

/-! ### N(S) on the wire, every history of the server -/

/-- **the I-format APDUs of a connection are numbered 0, 1, 2, ... modulo 32768 on the wire.** From a freshly created
server, after any sequence of ticks (accept, reception, transmission of events and replies, time-outs, reaping), enqueues
and environment events: take ANY I-format APDU in the wire log, on slot `c`; its N(S) field equals the number of I-format
APDUs written on that slot before it since the slot's last OPENED event, modulo 32768 (`ifr`). So consecutive I-format APDUs
of one connection carry consecutive sequence numbers, the first one 0, the wrap being the `% 32768`; and V(S) of every
connection in use is that count. -/
theorem ns_counts_up_on_the_wire (p : Params) (gs : List (String × List (Bool × List Nat))) (ops : List LOp) :
    (∀ l1 c b l2, (ops.foldl LOp.apply (create p gs)).log = l1 ++ Obs.tx c b :: l2 → isI b → frameNS b = ifr l1 c % 32768) ∧
    (∀ j, ((ops.foldl LOp.apply (create p gs)).conn j).isUsed = true →
      ((ops.foldl LOp.apply (create p gs)).conn j).vs = ifr (ops.foldl LOp.apply (create p gs)).log j % 32768) :=
  ⟨(run_ninv p gs ops).2, (run_ninv p gs ops).1⟩

/-- non-vacuity on a concrete history: connect, STARTDT act, two events with k = 2 - the two I-format APDUs on the wire
carry N(S) 0 and 1 -/
example : let s := ([LOp.env (lenvPending {}), .tick, .env (lenvFeed 0 [0x68, 4, 7, 0, 0, 0]), .tick,
      .enqueue [1, 1, 3, 0, 1, 0, 5, 0, 0, 1], .tick, .enqueue [1, 1, 3, 0, 1, 0, 6, 0, 0, 1], .tick] : List LOp).foldl LOp.apply (create lifeDemoParams [])
    s.log.filterMap (fun o => match o with | .tx _ f => if f.getD 2 1 % 2 = 0 then some (frameNS f) else none | _ => none) = [0, 1] ∧
    ifr s.log 0 = 2 := by decide

/-! ### client role (cs104_connection.c) -/
section Client
open Iec.Cli104

/-- the client's socket exists and accepts writes -/
def CliWritable (c : Cli) : Prop := (c.phase = 2 ∨ c.phase = 3) ∧ c.sock.writeFail = false ∧ c.sock.peerClosed = false

theorem cli_write_ok (c : Cli) (h : CliWritable c) (b : List Nat) : Iec.Cli104.write c b = Iec.Cli104.emit c (.tx b) := by
  obtain ⟨hp, h1, h2⟩ := h
  unfold Iec.Cli104.write
  rcases hp with hp | hp <;> simp [hp, h1, h2]

/-- **client, I-format.** `CS104_Connection_sendASDU` on a running connection with room in the window writes exactly
one well-formed I-format APDU carrying N(S) = V(S) and N(R) = V(R); V(S) advances by one modulo 32768 (the
32767 -> 0 wrap is this `%`); with a full window nothing is written and the call reports failure. -/
theorem client_sendI_spec (c : Cli) (asdu : List Nat) (hl : asdu.length ≤ 249) (hw : CliWritable c) (hr : c.running = true)
    (hvs : c.vs < 32768) :
    let frame := [0x68, asdu.length + 4, seqLo c.vs, seqHi c.vs, seqLo c.vr, seqHi c.vr] ++ asdu
    WellFormed frame ∧ frame.getD 2 0 % 2 = 0 ∧
    (isFull (c.maxSent.getD c.p.k) c.win = false →
      (sendAsdu c asdu).2 = true ∧ (sendAsdu c asdu).1.log = c.log ++ [.tx frame] ∧
      (sendAsdu c asdu).1.vs = (c.vs + 1) % 32768 ∧ (sendAsdu c asdu).1.vr = c.vr) ∧
    (isFull (c.maxSent.getD c.p.k) c.win = true → sendAsdu c asdu = (c, false)) := by
  have hc := seq_codec c.vs hvs
  refine ⟨⟨by simp, by simp, by simp, by simp, by simp; omega⟩, by simpa using hc.2.2.1, ?_, ?_⟩
  · intro hf
    have hm : (asdu.length + 4) % 256 = asdu.length + 4 := by omega
    unfold sendAsdu
    simp only [hr, if_true, hf, Bool.not_false, hm]
    rw [cli_write_ok c hw]
    simp [Iec.Cli104.emit]
  · intro hf
    unfold sendAsdu
    simp [hr, hf]

/-- **client, S-format.** The acknowledgement the client writes carries N(R) = V(R) and clears the count of
unacknowledged received I-frames. -/
theorem client_sendS_spec (c : Cli) (hw : CliWritable c) :
    (confirmOutstanding c).log = c.log ++ [.tx [0x68, 4, 1, 0, seqLo c.vr, seqHi c.vr]] ∧
    (confirmOutstanding c).unconf = 0 ∧ (confirmOutstanding c).vr = c.vr := by
  unfold confirmOutstanding
  rw [cli_write_ok _ (by exact hw)]
  simp [Iec.Cli104.emit]

/-- the U-format frames the client writes -/
theorem client_u_frames : WellFormed Iec.Cli104.STARTDT_ACT ∧ WellFormed Iec.Cli104.STOPDT_ACT ∧
    Iec.Cli104.STARTDT_ACT.getD 2 0 = 0x07 ∧ Iec.Cli104.STOPDT_ACT.getD 2 0 = 0x13 := by
  unfold WellFormed; decide

/-- **client, N(R) over every message history.** Whatever sequence of messages the client has received since V(R) was
0 (connection opened), the acknowledgement it then writes carries N(R) = number of I-format APDUs that passed both
sequence checks, modulo 32768 (`Lemmas/Cli104Vr.lean`: V(R) changes only then). -/
theorem client_nr_is_accepted_count (c : Cli) (ms : List (List Nat)) (h0 : c.vr = 0) (hw : CliWritable (recvAllC c ms)) :
    (confirmOutstanding (recvAllC c ms)).log = (recvAllC c ms).log ++
      [.tx [0x68, 4, 1, 0, seqLo (acceptedCountC c ms % 32768), seqHi (acceptedCountC c ms % 32768)]] := by
  have hv := vr_counts_acceptedC ms c (by rw [h0]; decide)
  rw [h0, Nat.zero_add] at hv
  rw [(client_sendS_spec _ hw).1, hv]

/-- non-vacuity: two in-sequence I-format APDUs, one with a wrong N(S) in between (which changes nothing) -/
example : acceptedCountC ({ p := { k := 12, w := 8, t0 := 10, t1 := 15, t2 := 10, t3 := 20, asduHdr := 6 } } : Cli)
    [[0x68, 14, 0, 0, 0, 0, 1, 1, 3, 0, 1, 0, 1, 0, 0, 1], [0x68, 14, 8, 0, 0, 0, 1, 1, 3, 0, 1, 0, 1, 0, 0, 1],
     [0x68, 14, 2, 0, 0, 0, 1, 1, 3, 0, 1, 0, 1, 0, 0, 1]] = 2 := by decide

/-- **client, V(S) over every sequence of send calls.** Whatever sequence of ASDUs the application hands to
`CS104_Connection_sendASDU` since V(S) was 0 (connection opened) - accepted, or refused because the connection is not
running or the window is full - V(S) is the number of accepted calls modulo 32768 (`Lemmas/Cli104Vs.lean`). -/
theorem client_vs_is_sent_count (c : Cli) (as : List (List Nat)) (h0 : c.vs = 0) :
    (sendAll c as).vs = sentCount c as % 32768 := by
  have := vs_counts_sentC as c (by rw [h0]; decide)
  rwa [h0, Nat.zero_add] at this

/-- **client, N(S) on the wire over every sequence of send calls.** On a socket that accepts writes, from V(S) = 0, the
calls append to the wire exactly one I-format APDU per accepted call and nothing else, and the j-th of them
(j = 0, 1, 2, ...) carries N(S) = j mod 32768: no number is skipped or used twice, whichever calls were refused in
between. (A write the socket refuses is not on the wire although V(S) advances: the client ignores the result of
`writeToSocket`, and the connection is then closed by the peer's sequence check or by t1; see DESIGN 11.0.) -/
theorem client_ns_counts_up_on_the_wire (c : Cli) (as : List (List Nat)) (h0 : c.vs = 0) (hw : CliWritable c) :
    ∃ fr : List (List Nat), (sendAll c as).log = c.log ++ fr.map Iec.Cli104.Obs.tx ∧ fr.length = sentCount c as ∧
      ∀ j, j < fr.length → frameNS (fr.getD j []) = j % 32768 ∧ (fr.getD j []).getD 2 0 % 2 = 0 := by
  obtain ⟨fr, h1, h2, h3⟩ := ns_on_the_wireC as c (by rw [h0]; decide) hw
  refine ⟨fr, h1, h2, fun j hj => ?_⟩
  have := h3 j hj
  rwa [h0, Nat.zero_add] at this

/-- non-vacuity: k = 2, three calls on a running, writable connection: two accepted, the third refused (window full) -/
example : sentCount ({ p := { k := 2, w := 8, t0 := 10, t1 := 15, t2 := 10, t3 := 20, asduHdr := 6 }, phase := 3, running := true } : Cli) [[100, 1, 3, 0, 1, 0, 1, 0, 0, 1], [100, 1, 3, 0, 1, 0, 2, 0, 0, 1], [100, 1, 3, 0, 1, 0, 3, 0, 0, 1]] = 2 := by
  decide

/-- **client, N(S) on the wire over every history of an open connection.** From V(S) = 0 on a socket that accepts
writes, whatever the application does (`MOp`: send calls accepted or refused, STARTDT / STOPDT requests) and whatever the
connection thread does in between (received messages of any kind - acknowledgements that release the window, I-format
APDUs, U-format requests answered on the same socket, malformed ones -, passes over the t1 / t2 / t3 timers with their
S-format and TESTFR frames, the `w` test), in any order and number, the I-format APDUs
the client has written carry N(S) = 0, 1, 2, ... modulo 32768 in the order they were written, one per accepted call
(`Lemmas/Cli104VsMix.lean`: `NsKeep` frame lemma for every function: only `sendAsdu` touches V(S) or writes an
I-format APDU). -/
theorem client_ns_counts_up_interleaved (c : Cli) (ops : List MOp) (h0 : c.vs = 0) (hl : c.log = [])
    (hw : CliWritable c) :
    nsLog (mixRun c ops).log = (List.range (mixSent c ops)).map (fun j => j % 32768) := by
  have := ns_on_the_wire_mix ops c (by rw [h0]; decide) hw
  rw [this, hl, h0]
  simp [nsLog]

/-- non-vacuity: k = 2; two sends, a third refused, a timer pass, an S-format acknowledgement of both, then the third is accepted, STOPDT -/
example : mixSent ({ p := { k := 2, w := 8, t0 := 10, t1 := 15, t2 := 10, t3 := 20, asduHdr := 6 }, phase := 3, running := true } : Cli)
    [.send [100, 1, 3, 0, 1, 0, 1, 0, 0, 1], .send [100, 1, 3, 0, 1, 0, 2, 0, 0, 1], .send [100, 1, 3, 0, 1, 0, 3, 0, 0, 1],
     .timers, .recv [0x68, 4, 1, 0, 4, 0], .ackW, .send [100, 1, 3, 0, 1, 0, 3, 0, 0, 1], .stopdt] = 3 := by
  decide

end Client

/-- the four fixed U-format frames of the model are the arrays in the compiled source, and the length limits are the
source's (translator tie, regenerated on every run) -/
theorem u_frames_match_source :
    STARTDT_CON = Iec.Gen.startdtCon ∧ STOPDT_CON = Iec.Gen.stopdtCon ∧ TESTFR_CON = Iec.Gen.testfrCon ∧
    TESTFR_ACT = Iec.Gen.testfrAct ∧ Iec.Gen.apciLength = 6 ∧ Iec.Gen.maxAsduLength = 249 := by
  decide

end Iec.Props.C03
