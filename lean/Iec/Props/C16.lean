/-
C16 — CS101 end-to-end delivery between master and slave while the link is up.

Decided in Lean: the queue discipline (every operation sequence): capacity, first-in
first-out, oldest displaced first.  The exactly-once / FIFO delivery over a lossy line
rests on the C15 transition lemmas (Iec.Props.C15) for the link layer; the composed system
(master, 1..3 slaves, lossy line) has no theorem of its own and is explored on the real
stacks by harness/e2e101.c — C16 is claimed as partial (DESIGN.md).
-/
import Iec.Model.Q101
namespace Iec.Props.C16
open Iec.Q101

/-- **C16, capacity.** Whatever is done to a queue of configured size `n > 0`, it never holds
more than `n` ASDUs. -/
theorem never_exceeds_size (n : Nat) (hn : 0 < n) (ops : List Op) :
    ((ops.foldl Q.step (Q.init n)).items.length ≤ n) ∧ (ops.foldl Q.step (Q.init n)).size = n := by
  suffices h : ∀ q : Q, q.items.length ≤ q.size → 0 < q.size →
      (ops.foldl Q.step q).items.length ≤ q.size ∧ (ops.foldl Q.step q).size = q.size by
    exact h (Q.init n) (by simp [Q.init]) hn
  induction ops with
  | nil => intro q h _; exact ⟨h, rfl⟩
  | cons op ops ih =>
    intro q h hq
    have hstep : (q.step op).items.length ≤ (q.step op).size ∧ (q.step op).size = q.size := by
      cases op with
      | enq x =>
        simp only [Q.step, Q.enqueue]
        split
        · simp; omega
        · simp; omega
      | deq =>
        simp only [Q.step, Q.dequeue]
        split
        · exact ⟨h, rfl⟩
        · rename_i x rest heq
          rw [heq] at h; simp at h ⊢; omega
      | flush => simp [Q.step, Q.flush]
    have := ih (q.step op) hstep.1 (by rw [hstep.2]; exact hq)
    rw [List.foldl_cons]
    exact ⟨by rw [← hstep.2]; exact this.1, by rw [this.2, hstep.2]⟩

theorem enqueue_all (xs : List (List Nat)) :
    ∀ q : Q, q.items.length + xs.length ≤ q.size → (xs.foldl Q.enqueue q).items = q.items ++ xs := by
  induction xs with
  | nil => intro q _; simp
  | cons x xs ih =>
    intro q hq
    simp only [List.length_cons] at hq
    rw [List.foldl_cons]
    have hlt : q.items.length < q.size := by omega
    have he : (q.enqueue x) = { q with items := q.items ++ [x] } := by simp [Q.enqueue, hlt]
    rw [he, ih]
    · simp
    · show (q.items ++ [x]).length + xs.length ≤ q.size
      simp; omega

/-- **C16, it holds exactly the configured number.** `n` enqueues into an empty queue of size
`n` are all kept, in order. -/
theorem holds_exactly_size (n : Nat) (xs : List (List Nat)) (h : xs.length ≤ n) :
    (xs.foldl Q.enqueue (Q.init n)).items = xs := by
  simpa [Q.init] using enqueue_all xs (Q.init n) (by simpa [Q.init] using h)

/-- **C16, oldest displaced first.** Enqueueing into a full queue drops exactly the oldest
entry and keeps the order of the others; the new entry is the newest. -/
theorem full_displaces_oldest (q : Q) (x : List Nat) (hf : q.items.length = q.size) :
    (q.enqueue x).items = q.items.tail ++ [x] := by
  simp [Q.enqueue, hf]

theorem not_full_appends (q : Q) (x : List Nat) (hf : q.items.length < q.size) :
    (q.enqueue x).items = q.items ++ [x] := by
  simp [Q.enqueue, hf]

/-- **C16, first-in first-out.** A dequeue hands out the oldest entry and removes only it. -/
theorem dequeue_is_fifo (q : Q) (x : List Nat) (rest : List (List Nat)) (h : q.items = x :: rest) :
    q.dequeue = ({ q with items := rest }, some x) := by
  simp [Q.dequeue, h]

theorem dequeue_empty (q : Q) (h : q.items = []) : q.dequeue = (q, none) := by
  simp [Q.dequeue, h]

theorem dequeue_snd (q : Q) : q.dequeue.2 = q.items.head? := by
  unfold Q.dequeue; cases hq : q.items <;> simp
theorem dequeue_fst_items (q : Q) : q.dequeue.1.items = q.items.tail := by
  unfold Q.dequeue; cases hq : q.items <;> simp [hq]

theorem drain_items (k : Nat) : ∀ q : Q,
    ((List.range k).foldl (fun q _ => q.dequeue.1) q).items = q.items.drop k := by
  induction k with
  | zero => intro q; simp
  | succ k ih =>
    intro q
    rw [List.range_succ, List.foldl_append, List.foldl_cons, List.foldl_nil, dequeue_fst_items, ih]
    simp

/-- enqueue then drain: what comes out is what went in, in the same order (no overflow) -/
theorem fifo_through (n : Nat) (xs : List (List Nat)) (h : xs.length ≤ n) (k : Nat) :
    ((List.range k).foldl (fun q _ => q.dequeue.1) (xs.foldl Q.enqueue (Q.init n))).dequeue.2 = xs[k]? := by
  rw [dequeue_snd, drain_items, holds_exactly_size n xs h]
  simp

/-! not vacuous -/
example : ((Q.init 2).enqueue [1] |>.enqueue [2] |>.enqueue [3]).items = [[2], [3]] := by decide
example : (((Q.init 2).enqueue [1] |>.enqueue [2]).dequeue).2 = some [1] := by decide

end Iec.Props.C16
