/-
C16 — CS101 end-to-end delivery between master and slave while the link is up.

Decided in Lean: the queue discipline (every operation sequence): capacity, first-in
first-out, oldest displaced first; and, for the direction master → slave in unbalanced mode, the composed
system (section "over the line"): the master's connection state machine (`SlaveConn.run`/`handle`), the FT 1.2
encoder, the slave's transceiver, header parser and secondary state machine (`SecU.run`) put together
(`Lemmas/E2E101.lean`): any number of transfers, each with any pattern of retransmissions, lost frames, lost
acknowledgements and duplicates short of the repeat timeout, deliver every ASDU to the slave application exactly
once and in order (`master_to_slave_exactly_once_in_order`), every retransmission being the identical frame
(`retransmissions_identical`).  When the repeat timeout is reached the link is reported failed (C15
`priU_gives_up`).  Direction slave → master (section "polls"): the master's request (FT 1.2 fixed frame), the slave's
parser and poll handling, the slave's response (data, "no data" as fixed frame or single character), the master's
transceiver, parser (`parseBP`) and `HandleMessage` put together: `slave_to_master_exactly_once_fifo_per_class`
(`polls_spec`, `serve_fifo`), `poll_retransmissions_identical`, and `single_slave_primary_run` (the model's own
`PriU.run` with one slave is the reception used in the theorems followed by the slave's state machine).
Link establishment (section "establish"): `reset_establishes_sync` - RESET REMOTE LINK and its acknowledgement put both
ends at frame count bit 1 from arbitrary previous bits (`establish_spec`), `reset_then_transfers`.
NOT composed in Lean (partial): several slaves on one line, balanced mode, enqueues interleaved with polls, behaviour
at and after the repeat timeout beyond C15 `priU_gives_up`; those are explored on the real stacks by harness/e2e101.c.
-/
import Iec.Model.Q101
import Iec.Lemmas.E2E101
namespace Iec.Props.C16
open Iec.Q101

/-- **C16, capacity.** Whatever is done to a queue of configured size `n > 0`, it never holds
more than `n` ASDUs. -/
theorem never_exceeds_size (n : Nat) (hn : 0 < n) (ops : List Op) :
    ((ops.foldl Q.step (Q.init n)).items.length ≤ n) ∧ (ops.foldl Q.step (Q.init n)).size = n := by
  suffices h : ∀ q : Q, q.items.length ≤ q.size → 0 < q.size →
      (ops.foldl Q.step q).items.length ≤ q.size ∧ (ops.foldl Q.step q).size = q.size by
    exact h (Q.init n) (by simp [Q.init]) hn
  induction ops with
  | nil => intro q h _; exact ⟨h, rfl⟩
  | cons op ops ih =>
    intro q h hq
    have hstep : (q.step op).items.length ≤ (q.step op).size ∧ (q.step op).size = q.size := by
      cases op with
      | enq x =>
        simp only [Q.step, Q.enqueue]
        split
        · simp; omega
        · simp; omega
      | deq =>
        simp only [Q.step, Q.dequeue]
        split
        · exact ⟨h, rfl⟩
        · rename_i x rest heq
          rw [heq] at h; simp at h ⊢; omega
      | flush => simp [Q.step, Q.flush]
    have := ih (q.step op) hstep.1 (by rw [hstep.2]; exact hq)
    rw [List.foldl_cons]
    exact ⟨by rw [← hstep.2]; exact this.1, by rw [this.2, hstep.2]⟩

theorem enqueue_all (xs : List (List Nat)) :
    ∀ q : Q, q.items.length + xs.length ≤ q.size → (xs.foldl Q.enqueue q).items = q.items ++ xs := by
  induction xs with
  | nil => intro q _; simp
  | cons x xs ih =>
    intro q hq
    simp only [List.length_cons] at hq
    rw [List.foldl_cons]
    have hlt : q.items.length < q.size := by omega
    have he : (q.enqueue x) = { q with items := q.items ++ [x] } := by simp [Q.enqueue, hlt]
    rw [he, ih]
    · simp
    · show (q.items ++ [x]).length + xs.length ≤ q.size
      simp; omega

/-- **C16, it holds exactly the configured number.** `n` enqueues into an empty queue of size
`n` are all kept, in order. -/
theorem holds_exactly_size (n : Nat) (xs : List (List Nat)) (h : xs.length ≤ n) :
    (xs.foldl Q.enqueue (Q.init n)).items = xs := by
  simpa [Q.init] using enqueue_all xs (Q.init n) (by simpa [Q.init] using h)

/-- **C16, oldest displaced first.** Enqueueing into a full queue drops exactly the oldest
entry and keeps the order of the others; the new entry is the newest. -/
theorem full_displaces_oldest (q : Q) (x : List Nat) (hf : q.items.length = q.size) :
    (q.enqueue x).items = q.items.tail ++ [x] := by
  simp [Q.enqueue, hf]

theorem not_full_appends (q : Q) (x : List Nat) (hf : q.items.length < q.size) :
    (q.enqueue x).items = q.items ++ [x] := by
  simp [Q.enqueue, hf]

/-- **C16, first-in first-out.** A dequeue hands out the oldest entry and removes only it. -/
theorem dequeue_is_fifo (q : Q) (x : List Nat) (rest : List (List Nat)) (h : q.items = x :: rest) :
    q.dequeue = ({ q with items := rest }, some x) := by
  simp [Q.dequeue, h]

theorem dequeue_empty (q : Q) (h : q.items = []) : q.dequeue = (q, none) := by
  simp [Q.dequeue, h]

theorem dequeue_snd (q : Q) : q.dequeue.2 = q.items.head? := by
  unfold Q.dequeue; cases hq : q.items <;> simp
theorem dequeue_fst_items (q : Q) : q.dequeue.1.items = q.items.tail := by
  unfold Q.dequeue; cases hq : q.items <;> simp [hq]

theorem drain_items (k : Nat) : ∀ q : Q,
    ((List.range k).foldl (fun q _ => q.dequeue.1) q).items = q.items.drop k := by
  induction k with
  | zero => intro q; simp
  | succ k ih =>
    intro q
    rw [List.range_succ, List.foldl_append, List.foldl_cons, List.foldl_nil, dequeue_fst_items, ih]
    simp

/-- enqueue then drain: what comes out is what went in, in the same order (no overflow) -/
theorem fifo_through (n : Nat) (xs : List (List Nat)) (h : xs.length ≤ n) (k : Nat) :
    ((List.range k).foldl (fun q _ => q.dequeue.1) (xs.foldl Q.enqueue (Q.init n))).dequeue.2 = xs[k]? := by
  rw [dequeue_snd, drain_items, holds_exactly_size n xs h]
  simp

/-! not vacuous -/
example : ((Q.init 2).enqueue [1] |>.enqueue [2] |>.enqueue [3]).items = [[2], [3]] := by decide
example : (((Q.init 2).enqueue [1] |>.enqueue [2]).dequeue).2 = some [1] := by decide

/-! ### over the line: master → slave, unbalanced mode -/
section Line
open Iec.Link101

/-- **every ASDU the master application sends reaches the slave application exactly once, first-in first-out**,
for every list of transfers and, in each, every pattern of master runs (retransmissions), of copies reaching the
slave (at least one; duplicates allowed) and one of the slave's acknowledgements coming back, as long as the repeat timeout is not
reached; and the two stations end synchronised, so the statement composes with whatever follows -/
theorem master_to_slave_exactly_once_in_order (y : Sys) (ks : List Transfer) (hy : Sync y)
    (hk : ∀ k ∈ ks, k.d ≠ [] ∧ 1 + y.lm.p.addrLen + k.d.length ≤ 255 ∧ ∀ t ∈ k.waits, ¬ t > k.t0 + y.lm.p.tRepeat) :
    rxOf (y.transfers ks).2.1 = ks.map (·.d) ∧ Sync (y.transfers ks).1 :=
  ⟨(transfers_spec ks y hy hk).2, (transfers_spec ks y hy hk).1⟩

/-- **within a transfer every frame the master writes is the same frame** (the original and each retransmission),
carrying the frame count bit the slave expects -/
theorem retransmissions_identical (y : Sys) (k : Transfer) (hy : Sync y) (hk : k.Ok y) :
    ∃ f, varFrame y.lm.p.addrLen (ctrl 3 true false y.s.expectedFcb true) y.c.address k.d = some f ∧
      (∀ g ∈ (y.transfer k).2.2, g = f) ∧ f ∈ (y.transfer k).2.2 := by
  obtain ⟨_, _, _, f, h1, h2, h3⟩ := transfer_spec y k hy hk
  exact ⟨f, by rw [hy.bit]; exact h1, h2, h3⟩

/-! not vacuous (tests): a synchronised pair, two transfers, the first with a retransmission and a duplicate -/
def demoP : Params := ⟨1, 200, 1000, false, 500, by omega⟩
def demoSys : Sys :=
  { c := { address := 5, pstate := 3 }, lm := { p := demoP, address := 0 }, s := { ll := { p := demoP, address := 5 } } }
def demoKs : List Transfer :=
  [{ d := [1, 2, 3], t0 := 1000, waits := [1100, 1300], t := 1010, ts := [1310], tAck := 1320 },
   { d := [4], t0 := 2000, waits := [], t := 2010, ts := [], tAck := 2020 }]
example : Sync demoSys := ⟨rfl, rfl, rfl, rfl, rfl, rfl, Or.inr (Or.inl ⟨rfl, by decide⟩), ⟨by decide, by decide⟩⟩
example : rxOf (demoSys.transfers demoKs).2.1 = [[1, 2, 3], [4]] := by decide
/-- the master wrote the first frame twice (one retransmission), the second once -/
example : (demoSys.transfers demoKs).2.2 =
    [[0x68, 5, 5, 0x68, 0x73, 5, 1, 2, 3, 0x7e, 0x16], [0x68, 5, 5, 0x68, 0x73, 5, 1, 2, 3, 0x7e, 0x16],
     [0x68, 3, 3, 0x68, 0x53, 5, 4, 0x5c, 0x16]] := by decide

end Line

/-! ### over the line: slave → master (class 1 / class 2 polls), unbalanced mode -/
section Polls
open Iec.Link101

/-- **every ASDU the slave application queued reaches the master application exactly once, first-in first-out within
its class**: for every sequence of polls — each with any pattern of master runs (retransmitted requests), copies of
the request reaching the slave (at least one; duplicates allowed) and one of the slave's responses reaching the master,
short of the repeat timeout — what the master's `UserData` callback receives is, poll by poll, what the specification
`View.serve` takes from the slave's queues (`polls_spec`); per class that is the beginning of the class's queue, as
long as the number of polls of that class (`serve_fifo`): nothing lost, nothing twice, nothing reordered. -/
theorem slave_to_master_exactly_once_fifo_per_class (y : Sys) (ks : List Poll) (hy : Sync y) (hf : y.s.view.QueuesFit)
    (hk : ∀ k ∈ ks, ∀ t ∈ k.waits, ¬ t > k.t0 + y.lm.p.tRepeat) (cls : Bool) :
    udOf (y.polls ks).2.1 = (y.s.view.serve (y.polls ks).2.2).2.map (·.2) ∧
    (((y.s.view.serve (y.polls ks).2.2).2.filter (fun x => x.1 == cls)).map (·.2)
      = (if cls then y.s.c1 else y.s.c2).take ((y.polls ks).2.2.count cls)) ∧
    Sync (y.polls ks).1 :=
  ⟨(polls_spec ks y hy hf hk).2.2, serve_fifo cls _ _ hy.queues, (polls_spec ks y hy hf hk).1⟩

/-- within a poll every request frame the master writes is the same frame (the original and each retransmission) -/
theorem poll_retransmissions_identical (y : Sys) (k : Poll) (hy : Sync y) (hf : y.s.view.QueuesFit)
    (hk : ∀ t ∈ k.waits, ¬ t > k.t0 + y.lm.p.tRepeat) :
    ∀ g ∈ (y.poll k).2.2.1, g = pollFrame y.s.view (k.cls1 || y.c.req1) y.s.expectedFcb :=
  (poll_spec y k hy hf hk).2.2.2.2.2

/-- **`LinkLayerPrimaryUnbalanced_run` for a master with one slave is the reception used above followed by that
slave's state machine** — the pieces the composed theorems are stated on are the model's own `PriU.run` -/
theorem single_slave_primary_run (c : SlaveConn) (l : LL) (q : List Nat) (now : Nat) :
    (single c l).run q now =
      (single ((connRecv c l q now).1.run (connRecv c l q now).2.1 now).1 ((connRecv c l q now).1.run (connRecv c l q now).2.1 now).2.1,
       (readNext l.p.addrLen q l.buf).1,
       (connRecv c l q now).2.2 ++ ((connRecv c l q now).1.run (connRecv c l q now).2.1 now).2.2) :=
  priU_run_single c l q now

/-! not vacuous (tests): class 2 poll with a retransmission and a duplicate, class 1, class 2, class 2 on an empty queue -/
def demoSys2 : Sys :=
  { c := { address := 5, pstate := 3 }, lm := { p := demoP, address := 0 },
    s := { ll := { p := demoP, address := 5 }, c1 := [[1]], c2 := [[7, 7], [8]] } }
def demoPolls : List Poll :=
  [{ cls1 := false, t0 := 1000, waits := [1100, 1300], t := 1010, ts := [1310], tR := 1320 },
   { cls1 := true, t0 := 2000, waits := [], t := 2010, ts := [], tR := 2020 },
   { cls1 := false, t0 := 3000, waits := [], t := 3010, ts := [], tR := 3020 },
   { cls1 := false, t0 := 4000, waits := [], t := 4010, ts := [], tR := 4020 }]
example : Sync demoSys2 := ⟨rfl, rfl, rfl, rfl, rfl, rfl, Or.inr (Or.inl ⟨rfl, by decide⟩), ⟨by decide, by decide⟩⟩
example : demoSys2.s.view.QueuesFit := ⟨by decide, by decide⟩
example : udOf (demoSys2.polls demoPolls).2.1 = [[7, 7], [1], [8]] := by decide
example : (demoSys2.polls demoPolls).1.s.c2 = [] ∧ (demoSys2.polls demoPolls).1.s.c1 = [] := by decide

end Polls

/-! ### link establishment, then traffic -/
section Establish
open Iec.Link101

/-- **after an acknowledged link reset the first frame with the frame-count-valid bit carries frame count bit 1 on both
ends, whatever the two stations held before** (composed: master state machine, encoder, slave parser and reset handling,
the slave's acknowledgement through the master's parser): the procedure ends in the synchronised state from which
`master_to_slave_exactly_once_in_order` and `slave_to_master_exactly_once_fifo_per_class` start; the slave's queues are
untouched -/
theorem reset_establishes_sync (y : Sys) (t0 tS tA : Nat) (hy : PreSync y) :
    Sync (y.establish t0 tS tA).1 ∧ (y.establish t0 tS tA).1.c.nextFcb = true ∧
    (y.establish t0 tS tA).1.s.expectedFcb = true ∧
    (y.establish t0 tS tA).1.s.c1 = y.s.c1 ∧ (y.establish t0 tS tA).1.s.c2 = y.s.c2 :=
  establish_spec y t0 tS tA hy

/-- establishment followed by any transfers: everything is delivered exactly once in order, from arbitrary initial bits -/
theorem reset_then_transfers (y : Sys) (t0 tS tA : Nat) (hy : PreSync y) (ks : List Transfer)
    (hk : ∀ k ∈ ks, k.d ≠ [] ∧ 1 + (y.establish t0 tS tA).1.lm.p.addrLen + k.d.length ≤ 255 ∧
      ∀ t ∈ k.waits, ¬ t > k.t0 + (y.establish t0 tS tA).1.lm.p.tRepeat) :
    rxOf ((y.establish t0 tS tA).1.transfers ks).2.1 = ks.map (·.d) :=
  (master_to_slave_exactly_once_in_order _ ks (establish_spec y t0 tS tA hy).1 hk).1

/-- not vacuous (a test): both stations start with the "wrong" bit 0; after the reset procedure a transfer is delivered -/
def demoPre : Sys :=
  { c := { address := 5, pstate := 1, nextFcb := false }, lm := { p := demoP, address := 0 },
    s := { ll := { p := demoP, address := 5 }, expectedFcb := false } }
example : PreSync demoPre := ⟨rfl, rfl, rfl, rfl, rfl, rfl, Or.inr (Or.inl ⟨rfl, by decide⟩), ⟨by decide, by decide⟩⟩
example : (demoPre.establish 100 110 120).2 = [[0x10, 0x40, 5, 0x45, 0x16]] := by decide
example : rxOf (((demoPre.establish 100 110 120).1.transfers
    [{ d := [9, 9], t0 := 1000, waits := [], t := 1010, ts := [], tAck := 1020 }]).2.1) = [[9, 9]] := by decide

end Establish

end Iec.Props.C16
