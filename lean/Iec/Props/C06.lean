import Iec.Lemmas.Srv104
import Iec.Lemmas.MsgQueue
import Iec.Lemmas.MsgQueueRetain
import Iec.Lemmas.Srv104QWf
import Iec.Lemmas.Srv104Kept
import Iec.Gen.Consts104
/-
C06 — Server event buffer: no loss, kept until acknowledged, resent after reconnect.

Statement (properties.jsonl): every ASDU handed to the event queue is transmitted once a
connection is activated and stays buffered until acknowledged; transmitted but
unacknowledged ASDUs are transmitted again on the next activated connection when their
connection ends; acknowledged ASDUs are never transmitted again; the only permitted loss is
displacement of the oldest entries; a queue for N entries retains the N most recent
equal-sized ASDUs; delivered bytes equal enqueued bytes.

Model: `Iec.Queues.MsgQueue`, the ring of cs104_slave.c:112-581 at the level of byte
offsets (after the repair of the stale `lastInBufferEntry` and of the reset on connection
close, both found by this check).

Proved (Lemmas/MsgQueue.lean, layout invariant `MqInv`: the queued entries are `up ++ low`, `up` back
to back from `first` to `lastInBuffer`, `low` back to back from offset 0 below `first`):

* `ring_is_a_list`            the FIFO walk of the C code terminates within `entryCounter` steps and
                              visits exactly the queued entries, oldest first
* `enqueue_displaces_only_oldest`  for EVERY ring state, entry size and wrap position: after an enqueue
                              the queue is `(old queue).drop k ++ [new entry]` - the new entry is stored with
                              the next id, waiting, octet for octet; the only entries lost are the `k`
                              oldest ones; everything else keeps id, state and octets (includes both
                              eviction loops and the "remove everything up to the buffer end" step)
* `next_waiting_is_oldest_waiting` getNextWaitingASDU terminates and hands out the OLDEST waiting entry with
                              exactly its stored id and octets, marks it sent-unconfirmed, touches nothing else
* `state_change_is_local`     a state change at one offset changes that entry's state and nothing else

* `confirm_marks_or_removes`   markAsduAsConfirmed for a reference that designates a queued entry: the entry becomes
                              confirmed, leaves the queue if it is the oldest one, nothing else changes
* `rearm_after_connection_loss`  setWaitingForTransmissionWhenNotConfirmed terminates and turns exactly the
                              sent-but-unconfirmed entries back into waiting ones; `confirmed_stays_confirmed`

* `retains_N_most_recent`     a queue created for N entries, fed any number of ASDUs of one size (1..250 octets), always
                              holds at least min(number fed, N) entries, and they are the most recent ones in order
                              (Lemmas/MsgQueueRetain.lean: on the grid of equal sizes a new entry displaces at most one old
                              entry, and only when the ring is full)

plus the entry-level laws below and, for the whole server, `events_kept_until_acknowledged` (below).  NOT proved: validity of stale references in markAsduAsConfirmed
(the id window), and the coupling with the k-buffer; those rest on the correspondence run (real ring - pointers, every entry's id / state / size in
FIFO order - compared with the model after every operation, queue sizes 1..40) and the duplicate / order
oracle of the harness.  The invariant is established by `MsgQueue.create` and re-established by every operation the server
applies to a ring - proved for the whole server model over every history: `server_event_rings_wellformed`
(`Lemmas/Srv104QWf.lean`, `Lemmas/MsgQueueWf.lean`: whatever reference `markAsduAsConfirmed` / `setEntryWaiting…` is
called with, stale or not, the ring stays well-formed), so the theorems of this file apply to the rings of every reachable
server state without a hypothesis.
-/
namespace Iec.Props.C06
open Iec.Queues

theorem get_put_same (q : MsgQueue) (o : Nat) (e : QEntry) : (q.put o e).get o = some e := by
  simp [MsgQueue.put, MsgQueue.get]

/-- changing an entry's transmission state never changes any entry's id or octets -/
theorem setState_data (q : MsgQueue) (o st o' : Nat) :
    ((q.setState o st).get o').map (fun e => (e.id, e.data)) = (q.get o').map (fun e => (e.id, e.data)) := by
  unfold MsgQueue.setState MsgQueue.get
  induction q.mem with
  | nil => simp
  | cons b rest ih =>
    simp only [List.map_cons, List.find?_cons]
    by_cases hb : b.1 == o
    · simp only [hb, if_true]
      by_cases h2 : b.1 == o'
      · simp [h2]
      · simp only [h2]; simpa using ih
    · simp only [hb, Bool.false_eq_true, if_false]
      by_cases h2 : b.1 == o'
      · simp [h2]
      · simp only [h2]; simpa using ih

/-- **delivered octets equal enqueued octets, oldest waiting entry, marked sent**:
`getNextWaitingASDU` hands out exactly the stored octets of an entry that was waiting, and
afterwards that entry is sent-but-unconfirmed with the same id and octets -/
theorem getNextWaiting_spec (q : MsgQueue) (id off : Nat) (data : List Nat) (q' : MsgQueue)
    (h : q.getNextWaiting = (q', some (id, off, data))) :
    q.firstWaiting = some off ∧ (q.get off).map (fun e => (e.id, e.data)) = some (id, data) ∧
    (q'.get off).map (fun e => (e.id, e.data)) = some (id, data) := by
  unfold MsgQueue.getNextWaiting at h
  cases hf : q.firstWaiting with
  | none => simp [hf] at h
  | some o =>
    simp only [hf] at h
    cases hg : q.get o with
    | none => simp [hg] at h
    | some e =>
      simp only [hg, Prod.mk.injEq, Option.some.injEq] at h
      obtain ⟨hq, hid, ho, hd⟩ := h
      subst ho; subst hid; subst hd
      refine ⟨rfl, by simp [hg], ?_⟩
      rw [← hq, setState_data, hg]; rfl

theorem evictLoop_nextId (fuel : Nat) : ∀ (q : MsgQueue) (np es : Nat), (evictLoop q np es fuel).nextId = q.nextId := by
  induction fuel with
  | zero => intro q np es; rfl
  | succ f ih =>
    intro q np es
    unfold evictLoop
    simp only
    split
    · split
      · rfl
      · rw [ih]
    · rfl

theorem finish_spec (q1 : MsgQueue) (np : Nat) (data : List Nat) :
    (writeEntry q1 np data).last = some np ∧ (writeEntry q1 np data).get np = some ⟨q1.nextId, 1, data⟩ ∧
    (writeEntry q1 np data).nextId = q1.nextId + 1 := by
  unfold writeEntry
  simp only
  split <;> simp [MsgQueue.put, MsgQueue.get]

/-- an enqueued ASDU (≤ 250 octets) is stored under the next entry id, waiting, octet for octet -/
theorem enqueue_stores (q : MsgQueue) (data : List Nat) (h : data.length ≤ 250) :
    ∃ pos, (q.enqueue data).last = some pos ∧ (q.enqueue data).get pos = some ⟨q.nextId, 1, data⟩ ∧
      (q.enqueue data).nextId = q.nextId + 1 := by
  have hn : ¬ (data.length > 250) := by omega
  have key : ∃ q1 np, q.enqueue data = writeEntry q1 np data ∧ q1.nextId = q.nextId := by
    unfold MsgQueue.enqueue
    simp only [hn, if_false]
    by_cases hc : q.count = 0
    · simp only [hc, if_true]
      exact ⟨_, _, rfl, rfl⟩
    · simp only [hc, if_false]
      refine ⟨_, _, rfl, ?_⟩
      split <;> (try split) <;> (try split) <;> (try split) <;> simp [evictLoop_nextId]
  obtain ⟨q1, np, he, hid⟩ := key
  rw [he]
  have := finish_spec q1 np data
  exact ⟨np, this.1, by rw [this.2.1, hid], by rw [this.2.2, hid]⟩

/-- the per-connection reset only turns sent-but-unconfirmed into waiting: confirmed entries
are never transmitted again, and no octets change -/
theorem setEntryWaiting_data (q : MsgQueue) (o id o' : Nat) :
    ((q.setEntryWaiting o id).get o').map (fun e => (e.id, e.data)) = (q.get o').map (fun e => (e.id, e.data)) := by
  unfold MsgQueue.setEntryWaiting
  split
  · split
    · split
      · split
        · exact setState_data q o 1 o'
        · rfl
      · rfl
    · rfl
  · rfl

/-- **C06, the ring is a list.** Under the layout invariant the C walk from `firstEntry` (at most `entryCounter`
steps - so every traversal terminates) yields exactly the queued entries, oldest first. -/
theorem ring_is_a_list (q : MsgQueue) (up low : List MEntry) (h : MqInv q up low) : q.toList = MqInv.abs up low :=
  toList_eq q up low h

/-- **C06, the only permitted loss is displacement of the oldest entries.** For every ring state satisfying the
invariant (any fill level, any wrap position), every ASDU of at most 250 octets and every ring of at least one
entry: the queue after the enqueue is the old queue without its `k` oldest entries, followed by the new entry
(next id, waiting, the ASDU's octets). -/
theorem enqueue_displaces_only_oldest (q : MsgQueue) (up low : List MEntry) (h : MqInv q up low) (d : List Nat)
    (hd : d.length ≤ 250) (hsize : 266 ≤ q.size) :
    ∃ up' low' k, MqInv (q.enqueue d) up' low' ∧
      MqInv.abs up' low' = (MqInv.abs up low).drop k ++ [⟨q.nextId, 1, d⟩] :=
  mq_enqueue_refines q up low h d hd hsize

/-- the same as a statement about the C walk: what `toList` shows after the enqueue -/
theorem enqueue_toList (q : MsgQueue) (up low : List MEntry) (h : MqInv q up low) (d : List Nat)
    (hd : d.length ≤ 250) (hsize : 266 ≤ q.size) :
    ∃ k, (q.enqueue d).toList = q.toList.drop k ++ [⟨q.nextId, 1, d⟩] := by
  obtain ⟨up', low', k, hinv, habs⟩ := mq_enqueue_refines q up low h d hd hsize
  exact ⟨k, by rw [toList_eq _ up' low' hinv, toList_eq q up low h, habs]; rfl⟩

/-- **C06, delivered bytes equal enqueued bytes; oldest waiting first.** -/
theorem next_waiting_is_oldest_waiting (q : MsgQueue) (up low : List MEntry) (h : MqInv q up low) :
    match (up ++ low).find? (fun x => x.2.st == 1) with
    | none => q.getNextWaiting = (q, none)
    | some x => q.getNextWaiting = (q.setState x.1 2, some (x.2.id, x.1, x.2.data)) ∧
        MqInv (q.setState x.1 2) (up.map (updSt x.1 2)) (low.map (updSt x.1 2)) :=
  getNextWaiting_refines q up low h

/-- a state change touches one entry's state and nothing else (ids, octets, order, every other entry) -/
theorem state_change_is_local (q : MsgQueue) (up low : List MEntry) (h : MqInv q up low) (o st : Nat) :
    MqInv (q.setState o st) (up.map (updSt o st)) (low.map (updSt o st)) ∧
    (MqInv.abs (up.map (updSt o st)) (low.map (updSt o st))).map (fun e => (e.id, e.data)) =
      (MqInv.abs up low).map (fun e => (e.id, e.data)) := by
  refine ⟨setState_inv q up low h o st, ?_⟩
  simp only [MqInv.abs, ← List.map_append, List.map_map]
  apply List.map_congr_left
  intro x _
  simp only [Function.comp, updSt]
  split <;> rfl

/-- **C06, acknowledged entries.** A confirmation that designates a queued entry (offset and id as stored in the
k-buffer, id inside the window) marks it confirmed; if it is the oldest entry it is removed; every other entry
keeps id, state, octets and position in the order. -/
theorem confirm_marks_or_removes (q : MsgQueue) (up low : List MEntry) (h : MqInv q up low) (x : MEntry)
    (hx : x ∈ up ++ low) (hwin : x.2.id + 1 ≤ q.nextId ∧ q.nextId - 1 - x.2.id < q.count) :
    ∃ up' low', MqInv (q.markConfirmed x.1 x.2.id) up' low' ∧
      MqInv.abs up' low' =
        (if (up ++ low).head? = some x then (MqInv.abs (up.map (updSt x.1 0)) (low.map (updSt x.1 0))).tail
         else MqInv.abs (up.map (updSt x.1 0)) (low.map (updSt x.1 0))) :=
  markConfirmed_refines q up low h x hx hwin

/-- **C06, resent after the connection ends.** The reset loop terminates and maps every entry `e` to `rearmE e`:
sent-but-unconfirmed becomes waiting, everything else (in particular confirmed) stays as it is. -/
theorem rearm_after_connection_loss (q : MsgQueue) (up low : List MEntry) (h : MqInv q up low) :
    MqInv q.setWaitingWhenNotConfirmed (up.map rearm) (low.map rearm) ∧
    q.setWaitingWhenNotConfirmed.toList = q.toList.map rearmE := by
  have h' := setWaiting_refines q up low h
  refine ⟨h', ?_⟩
  rw [toList_eq _ _ _ h', toList_eq q up low h]
  simp only [MqInv.abs, List.map_append, List.map_map]
  rfl

/-- acknowledged ASDUs are never transmitted again: re-arming never turns a confirmed (or a waiting) entry
into anything else, and never changes ids or octets -/
theorem confirmed_stays_confirmed (e : QEntry) : (e.st ≠ 2 → rearmE e = e) ∧ (rearmE e).id = e.id ∧ (rearmE e).data = e.data := by
  unfold rearmE
  refine ⟨fun h => by simp [h], ?_, ?_⟩ <;> split <;> rfl

/-- the invariant holds for a freshly created queue -/
theorem create_inv (n : Nat) : MqInv (MsgQueue.create n) [] [] :=
  { count := rfl
    data := by simp
    lowup := fun _ => rfl
    upper := by intro a b h; cases h
    lastU := by simp
    lower := by intro a b h; cases h }

/-- non-vacuity: two enqueues into a fresh one-entry ring are kept in order with consecutive ids -/
example : (((MsgQueue.create 1).enqueue [1, 1, 1]).enqueue [2, 2]).toList.map (·.id) = [1, 2] := by decide

/-- **C06, a queue for N entries retains the N most recent ASDUs of equal size.** For every N >= 1, every size 1..250 and
every number of enqueues into a freshly created queue: the queue holds at least min(enqueued, N) entries, and what it holds
is exactly the most recent `count` ASDUs, octet for octet, oldest first. -/
theorem retains_N_most_recent (N L : Nat) (hN : 1 ≤ N) (hL : L ≤ 250) (ds : List (List Nat)) (hds : ∀ d ∈ ds, d.length = L) :
    min ds.length N ≤ (enqueueAll (MsgQueue.create N) ds).count ∧
    (enqueueAll (MsgQueue.create N) ds).toList.map (·.data) = ds.drop (ds.length - (enqueueAll (MsgQueue.create N) ds).count) := by
  have hsize : (MsgQueue.create N).size = N * 272 := rfl
  have hc := enqueueAll_count N L hN hL ds (MsgQueue.create N) [] [] (create_inv N) (by simp) hsize
    ⟨Nat.dvd_zero _, fun h => absurd h (Nat.lt_irrefl 0)⟩ hds
  have hc' : min ds.length N ≤ (enqueueAll (MsgQueue.create N) ds).count := by
    have : (MsgQueue.create N).count = 0 := rfl
    rw [this, Nat.zero_add] at hc; exact hc
  refine ⟨hc', ?_⟩
  have hs266 : 266 ≤ (MsgQueue.create N).size := by
    rw [hsize]
    calc 266 ≤ 1 * 272 := by decide
      _ ≤ N * 272 := Nat.mul_le_mul_right _ hN
  obtain ⟨up', low', k, hinv, hcont⟩ := enqueueAll_refines ds (MsgQueue.create N) [] [] (create_inv N)
    (fun d hd => by rw [hds d hd]; exact hL) hs266
  rw [toList_eq _ up' low' hinv]
  have hdata : (MqInv.abs up' low').map (·.data) = (content up' low').map Prod.snd := by
    simp [MqInv.abs, content, List.map_map, Function.comp_def]
  have hcnt : (enqueueAll (MsgQueue.create N) ds).count = (content up' low').length := by
    rw [hinv.count]; simp [content]
  rw [hdata, hcnt, hcont]
  simp only [content, List.append_nil, List.map_nil, List.nil_append, List.map_drop, List.map_map, List.length_drop, List.length_map]
  have hid : (Prod.snd ∘ fun d : List Nat => (1, d)) = id := rfl
  rw [hid, List.map_id]
  by_cases hk : k ≤ ds.length
  · have : ds.length - (ds.length - k) = k := by omega
    rw [this]
  · have h0 : ds.length - k = 0 := by omega
    rw [h0, Nat.sub_zero, List.drop_of_length_le (by omega), List.drop_of_length_le (Nat.le_refl _)]

/-- non-vacuity: five 3-octet ASDUs into a queue for two entries - at least the two most recent are held (here: all five,
the ring is dimensioned for 256-octet entries) -/
example : ((enqueueAll (MsgQueue.create 2) [[1,1,1],[2,2,2],[3,3,3],[4,4,4],[5,5,5]]).toList.map (·.data)) = [[1,1,1],[2,2,2],[3,3,3],[4,4,4],[5,5,5]] := by decide
set_option maxRecDepth 10000 in
/-- with 200-octet ASDUs a queue for one entry holds exactly the most recent one -/
example : ((enqueueAll (MsgQueue.create 1) [List.replicate 200 1, List.replicate 200 2, List.replicate 200 3]).toList.map (·.data.headD 0)) = [3] := by decide

/-! ### the ring geometry of the model is the one the compiled source has (translator tie, regenerated on every run) -/

/-- the entry header is `sizeof(struct sMessageQueueEntryInfo)` and the ring of an N-entry queue has the size
`MessageQueue_create(N)` computes (checked at two N: the size is linear in N) -/
theorem ring_geometry_matches_source :
    HDR = Iec.Gen.mqEntryHeader ∧ (MsgQueue.create 1).size = Iec.Gen.mqSize1 ∧ (MsgQueue.create 7).size = Iec.Gen.mqSize7 := by
  decide

/-! ### every history of the server -/

/-- **the event ring of every redundancy group / connection is well-formed in every reachable server state.** From a freshly
created server whose event queue holds at least one entry, after any sequence of ticks (accept with queue initialisation,
reception, acknowledgements that confirm entries - by references that may be stale -, transmission that marks entries sent,
re-arming when a connection ends), enqueues (with displacement), restarts and environment events: the ring satisfies the
layout invariant `MqInv` for some pair of lists - the hypothesis of `ring_is_a_list`, `enqueue_displaces_only_oldest`,
`next_waiting_is_oldest_waiting`, `confirm_marks_or_removes`, `rearm_after_connection_loss` and of the C13 ring theorems. -/
theorem server_event_rings_wellformed (p : Iec.Srv104.Params) (gs : List (String × List (Bool × List Nat))) (hq : 1 ≤ p.lowQ)
    (ops : List Iec.Srv104.WOp) (g : Nat) :
    ∃ up low, MqInv ((ops.foldl Iec.Srv104.WOp.apply (Iec.Srv104.create p gs)).grp g).lowQ up low :=
  ((Iec.Srv104.run_gok p gs hq ops).2 g).1

/-- in particular the C walk over the ring of a reachable state terminates and yields exactly the queued entries -/
theorem reachable_ring_is_a_list (p : Iec.Srv104.Params) (gs : List (String × List (Bool × List Nat))) (hq : 1 ≤ p.lowQ)
    (ops : List Iec.Srv104.WOp) (g : Nat) :
    ∃ up low, ((ops.foldl Iec.Srv104.WOp.apply (Iec.Srv104.create p gs)).grp g).lowQ.toList = MqInv.abs up low ∧
      ((ops.foldl Iec.Srv104.WOp.apply (Iec.Srv104.create p gs)).grp g).lowQ.count = (MqInv.abs up low).length := by
  obtain ⟨up, low, h⟩ := server_event_rings_wellformed p gs hq ops g
  exact ⟨up, low, toList_eq _ up low h, by rw [h.count]; simp [MqInv.abs]⟩

/-! ### remains buffered until acknowledged -/

/-- **an event stays in the ring, unconfirmed, until the connection it was sent on acknowledges it.** For EVERY server
state, connection `i` and group `g` whose ring is well-formed (every reachable state, `server_event_rings_wellformed`):
after the reception step of connection `i` - whatever arrived, in whatever segmentation - the ring of `g` holds the same
entries (offset, id, octets, order) as before without a prefix, every removed entry is referenced by the k-buffer of
connection `i` (it was transmitted on `i` and not yet acknowledged), and every other entry that was not confirmed is still
not confirmed unless the k-buffer of `i` references it; a confirmed entry stays confirmed (`CfKept`: with
`next_waiting_is_oldest_waiting` - only waiting entries are handed out - an acknowledged ASDU is never transmitted again).
The periodic tasks (transmission of waiting events, time-outs) and
the reaping of an ended connection (re-arming) remove and confirm nothing at all. -/
theorem events_kept_until_acknowledged (s : Iec.Srv104.Slave) (i g : Nat) (up low : List MEntry)
    (h : MqInv (s.grp g).lowQ up low) :
    (∃ up' low' k, MqInv ((Iec.Srv104.handleTcpConnection s i).grp g).lowQ up' low' ∧
      (∀ x ∈ (up ++ low).take k, (x.1, x.2.id) ∈ Iec.Srv104.refsOf (s.conn i).win) ∧
      (up' ++ low').map ekey = ((up ++ low).drop k).map ekey ∧
      StKept (Iec.Srv104.refsOf (s.conn i).win) ((up ++ low).drop k) (up' ++ low') ∧
      CfKept ((up ++ low).drop k) (up' ++ low')) ∧
    (∃ up' low', MqInv ((Iec.Srv104.periodic s i).grp g).lowQ up' low' ∧ (up' ++ low').map ekey = (up ++ low).map ekey ∧
      StKept [] (up ++ low) (up' ++ low') ∧ CfKept (up ++ low) (up' ++ low')) ∧
    (∃ up' low', MqInv ((Iec.Srv104.reap s i).grp g).lowQ up' low' ∧ (up' ++ low').map ekey = (up ++ low).map ekey ∧
      StKept [] (up ++ low) (up' ++ low') ∧ CfKept (up ++ low) (up' ++ low')) := by
  have nodrop : ∀ q', KeptX [] (s.grp g).lowQ q' →
      ∃ up' low', MqInv q' up' low' ∧ (up' ++ low').map ekey = (up ++ low).map ekey ∧ StKept [] (up ++ low) (up' ++ low') ∧
        CfKept (up ++ low) (up' ++ low') := by
    intro q' hk
    obtain ⟨up', low', k, h1, h2, h3, h4, h5⟩ := hk up low h
    have hk0 : (up ++ low).take k = [] := by
      cases hx : (up ++ low).take k with
      | nil => rfl
      | cons x xs => have := h2 x (by rw [hx]; simp); simp at this
    have hdrop : (up ++ low).drop k = up ++ low := by
      have := List.take_append_drop k (up ++ low)
      rw [hk0] at this; simpa using this
    rw [hdrop] at h3 h4 h5
    exact ⟨up', low', h1, h3, h4, h5⟩
  exact ⟨(Iec.Srv104.kr_handleTcpConnection s i).kept g up low h,
    nodrop _ ((Iec.Srv104.kr_periodic (R := []) s i).kept g), nodrop _ ((Iec.Srv104.kr_reap (R := []) s i).kept g)⟩

end Iec.Props.C06
