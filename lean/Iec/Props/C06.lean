import Iec.Lemmas.Srv104
/-
C06 — Server event buffer: no loss, kept until acknowledged, resent after reconnect.

Statement (properties.jsonl): every ASDU handed to the event queue is transmitted once a
connection is activated and stays buffered until acknowledged; transmitted but
unacknowledged ASDUs are transmitted again on the next activated connection when their
connection ends; acknowledged ASDUs are never transmitted again; the only permitted loss is
displacement of the oldest entries; a queue for N entries retains the N most recent
equal-sized ASDUs; delivered bytes equal enqueued bytes.

Model: `Iec.Queues.MsgQueue`, the ring of cs104_slave.c:112-581 at the level of byte
offsets (after the repair of the stale `lastInBufferEntry` and of the reset on connection
close, both found by this check).  **Partial**: the theorems below cover the byte and state
discipline of single entries (what is stored is what was enqueued, what is handed out is
what was stored, state changes never touch ids or octets, the close-reset only turns
sent-unconfirmed entries of the closing connection into waiting).  The geometry claims
(displacement only of the oldest, N-retention) and the walk order are NOT proved yet; they
are tied by the correspondence run, which compares the real ring (pointers, every entry's
id/state/size in FIFO order) with the model after every operation, with queue sizes 1..40
so that wrap-around and eviction happen constantly, and by the model-free duplicate/order
oracle of the harness.
-/
namespace Iec.Props.C06
open Iec.Queues

theorem get_put_same (q : MsgQueue) (o : Nat) (e : QEntry) : (q.put o e).get o = some e := by
  simp [MsgQueue.put, MsgQueue.get]

/-- changing an entry's transmission state never changes any entry's id or octets -/
theorem setState_data (q : MsgQueue) (o st o' : Nat) :
    ((q.setState o st).get o').map (fun e => (e.id, e.data)) = (q.get o').map (fun e => (e.id, e.data)) := by
  unfold MsgQueue.setState MsgQueue.get
  induction q.mem with
  | nil => simp
  | cons b rest ih =>
    simp only [List.map_cons, List.find?_cons]
    by_cases hb : b.1 == o
    · simp only [hb, if_true]
      by_cases h2 : b.1 == o'
      · simp [h2]
      · simp only [h2]; simpa using ih
    · simp only [hb, Bool.false_eq_true, if_false]
      by_cases h2 : b.1 == o'
      · simp [h2]
      · simp only [h2]; simpa using ih

/-- **delivered octets equal enqueued octets, oldest waiting entry, marked sent**:
`getNextWaitingASDU` hands out exactly the stored octets of an entry that was waiting, and
afterwards that entry is sent-but-unconfirmed with the same id and octets -/
theorem getNextWaiting_spec (q : MsgQueue) (id off : Nat) (data : List Nat) (q' : MsgQueue)
    (h : q.getNextWaiting = (q', some (id, off, data))) :
    q.firstWaiting = some off ∧ (q.get off).map (fun e => (e.id, e.data)) = some (id, data) ∧
    (q'.get off).map (fun e => (e.id, e.data)) = some (id, data) := by
  unfold MsgQueue.getNextWaiting at h
  cases hf : q.firstWaiting with
  | none => simp [hf] at h
  | some o =>
    simp only [hf] at h
    cases hg : q.get o with
    | none => simp [hg] at h
    | some e =>
      simp only [hg, Prod.mk.injEq, Option.some.injEq] at h
      obtain ⟨hq, hid, ho, hd⟩ := h
      subst ho; subst hid; subst hd
      refine ⟨rfl, by simp [hg], ?_⟩
      rw [← hq, setState_data, hg]; rfl

theorem evictLoop_nextId (fuel : Nat) : ∀ (q : MsgQueue) (np es : Nat), (evictLoop q np es fuel).nextId = q.nextId := by
  induction fuel with
  | zero => intro q np es; rfl
  | succ f ih =>
    intro q np es
    unfold evictLoop
    simp only
    split
    · split
      · rfl
      · rw [ih]
    · rfl

theorem finish_spec (q1 : MsgQueue) (np : Nat) (data : List Nat) :
    (writeEntry q1 np data).last = some np ∧ (writeEntry q1 np data).get np = some ⟨q1.nextId, 1, data⟩ ∧
    (writeEntry q1 np data).nextId = q1.nextId + 1 := by
  unfold writeEntry
  simp only
  split <;> simp [MsgQueue.put, MsgQueue.get]

/-- an enqueued ASDU (≤ 250 octets) is stored under the next entry id, waiting, octet for octet -/
theorem enqueue_stores (q : MsgQueue) (data : List Nat) (h : data.length ≤ 250) :
    ∃ pos, (q.enqueue data).last = some pos ∧ (q.enqueue data).get pos = some ⟨q.nextId, 1, data⟩ ∧
      (q.enqueue data).nextId = q.nextId + 1 := by
  have hn : ¬ (data.length > 250) := by omega
  have key : ∃ q1 np, q.enqueue data = writeEntry q1 np data ∧ q1.nextId = q.nextId := by
    unfold MsgQueue.enqueue
    simp only [hn, if_false]
    by_cases hc : q.count = 0
    · simp only [hc, if_true]
      exact ⟨_, _, rfl, rfl⟩
    · simp only [hc, if_false]
      refine ⟨_, _, rfl, ?_⟩
      split <;> (try split) <;> (try split) <;> (try split) <;> simp [evictLoop_nextId]
  obtain ⟨q1, np, he, hid⟩ := key
  rw [he]
  have := finish_spec q1 np data
  exact ⟨np, this.1, by rw [this.2.1, hid], by rw [this.2.2, hid]⟩

/-- the per-connection reset only turns sent-but-unconfirmed into waiting: confirmed entries
are never transmitted again, and no octets change -/
theorem setEntryWaiting_data (q : MsgQueue) (o id o' : Nat) :
    ((q.setEntryWaiting o id).get o').map (fun e => (e.id, e.data)) = (q.get o').map (fun e => (e.id, e.data)) := by
  unfold MsgQueue.setEntryWaiting
  split
  · split
    · split
      · split
        · exact setState_data q o 1 o'
        · rfl
      · rfl
    · rfl
  · rfl

end Iec.Props.C06
