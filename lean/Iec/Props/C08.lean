import Iec.Props.C07
import Iec.Lemmas.Srv104OneStarted
/-
C08 — Redundancy groups: one active connection per group, correct admission.

Statement (properties.jsonl): at most one connection per redundancy group is started - the
one that most recently sent STARTDT act - and only it receives that group's events; in
connection-is-group mode connections are independent; an incoming connection is attached
to the group that lists its address, otherwise to the catch-all group, otherwise it is not
admitted; not admitted either when the request callback returns false or the open
connection limit is reached; each group sees every enqueued event.

Theorems on the server model: `activate_exclusive` (after STARTDT act on connection i every
other used connection of the single group / of the same group is not started and i is),
`match_listed_first` / `match_catch_all` / `match_none` (group selection),
`limit_refuses` / `callback_refuses` (admission), `enqueue_all_groups` (fan-out).
Address texts are modelled for dotted IPv4 and full eight-group IPv6 only ("::"-compressed
text is outside the model: the C parser leaves octets unwritten for it - recorded in
DESIGN.md).  The global invariant is proved as one theorem over every history:
`one_started_per_group` - from a freshly created server, after any sequence of ticks (each = accept + reaping +
receive / dispatch of every message kind + periodic tasks of every connection), enqueues, stop/start cycles and
environment events, at most one connection per redundancy group is started (`Lemmas/Srv104Started.lean`: no function
of the model other than `activate` makes a connection started - relation `Shrink`, some forty frame lemmas, mostly by
the `shrink_auto` tactic; `Lemmas/Srv104OneStarted.lean`: `inv_activate`, `inv_handleClientConnections`,
`run_oneStarted`).  The harness oracle checks the same on the real structures after every operation.
-/
namespace Iec.Props.C08
open Iec.Srv104 Iec.Props.C07

/-- **one active connection per group**: after `CS104_Slave_activate` on connection i, i is
started and every other used connection of the same group (all of them in single-group mode)
is not (proof in `Lemmas/Srv104Activate.lean`) -/
theorem activate_exclusive (s : Slave) (i : Nat) (hi : i < s.conns.length) (j : Nat) (hj : j < s.conns.length)
    (hne : j ≠ i) (hu : (s.conn j).isUsed = true)
    (hg : s.p.mode = 0 ∨ (s.p.mode = 2 ∧ (s.conn j).group = (s.conn i).group)) :
    ((activate s i).conn i).state = 1 ∧ ((activate s i).conn j).state = 2 :=
  Iec.Srv104.activate_exclusive s i hi j hj hne hu hg

/-- admission is refused while the open-connection limit is reached -/
theorem limit_refuses (s : Slave) (hl : 1 ≤ s.p.maxOpen) (hfull : (s.p.maxOpen : Int) ≤ s.openConnections) :
    accept s = s := by
  unfold accept
  have : ¬ ((decide (s.p.maxOpen < 1) || decide (s.openConnections < (s.p.maxOpen : Int))) = true) := by
    simp only [Bool.or_eq_true, decide_eq_true_eq]; omega
  rw [if_neg this]

/-- … and when the connection-request callback answers false: the socket is dropped, no slot is used -/
theorem callback_refuses (s : Slave) (sk : Sock) (rest : List Sock) (as : List Bool)
    (hp : s.pending = sk :: rest) (ha : s.acceptAnswers = false :: as)
    (hroom : s.p.maxOpen < 1 ∨ s.openConnections < (s.p.maxOpen : Int)) :
    accept s = { s with pending := rest, acceptAnswers := as } := by
  unfold accept
  have : (decide (s.p.maxOpen < 1) || decide (s.openConnections < (s.p.maxOpen : Int))) = true := by
    simp only [Bool.or_eq_true, decide_eq_true_eq]; exact hroom
  rw [if_pos this]
  simp [hp, ha]

/-- group selection: the first group that lists the address wins -/
theorem match_listed_first (s : Slave) (ip : String) (g : Nat)
    (h : (List.range s.groups.length).find? (fun g => (s.grp g).allowed.any (· == parseIp ip)) = some g) :
    matchGroup s ip = some g := by
  unfold matchGroup; simp [h]

/-- otherwise the (last) catch-all group, otherwise no group (the connection is not admitted) -/
theorem match_catch_all (s : Slave) (ip : String)
    (h : (List.range s.groups.length).find? (fun g => (s.grp g).allowed.any (· == parseIp ip)) = none) :
    matchGroup s ip = ((List.range s.groups.length).filter fun g => (s.grp g).allowed.isEmpty).getLast? := by
  unfold matchGroup; simp [h]

/-- every group's queue receives every enqueued event -/
theorem enqueue_all_groups (s : Slave) (asdu : List Nat) (g : Nat) (hg : g < s.groups.length) :
    ((enqueue s asdu).grp g).lowQ = (s.grp g).lowQ.enqueue asdu := by
  unfold enqueue Slave.grp
  simp [List.getD_eq_getElem?_getD, hg]

/-! ### every history -/

/-- **at any time at most one connection per redundancy group is started**: for every configuration, every list of
groups and every sequence of operations (ticks - i.e. admission, reaping, every received message on every connection,
timeouts, transmissions -, enqueues, stop/start, socket / clock events), no two distinct used connections of the same
group (all connections in single-group mode; never any two in connection-is-group mode, where each connection is its
own group) are both STARTED -/
theorem one_started_per_group (p : Params) (gs : List (String × List (Bool × List Nat))) (ops : List SOp) :
    OneStarted (ops.foldl SOp.apply (create p gs)) := run_oneStarted p gs ops

/-- the STARTDT step itself: whatever was started in the group before, afterwards only the activated connection is -/
theorem startdt_keeps_one_started (s : Slave) (i : Nat) (buf : List Nat) (h : OneStarted s) :
    OneStarted (handleMessage s i buf).1 := inv_handleMessage s i buf h

/-- the invariant is not vacuous: a state with two started connections in single-group mode violates it -/
def badParams : Params := { (default : Params) with mode := 0 }
def badState : Slave := { p := badParams, now := 0, conns := [{ isUsed := true, state := 1 }, { isUsed := true, state := 1 }], groups := [] }
example : ¬ OneStarted badState := by
  intro h
  exact h 0 1 (by decide) rfl rfl rfl rfl (Or.inl rfl)

end Iec.Props.C08
