import Iec.Props.C07
/-
C08 — Redundancy groups: one active connection per group, correct admission.

Statement (properties.jsonl): at most one connection per redundancy group is started - the
one that most recently sent STARTDT act - and only it receives that group's events; in
connection-is-group mode connections are independent; an incoming connection is attached
to the group that lists its address, otherwise to the catch-all group, otherwise it is not
admitted; not admitted either when the request callback returns false or the open
connection limit is reached; each group sees every enqueued event.

Theorems on the server model: `activate_exclusive` (after STARTDT act on connection i every
other used connection of the single group / of the same group is not started and i is),
`match_listed_first` / `match_catch_all` / `match_none` (group selection),
`limit_refuses` / `callback_refuses` (admission), `enqueue_all_groups` (fan-out).
Address texts are modelled for dotted IPv4 and full eight-group IPv6 only ("::"-compressed
text is outside the model: the C parser leaves octets unwritten for it - recorded in
DESIGN.md).  **Partial**: the global invariant "at most one started per group after every
tick" is checked by the harness oracle on every operation, not proved as one theorem.
-/
namespace Iec.Props.C08
open Iec.Srv104 Iec.Props.C07

/-- every deactivated connection ends not started -/
theorem deactivate_state (s : Slave) (j : Nat) (hj : j < s.conns.length) : ((deactivate s j).conn j).state = 2 := by
  unfold deactivate
  simp only
  split
  · rw [conn_setConn _ _ _ (by simpa [emit] using hj)]
  · rw [conn_setConn _ _ _ hj]

theorem fold_state (js : List Nat) : ∀ (s : Slave) (j : Nat), j ∈ js → (∀ x ∈ js, x < s.conns.length) →
    ((js.foldl deactivate s).conn j).state = 2 := by
  induction js with
  | nil => intro s j h; simp at h
  | cons x xs ih =>
    intro s j hj hlen
    simp only [List.foldl_cons]
    have hd := deactivate_facts s x
    by_cases hx : j ∈ xs
    · exact ih (deactivate s x) j hx (fun y hy => by rw [hd.1]; exact hlen y (by simp [hy]))
    · have hjx : j = x := by simpa [hx] using hj
      subst hjx
      have hf := deactivate_fold xs (deactivate s j) j (fun y hy => by intro h; exact hx (h ▸ hy))
      rw [hf.2.2.2.2]
      exact deactivate_state s j (hlen j (by simp))

/-- **one active connection per group**: after `CS104_Slave_activate` on connection i, i is
started and every other used connection of the same group (all of them in single-group mode)
is not -/
theorem activate_exclusive (s : Slave) (i : Nat) (hi : i < s.conns.length) (j : Nat) (hj : j < s.conns.length)
    (hne : j ≠ i) (hu : (s.conn j).isUsed = true)
    (hg : s.p.mode = 0 ∨ (s.p.mode = 2 ∧ (s.conn j).group = (s.conn i).group)) :
    ((activate s i).conn i).state = 1 ∧ ((activate s i).conn j).state = 2 := by
  unfold activate
  simp only
  obtain ⟨js, hjs⟩ : ∃ js, js = (List.range s.conns.length).filter (fun j =>
      j != i && (s.conn j).isUsed && (s.p.mode = 0 || (s.p.mode = 2 && (s.conn j).group == (s.conn i).group))) := ⟨_, rfl⟩
  rw [← hjs]
  have hmem : j ∈ js := by
    rw [hjs]; simp only [List.mem_filter, List.mem_range, Bool.and_eq_true, bne_iff_ne, Bool.or_eq_true,
      decide_eq_true_eq, beq_iff_eq]
    exact ⟨hj, ⟨hne, hu⟩, by rcases hg with h | h; exact Or.inl h; exact Or.inr h⟩
  have hall : ∀ x ∈ js, x < s.conns.length := by
    intro x hx; rw [hjs] at hx; simp only [List.mem_filter, List.mem_range] at hx; exact hx.1
  have hni : ∀ x ∈ js, x ≠ i := by
    intro x hx; rw [hjs] at hx; simp only [List.mem_filter, Bool.and_eq_true, bne_iff_ne] at hx; exact hx.2.1.1
  have hf := deactivate_fold js s i hni
  have ha := activateConn_facts (js.foldl deactivate s) i (by rw [hf.1]; exact hi)
  refine ⟨by rw [ha.1], ?_⟩
  -- connection j is untouched by activating i
  have hj2 : ((activateConn (js.foldl deactivate s) i).conn j) = ((js.foldl deactivate s).conn j) := by
    unfold activateConn
    simp only
    split <;> simp [Slave.conn, Slave.setConn, emit, List.getD_eq_getElem?_getD, List.getElem?_set_ne (Ne.symm hne)]
  rw [hj2]
  exact fold_state js s j hmem hall

/-- admission is refused while the open-connection limit is reached -/
theorem limit_refuses (s : Slave) (hl : 1 ≤ s.p.maxOpen) (hfull : (s.p.maxOpen : Int) ≤ s.openConnections) :
    accept s = s := by
  unfold accept
  have : ¬ ((decide (s.p.maxOpen < 1) || decide (s.openConnections < (s.p.maxOpen : Int))) = true) := by
    simp only [Bool.or_eq_true, decide_eq_true_eq]; omega
  rw [if_neg this]

/-- … and when the connection-request callback answers false: the socket is dropped, no slot is used -/
theorem callback_refuses (s : Slave) (sk : Sock) (rest : List Sock) (as : List Bool)
    (hp : s.pending = sk :: rest) (ha : s.acceptAnswers = false :: as)
    (hroom : s.p.maxOpen < 1 ∨ s.openConnections < (s.p.maxOpen : Int)) :
    accept s = { s with pending := rest, acceptAnswers := as } := by
  unfold accept
  have : (decide (s.p.maxOpen < 1) || decide (s.openConnections < (s.p.maxOpen : Int))) = true := by
    simp only [Bool.or_eq_true, decide_eq_true_eq]; exact hroom
  rw [if_pos this]
  simp [hp, ha]

/-- group selection: the first group that lists the address wins -/
theorem match_listed_first (s : Slave) (ip : String) (g : Nat)
    (h : (List.range s.groups.length).find? (fun g => (s.grp g).allowed.any (· == parseIp ip)) = some g) :
    matchGroup s ip = some g := by
  unfold matchGroup; simp [h]

/-- otherwise the (last) catch-all group, otherwise no group (the connection is not admitted) -/
theorem match_catch_all (s : Slave) (ip : String)
    (h : (List.range s.groups.length).find? (fun g => (s.grp g).allowed.any (· == parseIp ip)) = none) :
    matchGroup s ip = ((List.range s.groups.length).filter fun g => (s.grp g).allowed.isEmpty).getLast? := by
  unfold matchGroup; simp [h]

/-- every group's queue receives every enqueued event -/
theorem enqueue_all_groups (s : Slave) (asdu : List Nat) (g : Nat) (hg : g < s.groups.length) :
    ((enqueue s asdu).grp g).lowQ = (s.grp g).lowQ.enqueue asdu := by
  unfold enqueue Slave.grp
  simp [List.getD_eq_getElem?_getD, hg]

end Iec.Props.C08
