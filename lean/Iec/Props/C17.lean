/-
C17 — lock discipline of the threaded CS104 server / client and of the CS101 queues,
decided on the skeletons that translate/locks.py regenerates from the C sources on
every run (`Iec.Gen.LockSkel`).

Decided here (for every path, every number of loop iterations, every branch outcome):
  * every lock is released exactly once on every path of every function, by the thread
    that took it, and nothing is held at any return (`every_path_releases_what_it_took`),
    no path releases a lock it does not hold or waits for a lock it holds itself
    (`no_path_faults`);
  * the lock-order relation inside the library (lock held → lock waited for; through
    calls and through joins of threads) has no cycle (`internal_lock_order_acyclic`);
  * application callbacks, which may call any public function, run with no lock held —
    except at the recorded sites (`callbacks_outside_locks_partial`; the full statement
    is false on this tree: known_findings.txt, reproduced by harness/locks_dyn.c).
Not decided: data-race freedom (DESIGN.md, C17).
-/
import Iec.Lemmas.Locks
import Iec.Gen.LockSkel
namespace Iec.Props.C17
open Iec.Locks Iec.Gen.LockSkel

/-- Callbacks that are not assumed to call back into the API: the raw-message hook is a
debugging tap that receives only the octets (iec60870_common.h:93-105). -/
def observers : List String := ["rawMessageHandler"]
def obsIdx : List Nat := (observers.map cbNames.idxOf).filter (· < cbNames.length)

theorem all_balanced : skeletons.all balanced = true := by decide +kernel

/-- **C17, pairing.** On every path of every function that touches a lock — whatever the
branch outcomes and loop trip counts — the function ends (by `return` or by falling off
its end) holding exactly what it held at entry: nothing. -/
theorem every_path_releases_what_it_took (s : Stmt) (hs : s ∈ skeletons) (o : Out)
    (h : Run s start o) : o = .norm start ∨ o = .ret [] :=
  balanced_sound s (List.all_eq_true.mp all_balanced s hs) o h

/-- **C17, no double release / self-deadlock.** No path posts a semaphore the thread does
not hold (which would raise a binary semaphore to 2 and silently end mutual exclusion) or
waits for one it already holds. -/
theorem no_path_faults (s : Stmt) (hs : s ∈ skeletons) : ¬ Run s start .fault := by
  intro h
  rcases every_path_releases_what_it_took s hs _ h with h | h <;> cases h

theorem summaries_stable : summariesStable skeletons = true := by decide +kernel

def edges : List (Nat × Nat) := orderEdges skeletons
/-- number of locks reachable below `l` -/
def rank (l : Nat) : Nat := (reach edges lockNames.length (succs edges l)).length

theorem order_ranked : edges.all (fun e => rank e.2 < rank e.1) = true := by decide +kernel

/-- **C17, lock order.** No chain "holds x, waits for a lock whose holder waits for … x"
can be formed from what the library's own code does (calls and thread joins included). -/
theorem internal_lock_order_acyclic : ∀ x, ¬ Path edges x x :=
  ranked_no_cycle edges rank order_ranked

/-- `(lock, callback)`: the application callback may be entered while the thread holds the lock -/
def cbPairs : List (String × String) :=
  (cbUnderLock obsIdx skeletons).map (fun p => (lockNames.getD p.1 "?", cbNames.getD p.2 "?"))

/-- the sites recorded as findings (known_findings.txt, DESIGN.md) -/
def recorded : List (String × String) :=
  [("MasterConnection.stateLock", "connectionEventHandler"),
   ("CS104_Slave.openConnectionsLock", "connectionEventHandler"),
   ("CS104_Connection.conStateLock", "receivedHandler")]

/-- **C17, callbacks (partial).** Apart from the recorded sites, every application callback
is entered with no lock held, so a callback that calls back into the API cannot meet a
lock of its own thread.  The full statement (`cbPairs = []`) is false on this tree: the
recorded pairs are reproduced on the real code by `harness/locks_dyn.c finding-*`. -/
theorem callbacks_outside_locks_partial : ∀ p ∈ cbPairs, p ∈ recorded := by decide +kernel

/-! ### the statements are not vacuous, and the verdict can be `false` (tests, labelled as such) -/

/-- a function that returns on one branch without releasing: a path ends holding lock 0 -/
example : Run (.seq (.wait 0) (.choice .ret (.post 0))) start (.ret [0]) :=
  .seq_norm (.wait_ok (by simp)) (.choice_l .ret)
example : balanced (.seq (.wait 0) (.choice .ret (.post 0))) = false := by decide
/-- the STOPDT defect repaired by bd3fc44: release, then release again -/
example : balanced (.seq (.wait 0) (.seq (.post 0) (.post 0))) = false := by decide
example : Run (.seq (.wait 0) (.seq (.post 0) (.post 0))) start .fault :=
  .seq_norm (.wait_ok (by simp)) (.seq_norm (.post_ok (by simp [hIns])) (.post_bad (by simp [hIns, hDel])))
/-- a loop that takes and releases per iteration is accepted, with `continue` before the release rejected -/
example : balanced (.loop (.seq (.wait 1) (.seq (.choice .skip .brk) (.post 1))) .skip) = false := by decide
example : balanced (.loop (.seq (.wait 1) (.seq (.choice .skip (.seq (.post 1) .brk)) (.post 1))) .skip) = true := by decide
example : skeletons.length > 100 ∧ (orderEdges skeletons).length ≥ 5 := by decide +kernel

end Iec.Props.C17
