import Iec.Lemmas.Asdu
import Iec.Props.C01
import Iec.Gen.TypeSizes
/-
C02 — Parsing untrusted ASDU bytes is total, memory-safe and exact about truncation.

Statement (properties.jsonl): for any byte string handed to the library as a received
ASDU, under any address-size configuration, reading the header and requesting any
element index never reads outside the supplied bytes and never crashes; an object is
returned for every index whose encoding lies completely inside the supplied bytes, and
no object is ever returned for an element not completely contained in them; unknown
type ids always yield none.

What the theorems carry.  The model's parser is total by construction (it is a Lean
function) and touches the input only through `List.take` / `List.drop`; the theorems
below state *exactness*: `getElement` answers `some` **iff** the octet range of the
requested element, computed exactly as `CS101_ASDU_getElementEx` computes it, lies
inside the payload - for every byte string of every length, every index, every size
configuration (no bound), plus `fromBuffer`'s header test and the unknown-type case.
That the C code performs no read outside the supplied octets is *not* a statement about
the model: it is tied to the code by the correspondence run, which executes every parse
on an exactly-sized heap block under ASan/UBSan (an over-read aborts the run and is
reported with the last operation line) and compares acceptance and decoded members
with the model for every truncation length of valid ASDUs of all 67 types.
-/
namespace Iec.Props.C02
open Iec.Layout Iec.Asdu

theorem decodeFields_isSome (fs : List FieldSpec) (hn : NoSeg fs) (bs : List Nat) :
    (decodeFields fs bs).isSome = true ↔ fixedSize fs ≤ bs.length := by
  induction fs generalizing bs with
  | nil => simp [decodeFields, fixedSize]
  | cons f fs ih =>
    cases f with
    | le n =>
      simp only [decodeFields, fixedSize]
      by_cases h : bs.length < n
      · rw [if_pos h]; simp; omega
      · rw [if_neg h, Option.isSome_map, ih (show NoSeg fs from hn), List.length_drop]; omega
    | siq =>
      cases bs with
      | nil => simp [decodeFields, fixedSize]
      | cons b bs =>
        simp only [decodeFields, fixedSize, Option.isSome_map, ih (show NoSeg fs from hn), List.length_cons]
        omega
    | diq =>
      cases bs with
      | nil => simp [decodeFields, fixedSize]
      | cons b bs =>
        simp only [decodeFields, fixedSize, Option.isSome_map, ih (show NoSeg fs from hn), List.length_cons]
        omega
    | seg => exact Bool.noConfusion (show false = true from hn)

/-- `<Type>_getFromBuffer` returns an object exactly when start + (IOA) + size fits -/
theorem decodeObj_isSome (p : Params) (e : TypeEntry) (hn : NoSeg e.fields) (payload : List Nat)
    (start : Nat) (w : Bool) :
    (decodeObj p e payload start w).isSome = true ↔
      start + (if w then p.sizeOfIOA else 0) + fixedSize e.fields ≤ payload.length := by
  unfold decodeObj
  by_cases hg : start + (if w then p.sizeOfIOA else 0) + fixedSize e.fields > payload.length
  · rw [if_pos hg]; simp; omega
  · rw [if_neg hg]
    cases w with
    | false =>
      simp only [Bool.false_eq_true, if_false] at hg ⊢
      rw [Option.isSome_map, decodeFields_isSome _ hn, List.length_drop]; omega
    | true =>
      simp only [if_true] at hg ⊢
      rw [Option.isSome_map, decodeFields_isSome _ hn]
      simp only [List.length_drop]; omega

/-- first octet (relative to the payload) after element `i`, as `CS101_ASDU_getElementEx`
computes it from the type's category, the SQ bit and the address size -/
def elemEnd (a : Asdu) (e : TypeEntry) (i : Nat) : Nat :=
  let sz := fixedSize e.fields
  match e.cat with
  | .seq => if a.isSequence then a.p.sizeOfIOA + i * sz + sz else i * (a.p.sizeOfIOA + sz) + a.p.sizeOfIOA + sz
  | .noseq => i * (a.p.sizeOfIOA + sz) + a.p.sizeOfIOA + sz
  | .single => a.p.sizeOfIOA + sz

/-- **C02 exactness.** For every ASDU byte string, every index and every fixed-size type:
an object is returned iff its octets `[.., elemEnd)` are all present. -/
theorem getElement_exact (a : Asdu) (e : TypeEntry) (hl : lookup a.typeId = some e) (hn : NoSeg e.fields)
    (i : Nat) : (a.getElement i).isSome = true ↔ elemEnd a e i ≤ a.payload.length := by
  unfold Asdu.getElement elemEnd
  simp only [hl]
  cases e.cat with
  | seq =>
    simp only
    cases a.isSequence with
    | true =>
      simp only [if_true, Option.isSome_map, decodeObj_isSome _ _ hn, Bool.false_eq_true, if_false]
      omega
    | false => simp only [Bool.false_eq_true, if_false, decodeObj_isSome _ _ hn, if_true]
  | noseq => simp only [decodeObj_isSome _ _ hn, if_true]
  | single => simp only [decodeObj_isSome _ _ hn, if_true]; omega

/-- the only variable-length type (F_SG_NA_1): an object is returned iff the four fixed
octets and the `los` data octets announced by the length octet are all present -/
theorem getElement_segment (a : Asdu) (hl : a.typeId = 125) (i : Nat) :
    (a.getElement i).isSome = true ↔
      (a.p.sizeOfIOA + 4 ≤ a.payload.length ∧
        a.p.sizeOfIOA + 4 + (a.payload.getD (a.p.sizeOfIOA + 3) 0) ≤ a.payload.length) := by
  unfold Asdu.getElement
  have : lookup a.typeId = some ⟨125, "F_SG_NA_1", .single, [.le 2, .le 1, .seg], 0⟩ := by rw [hl]; rfl
  simp only [this, decodeObj, List.drop_zero, if_true, fixedSize]
  by_cases h : 0 + a.p.sizeOfIOA + (2 + (1 + (1 + 0))) > a.payload.length
  · rw [if_pos h]; simp; omega
  · rw [if_neg h, Option.isSome_map]
    generalize hbs : a.payload.drop a.p.sizeOfIOA = bs
    have hlen : bs.length = a.payload.length - a.p.sizeOfIOA := by rw [← hbs]; simp
    have hget : a.payload.getD (a.p.sizeOfIOA + 3) 0 = bs.getD 3 0 := by
      rw [← hbs]; simp [List.getD_eq_getElem?_getD]
    rw [hget]
    match bs, hlen with
    | [], hlen => simp at hlen; omega
    | [_], hlen => simp at hlen; omega
    | [_, _], hlen => simp at hlen; omega
    | [_, _, _], hlen => simp at hlen; omega
    | b0 :: b1 :: b2 :: los :: rest, hlen =>
      simp only [List.length_cons] at hlen
      simp only [decodeFields, List.length_cons, List.drop_succ_cons, List.drop_zero]
      have h2 : ¬ (rest.length + 1 + 1 + 1 + 1 < 2) := by omega
      have h1 : ¬ (rest.length + 1 + 1 < 1) := by omega
      rw [if_neg h2, Option.isSome_map, if_neg h1, Option.isSome_map]
      simp only [List.getD_cons_succ, List.getD_cons_zero]
      by_cases h3 : rest.length < los
      · rw [if_pos h3]; simp; omega
      · rw [if_neg h3]; simp; omega

/-- unknown type ids always yield none, whatever the payload and index -/
theorem unknown_type_none (a : Asdu) (h : lookup a.typeId = none) (i : Nat) : a.getElement i = none := by
  unfold Asdu.getElement; simp [h]

/-- the type ids the table knows are exactly the 67 supported ones -/
theorem known_ids : ∀ t, t < 256 → ((lookup t).isSome = true ↔ t ∈ typeTable.map (·.typeId)) := by
  decide +kernel

/-- the header test of `CS101_ASDU_createFromBuffer` -/
theorem fromBuffer_exact (p : Params) (msg : List Nat) :
    (fromBuffer p msg).isSome = true ↔ p.hdrLen ≤ msg.length := by
  unfold fromBuffer
  by_cases h : msg.length < p.hdrLen
  · rw [if_pos h]; simp; omega
  · rw [if_neg h]; simp; omega

/-- every non-single table entry is fixed-size, so `getElement_exact` covers 66 of the 67
types and `getElement_segment` the remaining one -/
theorem coverage : ∀ e ∈ typeTable, noSeg e.fields = true ∨ e.typeId = 125 := by decide

/-- non-vacuity: a truncated SQ=1 M_SP_NA_1 (type 1, two elements announced, one present) -/
example : let a : Asdu := ⟨⟨2, 2, 3, 249⟩, [1, 0x82, 3, 0, 1, 0, 100, 0, 0, 0x11]⟩
    a.getElement 0 = some (100, [1, 0x10]) ∧ a.getElement 1 = none := by decide

/-! ### the sizes the C source uses are the sizes of the layout table (translator tie, regenerated on every run) -/

/-- one row extracted from cs101_information_objects.c agrees with the model's table: same type, the decoder's
`minSize` constant is the fixed size of the fields, the encoder's space guard is that size plus the table's
`guardExtra` (the same for a sequence element and an element with object address - except C_TS_TA_1, whose
sequence-branch constant in the source is 2 although 9 octets are written: that branch cannot be reached through the
public API, the type's object address is fixed at 0 and a second element of a sequence is refused by the address
continuity test first; recorded as an observation in DESIGN.md), a variable part exists exactly for
the segment type, and the decoder counts the object address conditionally exactly for the types with a sequence form -/
def SizeOk (x : Iec.Gen.SrcSize) : Bool :=
  match lookup x.typeId with
  | none => false
  | some e =>
    x.name == e.name && x.decMin == fixedSize e.fields && x.encIoa == fixedSize e.fields + e.guardExtra &&
    (x.encSeq == x.encIoa || x.typeId == 107) && x.encVar == !(noSeg e.fields) && x.decSeqCond == (e.cat == .seq)

/-- **every size constant in the current C source of the encoders and decoders is the one the model's layout table
gives**, for all 67 types; `Iec.Gen.srcSizes` is regenerated from /repo by translate/type_sizes.py before this file is
compiled, so an edited constant in the source makes this proof fail -/
theorem source_sizes_match_table :
    Iec.Gen.srcSizes.all SizeOk = true ∧ Iec.Gen.srcSizes.map (·.typeId) = typeTable.map (·.typeId) := by
  decide +kernel

end Iec.Props.C02
