import Iec.Lemmas.Srv104
import Iec.Lemmas.Srv104Activate
import Iec.Props.C05
import Iec.Lemmas.Srv104ITx
import Iec.Lemmas.Srv104EvFree
/-
C07 — CS104 server data-transfer state machine (STARTDT / STOPDT / TESTFR).

Statement (properties.jsonl): I-format APDUs are sent only after STARTDT was confirmed and
never after STOPDT act (or deactivation); STARTDT act and TESTFR act are always answered
with the matching con; STOPDT act is answered with STOPDT con only once every transmitted
event ASDU has been acknowledged, after first acknowledging received I-frames; an I-format
APDU on a connection that is not started, or an S-format APDU in the stopped state, closes
the connection.

Theorems on `Iec.Srv104.handleMessage` (step properties, for every state of the server):
`startdt_answered`, `testfr_answered`, `sframe_stopped_closes`, `send_requires_started`
(responses), `periodic_not_started` (events: `sendWaitingASDUs` runs only in state STARTED),
and C05 `not_started_closes` for I-frames.  The STOPDT sequence: `stopdt_sequence` (the complete output of the step: S-frame first,
STOPDT con only without unconfirmed events, resulting state) and `stopdt_con_after_ack` (the deferred con in
UNCONFIRMED_STOPPED).  Every transmission site: `iframes_only_on_started_connection` (`Lemmas/Srv104ITx.lean`).  Over every history:
`iframes_only_while_activated` (`Lemmas/Srv104EvFree.lean` + `Lemmas/Srv104LifeLog.lean`): every I-format APDU in the wire log
was written while the last event of its slot was ACTIVATED - after the STARTDT handling that reported it and before any
DEACTIVATED (STOPDT act, activation of another connection of the group) or CLOSED.
-/
namespace Iec.Props.C07
open Iec.Srv104 Iec.KWindow

def sockOk (s : Slave) (i : Nat) : Prop := (s.conn i).sock.writeFail = false ∧ (s.conn i).sock.peerClosed = false

theorem write_ok (s : Slave) (i : Nat) (h : sockOk s i) (b : List Nat) : write s i b = (emit s (.tx i b), true) := by
  unfold write; simp [h.1, h.2]

/-- **TESTFR act is answered with TESTFR con in every state** -/
theorem testfr_answered (s : Slave) (i : Nat) (h : sockOk s i) :
    (handleMessage s i [0x68, 4, 0x43, 0, 0, 0]).2 = true ∧
    (handleMessage s i [0x68, 4, 0x43, 0, 0, 0]).1.log = s.log ++ [.tx i TESTFR_CON] := by
  unfold handleMessage hmTestFR hmStartDT hmStopDT hmS t3upd
  simp [write_ok s i h, emit, Slave.setConn]

/-- **STARTDT act is answered with STARTDT con, and the connection is started afterwards** -/
theorem startdt_answered (s : Slave) (i : Nat) (hi : i < s.conns.length) (h : sockOk s i) :
    (handleMessage s i [0x68, 4, 0x07, 0, 0, 0]).2 = true ∧
    ((handleMessage s i [0x68, 4, 0x07, 0, 0, 0]).1.conn i).state = 1 ∧
    (handleMessage s i [0x68, 4, 0x07, 0, 0, 0]).1.log.getLast? = some (.tx i STARTDT_CON) := by
  -- the state after `CS104_Slave_activate` and the response-queue reset
  obtain ⟨s1, hs1⟩ : ∃ s1, s1 = activate s i := ⟨_, rfl⟩
  have hfold := deactivate_fold ((List.range s.conns.length).filter fun j =>
      j != i && (s.conn j).isUsed && (s.p.mode = 0 || (s.p.mode = 2 && (s.conn j).group == (s.conn i).group))) s i
      (by intro j hj; simp only [List.mem_filter, Bool.and_eq_true, bne_iff_ne] at hj; exact hj.2.1.1)
  have hs1c : (s1.conn i).state = 1 ∧ (s1.conn i).sock = (s.conn i).sock ∧ i < s1.conns.length := by
    rw [hs1]; unfold activate; simp only
    have ha := activateConn_facts _ i (by rw [hfold.1]; exact hi)
    rw [ha.1, ha.2, hfold.1, hfold.2.2.2.2]
    exact ⟨rfl, rfl, hi⟩
  obtain ⟨s2, hs2⟩ : ∃ s2, s2 = s1.setGrp (s1.gidx i) { s1.grp (s1.gidx i) with highQ := (s1.grp (s1.gidx i)).highQ.reset } := ⟨_, rfl⟩
  have hs2c : s2.conn i = s1.conn i := by rw [hs2]; rfl
  have hs2ok : sockOk s2 i := by unfold sockOk; rw [hs2c, hs1c.2.1]; exact h
  have hw := write_ok s2 i hs2ok STARTDT_CON
  unfold handleMessage hmTestFR hmStartDT hmStopDT hmS t3upd
  simp only [List.length_cons, List.length_nil, List.getD_cons_zero, List.getD_cons_succ]
  simp [← hs1, ← hs2, hw]
  refine ⟨?_, ?_⟩
  · rw [conn_setConn _ _ _ (by simp [emit, hs2, Slave.setGrp, hs1c.2.2])]
    show ((emit s2 (Obs.tx i STARTDT_CON)).conn i).state = 1
    show (s2.conn i).state = 1
    rw [hs2c]; exact hs1c.1
  · simp [Slave.setConn, emit]

/-- **an S-format APDU in the stopped state closes the connection** (when its N(R) is valid;
an invalid N(R) closes it as well) -/
theorem sframe_stopped_closes (s : Slave) (i : Nat) (hi : i < s.conns.length) (lo hi8 : Nat)
    (hst : (s.conn i).state = 0) : (handleMessage s i [0x68, 4, 0x01, 0, lo, hi8]).2 = false := by
  have hcs := checkSeqConn_facts s i ((lo + hi8 * 0x100) / 2) hi
  simp only at hcs
  unfold handleMessage hmTestFR hmStartDT hmStopDT hmS t3upd
  simp only [List.length_cons, List.length_nil, List.getD_cons_zero, List.getD_cons_succ]
  simp
  generalize hr : checkSeqConn s i ((lo + hi8 * 256) / 2) = r at hcs
  obtain ⟨s2, ok⟩ := r
  simp only at hcs ⊢
  cases ok with
  | false => simp
  | true =>
    have : (s2.conn i).state = 0 := by rw [hcs.2.2.2.2.2.1, hst]
    simp [this]

/-- **responses and events are transmitted only on a started connection** -/
theorem send_requires_started (s : Slave) (i : Nat) (asdu : List Nat) (hst : (s.conn i).state ≠ 1) :
    sendAsduInternal s i asdu = (s, false) := by
  unfold sendAsduInternal; simp [hst]

theorem periodic_not_started (s : Slave) (i : Nat) (hst : (s.conn i).state ≠ 1) :
    periodic s i = (let r := handleTimeouts s i; if !r.2 then r.1.setConn i { r.1.conn i with isRunning := false } else r.1) := by
  unfold periodic; simp [hst]

/-! ### the STOPDT sequence -/

theorem sendS_ok (s : Slave) (i : Nat) (h : sockOk s i) :
    sendS s i = emit s (.tx i [0x68, 0x04, 0x01, 0, seqLo (s.conn i).vr, seqHi (s.conn i).vr]) := by
  unfold sendS; simp [write_ok s i h]

/-- **STOPDT act: received I-frames are acknowledged first, and STOPDT con is sent only when no event ASDU
transmitted on the connection is still unacknowledged** — the complete output of the step, for every server state:
(DEACTIVATED event when the connection was started), then the S-frame with V(R) when anything received is
unacknowledged, then STOPDT con exactly when the event queue holds no transmitted-but-unconfirmed entry; the connection
is STOPPED in that case and UNCONFIRMED_STOPPED otherwise (STOPDT con then follows the acknowledging S-frame,
`stopdt_con_after_ack`). -/
theorem stopdt_sequence (s : Slave) (i : Nat) (hi : i < s.conns.length) (h : sockOk s i) :
    let r := handleMessage s i [0x68, 4, 0x13, 0, 0, 0]
    r.2 = true ∧
    r.1.log = s.log
      ++ (if (s.conn i).isUsed && (s.conn i).state = 1 then [.ev i "DEACTIVATED"] else [])
      ++ (if (s.conn i).unconf > 0 then [.tx i [0x68, 0x04, 0x01, 0, seqLo (s.conn i).vr, seqHi (s.conn i).vr]] else [])
      ++ (if hasUnconfirmed s i then [] else [.tx i STOPDT_CON]) ∧
    (r.1.conn i).state = (if hasUnconfirmed s i then 2 else 0) ∧ (r.1.conn i).unconf = 0 := by
  intro r
  obtain ⟨hd1, hd2⟩ := deactivate_i s i hi
  obtain ⟨hdl, hdp, hdn, hdg, _⟩ := deactivate_facts s i
  -- after the acknowledgement
  obtain ⟨s2, hs2⟩ : ∃ s2, s2 = (if ((deactivate s i).conn i).unconf > 0 then
      sendS ((deactivate s i).setConn i { (deactivate s i).conn i with lastConf := some (deactivate s i).now, unconf := 0, t2Triggered := false }) i
    else deactivate s i) := ⟨_, rfl⟩
  have f2 : s2.log = s.log ++ (if (s.conn i).isUsed && (s.conn i).state = 1 then [.ev i "DEACTIVATED"] else [])
        ++ (if (s.conn i).unconf > 0 then [.tx i [0x68, 0x04, 0x01, 0, seqLo (s.conn i).vr, seqHi (s.conn i).vr]] else []) ∧
      s2.groups = s.groups ∧ s2.p = s.p ∧ s2.conns.length = s.conns.length ∧ (s2.conn i).group = (s.conn i).group ∧
      (s2.conn i).sock = (s.conn i).sock ∧ (s2.conn i).state = 2 ∧ (s2.conn i).unconf = 0 := by
    rw [hs2, hd1]
    by_cases hu : (s.conn i).unconf > 0
    · simp only [hu, if_true]
      have hok : sockOk ((deactivate s i).setConn i { ({ (s.conn i) with state := 2 } : Conn) with lastConf := some (deactivate s i).now, unconf := 0, t2Triggered := false }) i := by
        unfold sockOk; rw [conn_setConn _ _ _ (by rw [hdl]; exact hi)]; exact h
      rw [sendS_ok _ _ hok, conn_setConn _ _ _ (by rw [hdl]; exact hi)]
      refine ⟨by simp [emit, Slave.setConn, hd2], hdg, hdp, by simp [emit, Slave.setConn, hdl], ?_⟩
      have hce : ∀ (x : Slave) (o : Obs), (emit x o).conn i = x.conn i := fun _ _ => rfl
      rw [hce, conn_setConn _ _ _ (by rw [hdl]; exact hi)]
      exact ⟨rfl, rfl, rfl, rfl⟩
    · simp only [hu, if_false, List.append_nil]
      rw [hd1]
      exact ⟨hd2, hdg, hdp, hdl, rfl, rfl, rfl, by simp only; omega⟩
  obtain ⟨l2, g2, p2, n2, gr2, so2, st2, un2⟩ := f2
  have hu2 : hasUnconfirmed s2 i = hasUnconfirmed s i := by
    unfold hasUnconfirmed Slave.gidx Slave.grp; rw [g2, p2, gr2]
  have hr : r = (if hasUnconfirmed s2 i then
        (s2.setConn i { s2.conn i with nextT3 := s2.now + s2.p.t3 * 1000 }, true)
      else
        let s3 := s2.setConn i { s2.conn i with state := 0 }
        let w := write s3 i STOPDT_CON
        if w.2 then (w.1.setConn i { w.1.conn i with nextT3 := w.1.now + w.1.p.t3 * 1000 }, true) else (w.1, false)) := by
    show handleMessage s i [0x68, 4, 0x13, 0, 0, 0] = _
    unfold handleMessage hmTestFR hmStartDT hmStopDT hmS t3upd
    simp only [List.length_cons, List.length_nil, List.getD_cons_zero, List.getD_cons_succ]
    simp [← hs2]
  rw [hr, hu2]
  by_cases hq : hasUnconfirmed s i = true
  · simp only [hq, if_true, List.append_nil]
    refine ⟨trivial, by simp [Slave.setConn, l2], ?_⟩
    rw [conn_setConn _ _ _ (by rw [n2]; exact hi)]
    exact ⟨st2, un2⟩
  · have hq' : hasUnconfirmed s i = false := by simpa using hq
    simp only [hq', Bool.false_eq_true, if_false]
    have hok3 : sockOk (s2.setConn i { s2.conn i with state := 0 }) i := by
      unfold sockOk; rw [conn_setConn _ _ _ (by rw [n2]; exact hi), ]; simp only; rw [so2]; exact h
    rw [write_ok _ _ hok3]
    simp only [if_true]
    refine ⟨trivial, by simp [Slave.setConn, emit, l2], ?_⟩
    rw [conn_setConn _ _ _ (by simp [emit, Slave.setConn, n2, hi])]
    show ((s2.setConn i { s2.conn i with state := 0 }).conn i).state = 0 ∧ ((s2.setConn i { s2.conn i with state := 0 }).conn i).unconf = 0
    rw [conn_setConn _ _ _ (by rw [n2]; exact hi)]
    exact ⟨rfl, un2⟩

/-- **… and the deferred STOPDT con**: in UNCONFIRMED_STOPPED an S-format APDU with a valid N(R) is answered with
STOPDT con exactly when, after its acknowledgement has been applied, no transmitted event is left unconfirmed; the
connection is then STOPPED, and otherwise stays UNCONFIRMED_STOPPED without any output. -/
theorem stopdt_con_after_ack (s : Slave) (i : Nat) (hi : i < s.conns.length) (h : sockOk s i) (lo hi8 : Nat)
    (hst : (s.conn i).state = 2) (hv : valid (s.conn i).vs (s.conn i).win ((lo + hi8 * 0x100) / 2) = true) :
    let s1 := (checkSeqConn s i ((lo + hi8 * 0x100) / 2)).1
    let r := handleMessage s i [0x68, 4, 0x01, 0, lo, hi8]
    r.2 = true ∧
    r.1.log = s.log ++ (if hasUnconfirmed s1 i then [] else [.tx i STOPDT_CON]) ∧
    (r.1.conn i).state = (if hasUnconfirmed s1 i then 2 else 0) := by
  intro s1 r
  have hcs := checkSeqConn_facts s i ((lo + hi8 * 0x100) / 2) hi
  obtain ⟨w, hw⟩ := checkSeqConn_conn s i ((lo + hi8 * 0x100) / 2) hi
  simp only at hcs
  obtain ⟨c1, c2, c3, c4, c5, c6, _⟩ := hcs
  have hok2 : (checkSeqConn s i ((lo + hi8 * 0x100) / 2)).2 = true := by rw [c1]; exact hv
  have hs1 : s1 = (checkSeqConn s i ((lo + hi8 * 0x100) / 2)).1 := rfl
  rw [← hs1] at c2 c3 c4 c5 c6 hw
  have hst1 : (s1.conn i).state = 2 := by rw [c6, hst]
  have hr : r = (if !hasUnconfirmed s1 i then
        let s3 := s1.setConn i { s1.conn i with state := 0 }
        let wr := write s3 i STOPDT_CON
        if wr.2 then (wr.1.setConn i { wr.1.conn i with nextT3 := wr.1.now + wr.1.p.t3 * 1000 }, true) else (wr.1, false)
      else (s1.setConn i { s1.conn i with nextT3 := s1.now + s1.p.t3 * 1000 }, true)) := by
    show handleMessage s i [0x68, 4, 0x01, 0, lo, hi8] = _
    unfold handleMessage hmTestFR hmStartDT hmStopDT hmS t3upd
    simp only [List.length_cons, List.length_nil, List.getD_cons_zero, List.getD_cons_succ]
    generalize hg : checkSeqConn s i ((lo + hi8 * 0x100) / 2) = g at hok2 hs1
    obtain ⟨g1, g2⟩ := g
    simp only at hok2 hs1
    subst hok2
    subst hs1
    simp [hst1]
  rw [hr]
  by_cases hq : hasUnconfirmed s1 i = true
  · simp only [hq, Bool.not_true, Bool.false_eq_true, if_false, if_true, List.append_nil]
    refine ⟨trivial, by simp [Slave.setConn, c2], ?_⟩
    rw [conn_setConn _ _ _ (by rw [c5]; exact hi)]
    exact hst1
  · have hq' : hasUnconfirmed s1 i = false := by simpa using hq
    simp only [hq', Bool.not_false, if_true, Bool.false_eq_true, if_false]
    have hok3 : sockOk (s1.setConn i { s1.conn i with state := 0 }) i := by
      unfold sockOk; rw [conn_setConn _ _ _ (by rw [c5]; exact hi), hw]; exact h
    rw [write_ok _ _ hok3]
    simp only [if_true]
    refine ⟨trivial, by simp [Slave.setConn, emit, c2], ?_⟩
    rw [conn_setConn _ _ _ (by simp [emit, Slave.setConn, c5, hi])]
    show ((s1.setConn i { s1.conn i with state := 0 }).conn i).state = 0
    rw [conn_setConn _ _ _ (by rw [c5]; exact hi)]

/-! ### every transmission site: I-format APDUs only on a started connection -/

/-- **the server sends I-format APDUs on a connection only while it is STARTED**: the two units of work the server
performs for a connection `j` - taking a message from its socket (any message, any state: replies of the application,
everything `handleMessage` does) and its periodic tasks (parked replies, waiting events, timeouts) - append to the wire
log only I-format APDUs that are on connection `j` itself, and none unless `j` is in state STARTED when the unit
begins; every other function of a tick (admission, reaping) writes nothing.  Together with `one_started_per_group`'s
frame lemmas (a connection becomes STARTED only in `activate`, i.e. on STARTDT act, `Lemmas/Srv104Started.lean`) and
`stopdt_sequence` (STOPDT act leaves STARTED before anything else happens) this is the first sentence of the property
over every history. -/
theorem iframes_only_on_started_connection (s : Slave) (j : Nat) :
    (∃ l, (handleTcpConnection s j).log = s.log ++ l ∧
      ∀ c b, Obs.tx c b ∈ l → isI b → c = j ∧ (s.conn j).state = 1) ∧
    (∃ l, (periodic s j).log = s.log ++ l ∧
      ∀ c b, Obs.tx c b ∈ l → isI b → c = j ∧ (s.conn j).state = 1) :=
  ⟨iext_handleTcpConnection s j, iext_periodic s j⟩

/-- in particular a message on a connection that is not started never causes an I-format APDU -/
theorem no_iframe_unless_started (s : Slave) (j : Nat) (h : (s.conn j).state ≠ 1) :
    ∃ l, (handleTcpConnection s j).log = s.log ++ l ∧ ∀ c b, Obs.tx c b ∈ l → ¬ isI b := by
  obtain ⟨l, e, p⟩ := iext_handleTcpConnection s j
  exact ⟨l, e, fun c b hm hi => h (p c b hm hi).2⟩

/-! ### every history -/

/-- **I-format APDUs only on a started connection, over every history.** From a freshly created server, after any sequence
of ticks (accept, receive, STARTDT / STOPDT, transmission of events and replies, time-outs, reaping), enqueues and
environment events: take ANY I-format APDU in the wire log; the connection events reported for its slot before it end with
ACTIVATED (`lifeOf … = 2`: OPENED, then ACTIVATED / DEACTIVATED alternating, the last one ACTIVATED) - i.e. it was written
after the server handled STARTDT act on that connection (which reports ACTIVATED and writes STARTDT con, `startdt_answered`)
and before STOPDT act, deactivation by another connection, or the end of the connection (which report DEACTIVATED / CLOSED
first, `stopdt_sequence`). -/
theorem iframes_only_while_activated (p : Params) (gs : List (String × List (Bool × List Nat))) (ops : List LOp)
    (l1 l2 : List Obs) (c : Nat) (b : List Nat) (hlog : (ops.foldl LOp.apply (create p gs)).log = l1 ++ Obs.tx c b :: l2)
    (hI : isI b) : lifeOf l1 c = 2 :=
  (run_jinv p gs ops).2 l1 c b l2 hlog hI

/-- non-vacuity on a concrete history: connect, STARTDT act, one event enqueued - the log ends with an I-format APDU on
slot 0, and the events before it are OPENED, ACTIVATED -/
example : let s := ([LOp.env (lenvPending {}), .tick, .env (lenvFeed 0 [0x68, 4, 7, 0, 0, 0]), .tick,
      .enqueue [1, 1, 3, 0, 1, 0, 5, 0, 0, 1], .tick] : List LOp).foldl LOp.apply (create lifeDemoParams [])
    s.log.map (fun o => match o with | .ev _ w => w | .tx _ f => if f.getD 2 1 % 2 = 0 then "I" else "tx" | _ => "?") =
      ["OPENED", "ACTIVATED", "tx", "I"] := by decide

end Iec.Props.C07
