import Iec.Lemmas.Srv104
import Iec.Props.C05
/-
C07 — CS104 server data-transfer state machine (STARTDT / STOPDT / TESTFR).

Statement (properties.jsonl): I-format APDUs are sent only after STARTDT was confirmed and
never after STOPDT act (or deactivation); STARTDT act and TESTFR act are always answered
with the matching con; STOPDT act is answered with STOPDT con only once every transmitted
event ASDU has been acknowledged, after first acknowledging received I-frames; an I-format
APDU on a connection that is not started, or an S-format APDU in the stopped state, closes
the connection.

Theorems on `Iec.Srv104.handleMessage` (step properties, for every state of the server):
`startdt_answered`, `testfr_answered`, `sframe_stopped_closes`, `send_requires_started`
(responses), `periodic_not_started` (events: `sendWaitingASDUs` runs only in state STARTED),
and C05 `not_started_closes` for I-frames.  The STOPDT sequence (S-frame first, con only
without unconfirmed events) is in the model and compared with the code by the
correspondence run; its theorem is not yet written (partial).
-/
namespace Iec.Props.C07
open Iec.Srv104 Iec.KWindow

def sockOk (s : Slave) (i : Nat) : Prop := (s.conn i).sock.writeFail = false ∧ (s.conn i).sock.peerClosed = false

theorem write_ok (s : Slave) (i : Nat) (h : sockOk s i) (b : List Nat) : write s i b = (emit s (.tx i b), true) := by
  unfold write; simp [h.1, h.2]

/-- **TESTFR act is answered with TESTFR con in every state** -/
theorem testfr_answered (s : Slave) (i : Nat) (h : sockOk s i) :
    (handleMessage s i [0x68, 4, 0x43, 0, 0, 0]).2 = true ∧
    (handleMessage s i [0x68, 4, 0x43, 0, 0, 0]).1.log = s.log ++ [.tx i TESTFR_CON] := by
  unfold handleMessage
  simp [write_ok s i h, emit, Slave.setConn]

/-- deactivating other connections does not touch connection `i`'s socket or the table size -/
theorem deactivate_facts (s : Slave) (j : Nat) :
    (deactivate s j).conns.length = s.conns.length ∧ (deactivate s j).p = s.p ∧ (deactivate s j).now = s.now ∧
    (deactivate s j).groups = s.groups ∧
    ∀ i, i ≠ j → (deactivate s j).conn i = s.conn i := by
  unfold deactivate
  simp only
  refine ⟨?_, ?_, ?_, ?_, ?_⟩
  · split <;> simp [Slave.setConn, emit]
  · split <;> rfl
  · split <;> rfl
  · split <;> rfl
  · intro i hij
    split <;> simp [Slave.conn, Slave.setConn, emit, List.getD_eq_getElem?_getD, List.getElem?_set_ne (Ne.symm hij)]

theorem deactivate_fold (js : List Nat) : ∀ (s : Slave) (i : Nat), (∀ j ∈ js, j ≠ i) →
    (js.foldl deactivate s).conns.length = s.conns.length ∧ (js.foldl deactivate s).p = s.p ∧
    (js.foldl deactivate s).groups = s.groups ∧ (js.foldl deactivate s).now = s.now ∧
    (js.foldl deactivate s).conn i = s.conn i := by
  induction js with
  | nil => intro s i _; simp
  | cons j js ih =>
    intro s i h
    simp only [List.foldl_cons]
    have hd := deactivate_facts s j
    have := ih (deactivate s j) i (fun x hx => h x (by simp [hx]))
    refine ⟨by rw [this.1, hd.1], by rw [this.2.1, hd.2.1], by rw [this.2.2.1, hd.2.2.2.1], by rw [this.2.2.2.1, hd.2.2.1], ?_⟩
    rw [this.2.2.2.2]; exact hd.2.2.2.2 i (Ne.symm (h j (by simp)))

theorem activateConn_facts (s : Slave) (i : Nat) (hi : i < s.conns.length) :
    (activateConn s i).conn i = { (s.conn i) with state := 1 } ∧ (activateConn s i).conns.length = s.conns.length := by
  unfold activateConn
  simp only
  split
  · refine ⟨?_, by simp [Slave.setConn, emit]⟩
    rw [conn_setConn _ _ _ (by simpa [emit] using hi)]; rfl
  · refine ⟨?_, by simp [Slave.setConn]⟩
    rw [conn_setConn _ _ _ hi]

/-- **STARTDT act is answered with STARTDT con, and the connection is started afterwards** -/
theorem startdt_answered (s : Slave) (i : Nat) (hi : i < s.conns.length) (h : sockOk s i) :
    (handleMessage s i [0x68, 4, 0x07, 0, 0, 0]).2 = true ∧
    ((handleMessage s i [0x68, 4, 0x07, 0, 0, 0]).1.conn i).state = 1 ∧
    (handleMessage s i [0x68, 4, 0x07, 0, 0, 0]).1.log.getLast? = some (.tx i STARTDT_CON) := by
  -- the state after `CS104_Slave_activate` and the response-queue reset
  obtain ⟨s1, hs1⟩ : ∃ s1, s1 = activate s i := ⟨_, rfl⟩
  have hfold := deactivate_fold ((List.range s.conns.length).filter fun j =>
      j != i && (s.conn j).isUsed && (s.p.mode = 0 || (s.p.mode = 2 && (s.conn j).group == (s.conn i).group))) s i
      (by intro j hj; simp only [List.mem_filter, Bool.and_eq_true, bne_iff_ne] at hj; exact hj.2.1.1)
  have hs1c : (s1.conn i).state = 1 ∧ (s1.conn i).sock = (s.conn i).sock ∧ i < s1.conns.length := by
    rw [hs1]; unfold activate; simp only
    have ha := activateConn_facts _ i (by rw [hfold.1]; exact hi)
    rw [ha.1, ha.2, hfold.1, hfold.2.2.2.2]
    exact ⟨rfl, rfl, hi⟩
  obtain ⟨s2, hs2⟩ : ∃ s2, s2 = s1.setGrp (s1.gidx i) { s1.grp (s1.gidx i) with highQ := (s1.grp (s1.gidx i)).highQ.reset } := ⟨_, rfl⟩
  have hs2c : s2.conn i = s1.conn i := by rw [hs2]; rfl
  have hs2ok : sockOk s2 i := by unfold sockOk; rw [hs2c, hs1c.2.1]; exact h
  have hw := write_ok s2 i hs2ok STARTDT_CON
  unfold handleMessage
  simp only [List.length_cons, List.length_nil, List.getD_cons_zero, List.getD_cons_succ]
  simp [← hs1, ← hs2, hw]
  refine ⟨?_, ?_⟩
  · rw [conn_setConn _ _ _ (by simp [emit, hs2, Slave.setGrp, hs1c.2.2])]
    show ((emit s2 (Obs.tx i STARTDT_CON)).conn i).state = 1
    show (s2.conn i).state = 1
    rw [hs2c]; exact hs1c.1
  · simp [Slave.setConn, emit]

/-- **an S-format APDU in the stopped state closes the connection** (when its N(R) is valid;
an invalid N(R) closes it as well) -/
theorem sframe_stopped_closes (s : Slave) (i : Nat) (hi : i < s.conns.length) (lo hi8 : Nat)
    (hst : (s.conn i).state = 0) : (handleMessage s i [0x68, 4, 0x01, 0, lo, hi8]).2 = false := by
  have hcs := checkSeqConn_facts s i ((lo + hi8 * 0x100) / 2) hi
  simp only at hcs
  unfold handleMessage
  simp only [List.length_cons, List.length_nil, List.getD_cons_zero, List.getD_cons_succ]
  simp
  generalize hr : checkSeqConn s i ((lo + hi8 * 256) / 2) = r at hcs
  obtain ⟨s2, ok⟩ := r
  simp only at hcs ⊢
  cases ok with
  | false => simp
  | true =>
    have : (s2.conn i).state = 0 := by rw [hcs.2.2.2.2.2.1, hst]
    simp [this]

/-- **responses and events are transmitted only on a started connection** -/
theorem send_requires_started (s : Slave) (i : Nat) (asdu : List Nat) (hst : (s.conn i).state ≠ 1) :
    sendAsduInternal s i asdu = (s, false) := by
  unfold sendAsduInternal; simp [hst]

theorem periodic_not_started (s : Slave) (i : Nat) (hst : (s.conn i).state ≠ 1) :
    periodic s i = (let r := handleTimeouts s i; if !r.2 then r.1.setConn i { r.1.conn i with isRunning := false } else r.1) := by
  unfold periodic; simp [hst]

end Iec.Props.C07
