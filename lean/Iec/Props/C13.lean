import Iec.Lemmas.Srv104
import Iec.Lemmas.HpQueue
import Iec.Lemmas.MsgQueueOrder
import Iec.Props.C06
import Iec.Gen.Consts104
import Iec.Lemmas.Srv104HWf
/-
C13 — Event ordering and response priority on a CS104 server connection.

Statement (properties.jsonl): with a single open connection in a redundancy group, event
ASDUs are transmitted in enqueue order and after a reconnection transmission resumes with
the oldest unacknowledged event; replies to client requests are transmitted in the order
the application issued them and ahead of all events still waiting, and are never reordered
or silently dropped (lost only if the send call reported failure, data transfer is
restarted, or the connection ends).

Theorems on the server model (step properties): a reply is written to the socket at once
only when nothing is parked before it (`direct_only_if_nothing_parked`, the repaired
`sendASDUInternal`), otherwise it goes to the response queue or the call reports failure
(`parked_or_refused`); `sendWaitingASDUs` takes from the response queue before it takes an
event (`responses_before_events`).

The response (high-priority) ring is PROVED to be a FIFO: `reply_ring_refines_fifo` - the byte-offset ring
with its three pointers refines a list queue (layout invariant `HpInv`, `enqueue_refines`, `getNext_refines`),
and `reply_ring_fifo` - for every ring size, every reply size and every interleaving of enqueue and dequeue
(hence every wrap position), what was queued plus what was accepted equals what was handed out plus what is
still queued, in order; an empty answer means empty.  Attempting this proof exposed a genuine defect (second
wrap over queued replies, fix 6ce2fc6); the model is the repaired code and is tied to it by the direct ring
differential (`hq.*` operations) and the model-free FIFO oracle.

The EVENT ring: `events_transmitted_in_enqueue_order` - for every ring state satisfying the layout invariant, any
list of enqueues (any sizes, any wrap position, any number of displaced entries) followed by any number of
`getNextWaitingASDU` calls hands out, oldest first and each once, the waiting entries of (old content ++ new
ASDUs) minus a displaced prefix (`Lemmas/MsgQueueOrder.lean`: `drain_spec`, `enqueueAll_refines`, on top of the
ring refinement of C06); `fresh_queue_order` - from an empty ring the transmitted ASDUs are a contiguous run
`(ds.drop k).take n` of the enqueued ones; `resume_with_oldest_unconfirmed` - after the re-arm at connection loss
the next entry handed out is the oldest one not confirmed.  The coupling of these queue operations with the
connection state machine (when `sendWaitingASDUs` runs) is in the server model and tied differentially.
-/
namespace Iec.Props.C13
open Iec.Srv104 Iec.KWindow Iec.Queues

/-- a reply is transmitted immediately only when the window has room AND no earlier reply is parked -/
theorem direct_only_if_nothing_parked (s : Slave) (i : Nat) (asdu : List Nat)
    (hp : (s.grp (s.gidx i)).highQ.count ≠ 0) :
    (sendAsduInternal s i asdu).1.log = s.log := by
  unfold sendAsduInternal
  simp only
  split
  · have : ((s.grp (s.gidx i)).highQ.count == 0) = false := by simpa using hp
    simp [this, Slave.setGrp]
  · rfl

/-- with earlier replies parked the new reply is handed to the response queue; the call's
result is the queue's verdict (false = refused, reported to the application) -/
theorem parked_or_refused (s : Slave) (i : Nat) (asdu : List Nat) (hst : (s.conn i).state = 1)
    (hp : (s.grp (s.gidx i)).highQ.count ≠ 0) :
    (sendAsduInternal s i asdu).2 = ((s.grp (s.gidx i)).highQ.enqueue asdu).2 ∧
    (sendAsduInternal s i asdu).1.conns = s.conns := by
  unfold sendAsduInternal
  have : ((s.grp (s.gidx i)).highQ.count == 0) = false := by simpa using hp
  simp [hst, this, Slave.setGrp]

/-- `sendWaitingASDUs` serves the response queue first: while a response is parked and the
window has room, the next transmission is that response, not an event -/
theorem responses_before_events (s : Slave) (i : Nat) (fuel : Nat)
    (hq : (s.grp (s.gidx i)).highQ.count > 0) (hw : isFull (s.conn i).maxSent (s.conn i).win = true) :
    sendWaitingHigh s i (fuel + 1) = (s, false) := by
  unfold sendWaitingHigh
  simp [hq, hw]

/-- **C13, replies are never reordered or silently dropped (ring level).** From a freshly created response
ring of any size `n >= 1`, after ANY history of enqueue / dequeue operations: the replies accepted by the ring,
in order, are exactly the replies handed out, in order, followed by the replies still queued. -/
theorem reply_ring_fifo (n : Nat) (hn : 1 ≤ n) (ops : List HpOp) :
    ∃ up low, HpInv (hpRun (HpQueue.create n) ops).1 up low ∧
      (hpRun (HpQueue.create n) ops).2.1 = (hpRun (HpQueue.create n) ops).2.2 ++ HpInv.abs up low := by
  obtain ⟨up, low, h, heq⟩ := hp_fifo ops (HpQueue.create n) [] [] (HpInv.empty n hn)
  exact ⟨up, low, h, by simpa [HpInv.abs] using heq⟩

/-- one operation at a time: the ring refines the list queue `HpInv.abs` -/
theorem reply_ring_refines_fifo (q : HpQueue) (up low : List HpEntry) (h : HpInv q up low) :
    (∀ d, ((q.enqueue d).2 = true → ∃ up' low', HpInv (q.enqueue d).1 up' low' ∧ HpInv.abs up' low' = HpInv.abs up low ++ [d]) ∧
          ((q.enqueue d).2 = false → HpInv (q.enqueue d).1 up low)) ∧
    (HpInv.abs up low = [] → q.getNext.2 = none) ∧
    (∀ x xs, HpInv.abs up low = x :: xs → q.getNext.2 = some x ∧ ∃ up' low', HpInv q.getNext.1 up' low' ∧ HpInv.abs up' low' = xs) := by
  refine ⟨fun d => enqueue_refines q up low h d, ?_, ?_⟩
  · intro he
    have hup : up = [] := by cases up with | nil => rfl | cons a b => simp [HpInv.abs] at he
    subst hup
    have hc : q.count = 0 := by have := h.count; rw [h.lowup rfl] at this; simpa using this
    simp [HpQueue.getNext, hc]
  · intro x xs he
    cases up with
    | nil => have := h.lowup rfl; subst this; simp [HpInv.abs] at he
    | cons u0 rest =>
      obtain ⟨q', hg, hne, hnil⟩ := getNext_refines q u0 rest low h
      have hx : u0.2 = x ∧ (rest ++ low).map Prod.snd = xs := by simpa [HpInv.abs] using he
      rw [hg]
      refine ⟨by rw [hx.1], ?_⟩
      by_cases hr : rest = []
      · subst hr; exact ⟨low, [], hnil rfl, by simpa [HpInv.abs] using hx.2⟩
      · exact ⟨rest, low, hne hr, by simpa [HpInv.abs] using hx.2⟩

/-- non-vacuity: the invariant holds for a fresh ring, and a small history behaves as the list queue says -/
example : HpInv (HpQueue.create 1) [] [] := HpInv.empty 1 (by omega)
example : (hpRun (HpQueue.create 1) [.enq [1, 2], .enq [3], .deq, .enq [4, 5, 6], .deq, .deq, .deq]).2 =
    ([[1, 2], [3], [4, 5, 6]], [[1, 2], [3], [4, 5, 6]]) := by decide

/-! ### the event ring: transmission order = enqueue order -/

/-- **event ASDUs are transmitted in the order they were enqueued**: for every ring state under the layout invariant,
every list of enqueues and every number `n` of `getNextWaitingASDU` calls, the ASDUs handed out are the first `n`
waiting entries of (old content followed by the new ASDUs) minus a displaced prefix of `k` oldest entries - in
that order, each once, octet for octet. -/
theorem events_transmitted_in_enqueue_order (q : MsgQueue) (up low : List MEntry) (h : MqInv q up low)
    (ds : List (List Nat)) (hd : ∀ d ∈ ds, d.length ≤ 250) (hs : 266 ≤ q.size) :
    ∃ k, ∀ n, (drain n (enqueueAll q ds)).2.map (fun r => r.2.2) =
      ((((content up low ++ ds.map (fun d => (1, d))).drop k).filter (fun x : Nat × List Nat => x.1 == 1)).take n).map (fun x : Nat × List Nat => x.2) := by
  obtain ⟨up', low', k, hinv, hc⟩ := enqueueAll_refines ds q up low h hd hs
  refine ⟨k, fun n => ?_⟩
  obtain ⟨d1, _⟩ := drain_spec n _ up' low' hinv
  have := congrArg (List.map (fun x : Nat × List Nat => x.2)) d1
  simp only [List.map_map] at this
  have e1 : ((fun x : Nat × List Nat => x.2) ∘ fun r : Nat × Nat × List Nat => (r.1, r.2.2)) = fun r => r.2.2 := rfl
  rw [e1] at this
  rw [this, ← hc]
  unfold content
  rw [List.filter_map, ← List.map_take, List.map_map]
  rfl

/-- from an empty ring: what is transmitted is a contiguous run of what was enqueued, in order -/
theorem fresh_queue_order (m : Nat) (hm : 1 ≤ m) (ds : List (List Nat)) (hd : ∀ d ∈ ds, d.length ≤ 250) :
    ∃ k, ∀ n, (drain n (enqueueAll (MsgQueue.create m) ds)).2.map (fun r => r.2.2) = (ds.drop k).take n := by
  have hs : 266 ≤ (MsgQueue.create m).size := by
    show 266 ≤ m * (HDR + 256)
    simp only [HDR]
    calc 266 ≤ 1 * (16 + 256) := by decide
      _ ≤ m * (16 + 256) := Nat.mul_le_mul_right _ hm
  obtain ⟨k, hk⟩ := events_transmitted_in_enqueue_order (MsgQueue.create m) [] [] (Iec.Props.C06.create_inv m) ds hd hs
  refine ⟨k, fun n => ?_⟩
  rw [hk n]
  simp only [content, List.append_nil, List.map_nil, List.nil_append, ← List.map_drop]
  rw [List.filter_map]
  have : (List.filter ((fun x : Nat × List Nat => x.1 == 1) ∘ fun d => (1, d)) (List.drop k ds)) = List.drop k ds := by
    apply List.filter_eq_self.mpr
    intro a _; rfl
  rw [this, ← List.map_take, List.map_map]
  have hid : ((fun x : Nat × List Nat => x.2) ∘ fun d : List Nat => (1, d)) = id := rfl
  rw [hid, List.map_id]

/-- **after a reconnection transmission resumes with the oldest unacknowledged event**: the re-arm at connection loss
turns the sent-but-unconfirmed entries back into waiting ones, so the next entry handed out is the oldest entry that
is not confirmed -/
theorem resume_with_oldest_unconfirmed (q : MsgQueue) (up low : List MEntry) (h : MqInv q up low) :
    match (up ++ low).find? (fun x => x.2.st == 1 || x.2.st == 2) with
    | none => q.setWaitingWhenNotConfirmed.getNextWaiting.2 = none
    | some x => q.setWaitingWhenNotConfirmed.getNextWaiting.2 = some (x.2.id, x.1, x.2.data) := by
  have hinv := setWaiting_refines q up low h
  have hg := getNextWaiting_refines _ _ _ hinv
  rw [← List.map_append, List.find?_map] at hg
  have hp : ((fun x : MEntry => x.2.st == 1) ∘ rearm) = (fun x : MEntry => x.2.st == 1 || x.2.st == 2) := by
    funext x
    simp only [Function.comp, rearm, rearmE]
    by_cases h2 : x.2.st = 2
    · simp [h2]
    · simp [h2]
  rw [hp] at hg
  cases hf : (up ++ low).find? (fun x => x.2.st == 1 || x.2.st == 2) with
  | none =>
    rw [hf] at hg
    simp only [Option.map_none] at hg
    simp only
    rw [hg]
  | some x =>
    rw [hf] at hg
    simp only [Option.map_some] at hg
    simp only
    rw [hg.1]
    show some ((rearm x).2.id, (rearm x).1, (rearm x).2.data) = _
    simp only [rearm, rearmE]
    split <;> rfl

/-- the reply ring of the model has the entry header (`sizeof(uint16_t)`) and the size `HighPriorityASDUQueue_create`
computes in the compiled source (translator tie, regenerated on every run) -/
theorem reply_ring_geometry_matches_source :
    (HpQueue.create 1).size = Iec.Gen.hpSize1 ∧ (HpQueue.create 5).size = Iec.Gen.hpSize5 ∧
    Iec.Gen.hpSize1 = Iec.Gen.hpEntryHeader + 256 := by
  decide

/-! ### every history of the server -/

/-- **the reply ring and the event ring of every redundancy group / connection are well-formed in every reachable server
state**: from a freshly created server (queues for at least one entry), after any sequence of ticks, enqueues, restarts and
environment events both rings satisfy their layout invariants - the hypotheses of `reply_ring_refines_fifo`,
`events_transmitted_in_enqueue_order` and `resume_with_oldest_unconfirmed` hold in every reachable state. -/
theorem server_rings_wellformed (p : Iec.Srv104.Params) (gs : List (String × List (Bool × List Nat)))
    (hl : 1 ≤ p.lowQ) (hh : 1 ≤ p.highQ) (ops : List Iec.Srv104.WOp) (g : Nat) :
    (∃ up low, HpInv ((ops.foldl Iec.Srv104.WOp.apply (Iec.Srv104.create p gs)).grp g).highQ up low) ∧
    (∃ up low, MqInv ((ops.foldl Iec.Srv104.WOp.apply (Iec.Srv104.create p gs)).grp g).lowQ up low) :=
  ⟨(Iec.Srv104.run_hgok p gs hh ops).2 g, ((Iec.Srv104.run_gok p gs hl ops).2 g).1⟩

/-- **in every reachable server state the event transmitted next is the oldest waiting one**: whatever the history, the
entry `MessageQueue_getNextWaitingASDU` hands to the transmission path of a group is the first waiting entry of the ring in
FIFO (= enqueue) order, with its own id and octets; it is marked sent, nothing else changes, and the ring stays well-formed -/
theorem reachable_next_event_is_oldest_waiting (p : Iec.Srv104.Params) (gs : List (String × List (Bool × List Nat)))
    (hl : 1 ≤ p.lowQ) (ops : List Iec.Srv104.WOp) (g : Nat) :
    ∃ up low, MqInv ((ops.foldl Iec.Srv104.WOp.apply (Iec.Srv104.create p gs)).grp g).lowQ up low ∧
      ((ops.foldl Iec.Srv104.WOp.apply (Iec.Srv104.create p gs)).grp g).lowQ.toList = (up ++ low).map Prod.snd ∧
      match (up ++ low).find? (fun x => x.2.st == 1) with
      | none => ((ops.foldl Iec.Srv104.WOp.apply (Iec.Srv104.create p gs)).grp g).lowQ.getNextWaiting.2 = none
      | some x => ((ops.foldl Iec.Srv104.WOp.apply (Iec.Srv104.create p gs)).grp g).lowQ.getNextWaiting.2 =
          some (x.2.id, x.1, x.2.data) := by
  obtain ⟨up, low, h⟩ := ((Iec.Srv104.run_gok p gs hl ops).2 g).1
  refine ⟨up, low, h, toList_eq _ up low h, ?_⟩
  have := getNextWaiting_refines _ up low h
  cases hf : (up ++ low).find? (fun x => x.2.st == 1) with
  | none => rw [hf] at this; simp only at this ⊢; rw [this]
  | some x => rw [hf] at this; simp only at this ⊢; rw [this.1]

/-- **in every reachable server state the reply transmitted next is the oldest parked one** (the reply ring is a FIFO in
every reachable state, not only under a hypothesis) -/
theorem reachable_next_reply_is_oldest (p : Iec.Srv104.Params) (gs : List (String × List (Bool × List Nat)))
    (hh : 1 ≤ p.highQ) (ops : List Iec.Srv104.WOp) (g : Nat) :
    ∃ up low, HpInv ((ops.foldl Iec.Srv104.WOp.apply (Iec.Srv104.create p gs)).grp g).highQ up low ∧
      ((ops.foldl Iec.Srv104.WOp.apply (Iec.Srv104.create p gs)).grp g).highQ.getNext.2 = (HpInv.abs up low).head? := by
  obtain ⟨up, low, h⟩ := (Iec.Srv104.run_hgok p gs hh ops).2 g
  refine ⟨up, low, h, ?_⟩
  cases up with
  | nil =>
    have := h.lowup rfl; subst this
    have hc : ((ops.foldl Iec.Srv104.WOp.apply (Iec.Srv104.create p gs)).grp g).highQ.count = 0 := by simpa using h.count
    simp [HpQueue.getNext, hc, HpInv.abs]
  | cons u0 rest =>
    obtain ⟨q', he, _, _⟩ := getNext_refines _ u0 rest low h
    rw [he]; simp [HpInv.abs]

end Iec.Props.C13
