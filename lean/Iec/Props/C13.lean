import Iec.Lemmas.Srv104
/-
C13 — Event ordering and response priority on a CS104 server connection.

Statement (properties.jsonl): with a single open connection in a redundancy group, event
ASDUs are transmitted in enqueue order and after a reconnection transmission resumes with
the oldest unacknowledged event; replies to client requests are transmitted in the order
the application issued them and ahead of all events still waiting, and are never reordered
or silently dropped (lost only if the send call reported failure, data transfer is
restarted, or the connection ends).

Theorems on the server model (step properties): a reply is written to the socket at once
only when nothing is parked before it (`direct_only_if_nothing_parked`, the repaired
`sendASDUInternal`), otherwise it goes to the response queue or the call reports failure
(`parked_or_refused`); `sendWaitingASDUs` takes from the response queue before it takes an
event (`responses_before_events`).  FIFO order inside the two ring buffers is tied by the
correspondence run (queue contents are dumped and compared after every operation) and by
the model-free order oracle of the harness; a refinement proof of the rings to lists is
not yet written (partial).
-/
namespace Iec.Props.C13
open Iec.Srv104 Iec.KWindow Iec.Queues

/-- a reply is transmitted immediately only when the window has room AND no earlier reply is parked -/
theorem direct_only_if_nothing_parked (s : Slave) (i : Nat) (asdu : List Nat)
    (hp : (s.grp (s.gidx i)).highQ.count ≠ 0) :
    (sendAsduInternal s i asdu).1.log = s.log := by
  unfold sendAsduInternal
  simp only
  split
  · have : ((s.grp (s.gidx i)).highQ.count == 0) = false := by simpa using hp
    simp [this, Slave.setGrp]
  · rfl

/-- with earlier replies parked the new reply is handed to the response queue; the call's
result is the queue's verdict (false = refused, reported to the application) -/
theorem parked_or_refused (s : Slave) (i : Nat) (asdu : List Nat) (hst : (s.conn i).state = 1)
    (hp : (s.grp (s.gidx i)).highQ.count ≠ 0) :
    (sendAsduInternal s i asdu).2 = ((s.grp (s.gidx i)).highQ.enqueue asdu).2 ∧
    (sendAsduInternal s i asdu).1.conns = s.conns := by
  unfold sendAsduInternal
  have : ((s.grp (s.gidx i)).highQ.count == 0) = false := by simpa using hp
  simp [hst, this, Slave.setGrp]

/-- `sendWaitingASDUs` serves the response queue first: while a response is parked and the
window has room, the next transmission is that response, not an event -/
theorem responses_before_events (s : Slave) (i : Nat) (fuel : Nat)
    (hq : (s.grp (s.gidx i)).highQ.count > 0) (hw : isFull (s.conn i).maxSent (s.conn i).win = true) :
    sendWaitingHigh s i (fuel + 1) = (s, false) := by
  unfold sendWaitingHigh
  simp [hq, hw]

end Iec.Props.C13
