import Iec.Lemmas.Srv104
import Iec.Lemmas.HpQueue
/-
C13 — Event ordering and response priority on a CS104 server connection.

Statement (properties.jsonl): with a single open connection in a redundancy group, event
ASDUs are transmitted in enqueue order and after a reconnection transmission resumes with
the oldest unacknowledged event; replies to client requests are transmitted in the order
the application issued them and ahead of all events still waiting, and are never reordered
or silently dropped (lost only if the send call reported failure, data transfer is
restarted, or the connection ends).

Theorems on the server model (step properties): a reply is written to the socket at once
only when nothing is parked before it (`direct_only_if_nothing_parked`, the repaired
`sendASDUInternal`), otherwise it goes to the response queue or the call reports failure
(`parked_or_refused`); `sendWaitingASDUs` takes from the response queue before it takes an
event (`responses_before_events`).

The response (high-priority) ring is PROVED to be a FIFO: `reply_ring_refines_fifo` - the byte-offset ring
with its three pointers refines a list queue (layout invariant `HpInv`, `enqueue_refines`, `getNext_refines`),
and `reply_ring_fifo` - for every ring size, every reply size and every interleaving of enqueue and dequeue
(hence every wrap position), what was queued plus what was accepted equals what was handed out plus what is
still queued, in order; an empty answer means empty.  Attempting this proof exposed a genuine defect (second
wrap over queued replies, fix 6ce2fc6); the model is the repaired code and is tied to it by the direct ring
differential (`hq.*` operations) and the model-free FIFO oracle.  FIFO order inside the EVENT ring is still
tied by the correspondence run only (partial, see C06).
-/
namespace Iec.Props.C13
open Iec.Srv104 Iec.KWindow Iec.Queues

/-- a reply is transmitted immediately only when the window has room AND no earlier reply is parked -/
theorem direct_only_if_nothing_parked (s : Slave) (i : Nat) (asdu : List Nat)
    (hp : (s.grp (s.gidx i)).highQ.count ≠ 0) :
    (sendAsduInternal s i asdu).1.log = s.log := by
  unfold sendAsduInternal
  simp only
  split
  · have : ((s.grp (s.gidx i)).highQ.count == 0) = false := by simpa using hp
    simp [this, Slave.setGrp]
  · rfl

/-- with earlier replies parked the new reply is handed to the response queue; the call's
result is the queue's verdict (false = refused, reported to the application) -/
theorem parked_or_refused (s : Slave) (i : Nat) (asdu : List Nat) (hst : (s.conn i).state = 1)
    (hp : (s.grp (s.gidx i)).highQ.count ≠ 0) :
    (sendAsduInternal s i asdu).2 = ((s.grp (s.gidx i)).highQ.enqueue asdu).2 ∧
    (sendAsduInternal s i asdu).1.conns = s.conns := by
  unfold sendAsduInternal
  have : ((s.grp (s.gidx i)).highQ.count == 0) = false := by simpa using hp
  simp [hst, this, Slave.setGrp]

/-- `sendWaitingASDUs` serves the response queue first: while a response is parked and the
window has room, the next transmission is that response, not an event -/
theorem responses_before_events (s : Slave) (i : Nat) (fuel : Nat)
    (hq : (s.grp (s.gidx i)).highQ.count > 0) (hw : isFull (s.conn i).maxSent (s.conn i).win = true) :
    sendWaitingHigh s i (fuel + 1) = (s, false) := by
  unfold sendWaitingHigh
  simp [hq, hw]

/-- **C13, replies are never reordered or silently dropped (ring level).** From a freshly created response
ring of any size `n >= 1`, after ANY history of enqueue / dequeue operations: the replies accepted by the ring,
in order, are exactly the replies handed out, in order, followed by the replies still queued. -/
theorem reply_ring_fifo (n : Nat) (hn : 1 ≤ n) (ops : List HpOp) :
    ∃ up low, HpInv (hpRun (HpQueue.create n) ops).1 up low ∧
      (hpRun (HpQueue.create n) ops).2.1 = (hpRun (HpQueue.create n) ops).2.2 ++ HpInv.abs up low := by
  obtain ⟨up, low, h, heq⟩ := hp_fifo ops (HpQueue.create n) [] [] (HpInv.empty n hn)
  exact ⟨up, low, h, by simpa [HpInv.abs] using heq⟩

/-- one operation at a time: the ring refines the list queue `HpInv.abs` -/
theorem reply_ring_refines_fifo (q : HpQueue) (up low : List HpEntry) (h : HpInv q up low) :
    (∀ d, ((q.enqueue d).2 = true → ∃ up' low', HpInv (q.enqueue d).1 up' low' ∧ HpInv.abs up' low' = HpInv.abs up low ++ [d]) ∧
          ((q.enqueue d).2 = false → HpInv (q.enqueue d).1 up low)) ∧
    (HpInv.abs up low = [] → q.getNext.2 = none) ∧
    (∀ x xs, HpInv.abs up low = x :: xs → q.getNext.2 = some x ∧ ∃ up' low', HpInv q.getNext.1 up' low' ∧ HpInv.abs up' low' = xs) := by
  refine ⟨fun d => enqueue_refines q up low h d, ?_, ?_⟩
  · intro he
    have hup : up = [] := by cases up with | nil => rfl | cons a b => simp [HpInv.abs] at he
    subst hup
    have hc : q.count = 0 := by have := h.count; rw [h.lowup rfl] at this; simpa using this
    simp [HpQueue.getNext, hc]
  · intro x xs he
    cases up with
    | nil => have := h.lowup rfl; subst this; simp [HpInv.abs] at he
    | cons u0 rest =>
      obtain ⟨q', hg, hne, hnil⟩ := getNext_refines q u0 rest low h
      have hx : u0.2 = x ∧ (rest ++ low).map Prod.snd = xs := by simpa [HpInv.abs] using he
      rw [hg]
      refine ⟨by rw [hx.1], ?_⟩
      by_cases hr : rest = []
      · subst hr; exact ⟨low, [], hnil rfl, by simpa [HpInv.abs] using hx.2⟩
      · exact ⟨rest, low, hne hr, by simpa [HpInv.abs] using hx.2⟩

/-- non-vacuity: the invariant holds for a fresh ring, and a small history behaves as the list queue says -/
example : HpInv (HpQueue.create 1) [] [] := HpInv.empty 1 (by omega)
example : (hpRun (HpQueue.create 1) [.enq [1, 2], .enq [3], .deq, .enq [4, 5, 6], .deq, .deq, .deq]).2 =
    ([[1, 2], [3], [4, 5, 6]], [[1, 2], [3], [4, 5, 6]]) := by decide

end Iec.Props.C13
