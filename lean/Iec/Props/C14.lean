/-
C14 — FT 1.2 link framing: what the CS101 stacks write is well-formed, and only intact
frames for this station get past the header checks.

Model: Iec.Link101 (link_layer.c, serial_transceiver_ft_1_2.c), tied to the C code by the
differential of checks/link_common.py (real link layer over the simulated serial port).
-/
import Iec.Lemmas.Link101
import Iec.Lemmas.Link101Parse
namespace Iec.Props.C14
open Iec.Link101

/-! ### sending -/

/-- **C14, sending.** Every frame any role of the model hands to the serial port is a
well-formed FT 1.2 frame for the address width recorded in it: the observation type
admits nothing else (`TxFrame` carries the evidence, built by `fixedFrame_wf`,
`varFrame_wf`, `single_wf` for every address width 0, 1, 2, every control octet, address
and user-data string). -/
theorem every_tx_wellformed (f : TxFrame) : WellFormed f.aL f.bytes := f.wf

theorem secU_run_tx_wellformed (s : SecU) (q : List Nat) (now : Nat) :
    ∀ f, Obs.tx f ∈ (s.run q now).2.2 → WellFormed f.aL f.bytes := fun f _ => f.wf
theorem bal_run_tx_wellformed (s : Bal) (q : List Nat) (now : Nat) :
    ∀ f, Obs.tx f ∈ (s.run q now).2.2 → WellFormed f.aL f.bytes := fun f _ => f.wf
theorem priU_run_tx_wellformed (s : PriU) (q : List Nat) (now : Nat) :
    ∀ f, Obs.tx f ∈ (s.run q now).2.2 → WellFormed f.aL f.bytes := fun f _ => f.wf

/-- the address width recorded in a frame is the configured one -/
theorem sendFixed_width (l : LL) (fc a : Nat) (prm dir acd dfc : Bool) :
    ∀ f, Obs.tx f ∈ (l.sendFixed fc a prm dir acd dfc).2 → f.aL = l.p.addrLen := by
  intro f hf; simp [LL.sendFixed] at hf; rw [hf]
theorem sendVar_width (l : LL) (fc a : Nat) (prm dir acd dfc : Bool) (d : List Nat) :
    ∀ f, Obs.tx f ∈ (l.sendVar fc a prm dir acd dfc d).2 → f.aL = l.p.addrLen := by
  intro f hf
  unfold LL.sendVar at hf
  simp only at hf
  split at hf
  · simp at hf
  · simp at hf; rw [hf]

/-- the checksum really is the modulo-256 sum and both length octets the true length:
spelled out for the variable-length encoder -/
theorem varFrame_shape (aL c a : Nat) (d f : List Nat) (h : varFrame aL c a d = some f) :
    f = [0x68, 1 + aL + d.length, 1 + aL + d.length, 0x68] ++ (c :: addrBytes aL a ++ d) ++
        [sum8 (c :: addrBytes aL a ++ d), 0x16] ∧ 1 + aL + d.length ≤ 255 := by
  unfold varFrame at h
  simp only at h
  split at h
  · cases h
  · injection h with h; exact ⟨h.symm, by omega⟩

/-! ### receiving -/

/-- reading the named checks: what `sizeOk` and `checksumOk` say for a variable-length frame -/
theorem sizeOk_iff (l : LL) (n : Nat) : sizeOk l n ↔ n = g l.buf 1 + 6 := by
  unfold sizeOk hUdStart hUdLen; omega

theorem checksumOk_var (l : LL) (hv : isVar l) :
    checksumOk l ↔ sum8 ((l.buf.drop 4).take (g l.buf 1)) = g l.buf (g l.buf 1 + 4) := by
  unfold checksumOk hCsStart hCsIndex hUdStart hUdLen
  rw [if_pos hv, if_pos hv]
  have e1 : ((5 + l.p.addrLen : Nat) : Int) + ((g l.buf 1 : Int) - l.p.addrLen - 1) - ((4 : Nat) : Int) = ((g l.buf 1 : Nat) : Int) := by omega
  have e2 : ((5 + l.p.addrLen : Nat) : Int) + ((g l.buf 1 : Int) - l.p.addrLen - 1) = ((g l.buf 1 + 4 : Nat) : Int) := by omega
  rw [e1, e2, Int.toNat_natCast, Int.toNat_natCast]

theorem checksumOk_fixed (l : LL) (hv : ¬ isVar l) :
    checksumOk l ↔ sum8 ((l.buf.drop 1).take (1 + l.p.addrLen)) = g l.buf (2 + l.p.addrLen) := by
  unfold checksumOk hCsStart hCsIndex
  rw [if_neg hv, if_neg hv]
  have e1 : ((2 : Int) + (l.p.addrLen : Int)) - ((1 : Nat) : Int) = ((1 + l.p.addrLen : Nat) : Int) := by omega
  have e2 : ((2 : Int) + (l.p.addrLen : Int)) = ((2 + l.p.addrLen : Nat) : Int) := by omega
  rw [e1, e2, Int.toNat_natCast, Int.toNat_natCast]

/-- **C14, receiving, unbalanced slave (ParserHeaderSecondaryUnbalanced).** A frame gets past
the header checks only if it starts with 68 or 10; if variable-length, its two length octets
agree and give the number of octets actually received (`msgSize = L + 6`); its checksum is
the modulo-256 sum; and it is addressed to this station — or is a broadcast of user data
without reply (function code 4), the only service defined for the broadcast address. -/
theorem secHeader_ok_sound (l : LL) (n : Nat) (fc : Nat) (bc fcb fcv : Bool) (us : Nat) (ul : Int)
    (h : secHeader l n = .ok fc bc fcb fcv us ul) :
    (isVar l ∨ isFixed l) ∧ (isVar l → g l.buf 1 = g l.buf 2 ∧ n = g l.buf 1 + 6) ∧ checksumOk l ∧
    (frameAddress l = l.address ∨ (isBroadcast l ∧ fc = 4)) := by
  unfold secHeader at h
  split at h
  · cases h
  · rename_i h1
    split at h
    · cases h
    · rename_i h2
      split at h
      · cases h
      · rename_i h3
        split at h
        · cases h
        · rename_i h4
          split at h
          · cases h
          · rename_i h5
            split at h
            · cases h
            · rename_i h6
              split at h
              · cases h
              · injection h with hfc
                refine ⟨?_, ?_, ?_, ?_⟩
                · by_cases hv : isVar l
                  · exact Or.inl hv
                  · by_cases hf : isFixed l
                    · exact Or.inr hf
                    · exact absurd ⟨hv, hf⟩ h3
                · intro hv
                  constructor
                  · by_cases he : g l.buf 1 = g l.buf 2
                    · exact he
                    · exact absurd ⟨hv, he⟩ h1
                  · by_cases hs : sizeOk l n
                    · exact (sizeOk_iff l n).mp hs
                    · exact absurd ⟨hv, hs⟩ h2
                · by_cases hc : checksumOk l
                  · exact hc
                  · exact absurd hc h6
                · by_cases hb : isBroadcast l
                  · right
                    refine ⟨hb, ?_⟩
                    by_cases h44 : hCtrl l % 16 = 4
                    · rw [← hfc]; exact h44
                    · exact absurd ⟨hb, h44⟩ h4
                  · left
                    by_cases ha : frameAddress l = l.address
                    · exact ha
                    · exact absurd ⟨hb, ha⟩ h5

/-- a state-change notification is the only thing a rejected frame can cause -/
def Quiet (o : List Obs) : Prop := ∀ x ∈ o, ∃ a n, x = Obs.st a n

theorem setState_quiet (s : SecU) (n : Nat) : Quiet (s.setState n).2 ∧
    (s.setState n).1.ll = s.ll ∧ (s.setState n).1.c1 = s.c1 ∧ (s.setState n).1.c2 = s.c2 ∧
    (s.setState n).1.expectedFcb = s.expectedFcb := by
  unfold SecU.setState
  split
  · refine ⟨?_, rfl, rfl, rfl, rfl⟩
    intro x hx; simp at hx; exact ⟨_, _, hx⟩
  · refine ⟨?_, rfl, rfl, rfl, rfl⟩
    intro x hx; cases hx

/-- **C14, receiving (2): never passed on, never answered.** A frame that does not get past
the header checks causes no transmission and no application callback, and changes neither
the frame-count expectation nor the stored response nor the application queues; all that
can happen is the link-state notification. -/
theorem secU_reject_is_silent (s : SecU) (now n : Nat)
    (h : ∀ fc bc fcb fcv us ul, secHeader s.ll n ≠ .ok fc bc fcb fcv us ul) :
    Quiet (s.parse now n).2 ∧ (s.parse now n).1.ll = s.ll ∧ (s.parse now n).1.c1 = s.c1 ∧
    (s.parse now n).1.c2 = s.c2 ∧ (s.parse now n).1.expectedFcb = s.expectedFcb := by
  unfold SecU.parse
  simp only
  cases hh : secHeader s.ll n with
  | error => exact setState_quiet _ 1
  | ignore => exact ⟨(fun x hx => nomatch hx), rfl, rfl, rfl, rfl⟩
  | ok fc bc fcb fcv us ul => exact absurd hh (h fc bc fcb fcv us ul)

/-- **C14, receiving, balanced station and unbalanced master
(HandleMessageBalancedAndPrimaryUnbalanced).** Anything but the single character is
handed to a link-layer role only with equal length octets, the true length and a correct
checksum; everything else is dropped without any effect. -/
theorem parseBP_some_sound (l : LL) (n : Nat) (h : Hdr) (hp : parseBP l n = some h) (hs : h.single = false) :
    (isVar l ∨ isFixed l) ∧ (isVar l → g l.buf 1 = g l.buf 2 ∧ n = g l.buf 1 + 6) ∧ checksumOk l ∧
    h.c = hCtrl l ∧ h.address = frameAddress l := by
  unfold parseBP at hp
  split at hp
  · injection hp with hp; rw [← hp] at hs; cases hs
  · split at hp
    · cases hp
    · rename_i h1
      split at hp
      · cases hp
      · rename_i h2
        split at hp
        · cases hp
        · rename_i h3
          split at hp
          · cases hp
          · rename_i h4
            injection hp with hp
            refine ⟨?_, ?_, ?_, by rw [← hp], by rw [← hp]⟩
            · by_cases hv : isVar l
              · exact Or.inl hv
              · by_cases hf : isFixed l
                · exact Or.inr hf
                · exact absurd ⟨hv, hf⟩ h3
            · intro hv
              constructor
              · by_cases he : g l.buf 1 = g l.buf 2
                · exact he
                · exact absurd ⟨hv, he⟩ h1
              · by_cases hsz : sizeOk l n
                · exact (sizeOk_iff l n).mp hsz
                · exact absurd ⟨hv, hsz⟩ h2
            · by_cases hc : checksumOk l
              · exact hc
              · exact absurd hc h4

theorem bal_drop_is_silent (s : Bal) (now n : Nat) (h : parseBP s.ll n = none) :
    s.onMessage now n = (s, []) := by
  unfold Bal.onMessage; rw [h]
theorem priU_drop_is_silent (s : PriU) (now n : Nat) (h : parseBP s.ll n = none) :
    s.onMessage now n = (s, []) := by
  unfold PriU.onMessage; rw [h]

/-- **C14, user data is passed through unmodified.** Feeding the octets of an encoded
variable-length frame to the transceiver (any previous buffer content) delimits exactly
that frame, leaves nothing in the port, and the user data the parsers then hand to the
application — `userDataLength` octets from `userDataStart = 5 + addressLength` — is the
data that was encoded, for every address width, control octet, address and data string. -/
theorem var_roundtrip (aL c a : Nat) (d f buf : List Nat) (hA : aL ≤ 2)
    (hv : varFrame aL c a d = some f) :
    readNext aL f buf = ([], f ++ buf.drop f.length, some f.length) ∧
    userDataOf (f ++ buf.drop f.length) (5 + aL) d.length = d := readNext_varFrame aL c a d f buf hA hv

/-! ### the statements are not vacuous (tests, labelled as such) -/

example : varFrame 1 0x73 5 [1, 2, 3] = some [0x68, 5, 5, 0x68, 0x73, 5, 1, 2, 3, 0x7e, 0x16] := by decide
def demo (addr : Nat) (buf : List Nat) : LL := { p := ⟨1, 200, 1000, false, 500, by omega⟩, address := addr, buf := buf }
/-- the unbalanced slave with address 5 accepts that frame as confirmed user data with FCB=1 … -/
example : secHeader (demo 5 [0x68, 5, 5, 0x68, 0x73, 5, 1, 2, 3, 0x7e, 0x16]) 11 = .ok 3 false true true 6 3 := by decide
/-- … and rejects it with one octet of the data changed, with a wrong length pair, and for another station -/
example : secHeader (demo 5 [0x68, 5, 5, 0x68, 0x73, 5, 1, 9, 3, 0x7e, 0x16]) 11 = .error := by decide
example : secHeader (demo 5 [0x68, 5, 4, 0x68, 0x73, 5, 1, 2, 3, 0x7e, 0x16]) 11 = .error := by decide
example : secHeader (demo 6 [0x68, 5, 5, 0x68, 0x73, 5, 1, 2, 3, 0x7e, 0x16]) 11 = .ignore := by decide

end Iec.Props.C14
