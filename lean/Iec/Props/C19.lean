import Iec.Model.TimeTag
import Iec.Model.Bcr
import Iec.Model.Scaled
import Iec.Lemmas.Bits
import Iec.Lemmas.TimeTag
import Iec.Lemmas.Days
import Iec.Lemmas.Norm
/-
C19 — Time tags, counters and scaled/normalised values are lossless field records.

Statement (properties.jsonl): converting a millisecond UTC timestamp to a
seven-octet time tag and back is the identity for every instant from 2000-01-01 to
2099-12-31; in every time-tag, binary-counter and packed-status type, setting one
field to any in-range value reads back that value and leaves every other field
unchanged; every 16-bit raw value round-trips exactly through the
normalised/scaled conversions and out-of-range inputs saturate.

Reading of "in-range": ms 0..999, s 0..59, min 0..59, h 0..23, day 1..31 (the
theorems allow 0..31), weekday 0..7, month 1..12 (0..15 allowed), year 0..99,
BCR sequence number 0..31, counter value any int32, event state 0..3.
Reading of "every encodable octet pattern": every octet pattern for which the
requested combination is representable at all.  Milliseconds and seconds share one
16-bit field `ms16 = sec*1000 + ms`; a pattern with ms16 ≥ 65000 (seconds = 65)
cannot represent (65 s, v ms) for v ≥ 536 in *any* implementation
(`no_encoding_of_65s_536ms`), so `setMillisecond_spec` carries exactly that guard
and nothing more.
-/
namespace Iec.Props.C19
open Iec.Bits Iec.Days

section TimeTags
open Iec.TimeTag

/-! ## time-tag setters: read back the value, leave every other field and spare bit -/

theorem setMillisecond_spec (r : Tag) (hr : r.WF) (v : Nat) (hv : v < 1000)
    (hfit : ms16 r / 1000 * 1000 + v < 65536) :
    (setMillisecond r v).WF ∧ (setMillisecond r v).fields = { r.fields with ms := v } ∧
    (setMillisecond r v).spare = r.spare := by
  obtain ⟨r0, r1, r2, r3, r4, r5, r6⟩ := r
  simp only [Tag.WF] at hr
  simp only [ms16] at hfit
  tag_setter
  have hx : r0 + r1 * 256 - (r0 + r1 * 256) % 1000 + v < 65536 := by omega
  rw [recompose16 _ hx]
  omega

/-- The guard of `setMillisecond_spec` excludes nothing an implementation could
provide: no 16-bit field value shows 65 s together with v ≥ 536 ms. -/
theorem no_encoding_of_65s_536ms (x v : Nat) (hx : x < 65536) (hv : 536 ≤ v) :
    ¬ (x / 1000 = 65 ∧ x % 1000 = v) := by omega

/-- conversely the guard holds for every pattern whose seconds are ≤ 64, and for
seconds = 65 whenever v ≤ 535 -/
theorem setMillisecond_guard_of_sec (r : Tag) (v : Nat) (hv : v < 1000)
    (hs : getSecond r ≤ 64 ∨ v ≤ 535) (hr : r.WF) :
    ms16 r / 1000 * 1000 + v < 65536 := by
  simp only [getSecond, ms16, Tag.WF] at *; omega

/-- `CP32Time2a_setMillisecond` (written differently in the C source) obeys the same law -/
theorem setMillisecond32_spec (r : Tag) (hr : r.WF) (v : Nat) (hv : v < 1000)
    (hfit : ms16 r / 1000 * 1000 + v < 65536) :
    (setMillisecond32 r v).WF ∧ (setMillisecond32 r v).fields = { r.fields with ms := v } ∧
    (setMillisecond32 r v).spare = r.spare := by
  obtain ⟨r0, r1, r2, r3, r4, r5, r6⟩ := r
  simp only [Tag.WF] at hr
  simp only [ms16] at hfit
  tag_setter
  have hx : (r0 + r1 * 256) / 1000 * 1000 + v < 65536 := by omega
  rw [recompose16 _ hx]
  omega

theorem setSecond_spec (r : Tag) (hr : r.WF) (v : Nat) (hv : v < 60) :
    (setSecond r v).WF ∧ (setSecond r v).fields = { r.fields with sec := v } ∧
    (setSecond r v).spare = r.spare := by
  obtain ⟨r0, r1, r2, r3, r4, r5, r6⟩ := r
  simp only [Tag.WF] at hr
  tag_setter
  have hx : v * 1000 + (r0 + r1 * 256) % 1000 < 65536 := by omega
  rw [recompose16 _ hx]
  omega

theorem setMinute_spec (r : Tag) (hr : r.WF) (v : Nat) (hv : v < 60) :
    (setMinute r v).WF ∧ (setMinute r v).fields = { r.fields with min := v } ∧
    (setMinute r v).spare = r.spare := by
  obtain ⟨r0, r1, r2, r3, r4, r5, r6⟩ := r
  simp only [Tag.WF] at hr
  obtain ⟨h0, h1, h2, h3, h4, h5, h6⟩ := hr
  tag_setter
  omega

theorem setInvalid_spec (r : Tag) (hr : r.WF) (v : Bool) :
    (setInvalid r v).WF ∧ (setInvalid r v).fields = { r.fields with iv := v } ∧
    (setInvalid r v).spare = r.spare := by
  obtain ⟨r0, r1, r2, r3, r4, r5, r6⟩ := r
  simp only [Tag.WF] at hr
  obtain ⟨h0, h1, h2, h3, h4, h5, h6⟩ := hr
  cases v <;> (simp only [setInvalid, Bool.false_eq_true, if_false, if_true]; tag_setter) <;>
    simp only [bne_iff_ne, ne_eq, beq_iff_eq, bne_eq_false_iff_eq] <;> omega

theorem setSubstituted_spec (r : Tag) (hr : r.WF) (v : Bool) :
    (setSubstituted r v).WF ∧ (setSubstituted r v).fields = { r.fields with sb := v } ∧
    (setSubstituted r v).spare = r.spare := by
  obtain ⟨r0, r1, r2, r3, r4, r5, r6⟩ := r
  simp only [Tag.WF] at hr
  obtain ⟨h0, h1, h2, h3, h4, h5, h6⟩ := hr
  cases v <;> (simp only [setSubstituted, Bool.false_eq_true, if_false, if_true]; tag_setter) <;>
    simp only [bne_iff_ne, ne_eq, beq_iff_eq, beq_eq_false_iff_ne] <;> omega

theorem setHour_spec (r : Tag) (hr : r.WF) (v : Nat) (hv : v < 24) :
    (setHour r v).WF ∧ (setHour r v).fields = { r.fields with hour := v } ∧
    (setHour r v).spare = r.spare := by
  obtain ⟨r0, r1, r2, r3, r4, r5, r6⟩ := r
  simp only [Tag.WF] at hr
  obtain ⟨h0, h1, h2, h3, h4, h5, h6⟩ := hr
  tag_setter
  omega

theorem setSummerTime_spec (r : Tag) (hr : r.WF) (v : Bool) :
    (setSummerTime r v).WF ∧ (setSummerTime r v).fields = { r.fields with su := v } ∧
    (setSummerTime r v).spare = r.spare := by
  obtain ⟨r0, r1, r2, r3, r4, r5, r6⟩ := r
  simp only [Tag.WF] at hr
  obtain ⟨h0, h1, h2, h3, h4, h5, h6⟩ := hr
  cases v <;> (simp only [setSummerTime, Bool.false_eq_true, if_false, if_true]; tag_setter) <;>
    simp only [bne_iff_ne, ne_eq, beq_iff_eq, bne_eq_false_iff_eq] <;> omega

theorem setDayOfWeek_spec (r : Tag) (hr : r.WF) (v : Nat) (hv : v < 8) :
    (setDayOfWeek r v).WF ∧ (setDayOfWeek r v).fields = { r.fields with dow := v } ∧
    (setDayOfWeek r v).spare = r.spare := by
  obtain ⟨r0, r1, r2, r3, r4, r5, r6⟩ := r
  simp only [Tag.WF] at hr
  obtain ⟨h0, h1, h2, h3, h4, h5, h6⟩ := hr
  tag_setter
  omega

theorem setDayOfMonth_spec (r : Tag) (hr : r.WF) (v : Nat) (hv : v < 32) :
    (setDayOfMonth r v).WF ∧ (setDayOfMonth r v).fields = { r.fields with dom := v } ∧
    (setDayOfMonth r v).spare = r.spare := by
  obtain ⟨r0, r1, r2, r3, r4, r5, r6⟩ := r
  simp only [Tag.WF] at hr
  obtain ⟨h0, h1, h2, h3, h4, h5, h6⟩ := hr
  tag_setter
  omega

theorem setMonth_spec (r : Tag) (hr : r.WF) (v : Nat) (hv : v < 16) :
    (setMonth r v).WF ∧ (setMonth r v).fields = { r.fields with month := v } ∧
    (setMonth r v).spare = r.spare := by
  obtain ⟨r0, r1, r2, r3, r4, r5, r6⟩ := r
  simp only [Tag.WF] at hr
  obtain ⟨h0, h1, h2, h3, h4, h5, h6⟩ := hr
  tag_setter
  omega

/-- `setYear` reduces its argument modulo 100 first (the caller passes `tm_year`) -/
theorem setYear_any (r : Tag) (hr : r.WF) (v : Nat) :
    (setYear r v).WF ∧ (setYear r v).fields = { r.fields with year := v % 100 } ∧
    (setYear r v).spare = r.spare := by
  obtain ⟨r0, r1, r2, r3, r4, r5, r6⟩ := r
  simp only [Tag.WF] at hr
  obtain ⟨h0, h1, h2, h3, h4, h5, h6⟩ := hr
  tag_setter
  omega

theorem setYear_spec (r : Tag) (hr : r.WF) (v : Nat) (hv : v < 100) :
    (setYear r v).WF ∧ (setYear r v).fields = { r.fields with year := v } ∧
    (setYear r v).spare = r.spare := by
  have h := setYear_any r hr v
  rw [Nat.mod_eq_of_lt hv] at h
  exact h

/-- non-vacuity: an all-ones record is well formed and satisfies the millisecond guard
for v ≤ 535 (its 16-bit field is 65535: 65 s 535 ms) -/
example : (⟨255, 255, 255, 255, 255, 255, 255⟩ : Tag).WF ∧
    ms16 ⟨255, 255, 255, 255, 255, 255, 255⟩ / 1000 * 1000 + 535 < 65536 := by decide

/-- CP16Time2a: elapsed time 0..65535 -/
theorem setElapsed_spec (r : Tag) (v : Nat) (hv : v < 65536) :
    getElapsed (setElapsed r v) = v ∧ (setElapsed r v).b0 < 256 ∧ (setElapsed r v).b1 < 256 := by
  simp only [getElapsed, setElapsed, u8]; omega

/-! ## millisecond timestamp ⇄ CP56Time2a -/

/-- the chain of setters `CP56Time2a_setFromMsTimestamp` performs on a zeroed record -/
def build (tm : Tm) (ms : Nat) : Tag :=
  setYear (setMonth (setDayOfWeek (setDayOfMonth (setHour (setMinute (setSecond
    (setMillisecond Tag.zero ms) tm.sec) tm.min) tm.hour) tm.mday) 0) (tm.mon + 1)) tm.year

theorem fromMs_eq_build (t : Nat) : cp56FromMs t = build (gmtime (t / 1000)) (t % 1000) := rfl

theorem zero_wf : Tag.zero.WF := by decide
theorem zero_fields : Tag.zero.fields = ⟨0, 0, 0, false, false, 0, false, 0, 0, 0, 0⟩ := by decide

theorem build_fields (tm : Tm) (ms : Nat) (hms : ms < 1000) (hs : tm.sec < 60) (hmi : tm.min < 60)
    (hh : tm.hour < 24) (hd : tm.mday < 32) (hmo : tm.mon + 1 < 16) :
    (build tm ms).WF ∧ (build tm ms).fields =
      ⟨ms, tm.sec, tm.min, false, false, tm.hour, false, 0, tm.mday, tm.mon + 1, tm.year % 100⟩ := by
  have s1 := setMillisecond_spec Tag.zero zero_wf ms hms (by simp [ms16, Tag.zero]; omega)
  have s2 := setSecond_spec _ s1.1 tm.sec hs
  have s3 := setMinute_spec _ s2.1 tm.min hmi
  have s4 := setHour_spec _ s3.1 tm.hour hh
  have s5 := setDayOfMonth_spec _ s4.1 tm.mday hd
  have s6 := setDayOfWeek_spec _ s5.1 0 (by omega)
  have s7 := setMonth_spec _ s6.1 (tm.mon + 1) hmo
  have s8 := setYear_any _ s7.1 tm.year
  unfold build
  refine ⟨s8.1, ?_⟩
  rw [s8.2.1, s7.2.1, s6.2.1, s5.2.1, s4.2.1, s3.2.1, s2.2.1, s1.2.1, zero_fields]

/-- `CP56Time2a_toMsTimestamp` reads the record only through the getters -/
def toMsF (f : Fields) : Int :=
  ((((mkDays ((f.year : Int) + 100) ((f.month : Int) - 1) (f.dom : Int)) * 24 + (f.hour : Int)) * 60
      + (f.min : Int)) * 60 + (f.sec : Int)) * 1000 + (f.ms : Int)

theorem toMsInt_fields (r : Tag) : cp56ToMsInt r = toMsF r.fields := rfl

theorem ms_roundtrip_int (t : Nat) (h1 : 946684800000 ≤ t) (h2 : t < 4102444800000) :
    cp56ToMsInt (cp56FromMs t) = (t : Int) := by
  have hd1 : 10957 ≤ t / 1000 / 86400 := by omega
  have hd2 : t / 1000 / 86400 < 47482 := by omega
  have hc := civil_spec (t / 1000 / 86400) hd1 hd2
  rw [toMsInt_fields, fromMs_eq_build]
  generalize hcv : civilFromDays (t / 1000 / 86400) = c at hc
  obtain ⟨y, m, dd⟩ := c
  simp only at hc
  obtain ⟨c1, c2, c3, c4, c5, c6, c7⟩ := hc
  have hg : gmtime (t / 1000) = ⟨t / 1000 % 86400 % 60, t / 1000 % 86400 / 60 % 60,
      t / 1000 % 86400 / 3600, dd, m - 1, y - 1900⟩ := by
    simp only [gmtime, hcv]
  rw [hg, (build_fields _ _ (by omega) (by simp only; omega) (by simp only; omega)
    (by simp only; omega) (by simp only; omega) (by simp only; omega)).2]
  simp only [toMsF]
  have e1 : (((y - 1900) % 100 : Nat) : Int) + 100 = ((y - 1900 : Nat) : Int) := by omega
  have e2 : ((m - 1 + 1 : Nat) : Int) - 1 = ((m - 1 : Nat) : Int) := by omega
  rw [e1, e2, c7]
  omega

/-- **C19, first sentence.** `CP56Time2a_toMsTimestamp (CP56Time2a_createFromMsTimestamp t) = t`
for every millisecond from 2000-01-01T00:00:00.000Z (946 684 800 000) up to and
including 2099-12-31T23:59:59.999Z — every one of the 3 155 760 000 000 instants,
not a sample: the 36 525 days are discharged by kernel evaluation, hour / minute /
second / millisecond symbolically. The `uint64_t` conversion is included. -/
theorem ms_roundtrip (t : Nat) (h1 : 946684800000 ≤ t) (h2 : t < 4102444800000) :
    cp56ToMs (cp56FromMs t) = t := by
  unfold cp56ToMs
  rw [ms_roundtrip_int t h1 h2]
  have : (t : Int) % (2 ^ 64 : Int) = (t : Int) := by
    apply Int.emod_eq_of_lt <;> omega
  rw [this]; exact Int.toNat_natCast t

/-- the produced record is well formed and carries day-of-week 0, no flags -/
theorem fromMs_wf (t : Nat) (h1 : 946684800000 ≤ t) (h2 : t < 4102444800000) :
    (cp56FromMs t).WF ∧ getDayOfWeek (cp56FromMs t) = 0 ∧ isInvalid (cp56FromMs t) = false ∧
    isSummerTime (cp56FromMs t) = false ∧ isSubstituted (cp56FromMs t) = false := by
  have hd1 : 10957 ≤ t / 1000 / 86400 := by omega
  have hd2 : t / 1000 / 86400 < 47482 := by omega
  have hc := civil_spec (t / 1000 / 86400) hd1 hd2
  rw [fromMs_eq_build]
  generalize hcv : civilFromDays (t / 1000 / 86400) = c at hc
  obtain ⟨y, m, dd⟩ := c
  simp only at hc
  obtain ⟨c1, c2, c3, c4, c5, c6, c7⟩ := hc
  have hg : gmtime (t / 1000) = ⟨t / 1000 % 86400 % 60, t / 1000 % 86400 / 60 % 60,
      t / 1000 % 86400 / 3600, dd, m - 1, y - 1900⟩ := by
    simp only [gmtime, hcv]
  rw [hg]
  have hb := build_fields ⟨t / 1000 % 86400 % 60, t / 1000 % 86400 / 60 % 60,
      t / 1000 % 86400 / 3600, dd, m - 1, y - 1900⟩ (t % 1000) (by omega) (by simp only; omega)
      (by simp only; omega) (by simp only; omega) (by simp only; omega) (by simp only; omega)
  refine ⟨hb.1, ?_⟩
  have hf := hb.2
  simp only [Tag.fields, Fields.mk.injEq] at hf
  obtain ⟨_, _, _, f4, f5, _, f7, f8, _⟩ := hf
  exact ⟨f8, f4, f7, f5⟩

/-- non-vacuity and a spot value: 2024-02-29T12:34:56.789Z -/
example : cp56FromMs 1709210096789 = ⟨0xd5, 0xdd, 34, 12, 29, 2, 24⟩ ∧
    cp56ToMs ⟨0xd5, 0xdd, 34, 12, 29, 2, 24⟩ = 1709210096789 := by decide

end TimeTags

/-! ## binary counter reading, single event, status-and-change, scaled values -/
section Records
open Iec.Bcr Iec.Scaled

theorem i32_roundtrip (v : Int) (h1 : -2147483648 ≤ v) (h2 : v ≤ 2147483647) :
    i32OfBytes (i32Bytes v).1 (i32Bytes v).2.1 (i32Bytes v).2.2.1 (i32Bytes v).2.2.2 = v ∧
    (i32Bytes v).1 < 256 ∧ (i32Bytes v).2.1 < 256 ∧ (i32Bytes v).2.2.1 < 256 ∧ (i32Bytes v).2.2.2 < 256 := by
  simp only [i32Bytes]
  generalize hu : (v % 4294967296).toNat = u
  have hu' : (u : Int) = v % 4294967296 := by omega
  have hul : u < 4294967296 := by omega
  refine ⟨?_, by omega, by omega, by omega, by omega⟩
  have e : u % 256 + u / 256 % 256 * 256 + u / 65536 % 256 * 65536 + u / 16777216 % 256 * 16777216 = u := by omega
  simp only [i32OfBytes, e]
  split <;> omega

theorem bcr_setValue (r : Bcr) (v : Int) (h1 : -2147483648 ≤ v) (h2 : v ≤ 2147483647) :
    getValue (setValue r v) = v ∧ (setValue r v).b4 = r.b4 ∧
    (setValue r v).b0 < 256 ∧ (setValue r v).b1 < 256 ∧ (setValue r v).b2 < 256 ∧ (setValue r v).b3 < 256 := by
  have h := i32_roundtrip v h1 h2
  simp only [getValue, setValue]
  exact ⟨h.1, trivial, h.2⟩

theorem bcr_setSeq (r : Bcr) (hr : r.WF) (v : Nat) (hv : v < 32) :
    getSequenceNumber (setSequenceNumber r v) = v ∧
    hasCarry (setSequenceNumber r v) = hasCarry r ∧ isAdjusted (setSequenceNumber r v) = isAdjusted r ∧
    isInvalid (setSequenceNumber r v) = isInvalid r ∧ getValue (setSequenceNumber r v) = getValue r ∧
    (setSequenceNumber r v).WF := by
  obtain ⟨r0, r1, r2, r3, r4⟩ := r
  simp only [Bcr.WF] at hr
  obtain ⟨h0, h1, h2, h3, h4⟩ := hr
  simp (disch := omega) only [getSequenceNumber, setSequenceNumber, hasCarry, isAdjusted, isInvalid, getValue,
    Bcr.WF, Iec.Bcr.u8, and_31, and_e0, or_32, and_20, and_40, and_80, Iec.TimeTag.beq_eq_beq_iff, true_and, and_true]
  omega

theorem bcr_flag (r : Bcr) (hr : r.WF) (v : Bool) :
    (hasCarry (setCarry r v) = v ∧ isAdjusted (setCarry r v) = isAdjusted r ∧
      isInvalid (setCarry r v) = isInvalid r ∧ getSequenceNumber (setCarry r v) = getSequenceNumber r ∧
      getValue (setCarry r v) = getValue r ∧ (setCarry r v).WF) := by
  obtain ⟨r0, r1, r2, r3, r4⟩ := r
  simp only [Bcr.WF] at hr
  obtain ⟨h0, h1, h2, h3, h4⟩ := hr
  cases v <;>
  simp (disch := omega) only [getSequenceNumber, setCarry, hasCarry, isAdjusted, isInvalid, getValue,
    Bcr.WF, Iec.Bcr.u8, and_31, and_e0, or_32, and_20, and_40, and_80, and_df, or_20, Bool.false_eq_true, if_false, if_true,
    Iec.TimeTag.beq_eq_beq_iff, true_and, beq_iff_eq, beq_eq_false_iff_ne, ne_eq] <;> omega

theorem se_state (b : Nat) (hb : b < 256) (es : Nat) (he : es < 4) :
    seGetEventState (seSetEventState b es) = es ∧ seGetQDP (seSetEventState b es) = seGetQDP b ∧
    seSetEventState b es < 256 := by
  simp (disch := omega) only [seGetEventState, seSetEventState, seGetQDP, Iec.Bcr.u8, and_3, and_fc]
  omega

theorem se_qdp (b : Nat) (hb : b < 256) (q : Nat) (hq : q < 256) (hq4 : q % 4 = 0) :
    seGetQDP (seSetQDP b q) = q ∧ seGetEventState (seSetQDP b q) = seGetEventState b ∧
    seSetQDP b q < 256 := by
  simp (disch := omega) only [seGetEventState, seSetQDP, seGetQDP, Iec.Bcr.u8, and_3, and_fc]
  omega

theorem scd_set (r : Scd) (v : Nat) (hv : v < 65536) :
    scdGetSTn (scdSetSTn r v) = v ∧ scdGetCDn (scdSetSTn r v) = scdGetCDn r := by
  obtain ⟨r0, r1, r2, r3⟩ := r
  simp only [scdGetSTn, scdSetSTn, scdGetCDn, Iec.Bcr.u8, and_true]; omega

theorem scaled_rt (x : Int) (h1 : -32768 ≤ x) (h2 : x ≤ 32767) :
    getScaled (setScaled x).1 (setScaled x).2 = x ∧ (setScaled x).1 < 256 ∧ (setScaled x).2 < 256 := by
  simp only [setScaled, getScaled]
  by_cases hx : x < 0
  · simp only [hx, if_true]
    rw [Int.tmod_eq_emod_of_nonneg (by omega), Int.tdiv_eq_ediv_of_nonneg (by omega)]
    refine ⟨?_, by omega, by omega⟩
    split <;> omega
  · simp only [hx, if_false]
    rw [Int.tmod_eq_emod_of_nonneg (by omega), Int.tdiv_eq_ediv_of_nonneg (by omega)]
    refine ⟨?_, by omega, by omega⟩
    split <;> omega

theorem scaled_rt' (b0 b1 : Nat) (h0 : b0 < 256) (h1 : b1 < 256) :
    setScaled (getScaled b0 b1) = (b0, b1) ∧ -32768 ≤ getScaled b0 b1 ∧ getScaled b0 b1 ≤ 32767 := by
  simp only [setScaled, getScaled]
  by_cases hx : (b0 : Int) + (b1 : Int) * 256 > 32767
  · simp only [hx, if_true]
    have : (b0 : Int) + (b1 : Int) * 256 - 65536 < 0 := by omega
    simp only [this, if_true]
    rw [Int.tmod_eq_emod_of_nonneg (by omega), Int.tdiv_eq_ediv_of_nonneg (by omega)]
    refine ⟨?_, by omega, by omega⟩
    simp only [Prod.mk.injEq]; omega
  · simp only [hx, if_false]
    have : ¬ ((b0 : Int) + (b1 : Int) * 256 < 0) := by omega
    simp only [this, if_false]
    rw [Int.tmod_eq_emod_of_nonneg (by omega), Int.tdiv_eq_ediv_of_nonneg (by omega)]
    refine ⟨?_, by omega, by omega⟩
    simp only [Prod.mk.injEq]; omega

theorem sat_hi (n : Nat) (h : n > maxN) : toScaledFin false n = 32767 := by
  have e : toScaledFin false n = toScaledFin false maxN := by
    simp only [toScaledFin, Bool.not_false, Bool.true_and, h, decide_true, if_true, Bool.false_and]
    simp
  rw [e]; decide +kernel
theorem sat_lo (n : Nat) (h : n > oneN) : toScaledFin true n = -32768 := by
  have e : toScaledFin true n = toScaledFin true oneN := by
    simp only [toScaledFin, Bool.not_true, Bool.false_and, Bool.true_and, h, decide_true, if_true]
    simp
  rw [e]; decide +kernel

/-- the two sibling flag setters obey the same law (same proof) -/
theorem bcr_adjusted (r : Bcr) (hr : r.WF) (v : Bool) :
    (isAdjusted (setAdjusted r v) = v ∧ hasCarry (setAdjusted r v) = hasCarry r ∧
      isInvalid (setAdjusted r v) = isInvalid r ∧
      getSequenceNumber (setAdjusted r v) = getSequenceNumber r ∧
      getValue (setAdjusted r v) = getValue r ∧ (setAdjusted r v).WF) := by
  obtain ⟨r0, r1, r2, r3, r4⟩ := r
  simp only [Bcr.WF] at hr
  obtain ⟨h0, h1, h2, h3, h4⟩ := hr
  cases v <;>
  simp (disch := omega) only [getSequenceNumber, setAdjusted, hasCarry, isAdjusted, isInvalid,
    getValue, Bcr.WF, Iec.Bcr.u8, and_31, and_20, and_40, and_80, and_bf, or_40,
    Bool.false_eq_true, if_false, if_true, Iec.TimeTag.beq_eq_beq_iff, true_and, beq_iff_eq,
    beq_eq_false_iff_ne, ne_eq] <;> omega

theorem bcr_invalid (r : Bcr) (hr : r.WF) (v : Bool) :
    (isInvalid (Iec.Bcr.setInvalid r v) = v ∧ hasCarry (Iec.Bcr.setInvalid r v) = hasCarry r ∧
      isAdjusted (Iec.Bcr.setInvalid r v) = isAdjusted r ∧
      getSequenceNumber (Iec.Bcr.setInvalid r v) = getSequenceNumber r ∧
      getValue (Iec.Bcr.setInvalid r v) = getValue r ∧ (Iec.Bcr.setInvalid r v).WF) := by
  obtain ⟨r0, r1, r2, r3, r4⟩ := r
  simp only [Bcr.WF] at hr
  obtain ⟨h0, h1, h2, h3, h4⟩ := hr
  cases v <;>
  simp (disch := omega) only [getSequenceNumber, Iec.Bcr.setInvalid, hasCarry, isAdjusted,
    Iec.Bcr.isInvalid, getValue, Bcr.WF, Iec.Bcr.u8, and_31, and_20, and_40, and_80, and_127, or_80,
    Bool.false_eq_true, if_false, if_true, Iec.TimeTag.beq_eq_beq_iff, true_and, beq_iff_eq,
    beq_eq_false_iff_ne, ne_eq] <;> omega

/-- **C19, last sentence (a).** every 16-bit raw value round-trips exactly through
`NormalizedValue_fromScaled` / `NormalizedValue_toScaled` (dyadic binary32 model) -/
theorem normalized_roundtrip (x : Int) (h1 : -32768 ≤ x) (h2 : x ≤ 32767) :
    toScaled (fromScaledBits x) = some x := Iec.Norm.norm_roundtrip x h1 h2

/-- **C19, last sentence (b).** out-of-range inputs saturate at the ends of the range,
including ±infinity -/
theorem saturates :
    (∀ n, n > maxN → toScaledFin false n = 32767) ∧ (∀ n, n > oneN → toScaledFin true n = -32768) ∧
    toScaled 0x7f800000 = some 32767 ∧ toScaled 0xff800000 = some (-32768) ∧
    (∀ x : Int, x > 32767 → fromScaledBits x = fromScaledBits 32767) ∧
    (∀ x : Int, x < -32768 → fromScaledBits x = fromScaledBits (-32768)) := by
  refine ⟨sat_hi, sat_lo, by decide +kernel, by decide +kernel, ?_, ?_⟩
  · intro x hx
    have h2 : ¬ ((32767 : Int) > 32767) := by omega
    simp only [fromScaledBits, hx, if_true, h2, if_false]
    rfl
  · intro x hx
    have h1 : ¬ (x > 32767) := by omega
    have h2 : ¬ ((-32768 : Int) > 32767) := by omega
    have h3 : ¬ ((-32768 : Int) < -32768) := by omega
    simp only [fromScaledBits, h1, hx, if_true, h2, h3, if_false]

end Records

end Iec.Props.C19
