import Iec.Lemmas.Asdu
import Iec.Props.C01
/-
C12 — Building ASDUs never exceeds configured size or storage, and fails cleanly.

Statement (properties.jsonl): adding information objects of any type never produces an
ASDU longer than the configured maximum; no construction operation (adding, raw payload,
cloning, header setters) writes outside the 256-octet storage; the element count never
exceeds 127; a refused addition leaves the ASDU unchanged; an accepted addition appends
exactly that object's encoding.

Theorems are over arbitrary operation lists (`run_inv`, by induction) from any state
satisfying the storage invariant, for every type of the table, arbitrary stored values
(well-formed or not), every legal size configuration and every maximum ≤ 256.
The per-type space guard of the model (`guardSize` = octets emitted + `guardExtra`) is what
the correspondence run compares with the C encoders by adding objects until refusal for
every type, configuration and maximum.
-/
namespace Iec.Props.C12
open Iec.Layout Iec.Asdu

/-- **a refused addition leaves the ASDU unchanged** -/
theorem refused_unchanged (a : Asdu) (e : TypeEntry) (ioa : Nat) (vals : List Nat) (a' : Asdu)
    (h : a.add e ioa vals = (a', false)) : a' = a := add_refused a e ioa vals a' h

/-- **an accepted addition appends exactly the object's encoding, stays within the
configured maximum, and counts one more element (never more than 127)** -/
theorem accepted_appends (a : Asdu) (hi : Inv a) (hm : a.p.maxSize ≤ 256) (e : TypeEntry) (ioa : Nat)
    (vals : List Nat) (a' : Asdu) (h : a.add e ioa vals = (a', true)) :
    ∃ fb, encodeFields e.fields vals = some fb ∧
      a'.payload = a.payload ++ ((if a.nextSeq then [] else leBytes a.p.sizeOfIOA ioa) ++ fb) ∧
      a'.bytes.length ≤ a.p.maxSize ∧ a'.count = a.count + 1 ∧ a'.count ≤ 127 ∧ a'.p = a.p ∧ Inv a' :=
  add_accepted a hi hm e ioa vals a' h

/-- construction operations of the public API -/
inductive Op where
  | add (tid ioa : Nat) (vals : List Nat)
  | pay (buf : List Nat)
  | setType (v : Nat) | setSeq (b : Bool) | setCount (n : Nat) | setCot (v : Nat)
  | setTest (b : Bool) | setNeg (b : Bool) | setCa (v : Nat) | clear | clone

def step (a : Asdu) : Op → Asdu
  | .add tid ioa vals => match lookup tid with
      | some e => (a.add e ioa vals).1
      | none => a
  | .pay buf => (a.addPayload buf).1
  | .setType v => a.setTypeId v
  | .setSeq b => a.setSequence b
  | .setCount n => a.setCount n
  | .setCot v => a.setCot v
  | .setTest b => a.setTest b
  | .setNeg b => a.setNegative b
  | .setCa v => a.setCa v
  | .clear => a.removeAll
  | .clone => a.clone

def Op.ok : Op → Prop
  | .pay buf => ∀ b ∈ buf, b < 256
  | _ => True

theorem octet_ops1 : ∀ b, b < 256 →
    (b ||| 0x80) < 256 ∧ (b &&& 0x7f) < 256 ∧ (b ||| 0x40) < 256 ∧ (b &&& 0xbf) < 256 ∧ (b &&& 0x80) < 256 := by
  decide +kernel

theorem octet_ops (b : Nat) (hb : b < 256) (v : Nat) (_hv : v < 256) :
    (b ||| 0x80) < 256 ∧ (b &&& 0x7f) < 256 ∧ ((b &&& 0x80) ||| (v &&& 0x7f)) < 256 ∧
    (b ||| 0x40) < 256 ∧ (b &&& 0xbf) < 256 ∧ (b &&& 0x80) < 256 := by
  obtain ⟨h1, h2, h3, h4, h5⟩ := octet_ops1 b hb
  refine ⟨h1, h2, ?_, h3, h4, h5⟩
  have a1 : (b &&& 0x80) < 2 ^ 8 := h5
  have a2 : (v &&& 0x7f) < 2 ^ 8 := Nat.lt_of_le_of_lt Nat.and_le_right (by omega)
  exact Nat.or_lt_two_pow a1 a2

theorem inv_set (a : Asdu) (hi : Inv a) (i v : Nat) (hv : v < 256) :
    Inv { a with bytes := setByte a.bytes i v } :=
  ⟨hi.legal, by simp [setByte]; exact hi.len, by simp [setByte]; exact hi.fits,
    mem_set_lt _ _ _ hv hi.oct⟩

theorem inv_create (p : Params) (hp : p.Legal) (sq : Bool) (cot oa ca : Nat) (t n : Bool) :
    Inv (create p sq cot oa ca t n) := by
  have hb := Iec.Props.C01.built_create p hp ⟨0, "", .seq, [], 0⟩ sq cot oa ca t n
  have hh := Iec.Props.C01.create_header p hp sq cot oa ca t n
  simp only at hh
  refine ⟨hp, hb.len, ?_, hb.oct⟩
  rw [hh.2.2.2.2.2.2.2.2]
  obtain ⟨h1, h2, _⟩ := hp; unfold Params.hdrLen; omega

theorem inv_addPayload (a : Asdu) (hi : Inv a) (buf : List Nat) (hb : ∀ b ∈ buf, b < 256) :
    Inv (a.addPayload buf).1 := by
  unfold Asdu.addPayload
  split
  · rename_i h
    refine ⟨hi.legal, by simp; have := hi.len; omega, ?_, ?_⟩
    · simp only [List.length_append]
      unfold Asdu.payloadSize at h; have := hi.len; omega
    · intro b hbm
      rcases List.mem_append.mp hbm with hbm | hbm
      · exact hi.oct b hbm
      · exact hb b hbm
  · exact hi

theorem inv_step (a : Asdu) (hi : Inv a) (hm : a.p.maxSize ≤ 256) (op : Op) (hok : op.ok) :
    Inv (step a op) ∧ (step a op).p = a.p := by
  have hb : ∀ i, a.byte i < 256 := fun i => byte_lt a i hi.oct
  cases op with
  | add tid ioa vals =>
    simp only [step]
    cases hl : lookup tid with
    | none => exact ⟨hi, rfl⟩
    | some e =>
      simp only
      cases hr : a.add e ioa vals with
      | mk a' r =>
        cases r with
        | false => rw [add_refused a e ioa vals a' hr]; exact ⟨hi, rfl⟩
        | true =>
          obtain ⟨_, _, _, _, _, _, hp, hinv⟩ := add_accepted a hi hm e ioa vals a' hr
          exact ⟨hinv, hp⟩
  | pay buf =>
    refine ⟨inv_addPayload a hi buf hok, ?_⟩
    show ((a.addPayload buf).1).p = a.p
    unfold Asdu.addPayload; split <;> rfl
  | setType v => exact ⟨inv_set a hi 0 _ (Nat.mod_lt _ (by omega)), rfl⟩
  | setSeq b =>
    refine ⟨?_, rfl⟩
    simp only [step, Asdu.setSequence]
    have := octet_ops (a.byte 1) (hb 1) 0 (by omega)
    cases b
    · exact inv_set a hi 1 _ this.2.1
    · exact inv_set a hi 1 _ this.1
  | setCount n =>
    exact ⟨inv_set a hi 1 _ (octet_ops (a.byte 1) (hb 1) (n % 256) (Nat.mod_lt _ (by omega))).2.2.1, rfl⟩
  | setCot v => exact ⟨inv_set a hi 2 _ (Nat.mod_lt _ (by omega)), rfl⟩
  | setTest b =>
    refine ⟨?_, rfl⟩
    simp only [step, Asdu.setTest]
    have := octet_ops (a.byte 2) (hb 2) 0 (by omega)
    cases b
    · exact inv_set a hi 2 _ this.2.1
    · exact inv_set a hi 2 _ this.1
  | setNeg b =>
    refine ⟨?_, rfl⟩
    simp only [step, Asdu.setNegative]
    have := octet_ops (a.byte 2) (hb 2) 0 (by omega)
    cases b
    · exact inv_set a hi 2 _ this.2.2.2.2.1
    · exact inv_set a hi 2 _ this.2.2.2.1
  | setCa v =>
    simp only [step, Asdu.setCa]
    split
    · exact ⟨inv_set a hi _ _ (Nat.mod_lt _ (by omega)), rfl⟩
    · refine ⟨?_, rfl⟩
      have h1 := inv_set a hi (2 + a.p.sizeOfCOT) ((if v > 65535 then 65535 else v) % 0x100) (Nat.mod_lt _ (by omega))
      exact inv_set _ h1 (2 + a.p.sizeOfCOT + 1) _ (Nat.mod_lt _ (by omega))
  | clear =>
    refine ⟨?_, rfl⟩
    simp only [step, Asdu.removeAll]
    have h1 := inv_set a hi 1 _ (octet_ops (a.byte 1) (hb 1) 0 (by omega)).2.2.2.2.2
    refine ⟨hi.legal, ?_, ?_, ?_⟩
    · simp only [List.length_take, setByte, List.length_set]; have := hi.len; omega
    · simp only [List.length_take, setByte, List.length_set]; have := hi.fits; omega
    · intro b hbm; exact h1.oct b (List.mem_of_mem_take hbm)
  | clone =>
    simp only [step, Asdu.clone]
    have h0 := inv_create a.p hi.legal a.isSequence a.cot (if a.p.sizeOfCOT < 2 then 255 else a.byte 3) a.ca
      a.isTest a.isNegative
    have h1 := inv_set _ h0 0 (a.typeId % 256) (Nat.mod_lt _ (by omega))
    have hb1 : ∀ i, (create a.p a.isSequence a.cot (if a.p.sizeOfCOT < 2 then 255 else a.byte 3) a.ca
      a.isTest a.isNegative).setTypeId a.typeId |>.byte i |> (· < 256) := fun i => byte_lt _ i h1.oct
    have h2 := inv_set _ h1 1 _ (octet_ops _ (hb1 1) (a.count % 256) (Nat.mod_lt _ (by omega))).2.2.1
    have hpay : ∀ b ∈ a.payload, b < 256 := fun b hbm => hi.oct b (List.mem_of_mem_drop hbm)
    refine ⟨inv_addPayload _ h2 a.payload hpay, ?_⟩
    have hc : ∀ c : Asdu, c.p = a.p → (c.addPayload a.payload).1.p = a.p := by
      intro c h; unfold Asdu.addPayload; split <;> exact h
    exact hc _ rfl

/-- **C12 invariant for every operation list**: from any state satisfying the storage
invariant, whatever construction operations follow, the ASDU stays within its 256-octet
storage, keeps a complete header, and all octets stay octets. -/
theorem run_inv (a : Asdu) (hi : Inv a) (hm : a.p.maxSize ≤ 256) (ops : List Op) (hok : ∀ op ∈ ops, op.ok) :
    Inv (ops.foldl step a) ∧ (ops.foldl step a).p = a.p := by
  induction ops generalizing a with
  | nil => exact ⟨hi, rfl⟩
  | cons op ops ih =>
    obtain ⟨h1, hp⟩ := inv_step a hi hm op (hok op (by simp))
    have := ih (step a op) h1 (by rw [hp]; exact hm) (fun o ho => hok o (by simp [ho]))
    exact ⟨this.1, by rw [List.foldl_cons, this.2, hp]⟩

/-- non-vacuity: a fresh ASDU under the default sizes satisfies the invariant, and a
FileSegment that does not fit is refused while one that fits is accepted -/
example : let p : Params := ⟨2, 2, 3, 30⟩
    let a := create p false 13 0 1 false false
    let e := (lookup 125).get!
    (a.add e 5 [1, 2, 16, 0]).2 = true ∧ (a.add e 5 [1, 2, 18, 0]).2 = false ∧
    ((a.add e 5 [1, 2, 16, 0]).1.bytes.length = 29) := by decide

end Iec.Props.C12
