import Iec.Lemmas.Srv104
import Iec.Model.Cli104
import Iec.Lemmas.Srv104Unconf
import Iec.Lemmas.Cli104Unconf
import Iec.Lemmas.Srv104Deadlines
import Iec.Lemmas.Cli104Deadlines
/-
C11 — CS104 acknowledgement duty (w, t2) and supervision timers (t1, t3).

Statement (properties.jsonl): a station acknowledges received I-format APDUs no later than
after w of them or t2 seconds after the first unacknowledged one, and before closing /
stopping on its own initiative; it closes the connection when an I-format APDU or TESTFR
act it sent stays unacknowledged for t1 seconds, and not before; after t3 seconds without
receiving anything it sends TESTFR act; the configured k, w, t1, t2, t3 are the ones used.

Theorems on the server model, per processing step and on a virtual clock (`s.now`, ms):
`ack_after_w`/`ack_at_w` (w), `t2_ack`/`t2_not_before` (t2), `t1_close_iff` (t1: exactly when,
and not before) with `t1_empty`, `t3_testfr` (t3).  All timer values are read from the
configuration record `s.p` (the correspondence run varies k, w, t1, t2, t3).  Lateness is
bounded by the tick period: the code looks at the clock only in `handleTimeouts`.
Client role (`section Client`): the same duties on the client model, which the cli104 differential ties to
cs104_connection.c: `client_ack_after_w`, `client_t2_ack`/`client_t2_not_before`, `client_close_iff` (t1 for I-frames
and TESTFR/STARTDT/STOPDT act: exactly when), `client_t3_testfr`, `client_ack_before_stopdt`,
`client_ack_before_close`.
Over every history: `fewer_than_w_unacknowledged` (server, `Lemmas/Srv104Unconf.lean`) and
`client_fewer_than_w_unacknowledged` (`Lemmas/Cli104Unconf.lean`); after every tick: `deadlines_met_after_every_tick`
(`Lemmas/Srv104Deadlines.lean`).
-/
namespace Iec.Props.C11
open Iec.Srv104 Iec.KWindow

theorem sendS_conn (s : Slave) (i : Nat) (hi : i < s.conns.length) :
    ((sendS s i).conn i).unconf = (s.conn i).unconf ∧ (sendS s i).conns.length = s.conns.length := by
  unfold sendS write
  simp only
  split
  · simp only [if_false, Bool.false_eq_true]
    refine ⟨?_, by simp [Slave.setConn]⟩
    rw [conn_setConn _ _ _ hi]
  · simp only [if_true]
    exact ⟨rfl, rfl⟩

/-- **w**: after the `w` test that follows every received message fewer than w I-frames are
unacknowledged (the configured w is the one used: `s.p.w`) -/
theorem ack_after_w (s : Slave) (i : Nat) (hi : i < s.conns.length) (hw : 0 < s.p.w) :
    ((ackIfW s i).conn i).unconf < s.p.w := by
  unfold ackIfW
  simp only
  split
  · have hl : i < (s.setConn i { s.conn i with lastConf := some s.now, unconf := 0, t2Triggered := false }).conns.length := by
      rw [setConn_len]; exact hi
    rw [(sendS_conn _ i hl).1, conn_setConn _ _ _ hi]
    exact hw
  · omega

/-- the S-frame of the `w` test is written whenever w I-frames are unacknowledged -/
theorem ack_at_w (s : Slave) (i : Nat) (hi : i < s.conns.length) (h : s.p.w ≤ (s.conn i).unconf)
    (h1 : (s.conn i).sock.writeFail = false) (h2 : (s.conn i).sock.peerClosed = false) :
    (ackIfW s i).log = s.log ++ [.tx i [0x68, 0x04, 0x01, 0, seqLo (s.conn i).vr, seqHi (s.conn i).vr]] := by
  unfold ackIfW
  simp only [ge_iff_le, h, if_true]
  unfold sendS write
  rw [conn_setConn _ _ _ hi]
  simp [h1, h2, emit, Slave.setConn]

/-- **t2**: at a tick with unacknowledged I-frames whose first one is t2 seconds old, an
S-frame carrying V(R) is written in that tick -/
theorem t2_ack (s : Slave) (i : Nat) (hi : i < s.conns.length) (l : Nat) (hu : 0 < (s.conn i).unconf)
    (hl : (s.conn i).lastConf = some l) (hlt : l < s.now) (hage : s.p.t2 * 1000 ≤ s.now - l)
    (h1 : (s.conn i).sock.writeFail = false) (h2 : (s.conn i).sock.peerClosed = false) :
    (phaseT2 s i).log = s.log ++ [.tx i [0x68, 0x04, 0x01, 0, seqLo (s.conn i).vr, seqHi (s.conn i).vr]] ∧
    ((phaseT2 s i).conn i).unconf = 0 := by
  unfold phaseT2
  simp only
  have hu' : (s.conn i).unconf > 0 := hu
  have hng : ¬ (l > s.now) := by omega
  rw [if_pos hu']
  simp only [hl, hng, if_false, setConn_p]
  have hc : (decide (s.now > l) && decide (s.now - l ≥ s.p.t2 * 1000)) = true := by simp; omega
  rw [if_pos hc]
  unfold sendS write
  simp only [setConn_p]
  rw [conn_setConn _ _ _ (by rw [setConn_len]; exact hi)]
  simp only [h1, h2, Bool.or_self, Bool.false_eq_true, if_false]
  refine ⟨by simp [emit, Slave.setConn], ?_⟩
  show ((emit _ _).conn i).unconf = 0
  show ((((s.setConn i (s.conn i)).setConn i _)).conn i).unconf = 0
  rw [conn_setConn _ _ _ (by rw [setConn_len]; exact hi)]

/-- … and not before: while the first unacknowledged I-frame is younger than t2 nothing is written -/
theorem t2_not_before (s : Slave) (i : Nat) (l : Nat) (hl : (s.conn i).lastConf = some l) (hlt : l ≤ s.now)
    (hage : s.now - l < s.p.t2 * 1000) : (phaseT2 s i).log = s.log := by
  unfold phaseT2
  simp only
  by_cases hu : (s.conn i).unconf > 0
  · have hng : ¬ (l > s.now) := by omega
    rw [if_pos hu]
    simp only [hl, hng, if_false, setConn_p]
    have hc : ¬ ((decide (s.now > l) && decide (s.now - l ≥ s.p.t2 * 1000)) = true) := by simp; omega
    rw [if_neg hc]
    rfl
  · rw [if_neg hu]

/-- **t1**: the connection is closed by the I-frame timeout exactly when the oldest
unacknowledged I-frame is t1 seconds old - and not before -/
theorem t1_close_iff (s : Slave) (i : Nat) (e : KEntry) (rest : List KEntry) (hw : (s.conn i).win = e :: rest)
    (hst : e.sentTime ≤ s.now) :
    (phaseT1 s i true).2 = false ↔ (e.sentTime < s.now ∧ s.p.t1 * 1000 ≤ s.now - e.sentTime) := by
  unfold phaseT1
  have hng : ¬ (e.sentTime > s.now) := by omega
  simp only [hw, hng, if_false, setConn_p]
  by_cases hc : (decide (s.now > e.sentTime) && decide (s.now - e.sentTime ≥ s.p.t1 * 1000)) = true
  · simp only [hc, if_true]
    simp only [Bool.and_eq_true, decide_eq_true_eq] at hc
    exact ⟨fun _ => ⟨hc.1, hc.2⟩, fun _ => trivial⟩
  · simp only [hc, if_false]
    simp only [Bool.and_eq_true, decide_eq_true_eq] at hc
    constructor
    · intro h; cases h
    · intro h; exact absurd ⟨h.1, h.2⟩ hc

/-- with nothing unacknowledged the I-frame timer never closes the connection -/
theorem t1_empty (s : Slave) (i : Nat) (hw : (s.conn i).win = []) (ok : Bool) : phaseT1 s i ok = (s, ok) := by
  unfold phaseT1; simp [hw]

/-- **t3**: a tick later than t3 seconds after the last reception writes TESTFR act -/
theorem t3_testfr (s : Slave) (i : Nat) (hi : i < s.conns.length) (hnw : (s.conn i).waitingTestFR = false)
    (hplaus : (s.conn i).nextT3 ≤ s.now + s.p.t3 * 1000) (hexp : (s.conn i).nextT3 < s.now)
    (h1 : (s.conn i).sock.writeFail = false) (h2 : (s.conn i).sock.peerClosed = false) :
    (phaseT3 s i).log = s.log ++ [.tx i TESTFR_ACT] ∧ ((phaseT3 s i).conn i).waitingTestFR = true ∧
    ((phaseT3 s i).conn i).nextTestFR = s.now + s.p.t1 * 1000 := by
  unfold phaseT3
  have hn : ¬ ((s.conn i).nextT3 > s.now + s.p.t3 * 1000) := by omega
  simp only [hnw, Bool.false_eq_true, if_false, hn]
  have hd : decide (s.now > (s.conn i).nextT3) = true := by simpa using hexp
  simp only [hd, if_true]
  unfold write
  rw [conn_setConn _ _ _ hi]
  simp only [h1, h2, Bool.or_self, Bool.false_eq_true, if_false, Bool.not_true]
  have hl2 : i < (emit (s.setConn i (s.conn i)) (Obs.tx i TESTFR_ACT)).conns.length := by
    show i < (s.setConn i (s.conn i)).conns.length; rw [setConn_len]; exact hi
  refine ⟨by simp [emit, Slave.setConn], ?_, ?_⟩
  · rw [conn_setConn _ _ _ hl2]
  · rw [conn_setConn _ _ _ hl2]; rfl

end Iec.Props.C11

/-! ### client role (cs104_connection.c) -/
namespace Iec.Props.C11
section Client
open Iec.Cli104 Iec.KWindow
open Iec.Srv104 (seqLo seqHi TESTFR_ACT)

/-- the client's socket accepts a write -/
def CliWritable (c : Cli) : Prop :=
  (c.phase = 2 ∨ c.phase = 3) ∧ c.sock.writeFail = false ∧ c.sock.peerClosed = false

theorem cli_write_ok (c : Cli) (b : List Nat) (h : CliWritable c) : Iec.Cli104.write c b = Iec.Cli104.emit c (.tx b) := by
  obtain ⟨h0, h1, h2⟩ := h
  unfold Iec.Cli104.write
  rcases h0 with h0 | h0 <;> simp [h0, h1, h2]

theorem cli_write_fields (c : Cli) (b : List Nat) :
    (Iec.Cli104.write c b).win = c.win ∧ (Iec.Cli104.write c b).unconf = c.unconf ∧ (Iec.Cli104.write c b).uTimeout = c.uTimeout ∧
    (Iec.Cli104.write c b).now = c.now ∧ (Iec.Cli104.write c b).p = c.p ∧ (Iec.Cli104.write c b).lastConf = c.lastConf ∧
    (Iec.Cli104.write c b).outstandingTestFR = c.outstandingTestFR ∧ (Iec.Cli104.write c b).nextT3 = c.nextT3 := by
  unfold Iec.Cli104.write Iec.Cli104.emit
  split
  · simp
  · split <;> simp

/-- what `confirmOutstandingMessages` does on a writable socket: one S-frame carrying V(R), nothing left unacknowledged -/
theorem client_confirm_spec (c : Cli) (h : CliWritable c) :
    (confirmOutstanding c).log = c.log ++ [.tx [0x68, 4, 1, 0, seqLo c.vr, seqHi c.vr]] ∧
    (confirmOutstanding c).unconf = 0 ∧ (confirmOutstanding c).t2Trigger = false := by
  unfold confirmOutstanding
  simp only
  rw [cli_write_ok _ _ (by exact h)]
  simp [Iec.Cli104.emit]

theorem confirm_fields (c : Cli) :
    (confirmOutstanding c).win = c.win ∧ (confirmOutstanding c).uTimeout = c.uTimeout ∧
    (confirmOutstanding c).now = c.now ∧ (confirmOutstanding c).p = c.p ∧ (confirmOutstanding c).unconf = 0 := by
  unfold confirmOutstanding
  simp only
  have := cli_write_fields { c with lastConf := some c.now, unconf := 0, t2Trigger := false } [0x68, 4, 1, 0, seqLo c.vr, seqHi c.vr]
  obtain ⟨a, b, d, e, f, _⟩ := this
  exact ⟨a, d, e, f, b⟩

/-- **w (client)**: after the `w` test that follows every received message fewer than w I-frames are unacknowledged -/
theorem client_ack_after_w (c : Cli) (hw : 0 < c.p.w) : (ackIfW c).unconf < (ackIfW c).p.w := by
  unfold ackIfW
  split
  · rw [(confirm_fields c).2.2.2.2, (confirm_fields c).2.2.2.1]; exact hw
  · rename_i h
    simp only [ge_iff_le, Bool.or_eq_true, decide_eq_true_eq, not_or] at h
    omega

/-- … and the S-frame is written whenever w I-frames are unacknowledged -/
theorem client_ack_at_w (c : Cli) (h : c.p.w ≤ c.unconf) (hs : CliWritable c) :
    (ackIfW c).log = c.log ++ [.tx [0x68, 4, 1, 0, seqLo c.vr, seqHi c.vr]] := by
  unfold ackIfW
  have : (decide (c.unconf ≥ c.p.w) || c.conState == 4) = true := by simp [h]
  rw [if_pos this]
  exact (client_confirm_spec c hs).1

/-- **before STOPDT act the client acknowledges**: `sendStopDT` writes the S-frame with V(R), then STOPDT act -/
theorem client_ack_before_stopdt (c : Cli) (hs : CliWritable c) :
    (sendStopDT c).log = c.log ++ [.tx [0x68, 4, 1, 0, seqLo c.vr, seqHi c.vr], .tx STOPDT_ACT] ∧
    (sendStopDT c).unconf = 0 := by
  unfold sendStopDT
  simp only
  have hs' : CliWritable { (confirmOutstanding c) with conState := 4 } := by
    unfold confirmOutstanding Iec.Cli104.write
    obtain ⟨h0, h1, h2⟩ := hs
    rcases h0 with h0 | h0 <;> simp [h0, h1, h2, Iec.Cli104.emit, CliWritable]
  rw [cli_write_ok _ _ hs']
  simp [Iec.Cli104.emit, (client_confirm_spec c hs).1, (client_confirm_spec c hs).2.1]

/-- **before the client closes on its own initiative it acknowledges**: the thread epilogue writes the S-frame
when anything is unacknowledged, and only then reports the closure -/
theorem client_ack_before_close (c : Cli) (ev : String) (hu : 0 < c.unconf) (hs : CliWritable c) :
    (finish c ev).log = c.log ++ [.tx [0x68, 4, 1, 0, seqLo c.vr, seqHi c.vr], .ev ev] := by
  unfold finish
  have hu' : c.unconf > 0 := hu
  simp [hu', Iec.Cli104.emit, (client_confirm_spec c hs).1]

theorem phaseT1_fst (c : Cli) : (Iec.Cli104.phaseT1 c).1 = c := by
  unfold Iec.Cli104.phaseT1
  split
  · rfl
  · split
    · rfl
    · split <;> rfl

theorem phaseT3_quiet (c : Cli) (h3 : c.now ≤ c.nextT3) : Iec.Cli104.phaseT3 c = (c, true) := by
  unfold Iec.Cli104.phaseT3
  have : ¬ (c.now > c.nextT3) := by omega
  simp [this]

theorem handleTimeouts_quiet (c : Cli) (h3 : c.now ≤ c.nextT3) :
    Iec.Cli104.handleTimeouts c = Iec.Cli104.phaseT1 (Iec.Cli104.phaseT2 c) := by
  unfold Iec.Cli104.handleTimeouts
  simp [phaseT3_quiet c h3]

theorem phaseT2_cases (c : Cli) : Iec.Cli104.phaseT2 c = c ∨ Iec.Cli104.phaseT2 c = confirmOutstanding c := by
  unfold Iec.Cli104.phaseT2
  split
  · split
    · split
      · exact Or.inr rfl
      · exact Or.inl rfl
    · exact Or.inl rfl
  · exact Or.inl rfl

theorem confirm_nextT3 (c : Cli) : (confirmOutstanding c).nextT3 = c.nextT3 := by
  unfold confirmOutstanding; simp only; rw [(cli_write_fields _ _).2.2.2.2.2.2.2]

theorem phaseT2_fields (c : Cli) :
    (Iec.Cli104.phaseT2 c).win = c.win ∧ (Iec.Cli104.phaseT2 c).uTimeout = c.uTimeout ∧
    (Iec.Cli104.phaseT2 c).now = c.now ∧ (Iec.Cli104.phaseT2 c).p = c.p ∧ (Iec.Cli104.phaseT2 c).nextT3 = c.nextT3 := by
  rcases phaseT2_cases c with h | h <;> rw [h]
  · exact ⟨rfl, rfl, rfl, rfl, rfl⟩
  · obtain ⟨a, b, d, e, _⟩ := confirm_fields c
    exact ⟨a, b, d, e, confirm_nextT3 c⟩

/-- **t2 (client)**: at a pass of the loop with unacknowledged I-frames whose first one is t2 seconds old (and no
TESTFR due), exactly one S-frame carrying V(R) is written -/
theorem client_t2_ack (c : Cli) (l : Nat) (hs : CliWritable c) (h3 : c.now ≤ c.nextT3) (hu : 0 < c.unconf)
    (hl : c.lastConf = some l) (hlt : l < c.now) (hage : c.p.t2 * 1000 ≤ c.now - l) :
    (Iec.Cli104.handleTimeouts c).1.log = c.log ++ [.tx [0x68, 4, 1, 0, seqLo c.vr, seqHi c.vr]] ∧
    (Iec.Cli104.handleTimeouts c).1.unconf = 0 := by
  rw [handleTimeouts_quiet c h3, phaseT1_fst]
  have hu' : c.unconf > 0 := hu
  have hc : (decide (c.now > l) && decide (c.now - l ≥ c.p.t2 * 1000)) = true := by simp; omega
  have : Iec.Cli104.phaseT2 c = confirmOutstanding c := by
    unfold Iec.Cli104.phaseT2; simp only [hu', if_true, hl, hc]
  rw [this]
  exact ⟨(client_confirm_spec c hs).1, (client_confirm_spec c hs).2.1⟩

/-- … and not before: nothing is written while the first unacknowledged I-frame is younger than t2 -/
theorem client_t2_not_before (c : Cli) (l : Nat) (h3 : c.now ≤ c.nextT3) (hl : c.lastConf = some l)
    (hlt : l ≤ c.now) (hage : c.now - l < c.p.t2 * 1000) : (Iec.Cli104.handleTimeouts c).1.log = c.log := by
  rw [handleTimeouts_quiet c h3, phaseT1_fst]
  have hc : ¬ ((decide (c.now > l) && decide (c.now - l ≥ c.p.t2 * 1000)) = true) := by simp; omega
  have : Iec.Cli104.phaseT2 c = c := by
    unfold Iec.Cli104.phaseT2; simp only [hl, hc, if_false]; split <;> rfl
  rw [this]

/-- **t3 (client)**: a pass later than t3 seconds after the last reception writes TESTFR act and arms the t1
supervision of its confirmation -/
theorem client_t3_testfr (c : Cli) (hs : CliWritable c) (hexp : c.nextT3 < c.now) (ho : c.outstandingTestFR ≤ 2) :
    (∃ rest, (Iec.Cli104.handleTimeouts c).1.log = c.log ++ .tx TESTFR_ACT :: rest) ∧
    (Iec.Cli104.handleTimeouts c).1.uTimeout = c.now + c.p.t1 * 1000 ∧
    (Iec.Cli104.handleTimeouts c).1.nextT3 = c.now + c.p.t3 * 1000 := by
  have hexp' : c.now > c.nextT3 := hexp
  have ho' : ¬ (c.outstandingTestFR > 2) := by omega
  obtain ⟨c1, h31, l1, u1, n1, w1⟩ : ∃ c1, Iec.Cli104.phaseT3 c = (c1, true) ∧ c1.log = c.log ++ [.tx TESTFR_ACT] ∧
      c1.uTimeout = c.now + c.p.t1 * 1000 ∧ c1.nextT3 = c.now + c.p.t3 * 1000 ∧ CliWritable c1 := by
    unfold Iec.Cli104.phaseT3
    simp only [hexp', if_true, ho', if_false]
    rw [cli_write_ok _ _ hs]
    exact ⟨_, rfl, rfl, rfl, rfl, hs⟩
  unfold Iec.Cli104.handleTimeouts
  simp only [h31, Bool.not_true, Bool.false_eq_true, if_false]
  rw [phaseT1_fst]
  obtain ⟨_, fu, _, _, fn⟩ := phaseT2_fields c1
  refine ⟨?_, by rw [fu, u1], by rw [fn, n1]⟩
  rcases phaseT2_cases c1 with h | h <;> rw [h]
  · exact ⟨[], by simp [l1]⟩
  · exact ⟨[.tx [0x68, 4, 1, 0, seqLo c1.vr, seqHi c1.vr]], by rw [(client_confirm_spec c1 w1).1, l1]; simp⟩

/-- **t1 (client): the connection is closed by a timeout exactly when** a TESTFR act was already sent three times
without confirmation when the next one is due, or a U-format act (TESTFR/STARTDT/STOPDT) sent earlier has been
unconfirmed for t1 seconds, or the oldest unacknowledged I-format APDU is t1 seconds old — and not before. -/
theorem client_close_iff (c : Cli) :
    (Iec.Cli104.handleTimeouts c).2 = false ↔
      (c.now > c.nextT3 ∧ c.outstandingTestFR > 2) ∨
      (¬ c.now > c.nextT3 ∧ c.uTimeout ≠ 0 ∧ c.now > c.uTimeout) ∨
      (¬ (c.now > c.nextT3 ∧ c.outstandingTestFR > 2) ∧
        ∃ e rest, c.win = e :: rest ∧ c.now > e.sentTime ∧ c.now - e.sentTime ≥ c.p.t1 * 1000) := by
  -- the T1 stage on any state with the same window, clock and t1
  have t1 : ∀ x : Cli, (Iec.Cli104.phaseT1 x).2 = false ↔
      ((x.uTimeout ≠ 0 ∧ x.now > x.uTimeout) ∨ ∃ e rest, x.win = e :: rest ∧ x.now > e.sentTime ∧ x.now - e.sentTime ≥ x.p.t1 * 1000) := by
    intro x
    unfold Iec.Cli104.phaseT1
    by_cases hu : (x.uTimeout != 0 && decide (x.now > x.uTimeout)) = true
    · rw [if_pos hu]
      simp only [Bool.and_eq_true, bne_iff_ne, ne_eq, decide_eq_true_eq] at hu
      exact ⟨fun _ => Or.inl hu, fun _ => rfl⟩
    · rw [if_neg hu]
      simp only [Bool.and_eq_true, bne_iff_ne, ne_eq, decide_eq_true_eq] at hu
      cases hw : x.win with
      | nil => simp [hu]
      | cons e rest =>
        simp only
        by_cases hc : (decide (x.now > e.sentTime) && decide (x.now - e.sentTime ≥ x.p.t1 * 1000)) = true
        · rw [if_pos hc]
          simp only [Bool.and_eq_true, decide_eq_true_eq] at hc
          exact ⟨fun _ => Or.inr ⟨e, rest, rfl, hc.1, hc.2⟩, fun _ => rfl⟩
        · rw [if_neg hc]
          simp only [Bool.and_eq_true, decide_eq_true_eq] at hc
          constructor
          · intro h; cases h
          · rintro (h | ⟨e', r', he, h1, h2⟩)
            · exact absurd h hu
            · cases he; exact absurd ⟨h1, h2⟩ hc
  unfold Iec.Cli104.handleTimeouts
  by_cases h3 : c.now > c.nextT3
  · by_cases ho : c.outstandingTestFR > 2
    · have : Iec.Cli104.phaseT3 c = (c, false) := by unfold Iec.Cli104.phaseT3; simp [h3, ho]
      simp [this, h3, ho]
    · -- TESTFR act sent now: its t1 supervision starts now and cannot have expired
      obtain ⟨c1, h31, u1, w1, n1, p1⟩ : ∃ c1, Iec.Cli104.phaseT3 c = (c1, true) ∧
          c1.uTimeout = c.now + c.p.t1 * 1000 ∧ c1.win = c.win ∧ c1.now = c.now ∧ c1.p = c.p := by
        unfold Iec.Cli104.phaseT3
        simp only [h3, if_true, ho, if_false]
        obtain ⟨a, _, _, d, e, _⟩ := cli_write_fields c TESTFR_ACT
        exact ⟨_, rfl, by simp [d, e], a, d, e⟩
      simp only [h31, Bool.not_true, Bool.false_eq_true, if_false]
      rw [t1]
      obtain ⟨fw, fu, fn, fp, _⟩ := phaseT2_fields c1
      rw [fw, fu, fn, fp, w1, u1, n1, p1]
      constructor
      · rintro (⟨_, h⟩ | h)
        · omega
        · exact Or.inr (Or.inr ⟨by simp [ho], h⟩)
      · rintro (⟨_, h⟩ | ⟨h, _⟩ | ⟨_, h⟩)
        · exact absurd h ho
        · exact absurd h3 h
        · exact Or.inr h
  · have hq : c.now ≤ c.nextT3 := by omega
    simp only [phaseT3_quiet c hq, Bool.not_true, Bool.false_eq_true, if_false]
    rw [t1]
    obtain ⟨fw, fu, fn, fp, _⟩ := phaseT2_fields c
    rw [fw, fu, fn, fp]
    constructor
    · rintro (h | h)
      · exact Or.inr (Or.inl ⟨h3, h⟩)
      · exact Or.inr (Or.inr ⟨by simp [h3], h⟩)
    · rintro (⟨h, _⟩ | ⟨_, h⟩ | ⟨_, h⟩)
      · exact absurd h h3
      · exact Or.inl h
      · exact Or.inr h

def exP : Params := { k := 12, w := 8, t0 := 10, t1 := 15, t2 := 10, t3 := 20, asduHdr := 4 }
def exC (now : Nat) : Cli := { p := exP, now := now, nextT3 := 30000, win := [{ seq := 0, sentTime := 5000, qref := none }] }
/-- non-vacuity: a client with one I-frame sent 15 s ago and t1 = 15 s closes; at 14.999 s it does not -/
example : (Iec.Cli104.handleTimeouts (exC 20000)).2 = false := by decide
example : (Iec.Cli104.handleTimeouts (exC 19999)).2 = true := by decide

end Client

end Iec.Props.C11

/-! ### every history -/
namespace Iec.Props.C11

/-- **acknowledged no later than after w, over every history (server).** From a freshly created server with w ≥ 1, after any
sequence of ticks (accept, reception of any messages in any segmentation, transmission, time-outs, reaping), enqueues,
restarts and environment events, every connection has fewer than w received I-format APDUs that it has not acknowledged:
the count grows only when an I-format APDU is accepted, by one, and the `w` test that follows every received message
acknowledges as soon as it reaches w. -/
theorem fewer_than_w_unacknowledged (p : Iec.Srv104.Params) (gs : List (String × List (Bool × List Nat))) (hw : 0 < p.w)
    (ops : List Iec.Srv104.WOp) (j : Nat) :
    ((ops.foldl Iec.Srv104.WOp.apply (Iec.Srv104.create p gs)).conn j).unconf < p.w := by
  obtain ⟨h, hp⟩ := Iec.Srv104.run_uok p gs hw ops
  have := h.2 j
  rwa [hp] at this

/-- **acknowledged no later than after w, over every history (client).** For a connection object created with w ≥ 1, after
any sequence of connect / thread steps / peer and clock events / sendASDU / STARTDT / STOPDT / close, fewer than w received
I-format APDUs are unacknowledged at every blocking point of the connection thread. -/
theorem client_fewer_than_w_unacknowledged (p : Iec.Cli104.Params) (hw : 0 < p.w) (ops : List Iec.Cli104.KOp) :
    (ops.foldl Iec.Cli104.KOp.apply { p := p }).unconf < p.w := by
  obtain ⟨h, hp⟩ := Iec.Cli104.run_cuok p hw ops
  have := h.2
  rwa [hp] at this

/-- **t1, t2, t3 are enforced at every tick, for every connection at once.** For EVERY server state with connections open:
after `CS104_Slave_tick` (accept, reception, periodic tasks of all connections in slot order) every connection that is in
use and still running
  * is not past its t3 deadline unless a TESTFR act is outstanding (it was sent in this tick at the latest),
  * has no TESTFR act outstanding for longer than t1,
  * has no I-format APDU unacknowledged by the peer for t1 or longer,
  * has not left received I-format APDUs unacknowledged for t2 or longer
(measured on the clock value of the tick; a connection that violates one of them has been marked for closing instead).
The processing of the connections that come later in the tick cannot disturb this: it touches no other connection's record
(`Lemmas/Srv104Isolated.lean`). -/
theorem deadlines_met_after_every_tick (s : Iec.Srv104.Slave) (hoc : (Iec.Srv104.accept s).openConnections > 0) (i : Nat)
    (hu : ((Iec.Srv104.tick s).conn i).isUsed = true) (hr : ((Iec.Srv104.tick s).conn i).isRunning = true) :
    Iec.Srv104.Deadlines (Iec.Srv104.tick s).p (Iec.Srv104.tick s).now ((Iec.Srv104.tick s).conn i) :=
  Iec.Srv104.hcc_deadlines (Iec.Srv104.accept s) hoc i hu hr

/-- **client: t1, t2, t3 are enforced in every pass of the connection loop.** For EVERY client state: if the thread stays in
its loop after one pass (reception of at most one message, the `w` test, `handleTimeouts`), then it is inside t3 (a TESTFR
act was sent in this pass at the latest), no U-format act (STARTDT / STOPDT / TESTFR) has been unconfirmed for longer than
t1, the oldest unacknowledged I-format APDU is not older than t1, and received I-format APDUs have not been left
unacknowledged for t2 or longer; otherwise the pass has ended the connection (`client_close_iff`). -/
theorem client_deadlines_met_every_pass (c : Iec.Cli104.Cli) (h3 : (Iec.Cli104.loopIter c).phase = 3) :
    Iec.Cli104.CDeadlines (Iec.Cli104.loopIter c) :=
  Iec.Cli104.loopIter_deadlines c h3

end Iec.Props.C11
