import Iec.Lemmas.Srv104
/-
C11 — CS104 acknowledgement duty (w, t2) and supervision timers (t1, t3).

Statement (properties.jsonl): a station acknowledges received I-format APDUs no later than
after w of them or t2 seconds after the first unacknowledged one, and before closing /
stopping on its own initiative; it closes the connection when an I-format APDU or TESTFR
act it sent stays unacknowledged for t1 seconds, and not before; after t3 seconds without
receiving anything it sends TESTFR act; the configured k, w, t1, t2, t3 are the ones used.

Theorems on the server model, per processing step and on a virtual clock (`s.now`, ms):
`ack_after_w`/`ack_at_w` (w), `t2_ack`/`t2_not_before` (t2), `t1_close_iff` (t1: exactly when,
and not before) with `t1_empty`, `t3_testfr` (t3).  All timer values are read from the
configuration record `s.p` (the correspondence run varies k, w, t1, t2, t3).  Lateness is
bounded by the tick period: the code looks at the clock only in `handleTimeouts`.
Client role: correspondence only (partial).
-/
namespace Iec.Props.C11
open Iec.Srv104 Iec.KWindow

theorem sendS_conn (s : Slave) (i : Nat) (hi : i < s.conns.length) :
    ((sendS s i).conn i).unconf = (s.conn i).unconf ∧ (sendS s i).conns.length = s.conns.length := by
  unfold sendS write
  simp only
  split
  · simp only [if_false, Bool.false_eq_true]
    refine ⟨?_, by simp [Slave.setConn]⟩
    rw [conn_setConn _ _ _ hi]
  · simp only [if_true]
    exact ⟨rfl, rfl⟩

/-- **w**: after the `w` test that follows every received message fewer than w I-frames are
unacknowledged (the configured w is the one used: `s.p.w`) -/
theorem ack_after_w (s : Slave) (i : Nat) (hi : i < s.conns.length) (hw : 0 < s.p.w) :
    ((ackIfW s i).conn i).unconf < s.p.w := by
  unfold ackIfW
  simp only
  split
  · have hl : i < (s.setConn i { s.conn i with lastConf := some s.now, unconf := 0, t2Triggered := false }).conns.length := by
      rw [setConn_len]; exact hi
    rw [(sendS_conn _ i hl).1, conn_setConn _ _ _ hi]
    exact hw
  · omega

/-- the S-frame of the `w` test is written whenever w I-frames are unacknowledged -/
theorem ack_at_w (s : Slave) (i : Nat) (hi : i < s.conns.length) (h : s.p.w ≤ (s.conn i).unconf)
    (h1 : (s.conn i).sock.writeFail = false) (h2 : (s.conn i).sock.peerClosed = false) :
    (ackIfW s i).log = s.log ++ [.tx i [0x68, 0x04, 0x01, 0, seqLo (s.conn i).vr, seqHi (s.conn i).vr]] := by
  unfold ackIfW
  simp only [ge_iff_le, h, if_true]
  unfold sendS write
  rw [conn_setConn _ _ _ hi]
  simp [h1, h2, emit, Slave.setConn]

/-- **t2**: at a tick with unacknowledged I-frames whose first one is t2 seconds old, an
S-frame carrying V(R) is written in that tick -/
theorem t2_ack (s : Slave) (i : Nat) (hi : i < s.conns.length) (l : Nat) (hu : 0 < (s.conn i).unconf)
    (hl : (s.conn i).lastConf = some l) (hlt : l < s.now) (hage : s.p.t2 * 1000 ≤ s.now - l)
    (h1 : (s.conn i).sock.writeFail = false) (h2 : (s.conn i).sock.peerClosed = false) :
    (phaseT2 s i).log = s.log ++ [.tx i [0x68, 0x04, 0x01, 0, seqLo (s.conn i).vr, seqHi (s.conn i).vr]] ∧
    ((phaseT2 s i).conn i).unconf = 0 := by
  unfold phaseT2
  simp only
  have hu' : (s.conn i).unconf > 0 := hu
  have hng : ¬ (l > s.now) := by omega
  rw [if_pos hu']
  simp only [hl, hng, if_false, setConn_p]
  have hc : (decide (s.now > l) && decide (s.now - l ≥ s.p.t2 * 1000)) = true := by simp; omega
  rw [if_pos hc]
  unfold sendS write
  simp only [setConn_p]
  rw [conn_setConn _ _ _ (by rw [setConn_len]; exact hi)]
  simp only [h1, h2, Bool.or_self, Bool.false_eq_true, if_false]
  refine ⟨by simp [emit, Slave.setConn], ?_⟩
  show ((emit _ _).conn i).unconf = 0
  show ((((s.setConn i (s.conn i)).setConn i _)).conn i).unconf = 0
  rw [conn_setConn _ _ _ (by rw [setConn_len]; exact hi)]

/-- … and not before: while the first unacknowledged I-frame is younger than t2 nothing is written -/
theorem t2_not_before (s : Slave) (i : Nat) (l : Nat) (hl : (s.conn i).lastConf = some l) (hlt : l ≤ s.now)
    (hage : s.now - l < s.p.t2 * 1000) : (phaseT2 s i).log = s.log := by
  unfold phaseT2
  simp only
  by_cases hu : (s.conn i).unconf > 0
  · have hng : ¬ (l > s.now) := by omega
    rw [if_pos hu]
    simp only [hl, hng, if_false, setConn_p]
    have hc : ¬ ((decide (s.now > l) && decide (s.now - l ≥ s.p.t2 * 1000)) = true) := by simp; omega
    rw [if_neg hc]
    rfl
  · rw [if_neg hu]

/-- **t1**: the connection is closed by the I-frame timeout exactly when the oldest
unacknowledged I-frame is t1 seconds old - and not before -/
theorem t1_close_iff (s : Slave) (i : Nat) (e : KEntry) (rest : List KEntry) (hw : (s.conn i).win = e :: rest)
    (hst : e.sentTime ≤ s.now) :
    (phaseT1 s i true).2 = false ↔ (e.sentTime < s.now ∧ s.p.t1 * 1000 ≤ s.now - e.sentTime) := by
  unfold phaseT1
  have hng : ¬ (e.sentTime > s.now) := by omega
  simp only [hw, hng, if_false, setConn_p]
  by_cases hc : (decide (s.now > e.sentTime) && decide (s.now - e.sentTime ≥ s.p.t1 * 1000)) = true
  · simp only [hc, if_true]
    simp only [Bool.and_eq_true, decide_eq_true_eq] at hc
    exact ⟨fun _ => ⟨hc.1, hc.2⟩, fun _ => trivial⟩
  · simp only [hc, if_false]
    simp only [Bool.and_eq_true, decide_eq_true_eq] at hc
    constructor
    · intro h; cases h
    · intro h; exact absurd ⟨h.1, h.2⟩ hc

/-- with nothing unacknowledged the I-frame timer never closes the connection -/
theorem t1_empty (s : Slave) (i : Nat) (hw : (s.conn i).win = []) (ok : Bool) : phaseT1 s i ok = (s, ok) := by
  unfold phaseT1; simp [hw]

/-- **t3**: a tick later than t3 seconds after the last reception writes TESTFR act -/
theorem t3_testfr (s : Slave) (i : Nat) (hi : i < s.conns.length) (hnw : (s.conn i).waitingTestFR = false)
    (hplaus : (s.conn i).nextT3 ≤ s.now + s.p.t3 * 1000) (hexp : (s.conn i).nextT3 < s.now)
    (h1 : (s.conn i).sock.writeFail = false) (h2 : (s.conn i).sock.peerClosed = false) :
    (phaseT3 s i).log = s.log ++ [.tx i TESTFR_ACT] ∧ ((phaseT3 s i).conn i).waitingTestFR = true ∧
    ((phaseT3 s i).conn i).nextTestFR = s.now + s.p.t1 * 1000 := by
  unfold phaseT3
  have hn : ¬ ((s.conn i).nextT3 > s.now + s.p.t3 * 1000) := by omega
  simp only [hnw, Bool.false_eq_true, if_false, hn]
  have hd : decide (s.now > (s.conn i).nextT3) = true := by simpa using hexp
  simp only [hd, if_true]
  unfold write
  rw [conn_setConn _ _ _ hi]
  simp only [h1, h2, Bool.or_self, Bool.false_eq_true, if_false, Bool.not_true]
  have hl2 : i < (emit (s.setConn i (s.conn i)) (Obs.tx i TESTFR_ACT)).conns.length := by
    show i < (s.setConn i (s.conn i)).conns.length; rw [setConn_len]; exact hi
  refine ⟨by simp [emit, Slave.setConn], ?_, ?_⟩
  · rw [conn_setConn _ _ _ hl2]
  · rw [conn_setConn _ _ _ hl2]; rfl

end Iec.Props.C11
