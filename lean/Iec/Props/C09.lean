import Iec.Model.Dispatch
import Iec.Lemmas.Bits
import Iec.Model.CliCmd
import Iec.Lemmas.Layout
/-
C09 — Command dispatch and mirrored negative responses (CS104 and CS101 slave).

Statement (properties.jsonl): for each received system command, if its cause of
transmission is allowed for the type and (CS104) its object address is zero, the registered
callback is invoked exactly once with the decoded qualifier / time / address; otherwise
exactly one negative response mirroring type, addresses and payload is returned with
cause 45, 47 or - when no handler accepts - 44; commands issued through the client API reach
the callbacks with identical parameters; a truncated command never reaches its specific
callback.

Model: `Iec.Dispatch.handle104` / `handle101` (the two `handleASDU` functions after the
repairs recorded in known_findings.txt), over ASDU octets with `Iec.Asdu.getElement` as the
decoder (so "truncated" is exactly C02's notion).  The theorems are for every ASDU octet
string, every handler set and every handler return value - the quantifier of the property -
by case analysis of the decision function.  Tie: differential over type 0..255 x COT 0..63 x
flags x IOA zero/non-zero x complete/truncated x handler subsets, both stacks, each case in
an exactly sized heap block under ASan, plus the model-free "at most one response" oracle.
Client side (section Client): the six hand-written system-command builders of cs104_connection.c are modelled
(`Iec.CliCmd.build`, tied by the `c.cmd` operations of the client differential) and PROVED to reach the server
callback with identical parameters: `read_reaches_callback`, `interrogation_reaches_callback`,
`counter_reaches_callback`, `clocksync_reaches_callback` (builder octets -> `handle104` -> callback with the same
address / qualifier / time, for every legal size configuration, common address, originator address and parameter
value).  **Partial**: `sendProcessCommand(Ex)` and the CS101 master's builders (cs101_master.c:330-436) build through
the ASDU codec (C01/C12) and have no theorem of their own.
-/
namespace Iec.Props.C09
open Iec.Dispatch Iec.Asdu Iec.Layout

/-- the common decision shape yields at most one output: nothing (no handler installed),
one callback, or one negative mirror -/
theorem typed_one (a : Asdu) (is104 : Bool) (allowed : List Nat) (h : Option Bool) (name : String)
    (arg : Nat × List Nat → Nat) (chk : Bool) (o : List Out) (handled : Bool)
    (hr : typed a is104 allowed h name arg chk = some (o, handled)) : o.length ≤ 1 := by
  unfold typed at hr
  split at hr
  · cases h with
    | none =>
      simp only [Option.some.injEq, Prod.mk.injEq] at hr
      rw [← hr.1]; simp
    | some r =>
      simp only at hr
      cases hg : a.getElement 0 with
      | none =>
        simp only [hg] at hr
        split at hr
        · cases hr
        · simp only [Option.some.injEq, Prod.mk.injEq] at hr
          rw [← hr.1]; simp
      | some el =>
        simp only [hg] at hr
        split at hr <;> (simp only [Option.some.injEq, Prod.mk.injEq] at hr; rw [← hr.1]; simp)
  · simp only [Option.some.injEq, Prod.mk.injEq] at hr
    rw [← hr.1]; simp

/-- **wrong cause**: exactly one response, cause 45, negative - whatever handlers exist -/
theorem wrong_cot (a : Asdu) (is104 : Bool) (allowed : List Nat) (h : Option Bool) (name : String)
    (arg : Nat × List Nat → Nat) (chk : Bool) (hc : allowed.contains a.cot = false) :
    typed a is104 allowed h name arg chk = some ([.resp (negative a 45).bytes], true) := by
  unfold typed
  have : ¬ (allowed.contains a.cot = true) := by rw [hc]; decide
  rw [if_neg this]

/-- **allowed cause, handler installed, complete object, (CS104) address zero**: the callback
is invoked exactly once with the decoded argument, nothing else happens before the handler's
verdict is known -/
theorem callback_once (a : Asdu) (is104 : Bool) (allowed : List Nat) (r : Bool) (name : String)
    (arg : Nat × List Nat → Nat) (chk : Bool) (el : Nat × List Nat) (hc : allowed.contains a.cot = true)
    (hg : a.getElement 0 = some el) (hz : is104 = true → chk = true → el.1 = 0) :
    typed a is104 allowed (some r) name arg chk = some ([.cb name (arg el)], r) := by
  unfold typed
  rw [if_pos hc]
  simp only [hg]
  have : ¬ ((is104 && chk && (el.1 != 0)) = true) := by
    intro h
    simp only [Bool.and_eq_true, bne_iff_ne, ne_eq] at h
    exact h.2 (hz h.1.1 h.1.2)
  rw [if_neg this]

/-- **CS104, non-zero object address**: exactly one response with cause 47, no callback -/
theorem nonzero_ioa (a : Asdu) (allowed : List Nat) (r : Bool) (name : String) (arg : Nat × List Nat → Nat)
    (el : Nat × List Nat) (hc : allowed.contains a.cot = true) (hg : a.getElement 0 = some el) (hz : el.1 ≠ 0) :
    typed a true allowed (some r) name arg true = some ([.resp (negative a 47).bytes], true) := by
  unfold typed
  rw [if_pos hc]
  simp only [hg]
  have : ((true && true && (el.1 != 0)) = true) := by simpa using hz
  rw [if_pos this]

/-- **truncated command**: never reaches the command-specific callback (CS104: the ASDU is
invalid and the connection is closed; CS101: treated as not handled) -/
theorem truncated_no_callback (a : Asdu) (is104 : Bool) (allowed : List Nat) (h : Option Bool) (name : String)
    (arg : Nat × List Nat → Nat) (chk : Bool) (hg : a.getElement 0 = none) :
    ∀ o handled, typed a is104 allowed h name arg chk = some (o, handled) → ∀ x ∈ o, ∀ v, x ≠ .cb name v := by
  intro o handled hr x hx v
  unfold typed at hr
  split at hr
  · cases h with
    | none =>
      simp only [Option.some.injEq, Prod.mk.injEq] at hr
      rw [← hr.1] at hx; simp at hx
    | some r =>
      simp only [hg] at hr
      split at hr
      · cases hr
      · simp only [Option.some.injEq, Prod.mk.injEq] at hr
        rw [← hr.1] at hx; simp at hx
  · simp only [Option.some.injEq, Prod.mk.injEq] at hr
    rw [← hr.1] at hx
    simp only [List.mem_singleton] at hx; rw [hx]; simp

/-- **no handler accepts**: exactly one negative mirror with cause 44 follows (after the
generic handler, if one is installed, has declined) -/
theorem unhandled_gets_44 (a : Asdu) (hs : Handlers) (pre : List Out) (hn : hs.asdu ≠ some true) :
    ∃ g, tail a hs pre false = pre ++ g ++ [.resp (negative a 44).bytes] ∧ ∀ x ∈ g, x = .generic a.bytes := by
  unfold tail
  cases h : hs.asdu with
  | none => exact ⟨[], by simp, by simp⟩
  | some b =>
    cases b with
    | true => exact absurd h hn
    | false => exact ⟨[.generic a.bytes], by simp, by simp⟩

/-- a handled command produces nothing further -/
theorem handled_stops (a : Asdu) (hs : Handlers) (pre : List Out) : tail a hs pre true = pre := by
  unfold tail; simp

/-- **mirroring**: the negative response has the request's length, type, VSQ, addresses and
payload; only the cause octet differs: cause := c, negative bit set, test bit kept -/
theorem negative_mirrors (a : Asdu) (c : Nat) (hl : 3 ≤ a.bytes.length) :
    (negative a c).bytes.length = a.bytes.length ∧ (∀ i, i ≠ 2 → (negative a c).bytes.getD i 0 = a.bytes.getD i 0) ∧
    (negative a c).p = a.p := by
  unfold negative Asdu.setNegative Asdu.setCot setByte
  refine ⟨by simp, ?_, rfl⟩
  intro i hi
  simp [List.getD_eq_getElem?_getD, List.getElem?_set_ne (Ne.symm hi)]

theorem negative_cause : ∀ b2, b2 < 256 → ∀ c, c < 64 →
    let n := (((b2 &&& 0xc0) + (c &&& 0x3f)) % 256) ||| 0x40
    n &&& 0x3f = c ∧ n &&& 0x40 = 0x40 ∧ n &&& 0x80 = b2 &&& 0x80 := by
  decide +kernel

/-- non-vacuity: C_IC_NA_1 act with QOI 20 under 2/2/3 reaches the callback; with cause 3 it is mirrored with 45 -/
example :
    let p : Params := ⟨2, 2, 3, 249⟩
    let a : Asdu := ⟨p, [100, 1, 6, 0, 1, 0, 0, 0, 0, 20]⟩
    let b : Asdu := ⟨p, [100, 1, 3, 0, 1, 0, 0, 0, 0, 20]⟩
    handle104 a { ic := some true } = some [.cb "ic" 20] ∧
    handle104 b { ic := some true } = some [.resp [100, 1, 0x6d, 0, 1, 0, 0, 0, 0, 20]] := by decide

/-! ### client side: what the command builders of cs104_connection.c put on the wire reaches the callback -/
section Client
open Iec.CliCmd

theorem ioaBytes_eq (p : Params) (hl : p.Legal) (ioa : Nat) : ioaBytes p ioa = leBytes p.sizeOfIOA ioa := by
  obtain ⟨_, _, h3⟩ := hl
  rcases h3 with h | h | h <;> simp [ioaBytes, h, leBytes] <;> omega

theorem ident_length (p : Params) (hl : p.Legal) (oa t v cot ca : Nat) : (ident p oa t v cot ca).length = p.hdrLen := by
  obtain ⟨h1, h2, _⟩ := hl
  rcases h1 with h1 | h1 <;> rcases h2 with h2 | h2 <;> simp [ident, Params.hdrLen, h1, h2]

/-- type, cause and payload of an ASDU that starts with `ident … ++ rest` -/
theorem built_header (p : Params) (hl : p.Legal) (oa t cot ca : Nat) (rest : List Nat) (ht : t < 256) (hc : cot < 64) :
    (⟨p, ident p oa t 1 cot ca ++ rest⟩ : Asdu).typeId = t ∧ (⟨p, ident p oa t 1 cot ca ++ rest⟩ : Asdu).cot = cot ∧
    (⟨p, ident p oa t 1 cot ca ++ rest⟩ : Asdu).payload = rest := by
  refine ⟨?_, ?_, ?_⟩
  · simp [Asdu.typeId, Asdu.byte, ident]; omega
  · have hm : cot % 256 = cot := by omega
    have h6 : ∀ x, x < 64 → x &&& 0x3f = x := by decide +kernel
    simp [Asdu.cot, Asdu.byte, ident, hm, h6 cot hc]
  · unfold Asdu.payload
    exact List.drop_left' (ident_length p hl oa t 1 cot ca)

/-- the element a `.single`-category decoder reads from `leBytes sizeOfIOA ioa ++ fields` -/
theorem single_element (p : Params) (e : TypeEntry) (ioa : Nat) (fb : List Nat) (vs : List Nat)
    (hio : ioa < 256 ^ p.sizeOfIOA) (hfix : fixedSize e.fields = fb.length) (hdec : decodeFields e.fields fb = some (vs, [])) :
    decodeObj p e (leBytes p.sizeOfIOA ioa ++ fb) 0 true = some (ioa, vs) := by
  unfold decodeObj
  have hlen : ¬ (0 + (if true = true then p.sizeOfIOA else 0) + fixedSize e.fields > (leBytes p.sizeOfIOA ioa ++ fb).length) := by
    simp [leBytes_length, hfix]
  rw [if_neg hlen]
  simp only [List.drop_zero, if_true]
  rw [List.drop_left' (leBytes_length _ _), hdec]
  simp [parseIOA, List.take_left' (leBytes_length _ _), leVal_leBytes _ _ hio]

/-- **read command**: `CS104_Connection_sendReadCommand(ca, ioa)` reaches the read handler with the same object
address, for every size configuration and every address that fits the configured width -/
theorem read_reaches_callback (p : Params) (hl : p.Legal) (oa ca ioa : Nat) (hio : ioa < 256 ^ p.sizeOfIOA)
    (hs : Handlers) (r : Bool) (hr : hs.rd = some r) :
    handle104 ⟨p, build p oa (.read ca ioa)⟩ hs =
      some (tail ⟨p, build p oa (.read ca ioa)⟩ hs [.cb "rd" ioa] r) := by
  obtain ⟨h1, h2, h3⟩ := built_header p hl oa 102 5 ca (ioaBytes p ioa) (by decide) (by decide)
  have hb : build p oa (.read ca ioa) = ident p oa 102 1 5 ca ++ ioaBytes p ioa := rfl
  have hg : (⟨p, build p oa (.read ca ioa)⟩ : Asdu).getElement 0 = some (ioa, []) := by
    unfold Asdu.getElement
    rw [hb, h1, show lookup 102 = some ⟨102, "C_RD_NA_1", .single, [], 0⟩ from rfl]
    simp only
    rw [h3, ioaBytes_eq p hl]
    have := single_element p ⟨102, "C_RD_NA_1", .single, [], 0⟩ ioa [] [] hio rfl rfl
    simpa using this
  unfold handle104
  rw [hb] at hg ⊢
  simp only [h1, show (102 : Nat) ≠ 100 by decide, show (102 : Nat) ≠ 101 by decide, if_false, if_true]
  rw [hr, callback_once _ true [5] r "rd" (·.1) false (ioa, []) (by rw [h2]; decide) hg (by intro _ h; cases h)]
  rfl

/-- **interrogation command** (cause activation or deactivation) reaches the interrogation handler with the same
qualifier -/
theorem interrogation_reaches_callback (p : Params) (hl : p.Legal) (oa cot ca qoi : Nat) (hc : cot = 6 ∨ cot = 8) (hq : qoi < 256)
    (hs : Handlers) (r : Bool) (hr : hs.ic = some r) :
    handle104 ⟨p, build p oa (.interrogation cot ca qoi)⟩ hs =
      some (tail ⟨p, build p oa (.interrogation cot ca qoi)⟩ hs [.cb "ic" qoi] r) := by
  have hc64 : cot < 64 := by rcases hc with h | h <;> omega
  obtain ⟨h1, h2, h3⟩ := built_header p hl oa 100 cot ca (ioaBytes p 0 ++ [qoi % 256]) (by decide) hc64
  have hb : build p oa (.interrogation cot ca qoi) = ident p oa 100 1 cot ca ++ (ioaBytes p 0 ++ [qoi % 256]) := by
    simp [build]
  have hg : (⟨p, build p oa (.interrogation cot ca qoi)⟩ : Asdu).getElement 0 = some (0, [qoi]) := by
    unfold Asdu.getElement
    rw [hb, h1, show lookup 100 = some ⟨100, "C_IC_NA_1", .single, [.le 1], 0⟩ from rfl]
    simp only
    rw [h3, ioaBytes_eq p hl]
    have hm : qoi % 256 = qoi := by omega
    rw [hm]
    exact single_element p ⟨100, "C_IC_NA_1", .single, [.le 1], 0⟩ 0 [qoi] [qoi] (Nat.pow_pos (by decide)) rfl
      (by simp [decodeFields, leVal])
  unfold handle104
  rw [hb] at hg ⊢
  simp only [h1, if_true]
  rw [hr, callback_once _ true [6, 8] r "ic" v0 true (0, [qoi]) (by rw [h2]; rcases hc with h | h <;> subst h <;> decide) hg (by intros; rfl)]
  rfl

/-- **counter interrogation command** reaches its handler with the same qualifier -/
theorem counter_reaches_callback (p : Params) (hl : p.Legal) (oa cot ca qcc : Nat) (hc : cot = 6 ∨ cot = 8) (hq : qcc < 256)
    (hs : Handlers) (r : Bool) (hr : hs.ci = some r) :
    handle104 ⟨p, build p oa (.counter cot ca qcc)⟩ hs =
      some (tail ⟨p, build p oa (.counter cot ca qcc)⟩ hs [.cb "ci" qcc] r) := by
  have hc64 : cot < 64 := by rcases hc with h | h <;> omega
  obtain ⟨h1, h2, h3⟩ := built_header p hl oa 101 cot ca (ioaBytes p 0 ++ [qcc % 256]) (by decide) hc64
  have hb : build p oa (.counter cot ca qcc) = ident p oa 101 1 cot ca ++ (ioaBytes p 0 ++ [qcc % 256]) := by
    simp [build]
  have hg : (⟨p, build p oa (.counter cot ca qcc)⟩ : Asdu).getElement 0 = some (0, [qcc]) := by
    unfold Asdu.getElement
    rw [hb, h1, show lookup 101 = some ⟨101, "C_CI_NA_1", .single, [.le 1], 0⟩ from rfl]
    simp only
    rw [h3, ioaBytes_eq p hl]
    have hm : qcc % 256 = qcc := by omega
    rw [hm]
    exact single_element p ⟨101, "C_CI_NA_1", .single, [.le 1], 0⟩ 0 [qcc] [qcc] (Nat.pow_pos (by decide)) rfl
      (by simp [decodeFields, leVal])
  unfold handle104
  rw [hb] at hg ⊢
  simp only [h1, show (101 : Nat) ≠ 100 by decide, if_false, if_true]
  rw [hr, callback_once _ true [6, 8] r "ci" v0 true (0, [qcc]) (by rw [h2]; rcases hc with h | h <;> subst h <;> decide) hg (by intros; rfl)]
  rfl

/-- **clock synchronisation command** reaches the clock handler with the same seven time octets (as the
little-endian number the decoder stores) -/
theorem clocksync_reaches_callback (p : Params) (hl : p.Legal) (oa ca : Nat) (time : List Nat) (ht : time.length = 7)
    (hs : Handlers) (r : Bool) (hr : hs.cs = some r) :
    ∃ rest, handle104 ⟨p, build p oa (.clockSync ca time)⟩ hs = some (.cb "cs" (leVal time) :: rest) := by
  obtain ⟨h1, h2, h3⟩ := built_header p hl oa 103 6 ca (ioaBytes p 0 ++ time.take 7) (by decide) (by decide)
  have hb : build p oa (.clockSync ca time) = ident p oa 103 1 6 ca ++ (ioaBytes p 0 ++ time.take 7) := by
    simp [build]
  have htk : time.take 7 = time := List.take_of_length_le (by omega)
  have hg : (⟨p, build p oa (.clockSync ca time)⟩ : Asdu).getElement 0 = some (0, [leVal time]) := by
    unfold Asdu.getElement
    rw [hb, h1, show lookup 103 = some ⟨103, "C_CS_NA_1", .single, [.le 7], 0⟩ from rfl]
    simp only
    rw [h3, ioaBytes_eq p hl, htk]
    exact single_element p ⟨103, "C_CS_NA_1", .single, [.le 7], 0⟩ 0 time [leVal time] (Nat.pow_pos (by decide))
      (by simp [fixedSize, ht]) (by simp [decodeFields, ht, List.take_of_length_le, List.drop_of_length_le])
  unfold handle104
  rw [hb] at hg ⊢
  simp only [h1, h2, show (103 : Nat) ≠ 100 by decide, show (103 : Nat) ≠ 101 by decide, show (103 : Nat) ≠ 102 by decide,
    if_false, if_true, hr, hg]
  cases r <;> simp [v0]

end Client

end Iec.Props.C09
