import Iec.Model.Dispatch
import Iec.Lemmas.Bits
/-
C09 — Command dispatch and mirrored negative responses (CS104 and CS101 slave).

Statement (properties.jsonl): for each received system command, if its cause of
transmission is allowed for the type and (CS104) its object address is zero, the registered
callback is invoked exactly once with the decoded qualifier / time / address; otherwise
exactly one negative response mirroring type, addresses and payload is returned with
cause 45, 47 or - when no handler accepts - 44; commands issued through the client API reach
the callbacks with identical parameters; a truncated command never reaches its specific
callback.

Model: `Iec.Dispatch.handle104` / `handle101` (the two `handleASDU` functions after the
repairs recorded in known_findings.txt), over ASDU octets with `Iec.Asdu.getElement` as the
decoder (so "truncated" is exactly C02's notion).  The theorems are for every ASDU octet
string, every handler set and every handler return value - the quantifier of the property -
by case analysis of the decision function.  Tie: differential over type 0..255 x COT 0..63 x
flags x IOA zero/non-zero x complete/truncated x handler subsets, both stacks, each case in
an exactly sized heap block under ASan, plus the model-free "at most one response" oracle.
**Partial**: the client-side command builders (cs104_connection.c:1137-1375,
cs101_master.c:330-436) are not modelled.
-/
namespace Iec.Props.C09
open Iec.Dispatch Iec.Asdu Iec.Layout

/-- the common decision shape yields at most one output: nothing (no handler installed),
one callback, or one negative mirror -/
theorem typed_one (a : Asdu) (is104 : Bool) (allowed : List Nat) (h : Option Bool) (name : String)
    (arg : Nat × List Nat → Nat) (chk : Bool) (o : List Out) (handled : Bool)
    (hr : typed a is104 allowed h name arg chk = some (o, handled)) : o.length ≤ 1 := by
  unfold typed at hr
  split at hr
  · cases h with
    | none =>
      simp only [Option.some.injEq, Prod.mk.injEq] at hr
      rw [← hr.1]; simp
    | some r =>
      simp only at hr
      cases hg : a.getElement 0 with
      | none =>
        simp only [hg] at hr
        split at hr
        · cases hr
        · simp only [Option.some.injEq, Prod.mk.injEq] at hr
          rw [← hr.1]; simp
      | some el =>
        simp only [hg] at hr
        split at hr <;> (simp only [Option.some.injEq, Prod.mk.injEq] at hr; rw [← hr.1]; simp)
  · simp only [Option.some.injEq, Prod.mk.injEq] at hr
    rw [← hr.1]; simp

/-- **wrong cause**: exactly one response, cause 45, negative - whatever handlers exist -/
theorem wrong_cot (a : Asdu) (is104 : Bool) (allowed : List Nat) (h : Option Bool) (name : String)
    (arg : Nat × List Nat → Nat) (chk : Bool) (hc : allowed.contains a.cot = false) :
    typed a is104 allowed h name arg chk = some ([.resp (negative a 45).bytes], true) := by
  unfold typed
  have : ¬ (allowed.contains a.cot = true) := by rw [hc]; decide
  rw [if_neg this]

/-- **allowed cause, handler installed, complete object, (CS104) address zero**: the callback
is invoked exactly once with the decoded argument, nothing else happens before the handler's
verdict is known -/
theorem callback_once (a : Asdu) (is104 : Bool) (allowed : List Nat) (r : Bool) (name : String)
    (arg : Nat × List Nat → Nat) (chk : Bool) (el : Nat × List Nat) (hc : allowed.contains a.cot = true)
    (hg : a.getElement 0 = some el) (hz : is104 = true → chk = true → el.1 = 0) :
    typed a is104 allowed (some r) name arg chk = some ([.cb name (arg el)], r) := by
  unfold typed
  rw [if_pos hc]
  simp only [hg]
  have : ¬ ((is104 && chk && (el.1 != 0)) = true) := by
    intro h
    simp only [Bool.and_eq_true, bne_iff_ne, ne_eq] at h
    exact h.2 (hz h.1.1 h.1.2)
  rw [if_neg this]

/-- **CS104, non-zero object address**: exactly one response with cause 47, no callback -/
theorem nonzero_ioa (a : Asdu) (allowed : List Nat) (r : Bool) (name : String) (arg : Nat × List Nat → Nat)
    (el : Nat × List Nat) (hc : allowed.contains a.cot = true) (hg : a.getElement 0 = some el) (hz : el.1 ≠ 0) :
    typed a true allowed (some r) name arg true = some ([.resp (negative a 47).bytes], true) := by
  unfold typed
  rw [if_pos hc]
  simp only [hg]
  have : ((true && true && (el.1 != 0)) = true) := by simpa using hz
  rw [if_pos this]

/-- **truncated command**: never reaches the command-specific callback (CS104: the ASDU is
invalid and the connection is closed; CS101: treated as not handled) -/
theorem truncated_no_callback (a : Asdu) (is104 : Bool) (allowed : List Nat) (h : Option Bool) (name : String)
    (arg : Nat × List Nat → Nat) (chk : Bool) (hg : a.getElement 0 = none) :
    ∀ o handled, typed a is104 allowed h name arg chk = some (o, handled) → ∀ x ∈ o, ∀ v, x ≠ .cb name v := by
  intro o handled hr x hx v
  unfold typed at hr
  split at hr
  · cases h with
    | none =>
      simp only [Option.some.injEq, Prod.mk.injEq] at hr
      rw [← hr.1] at hx; simp at hx
    | some r =>
      simp only [hg] at hr
      split at hr
      · cases hr
      · simp only [Option.some.injEq, Prod.mk.injEq] at hr
        rw [← hr.1] at hx; simp at hx
  · simp only [Option.some.injEq, Prod.mk.injEq] at hr
    rw [← hr.1] at hx
    simp only [List.mem_singleton] at hx; rw [hx]; simp

/-- **no handler accepts**: exactly one negative mirror with cause 44 follows (after the
generic handler, if one is installed, has declined) -/
theorem unhandled_gets_44 (a : Asdu) (hs : Handlers) (pre : List Out) (hn : hs.asdu ≠ some true) :
    ∃ g, tail a hs pre false = pre ++ g ++ [.resp (negative a 44).bytes] ∧ ∀ x ∈ g, x = .generic a.bytes := by
  unfold tail
  cases h : hs.asdu with
  | none => exact ⟨[], by simp, by simp⟩
  | some b =>
    cases b with
    | true => exact absurd h hn
    | false => exact ⟨[.generic a.bytes], by simp, by simp⟩

/-- a handled command produces nothing further -/
theorem handled_stops (a : Asdu) (hs : Handlers) (pre : List Out) : tail a hs pre true = pre := by
  unfold tail; simp

/-- **mirroring**: the negative response has the request's length, type, VSQ, addresses and
payload; only the cause octet differs: cause := c, negative bit set, test bit kept -/
theorem negative_mirrors (a : Asdu) (c : Nat) (hl : 3 ≤ a.bytes.length) :
    (negative a c).bytes.length = a.bytes.length ∧ (∀ i, i ≠ 2 → (negative a c).bytes.getD i 0 = a.bytes.getD i 0) ∧
    (negative a c).p = a.p := by
  unfold negative Asdu.setNegative Asdu.setCot setByte
  refine ⟨by simp, ?_, rfl⟩
  intro i hi
  simp [List.getD_eq_getElem?_getD, List.getElem?_set_ne (Ne.symm hi)]

theorem negative_cause : ∀ b2, b2 < 256 → ∀ c, c < 64 →
    let n := (((b2 &&& 0xc0) + (c &&& 0x3f)) % 256) ||| 0x40
    n &&& 0x3f = c ∧ n &&& 0x40 = 0x40 ∧ n &&& 0x80 = b2 &&& 0x80 := by
  decide +kernel

/-- non-vacuity: C_IC_NA_1 act with QOI 20 under 2/2/3 reaches the callback; with cause 3 it is mirrored with 45 -/
example :
    let p : Params := ⟨2, 2, 3, 249⟩
    let a : Asdu := ⟨p, [100, 1, 6, 0, 1, 0, 0, 0, 0, 20]⟩
    let b : Asdu := ⟨p, [100, 1, 3, 0, 1, 0, 0, 0, 0, 20]⟩
    handle104 a { ic := some true } = some [.cb "ic" 20] ∧
    handle104 b { ic := some true } = some [.resp [100, 1, 0x6d, 0, 1, 0, 0, 0, 0, 20]] := by decide

end Iec.Props.C09
