import Iec.Lemmas.KWindow
import Iec.Lemmas.Srv104Win
import Iec.Lemmas.Cli104Win
import Iec.Model.Srv104
import Iec.Model.Cli104
/-
C04 — CS104 k-window and acknowledgement validation.

Statement (properties.jsonl): a station never has more than k I-format APDUs sent and not
yet acknowledged; a received N(R) is accepted exactly when it lies, modulo 32768, between
the N(S) of the oldest unacknowledged APDU and the next N(S) to be sent inclusive - all
APDUs below it are then released - and any other value closes the connection; while the
window is full the client API reports failure without transmitting, the server defers the
ASDU without losing it.

Model: `Iec.KWindow` (shared by the server model `Iec.Srv104` and the client model): the
k-buffer as a FIFO of acknowledgement numbers.  `WinInv vs win base len` says the buffer
holds the `len` consecutive numbers base+1 … base+len (mod 32768) and V(S) = base+len;
`base` is the N(S) of the oldest unacknowledged APDU.  The theorems hold for every
alignment of the window to the 32767→0 wrap, every occupancy and every k (no bound such as
k ≤ 32), every N(R) in 0..32767.

History level (second half of the file): `WinInv` is not an assumption about reachable states - it is an invariant of the
whole server model (`server_never_more_than_k`, `server_ack_validation`; Lemmas/Srv104Win.lean) and of the whole client
model (`client_window_every_history`; Lemmas/Cli104Win.lean) over every operation list, for 0 < k < 32767.
-/
namespace Iec.Props.C04
open Iec.KWindow

/-- **Acceptance is exactly the modular window test**, and acceptance releases exactly the
acknowledged prefix and re-establishes the invariant; rejection changes nothing. -/
theorem checkSeq_spec (vs : Nat) (win : List KEntry) (base len : Nat) (h : WinInv vs win base len)
    (nr : Nat) (hnr : nr < 32768) :
    ((checkSeq vs win nr).1 = true ↔ dist base nr ≤ len) ∧
    ((checkSeq vs win nr).1 = true →
        (checkSeq vs win nr).2.1 = win.drop (dist base nr) ∧
        (checkSeq vs win nr).2.2 = win.take (dist base nr) ∧
        WinInv vs (checkSeq vs win nr).2.1 ((base + dist base nr) % 32768) (len - dist base nr)) ∧
    ((checkSeq vs win nr).1 = false → (checkSeq vs win nr).2.1 = win ∧ (checkSeq vs win nr).2.2 = []) := by
  have hv := valid_iff vs win base len h nr hnr
  by_cases hval : valid vs win nr = true
  · have hd := hv.mp hval
    have hr := release_spec vs win base len h nr hnr hd
    have e : checkSeq vs win nr = (true, win.drop (dist base nr), win.take (dist base nr)) := by
      unfold checkSeq; rw [if_pos hval, hr]
    rw [e]
    exact ⟨⟨fun _ => hd, fun _ => rfl⟩, fun _ => ⟨rfl, rfl, winInv_drop vs win base len _ h hd⟩,
      fun hf => Bool.noConfusion hf⟩
  · have e : checkSeq vs win nr = (false, win, []) := by
      unfold checkSeq; rw [if_neg hval]
    rw [e]
    exact ⟨⟨fun hf => Bool.noConfusion hf, fun hd => absurd (hv.mpr hd) hval⟩,
      fun hf => Bool.noConfusion hf, fun _ => ⟨rfl, rfl⟩⟩

/-- the distance test is "between the oldest unacknowledged N(S) and the next N(S), inclusive":
`nr` is accepted iff it equals (base + d) mod 32768 for some 0 ≤ d ≤ len -/
theorem dist_le_iff (base len nr : Nat) (hb : base < 32768) (hl : len < 32767) (hnr : nr < 32768) :
    dist base nr ≤ len ↔ ∃ d, d ≤ len ∧ nr = (base + d) % 32768 := by
  unfold dist
  constructor
  · intro h; exact ⟨(nr + 32768 - base) % 32768, h, by omega⟩
  · rintro ⟨d, hd, rfl⟩; omega

/-- **never more than k outstanding**: every transmission is gated by `isSentBufferFull` -/
theorem push_bound (k : Nat) (hk : 0 < k) (win : List KEntry) (hle : win.length ≤ k)
    (hnf : isFull k win = false) (e : KEntry) : (win ++ [e]).length ≤ k := by
  simp only [isFull, Bool.and_eq_false_iff, bne_eq_false_iff_eq, beq_eq_false_iff_ne] at hnf
  simp only [List.length_append, List.length_cons, List.length_nil]
  rcases hnf with h | h <;> omega

/-- sending keeps the invariant (the new entry carries the incremented V(S)) -/
theorem send_inv (vs : Nat) (win : List KEntry) (base len : Nat) (h : WinInv vs win base len)
    (hl : len + 1 < 32767) (t : Nat) (q : Option (Nat × Nat)) :
    WinInv ((vs + 1) % 32768) (win ++ [{ seq := (vs + 1) % 32768, sentTime := t, qref := q }]) base (len + 1) :=
  winInv_push vs win base len h hl _ rfl

/-- **server, window full**: a response is not transmitted; it is handed to the response queue
(whose `enqueue` either appends it or reports false), nothing else changes -/
theorem server_full_defers (s : Iec.Srv104.Slave) (i : Nat) (asdu : List Nat)
    (hst : (s.conn i).state = 1) (hfull : isFull (s.conn i).maxSent (s.conn i).win = true) :
    (Iec.Srv104.sendAsduInternal s i asdu).1.log = s.log ∧
    (Iec.Srv104.sendAsduInternal s i asdu).1.conns = s.conns ∧
    (Iec.Srv104.sendAsduInternal s i asdu).2 = ((s.grp (s.gidx i)).highQ.enqueue asdu).2 := by
  unfold Iec.Srv104.sendAsduInternal
  simp [hst, hfull, Iec.Srv104.Slave.setGrp]

/-- non-vacuity: a window of 5 straddling the wrap (base 32765: entries 32766, 32767, 0, 1, 2) -/
example : WinInv 2 ([32766, 32767, 0, 1, 2].map fun n => ⟨n, 0, none⟩) 32765 5 := by
  refine ⟨by decide, by decide, by decide, by decide⟩

example : (checkSeq 2 ([32766, 32767, 0, 1, 2].map fun n => ⟨n, 0, none⟩) 0).1 = true ∧
    ((checkSeq 2 ([32766, 32767, 0, 1, 2].map fun n => ⟨n, 0, none⟩) 0).2.1.map (·.seq)) = [1, 2] ∧
    (checkSeq 2 ([32766, 32767, 0, 1, 2].map fun n => ⟨n, 0, none⟩) 3).1 = false ∧
    (checkSeq 2 ([32766, 32767, 0, 1, 2].map fun n => ⟨n, 0, none⟩) 32765).1 = true := by decide

end Iec.Props.C04

namespace Iec.Props.C04
open Iec.KWindow

/-- **client, window full**: `CS104_Connection_sendASDU` reports failure and transmits nothing -/
theorem client_full_refuses (c : Iec.Cli104.Cli) (asdu : List Nat)
    (hfull : isFull (c.maxSent.getD c.p.k) c.win = true) : Iec.Cli104.sendAsdu c asdu = (c, false) := by
  unfold Iec.Cli104.sendAsdu
  simp [hfull]

end Iec.Props.C04

/-! ### every history of the server -/
namespace Iec.Props.C04
open Iec.KWindow Iec.Srv104

/-- **never more than k outstanding, in every reachable state**: from a freshly created server (0 < k < 32767), after any
sequence of ticks (accept, receive, transmit events and replies, acknowledge, time-outs, reaping), enqueues, restarts and
environment events (octets arriving in any segmentation, peers closing, writes failing, the clock), every connection in
use holds at most k sent-but-unacknowledged I-format APDUs -/
theorem server_never_more_than_k (p : Params) (gs : List (String × List (Bool × List Nat))) (hk0 : 0 < p.k) (hk : p.k < 32767)
    (ops : List WOp) (j : Nat) (hu : ((ops.foldl WOp.apply (create p gs)).conn j).isUsed = true) :
    ((ops.foldl WOp.apply (create p gs)).conn j).win.length ≤ p.k := by
  obtain ⟨h, hp⟩ := run_winv p gs hk0 hk ops
  have := ((h j).2 ((h j).1 hu)).1
  rwa [hp] at this

/-- the N(S) of the oldest unacknowledged APDU, computed from V(S) and the number of outstanding APDUs -/
def oldestNS (c : Conn) : Nat := (c.vs + 32768 - c.win.length) % 32768

/-- **acknowledgement validation in every reachable state**: on every running connection in use of every reachable server
state the hypothesis of `checkSeq_spec` holds, hence a received N(R) is accepted exactly when it lies, modulo 32768, between
the N(S) of the oldest unacknowledged APDU and V(S) inclusive; acceptance releases exactly the APDUs below it, rejection
changes nothing -/
theorem server_ack_validation (p : Params) (gs : List (String × List (Bool × List Nat))) (hk0 : 0 < p.k) (hk : p.k < 32767)
    (ops : List WOp) (j : Nat) (hu : ((ops.foldl WOp.apply (create p gs)).conn j).isUsed = true)
    (hr : ((ops.foldl WOp.apply (create p gs)).conn j).isRunning = true) (nr : Nat) (hnr : nr < 32768) :
    let c := (ops.foldl WOp.apply (create p gs)).conn j
    WinInv c.vs c.win (oldestNS c) c.win.length ∧
    ((checkSeq c.vs c.win nr).1 = true ↔ dist (oldestNS c) nr ≤ c.win.length) ∧
    ((checkSeq c.vs c.win nr).1 = true → (checkSeq c.vs c.win nr).2.1 = c.win.drop (dist (oldestNS c) nr)) ∧
    ((checkSeq c.vs c.win nr).1 = false → (checkSeq c.vs c.win nr).2.1 = c.win) := by
  intro c
  obtain ⟨h, hp⟩ := run_winv p gs hk0 hk ops
  obtain ⟨base, hb⟩ := ((h j).2 ((h j).1 hu)).2 hr
  have hbase : base = oldestNS c := by
    obtain ⟨h1, h2, _, h4⟩ := hb
    unfold oldestNS
    show base = (c.vs + 32768 - c.win.length) % 32768
    have h4' : c.vs = (base + c.win.length) % 32768 := h4
    have h2' : c.win.length < 32767 := h2
    omega
  have hb' : WinInv c.vs c.win (oldestNS c) c.win.length := hbase ▸ hb
  have sp := checkSeq_spec c.vs c.win (oldestNS c) c.win.length hb' nr hnr
  exact ⟨hb', sp.1, fun ha => (sp.2.1 ha).1, fun hf => (sp.2.2 hf).1⟩

/-- non-vacuity of the hypotheses: a connection record that is in use, running, with three APDUs outstanding across the
32767 -> 0 wrap satisfies `Good` for k = 3 (the invariant the history theorem maintains) -/
def wrapConn : Conn := { isUsed := true, isRunning := true, maxSent := 3, vs := 1, win := [⟨32767, 0, none⟩, ⟨0, 0, none⟩, ⟨1, 0, none⟩] }
example : Good 3 wrapConn ∧ oldestNS wrapConn = 32766 ∧ isFull 3 wrapConn.win = true :=
  ⟨⟨by decide, fun _ => ⟨32766, by decide, by decide, by decide, by decide⟩⟩, by decide, by decide⟩

def demoParams : Params := { k := 2, w := 1, t0 := 10, t1 := 15, t2 := 10, t3 := 20, mode := 0, maxOpen := 0, lowQ := 4, highQ := 4, asduHdr := 6, replies := 0, nSlots := 2 }
def demoOps : List WOp := [.env (lenvPending {}), .tick, .env (lenvFeed 0 [0x68, 4, 7, 0, 0, 0]), .tick, .enqueue [1,1,3,0,1,0,5,0,0,1], .tick, .enqueue [1,1,3,0,1,0,6,0,0,1], .tick, .enqueue [1,1,3,0,1,0,7,0,0,1], .tick]
/-- non-vacuity on a concrete history: a client connects and sends STARTDT act, three events are enqueued with k = 2 - the
connection is in use and running, two APDUs are outstanding, the window is full and the third event waits -/
example : let c := (demoOps.foldl WOp.apply (create demoParams [])).conn 0
    c.isUsed = true ∧ c.isRunning = true ∧ c.win.map (·.seq) = [1, 2] ∧ c.vs = 2 ∧ isFull c.maxSent c.win = true ∧ oldestNS c = 0 := by
  decide

end Iec.Props.C04

/-! ### every history of the client -/
namespace Iec.Props.C04
open Iec.KWindow Iec.Cli104

/-- **client, never more than k outstanding, and acknowledgement validation in every reachable state**: for a connection
object created with 0 < k < 32767, after any sequence of connect / thread steps / peer and clock events / sendASDU /
STARTDT / STOPDT / close, at most k I-format APDUs are outstanding, and a received N(R) is accepted exactly when it lies,
modulo 32768, between the N(S) of the oldest unacknowledged APDU and V(S) inclusive (then exactly the APDUs below it are
released), otherwise nothing is released -/
theorem client_window_every_history (p : Iec.Cli104.Params) (hk0 : 0 < p.k) (hk : p.k < 32767) (ops : List KOp)
    (nr : Nat) (hnr : nr < 32768) :
    let c := ops.foldl KOp.apply { p := p }
    let oldest := (c.vs + 32768 - c.win.length) % 32768
    c.win.length ≤ p.k ∧
    WinInv c.vs c.win oldest c.win.length ∧
    ((checkSeq c.vs c.win nr).1 = true ↔ dist oldest nr ≤ c.win.length) ∧
    ((checkSeq c.vs c.win nr).1 = true → (checkSeq c.vs c.win nr).2.1 = c.win.drop (dist oldest nr)) ∧
    ((checkSeq c.vs c.win nr).1 = false → (checkSeq c.vs c.win nr).2.1 = c.win) := by
  intro c oldest
  obtain ⟨⟨h1, base, hb⟩, hk'⟩ := run_cgood p hk0 hk ops
  have hbase : base = oldest := by
    obtain ⟨b1, b2, _, b4⟩ := hb
    show base = (c.vs + 32768 - c.win.length) % 32768
    have b4' : c.vs = (base + c.win.length) % 32768 := b4
    have b2' : c.win.length < 32767 := b2
    omega
  have hb' : WinInv c.vs c.win oldest c.win.length := hbase ▸ hb
  have sp := checkSeq_spec c.vs c.win oldest c.win.length hb' nr hnr
  exact ⟨hk' ▸ h1, hb', sp.1, fun ha => (sp.2.1 ha).1, fun hf => (sp.2.2 hf).1⟩

/-- non-vacuity on a concrete history: connect, three sends with k = 2 - two APDUs outstanding, the third refused -/
def demoCli : Iec.Cli104.Params := { k := 2, w := 1, t0 := 10, t1 := 15, t2 := 10, t3 := 20, asduHdr := 6 }
def demoCliOps : List KOp := [.connect, .step, .step, .send [100, 1, 6, 0, 1, 0, 0, 0, 0, 20], .send [100, 1, 6, 0, 1, 0, 0, 0, 0, 21], .send [100, 1, 6, 0, 1, 0, 0, 0, 0, 22]]
example : let c := demoCliOps.foldl KOp.apply { p := demoCli }
    c.running = true ∧ c.win.map (·.seq) = [1, 2] ∧ c.vs = 2 ∧ (sendAsdu c [1]).2 = false := by decide

end Iec.Props.C04
