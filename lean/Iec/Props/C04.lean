import Iec.Lemmas.KWindow
import Iec.Model.Srv104
import Iec.Model.Cli104
/-
C04 — CS104 k-window and acknowledgement validation.

Statement (properties.jsonl): a station never has more than k I-format APDUs sent and not
yet acknowledged; a received N(R) is accepted exactly when it lies, modulo 32768, between
the N(S) of the oldest unacknowledged APDU and the next N(S) to be sent inclusive - all
APDUs below it are then released - and any other value closes the connection; while the
window is full the client API reports failure without transmitting, the server defers the
ASDU without losing it.

Model: `Iec.KWindow` (shared by the server model `Iec.Srv104` and the client model): the
k-buffer as a FIFO of acknowledgement numbers.  `WinInv vs win base len` says the buffer
holds the `len` consecutive numbers base+1 … base+len (mod 32768) and V(S) = base+len;
`base` is the N(S) of the oldest unacknowledged APDU.  The theorems hold for every
alignment of the window to the 32767→0 wrap, every occupancy and every k (no bound such as
k ≤ 32), every N(R) in 0..32767.
-/
namespace Iec.Props.C04
open Iec.KWindow

/-- **Acceptance is exactly the modular window test**, and acceptance releases exactly the
acknowledged prefix and re-establishes the invariant; rejection changes nothing. -/
theorem checkSeq_spec (vs : Nat) (win : List KEntry) (base len : Nat) (h : WinInv vs win base len)
    (nr : Nat) (hnr : nr < 32768) :
    ((checkSeq vs win nr).1 = true ↔ dist base nr ≤ len) ∧
    ((checkSeq vs win nr).1 = true →
        (checkSeq vs win nr).2.1 = win.drop (dist base nr) ∧
        (checkSeq vs win nr).2.2 = win.take (dist base nr) ∧
        WinInv vs (checkSeq vs win nr).2.1 ((base + dist base nr) % 32768) (len - dist base nr)) ∧
    ((checkSeq vs win nr).1 = false → (checkSeq vs win nr).2.1 = win ∧ (checkSeq vs win nr).2.2 = []) := by
  have hv := valid_iff vs win base len h nr hnr
  by_cases hval : valid vs win nr = true
  · have hd := hv.mp hval
    have hr := release_spec vs win base len h nr hnr hd
    have e : checkSeq vs win nr = (true, win.drop (dist base nr), win.take (dist base nr)) := by
      unfold checkSeq; rw [if_pos hval, hr]
    rw [e]
    exact ⟨⟨fun _ => hd, fun _ => rfl⟩, fun _ => ⟨rfl, rfl, winInv_drop vs win base len _ h hd⟩,
      fun hf => Bool.noConfusion hf⟩
  · have e : checkSeq vs win nr = (false, win, []) := by
      unfold checkSeq; rw [if_neg hval]
    rw [e]
    exact ⟨⟨fun hf => Bool.noConfusion hf, fun hd => absurd (hv.mpr hd) hval⟩,
      fun hf => Bool.noConfusion hf, fun _ => ⟨rfl, rfl⟩⟩

/-- the distance test is "between the oldest unacknowledged N(S) and the next N(S), inclusive":
`nr` is accepted iff it equals (base + d) mod 32768 for some 0 ≤ d ≤ len -/
theorem dist_le_iff (base len nr : Nat) (hb : base < 32768) (hl : len < 32767) (hnr : nr < 32768) :
    dist base nr ≤ len ↔ ∃ d, d ≤ len ∧ nr = (base + d) % 32768 := by
  unfold dist
  constructor
  · intro h; exact ⟨(nr + 32768 - base) % 32768, h, by omega⟩
  · rintro ⟨d, hd, rfl⟩; omega

/-- **never more than k outstanding**: every transmission is gated by `isSentBufferFull` -/
theorem push_bound (k : Nat) (hk : 0 < k) (win : List KEntry) (hle : win.length ≤ k)
    (hnf : isFull k win = false) (e : KEntry) : (win ++ [e]).length ≤ k := by
  simp only [isFull, Bool.and_eq_false_iff, bne_eq_false_iff_eq, beq_eq_false_iff_ne] at hnf
  simp only [List.length_append, List.length_cons, List.length_nil]
  rcases hnf with h | h <;> omega

/-- sending keeps the invariant (the new entry carries the incremented V(S)) -/
theorem send_inv (vs : Nat) (win : List KEntry) (base len : Nat) (h : WinInv vs win base len)
    (hl : len + 1 < 32767) (t : Nat) (q : Option (Nat × Nat)) :
    WinInv ((vs + 1) % 32768) (win ++ [{ seq := (vs + 1) % 32768, sentTime := t, qref := q }]) base (len + 1) :=
  winInv_push vs win base len h hl _ rfl

/-- **server, window full**: a response is not transmitted; it is handed to the response queue
(whose `enqueue` either appends it or reports false), nothing else changes -/
theorem server_full_defers (s : Iec.Srv104.Slave) (i : Nat) (asdu : List Nat)
    (hst : (s.conn i).state = 1) (hfull : isFull (s.conn i).maxSent (s.conn i).win = true) :
    (Iec.Srv104.sendAsduInternal s i asdu).1.log = s.log ∧
    (Iec.Srv104.sendAsduInternal s i asdu).1.conns = s.conns ∧
    (Iec.Srv104.sendAsduInternal s i asdu).2 = ((s.grp (s.gidx i)).highQ.enqueue asdu).2 := by
  unfold Iec.Srv104.sendAsduInternal
  simp [hst, hfull, Iec.Srv104.Slave.setGrp]

/-- non-vacuity: a window of 5 straddling the wrap (base 32765: entries 32766, 32767, 0, 1, 2) -/
example : WinInv 2 ([32766, 32767, 0, 1, 2].map fun n => ⟨n, 0, none⟩) 32765 5 := by
  refine ⟨by decide, by decide, by decide, by decide⟩

example : (checkSeq 2 ([32766, 32767, 0, 1, 2].map fun n => ⟨n, 0, none⟩) 0).1 = true ∧
    ((checkSeq 2 ([32766, 32767, 0, 1, 2].map fun n => ⟨n, 0, none⟩) 0).2.1.map (·.seq)) = [1, 2] ∧
    (checkSeq 2 ([32766, 32767, 0, 1, 2].map fun n => ⟨n, 0, none⟩) 3).1 = false ∧
    (checkSeq 2 ([32766, 32767, 0, 1, 2].map fun n => ⟨n, 0, none⟩) 32765).1 = true := by decide

end Iec.Props.C04

namespace Iec.Props.C04
open Iec.KWindow

/-- **client, window full**: `CS104_Connection_sendASDU` reports failure and transmits nothing -/
theorem client_full_refuses (c : Iec.Cli104.Cli) (asdu : List Nat)
    (hfull : isFull (c.maxSent.getD c.p.k) c.win = true) : Iec.Cli104.sendAsdu c asdu = (c, false) := by
  unfold Iec.Cli104.sendAsdu
  simp [hfull]

end Iec.Props.C04
