import Iec.Lemmas.Asdu
/-
C01 — ASDU / information-object codec round-trips for every type and layout.

Statement (properties.jsonl): for every supported ASDU type, information objects built
with the public constructors, added to an ASDU, encoded and parsed back yield the same
type, header, object addresses and field values as normalised by the constructor;
re-encoding what was parsed reproduces the identical bytes; for every legal
COT/CA/IOA size combination, any element count that fits, SQ=0 and SQ=1 where the
standard permits that layout.

Model.  Objects are their *stored representation* (the C struct members after the
constructor, in wire order; `Iec.Layout`); every public getter is a function of the
struct only.  The correspondence run checks on each run that every object produced by
each of the 67 public constructors satisfies `WFVals` (`wf=1` in the stream), that
`Asdu.add` / `Asdu.getElement` produce the octets / stored members the C code produces,
for all types x 12 size configurations x SQ.

Theorems.  `Built a e elems` is the invariant "a is what `create` followed by accepted
`add`s of `elems` yields".  `built_create` + `built_add` (Lemmas/Asdu) establish it for
every sequence of additions (any count that fits - the count limit and the size limit
are consequences of acceptance, see C12); the theorems below read every element back.
No bound on count, sizes or values.
-/
namespace Iec.Props.C01
open Iec.Layout Iec.Asdu

/-- every table entry is found under its own type id (ids are unique and < 256) -/
theorem table_lookup : ∀ e ∈ typeTable, e.typeId < 256 ∧ (lookup e.typeId).map (·.typeId) = some e.typeId ∧
    (lookup e.typeId).map (·.fields) = some e.fields ∧ (lookup e.typeId).map (·.cat) = some e.cat := by
  decide

/-- only the single-object type F_SG_NA_1 has a variable-length part -/
theorem table_noSeg : ∀ e ∈ typeTable, e.cat ≠ .single → noSeg e.fields = true := by decide

/-- the table has 67 entries -/
theorem table_size : typeTable.length = 67 := by decide

/-- header fields written by `CS101_ASDU_create` read back (normalised to their field width) -/
theorem create_header (p : Params) (hp : p.Legal) (sq : Bool) (cot oa ca : Nat) (test neg : Bool) :
    let a := create p sq cot oa ca test neg
    a.isSequence = sq ∧ a.count = 0 ∧ a.typeId = 0 ∧ a.cot = cot % 64 ∧ a.isTest = test ∧ a.isNegative = neg ∧
    a.oa = (if p.sizeOfCOT < 2 then -1 else ((oa % 256 : Nat) : Int)) ∧
    a.ca = (if p.sizeOfCA > 1 then ca % 65536 else ca % 256) ∧ a.bytes.length = p.hdrLen := by
  obtain ⟨h1, h2, _⟩ := hp
  have hb : ∀ c, c < 64 → ∀ t n : Bool,
      let b2 := ((c ||| (if t then 0x80 else 0) ||| (if n then 0x40 else 0)) % 256)
      (b2 &&& 0x3f = c) ∧ (((b2 &&& 0x80) == 0x80) = t) ∧ (((b2 &&& 0x40) == 0x40) = n) := by
    decide +kernel
  have hc := hb (cot % 64) (Nat.mod_lt _ (by omega)) test neg
  have e63 : cot &&& 0x3f = cot % 64 := Iec.Bits.and_63 cot
  rcases h1 with h1 | h1 <;> rcases h2 with h2 | h2 <;>
    (simp only [create, Asdu.isSequence, Asdu.count, Asdu.typeId, Asdu.cot, Asdu.isTest, Asdu.isNegative,
      Asdu.oa, Asdu.ca, Asdu.byte, Params.hdrLen, h1, h2, e63]
     simp only [] at hc
     refine ⟨?_, ?_, ?_, ?_, ?_, ?_, ?_, ?_, ?_⟩ <;>
       first
       | (cases sq <;> simp; done)
       | (simp; done)
       | (simp; exact hc.1)
       | (simp; exact hc.2.1)
       | (simp; exact hc.2.2)
       | (simp; omega))

/-- a freshly created ASDU satisfies the invariant with no elements -/
theorem built_create (p : Params) (hp : p.Legal) (e : TypeEntry) (sq : Bool) (cot oa ca : Nat) (test neg : Bool) :
    Built (create p sq cot oa ca test neg) e [] := by
  obtain ⟨h1, h2, _⟩ := hp
  have hh := create_header p ⟨h1, h2, ‹_›⟩ sq cot oa ca test neg
  simp only at hh
  refine ⟨by simp [create, Params.hdrLen]; omega, Nat.le_of_eq hh.2.2.2.2.2.2.2.2.symm, ?_, hh.2.1, by simp,
    ?_, by simp, by simp⟩
  · intro b hb
    simp only [create] at hb
    rw [List.mem_append, List.mem_append] at hb
    rcases hb with (hb | hb) | hb
    · simp only [List.mem_cons, List.not_mem_nil, or_false] at hb
      rcases hb with rfl | rfl | rfl
      · omega
      · cases sq <;> simp
      · omega
    · split at hb
      · simp only [List.mem_cons, List.not_mem_nil, or_false] at hb; omega
      · simp at hb
    · split at hb
      · simp only [List.mem_cons, List.not_mem_nil, or_false] at hb; omega
      · simp only [List.mem_cons, List.not_mem_nil, or_false] at hb; omega
  · simp only [Asdu.payload, payloadOf]
    have : (create p sq cot oa ca test neg).bytes.length = p.hdrLen := hh.2.2.2.2.2.2.2.2
    rw [List.drop_eq_nil_of_le (by simp only [create] at this ⊢; omega)]
    cases (create p sq cot oa ca test neg).isSequence <;> simp

/-- **C01 (types with a sequence branch, both layouts).** Every element of a built ASDU
reads back with its object address and stored values. -/
theorem roundtrip_seq (a : Asdu) (e : TypeEntry) (elems : List (Nat × List Nat)) (hb : Built a e elems)
    (he : e ∈ typeTable) (hc : e.cat = .seq) (i : Nat) (hi : i < elems.length) :
    a.getElement i = some elems[i] := by
  obtain ⟨hid, hl, hlf, hlc⟩ := table_lookup e he
  have hne : elems ≠ [] := by intro h; simp [h] at hi
  have ht : a.typeId = e.typeId := by rw [hb.typ hne, Nat.mod_eq_of_lt hid]
  have hn : NoSeg e.fields := table_noSeg e he (by rw [hc]; decide)
  unfold Asdu.getElement
  rw [ht]
  cases hlk : lookup e.typeId with
  | none => simp [hlk] at hl
  | some e' =>
    simp only [hlk, Option.map_some, Option.some.injEq] at hl hlf hlc
    simp only [hlc, hc]
    have hdec : ∀ start w, decodeObj a.p e' a.payload start w = decodeObj a.p e a.payload start w := by
      intro start w; simp [decodeObj, hlf]
    rw [hlf]
    cases hs : a.isSequence with
    | true =>
      simp only [if_true, hdec]
      rw [hb.pay, hs]
      cases elems with
      | nil => exact absurd rfl hne
      | cons y ys =>
        simp only [payloadOf, if_true]
        rw [get_seq a.p e (y :: ys) hn hb.wf y.1 i hi, parseIOA_leBytes _ _ (hb.wf y (by simp)).2]
        have := hb.consec hs i hi
        simp only [List.headD_cons] at this
        simp only [Option.map_some, ← this]
    | false =>
      simp only [Bool.false_eq_true, if_false, hdec]
      rw [hb.pay, hs]
      simp only [payloadOf, Bool.false_eq_true, if_false]
      exact get_nonseq a.p e elems hn hb.wf i hi

/-- **C01 (command / parameter types 45-64, 110-113: individually addressed only).** -/
theorem roundtrip_noseq (a : Asdu) (e : TypeEntry) (elems : List (Nat × List Nat)) (hb : Built a e elems)
    (he : e ∈ typeTable) (hc : e.cat = .noseq) (hs : a.isSequence = false) (i : Nat) (hi : i < elems.length) :
    a.getElement i = some elems[i] := by
  obtain ⟨hid, hl, hlf, hlc⟩ := table_lookup e he
  have hne : elems ≠ [] := by intro h; simp [h] at hi
  have ht : a.typeId = e.typeId := by rw [hb.typ hne, Nat.mod_eq_of_lt hid]
  have hn : NoSeg e.fields := table_noSeg e he (by rw [hc]; decide)
  unfold Asdu.getElement
  rw [ht]
  cases hlk : lookup e.typeId with
  | none => simp [hlk] at hl
  | some e' =>
    simp only [hlk, Option.map_some, Option.some.injEq] at hl hlf hlc
    simp only [hlc, hc]
    have hdec : ∀ start w, decodeObj a.p e' a.payload start w = decodeObj a.p e a.payload start w := by
      intro start w; simp [decodeObj, hlf]
    rw [hlf, hdec, hb.pay, hs]
    simp only [payloadOf, Bool.false_eq_true, if_false]
    exact get_nonseq a.p e elems hn hb.wf i hi

/-- **C01 (single-object types 70, 100-107, 120-125, 127).** The one object reads back
(whatever index is asked for: the C dispatch ignores the index for these types). -/
theorem roundtrip_single (a : Asdu) (e : TypeEntry) (x : Nat × List Nat) (hb : Built a e [x])
    (he : e ∈ typeTable) (hc : e.cat = .single) (hs : a.isSequence = false) (i : Nat) :
    a.getElement i = some x := by
  obtain ⟨hid, hl, hlf, hlc⟩ := table_lookup e he
  have ht : a.typeId = e.typeId := by rw [hb.typ (by simp), Nat.mod_eq_of_lt hid]
  unfold Asdu.getElement
  rw [ht]
  cases hlk : lookup e.typeId with
  | none => simp [hlk] at hl
  | some e' =>
    simp only [hlk, Option.map_some, Option.some.injEq] at hl hlf hlc
    simp only [hlc, hc]
    have hdec : ∀ start w, decodeObj a.p e' a.payload start w = decodeObj a.p e a.payload start w := by
      intro start w; simp [decodeObj, hlf]
    rw [hdec, hb.pay, hs]
    simp only [payloadOf, Bool.false_eq_true, if_false, List.map_cons, List.map_nil, List.flatten_cons,
      List.flatten_nil, List.append_nil]
    have h2 := decodeObj_chunk a.p e x true (hb.wf x (by simp)).1 (hb.wf x (by simp)).2 [] []
    simpa using h2

/-- **Re-encoding.** Two ASDUs holding the same elements under the same parameters and
layout have identical type, VSQ count and payload octets: encoding what was parsed
reproduces the octets (the other header octets are copied verbatim, `create_header`). -/
theorem reencode (a b : Asdu) (e : TypeEntry) (elems : List (Nat × List Nat)) (ha : Built a e elems)
    (hb : Built b e elems) (hp : a.p = b.p) (hs : a.isSequence = b.isSequence) (hne : elems ≠ []) :
    a.payload = b.payload ∧ a.typeId = b.typeId ∧ a.count = b.count := by
  refine ⟨?_, ?_, ?_⟩
  · rw [ha.pay, hb.pay, hp, hs]
  · rw [ha.typ hne, hb.typ hne]
  · rw [ha.count, hb.count]

/-- non-vacuity: an SQ=1 M_ME_NB_1 ASDU with two elements under the 2/2/3 sizes -/
example :
    let p : Params := ⟨2, 2, 3, 249⟩
    let e := (lookup 11).get!
    let a0 := create p true 3 0 1 false false
    let a1 := (a0.add e 100 [0x1234, 0x10]).1
    let a2 := (a1.add e 101 [0xffff, 0x00]).1
    a2.count = 2 ∧ a2.getElement 1 = some (101, [0xffff, 0x00]) ∧ a2.getElement 2 = none := by
  decide

end Iec.Props.C01
