/-
C15 — CS101 frame count bit: alternation, retransmission, duplicate suppression.
Model: Iec.Link101 (tied to link_layer.c by checks/link_common.py).

Step theorems (one frame, any state) for the unbalanced slave, the balanced station and the unbalanced master,
and, for the unbalanced slave, history theorems over every stream of requests with every pattern of repetitions
(`secU_stream_exactly_once`, `secU_repetitions_invisible`, `secU_repeated_response_identical`; balanced station:
`bal_stream_exactly_once`): the station refines
the specification `Iec.Link101.View.stream` (`Lemmas/Link101Hist.lean`, `runStream_refines`).  Unbalanced master, every history of one slave
connection: `master_fcb_discipline` (`Lemmas/Link101Fcb.lean`); balanced station, every history: `balanced_fcb_discipline`
(`Lemmas/Link101FcbBal.lean`).
-/
import Iec.Model.Link101
import Iec.Lemmas.Link101Hist
import Iec.Lemmas.Link101BalHist
import Iec.Lemmas.Link101Fcb
import Iec.Lemmas.Link101FcbBal
namespace Iec.Props.C15
open Iec.Link101

/-! ### secondary stations -/

theorem checkFCB_spec (e fcb : Bool) :
    checkFCB e fcb = if fcb = e then (true, !e) else (false, e) := by
  cases e <;> cases fcb <;> rfl

/-- the observation list hands something to the application (`HandleReceivedData`) -/
def delivers (o : List Obs) : Prop := ∃ bc d, Obs.rx bc d ∈ o
/-- the observation list writes a frame -/
def answers (o : List Obs) : Prop := ∃ f, Obs.tx f ∈ o

theorem ack_no_delivery (s : SecU) (a b : Bool) : ¬ delivers (s.ack a b).2 := by
  unfold SecU.ack
  split <;> (rintro ⟨bc, d, h⟩; simp [LL.sendSingle, LL.sendFixed] at h)

theorem ack_answers (s : SecU) (a b : Bool) : answers (s.ack a b).2 := by
  unfold SecU.ack answers
  split
  · exact ⟨_, by simp [LL.sendSingle]; rfl⟩
  · exact ⟨_, by simp [LL.sendFixed]; rfl⟩

theorem ack_keeps (s : SecU) (a b : Bool) :
    (s.ack a b).1.expectedFcb = s.expectedFcb ∧ (s.ack a b).1.c1 = s.c1 ∧ (s.ack a b).1.c2 = s.c2 := by
  unfold SecU.ack; split <;> exact ⟨rfl, rfl, rfl⟩

/-- **C15, unbalanced slave, duplicate suppression.** A confirmed user-data frame whose
FCB is not the expected one — a retransmission — is not delivered to the application, is
acknowledged again, and leaves the expectation where it was. -/
theorem secU_repeat_not_delivered (s : SecU) (bc fcb : Bool) (us : Nat) (ul : Int)
    (h : fcb ≠ s.expectedFcb) :
    ¬ delivers (s.userData bc fcb true us ul).2 ∧ answers (s.userData bc fcb true us ul).2 ∧
    (s.userData bc fcb true us ul).1.expectedFcb = s.expectedFcb := by
  unfold SecU.userData
  simp only [if_true, checkFCB_spec, if_neg h, Bool.false_and]
  exact ⟨ack_no_delivery _ _ _, ack_answers _ _ _, (ack_keeps _ _ _).1⟩

/-- **C15, unbalanced slave, alternation.** A confirmed user-data frame with the expected
FCB is delivered exactly once — the octets from the receive buffer — is acknowledged, and
the expectation toggles; so its retransmission falls under `secU_repeat_not_delivered`. -/
theorem secU_new_frame_delivered_once (s : SecU) (bc : Bool) (us : Nat) (ul : Int) (hl : ul > 0) :
    ∃ o, (s.userData bc s.expectedFcb true us ul).2 = Obs.rx bc (userDataOf s.ll.buf us ul) :: o ∧
      ¬ delivers o ∧ answers o ∧
      (s.userData bc s.expectedFcb true us ul).1.expectedFcb = !s.expectedFcb := by
  unfold SecU.userData
  simp only [if_true, checkFCB_spec, Bool.true_and, decide_eq_true_eq, hl, List.cons_append, List.nil_append]
  exact ⟨_, rfl, ack_no_delivery _ _ _, ack_answers _ _ _, (ack_keeps _ _ _).1⟩

/-- hence: the same frame twice in a row is delivered once -/
theorem secU_twice_once (s : SecU) (bc fcb : Bool) (us : Nat) (ul : Int) (h : fcb = s.expectedFcb) :
    ¬ delivers ((s.userData bc fcb true us ul).1.userData bc fcb true us ul).2 := by
  subst h
  have hne : s.expectedFcb ≠ (s.userData bc s.expectedFcb true us ul).1.expectedFcb := by
    have : (s.userData bc s.expectedFcb true us ul).1.expectedFcb = !s.expectedFcb := by
      unfold SecU.userData
      simp only [if_true, checkFCB_spec]
      exact (ack_keeps _ _ _).1
    rw [this]; cases s.expectedFcb <;> decide
  exact (secU_repeat_not_delivered _ bc _ us ul hne).1

/-- **C15, reset.** An accepted reset (FCB = FCV = 0) is acknowledged and restarts the
expectation at 1, for RESET REMOTE LINK as for RESET FCB. -/
theorem secU_reset_restarts (s : SecU) (fc : Nat) :
    (s.reset fc false false).1.expectedFcb = true ∧ answers (s.reset fc false false).2 := by
  unfold SecU.reset
  simp only [Bool.or_self, Bool.false_eq_true, if_false]
  constructor
  · exact (ack_keeps _ _ _).1
  · obtain ⟨f, hf⟩ := ack_answers { s with expectedFcb := true } false true
    exact ⟨f, List.mem_append.mpr (Or.inl hf)⟩

/-- **C15, unbalanced slave, repeated poll.** A class-1/2 request whose FCB shows a
repetition takes nothing from the application queues and sends the stored previous
response again when there is one (otherwise the no-data answer). -/
theorem secU_repeated_poll (s : SecU) (cls1 fcb : Bool) (h : fcb ≠ s.expectedFcb) :
    (s.poll cls1 fcb true).1.c1 = s.c1 ∧ (s.poll cls1 fcb true).1.c2 = s.c2 ∧
    (s.poll cls1 fcb true).1.expectedFcb = s.expectedFcb ∧
    (s.ll.userData ≠ [] → (s.poll cls1 fcb true).2 =
      (s.ll.sendVar 8 s.ll.address false false (!s.c1.isEmpty) false s.ll.userData).2) := by
  unfold SecU.poll SecU.answer
  simp only [if_true, checkFCB_spec, if_neg h, Bool.not_false, if_true]
  by_cases hu : s.ll.userData.length > 0
  · simp [hu]
  · have he : s.ll.userData = [] := by
      cases hq : s.ll.userData with
      | nil => rfl
      | cons x xs => rw [hq] at hu; simp at hu
    simp only [hu, if_false]
    refine ⟨?_, ?_, ?_, fun hne => absurd he hne⟩ <;> (split <;> rfl)

/-! ### balanced secondary -/

theorem bal_ack_no_delivery (s : Bal) : ¬ delivers (s.ack).2 := by
  unfold Bal.ack
  split <;> (rintro ⟨bc, d, h⟩; simp [LL.sendSingle, LL.sendFixed] at h)

/-- **C15, balanced station, duplicate suppression and repeated acknowledgement.** A frame
with FCV set whose FCB is not the expected one is never delivered; it is answered with the
ACK again exactly when the frame it repeats had been acknowledged; the expectation stays. -/
theorem bal_repeat (s : Bal) (fc : Nat) (fcb : Bool) (us : Nat) (ul : Int) (h : fcb ≠ s.expectedFcb) :
    ¬ delivers (s.secHandle fc fcb true us ul).2 ∧
    (s.secHandle fc fcb true us ul).1.expectedFcb = s.expectedFcb ∧
    (s.lastAck = true → (s.secHandle fc fcb true us ul).2 = (s.ack).2) ∧
    (s.lastAck = false → (s.secHandle fc fcb true us ul).2 = []) := by
  unfold Bal.secHandle
  simp only [if_true, checkFCB_spec, if_neg h, Bool.not_false, if_true]
  cases hl : s.lastAck
  · simp only [Bool.false_eq_true, if_false]
    exact ⟨(fun ⟨_, _, hh⟩ => nomatch hh), trivial, (fun hh => nomatch hh), (fun _ => trivial)⟩
  · simp only [if_true]
    refine ⟨bal_ack_no_delivery _, ?_, (fun _ => ?_), (fun hh => nomatch hh)⟩
    · unfold Bal.ack; split <;> rfl
    · unfold Bal.ack; split <;> rfl

/-- a reset restarts the balanced secondary at 1 and forgets the stored acknowledgement -/
theorem bal_reset_restarts (s : Bal) (us : Nat) (ul : Int) :
    (s.secHandle 0 false false us ul).1.expectedFcb = true ∧
    (s.secHandle 0 false false us ul).1.lastAck = false := by
  unfold Bal.secHandle
  simp only [Bool.false_eq_true, if_false, Bool.not_true, if_true]
  unfold Bal.ack
  split <;> exact ⟨rfl, rfl⟩

/-! ### primary stations -/

/-- the octet strings written, in order -/
def txBytes (o : List Obs) : List (List Nat) :=
  o.filterMap (fun x => match x with | .tx f => some f.bytes | _ => none)

theorem txBytes_sendVar (l : LL) (fc a : Nat) (prm dir acd dfc : Bool) (d : List Nat) :
    txBytes (l.sendVar fc a prm dir acd dfc d).2 =
      (varFrame l.p.addrLen (ctrl fc prm dir acd dfc) a d).toList := by
  unfold LL.sendVar
  simp only
  split <;> rename_i hv <;> (conv => rhs; rw [hv]) <;> simp [txBytes]

theorem txBytes_sendFixed (l : LL) (fc a : Nat) (prm dir acd dfc : Bool) :
    txBytes (l.sendFixed fc a prm dir acd dfc).2 = [fixedFrame l.p.addrLen (ctrl fc prm dir acd dfc) a] := by
  simp [LL.sendFixed, txBytes]

theorem sendVar_p (l : LL) (fc a : Nat) (prm dir acd dfc : Bool) (d : List Nat) :
    (l.sendVar fc a prm dir acd dfc d).1.p = l.p := by
  unfold LL.sendVar; simp only; split <;> rfl

/-- **C15, unbalanced master: a new confirmed frame carries the current frame count bit,
which then toggles.** -/
theorem priU_new_frame (c : SlaveConn) (l : LL) (now : Nat) (h3 : c.pstate = 3) (ht : c.testFn = false)
    (hm : c.hasMsg = true) :
    txBytes (c.run l now).2.2 = (varFrame l.p.addrLen (ctrl 3 true false c.nextFcb true) c.address c.msg).toList ∧
    (c.run l now).1.nextFcb = !c.nextFcb ∧ (c.run l now).1.pstate = 4 ∧ (c.run l now).1.msg = c.msg ∧
    (c.run l now).1.lastSend = now ∧ (c.run l now).1.origSend = now ∧ (c.run l now).1.address = c.address ∧
    (c.run l now).2.1.p = l.p := by
  unfold SlaveConn.run
  simp only [h3, ht, hm, show (3 : Nat) ≠ 7 by decide, show (3 : Nat) ≠ 0 by decide, show (3 : Nat) ≠ 1 by decide,
    show (3 : Nat) ≠ 2 by decide, if_false, if_true, Bool.false_eq_true]
  refine ⟨txBytes_sendVar _ _ _ _ _ _ _ _, ?_⟩
  simp [sendVar_p]

/-- **C15, unbalanced master: after the acknowledge timeout and before the repeat timeout the
outstanding frame is repeated with the frame count bit it was sent with; nothing else changes.** -/
theorem priU_repeat (c : SlaveConn) (l : LL) (now : Nat) (h4 : c.pstate = 4) (hle : c.lastSend ≤ now)
    (ha : now > c.lastSend + l.p.tAck) (hr : ¬ now > c.origSend + l.p.tRepeat) :
    txBytes (c.run l now).2.2 = (varFrame l.p.addrLen (ctrl 3 true false (!c.nextFcb) true) c.address c.msg).toList ∧
    (c.run l now).1.nextFcb = c.nextFcb ∧ (c.run l now).1.pstate = 4 ∧ (c.run l now).1.msg = c.msg := by
  unfold SlaveConn.run
  have hgt : ¬ c.lastSend > now := by omega
  simp only [h4, show (4 : Nat) ≠ 7 by decide, show (4 : Nat) ≠ 0 by decide, show (4 : Nat) ≠ 1 by decide,
    show (4 : Nat) ≠ 2 by decide, show (4 : Nat) ≠ 3 by decide, if_false, if_true, hgt, ha, hr]
  refine ⟨txBytes_sendVar _ _ _ _ _ _ _ _, ?_⟩
  simp

/-- hence: **the repetition is the identical frame** -/
theorem priU_repetition_identical (c : SlaveConn) (l : LL) (t0 t1 : Nat) (h3 : c.pstate = 3)
    (ht : c.testFn = false) (hm : c.hasMsg = true) (hle : t0 ≤ t1) (ha : t1 > t0 + l.p.tAck)
    (hr : ¬ t1 > t0 + l.p.tRepeat) :
    txBytes (((c.run l t0).1).run (c.run l t0).2.1 t1).2.2 = txBytes (c.run l t0).2.2 := by
  obtain ⟨e0, e1, e2, e3, e4, e5, e6, e7⟩ := priU_new_frame c l t0 h3 ht hm
  have := priU_repeat (c.run l t0).1 (c.run l t0).2.1 t1 e2 (by rw [e4]; exact hle)
    (by rw [e4, e7]; exact ha) (by rw [e5, e7]; exact hr)
  rw [this.1, e0, e1, e3, e6, e7, Bool.not_not]

/-- **C15, unbalanced master: after the repeat timeout nothing is sent any more and the link
is reported in error** (state 1 = LL_STATE_ERROR), to be re-established from PLL_TIMEOUT. -/
theorem priU_gives_up (c : SlaveConn) (l : LL) (now : Nat) (h4 : c.pstate = 4) (hle : c.lastSend ≤ now)
    (ha : now > c.lastSend + l.p.tAck) (hr : now > c.origSend + l.p.tRepeat) :
    txBytes (c.run l now).2.2 = [] ∧ (c.run l now).1.pstate = 7 ∧ (c.run l now).1.state = 1 ∧
    (c.state ≠ 1 → Obs.st c.address 1 ∈ (c.run l now).2.2) := by
  unfold SlaveConn.run
  have hgt : ¬ c.lastSend > now := by omega
  simp only [h4, show (4 : Nat) ≠ 7 by decide, show (4 : Nat) ≠ 0 by decide, show (4 : Nat) ≠ 1 by decide,
    show (4 : Nat) ≠ 2 by decide, show (4 : Nat) ≠ 3 by decide, if_false, if_true, hgt, ha, hr]
  unfold SlaveConn.setState
  by_cases hs : c.state = 1
  · simp [hs, txBytes]
  · simp [hs, txBytes]

/-- **C15, unbalanced master: every RESET REMOTE LINK restarts the frame count bit at 1**
(both places that send it), and the acknowledgement of the reset does not touch it: the
first frame with FCV after an acknowledged reset carries FCB = 1 by `priU_new_frame`. -/
theorem priU_reset_restarts (c : SlaveConn) (l : LL) (now : Nat) (acd : Bool) (a : Int) (us : Nat) (ul : Int)
    (h1 : c.pstate = 1) :
    (c.handle l now 11 acd false a us ul).1.nextFcb = true ∧ (c.handle l now 11 acd false a us ul).1.pstate = 2 := by
  unfold SlaveConn.handle
  simp only [h1, Bool.false_eq_true, if_false, if_true, show (11 : Nat) ≠ 0 by decide, show (11 : Nat) ≠ 1 by decide]
  unfold SlaveConn.setState
  cases acd <;> simp <;> split <;> simp

theorem priU_reset_restarts_sm (c : SlaveConn) (l : LL) (now : Nat) (h1 : c.pstate = 1) (hw : c.waiting = false) :
    (c.run l now).1.nextFcb = true ∧ (c.run l now).1.pstate = 2 := by
  unfold SlaveConn.run
  simp [h1, hw]

theorem priU_ack_of_reset_keeps_fcb (c : SlaveConn) (l : LL) (now : Nat) (acd : Bool) (a : Int) (us : Nat) (ul : Int)
    (h2 : c.pstate = 2) :
    (c.handle l now 0 acd false a us ul).1.nextFcb = c.nextFcb ∧ (c.handle l now 0 acd false a us ul).1.pstate = 3 := by
  unfold SlaveConn.handle
  simp only [h2, Bool.false_eq_true, if_false, if_true]
  unfold SlaveConn.setState
  cases acd <;> simp <;> split <;> simp

/-- balanced primary: the same three facts -/
theorem bal_new_frame (s : Bal) (now : Nat) (d : List Nat) (rest : List (List Nat)) (h3 : s.pstate = 3)
    (ht : s.testFn = false) (hi : ¬ now - s.lastReceived > s.idleTimeout) (hle : s.lastReceived ≤ now)
    (ho : s.out = d :: rest) :
    txBytes (s.priRun now).2 = (varFrame s.ll.p.addrLen (ctrl 3 true s.ll.dir s.nextFcb true) s.other d).toList ∧
    (s.priRun now).1.nextFcb = !s.nextFcb ∧ (s.priRun now).1.pstate = 4 ∧ (s.priRun now).1.lastAsdu = d ∧
    (s.priRun now).1.testSent = false := by
  unfold Bal.priRun
  have hgt : ¬ s.lastReceived > now := by omega
  simp only [h3, show (3 : Nat) ≠ 0 by decide, show (3 : Nat) ≠ 1 by decide, show (3 : Nat) ≠ 2 by decide,
    if_false, if_true, hgt, hi, ht, ho, Bool.false_eq_true]
  refine ⟨txBytes_sendVar _ _ _ _ _ _ _ _, ?_⟩
  simp

theorem bal_repeat_identical (s : Bal) (now : Nat) (h4 : s.pstate = 4) (hts : s.testSent = false)
    (hle : s.lastSend ≤ now) (ha : now > s.lastSend + s.ll.p.tAck) (hr : ¬ now > s.origSend + s.ll.p.tRepeat) :
    txBytes (s.priRun now).2 = (varFrame s.ll.p.addrLen (ctrl 3 true s.ll.dir (!s.nextFcb) true) s.other s.lastAsdu).toList ∧
    (s.priRun now).1.nextFcb = s.nextFcb := by
  unfold Bal.priRun
  have hgt : ¬ s.lastSend > now := by omega
  simp only [h4, show (4 : Nat) ≠ 0 by decide, show (4 : Nat) ≠ 1 by decide, show (4 : Nat) ≠ 2 by decide,
    show (4 : Nat) ≠ 3 by decide, if_false, if_true, hgt, ha, hr, hts, Bool.false_eq_true]
  refine ⟨txBytes_sendVar _ _ _ _ _ _ _ _, ?_⟩
  simp

theorem bal_reset_restarts_fcb (s : Bal) (now : Nat) (h1 : s.pstate = 1) :
    (s.priHandle now 11 false).1.nextFcb = true ∧ (s.priHandle now 11 false).1.pstate = 2 := by
  unfold Bal.priHandle
  simp only [h1, Bool.false_eq_true, if_false, if_true, show (11 : Nat) ≠ 0 by decide, show (11 : Nat) ≠ 1 by decide,
    show ¬ ((11 : Nat) = 8 ∨ (11 : Nat) = 9) by decide]
  unfold Bal.setState
  simp; split <;> simp

/-! ### histories: every stream of requests, every pattern of repetitions (unbalanced slave) -/

/-- **each confirmed user-data frame is delivered to the application exactly once, in order, however often it
(or any poll in between) is retransmitted**: for every stream of requests (user data and class-1/2 polls, each
with the frame-count-valid bit) sent by a primary in step with the station, each repeated any number of times,
what `HandleReceivedData` sees is the user data of the frames, once each, in the order sent. -/
theorem secU_stream_exactly_once (s : SecU) (rs : List (Req × Nat)) (hq : s.view.QueuesOk) :
    rxOf (s.runStream rs).2 = (rs.map fun x => x.1.payload).flatten := by
  rw [(runStream_refines rs s hq).2.2, stream_rx]

/-- **repetitions are invisible**: the application queues, the expected frame count bit and the stored response
at the end are those of the same stream without any repetition — in particular a repeated poll takes nothing
more from the class-1/2 queues. -/
theorem secU_repetitions_invisible (s : SecU) (rs : List (Req × Nat)) (hq : s.view.QueuesOk) :
    (s.runStream rs).1.view = (s.runStream (rs.map fun x => (x.1, 0))).1.view := by
  rw [(runStream_refines rs s hq).1, (runStream_refines _ s hq).1, stream_view_indep]

/-- **a repeated request is answered by repeating the previous response**: the octets written are those of the
specification, which gives the response to each accepted request `n + 1` times over (`stream_tx_cons`). -/
theorem secU_repeated_response_identical (s : SecU) (rs : List (Req × Nat)) (hq : s.view.QueuesOk) :
    txB (s.runStream rs).2 = (s.view.stream rs).2.1 := (runStream_refines rs s hq).2.1

theorem stream_tx_cons (v : View) (r : Req) (n : Nat) (rest : List (Req × Nat)) :
    (v.stream ((r, n) :: rest)).2.1 =
      (List.replicate (n + 1) ((v.accept r).resp r)).flatten ++ ((v.accept r).stream rest).2.1 := rfl

theorem stream_fcb (rs : List (Req × Nat)) : ∀ v : View,
    (v.stream rs).1.expectedFcb = (if rs.length % 2 = 0 then v.expectedFcb else !v.expectedFcb) := by
  induction rs with
  | nil => intro v; rfl
  | cons x rest ih =>
    intro v
    obtain ⟨r, n⟩ := x
    show ((v.accept r).stream rest).1.expectedFcb = _
    rw [ih, accept_toggles]
    simp only [List.length_cons]
    by_cases h : rest.length % 2 = 0
    · have : ¬ (rest.length + 1) % 2 = 0 := by omega
      simp [h, this]
    · have : (rest.length + 1) % 2 = 0 := by omega
      simp [h, this]

/-- the expected bit after a stream: toggled once per request, whatever the repetitions -/
theorem secU_stream_fcb (s : SecU) (rs : List (Req × Nat)) (hq : s.view.QueuesOk) :
    (s.runStream rs).1.expectedFcb = (if rs.length % 2 = 0 then s.expectedFcb else !s.expectedFcb) := by
  have : (s.runStream rs).1.expectedFcb = (s.runStream rs).1.view.expectedFcb := rfl
  rw [this, (runStream_refines rs s hq).1, stream_fcb]; rfl

def demoSec : SecU := { ll := { p := ⟨1, 200, 1000, false, 500, by omega⟩, address := 5 }, c2 := [[9, 9]] }
/-- non-vacuity (a test): data, a poll repeated twice, data repeated once — two deliveries, one queue entry taken -/
example : rxOf (demoSec.runStream
    [(.data [0, 0, 0, 0, 0, 0, 1, 2] 6 2, 0), (.poll [] false, 2), (.data [0, 0, 0, 0, 0, 0, 3] 6 1, 1)]).2 = [[1, 2], [3]] := by decide
example : (demoSec.runStream [(.poll [] false, 2)]).1.c2 = [] := by decide
example : demoSec.view.QueuesOk := ⟨by decide, by decide⟩

/-! ### histories: balanced station -/

/-- **balanced station: each confirmed user-data frame is delivered to the application exactly once, in order,
however often it is retransmitted and whatever the application answers to each copy** -/
theorem bal_stream_exactly_once (s : Bal) (rs : List (BReq × Bool × List Bool)) :
    rxOf (s.runData rs).2 = (rs.map fun x => x.1.payload).flatten := (bal_runData_spec rs s).1

theorem bal_stream_fcb (s : Bal) (rs : List (BReq × Bool × List Bool)) :
    (s.runData rs).1.expectedFcb = (if rs.length % 2 = 0 then s.expectedFcb else !s.expectedFcb) := (bal_runData_spec rs s).2

/-! ### the unbalanced master, every history of one slave connection -/

/-- **frame count bit of the primary, over every history.** Take a slave connection of the CS101 master as
`LinkLayerPrimaryUnbalanced_addSlaveConnection` creates it and ANY sequence of: state-machine runs at any times, received
frames of any function code / DFC / ACD in any state (acknowledgements, NACKs, status, data, garbage function codes),
user data handed over by the application (that fits a frame), poll and link-test requests. Then, among the frames written
for that slave, in the order they are written: a RESET REMOTE LINK starts a new round; the first frame with FCV = 1 of a
round carries FCB = 1; every further FCV frame either toggles the bit or is octet for octet the FCV frame before it (a
retransmission after an acknowledgement time-out) - `trackAll` never reports a violation. -/
theorem master_fcb_discipline (aL a : Nat) (l : LL) (hl : l.p.addrLen = aL) (ops : List FOp) :
    ∃ last, trackAll none (FOp.runAll ({ address := a }, l) ops) = some last :=
  runAll_fcb ops ({ address := a }, l) none (by show J l.p.addrLen _ none; rw [hl]; exact J_init aL a)

/-- the tracker does reject what the property forbids: after a reset a first FCV frame with FCB = 0, and a changed frame
under an unchanged bit -/
example : track none (fixedFrame 1 (ctrl 10 true false false true) 5) = none ∧
    track (some (fixedFrame 1 (ctrl 10 true false true true) 5)) (fixedFrame 1 (ctrl 11 true false true true) 5) = none ∧
    track (some (fixedFrame 1 (ctrl 10 true false true true) 5)) (fixedFrame 1 (ctrl 11 true false false true) 5) =
      some (some (fixedFrame 1 (ctrl 11 true false false true) 5)) := by decide

/-- non-vacuity on a concrete history: status request, RESET REMOTE LINK, two polls - the control octets written are
0x49 (FC 9), 0x40 (FC 0), 0x7a (FC 10, FCV, FCB = 1), 0x5b (FC 11, FCV, FCB = 0) -/
def fcbDemoLL : LL := { p := ⟨1, 200, 1000, false, 500, by omega⟩, address := 0, buf := [] }
example : (FOp.runAll ({ address := 5 }, fcbDemoLL) [.run 0, .handle 10 11 false false 5 0 0, .handle 20 0 false false 5 0 0,
      .run 30, .req1, .run 40, .handle 50 9 false false 5 0 0, .req2, .run 60]).filterMap
      (fun o => match o with | .tx f => some (ctrlOf f.bytes) | _ => none) = [0x49, 0x40, 0x7a, 0x5b] := by decide

/-- **frame count bit of the balanced station's primary part, over every history.** For a balanced station as
`LinkLayerBalanced_create` makes it and ANY sequence of primary state-machine runs, frames handled by its primary part (any
function code, DFC), frames handled by its secondary part (which writes acknowledgements and status frames with PRM = 0),
user data queued by the application (that fits a frame) and link-test requests: among the frames it writes with PRM = 1,
the first FCV frame after a RESET REMOTE LINK carries FCB = 1 and every further one toggles the bit or is octet for octet
the FCV frame before it; the frames of the secondary part are not concerned and never disturb the count. -/
theorem balanced_fcb_discipline (l : LL) (other : Nat) (ops : List BOp) :
    ∃ last, trackAllB none (BOp.runAll { ll := l, other := other } ops) = some last :=
  runAllB_fcb ops { ll := l, other := other } none (JB_init l other)

end Iec.Props.C15

