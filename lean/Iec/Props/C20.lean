/-
C20 — file transfer through the file-service plugin is byte-exact and checksummed.

Model: Iec.FileSrv (file_server.c: handleAsdu + runTask over decoded requests, application side
as explicit environment), byte layer Iec.FileSrvBytes; tie: checks/c20.py (differential of the
real plugin against the model after every operation + model-free oracles).

Decided here, for files of 1..254 non-empty sections of ANY sizes, ANY segment size >= 1, ANY
number of negative section acknowledgements per section, from ANY idle server state (whatever an
earlier, possibly abandoned transfer left in the other fields):

* `download_procedure`      the complete reply trace of the server to a procedure-following master
* `download_receives_file`  the master reassembles exactly the octets of the file
* `download_segments_fit`   no segment is longer than the segment size; `segment_asdu_fits`: with the
                            segment size of FileSegment_GetMaxDataSize the ASDU fits maxSizeOfASDU
* `download_section_checksums`, `download_file_checksum`   LAST SEGMENT / LAST SECTION carry the
                            modulo-256 sums of the section / the file, also after repeated sections
* `download_provider_told`  the provider is told success, once, at the end

and for ARBITRARY histories (any requests of any type in any order on any connection, truncated or
unrelated ASDUs, repeated messages, any clock with any number of supervision timeouts, uploads in
between), as long as the master does not itself decline a section with a negative CALL SECTION:

* `success_only_if_all_octets`  at every point where `transferComplete(true)` is reported, the octets a
                            procedure-following master has reassembled from the messages sent so far in this
                            transfer are exactly the file (and no pass is half-received)

Upload (the master sends a file to the receiver callback):

* `upload_procedure`        from ANY server state, for ANY sections cut into ANY segments: the receiver callback
                            gets every segment in order at offset = octets of the section delivered before it,
                            every section and the file are acknowledged positively, `finished(SUCCESS)` is reported
* `upload_receives_file`    the octets handed to the receiver, in order, are the file
* `upload_success_only_if_complete`  for ARBITRARY histories: at every `finished(SUCCESS)` the octets delivered to
                            the receiver in positively acknowledged sections are exactly as many as the master
                            announced in FILE READY, and every segment so far was delivered at the right offset
                            (invariant `GoodU`; a section is acknowledged positively only if its length and
                            checksum match what the master announced - `onLastSeg_goodu`)

Hypotheses that the statement of C20 does not make and that the proof needs — both recorded in
DESIGN.md: sections are non-empty and there is at least one (an EMPTY file is announced as an
empty section 1 and the procedure cannot complete: observation, not claimed); at most 254 sections
(the section name is one octet).
-/
import Iec.Lemmas.FileSrvUpload
namespace Iec.Props.C20
open Iec.FileSrv

/-- the sections of the file with the number of negative acknowledgements the master gives to each -/
abbrev Plan := List (List Nat × Nat)

/-- `plan` describes the file offered by `e`: 1..254 non-empty sections -/
structure PlanFor (e : Env) (plan : Plan) : Prop where
  file : plan.map Prod.fst = e.file
  nonempty : plan ≠ []
  sections : ∀ p ∈ plan, p.1 ≠ []
  count : plan.length ≤ 254

/-- **C20, download.** The server's replies to a master that follows select / call file / call section /
acknowledge, with any number of negative section acknowledgements, are exactly `downloadOut`: FILE READY with
the file length, per section SECTION READY with the section length, per pass the section cut into segments
followed by LAST SEGMENT, after the last section LAST SECTION, and `transferComplete(true)` at the positive
file acknowledgement.  Holds from every idle state. -/
theorem download_procedure (e : Env) (s0 : Srv) (conn now oa : Nat) (plan : Plan)
    (hf : e.hasFiles = true) (hp : PlanFor e plan) (hst : s0.st = .idle) (hseg : 0 < s0.maxSeg) :
    ∃ s', run e s0 (downloadOps e conn now oa s0.maxSeg plan) = (s', downloadOut e conn s0.oa oa s0.maxSeg plan) ∧
      s'.st = .idle ∧ s'.selected = false := by
  obtain ⟨file, nonempty, sections, count⟩ := hp
  cases plan with
  | nil => exact absurd rfl nonempty
  | cons p tl =>
    obtain ⟨sec, k⟩ := p
    exact download_run e s0 conn now oa sec k tl hf file sections (by simpa using count) hst hseg

/-- **C20, byte-exact.** What a procedure-following master holds at the end (octets of every accepted pass,
repeated passes discarded) is the file. -/
theorem download_receives_file (e : Env) (s0 : Srv) (conn now oa : Nat) (plan : Plan)
    (hf : e.hasFiles = true) (hp : PlanFor e plan) (hst : s0.st = .idle) (hseg : 0 < s0.maxSeg) :
    received (run e s0 (downloadOps e conn now oa s0.maxSeg plan)).2 = e.file.flatten := by
  obtain ⟨s', h, _, _⟩ := download_procedure e s0 conn now oa plan hf hp hst hseg
  rw [h]
  cases plan with
  | nil => exact absurd rfl hp.nonempty
  | cons p tl => exact received_download e conn s0.oa oa s0.maxSeg hseg p tl hp.file

/-- every message of the download trace is one of these -/
theorem downloadOut_mem (e : Env) (conn soa oa m : Nat) (plan : Plan) (o : Out) (ho : o ∈ downloadOut e conn soa oa m plan) :
    o = Out.getFile e.fca e.fioa e.fnof ∨ o = Out.complete true ∨
    (∃ lof, o = Out.send conn oa e.fca e.fioa e.fnof (.fileReady lof true)) ∨
    (∃ j d, o = Out.send conn soa e.fca e.fioa e.fnof (.segment j d) ∧ d.length ≤ m) ∨
    (∃ i, ∃ h : i < plan.length, o = Out.send conn soa e.fca e.fioa e.fnof (.lastSegment (1 + i) (chk plan[i].1))) ∨
    (∃ j l, o = Out.send conn oa e.fca e.fioa e.fnof (.sectionReady j l)) ∨
    (∃ j c', o = Out.send conn oa e.fca e.fioa e.fnof (.lastSection j c')) := by
  unfold downloadOut at ho
  simp only [List.mem_cons, List.mem_append, List.mem_nil_iff, or_false] at ho
  rcases ho with h | h | h | h | h
  · exact Or.inl h
  · exact Or.inr (Or.inr (Or.inl ⟨_, h⟩))
  · exact Or.inr (Or.inr (Or.inr (Or.inr (Or.inr (Or.inl ⟨_, _, h⟩)))))
  · rcases secOut_mem e conn soa oa m plan 1 0 o h with h' | h' | ⟨i, hi, h'⟩ | h'
    · exact Or.inr (Or.inr (Or.inr (Or.inl h')))
    · exact Or.inr (Or.inr (Or.inr (Or.inr (Or.inl h'))))
    · exact Or.inr (Or.inr (Or.inr (Or.inr (Or.inr (Or.inl ⟨_, _, h'⟩)))))
    · exact Or.inr (Or.inr (Or.inr (Or.inr (Or.inr (Or.inr h')))))
  · exact Or.inr (Or.inl h)

/-- **C20, segment size.** No segment sent during the download carries more than `maxSeg` octets. -/
theorem download_segments_fit (e : Env) (s0 : Srv) (conn now oa : Nat) (plan : Plan)
    (hf : e.hasFiles = true) (hp : PlanFor e plan) (hst : s0.st = .idle) (hseg : 0 < s0.maxSeg)
    (c o' ca ioa nof j : Nat) (d : List Nat)
    (hm : Out.send c o' ca ioa nof (.segment j d) ∈ (run e s0 (downloadOps e conn now oa s0.maxSeg plan)).2) :
    d.length ≤ s0.maxSeg := by
  obtain ⟨s', h, _, _⟩ := download_procedure e s0 conn now oa plan hf hp hst hseg
  rw [h] at hm
  rcases downloadOut_mem e conn s0.oa oa s0.maxSeg plan _ hm with h | h | ⟨_, h⟩ | ⟨j', d', h, hl⟩ | ⟨_, _, h⟩ | ⟨_, _, h⟩ | ⟨_, _, h⟩
  all_goals first
    | (cases h; done)
    | (injection h with _ _ _ _ _ h6; injection h6 with _ h8; subst h8; exact hl)

/-- **C20, section checksums.** Every LAST SEGMENT of the download names a section of the file and carries
the modulo-256 sum of that section's octets — in the first pass and in every repeated pass. -/
theorem download_section_checksums (e : Env) (s0 : Srv) (conn now oa : Nat) (plan : Plan)
    (hf : e.hasFiles = true) (hp : PlanFor e plan) (hst : s0.st = .idle) (hseg : 0 < s0.maxSeg)
    (c o' ca ioa nof j chs : Nat)
    (hm : Out.send c o' ca ioa nof (.lastSegment j chs) ∈ (run e s0 (downloadOps e conn now oa s0.maxSeg plan)).2) :
    ∃ sec, e.file[j - 1]? = some sec ∧ 1 ≤ j ∧ chs = sec.sum % 256 := by
  obtain ⟨s', h, _, _⟩ := download_procedure e s0 conn now oa plan hf hp hst hseg
  rw [h] at hm
  rcases downloadOut_mem e conn s0.oa oa s0.maxSeg plan _ hm with h | h | ⟨_, h⟩ | ⟨_, _, h, _⟩ | ⟨i, hi, h⟩ | ⟨_, _, h⟩ | ⟨_, _, h⟩
  all_goals first
    | (cases h; done)
    | (injection h with _ _ _ _ _ h6
       injection h6 with h7 h8
       subst h7 h8
       refine ⟨plan[i].1, ?_, by omega, rfl⟩
       rw [← hp.file]
       simp [hi])

/-- **C20, file checksum.** The download trace ends with LAST SECTION carrying the modulo-256 sum of all
octets of the file, followed only by the report to the provider — whatever sections were repeated. -/
theorem download_file_checksum (e : Env) (s0 : Srv) (conn now oa : Nat) (plan : Plan)
    (hf : e.hasFiles = true) (hp : PlanFor e plan) (hst : s0.st = .idle) (hseg : 0 < s0.maxSeg) :
    ∃ pre, (run e s0 (downloadOps e conn now oa s0.maxSeg plan)).2 = pre ++
      [Out.send conn oa e.fca e.fioa e.fnof (.lastSection (1 + plan.length) (e.file.flatten.sum % 256)), Out.complete true] := by
  obtain ⟨s', h, _, _⟩ := download_procedure e s0 conn now oa plan hf hp hst hseg
  rw [h]
  obtain ⟨pre, hpre⟩ := secOut_last e conn s0.oa oa s0.maxSeg plan 1 0 hp.nonempty (by omega)
  refine ⟨Out.getFile e.fca e.fioa e.fnof :: Out.send conn oa e.fca e.fioa e.fnof (.fileReady (fileSize e.file) true) ::
    Out.send conn oa e.fca e.fioa e.fnof (.sectionReady 1 ((plan.map Prod.fst).headD []).length) :: pre, ?_⟩
  unfold downloadOut
  rw [hpre, hp.file]
  simp [chk, List.append_assoc]

/-- **C20, outcome.** The provider is told the outcome: success, exactly once, as the last event. -/
theorem download_provider_told (e : Env) (s0 : Srv) (conn now oa : Nat) (plan : Plan)
    (hf : e.hasFiles = true) (hp : PlanFor e plan) (hst : s0.st = .idle) (hseg : 0 < s0.maxSeg) :
    ((run e s0 (downloadOps e conn now oa s0.maxSeg plan)).2.filter (fun o => o matches .complete _)) = [Out.complete true] := by
  obtain ⟨s', h, _, _⟩ := download_procedure e s0 conn now oa plan hf hp hst hseg
  rw [h]
  have hnone : ∀ o ∈ secOut e conn s0.oa oa s0.maxSeg 1 0 plan, (o matches .complete _) = false := by
    intro o ho
    rcases secOut_mem e conn s0.oa oa s0.maxSeg plan 1 0 o ho with ⟨_, _, h, _⟩ | ⟨_, _, h⟩ | ⟨_, _, h⟩ | ⟨_, _, h⟩ <;> rw [h]
  unfold downloadOut
  simp only [List.filter_cons, List.filter_append]
  rw [List.filter_eq_nil_iff.mpr (by intro o ho; simp [hnone o ho])]
  simp

/-- **C20, safety.** Whatever unrelated, out-of-sequence or repeated messages and timeouts occur: success is
reported to the provider only when every octet of the file has been transferred.  `ops` is any history of
ASDUs and task calls (any connection, any clock) in which the master does not decline a section; the server
starts in any state outside a download (in particular the fresh one).  `SafeFrom`: at each `complete true`
in the trace the reassembly of everything sent before it equals the file. -/
theorem success_only_if_all_octets (e : Env) (ok : FileOk e) (s0 : Srv) (h0 : Inert s0.st) (ops : List Op)
    (hnd : ∀ op ∈ ops, NoDecline op) :
    SafeFrom e.file.flatten ⟨[], [], 0⟩ (run e s0 ops).2 :=
  run_safe ok ops s0 ⟨[], [], 0⟩ (Good.of_inert h0) hnd

/-- the same from any state reached by any such history (the invariant is inductive) -/
theorem invariant_inductive (e : Env) (ok : FileOk e) (s : Srv) (r : Rx) (g : Good e s r) (op : Op) (hnd : NoDecline op) :
    Good e (step e s op).1 (rxFold r (step e s op).2) := step_good ok g op hnd

/-- **C20, upload.** A master that follows FILE READY / SECTION READY / SEGMENT* / LAST SEGMENT / ... / LAST SECTION,
whatever state the server was in before, however it cuts the sections into segments: the complete sequence of
callbacks and replies is `uploadOut`. -/
theorem upload_procedure (e : Env) (i : UpId) (conn now : Nat) (secs : List (List (List Nat))) (s0 : Srv)
    (hr : e.hasReady = true) (ha : e.accept = true) :
    ∃ s', run e s0 (uploadOps i conn now secs) = (s', uploadOut i conn secs) ∧ s'.st = .idle :=
  upload_run e i conn now secs s0 hr ha

/-- octets handed to the receiver callback, in the order of the calls -/
def delivered : List Out → List Nat
  | [] => []
  | .segRecv _ _ d :: os => d ++ delivered os
  | _ :: os => delivered os

theorem delivered_append (a b : List Out) : delivered (a ++ b) = delivered a ++ delivered b := by
  induction a with
  | nil => rfl
  | cons o os ih => cases o <;> simp [delivered, ih, List.append_assoc]

theorem delivered_segRecvs (n : Nat) : ∀ (segs : List (List Nat)) (off : Nat), delivered (segRecvs n off segs) = segs.flatten := by
  intro segs
  induction segs with
  | nil => intro _; rfl
  | cons d ds ih => intro off; simp [segRecvs, delivered, ih]

theorem delivered_upSecOut (i : UpId) (conn : Nat) : ∀ (secs : List (List (List Nat))) (n : Nat),
    delivered (upSecOut i conn n secs) = (secs.map List.flatten).flatten := by
  intro secs
  induction secs with
  | nil => intro _; rfl
  | cons segs rest ih =>
    intro n
    simp [upSecOut, delivered, delivered_append, delivered_segRecvs, ih]

/-- **C20, upload is octet-exact.** The data of the receiver callbacks, concatenated in call order, is the file
the master sent. -/
theorem upload_receives_file (e : Env) (i : UpId) (conn now : Nat) (secs : List (List (List Nat))) (s0 : Srv)
    (hr : e.hasReady = true) (ha : e.accept = true) :
    delivered (run e s0 (uploadOps i conn now secs)).2 = (secs.map List.flatten).flatten := by
  obtain ⟨s', h, _⟩ := upload_procedure e i conn now secs s0 hr ha
  rw [h]
  simp [uploadOut, delivered, delivered_append, delivered_upSecOut]

/-- **C20, upload safety.** For every history whatsoever, from every state in which the observer is consistent
with the server (in particular the fresh server): whenever `finished(SUCCESS)` is reported, the octets delivered
in positively acknowledged sections number exactly what the master announced, and all offsets were right. -/
theorem upload_success_only_if_complete (e : Env) (s0 : Srv) (h0 : NoUp s0.st) (ops : List Op) :
    SafeUp ⟨0, [], [], true⟩ (run e s0 ops).2 :=
  run_safeUp ops s0 _ (GoodU.of_noup h0 rfl)

/-! non-vacuity: a two-section file, segment size 3, one negative acknowledgement for section 1, from an idle
state that still carries the checksum of an abandoned transfer -/
def exEnv : Env := { file := [[1, 2, 3, 4, 250], [9]], fca := 5, fioa := 100, fnof := 2, hasFiles := true, hasReady := false,
                     accept := false, readyErr := 0 }
def exPlan : Plan := [([1, 2, 3, 4, 250], 1), ([9], 0)]
example : PlanFor exEnv exPlan := ⟨rfl, by decide, by decide, by decide⟩
example : (run exEnv { maxSeg := 3, secChk := 77, fileChk := 13 } (downloadOps exEnv 0 0 7 3 exPlan)).2 =
    downloadOut exEnv 0 0 7 3 exPlan := by decide
example : received (downloadOut exEnv 0 0 7 3 exPlan) = [1, 2, 3, 4, 250, 9] := by decide
example : FileOk exEnv := ⟨by decide, by decide⟩
/-- a history with an out-of-sequence CALL SECTION (refused), a truncated request, a request on another
connection and a jump of the clock still ends in a reported success -/
def exOps : List Op :=
  [.asdu 0 0 (mSelect exEnv 7), .asdu 0 10 (mCallFile exEnv 7), .asdu 0 20 (mCallSection exEnv 7 2),
   .asdu 1 25 { tid := 123, cot := 13, neg := false, ca := 5, oa := 7, obj := none },
   .asdu 0 30 (mCallSection exEnv 7 1), .task 1 35, .task 0 40, .task 0 2900, .task 0 5000,
   .asdu 0 5100 (mAck exEnv 7 1 3), .asdu 0 5200 (mCallSection exEnv 7 2), .task 0 5300, .task 0 5400,
   .asdu 0 5500 (mAck exEnv 7 2 3), .asdu 0 5600 (mAck exEnv 7 2 1)]
example : ∀ op ∈ exOps, NoDecline op := by
  intro op h; simp only [exOps, List.mem_cons, List.mem_nil_iff, or_false] at h
  rcases h with h | h | h | h | h | h | h | h | h | h | h | h | h | h | h <;> subst h <;> simp [NoDecline, mSelect, mCallFile, mCallSection, mAck]
example : Out.complete true ∈ (run exEnv { maxSeg := 3 } exOps).2 := by decide
/-- an upload of two sections in three and one segments into a server that was in the middle of a download -/
example : (run { exEnv with hasReady := true, accept := true } { st := .transmit, secChk := 9, fileChk := 200, recvLen := 5 }
      (uploadOps ⟨5, 100, 2, 7⟩ 0 0 [[[1, 2], [3], [4, 250]], [[9]]])).2 =
    uploadOut ⟨5, 100, 2, 7⟩ 0 [[[1, 2], [3], [4, 250]], [[9]]] := by decide

end Iec.Props.C20
