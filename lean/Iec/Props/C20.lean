/-
C20 — file transfer through the file-service plugin (placeholder; theorems follow).
-/
import Iec.Model.FileSrvBytes
namespace Iec.Props.C20
open Iec.FileSrv

/-- a request with a type id outside 120..127 is not handled by the plugin -/
theorem not_file_service (e : Env) (s : Srv) (conn now : Nat) (r : Req) (h : r.tid < 120 ∨ r.tid > 127) :
    handleAsdu e s conn now r = none := by
  simp [handleAsdu, h]

end Iec.Props.C20
