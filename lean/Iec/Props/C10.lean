/-
C10 — no peer input can crash, corrupt or wedge a protocol stack.  PARTIAL (DESIGN.md section 9).

What Lean decides, on the models that the other checks tie to the C code: every step function is total
(a Lean function: no partiality, no exception), and at the places where the C code indexes fixed
storage or dereferences a decoder result the model is explicit about it:

* `asdu_element_in_bounds`      an information object is produced only when all its octets lie inside the
                                received ASDU (so `CS101_ASDU_getElementEx` reads nothing outside it), for every
                                octet string, index, type and size configuration; unknown types give nothing
* `receive_buffer_bounded`      whatever octets arrive in whatever segmentation, the CS104 reassembly buffer holds
                                at most 257 < 260 octets between and after reads
* `file_service_undecodable`    a file-service ASDU whose object cannot be decoded reaches no application callback
                                and changes nothing but the supervision time-out (the NULL tests of file_server.c)
* `file_service_total`          every request leaves the plugin in one of its ten states with a reply list
* `truncated_command_no_callback` (C09) a truncated command reaches no typed callback in either slave
* `link_reject_is_silent` (C14) a frame that fails the FT 1.2 checks causes no transmission and no delivery
* `peer_input_cannot_touch_other_connections`  whatever the peer of one connection sends, every other connection's record is
                                untouched (or only deactivated by STARTDT act), for every server state
* `no_history_overfills_the_window`  in every reachable server state the k-buffer holds at most k entries

NOT decided here: memory safety of the C code itself (pointer arithmetic inside the ring buffers, the HAL,
linked list, TLS), thread interleavings.  (Termination of the ring traversals: the geometry invariants of both rings hold
in every reachable server state - C06 `server_event_rings_wellformed`, C13 `server_rings_wellformed` - and under them the
walks visit exactly `entryCounter` entries, C06 `reachable_ring_is_a_list`.)  Those are explored by harness/fuzz10.c and the per-stack harnesses under ASan/UBSan with a
HAL-call watchdog — a search, not a proof.
-/
import Iec.Props.C02
import Iec.Props.C09
import Iec.Props.C14
import Iec.Lemmas.Reasm
import Iec.Lemmas.FileSrvSafety
import Iec.Gen.Consts104
import Iec.Lemmas.Srv104Isolated
import Iec.Lemmas.Srv104Win
namespace Iec.Props.C10
open Iec.Asdu Iec.Layout

/-- **C10, ASDU parser.** An object is handed out only if every octet of it is inside the payload that was
received; an unknown type id yields nothing. -/
theorem asdu_element_in_bounds (a : Asdu) (i : Nat) (h : (a.getElement i).isSome = true) :
    ∃ e, lookup a.typeId = some e ∧
      ((NoSeg e.fields ∧ Iec.Props.C02.elemEnd a e i ≤ a.payload.length) ∨ a.typeId = 125) := by
  cases hl : lookup a.typeId with
  | none => rw [Iec.Props.C02.unknown_type_none a hl i] at h; simp at h
  | some e =>
    refine ⟨e, rfl, ?_⟩
    have hmem : e ∈ typeTable := by
      unfold lookup at hl
      exact List.mem_of_find?_eq_some hl
    have hid : a.typeId = e.typeId := by
      unfold lookup at hl
      have := List.find?_some hl
      exact (by simpa using this : e.typeId = a.typeId).symm
    rcases Iec.Props.C02.coverage e hmem with hn | h125
    · exact Or.inl ⟨hn, (Iec.Props.C02.getElement_exact a e hl hn i).mp h⟩
    · exact Or.inr (by rw [hid, h125])

open Iec.Srv104 in
/-- **C10, CS104 receive buffer (260 octets).** Between two reads the buffer holds a proper prefix of one
frame, a delivered frame is `2 + L` octets: never more than 257. -/
theorem receive_buffer_bounded (buf : List Nat) (hb : ∀ x ∈ buf, x < 256) :
    (PartialOk buf → buf.length ≤ 256) ∧ (Complete buf → buf.length ≤ 257) := by
  constructor
  · intro h
    rcases h with h | h | ⟨len, xs, h, hl⟩
    · simp [h]
    · simp [h]
    · have : len < 256 := hb len (by simp [h])
      rw [h]; simp; omega
  · intro ⟨len, body, h, hl⟩
    have : len < 256 := hb len (by simp [h])
    rw [h]; simp; omega

open Iec.FileSrv in
/-- **C10, file service.** A file-service ASDU whose information object cannot be decoded (truncated, wrong
length) invokes no application callback, sends at most a mirrored negative reply, and leaves the transfer
state as it was (apart from the supervision time-out that every file-service ASDU evaluates). -/
theorem file_service_undecodable (e : Env) (s : Srv) (conn now : Nat) (q : Req) (hq : q.obj = none)
    (hr : 120 ≤ q.tid ∧ q.tid ≤ 127) :
    ∃ outs, handleAsdu e s conn now q = some (s.expire now, outs) ∧ ∀ o ∈ outs, ∃ c n, o = Out.mirror conn c n := by
  have hrange : ¬ (q.tid < 120 ∨ q.tid > 127) := by omega
  unfold handleAsdu
  simp only [hrange, if_false]
  unfold onFileReady onSectionReady onSegment onLastSeg onAck onCallSel
  simp only [hq]
  repeat' split
  all_goals first
    | exact ⟨[], rfl, by simp⟩
    | exact ⟨_, rfl, by intro o ho; simp at ho; exact ⟨_, _, ho⟩⟩

open Iec.FileSrv in
/-- **C10, file service is total**: every request is answered by a state and a reply list (the model is a
total function; this instance records it for the step function as a whole). -/
theorem file_service_total (e : Env) (s : Srv) (op : Op) : ∃ s' outs, step e s op = (s', outs) := ⟨_, _, rfl⟩

/-- **C10 / C09.** a truncated command never reaches its typed callback -/
theorem truncated_command_no_callback (a : Asdu) (is104 : Bool) (allowed : List Nat) (h : Option Bool) (name : String)
    (arg : Nat × List Nat → Nat) (chk : Bool) (hg : a.getElement 0 = none) :
    ∀ o handled, Iec.Dispatch.typed a is104 allowed h name arg chk = some (o, handled) → ∀ x ∈ o, ∀ v, x ≠ .cb name v :=
  Iec.Props.C09.truncated_no_callback a is104 allowed h name arg chk hg

open Iec.Link101 in
/-- **C10 / C14.** a frame failing the FT 1.2 checks of the unbalanced slave is dropped: the only observable
effects are link-state notifications; queues, buffer and frame count bit are untouched -/
theorem link_reject_is_silent (s : SecU) (now n : Nat)
    (h : ∀ fc bc fcb fcv us ul, secHeader s.ll n ≠ .ok fc bc fcb fcv us ul) :
    Iec.Props.C14.Quiet (s.parse now n).2 ∧ (s.parse now n).1.ll = s.ll ∧ (s.parse now n).1.c1 = s.c1 ∧
    (s.parse now n).1.c2 = s.c2 ∧ (s.parse now n).1.expectedFcb = s.expectedFcb :=
  Iec.Props.C14.secU_reject_is_silent s now n h

/-- the bound of `receive_buffer_bounded` (257 octets) is below the size of the receive buffer in the compiled source,
and a complete APDU (APCI + largest ASDU) fits the send buffer (translator tie, regenerated on every run) -/
theorem buffers_fit_source :
    257 < Iec.Gen.recvBufferSize ∧ Iec.Gen.apciLength + Iec.Gen.maxAsduLength ≤ Iec.Gen.sendBufferSize := by
  decide

/-! ### a peer cannot corrupt another connection, and cannot push a connection outside its invariants -/

/-- **isolation**: whatever the peer of connection `i` sends (any octets, any segmentation, valid or not), the reception step
leaves the record of every other connection `j` exactly as it was - sequence numbers, k-buffer, receive buffer, timers,
socket - or only deactivates it (STARTDT act on `i` in a shared redundancy group); the periodic tasks of `i` likewise. For
EVERY server state. -/
theorem peer_input_cannot_touch_other_connections (s : Iec.Srv104.Slave) (i j : Nat) (hj : j ≠ i) :
    ((Iec.Srv104.handleTcpConnection s i).conn j = s.conn j ∨
      (Iec.Srv104.handleTcpConnection s i).conn j = { s.conn j with state := 2 }) ∧
    ((Iec.Srv104.periodic s i).conn j = s.conn j ∨ (Iec.Srv104.periodic s i).conn j = { s.conn j with state := 2 }) ∧
    (Iec.Srv104.handleTcpConnection s i).conns.length = s.conns.length :=
  ⟨(Iec.Srv104.ok1_handleTcpConnection s i).other j hj, (Iec.Srv104.ok1_periodic s i).other j hj,
   (Iec.Srv104.ok1_handleTcpConnection s i).len⟩

/-- **no history of peer input wedges the window bookkeeping**: in every reachable server state (any octets from any peers,
in any segmentation, closes, write failures, restarts) the k-buffer of every connection in use holds at most k entries - the
ring indices of the C code never run past each other (restated from C04 `server_never_more_than_k` for this property) -/
theorem no_history_overfills_the_window (p : Iec.Srv104.Params) (gs : List (String × List (Bool × List Nat)))
    (hk0 : 0 < p.k) (hk : p.k < 32767) (ops : List Iec.Srv104.WOp) (j : Nat)
    (hu : ((ops.foldl Iec.Srv104.WOp.apply (Iec.Srv104.create p gs)).conn j).isUsed = true) :
    ((ops.foldl Iec.Srv104.WOp.apply (Iec.Srv104.create p gs)).conn j).win.length ≤ p.k := by
  obtain ⟨h, hp⟩ := Iec.Srv104.run_winv p gs hk0 hk ops
  have := ((h j).2 ((h j).1 hu)).1
  rwa [hp] at this

end Iec.Props.C10
