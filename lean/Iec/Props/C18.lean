import Iec.Props.C08
import Iec.Lemmas.Cli104Life
/-
C18 — Connection lifecycle, accounting and event notifications are consistent.

Statement (properties.jsonl): opened exactly once before any other event, closed at most
once and nothing after, closed whenever a connection ends while the server runs,
activated/deactivated alternate; after each processing step the reported number of open
connections equals the number of open connections; closed connections free their slot;
stop/destroy closes everything; create/start/stop/destroy in any order releases every
resource (client: closed/failed exactly once per attempt).

**Partial** (server, threadless mode only).  Theorems on the model: `refused_accept_keeps_counter`, `deactivate_event` /
`activate_event` (DEACTIVATED only from started, ACTIVATED only into started: the two
alternate).  The global statements (event grammar per connection, counter = used slots
after every tick) are checked on every operation of the correspondence run by the harness
oracle on the real structures, and LeakSanitizer + the simulated HAL's live-object counters
check create/start/stop/destroy cycles of the episodes (threadless stop + restart: operation `s.restart`, model
`Iec.Srv104.restart`; threaded server: accounting oracle of harness/locks_dyn.c).
Client: `client_reports_end_exactly_once` - for EVERY history of a connection attempt (thread steps, peer and clock
changes, application sends, in any order) the attempt reports OPENED at most once and first, then exactly one of
CLOSED / FAILED, nothing after (`Lemmas/Cli104Life.lean`: invariant `LifeInv`, `step_spec`, `attempt_life`); tied by
the client differential.
-/
namespace Iec.Props.C18
open Iec.Srv104

/-- DEACTIVATED is reported exactly when a used, started connection is deactivated -/
theorem deactivate_event (s : Slave) (j : Nat) :
    (deactivate s j).log = if (s.conn j).isUsed && (s.conn j).state = 1 then s.log ++ [.ev j "DEACTIVATED"] else s.log := by
  unfold deactivate
  simp only
  split <;> simp_all [emit, Slave.setConn]

/-- ACTIVATED is reported exactly when a connection that is not started is activated -/
theorem activate_event (s : Slave) (i : Nat) :
    (activateConn s i).log = if (s.conn i).state != 1 then s.log ++ [.ev i "ACTIVATED"] else s.log := by
  unfold activateConn
  simp only
  split <;> simp_all [emit, Slave.setConn]

/-- closing (reaping) a connection in `handleClientConnections` is the only place that
reports CLOSED, and it frees the slot and lowers the counter in the same step - see the
definition; the invariant "counter = used slots" is checked on the real structures after
every operation by the harness oracle. -/
theorem refused_accept_keeps_counter (s : Slave) (hl : 1 ≤ s.p.maxOpen) (hfull : (s.p.maxOpen : Int) ≤ s.openConnections) :
    (accept s).openConnections = s.openConnections ∧ (accept s).log = s.log := by
  rw [Iec.Props.C08.limit_refuses s hl hfull]; exact ⟨rfl, rfl⟩

/-! ### client: closed / failed exactly once per attempt -/
section Client
open Iec.Cli104

/-- **the client reports closed / failed exactly once per connection attempt**: after `connectAsync`, whatever the
connection thread, the peer, the clock and the application do and in whatever order, the life-cycle events of the
attempt are: nothing yet (thread before / inside connect), `OPENED` (connected), and once the thread has finished
either `OPENED, CLOSED` or `FAILED` - and a finished thread does nothing more (`step_spec`, last clause), so nothing
follows. -/
theorem client_reports_end_exactly_once (c0 : Cli) (ops : List COp) :
    LifeInv (life c0.log) (ops.foldl COp.apply (connectAsync c0)) := attempt_life c0 ops

/-- once finished, the thread reports nothing more -/
theorem client_finished_is_final (c : Cli) (h : c.phase = 4) : Iec.Cli104.step c = c :=
  (step_spec c).2.2.2 (by omega) (by omega) (by omega)

end Client

end Iec.Props.C18
