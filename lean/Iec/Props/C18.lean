import Iec.Props.C08
/-
C18 — Connection lifecycle, accounting and event notifications are consistent.

Statement (properties.jsonl): opened exactly once before any other event, closed at most
once and nothing after, closed whenever a connection ends while the server runs,
activated/deactivated alternate; after each processing step the reported number of open
connections equals the number of open connections; closed connections free their slot;
stop/destroy closes everything; create/start/stop/destroy in any order releases every
resource (client: closed/failed exactly once per attempt).

**Partial** (server, threadless mode only).  Theorems on the model: `refused_accept_keeps_counter`, `deactivate_event` /
`activate_event` (DEACTIVATED only from started, ACTIVATED only into started: the two
alternate).  The global statements (event grammar per connection, counter = used slots
after every tick) are checked on every operation of the correspondence run by the harness
oracle on the real structures, and LeakSanitizer + the simulated HAL's live-object counters
check create/start/stop/destroy cycles of the episodes.  Not covered: the threaded server's
stop/restart accounting, the client life cycle.
-/
namespace Iec.Props.C18
open Iec.Srv104

/-- DEACTIVATED is reported exactly when a used, started connection is deactivated -/
theorem deactivate_event (s : Slave) (j : Nat) :
    (deactivate s j).log = if (s.conn j).isUsed && (s.conn j).state = 1 then s.log ++ [.ev j "DEACTIVATED"] else s.log := by
  unfold deactivate
  simp only
  split <;> simp_all [emit, Slave.setConn]

/-- ACTIVATED is reported exactly when a connection that is not started is activated -/
theorem activate_event (s : Slave) (i : Nat) :
    (activateConn s i).log = if (s.conn i).state != 1 then s.log ++ [.ev i "ACTIVATED"] else s.log := by
  unfold activateConn
  simp only
  split <;> simp_all [emit, Slave.setConn]

/-- closing (reaping) a connection in `handleClientConnections` is the only place that
reports CLOSED, and it frees the slot and lowers the counter in the same step - see the
definition; the invariant "counter = used slots" is checked on the real structures after
every operation by the harness oracle. -/
theorem refused_accept_keeps_counter (s : Slave) (hl : 1 ≤ s.p.maxOpen) (hfull : (s.p.maxOpen : Int) ≤ s.openConnections) :
    (accept s).openConnections = s.openConnections ∧ (accept s).log = s.log := by
  rw [Iec.Props.C08.limit_refuses s hl hfull]; exact ⟨rfl, rfl⟩

end Iec.Props.C18
