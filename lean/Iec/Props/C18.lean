import Iec.Props.C08
import Iec.Lemmas.Cli104Life
import Iec.Lemmas.Srv104LifeLog
/-
C18 — Connection lifecycle, accounting and event notifications are consistent.

Statement (properties.jsonl): opened exactly once before any other event, closed at most
once and nothing after, closed whenever a connection ends while the server runs,
activated/deactivated alternate; after each processing step the reported number of open
connections equals the number of open connections; closed connections free their slot;
stop/destroy closes everything; create/start/stop/destroy in any order releases every
resource (client: closed/failed exactly once per attempt).

**Partial** (server, threadless mode only).  Over every history (`Lemmas/Srv104LifeLog.lean`, frame lemmas for every function
of the server model): `server_events_follow_grammar`, `server_events_match_state`, `open_connections_is_used_slots`.  Step laws: `refused_accept_keeps_counter`, `deactivate_event` /
`activate_event` (DEACTIVATED only from started, ACTIVATED only into started: the two
alternate).  The same global statements (event grammar per connection, counter = used slots
after every tick) are ALSO checked on every operation of the correspondence run by the harness
oracle on the real structures, and LeakSanitizer + the simulated HAL's live-object counters
check create/start/stop/destroy cycles of the episodes (threadless stop + restart: operation `s.restart`, model
`Iec.Srv104.restart`; threaded server: accounting oracle of harness/locks_dyn.c).
Client: `client_reports_end_exactly_once` - for EVERY history of a connection attempt (thread steps, peer and clock
changes, application sends, in any order) the attempt reports OPENED at most once and first, then exactly one of
CLOSED / FAILED, nothing after (`Lemmas/Cli104Life.lean`: invariant `LifeInv`, `step_spec`, `attempt_life`); tied by
the client differential.
-/
namespace Iec.Props.C18
open Iec.Srv104

/-- DEACTIVATED is reported exactly when a used, started connection is deactivated -/
theorem deactivate_event (s : Slave) (j : Nat) :
    (deactivate s j).log = if (s.conn j).isUsed && (s.conn j).state = 1 then s.log ++ [.ev j "DEACTIVATED"] else s.log := by
  unfold deactivate
  simp only
  split <;> simp_all [emit, Slave.setConn]

/-- ACTIVATED is reported exactly when a connection that is not started is activated -/
theorem activate_event (s : Slave) (i : Nat) :
    (activateConn s i).log = if (s.conn i).state != 1 then s.log ++ [.ev i "ACTIVATED"] else s.log := by
  unfold activateConn
  simp only
  split <;> simp_all [emit, Slave.setConn]

/-- closing (reaping) a connection in `handleClientConnections` is the only place that
reports CLOSED, and it frees the slot and lowers the counter in the same step - see the
definition; the invariant "counter = used slots" is checked on the real structures after
every operation by the harness oracle. -/
theorem refused_accept_keeps_counter (s : Slave) (hl : 1 ≤ s.p.maxOpen) (hfull : (s.p.maxOpen : Int) ≤ s.openConnections) :
    (accept s).openConnections = s.openConnections ∧ (accept s).log = s.log := by
  rw [Iec.Props.C08.limit_refuses s hl hfull]; exact ⟨rfl, rfl⟩

/-! ### every history of the server -/

/-- **the event grammar, over every history.** From a freshly created server, after any sequence of ticks (accept, receive,
STARTDT / STOPDT, time-outs, reaping of ended connections), enqueues and environment events, the events reported for every
slot have followed, at every moment of the history, the automaton
`no connection -OPENED-> open -ACTIVATED-> started -DEACTIVATED-> open ...; open | started -CLOSED-> no connection`:
OPENED exactly once and first, ACTIVATED / DEACTIVATED alternating, CLOSED at most once and nothing after it but the
OPENED of the next connection in that slot (state 3 = "violated" is absorbing, so it suffices that every prefix avoids it). -/
theorem server_events_follow_grammar (p : Params) (gs : List (String × List (Bool × List Nat))) (ops : List LOp) (j : Nat)
    (l1 l2 : List Obs) (hl : (ops.foldl LOp.apply (create p gs)).log = l1 ++ l2) : lifeOf l1 j ≠ 3 := by
  apply lifeOf_prefix l1 l2 j
  rw [← hl, run_linv p gs ops j]
  exact expected_ne_3 _

/-- **the events match the state, over every history**: a slot is in use exactly while its last OPENED has not been
followed by CLOSED, and the connection in it is STARTED exactly while the last event is ACTIVATED -/
theorem server_events_match_state (p : Params) (gs : List (String × List (Bool × List Nat))) (ops : List LOp) (j : Nat) :
    let s := ops.foldl LOp.apply (create p gs)
    ((s.conn j).isUsed = true ↔ (lifeOf s.log j = 1 ∨ lifeOf s.log j = 2)) ∧
    ((s.conn j).isUsed = true → ((s.conn j).state = 1 ↔ lifeOf s.log j = 2)) := by
  intro s
  have h' : lifeOf s.log j = expected (s.conn j) := run_linv p gs ops j
  rw [h']
  unfold expected
  cases hu : (s.conn j).isUsed
  · simp
  · by_cases h1 : (s.conn j).state = 1 <;> simp [h1]

/-- **`CS104_Slave_getOpenConnections` equals the number of slots in use, over every history** -/
theorem open_connections_is_used_slots (p : Params) (gs : List (String × List (Bool × List Nat))) (ops : List LOp) :
    (ops.foldl LOp.apply (create p gs)).openConnections = ((ops.foldl LOp.apply (create p gs)).conns.countP (·.isUsed) : Int) :=
  run_oc p gs ops

/-- non-vacuity of the automaton: a well-formed life of slot 0 ends in "no connection", a second CLOSED is a violation -/
example : lifeOf [.ev 0 "OPENED", .ev 0 "ACTIVATED", .tx 0 [1], .ev 1 "OPENED", .ev 0 "DEACTIVATED", .ev 0 "CLOSED"] 0 = 0 ∧
    lifeOf [.ev 0 "OPENED", .ev 0 "CLOSED", .ev 0 "CLOSED"] 0 = 3 ∧ lifeOf [.ev 0 "ACTIVATED"] 0 = 3 := by decide

/-- non-vacuity on a concrete history: a client connects and sends STARTDT act - slot 0 is in use and started, the log
says OPENED, ACTIVATED, and the counter is 1 -/
def lifeDemoOps : List LOp := [.env (lenvPending {}), .tick, .env (lenvFeed 0 [0x68, 4, 7, 0, 0, 0]), .tick]
example : let s := lifeDemoOps.foldl LOp.apply (create lifeDemoParams [])
    (s.conn 0).isUsed = true ∧ (s.conn 0).state = 1 ∧ lifeOf s.log 0 = 2 ∧ s.openConnections = 1 ∧
    s.log.map (fun o => match o with | .ev _ w => w | .tx _ _ => "tx" | _ => "?") = ["OPENED", "ACTIVATED", "tx"] := by decide

/-! ### client: closed / failed exactly once per attempt -/
section Client
open Iec.Cli104

/-- **the client reports closed / failed exactly once per connection attempt**: after `connectAsync`, whatever the
connection thread, the peer, the clock and the application do and in whatever order, the life-cycle events of the
attempt are: nothing yet (thread before / inside connect), `OPENED` (connected), and once the thread has finished
either `OPENED, CLOSED` or `FAILED` - and a finished thread does nothing more (`step_spec`, last clause), so nothing
follows. -/
theorem client_reports_end_exactly_once (c0 : Cli) (ops : List COp) :
    LifeInv (life c0.log) (ops.foldl COp.apply (connectAsync c0)) := attempt_life c0 ops

/-- once finished, the thread reports nothing more -/
theorem client_finished_is_final (c : Cli) (h : c.phase = 4) : Iec.Cli104.step c = c :=
  (step_spec c).2.2.2 (by omega) (by omega) (by omega)

end Client

end Iec.Props.C18
