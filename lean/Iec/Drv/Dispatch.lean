import Iec.Drv.Util
import Iec.Model.Dispatch
namespace Iec.Drv.Dispatch
open Iec.Drv Iec.Dispatch Iec.Asdu

def nat! (s : String) : Nat := s.toNat?.getD 0

def mkHandlers (mask res : Nat) : Handlers :=
  let h (b : Nat) : Option Bool := if mask / 2 ^ b % 2 = 1 then some (res / 2 ^ b % 2 = 1) else none
  { ic := h 0, ci := h 1, rd := h 2, cs := h 3, rp := h 4, cd := h 5, asdu := h 6 }

def showOut : Out → String
  | .cb n a => s!"cb {n} {a}"
  | .generic b => s!"generic {toHex b}"
  | .resp b => s!"resp {toHex b}"

def render (l : List Out) : String := if l.isEmpty then "-" else " ; ".intercalate (l.map showOut)

def handle (ws : List String) : Option String :=
  match ws with
  | [tag, scot, sca, sioa, mask, res, hex] =>
    if tag != "d104" && tag != "d101" then none else do
      let bytes ← parseHex hex
      let p : Params := ⟨nat! scot, nat! sca, nat! sioa, 249⟩
      match fromBuffer p bytes with
      | none => pure "nohdr"
      | some a =>
        let hs := mkHandlers (nat! mask) (nat! res)
        if tag == "d104" then
          match handle104 a hs with
          | none => pure "close"
          | some l => pure (render l)
        else pure (render (handle101 a hs))
  | _ => none

end Iec.Drv.Dispatch
