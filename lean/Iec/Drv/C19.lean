import Iec.Drv.Util
import Iec.Model.TimeTag
import Iec.Model.Bcr
import Iec.Model.Scaled
/-
Driver commands for C19 (same lines the C harness executes on the real code).
-/
namespace Iec.Drv.C19
open Iec.Drv Iec.TimeTag

def tagOf : List Nat → Option Tag
  | [a, b, c, d, e, f, g] => some ⟨a, b, c, d, e, f, g⟩
  | _ => none

def tagBytes (r : Tag) : List Nat := [r.b0, r.b1, r.b2, r.b3, r.b4, r.b5, r.b6]

def showTag (r : Tag) : String :=
  s!"{toHex (tagBytes r)} ms={getMillisecond r} s={getSecond r} mi={getMinute r} iv={b2s (isInvalid r)} sb={b2s (isSubstituted r)} h={getHour r} su={b2s (isSummerTime r)} dow={getDayOfWeek r} dom={getDayOfMonth r} mon={getMonth r} y={getYear r} el={getElapsed r}"

def tagOp (op : String) (r : Tag) (v : Nat) : Option Tag :=
  match op with
  | "ms" => some (setMillisecond r v)
  | "ms32" => some (setMillisecond32 r v)
  | "s" => some (setSecond r v)
  | "mi" => some (setMinute r v)
  | "iv" => some (setInvalid r (v != 0))
  | "sb" => some (setSubstituted r (v != 0))
  | "h" => some (setHour r v)
  | "su" => some (setSummerTime r (v != 0))
  | "dow" => some (setDayOfWeek r v)
  | "dom" => some (setDayOfMonth r v)
  | "mon" => some (setMonth r v)
  | "y" => some (setYear r v)
  | "el" => some (setElapsed r v)
  | _ => none

open Iec.Bcr in
def showBcr (r : Bcr) : String :=
  s!"{toHex [r.b0, r.b1, r.b2, r.b3, r.b4]} v={getValue r} sq={getSequenceNumber r} cy={b2s (hasCarry r)} ca={b2s (isAdjusted r)} iv={b2s (Iec.Bcr.isInvalid r)}"

open Iec.Bcr in
def handle (ws : List String) : Option String :=
  match ws with
  | ["tag", op, hex, v] => do
      let r ← tagOf (← parseHex hex)
      let r' ← tagOp op r (← parseNat v)
      pure (showTag r')
  | ["tag.fromms", t] => do
      let t ← parseNat t
      let r := cp56FromMs t
      pure s!"{toHex (tagBytes r)} back={cp56ToMs r}"
  | ["tag.fromms32", t] => do
      let t ← parseNat t
      pure s!"{toHex ((tagBytes (cp32FromMs t)).take 4)}"
  | ["tag.toms", hex] => do
      let r ← tagOf (← parseHex hex)
      pure s!"{cp56ToMs r}"
  | ["gm", d] => do
      let d ← parseNat d
      let (y, m, dd) := civilFromDays d
      pure s!"{y} {m} {dd}"
  | ["bcr", op, hex, v] => do
      let bs ← parseHex hex
      let r : Bcr ← match bs with
        | [a, b, c, d, e] => some ⟨a, b, c, d, e⟩
        | _ => none
      let v ← parseInt v
      let r' ← match op with
        | "v" => some (setValue r v)
        | "sq" => some (setSequenceNumber r v.toNat)
        | "cy" => some (setCarry r (v != 0))
        | "ca" => some (setAdjusted r (v != 0))
        | "iv" => some (Iec.Bcr.setInvalid r (v != 0))
        | _ => none
      pure (showBcr r')
  | ["se", op, b, v] => do
      let b ← parseNat b
      let v ← parseNat v
      let b' ← match op with
        | "es" => some (seSetEventState b v)
        | "qdp" => some (seSetQDP b v)
        | _ => none
      pure s!"{b'} es={seGetEventState b'} qdp={seGetQDP b'}"
  | ["scd", hex, v] => do
      let bs ← parseHex hex
      let r : Scd ← match bs with
        | [a, b, c, d] => some ⟨a, b, c, d⟩
        | _ => none
      let r' := scdSetSTn r (← parseNat v)
      let bits := (List.range 18).map fun i => b2s (scdGetST r' i) ++ b2s (scdGetCD r' i)
      pure s!"{toHex [r'.b0, r'.b1, r'.b2, r'.b3]} st={scdGetSTn r'} cd={scdGetCDn r'} bits={String.join bits}"
  | ["sc.set", v] => do
      let (a, b) := setScaled (← parseInt v)
      pure s!"{toHex [a, b]} back={getScaled a b}"
  | ["sc.get", hex] => do
      match ← parseHex hex with
      | [a, b] => pure s!"{getScaled a b}"
      | _ => none
  | ["nv.toscaled", bits] => do
      match Iec.Scaled.toScaled (← parseNat bits) with
      | some v => pure s!"{v}"
      | none => pure "nan"
  | ["nv.fromscaled", v] => do
      pure s!"{Iec.Scaled.fromScaledBits (← parseInt v)}"
  | _ => none

end Iec.Drv.C19
