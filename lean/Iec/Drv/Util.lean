/-
Line-protocol helpers shared by all driver modules (core Lean only).
-/
namespace Iec.Drv

def hexDigit (c : Char) : Option Nat :=
  if '0' ≤ c ∧ c ≤ '9' then some (c.toNat - '0'.toNat)
  else if 'a' ≤ c ∧ c ≤ 'f' then some (c.toNat - 'a'.toNat + 10)
  else if 'A' ≤ c ∧ c ≤ 'F' then some (c.toNat - 'A'.toNat + 10)
  else none

/-- "0a1b" → [10, 27]; `-` is the empty string of octets -/
def parseHex (s : String) : Option (List Nat) :=
  if s = "-" then some [] else
  let rec go : List Char → List Nat → Option (List Nat)
    | [], acc => some acc.reverse
    | [_], _ => none
    | a :: b :: rest, acc =>
      match hexDigit a, hexDigit b with
      | some x, some y => go rest ((x * 16 + y) :: acc)
      | _, _ => none
  go s.toList []

def hexChar (n : Nat) : Char :=
  if n < 10 then Char.ofNat ('0'.toNat + n) else Char.ofNat ('a'.toNat + n - 10)

def toHex (bs : List Nat) : String :=
  if bs.isEmpty then "-" else
  String.ofList (bs.flatMap fun b => [hexChar (b / 16 % 16), hexChar (b % 16)])

def parseInt (s : String) : Option Int := s.toInt?
def parseNat (s : String) : Option Nat := s.toNat?

def b2s (b : Bool) : String := if b then "1" else "0"

end Iec.Drv
