import Iec.Drv.Util
import Iec.Model.Link101
/-
driver for the CS101 link layer model: ops of harness/ll101.c
-/
namespace Iec.Drv.Link101
open Iec.Drv Iec.Link101

structure St where
  u : Option SecU := none
  b : Option Bal := none
  p : Option PriU := none
  q : List Nat := []

def n! (s : String) : Nat := s.toNat?.getD 0
def bl (b : Bool) : String := if b then "1" else "0"

def showObs : Obs → String
  | .tx f => s!"tx {toHex f.bytes}"
  | .rx bc d => s!"rx {bl bc} {toHex d}"
  | .resetCU f => s!"resetcu {bl f}"
  | .st a n => s!"state {a} {n}"
  | .ud a d => s!"ud {a} {toHex d}"
  | .ad a => s!"ad {a}"

def render (l : List Obs) : String := if l.isEmpty then "-" else " ; ".intercalate (l.map showObs)

def sumU (s : SecU) (q : List Nat) : String :=
  s!" | st={s.state} efcb={bl s.expectedFcb} uds={s.ll.userData.length} c1={s.c1.length} c2={s.c2.length} port={q.length}"
def sumB (s : Bal) (q : List Nat) : String :=
  s!" | st={s.state} ps={s.pstate} efcb={bl s.expectedFcb}{bl s.lastAck} nfcb={bl s.nextFcb} wait={bl s.waiting} test={bl s.testFn} out={s.out.length} port={q.length}"
def sumC (c : SlaveConn) : String :=
  s!"{c.address}:{c.state}/{c.pstate}/{bl c.hasMsg}{bl c.req1}{bl c.req2}{bl c.waiting}{bl c.testFn}{bl c.nextFcb}{bl c.dontSend}/{c.lastReq}"
def sumP (s : PriU) (q : List Nat) : String :=
  let cur := match s.cur with | some i => toString i | none => "-"
  s!" | cur={cur} idx={s.curIdx} bc={bl s.bcast.isSome} " ++ ",".intercalate (s.slaves.map sumC) ++ s!" port={q.length}"

def handle (st : St) (ws : List String) : Option (St × String) :=
  match ws with
  | ["u.new", aL, tAck, tRep, single, tLink, addr, idle] =>
    if hA : n! aL ≤ 2 then
    let p : Params := ⟨n! aL, n! tAck, n! tRep, single == "1", n! tLink, hA⟩
    some ({ st with u := some { ll := { p := p, address := n! addr }, idleTimeout := n! idle }, q := [] }, "ok")
    else some (st, "bad-op")
  | ["u.c1", hex] => do
    let d ← parseHex hex; let s ← st.u
    pure ({ st with u := some { s with c1 := s.c1 ++ [d] } }, "ok")
  | ["u.c2", hex] => do
    let d ← parseHex hex; let s ← st.u
    pure ({ st with u := some { s with c2 := s.c2 ++ [d] } }, "ok")
  | ["u.run", now, hex] => do
    let d ← parseHex hex; let s ← st.u
    let (s, q, o) := s.run (st.q ++ d) (n! now)
    pure ({ st with u := some s, q := q }, render o ++ sumU s q)
  | ["b.new", aL, tAck, tRep, single, addr, other, dir, idle] =>
    if hA : n! aL ≤ 2 then
    let p : Params := ⟨n! aL, n! tAck, n! tRep, single == "1", 0, hA⟩
    some ({ st with b := some { ll := { p := p, address := n! addr, dir := dir == "1" }, other := n! other, idleTimeout := n! idle }, q := [] }, "ok")
    else some (st, "bad-op")
  | ["b.out", hex] => do
    let d ← parseHex hex; let s ← st.b
    pure ({ st with b := some { s with out := s.out ++ [d] } }, "ok")
  | ["b.accept", v] => do
    let s ← st.b
    pure ({ st with b := some { s with accept := v == "1" } }, "ok")
  | ["b.test"] => do
    let s ← st.b
    pure ({ st with b := some { s with testFn := true } }, "ok")
  | ["b.run", now, hex] => do
    let d ← parseHex hex; let s ← st.b
    let (s, q, o) := s.run (st.q ++ d) (n! now)
    pure ({ st with b := some s, q := q }, render o ++ sumB s q)
  | ["p.new", aL, tAck, tRep, single, tLink] =>
    if hA : n! aL ≤ 2 then
    let p : Params := ⟨n! aL, n! tAck, n! tRep, single == "1", n! tLink, hA⟩
    some ({ st with p := some { ll := { p := p, address := 0 } }, q := [] }, "ok")
    else some (st, "bad-op")
  | ["p.add", addr] => do
    let s ← st.p
    pure ({ st with p := some (s.addSlave (n! addr)) }, "ok")
  | ["p.send", addr, hex] => do
    let d ← parseHex hex; let s ← st.p
    let (s, r) := s.sendConfirmed (n! addr) d
    pure ({ st with p := some s }, bl r)
  | ["p.noreply", addr, hex] => do
    let d ← parseHex hex; let s ← st.p
    let (s, r) := s.sendNoReply (n! addr) d
    pure ({ st with p := some s }, bl r)
  | ["p.req1", addr] => do
    let s ← st.p
    let (s, r) := s.updSlave (n! addr) (fun c => { c with req1 := true })
    pure ({ st with p := some s }, bl r)
  | ["p.req2", addr] => do
    let s ← st.p
    let (s, r) := s.updSlave (n! addr) (fun c => { c with req2 := true })
    pure ({ st with p := some s }, bl r)
  | ["p.test", addr] => do
    let s ← st.p
    let (s, _) := s.updSlave (n! addr) (fun c => { c with testFn := true })
    pure ({ st with p := some s }, "ok")
  | ["p.run", now, hex] => do
    let d ← parseHex hex; let s ← st.p
    let (s, q, o) := s.run (st.q ++ d) (n! now)
    pure ({ st with p := some s, q := q }, render o ++ sumP s q)
  | _ => none

end Iec.Drv.Link101
