import Iec.Drv.Util
import Iec.Model.Srv104
import Iec.Gen.Consts104
/-
Driver commands for the CS104 server model (same operation lines as harness/srv104.c).
Connections are addressed by the handle number the harness gave the incoming socket.
-/
namespace Iec.Drv.Srv104
open Iec.Drv Iec.Srv104 Iec.KWindow Iec.Queues

structure St where
  s : Option Slave := none
  p : Option Params := none
  groups : List (String × List (Bool × List Nat)) := []
  nextHid : Nat := 0
  deriving Inhabited

def nat! (s : String) : Nat := s.toNat?.getD 0

/-- sockets carry their handle in the `peer` text as "h<n>|<peer>" -/
def hidOf (sk : Sock) : Nat := sk.hid

def showObs (s : Slave) : Obs → String
  | .tx c b => s!"tx h{hidOf (s.conn c).sock} {toHex b}"
  | .ev c w => s!"ev h{hidOf (s.conn c).sock} {w}"
  | .asdu c b => s!"asdu h{hidOf (s.conn c).sock} {toHex b}"
  | .reply c ok => s!"reply h{hidOf (s.conn c).sock} {b2s ok}"

def summary (s : Slave) : String :=
  let conns := (List.range s.conns.length).filterMap fun i =>
    let c := s.conn i
    if c.isUsed then
      let win := if c.win.isEmpty then "-" else ",".intercalate (c.win.map fun e => toString e.seq)
      some s!" [{i}:h{hidOf c.sock} st={c.state} run={b2s c.isRunning} vs={c.vs} vr={c.vr} un={c.unconf} rb={c.recvBuf.length} tf={b2s c.waitingTestFR} win={win}]"
    else none
  let g := s.grp 0
  let lq := String.join (g.lowQ.toList.map fun e => s!"{e.id}/{e.st}/{e.data.length},")
  let o (x : Option Nat) : String := match x with | some v => toString v | none => "-1"
  s!" | oc={s.openConnections}{String.join conns} lq={g.lowQ.count}/{o g.lowQ.first}/{o g.lowQ.last}/{o g.lowQ.lib}:{lq} hq={g.highQ.count}"

/-- the log is rendered against the state *before* closed sockets are forgotten: events carry
the handle of the socket the slot held when the observation was made, so render eagerly -/
def flush (s : Slave) : Slave × String :=
  let body := if s.log.isEmpty then "-" else " ; ".intercalate (s.log.map (showObs s))
  ({ s with log := [] }, body ++ summary s)

def findSlot (s : Slave) (h : Nat) : Option Nat :=
  (List.range s.conns.length).find? fun i => (s.conn i).isUsed && hidOf (s.conn i).sock == h

/-- apply `f` to the socket with handle `h`, wherever it is (pending or accepted) -/
def onSock (s : Slave) (h : Nat) (f : Sock → Sock) : Slave :=
  match findSlot s h with
  | some i => s.setConn i { s.conn i with sock := f (s.conn i).sock }
  | none => { s with pending := s.pending.map fun sk => if hidOf sk == h then f sk else sk }

def parseAllowed (t : String) : List (Bool × List Nat) :=
  if t = "-" then [] else (t.splitOn ",").map parseIp

def handle (st : St) (ws : List String) : Option (St × String) :=
  match ws with
  | ["s.new", mode, k, w, t0, t1, t2, t3, maxopen, lowq, highq, rep, scot, sca] =>
      let p : Params := { k := nat! k, w := nat! w, t0 := nat! t0, t1 := nat! t1, t2 := nat! t2, t3 := nat! t3,
                          mode := nat! mode, maxOpen := nat! maxopen, lowQ := nat! lowq, highQ := nat! highq,
                          asduHdr := 2 + nat! scot + nat! sca, replies := nat! rep, nSlots := Iec.Gen.maxClientConnections }
      some ({ s := none, p := some p, groups := [], nextHid := 0 }, "ok")
  | ["s.group", name, ips] => some ({ st with groups := st.groups ++ [(name, parseAllowed ips)] }, "ok")
  | ["s.start"] => do
      let p ← st.p
      let s := create p st.groups
      pure ({ st with s := some { s with now := 1000000 } }, "ok")
  | ["s.conn", peer] => do
      let s ← st.s
      let sk : Sock := { peer := peer, hid := st.nextHid }
      pure ({ st with s := some { s with pending := s.pending ++ [sk] }, nextHid := st.nextHid + 1 }, s!"h{st.nextHid}")
  | ["s.rx", h, hex] => do
      let s ← st.s
      let b ← parseHex hex
      pure ({ st with s := some (onSock s (nat! h) fun sk => { sk with chunks := sk.chunks ++ [b] }) }, "ok")
  | ["s.close", h] => do
      let s ← st.s
      pure ({ st with s := some (onSock s (nat! h) fun sk => { sk with peerClosed := true }) }, "ok")
  | ["s.wfail", h, v] => do
      let s ← st.s
      pure ({ st with s := some (onSock s (nat! h) fun sk => { sk with writeFail := v != "0" }) }, "ok")
  | "s.answers" :: as => do
      let s ← st.s
      pure ({ st with s := some { s with acceptAnswers := as.map (· != "0") } }, "ok")
  | ["s.tick", dt] => do
      let s ← st.s
      let s := tick { s with now := s.now + nat! dt }
      let (s, out) := flush s
      pure ({ st with s := some s }, out)
  | ["s.restart"] => do
      let s ← st.s
      let (s, out) := flush (restart s)
      pure ({ st with s := some s }, out)
  | ["s.enq", hex] => do
      let s ← st.s
      let b ← parseHex hex
      let (s, out) := flush (enqueue s b)
      pure ({ st with s := some s }, out)
  | ["s.preset", h, vs, vr] => do
      let s ← st.s
      match findSlot s (nat! h) with
      | some i =>
        if (s.conn i).win.isEmpty then
          pure ({ st with s := some (s.setConn i { s.conn i with vs := nat! vs, vr := nat! vr }) }, "ok")
        else pure (st, "no")
      | none => pure (st, "no")
  | _ => none

end Iec.Drv.Srv104
