import Iec.Drv.Util
import Iec.Model.Locks
import Iec.Gen.LockSkel
/-
`locks.report`: everything the C17 theorems decide, recomputed by the compiled model and
printed with names, so that when a proof obligation of Iec.Props.C17 no longer checks the
orchestrator can say which function, lock and callback are concerned.
-/
namespace Iec.Drv.Locks
open Iec.Locks Iec.Gen.LockSkel

def lk (l : Nat) : String := lockNames.getD l s!"lock{l}"
def fnn (f : Nat) : String := funcNames.getD f s!"f{f}"
def held (h : Held) : String := if h.isEmpty then "-" else ",".intercalate (h.map lk)

def unbalancedReport (s : Stmt) (name : String) : Option String :=
  if balanced s then none else
  let r := exec s start
  let left := (r.norm.map (·.held) ++ r.ret).filter (fun h => !h.isEmpty)
  let seek := r.norm.filter (fun st => st.seek.isSome)
  some (s!"unbalanced {name} fault={r.fault} held-at-exit={"|".intercalate (left.map held)}" ++
        (if seek.isEmpty then "" else " unresolved-goto") ++
        (if r.brk.isEmpty && r.cont.isEmpty then "" else " stray-break"))

def report (obsNames : List String) : String :=
  let obs := (obsNames.map cbNames.idxOf).filter (· < cbNames.length)
  let ub := (skeletons.zip funcNames).filterMap (fun (s, n) => unbalancedReport s n)
  let es := orderEdges skeletons
  let cyc := (List.range lockNames.length).filter (fun l => (reach es lockNames.length (succs es l)).contains l)
  let cbs := cbUnderLockSites obs skeletons
  let items : List String :=
    [s!"functions {skeletons.length} locks {lockNames.length} stable {summariesStable skeletons}"] ++ ub ++
    es.map (fun e => s!"edge {lk e.1} {lk e.2}") ++
    cyc.map (fun l => s!"cycle {lk l}") ++
    cbs.map (fun (f, l, k) => s!"cbunder {fnn f} {lk l} {cbNames.getD k "?"}")
  " ; ".intercalate items

def handle (ws : List String) : Option String :=
  match ws with
  | "locks.report" :: obs => some (report obs)
  | _ => none

end Iec.Drv.Locks
