import Iec.Drv.Util
import Iec.Model.FileSrvBytes
namespace Iec.Drv.FileSrv
open Iec.Drv Iec.FileSrv Iec.Asdu

structure St where
  p : Params := ⟨2, 2, 3, 249⟩
  env : Env := default
  srv : Srv := {}

def nat! (s : String) : Nat := s.toNat?.getD 0

/-- deterministic file content shared with the harness: octet j of section i -/
def fileByte (seed i j : Nat) : Nat := (seed * 31 + i * 131 + j * 7 + j / 256 * 13 + (j * j) % 251) % 256

def mkFile (seed : Nat) (sizes : List Nat) : File :=
  sizes.zipIdx.map fun (n, i) => (List.range n).map (fileByte seed i)

def stName : Iec.FileSrv.St → Nat
  | .idle => 0 | .waitFileCall => 1 | .waitSectionCall => 2 | .transmit => 3 | .waitSectionAck => 4
  | .waitFileAck => 5 | .sendAbort => 6 | .completed => 7 | .waitSectionReady => 8 | .receiveSection => 9

def summary (s : Srv) : String :=
  s!" | st={stName s.st} ca={s.ca} ioa={s.ioa} oa={s.oa} nof={s.nof} last={s.lastSend} sec={s.secNo} off={s.secOff} size={s.secSize} schk={s.secChk} fchk={s.fileChk} exp={s.expLen} got={s.recvLen} sel={b2s s.selected} conn={match s.selConn with | some c => toString c | none => "-"} rcv={b2s s.receiver}"

def showOut (p : Params) (a : Option Asdu) : Out → String
  | .send conn oa ca ioa nof m => s!"tx {conn} {toHex (renderSend p oa ca ioa nof m).bytes}"
  | .mirror conn cot neg =>
    match a with
    | some a => s!"tx {conn} {toHex (renderMirror a cot neg).bytes}"
    | none => "tx ?"
  | .getFile ca ioa nof => s!"getFile {ca} {ioa} {nof}"
  | .readyCb ca ioa nof lof => s!"ready {ca} {ioa} {nof} {lof}"
  | .complete ok => s!"complete {b2s ok}"
  | .segRecv nos off d => s!"seg {nos} {off} {toHex d}"
  | .finished c => s!"finished {c}"

def render (p : Params) (a : Option Asdu) (l : List Out) : String :=
  if l.isEmpty then "-" else " ; ".intercalate (l.map (showOut p a))

def handle (st : St) (ws : List String) : Option (St × String) :=
  match ws with
  | "fs.new" :: scot :: sca :: sioa :: mx :: hf :: hr :: acc :: rerr :: fca :: fioa :: fnof :: seed :: sizes =>
    let p : Params := ⟨nat! scot, nat! sca, nat! sioa, nat! mx⟩
    let env : Env := { file := mkFile (nat! seed) (sizes.map nat!), fca := nat! fca, fioa := nat! fioa, fnof := nat! fnof,
                       hasFiles := nat! hf = 1, hasReady := nat! hr = 1, accept := nat! acc = 1, readyErr := nat! rerr }
    let srv : Srv := { maxSeg := maxSegOf p }
    some ({ p := p, env := env, srv := srv }, "ok" ++ summary srv)
  | ["fs.asdu", conn, now, hex] => do
    let bytes ← parseHex hex
    match fromBuffer st.p bytes with
    | none => pure (st, "nohdr")
    | some a =>
      match handleAsdu st.env st.srv (nat! conn) (nat! now) (decodeReq a) with
      | none => pure (st, "nothandled" ++ summary st.srv)
      | some (s, outs) => pure ({ st with srv := s }, render st.p (some a) outs ++ summary s)
  | ["fs.accept", acc, rerr] =>
    let st := { st with env := { st.env with accept := nat! acc = 1, readyErr := nat! rerr } }
    some (st, "ok" ++ summary st.srv)
  | ["fs.task", conn, now] =>
    let (s, outs) := runTask st.env st.srv (nat! conn) (nat! now)
    some ({ st with srv := s }, render st.p none outs ++ summary s)
  | _ => none

end Iec.Drv.FileSrv
