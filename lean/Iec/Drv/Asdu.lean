import Iec.Drv.Util
import Iec.Model.Asdu
/-
Driver commands for C01 / C02 / C12: a stateful "current ASDU" plus a stateless parse.
-/
namespace Iec.Drv.Asdu
open Iec.Drv Iec.Layout Iec.Asdu

structure St where
  cur : Option Asdu := none

def parseVal (s : String) : Option Nat :=
  if s.startsWith "x" then (parseHex ((s.drop 1).toString)).map leVal else s.toNat?

def parseVals (s : String) : Option (List Nat) :=
  if s = "-" then some [] else (s.splitOn ",").mapM parseVal

/-- print stored values; the data part of a `seg` field is printed as hex octets -/
def showVals (fs : List FieldSpec) (vs : List Nat) : String :=
  let rec go : List FieldSpec → List Nat → List String
    | .seg :: fs, los :: d :: vs => toString los :: ("x" ++ toHex (leBytes los d)) :: go fs vs
    | .le _ :: fs, v :: vs => toString v :: go fs vs
    | .siq :: fs, a :: b :: vs => toString a :: toString b :: go fs vs
    | .diq :: fs, a :: b :: vs => toString a :: toString b :: go fs vs
    | _, vs => vs.map toString
  let l := go fs vs
  if l.isEmpty then "-" else ",".intercalate l

def showHdr (a : Asdu) : String :=
  s!"t={a.typeId} sq={b2s a.isSequence} n={a.count} cot={a.cot} test={b2s a.isTest} neg={b2s a.isNegative} oa={a.oa} ca={a.ca}"

def showElem (a : Asdu) (i : Nat) : String :=
  match a.getElement i, lookup a.typeId with
  | some (ioa, vs), some e => s!"{e.typeId} {ioa} {showVals e.fields vs}"
  | _, _ => "none"

def nat! (s : String) : Nat := s.toNat?.getD 0

def handle (st : St) (ws : List String) : Option (St × String) :=
  match ws with
  | ["new", scot, sca, sioa, mx, sq, cot, oa, ca, t, n] =>
      let p : Params := ⟨nat! scot, nat! sca, nat! sioa, nat! mx⟩
      let a := create p (sq != "0") (nat! cot) (nat! oa) (nat! ca) (t != "0") (n != "0")
      some ({ cur := some a }, s!"ok {toHex a.bytes}")
  | ["add", tid, ioa, vals] => do
      let a ← st.cur
      let e ← lookup (nat! tid)
      let vs ← parseVals vals
      let (a', r) := a.add e (nat! ioa) vs
      pure ({ cur := some a' }, s!"{b2s r} wf={b2s (wfVals e.fields vs)} {toHex a'.bytes}")
  | ["pay", hex] => do
      let a ← st.cur
      let (a', r) := a.addPayload (← parseHex hex)
      pure ({ cur := some a' }, s!"{b2s r} {toHex a'.bytes}")
  | ["clone"] => do
      let a ← st.cur
      pure (st, toHex a.clone.bytes)
  | ["set", what, v] => do
      let a ← st.cur
      let v := nat! v
      let a' ← match what with
        | "type" => some (a.setTypeId v) | "sq" => some (a.setSequence (v != 0)) | "count" => some (a.setCount v)
        | "cot" => some (a.setCot v) | "test" => some (a.setTest (v != 0)) | "neg" => some (a.setNegative (v != 0))
        | "ca" => some (a.setCa v) | "clear" => some a.removeAll | _ => none
      pure ({ cur := some a' }, toHex a'.bytes)
  | ["parse", scot, sca, sioa, hex, idx] => do
      let p : Params := ⟨nat! scot, nat! sca, nat! sioa, 249⟩
      match fromBuffer p (← parseHex hex) with
      | none => pure (st, "nohdr")
      | some a => pure (st, s!"{showHdr a} | {showElem a (nat! idx)}")
  | _ => none

end Iec.Drv.Asdu
