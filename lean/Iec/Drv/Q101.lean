import Iec.Drv.Util
import Iec.Model.Q101
namespace Iec.Drv.Q101
open Iec.Drv Iec.Q101

def summary (q : Q) : String :=
  s!" | n={q.items.length} full={b2s q.isFull} empty={b2s q.isEmpty} [" ++ ",".intercalate ((q.items.take 64).map toHex) ++ "]"

def handle (st : Option Q) (ws : List String) : Option (Option Q × String) :=
  match ws with
  | ["q.new", n] => some (some (Q.init (n.toNat?.getD 0)), "ok")
  | ["q.enq", hex] => do
    let d ← parseHex hex; let q ← st
    let q := q.enqueue d
    pure (some q, summary q)
  | ["q.deq"] => do
    let q ← st
    let (q, r) := q.dequeue
    pure (some q, (match r with | some d => toHex d | none => "none") ++ summary q)
  | ["q.flush"] => do
    let q ← st
    pure (some q.flush, summary q.flush)
  | ["q.state"] => do
    let q ← st
    pure (some q, summary q)
  | _ => none

end Iec.Drv.Q101
