import Iec.Drv.Util
import Iec.Model.Cli104
import Iec.Model.CliCmd
namespace Iec.Drv.Cli104
open Iec.Drv Iec.Cli104 Iec.KWindow

structure St where
  c : Option Cli := none
  /-- application layer parameters of the command builders -/
  al : Iec.Asdu.Params := { sizeOfCOT := 2, sizeOfCA := 2, sizeOfIOA := 3, maxSize := 249 }
  oa : Nat := 0
  deriving Inhabited

def nat! (s : String) : Nat := s.toNat?.getD 0

def showObs : Obs → String
  | .tx b => s!"tx {toHex b}"
  | .ev w => s!"ev {w}"
  | .asdu b => s!"asdu {toHex b}"

def flush (c : Cli) (extra : List String := []) : Cli × String :=
  let items := c.log.map showObs ++ extra
  let body := if items.isEmpty then "-" else " ; ".intercalate items
  let win := if c.win.isEmpty then "-" else ",".intercalate (c.win.map fun e => toString e.seq)
  ({ c with log := [] },
    s!"{body} | run={b2s c.running} fail={b2s c.failure} cs={c.conState} vs={c.vs} vr={c.vr} un={c.unconf} rb={c.recvBuf.length} t2={if c.t2Trigger then toString (c.lastConf.getD 0) else "-"} win={win}")

def handle (st : St) (ws : List String) : Option (St × String) :=
  match ws with
  | ["c.new", k, w, t0, t1, t2, t3, scot, sca] =>
      let p : Params := { k := nat! k, w := nat! w, t0 := nat! t0, t1 := nat! t1, t2 := nat! t2, t3 := nat! t3,
                          asduHdr := 2 + nat! scot + nat! sca }
      some ({ c := some { p := p, now := 1000000 }, al := { sizeOfCOT := nat! scot, sizeOfCA := nat! sca, sizeOfIOA := 3, maxSize := 249 }, oa := 0 }, "ok")
  | ["c.connect", ok] => do
      let c ← st.c
      let c := connectAsync { c with connectOk := ok != "0", sock := {} }
      let (c, out) := flush c
      pure ({ st with c := some c }, out)
  | ["c.step"] => do
      let c ← st.c
      let (c, out) := flush (step c)
      pure ({ st with c := some c }, out)
  | ["c.rx", hex] => do
      let c ← st.c
      let b ← parseHex hex
      -- octets fed after the socket was destroyed are dropped by the harness
      let c := if c.phase = 2 || c.phase = 3 then { c with sock := { c.sock with chunks := c.sock.chunks ++ [b] } } else c
      pure ({ st with c := some c }, "ok")
  | ["c.peerclose"] => do
      let c ← st.c
      pure ({ st with c := some { c with sock := { c.sock with peerClosed := true } } }, "ok")
  | ["c.wfail", v] => do
      let c ← st.c
      pure ({ st with c := some { c with sock := { c.sock with writeFail := v != "0" } } }, "ok")
  | ["c.adv", dt] => do
      let c ← st.c
      pure ({ st with c := some { c with now := c.now + nat! dt } }, "ok")
  | ["c.preset", vs, vr] => do
      let c ← st.c
      pure ({ st with c := some { c with vs := nat! vs, vr := nat! vr } }, "ok")
  | ["c.startdt"] => do
      let c ← st.c
      let (c, out) := flush (sendStartDT c)
      pure ({ st with c := some c }, out)
  | ["c.stopdt"] => do
      let c ← st.c
      let (c, out) := flush (sendStopDT c)
      pure ({ st with c := some c }, out)
  | ["c.send", hex] => do
      let c ← st.c
      let b ← parseHex hex
      let (c, r) := sendAsdu c b
      let (c, out) := flush c [s!"send {b2s r}"]
      pure ({ st with c := some c }, out)
  | ["c.al", sioa, oa] => some ({ st with al := { st.al with sizeOfIOA := nat! sioa }, oa := nat! oa }, "ok")
  | ["c.cmd", kind, a, b, d, hex] => do
      let c ← st.c
      let t ← parseHex hex
      let cmd : Iec.CliCmd.Cmd :=
        match nat! kind with
        | 0 => .interrogation (nat! a) (nat! b) (nat! d)
        | 1 => .counter (nat! a) (nat! b) (nat! d)
        | 2 => .read (nat! a) (nat! b)
        | 3 => .clockSync (nat! a) t
        | 4 => .test (nat! a)
        | _ => .testTs (nat! a) (nat! b) t
      let (c, r) := sendAsdu c (Iec.CliCmd.build st.al st.oa cmd)
      let (c, out) := flush c [s!"send {b2s r}"]
      pure ({ st with c := some c }, out)
  | ["c.close"] => do
      let c ← st.c
      let (c, out) := flush (closeConn c)
      pure ({ st with c := some c }, out)
  | _ => none

end Iec.Drv.Cli104
