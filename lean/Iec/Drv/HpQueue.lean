import Iec.Drv.Util
import Iec.Model.Queues
namespace Iec.Drv.HpQueue
open Iec.Drv Iec.Queues

def ptr (q : HpQueue) (o : Option Nat) : String := if q.count = 0 then "-1" else toString (o.getD 0)
def summary (q : HpQueue) : String := s!" | n={q.count} first={ptr q q.first} last={ptr q q.last} lib={ptr q q.lib}"

def handle (st : Option HpQueue) (ws : List String) : Option (Option HpQueue × String) :=
  match ws with
  | ["hq.new", n] => some (some (HpQueue.create (n.toNat?.getD 0)), "ok")
  | ["hq.enq", hex] => do
    let d ← parseHex hex; let q ← st
    let (q, ok) := q.enqueue d
    pure (some q, b2s ok ++ summary q)
  | ["hq.deq"] => do
    let q ← st
    let (q, r) := q.getNext
    pure (some q, (match r with | some d => toHex d | none => "none") ++ summary q)
  | _ => none

end Iec.Drv.HpQueue
