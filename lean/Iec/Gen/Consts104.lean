/- GENERATED on every run by translate/consts104.c (compiled against the current cs104_slave.c); do not edit. -/
namespace Iec.Gen

def mqEntryHeader : Nat := 16
def mqSize1 : Nat := 272
def mqSize7 : Nat := 1904
def hpSize1 : Nat := 258
def hpSize5 : Nat := 1290
def hpEntryHeader : Nat := 2
def recvBufferSize : Nat := 260
def sendBufferSize : Nat := 260
def maxAsduLength : Nat := 249
def apciLength : Nat := 6
def maxClientConnections : Nat := 100
def startdtCon : List Nat := [104, 4, 11, 0, 0, 0]
def stopdtCon : List Nat := [104, 4, 35, 0, 0, 0]
def testfrCon : List Nat := [104, 4, 131, 0, 0, 0]
def testfrAct : List Nat := [104, 4, 67, 0, 0, 0]

end Iec.Gen
