/- GENERATED on every run by translate/type_sizes.py from lib60870-C/src/iec60870/cs101/cs101_information_objects.c; do not edit. -/
namespace Iec.Gen

/-- what the C source says about one type: space guard of the encoder (sequence element / with object address,
`encVar`: plus the segment length), size test of the decoder (`decSeqCond`: the object address is counted only
when the element is not part of a sequence) -/
structure SrcSize where
  typeId : Nat
  name : String
  encSeq : Nat
  encIoa : Nat
  encVar : Bool
  decMin : Nat
  decSeqCond : Bool
  deriving Repr, DecidableEq

def srcSizes : List SrcSize := [
  { typeId := 1, name := "M_SP_NA_1", encSeq := 1, encIoa := 1, encVar := false, decMin := 1, decSeqCond := true },
  { typeId := 2, name := "M_SP_TA_1", encSeq := 4, encIoa := 4, encVar := false, decMin := 4, decSeqCond := true },
  { typeId := 3, name := "M_DP_NA_1", encSeq := 1, encIoa := 1, encVar := false, decMin := 1, decSeqCond := true },
  { typeId := 4, name := "M_DP_TA_1", encSeq := 4, encIoa := 4, encVar := false, decMin := 4, decSeqCond := true },
  { typeId := 5, name := "M_ST_NA_1", encSeq := 2, encIoa := 2, encVar := false, decMin := 2, decSeqCond := true },
  { typeId := 6, name := "M_ST_TA_1", encSeq := 5, encIoa := 5, encVar := false, decMin := 5, decSeqCond := true },
  { typeId := 7, name := "M_BO_NA_1", encSeq := 5, encIoa := 5, encVar := false, decMin := 5, decSeqCond := true },
  { typeId := 8, name := "M_BO_TA_1", encSeq := 8, encIoa := 8, encVar := false, decMin := 8, decSeqCond := true },
  { typeId := 9, name := "M_ME_NA_1", encSeq := 3, encIoa := 3, encVar := false, decMin := 3, decSeqCond := true },
  { typeId := 10, name := "M_ME_TA_1", encSeq := 6, encIoa := 6, encVar := false, decMin := 6, decSeqCond := true },
  { typeId := 11, name := "M_ME_NB_1", encSeq := 3, encIoa := 3, encVar := false, decMin := 3, decSeqCond := true },
  { typeId := 12, name := "M_ME_TB_1", encSeq := 6, encIoa := 6, encVar := false, decMin := 6, decSeqCond := true },
  { typeId := 13, name := "M_ME_NC_1", encSeq := 5, encIoa := 5, encVar := false, decMin := 5, decSeqCond := true },
  { typeId := 14, name := "M_ME_TC_1", encSeq := 8, encIoa := 8, encVar := false, decMin := 8, decSeqCond := true },
  { typeId := 15, name := "M_IT_NA_1", encSeq := 5, encIoa := 5, encVar := false, decMin := 5, decSeqCond := true },
  { typeId := 16, name := "M_IT_TA_1", encSeq := 8, encIoa := 8, encVar := false, decMin := 8, decSeqCond := true },
  { typeId := 17, name := "M_EP_TA_1", encSeq := 6, encIoa := 6, encVar := false, decMin := 6, decSeqCond := true },
  { typeId := 18, name := "M_EP_TB_1", encSeq := 7, encIoa := 7, encVar := false, decMin := 7, decSeqCond := true },
  { typeId := 19, name := "M_EP_TC_1", encSeq := 7, encIoa := 7, encVar := false, decMin := 7, decSeqCond := true },
  { typeId := 20, name := "M_PS_NA_1", encSeq := 5, encIoa := 5, encVar := false, decMin := 5, decSeqCond := true },
  { typeId := 21, name := "M_ME_ND_1", encSeq := 2, encIoa := 2, encVar := false, decMin := 2, decSeqCond := true },
  { typeId := 30, name := "M_SP_TB_1", encSeq := 8, encIoa := 8, encVar := false, decMin := 8, decSeqCond := true },
  { typeId := 31, name := "M_DP_TB_1", encSeq := 8, encIoa := 8, encVar := false, decMin := 8, decSeqCond := true },
  { typeId := 32, name := "M_ST_TB_1", encSeq := 9, encIoa := 9, encVar := false, decMin := 9, decSeqCond := true },
  { typeId := 33, name := "M_BO_TB_1", encSeq := 12, encIoa := 12, encVar := false, decMin := 12, decSeqCond := true },
  { typeId := 34, name := "M_ME_TD_1", encSeq := 10, encIoa := 10, encVar := false, decMin := 10, decSeqCond := true },
  { typeId := 35, name := "M_ME_TE_1", encSeq := 10, encIoa := 10, encVar := false, decMin := 10, decSeqCond := true },
  { typeId := 36, name := "M_ME_TF_1", encSeq := 12, encIoa := 12, encVar := false, decMin := 12, decSeqCond := true },
  { typeId := 37, name := "M_IT_TB_1", encSeq := 12, encIoa := 12, encVar := false, decMin := 12, decSeqCond := true },
  { typeId := 38, name := "M_EP_TD_1", encSeq := 10, encIoa := 10, encVar := false, decMin := 10, decSeqCond := true },
  { typeId := 39, name := "M_EP_TE_1", encSeq := 11, encIoa := 11, encVar := false, decMin := 11, decSeqCond := true },
  { typeId := 40, name := "M_EP_TF_1", encSeq := 11, encIoa := 11, encVar := false, decMin := 11, decSeqCond := true },
  { typeId := 45, name := "C_SC_NA_1", encSeq := 1, encIoa := 1, encVar := false, decMin := 1, decSeqCond := false },
  { typeId := 46, name := "C_DC_NA_1", encSeq := 1, encIoa := 1, encVar := false, decMin := 1, decSeqCond := false },
  { typeId := 47, name := "C_RC_NA_1", encSeq := 1, encIoa := 1, encVar := false, decMin := 1, decSeqCond := false },
  { typeId := 48, name := "C_SE_NA_1", encSeq := 3, encIoa := 3, encVar := false, decMin := 3, decSeqCond := false },
  { typeId := 49, name := "C_SE_NB_1", encSeq := 3, encIoa := 3, encVar := false, decMin := 3, decSeqCond := false },
  { typeId := 50, name := "C_SE_NC_1", encSeq := 5, encIoa := 5, encVar := false, decMin := 5, decSeqCond := false },
  { typeId := 51, name := "C_BO_NA_1", encSeq := 5, encIoa := 5, encVar := false, decMin := 4, decSeqCond := false },
  { typeId := 58, name := "C_SC_TA_1", encSeq := 8, encIoa := 8, encVar := false, decMin := 8, decSeqCond := false },
  { typeId := 59, name := "C_DC_TA_1", encSeq := 8, encIoa := 8, encVar := false, decMin := 8, decSeqCond := false },
  { typeId := 60, name := "C_RC_TA_1", encSeq := 8, encIoa := 8, encVar := false, decMin := 8, decSeqCond := false },
  { typeId := 61, name := "C_SE_TA_1", encSeq := 10, encIoa := 10, encVar := false, decMin := 10, decSeqCond := false },
  { typeId := 62, name := "C_SE_TB_1", encSeq := 10, encIoa := 10, encVar := false, decMin := 10, decSeqCond := false },
  { typeId := 63, name := "C_SE_TC_1", encSeq := 12, encIoa := 12, encVar := false, decMin := 12, decSeqCond := false },
  { typeId := 64, name := "C_BO_TA_1", encSeq := 12, encIoa := 12, encVar := false, decMin := 11, decSeqCond := false },
  { typeId := 70, name := "M_EI_NA_1", encSeq := 1, encIoa := 1, encVar := false, decMin := 1, decSeqCond := false },
  { typeId := 100, name := "C_IC_NA_1", encSeq := 1, encIoa := 1, encVar := false, decMin := 1, decSeqCond := false },
  { typeId := 101, name := "C_CI_NA_1", encSeq := 1, encIoa := 1, encVar := false, decMin := 1, decSeqCond := false },
  { typeId := 102, name := "C_RD_NA_1", encSeq := 0, encIoa := 0, encVar := false, decMin := 0, decSeqCond := false },
  { typeId := 103, name := "C_CS_NA_1", encSeq := 7, encIoa := 7, encVar := false, decMin := 7, decSeqCond := false },
  { typeId := 104, name := "C_TS_NA_1", encSeq := 2, encIoa := 2, encVar := false, decMin := 2, decSeqCond := false },
  { typeId := 105, name := "C_RP_NA_1", encSeq := 1, encIoa := 1, encVar := false, decMin := 1, decSeqCond := false },
  { typeId := 106, name := "C_CD_NA_1", encSeq := 2, encIoa := 2, encVar := false, decMin := 2, decSeqCond := false },
  { typeId := 107, name := "C_TS_TA_1", encSeq := 2, encIoa := 9, encVar := false, decMin := 9, decSeqCond := false },
  { typeId := 110, name := "P_ME_NA_1", encSeq := 3, encIoa := 3, encVar := false, decMin := 3, decSeqCond := false },
  { typeId := 111, name := "P_ME_NB_1", encSeq := 3, encIoa := 3, encVar := false, decMin := 3, decSeqCond := false },
  { typeId := 112, name := "P_ME_NC_1", encSeq := 5, encIoa := 5, encVar := false, decMin := 5, decSeqCond := false },
  { typeId := 113, name := "P_AC_NA_1", encSeq := 1, encIoa := 1, encVar := false, decMin := 1, decSeqCond := false },
  { typeId := 120, name := "F_FR_NA_1", encSeq := 6, encIoa := 6, encVar := false, decMin := 6, decSeqCond := false },
  { typeId := 121, name := "F_SR_NA_1", encSeq := 7, encIoa := 7, encVar := false, decMin := 7, decSeqCond := false },
  { typeId := 122, name := "F_SC_NA_1", encSeq := 4, encIoa := 4, encVar := false, decMin := 4, decSeqCond := false },
  { typeId := 123, name := "F_LS_NA_1", encSeq := 5, encIoa := 5, encVar := false, decMin := 5, decSeqCond := false },
  { typeId := 124, name := "F_AF_NA_1", encSeq := 4, encIoa := 4, encVar := false, decMin := 4, decSeqCond := false },
  { typeId := 125, name := "F_SG_NA_1", encSeq := 4, encIoa := 4, encVar := true, decMin := 4, decSeqCond := false },
  { typeId := 126, name := "F_DR_TA_1", encSeq := 13, encIoa := 13, encVar := false, decMin := 13, decSeqCond := true },
  { typeId := 127, name := "F_SC_NB_1", encSeq := 16, encIoa := 16, encVar := false, decMin := 16, decSeqCond := false }
]

end Iec.Gen
