/-
The client's V(S) over every sequence of `CS104_Connection_sendASDU` calls: it advances by one (modulo 32768) exactly when
a call reports success, a refused call (not running, window full) changes nothing - so the N(S) of the next I-format APDU
is the number of ASDUs the connection accepted for sending since it was opened.
-/
import Iec.Lemmas.Cli104Vr
namespace Iec.Cli104
open Iec.KWindow Iec.Srv104

theorem write_vs (c : Cli) (b : List Nat) : (write c b).vs = c.vs := by
  unfold write emit
  repeat' split
  all_goals rfl

/-- **`sendAsdu`: V(S) advances by one exactly when the call reports success; a refused call changes nothing** -/
theorem sendAsdu_vs (c : Cli) (a : List Nat) :
    ((sendAsdu c a).2 = true → (sendAsdu c a).1.vs = (c.vs + 1) % 32768 ∧ (sendAsdu c a).1.vr = c.vr) ∧
    ((sendAsdu c a).2 = false → (sendAsdu c a).1 = c) := by
  unfold sendAsdu
  split
  · split
    · simp [write_vs, write_vr]
    · simp
  · simp

/-- hand the ASDUs to the connection one after the other -/
def sendAll (c : Cli) (as : List (List Nat)) : Cli := as.foldl (fun c a => (sendAsdu c a).1) c

/-- how many of the calls report success (each judged in the state it is made in) -/
def sentCount (c : Cli) : List (List Nat) → Nat
  | [] => 0
  | a :: as => (if (sendAsdu c a).2 then 1 else 0) + sentCount (sendAsdu c a).1 as

/-- **V(S) of the client counts the ASDUs accepted for sending, modulo 32768, over every sequence of calls** -/
theorem vs_counts_sentC : ∀ (as : List (List Nat)) (c : Cli), c.vs < 32768 →
    (sendAll c as).vs = (c.vs + sentCount c as) % 32768 := by
  intro as
  induction as with
  | nil => intro c hv; simp [sendAll, sentCount, Nat.mod_eq_of_lt hv]
  | cons a as ih =>
    intro c hv
    obtain ⟨hs, hf⟩ := sendAsdu_vs c a
    unfold sendAll sentCount
    simp only [List.foldl_cons]
    cases hr : (sendAsdu c a).2
    · have := ih c hv
      unfold sendAll at this
      rw [hf hr]
      simpa using this
    · have hvs := (hs hr).1
      have := ih (sendAsdu c a).1 (by rw [hvs]; exact Nat.mod_lt _ (by decide))
      unfold sendAll at this
      rw [this, hvs]
      simp only [if_true]
      omega

theorem seqCodecC (n : Nat) (h : n < 32768) :
    seqLo n % 2 = 0 ∧ (seqHi n * 0x100 + (seqLo n &&& 0xfe)) / 2 = n := by
  unfold seqLo seqHi
  have hm : ∀ x, x < 256 → x % 2 = 0 → x &&& 0xfe = x := by decide +kernel
  have h1 : n % 128 * 2 % 256 < 256 := Nat.mod_lt _ (by omega)
  have h2 : n % 128 * 2 % 256 % 2 = 0 := by omega
  rw [hm _ h1 h2]
  omega

/-- the client's socket exists and accepts writes -/
def Writable (c : Cli) : Prop := (c.phase = 2 ∨ c.phase = 3) ∧ c.sock.writeFail = false ∧ c.sock.peerClosed = false

theorem write_writable (c : Cli) (h : Writable c) (b : List Nat) : write c b = emit c (.tx b) := by
  obtain ⟨hp, h1, h2⟩ := h
  unfold write
  rcases hp with hp | hp <;> simp [hp, h1, h2]

/-- the I-format APDU `sendAsdu` builds in state `c` -/
def iFrame (c : Cli) (a : List Nat) : List Nat :=
  [0x68, (a.length + 4) % 256, seqLo c.vs, seqHi c.vs, seqLo c.vr, seqHi c.vr] ++ a

theorem iFrame_ns (c : Cli) (a : List Nat) (hv : c.vs < 32768) :
    frameNS (iFrame c a) = c.vs ∧ (iFrame c a).getD 2 0 % 2 = 0 := by
  obtain ⟨h1, h2⟩ := seqCodecC c.vs hv
  unfold frameNS iFrame
  exact ⟨by simpa using h2, by simpa using h1⟩

/-- **`sendAsdu` on a writable socket: a successful call appends exactly its I-format APDU to the wire, a refused
call nothing; the socket stays writable** -/
theorem sendAsdu_wire (c : Cli) (a : List Nat) (hw : Writable c) :
    ((sendAsdu c a).2 = true → (sendAsdu c a).1.log = c.log ++ [.tx (iFrame c a)]) ∧ Writable (sendAsdu c a).1 := by
  unfold sendAsdu
  cases hr : c.running
  · exact ⟨by simp, by simpa using hw⟩
  · cases hf : isFull (c.maxSent.getD c.p.k) c.win
    · simp only [if_true, Bool.not_false]
      rw [write_writable c hw]
      exact ⟨fun _ => by simp [emit, iFrame], by simpa [Writable, emit] using hw⟩
    · exact ⟨by simp, by simpa using hw⟩

/-- **N(S) on the wire, client, over every sequence of calls.** On a socket that accepts writes, whatever sequence of
ASDUs the application hands over (accepted or refused), what the calls append to the wire is exactly one I-format APDU
per accepted call, and the j-th of them carries N(S) = (V(S) at the start + j) mod 32768. -/
theorem ns_on_the_wireC : ∀ (as : List (List Nat)) (c : Cli), c.vs < 32768 → Writable c →
    ∃ fr : List (List Nat), (sendAll c as).log = c.log ++ fr.map Obs.tx ∧ fr.length = sentCount c as ∧
      ∀ j, j < fr.length → frameNS (fr.getD j []) = (c.vs + j) % 32768 ∧ (fr.getD j []).getD 2 0 % 2 = 0 := by
  intro as
  induction as with
  | nil => intro c _ _; exact ⟨[], by simp [sendAll], by simp [sentCount], by simp⟩
  | cons a as ih =>
    intro c hv hw
    obtain ⟨hs, hf⟩ := sendAsdu_vs c a
    obtain ⟨hl, hw'⟩ := sendAsdu_wire c a hw
    unfold sendAll sentCount
    simp only [List.foldl_cons]
    cases hr : (sendAsdu c a).2
    · obtain ⟨fr, h1, h2, h3⟩ := ih c hv hw
      unfold sendAll at h1
      rw [hf hr]
      exact ⟨fr, h1, by simpa using h2, h3⟩
    · have hvs := (hs hr).1
      obtain ⟨fr, h1, h2, h3⟩ := ih (sendAsdu c a).1 (by rw [hvs]; exact Nat.mod_lt _ (by decide)) hw'
      unfold sendAll at h1
      refine ⟨iFrame c a :: fr, ?_, ?_, ?_⟩
      · rw [h1, hl hr]; simp
      · simp only [List.length_cons, if_true, h2]; omega
      · intro j hj
        cases j with
        | zero =>
          obtain ⟨x, y⟩ := iFrame_ns c a hv
          simpa [Nat.mod_eq_of_lt hv] using And.intro x y
        | succ j =>
          have := h3 j (by simpa using hj)
          rw [hvs] at this
          simp only [List.getD_cons_succ]
          refine ⟨?_, this.2⟩
          rw [this.1]; omega

end Iec.Cli104
