/-
N(S) on the wire over every history (C03): the I-format APDUs written on a connection since it was opened carry
N(S) = 0, 1, 2, ... modulo 32768 in the order they are written, and V(S) is their number modulo 32768.
`ifr log j` counts the I-format APDUs written for slot `j` since the last OPENED event of that slot.
-/
import Iec.Lemmas.Srv104EvFree
namespace Iec.Srv104
open Iec.KWindow Iec.Queues

theorem seqCodec (n : Nat) (h : n < 32768) :
    seqLo n % 2 = 0 ∧ (seqHi n * 0x100 + (seqLo n &&& 0xfe)) / 2 = n := by
  unfold seqLo seqHi
  have hm : ∀ x, x < 256 → x % 2 = 0 → x &&& 0xfe = x := by decide +kernel
  have h1 : n % 128 * 2 % 256 < 256 := Nat.mod_lt _ (by omega)
  have h2 : n % 128 * 2 % 256 % 2 = 0 := by omega
  rw [hm _ h1 h2]
  omega

instance (b : List Nat) : Decidable (isI b) := by unfold isI; infer_instance

/-- one log entry: OPENED of the slot restarts the count, an I-format APDU on the slot counts -/
def ifrStep (j : Nat) (n : Nat) : Obs → Nat
  | .ev c w => if c = j ∧ w = "OPENED" then 0 else n
  | .tx c b => if c = j ∧ isI b then n + 1 else n
  | _ => n

def ifr (log : List Obs) (j : Nat) : Nat := log.foldl (ifrStep j) 0

theorem ifr_snoc (log : List Obs) (o : Obs) (j : Nat) : ifr (log ++ [o]) j = ifrStep j (ifr log j) o := by
  simp [ifr, List.foldl_append]

/-- an observation that neither opens a slot nor is an I-format APDU -/
def Obs.quiet : Obs → Prop
  | .ev _ w => w ≠ "OPENED"
  | .tx _ b => ¬ isI b
  | _ => True

theorem ifrStep_quiet (j n : Nat) (o : Obs) (h : o.quiet) : ifrStep j n o = n := by
  cases o with
  | ev c w => simp only [ifrStep]; rw [if_neg]; intro hc; exact h hc.2
  | tx c b => simp only [ifrStep]; rw [if_neg]; intro hc; exact h hc.2
  | asdu c a => rfl
  | reply c r => rfl

/-- **V(S) is the number of I-format APDUs written since the connection was opened, and each carries its index** -/
def NInv (s : Slave) : Prop :=
  (∀ j, (s.conn j).isUsed = true → (s.conn j).vs = ifr s.log j % 32768) ∧
  (∀ l1 c b l2, s.log = l1 ++ Obs.tx c b :: l2 → isI b → frameNS b = ifr l1 c % 32768)

/-- the frame relation: `isUsed` of every slot is kept, the invariant is kept -/
structure NR (s s' : Slave) : Prop where
  len : s'.conns.length = s.conns.length
  used : ∀ j, (s'.conn j).isUsed = (s.conn j).isUsed
  inv : NInv s → NInv s'

theorem NR.refl (s : Slave) : NR s s := ⟨rfl, fun _ => rfl, id⟩
theorem NR.trans {a b c : Slave} (h1 : NR a b) (h2 : NR b c) : NR a c :=
  ⟨h2.len.trans h1.len, fun j => (h2.used j).trans (h1.used j), fun h => h2.inv (h1.inv h)⟩

/-- a step that leaves the log and (isUsed, V(S)) of every slot alone -/
theorem nr_of_same {s s' : Slave} (hl : s'.log = s.log) (hlen : s'.conns.length = s.conns.length)
    (hc : ∀ j, (s'.conn j).isUsed = (s.conn j).isUsed ∧ (s'.conn j).vs = (s.conn j).vs) : NR s s' := by
  refine ⟨hlen, fun j => (hc j).1, fun h => ⟨fun j hu => ?_, ?_⟩⟩
  · rw [hl, (hc j).2]; exact h.1 j (by rw [← (hc j).1]; exact hu)
  · rw [hl]; exact h.2

theorem nr_of_conns {s s' : Slave} (_ : s'.p = s.p) (hc : s'.conns = s.conns) (hl : s'.log = s.log) : NR s s' :=
  nr_of_same hl (by rw [hc]) (fun j => by unfold Slave.conn; rw [hc]; exact ⟨rfl, rfl⟩)

theorem nr_setGrp (s : Slave) (g : Nat) (x : Group) : NR s (s.setGrp g x) := nr_of_conns rfl rfl rfl

/-- the side condition for writing the record of a slot back: `isUsed` and V(S) as before -/
def SameVs (c c' : Conn) : Prop := c'.isUsed = c.isUsed ∧ c'.vs = c.vs
theorem SameVs.refl (c : Conn) : SameVs c c := ⟨rfl, rfl⟩

theorem nr_setConn (s : Slave) (i : Nat) (c : Conn) (h : SameVs (s.conn i) c) : NR s (s.setConn i c) := by
  refine nr_of_same rfl (setConn_len _ _ _) (fun j => ?_)
  by_cases hj : j = i
  · subst hj
    by_cases hl : j < s.conns.length
    · rw [conn_setConn _ _ _ hl]; exact h
    · have hs : s.conns.set j c = s.conns := List.set_eq_of_length_le (Nat.le_of_not_lt hl)
      have : (s.setConn j c).conn j = s.conn j := by unfold Slave.conn Slave.setConn; simp only [hs]
      rw [this]; exact ⟨rfl, rfl⟩
  · rw [conn_setConn_ne _ _ _ _ hj]; exact ⟨rfl, rfl⟩

theorem samevs_after_set (s : Slave) (i : Nat) (c c' : Conn) (h1 : SameVs c c') (h2 : SameVs (s.conn i) c') :
    SameVs ((s.setConn i c).conn i) c' := by
  by_cases hl : i < s.conns.length
  · rw [conn_setConn _ _ _ hl]; exact h1
  · have hs : s.conns.set i c = s.conns := List.set_eq_of_length_le (Nat.le_of_not_lt hl)
    have : (s.setConn i c).conn i = s.conn i := by unfold Slave.conn Slave.setConn; simp only [hs]
    rw [this]; exact h2

macro "nvc0" : tactic => `(tactic| first
  | exact SameVs.refl _
  | exact ⟨rfl, rfl⟩)
macro "nvc" : tactic => `(tactic| first
  | nvc0
  | (apply samevs_after_set <;> nvc0))

/-- logging an observation that neither opens a slot nor is an I-format APDU -/
theorem nr_emit (s : Slave) (o : Obs) (h : o.quiet) : NR s (emit s o) := by
  refine ⟨rfl, fun _ => rfl, fun hi => ⟨fun j hu => ?_, ?_⟩⟩
  · show (s.conn j).vs = ifr (s.log ++ [o]) j % 32768
    rw [ifr_snoc, ifrStep_quiet _ _ _ h]; exact hi.1 j hu
  · intro l1 c b l2 hs hI
    have hs' : s.log ++ [o] = l1 ++ Obs.tx c b :: l2 := hs
    rcases split_append s.log [o] l1 l2 (Obs.tx c b) hs' with ⟨r, hr1, _⟩ | ⟨m1, _, hm2⟩
    · exact hi.2 l1 c b r hr1 hI
    · -- the new entry would have to be the I-format APDU itself
      exfalso
      cases m1 with
      | nil =>
        simp only [List.nil_append, List.cons.injEq] at hm2
        rw [hm2.1] at h
        exact h hI
      | cons y ys =>
        simp only [List.cons_append, List.cons.injEq] at hm2
        have := hm2.2
        cases ys <;> simp at this

/-- a written frame that is not I-format -/
theorem nr_write (s : Slave) (i : Nat) (b : List Nat) (hb : ¬ isI b) : NR s (write s i b).1 := by
  unfold write; simp only; split
  · exact NR.refl s
  · exact nr_emit s _ hb

theorem ifrStep_other (j c n : Nat) (b : List Nat) (h : c ≠ j) : ifrStep j n (.tx c b) = n := by
  simp only [ifrStep]; rw [if_neg]; intro hc; exact h hc.1

/-- **`sendIMessage` on a slot in use**: the frame carries N(S) = V(S) = the count so far; V(S) and the count advance
together (only when the write succeeds) -/
theorem nr_sendI (s : Slave) (i : Nat) (a : List Nat) (q : Option (Nat × Nat)) (hu : (s.conn i).isUsed = true) :
    NR s (sendI s i a q) := by
  have hi := lt_of_used s i hu
  unfold sendI write
  simp only
  split
  · -- the write fails: nothing is logged, V(S) stays
    refine nr_of_same rfl (setConn_len _ _ _) (fun j => ?_)
    by_cases hj : j = i
    · subst hj; rw [conn_setConn _ _ _ hi]; exact ⟨rfl, rfl⟩
    · rw [conn_setConn_ne _ _ _ _ hj]; exact ⟨rfl, rfl⟩
  · -- the frame is written
    generalize hfr : ([0x68, (a.length + 4) % 256, seqLo (s.conn i).vs, seqHi (s.conn i).vs, seqLo (s.conn i).vr, seqHi (s.conn i).vr] ++ a) = frame
    have hlen : i < (emit s (.tx i frame)).conns.length := hi
    refine ⟨by rw [setConn_len]; rfl, fun j => ?_, fun hinv => ?_⟩
    · by_cases hj : j = i
      · subst hj; rw [conn_setConn _ _ _ hlen]; rfl
      · rw [conn_setConn_ne _ _ _ _ hj]; rfl
    · have hvs := hinv.1 i hu
      have hvlt : (s.conn i).vs < 32768 := by rw [hvs]; exact Nat.mod_lt _ (by decide)
      obtain ⟨hc1, hc2⟩ := seqCodec (s.conn i).vs hvlt
      have hfI : isI frame := by
        rw [← hfr]; unfold isI; simpa using hc1
      have hfns : frameNS frame = (s.conn i).vs := by
        rw [← hfr]; unfold frameNS; simpa using hc2
      refine ⟨fun j hu' => ?_, ?_⟩
      · show ((Slave.setConn (emit s (.tx i frame)) i _).conn j).vs = ifr (s.log ++ [Obs.tx i frame]) j % 32768
        rw [ifr_snoc]
        by_cases hj : j = i
        · subst hj
          rw [conn_setConn _ _ _ hlen]
          show ((s.conn j).vs + 1) % 32768 = _
          simp only [ifrStep, hfI, and_self, if_true]
          rw [hvs]; omega
        · rw [conn_setConn_ne _ _ _ _ hj, ifrStep_other _ _ _ _ (Ne.symm hj)]
          have hu'' : (s.conn j).isUsed = true := by rw [conn_setConn_ne _ _ _ _ hj] at hu'; exact hu'
          exact hinv.1 j hu''
      · intro l1 c b l2 hs hI
        have hs' : s.log ++ [Obs.tx i frame] = l1 ++ Obs.tx c b :: l2 := hs
        rcases split_append s.log [Obs.tx i frame] l1 l2 (Obs.tx c b) hs' with ⟨r, hr1, _⟩ | ⟨m1, hm1, hm2⟩
        · exact hinv.2 l1 c b r hr1 hI
        · cases m1 with
          | nil =>
            simp only [List.nil_append, List.cons.injEq, Obs.tx.injEq] at hm2
            obtain ⟨⟨hci, hbf⟩, _⟩ := hm2
            rw [← hci, ← hbf, hm1, List.append_nil, hfns, hvs]
          | cons y ys =>
            exfalso
            simp only [List.cons_append, List.cons.injEq] at hm2
            have := hm2.2
            cases ys <;> simp at this

theorem nr_foldl0 {α} (f : Slave → α → Slave) (hf : ∀ s a, NR s (f s a)) : ∀ (l : List α) (s : Slave), NR s (l.foldl f s) := by
  intro l
  induction l with
  | nil => intro s; exact NR.refl s
  | cons a l ih => intro s; exact NR.trans (hf s a) (ih _)

theorem nr_confirmReleased (rel : List KEntry) (s : Slave) (i : Nat) : NR s (confirmReleased s i rel) := by
  unfold confirmReleased
  apply nr_foldl0
  intro t e
  split
  · exact nr_setGrp _ _ _
  · exact NR.refl t

theorem nr_sendS (s : Slave) (i : Nat) : NR s (sendS s i) := by
  unfold sendS
  simp only
  have hw := nr_write s i [0x68, 0x04, 0x01, 0, seqLo (s.conn i).vr, seqHi (s.conn i).vr] (by unfold isI; simp)
  generalize write s i [0x68, 0x04, 0x01, 0, seqLo (s.conn i).vr, seqHi (s.conn i).vr] = r at hw
  obtain ⟨s1, ok⟩ := r
  simp only at hw ⊢
  split
  · exact hw
  · exact NR.trans hw (nr_setConn _ _ _ (by nvc))

theorem nr_deactivate (s : Slave) (i : Nat) : NR s (deactivate s i) := by
  unfold deactivate
  simp only
  split
  · exact NR.trans (nr_emit s _ (by first | exact trivial | (show _ ≠ _; decide))) (nr_setConn _ _ _ (by nvc))
  · exact nr_setConn _ _ _ (by nvc)

theorem nr_checkSeqConn (s : Slave) (i : Nat) (nr : Nat) : NR s (checkSeqConn s i nr).1 := by
  unfold checkSeqConn
  simp only
  generalize checkSeq (s.conn i).vs (s.conn i).win nr = r
  obtain ⟨ok, w, rel⟩ := r
  simp only
  exact NR.trans (nr_setConn _ _ _ (by nvc)) (nr_confirmReleased _ _ _)

theorem nr_foldl {α} (f : Slave → α → Slave) (hf : ∀ s a, NR s (f s a)) : ∀ (l : List α) (s : Slave), NR s (l.foldl f s) := by
  intro l
  induction l with
  | nil => intro s; exact NR.refl s
  | cons a l ih => intro s; exact NR.trans (hf s a) (ih _)

/-- peel the outermost state transformer off a `NR s (F …)` goal (syntactic match only) -/
macro "nr_step" : tactic => `(tactic| first
  | with_reducible exact NR.refl _
  | ((with_reducible refine NR.trans ?_ (nr_setConn _ _ _ ?_)) <;> (try nvc))
  | with_reducible refine NR.trans ?_ (nr_emit _ _ (by first | exact trivial | (show _ ≠ _; decide)))
  | with_reducible refine NR.trans ?_ (nr_setGrp _ _ _)
  | with_reducible refine NR.trans ?_ (nr_write _ _ _ (by first | decide | (unfold isI; simp)))
  | with_reducible refine NR.trans ?_ (nr_sendS _ _)
  | with_reducible refine NR.trans ?_ (nr_deactivate _ _)
  | with_reducible refine NR.trans ?_ (nr_checkSeqConn _ _ _)
  )

theorem nr_receiveMessage (s : Slave) (i : Nat) : NR s (receiveMessage s i).1 := by
  unfold receiveMessage
  simp only
  exact nr_setConn _ _ _ (by nvc)

theorem nr_ackIfW (s : Slave) (i : Nat) : NR s (ackIfW s i) := by
  unfold ackIfW
  simp only
  split
  · exact NR.trans (nr_setConn _ _ _ (by nvc)) (nr_sendS _ _)
  · exact NR.refl s

/-- unfold nothing, split every `if` / `match`, name every `let`, peel the state transformers from the outside -/
macro "nr_auto" : tactic => `(tactic| repeat' (first
  | (with_reducible exact NR.refl _)
  | nvc
  | split
  | extract_lets
  | nr_step
  | (dsimp (config := { zetaDelta := true, zeta := false }) only)))

theorem nr_phaseT3 (s : Slave) (i : Nat) : NR s (phaseT3 s i) := by
  unfold phaseT3
  try simp (config := { zeta := false }) only []
  nr_auto

theorem nr_phaseTestFR (s : Slave) (i : Nat) : NR s (phaseTestFR s i).1 := by
  unfold phaseTestFR
  try simp (config := { zeta := false }) only []
  nr_auto

theorem nr_phaseT2 (s : Slave) (i : Nat) : NR s (phaseT2 s i) := by
  unfold phaseT2
  try simp (config := { zeta := false }) only []
  nr_auto

theorem nr_phaseT1 (s : Slave) (i : Nat) (ok : Bool) : NR s (phaseT1 s i ok).1 := by
  unfold phaseT1
  try simp (config := { zeta := false }) only []
  nr_auto

theorem nr_handleTimeouts (s : Slave) (i : Nat) : NR s (handleTimeouts s i).1 := by
  unfold handleTimeouts
  try simp (config := { zeta := false }) only []
  exact NR.trans (nr_phaseT3 s i) (NR.trans (nr_phaseTestFR _ i) (NR.trans (nr_phaseT2 _ i) (nr_phaseT1 _ i _)))

theorem nr_resetUnconfirmed (s : Slave) (j : Nat) : NR s (resetUnconfirmed s j) := by
  unfold resetUnconfirmed
  apply nr_foldl
  intro t e
  split
  · exact nr_setGrp _ _ _
  · exact NR.refl t

theorem nr_t3upd (s : Slave) (i : Nat) : NR s (t3upd s i) := by
  unfold t3upd; exact nr_setConn _ _ _ (by nvc)

theorem nr_hmTestFR (s : Slave) (i : Nat) : NR s (hmTestFR s i).1 := by
  unfold hmTestFR
  have h := nr_write s i TESTFR_CON (by decide)
  generalize write s i TESTFR_CON = r at h
  obtain ⟨s1, ok⟩ := r
  show NR s (if ok = true then (t3upd s1 i, true) else (s1, false)).1
  split
  · exact NR.trans h (nr_t3upd _ _)
  · exact h

theorem nr_stopTail (s : Slave) (i : Nat) (c : Conn) (hc : SameVs (s.conn i) c) :
    NR s (let s := s.setConn i c
              let (s, ok) := write s i STOPDT_CON
              if ok then (t3upd s i, true) else (s, false)).1 := by
  extract_lets s1
  have h1 : NR s s1 := nr_setConn _ _ _ hc
  have h := nr_write s1 i STOPDT_CON (by decide)
  generalize write s1 i STOPDT_CON = r at h
  obtain ⟨s2, ok⟩ := r
  show NR s (if ok = true then (t3upd s2 i, true) else (s2, false)).1
  split
  · exact NR.trans h1 (NR.trans h (nr_t3upd _ _))
  · exact NR.trans h1 h

theorem nr_hmStopDT (s : Slave) (i : Nat) : NR s (hmStopDT s i).1 := by
  unfold hmStopDT
  extract_lets s0 c s1
  have h0 : NR s s0 := nr_deactivate s i
  have h1 : NR s0 s1 := by
    dsimp only [s1]
    split
    · exact NR.trans (nr_setConn _ _ _ (by dsimp only [c]; nvc)) (nr_sendS _ _)
    · exact NR.refl _
  split
  · exact NR.trans h0 (NR.trans h1 (nr_t3upd _ _))
  · exact NR.trans h0 (NR.trans h1 (nr_stopTail s1 i _ (by nvc)))

theorem nr_hmS (s : Slave) (i : Nat) (buf : List Nat) : NR s (hmS s i buf).1 := by
  unfold hmS
  extract_lets nr
  have h := nr_checkSeqConn s i nr
  generalize checkSeqConn s i nr = r at h
  obtain ⟨s1, ok⟩ := r
  dsimp only at h
  show NR s (if (!ok) = true then (s1, false) else _).1
  split
  · exact h
  · extract_lets c
    split
    · split
      · exact NR.trans h (nr_stopTail s1 i _ (by dsimp only [c]; nvc))
      · exact NR.trans h (nr_t3upd _ _)
    · split
      · exact h
      · exact NR.trans h (nr_t3upd _ _)


theorem nr_sendAsduInternal (s : Slave) (i : Nat) (a : List Nat) (hu : (s.conn i).isUsed = true) : NR s (sendAsduInternal s i a).1 := by
  unfold sendAsduInternal
  simp only
  repeat' split
  all_goals first
    | exact nr_sendI _ _ _ _ hu
    | exact nr_setGrp _ _ _
    | exact NR.refl _

theorem nr_appHandler (s : Slave) (i : Nat) (a : List Nat) (hu : (s.conn i).isUsed = true) : NR s (appHandler s i a) := by
  unfold appHandler
  simp only
  have h0 : NR s (emit s (.asdu i a)) := nr_emit s _ trivial
  have key : ∀ (l : List Nat) (t : Slave), (t.conn i).isUsed = true →
      NR t (l.foldl (fun s _ => let (s, ok) := sendAsduInternal s i a; emit s (.reply i ok)) t) := by
    intro l
    induction l with
    | nil => intro t _; exact NR.refl t
    | cons x l ih =>
      intro t ht
      simp only [List.foldl_cons]
      have h1 := nr_sendAsduInternal t i a ht
      have h2 : NR (sendAsduInternal t i a).1 (emit (sendAsduInternal t i a).1 (.reply i (sendAsduInternal t i a).2)) := nr_emit _ _ trivial
      have h12 := NR.trans h1 h2
      exact NR.trans h12 (ih _ (by rw [h12.used i]; exact ht))
  exact NR.trans h0 (key _ _ hu)

theorem nr_handleI (s : Slave) (i : Nat) (buf : List Nat) (hu : (s.conn i).isUsed = true) : NR s (handleI s i buf).1 := by
  unfold handleI
  extract_lets n c c1 s1 ns nr
  have h1 : NR s s1 := nr_setConn _ _ _ (by dsimp only [c1, c]; split <;> nvc)
  split
  · exact NR.refl s
  · split
    · exact NR.refl s
    · split
      · exact h1
      · have h2 := nr_checkSeqConn s1 i nr
        generalize checkSeqConn s1 i nr = r at h2
        obtain ⟨s2, ok⟩ := r
        dsimp only at h2
        show NR s (if (!ok) = true then (s2, false) else _).fst
        have h12 := NR.trans h1 h2
        split
        · exact h12
        · extract_lets c2 s3
          have h3 : NR s2 s3 := nr_setConn _ _ _ (by dsimp only [c2]; nvc)
          have h123 := NR.trans h12 h3
          split
          · split
            · exact h123
            · exact NR.trans h123 (NR.trans (nr_appHandler _ _ _ (by rw [h123.used i]; exact hu)) (nr_setConn _ _ _ (by nvc)))
          · exact h123

theorem nr_sendWaitingHigh (i : Nat) : ∀ (fuel : Nat) (s : Slave), (s.conn i).isUsed = true → NR s (sendWaitingHigh s i fuel).1 := by
  intro fuel
  induction fuel with
  | zero => intro s _; exact NR.refl s
  | succ n ih =>
    intro s hu
    unfold sendWaitingHigh
    simp only
    split
    · split
      · exact NR.refl _
      · generalize (s.grp (s.gidx i)).highQ.getNext = gn
        obtain ⟨hq', d⟩ := gn
        simp only
        have hg : NR s (s.setGrp (s.gidx i) { s.grp (s.gidx i) with highQ := hq' }) := nr_setGrp _ _ _
        split
        · rename_i asdu
          have h2 := nr_sendI (s.setGrp (s.gidx i) { s.grp (s.gidx i) with highQ := hq' }) i asdu none hu
          have h12 := NR.trans hg h2
          split
          · exact h12
          · exact NR.trans h12 (ih _ (by rw [h12.used i]; exact hu))
        · exact hg
    · exact NR.refl _

theorem nr_sendWaitingASDUs (s : Slave) (i : Nat) (hu : (s.conn i).isUsed = true) : NR s (sendWaitingASDUs s i) := by
  unfold sendWaitingASDUs
  have h1 := nr_sendWaitingHigh i ((s.grp (s.gidx i)).highQ.count + 1) s hu
  generalize sendWaitingHigh s i ((s.grp (s.gidx i)).highQ.count + 1) = r at h1
  obtain ⟨s1, cont⟩ := r
  simp only at h1 ⊢
  have hu1 : (s1.conn i).isUsed = true := by rw [h1.used i]; exact hu
  split
  · exact h1
  · split
    · exact h1
    · generalize (s1.grp (s1.gidx i)).lowQ.getNextWaiting = gn
      obtain ⟨lq, r⟩ := gn
      simp only
      have hg : NR s1 (s1.setGrp (s1.gidx i) { s1.grp (s1.gidx i) with lowQ := lq }) := nr_setGrp _ _ _
      split
      · exact NR.trans h1 (NR.trans hg (nr_sendI _ i _ _ hu1))
      · exact NR.trans h1 hg

theorem nr_periodic (s : Slave) (i : Nat) (hu : (s.conn i).isUsed = true) : NR s (periodic s i) := by
  unfold periodic
  have h1 : NR s (if (s.conn i).state = 1 then sendWaitingASDUs s i else s) := by
    split
    · exact nr_sendWaitingASDUs s i hu
    · exact NR.refl s
  extract_lets s1
  have h2 := nr_handleTimeouts s1 i
  generalize handleTimeouts s1 i = r at h2
  obtain ⟨s2, ok⟩ := r
  show NR s (if (!ok) = true then s2.setConn i { s2.conn i with isRunning := false } else s2)
  split
  · exact NR.trans h1 (NR.trans h2 (nr_setConn _ _ _ (by nvc)))
  · exact NR.trans h1 h2

theorem nr_activate (s : Slave) (i : Nat) : NR s (activate s i) := by
  unfold activate
  simp only
  generalize (List.filter _ (List.range s.conns.length)) = js
  have h0 : NR s (js.foldl deactivate s) := nr_foldl _ (fun t j => nr_deactivate t j) _ _
  generalize js.foldl deactivate s = t at h0
  refine NR.trans h0 ?_
  unfold activateConn
  simp only
  split
  · exact NR.trans (nr_emit _ _ (by show _ ≠ _; decide)) (nr_setConn _ _ _ (by nvc))
  · exact nr_setConn _ _ _ (by nvc)

theorem nr_hmStartDT (s : Slave) (i : Nat) : NR s (hmStartDT s i).1 := by
  unfold hmStartDT
  extract_lets s0 g s1
  have h0 : NR s s0 := nr_activate s i
  have h1 : NR s0 s1 := nr_setGrp _ _ _
  have h := nr_write s1 i STARTDT_CON (by decide)
  generalize write s1 i STARTDT_CON = r at h
  obtain ⟨s2, ok⟩ := r
  show NR s (if ok = true then (t3upd s2 i, true) else (s2, false)).1
  split
  · exact NR.trans h0 (NR.trans h1 (NR.trans h (nr_t3upd _ _)))
  · exact NR.trans h0 (NR.trans h1 h)

theorem nr_handleMessage (s : Slave) (i : Nat) (buf : List Nat) (hu : (s.conn i).isUsed = true) : NR s (handleMessage s i buf).1 := by
  unfold handleMessage
  extract_lets n b2
  split
  · exact NR.refl s
  split
  · exact NR.refl s
  split
  · exact NR.refl s
  split
  · exact nr_handleI s i buf hu
  split
  · exact nr_hmTestFR s i
  split
  · exact nr_hmStartDT s i
  split
  · exact nr_hmStopDT s i
  split
  · exact NR.trans (nr_setConn _ _ _ (by nvc)) (nr_t3upd _ _)
  split
  · exact nr_hmS s i buf
  · exact NR.refl s

theorem nr_handleTcpConnection (s : Slave) (i : Nat) (hu : (s.conn i).isUsed = true) : NR s (handleTcpConnection s i) := by
  unfold handleTcpConnection
  have h1 := nr_receiveMessage s i
  generalize receiveMessage s i = r at h1
  obtain ⟨s1, rr, msg⟩ := r
  dsimp only at h1
  simp (config := { zeta := false }) only []
  extract_lets c0 s2 c3 s4
  have h2 : NR s1 s2 := by
    dsimp only [s2]; split
    · exact nr_setConn _ _ _ (by dsimp only [c0]; nvc)
    · exact NR.refl _
  have h12 := NR.trans h1 h2
  split
  · have h3 := nr_handleMessage s2 i msg (by rw [h12.used i]; exact hu)
    have h4 : NR (handleMessage s2 i msg).1 s4 := by
      dsimp only [s4]; split
      · exact nr_setConn _ _ _ (by dsimp only [c3]; nvc)
      · exact NR.refl _
    exact NR.trans h12 (NR.trans h3 (NR.trans h4 (nr_ackIfW _ _)))
  · exact h12

theorem ifrStep_ev_other (j c n : Nat) (w : String) (h : c ≠ j) : ifrStep j n (.ev c w) = n := by
  simp only [ifrStep]; rw [if_neg]; intro hc; exact h hc.1

/-- appending an event to the log adds no I-format APDU: the wire part of the invariant is kept -/
theorem wire_ev (log : List Obs) (c : Nat) (w : String)
    (h : ∀ l1 c' b l2, log = l1 ++ Obs.tx c' b :: l2 → isI b → frameNS b = ifr l1 c' % 32768) :
    ∀ l1 c' b l2, log ++ [Obs.ev c w] = l1 ++ Obs.tx c' b :: l2 → isI b → frameNS b = ifr l1 c' % 32768 := by
  intro l1 c' b l2 hs hI
  rcases split_append log [Obs.ev c w] l1 l2 (Obs.tx c' b) hs with ⟨r, hr1, _⟩ | ⟨m1, _, hm2⟩
  · exact h l1 c' b r hr1 hI
  · exfalso
    cases m1 with
    | nil => simp at hm2
    | cons y ys =>
      simp only [List.cons_append, List.cons.injEq] at hm2
      have := hm2.2
      cases ys <;> simp at this

theorem ninv_reap (t : Slave) (j : Nat) (hu : (t.conn j).isUsed = true) (h : NInv t) : NInv (reap t j) := by
  have hj := lt_of_used t j hu
  unfold reap
  extract_lets s1 s2 c3 s3
  obtain ⟨hl2, hc2⟩ := resetUnconfirmed_same s1 j
  have hc2j : ∀ x, s2.conn x = t.conn x := fun x => by show (resetUnconfirmed s1 j).conn x = _; unfold Slave.conn; rw [hc2]; rfl
  have hlen2 : j < s2.conns.length := by show j < (resetUnconfirmed s1 j).conns.length; rw [hc2]; exact hj
  have hlog : s3.log = t.log ++ [Obs.ev j "CLOSED"] := hl2
  refine ⟨fun x hux => ?_, ?_⟩
  · show (s3.conn x).vs = ifr s3.log x % 32768
    rw [hlog, ifr_snoc]
    by_cases hx : x = j
    · subst hx
      exfalso
      have : (s3.conn x).isUsed = false := by show ((s2.setConn x _).conn x).isUsed = false; rw [conn_setConn _ _ _ hlen2]
      have hux' : (s3.conn x).isUsed = true := hux
      rw [this] at hux'; exact Bool.noConfusion hux'
    · have hcx : s3.conn x = t.conn x := by show (s2.setConn j _).conn x = _; rw [conn_setConn_ne _ _ _ _ hx, hc2j]
      have hux' : (s3.conn x).isUsed = true := hux
      rw [hcx] at hux' ⊢
      rw [ifrStep_ev_other _ _ _ _ (Ne.symm hx)]
      exact h.1 x hux'
  · show ∀ l1 c b l2, s3.log = _ → _
    rw [hlog]; exact wire_ev _ _ _ h.2

theorem ninv_handleClientConnections (s : Slave) (h : NInv s) : NInv (handleClientConnections s) :=
  p2_handleClientConnections NInv (fun t j hu ht => (nr_handleTcpConnection t j hu).inv ht)
    (fun t j hu ht => (nr_periodic t j hu).inv ht) (fun t j hu ht => ninv_reap t j hu ht) s h

theorem ninv_accept (s : Slave) (h : NInv s) : NInv (accept s) := by
  unfold accept
  split
  · split
    · exact h
    · rename_i sk rest _
      extract_lets s0
      have h0 : NInv s0 := (nr_of_conns (s := s) (s' := s0) rfl rfl rfl).inv h
      split
      rename_i answer s1 heq
      have h1 : NInv s1 := by
        have e := (congrArg Prod.snd heq).symm
        dsimp only at e
        rw [e]
        split
        · exact h0
        · exact (nr_of_conns (s := s0) rfl rfl rfl).inv h0
      split
      · exact h1
      · extract_lets free grp
        have hfree : ∀ i, free = some i → i < s1.conns.length := by
          intro i hi
          have hm := List.mem_of_find?_eq_some hi
          simpa using hm
        clear_value free grp
        split
        · rename_i g i
          have hi := hfree i rfl
          extract_lets gr0 s2 s3 s4 c5 s5
          have hc2 : ∀ x, s2.conn x = s1.conn x := by intro x; dsimp only [s2]; split <;> rfl
          have hl2 : s2.log = s1.log := by dsimp only [s2]; split <;> rfl
          have hlen2 : s2.conns.length = s1.conns.length := by dsimp only [s2]; split <;> rfl
          obtain ⟨f1, f2, f3, f4⟩ := initConn_facts s2 i sk g
          have hvs3 : i < s2.conns.length → ((initConn s2 i sk g).conn i).vs = 0 := by
            intro hi2
            unfold initConn
            extract_lets c c1 t1 gi gr gr2
            show ((s2.setConn i c1).conn i).vs = 0
            rw [conn_setConn _ _ _ hi2]
          have hi4 : i < s4.conns.length := by show i < s3.conns.length; rw [f2, hlen2]; exact hi
          have hl5 : s5.log = s1.log := by show s3.log = _; rw [f1, hl2]
          refine ⟨fun x hux => ?_, ?_⟩
          · show ((emit s5 (Obs.ev i "OPENED")).conn x).vs = ifr (s5.log ++ [Obs.ev i "OPENED"]) x % 32768
            rw [hl5, ifr_snoc]
            by_cases hx : x = i
            · subst hx
              have : ((emit s5 (Obs.ev x "OPENED")).conn x).vs = 0 := by
                show ((s4.setConn x _).conn x).vs = 0
                rw [conn_setConn _ _ _ hi4]
                show (s3.conn x).vs = 0
                exact hvs3 (by rw [hlen2]; exact hi)
              rw [this]; simp [ifrStep]
            · have hcx : (emit s5 (Obs.ev i "OPENED")).conn x = s1.conn x := by
                show (s4.setConn i _).conn x = _
                rw [conn_setConn_ne _ _ _ _ hx]
                show s3.conn x = _
                rw [f3 x hx, hc2]
              have hux' : ((emit s5 (Obs.ev i "OPENED")).conn x).isUsed = true := hux
              rw [hcx] at hux' ⊢
              rw [ifrStep_ev_other _ _ _ _ (Ne.symm hx)]
              exact h1.1 x hux'
          · show ∀ l1 c b l2, s5.log ++ [Obs.ev i "OPENED"] = _ → _
            rw [hl5]; exact wire_ev _ _ _ h1.2
        · exact h1
  · exact h

theorem ninv_tick (s : Slave) (h : NInv s) : NInv (tick s) := by
  unfold tick
  exact ninv_handleClientConnections _ (ninv_accept s h)

theorem ninv_apply (s : Slave) (op : LOp) (h : NInv s) : NInv (op.apply s) := by
  cases op with
  | tick => exact ninv_tick s h
  | enqueue a => exact (nr_of_conns (s := s) (s' := enqueue s a) rfl rfl rfl).inv h
  | env e =>
    refine ⟨fun j hu => ?_, ?_⟩
    · show ((e.f s).conn j).vs = ifr (e.f s).log j % 32768
      have hu' : ((e.f s).conn j).isUsed = true := hu
      rw [e.conn s j] at hu' ⊢
      rw [e.log]; exact h.1 j hu'
    · show ∀ l1 c b l2, (e.f s).log = _ → _
      rw [e.log]; exact h.2

/-- **every history**: on every connection the I-format APDUs written since it was opened carry N(S) = 0, 1, 2, ...
modulo 32768 in the order they are written, and V(S) is their number modulo 32768 -/
theorem run_ninv (p : Params) (gs : List (String × List (Bool × List Nat))) (ops : List LOp) :
    NInv (ops.foldl LOp.apply (create p gs)) := by
  have h0 : NInv (create p gs) := by
    refine ⟨fun j hu => ?_, ?_⟩
    · exfalso
      have hc : (create p gs).conn j = {} := by
        unfold create
        simp only [Slave.conn, List.getD_eq_getElem?_getD, List.getElem?_map]
        cases (List.range p.nSlots)[j]? <;> rfl
      rw [hc] at hu; exact Bool.noConfusion hu
    · intro l1 c b l2 hs _
      have : (create p gs).log = [] := by unfold create; rfl
      rw [this] at hs
      cases l1 <;> simp at hs
  generalize create p gs = s at h0
  induction ops generalizing s with
  | nil => exact h0
  | cons op ops ih => exact ih _ (ninv_apply s op h0)

end Iec.Srv104
