/-
History-level facts about the unbalanced secondary station (`Iec.Link101.SecU`): however often the
primary repeats a request, the application sees it once and the station repeats its previous response.
-/
import Iec.Model.Link101
namespace Iec.Link101

/-- the octet strings written, in order -/
def txB (o : List Obs) : List (List Nat) :=
  o.filterMap (fun x => match x with | .tx f => some f.bytes | _ => none)

/-- what was handed to the application (`HandleReceivedData`), in order -/
def rxOf (o : List Obs) : List (List Nat) :=
  o.filterMap (fun x => match x with | .rx _ d => some d | _ => none)

@[simp] theorem txB_append (a b : List Obs) : txB (a ++ b) = txB a ++ txB b := by simp [txB]
@[simp] theorem rxOf_append (a b : List Obs) : rxOf (a ++ b) = rxOf a ++ rxOf b := by simp [rxOf]
@[simp] theorem txB_nil : txB [] = [] := rfl
@[simp] theorem rxOf_nil : rxOf [] = [] := rfl

/-- a request with the frame-count-valid bit set, as the received frame left it in the buffer -/
inductive Req where
  /-- FC 3, confirmed user data -/
  | data (buf : List Nat) (udStart : Nat) (udLen : Int)
  /-- FC 10 (class 1) / FC 11 (class 2) -/
  | poll (buf : List Nat) (cls1 : Bool)
  deriving Repr, DecidableEq

def Req.buf : Req → List Nat
  | .data b _ _ => b
  | .poll b _ => b

/-- what the request hands to the application when it is accepted -/
def Req.payload (r : Req) : List (List Nat) :=
  match r with
  | .data b us ul => if ul > 0 then [userDataOf b us ul] else []
  | .poll _ _ => []

/-- the secondary station receives request `r` carrying frame count bit `fcb` -/
def SecU.request (s : SecU) (r : Req) (fcb : Bool) : SecU × List Obs :=
  let s := { s with ll := { s.ll with buf := r.buf } }
  match r with
  | .data _ us ul => s.handleMessage 3 false fcb true us ul
  | .poll _ cls1 => s.handleMessage (if cls1 then 10 else 11) false fcb true 0 0

/-- the part of the station the application and the peer can tell apart -/
structure View where
  c1 : List (List Nat)
  c2 : List (List Nat)
  expectedFcb : Bool
  userData : List Nat
  p : Params
  address : Nat
  deriving DecidableEq

def SecU.view (s : SecU) : View :=
  { c1 := s.c1, c2 := s.c2, expectedFcb := s.expectedFcb, userData := s.ll.userData, p := s.ll.p, address := s.ll.address }

theorem setState_view (s : SecU) (n : Nat) : (s.setState n).1.view = s.view ∧ txB (s.setState n).2 = [] ∧ rxOf (s.setState n).2 = [] ∧
    (s.setState n).1.ll = s.ll := by
  unfold SecU.setState; split <;> exact ⟨rfl, rfl, rfl, rfl⟩

theorem sendVar_facts (l : LL) (fc a : Nat) (prm dir acd dfc : Bool) (d : List Nat) :
    (l.sendVar fc a prm dir acd dfc d).1.p = l.p ∧ (l.sendVar fc a prm dir acd dfc d).1.address = l.address ∧
    (l.sendVar fc a prm dir acd dfc d).1.userData = l.userData ∧
    txB (l.sendVar fc a prm dir acd dfc d).2 = (varFrame l.p.addrLen (ctrl fc prm dir acd dfc) a d).toList ∧
    rxOf (l.sendVar fc a prm dir acd dfc d).2 = [] := by
  unfold LL.sendVar
  simp only
  split <;> rename_i hv
  · refine ⟨rfl, rfl, rfl, ?_, rfl⟩; conv => rhs; rw [hv]
    rfl
  · refine ⟨rfl, rfl, rfl, ?_, rfl⟩; conv => rhs; rw [hv]
    rfl

theorem sendFixed_facts (l : LL) (fc a : Nat) (prm dir acd dfc : Bool) :
    (l.sendFixed fc a prm dir acd dfc).1.p = l.p ∧ (l.sendFixed fc a prm dir acd dfc).1.address = l.address ∧
    (l.sendFixed fc a prm dir acd dfc).1.userData = l.userData ∧
    txB (l.sendFixed fc a prm dir acd dfc).2 = [fixedFrame l.p.addrLen (ctrl fc prm dir acd dfc) a] ∧
    rxOf (l.sendFixed fc a prm dir acd dfc).2 = [] := ⟨rfl, rfl, rfl, rfl, rfl⟩

/-- the acknowledgement depends on the view only -/
def ackBytes (v : View) (acd singleOk : Bool) : List (List Nat) :=
  if v.p.singleAck && singleOk then [singleChar] else [fixedFrame v.p.addrLen (ctrl 0 false false acd false) v.address]

theorem ack_facts (s : SecU) (acd singleOk : Bool) :
    (s.ack acd singleOk).1.view = s.view ∧ txB (s.ack acd singleOk).2 = ackBytes s.view acd singleOk ∧
    rxOf (s.ack acd singleOk).2 = [] := by
  unfold SecU.ack ackBytes
  split
  · rename_i h
    have : (s.view.p.singleAck && singleOk) = true := h
    simp only [this, if_true]
    exact ⟨rfl, rfl, rfl⟩
  · rename_i h
    have : ¬ ((s.view.p.singleAck && singleOk) = true) := h
    simp only [this, if_false]
    exact ⟨rfl, rfl, rfl⟩

/-- the answer to a poll as a function of the view *after* the queues were served -/
def pollBytes (v : View) : List (List Nat) :=
  let acd := !v.c1.isEmpty
  if v.userData.length > 0 then (varFrame v.p.addrLen (ctrl 8 false false acd false) v.address v.userData).toList
  else if v.p.singleAck && !acd then [singleChar]
  else [fixedFrame v.p.addrLen (ctrl 9 false false acd false) v.address]

/-- the view after the station accepted request `r` (its frame count bit was the expected one) -/
def View.accept (v : View) (r : Req) : View :=
  match r with
  | .data _ _ _ => { v with expectedFcb := !v.expectedFcb }
  | .poll _ true => { v with expectedFcb := !v.expectedFcb, c1 := v.c1.tail, userData := v.c1.head?.getD [] }
  | .poll _ false => { v with expectedFcb := !v.expectedFcb, c2 := v.c2.tail, userData := v.c2.head?.getD [] }

/-- the response to `r` read off the view the acceptance left behind -/
def View.resp (v : View) (r : Req) : List (List Nat) :=
  match r with
  | .data _ _ _ => ackBytes v (!v.c1.isEmpty) (!(!v.c1.isEmpty))
  | .poll _ _ => pollBytes v

/-- the application never queues an empty ASDU -/
def View.QueuesOk (v : View) : Prop := (∀ d ∈ v.c1, d ≠ []) ∧ (∀ d ∈ v.c2, d ≠ [])

theorem accept_queuesOk (v : View) (r : Req) (h : v.QueuesOk) : (v.accept r).QueuesOk := by
  obtain ⟨h1, h2⟩ := h
  cases r with
  | data => exact ⟨h1, h2⟩
  | poll b c =>
    cases c
    · exact ⟨h1, fun d hd => h2 d (List.mem_of_mem_tail hd)⟩
    · exact ⟨fun d hd => h1 d (List.mem_of_mem_tail hd), h2⟩

theorem userData_step (s : SecU) (bc fcb : Bool) (us : Nat) (ul : Int) :
    (s.userData bc fcb true us ul).1.view = (if fcb = s.expectedFcb then { s.view with expectedFcb := !s.expectedFcb } else s.view) ∧
    txB (s.userData bc fcb true us ul).2 = ackBytes s.view (!s.c1.isEmpty) (!(!s.c1.isEmpty)) ∧
    rxOf (s.userData bc fcb true us ul).2 = (if fcb = s.expectedFcb ∧ ul > 0 then [userDataOf s.ll.buf us ul] else []) := by
  unfold SecU.userData
  simp only [if_true]
  have hck : checkFCB s.expectedFcb fcb = if fcb = s.expectedFcb then (true, !s.expectedFcb) else (false, s.expectedFcb) := by
    cases s.expectedFcb <;> cases fcb <;> rfl
  rw [hck]
  by_cases h : fcb = s.expectedFcb
  · simp only [h, if_true, true_and, Bool.true_and]
    obtain ⟨a, b, c⟩ := ack_facts { s with expectedFcb := !s.expectedFcb } (!s.c1.isEmpty) (!(!s.c1.isEmpty))
    refine ⟨a, ?_, ?_⟩
    · rw [txB_append, b]
      have : txB (if decide (ul > 0) = true then [Obs.rx bc (userDataOf s.ll.buf us ul)] else []) = [] := by split <;> rfl
      rw [this]; rfl
    · rw [rxOf_append, c]
      by_cases hl : ul > 0 <;> simp [hl, rxOf]
  · simp only [h, if_false, false_and, Bool.false_and]
    obtain ⟨a, b, c⟩ := ack_facts { s with expectedFcb := s.expectedFcb } (!s.c1.isEmpty) (!(!s.c1.isEmpty))
    exact ⟨a, by simpa using b, by simpa using c⟩

theorem answer_none (t : SecU) (hu : t.ll.userData = []) :
    (t.answer none).1.view = t.view ∧ txB (t.answer none).2 = pollBytes t.view ∧ rxOf (t.answer none).2 = [] := by
  unfold SecU.answer pollBytes
  simp only
  have h0 : ¬ (t.view.userData.length > 0) := by simp [SecU.view, hu]
  rw [if_neg h0]
  by_cases hs : (t.ll.p.singleAck && !(!t.c1.isEmpty)) = true
  · have hs' : (t.view.p.singleAck && !(!t.view.c1.isEmpty)) = true := hs
    rw [if_pos hs, if_pos hs']
    exact ⟨rfl, rfl, rfl⟩
  · have hs' : ¬ (t.view.p.singleAck && !(!t.view.c1.isEmpty)) = true := hs
    rw [if_neg hs, if_neg hs']
    exact ⟨rfl, rfl, rfl⟩

theorem answer_some (t : SecU) (d : List Nat) (hd : d ≠ []) (hu : t.ll.userData = d) :
    (t.answer (some d)).1.view = t.view ∧ txB (t.answer (some d)).2 = pollBytes t.view ∧ rxOf (t.answer (some d)).2 = [] := by
  unfold SecU.answer pollBytes
  simp only
  have hl : t.view.userData.length > 0 := by
    show t.ll.userData.length > 0
    rw [hu]; cases d with | nil => exact absurd rfl hd | cons => simp
  rw [if_pos hl]
  obtain ⟨f1, f2, f3, f4, f5⟩ := sendVar_facts t.ll 8 t.ll.address false false (!t.c1.isEmpty) false d
  refine ⟨?_, ?_, f5⟩
  · simp [SecU.view, f1, f2, f3]
  · rw [f4]; show _ = (varFrame t.ll.p.addrLen _ t.ll.address t.ll.userData).toList; rw [hu]; rfl

theorem poll_step (s : SecU) (cls1 fcb : Bool) (hq : s.view.QueuesOk) :
    (s.poll cls1 fcb true).1.view = (if fcb = s.expectedFcb then s.view.accept (.poll [] cls1) else s.view) ∧
    txB (s.poll cls1 fcb true).2 = pollBytes (s.poll cls1 fcb true).1.view ∧
    rxOf (s.poll cls1 fcb true).2 = [] := by
  have hck : checkFCB s.expectedFcb fcb = if fcb = s.expectedFcb then (true, !s.expectedFcb) else (false, s.expectedFcb) := by
    cases s.expectedFcb <;> cases fcb <;> rfl
  obtain ⟨q1, q2⟩ := hq
  unfold SecU.poll
  simp only [if_true]
  rw [hck]
  by_cases h : fcb = s.expectedFcb
  · simp only [h, if_true, Bool.not_true, Bool.false_eq_true, if_false]
    cases cls1
    · simp only [Bool.false_eq_true, if_false]
      cases hc : s.c2 with
      | nil =>
        simp only [List.head?_nil, List.tail_nil]
        obtain ⟨a, b, c⟩ := answer_none { s with expectedFcb := !s.expectedFcb, c2 := [], ll := { s.ll with userData := [] } } rfl
        refine ⟨?_, ?_, c⟩
        · rw [a]; simp [SecU.view, View.accept, hc]
        · rw [b, a]
      | cons d rest =>
        have hd : d ≠ [] := q2 d (by simp [SecU.view, hc])
        simp only [List.head?_cons, List.tail_cons]
        obtain ⟨a, b, c⟩ := answer_some { s with expectedFcb := !s.expectedFcb, c2 := rest, ll := { s.ll with userData := d } } d hd rfl
        refine ⟨?_, ?_, c⟩
        · rw [a]; simp [SecU.view, View.accept, hc]
        · rw [b, a]
    · simp only [if_true]
      cases hc : s.c1 with
      | nil =>
        simp only [List.head?_nil, List.tail_nil]
        obtain ⟨a, b, c⟩ := answer_none { s with expectedFcb := !s.expectedFcb, c1 := [], ll := { s.ll with userData := [] } } rfl
        refine ⟨?_, ?_, c⟩
        · rw [a]; simp [SecU.view, View.accept, hc]
        · rw [b, a]
      | cons d rest =>
        have hd : d ≠ [] := q1 d (by simp [SecU.view, hc])
        simp only [List.head?_cons, List.tail_cons]
        obtain ⟨a, b, c⟩ := answer_some { s with expectedFcb := !s.expectedFcb, c1 := rest, ll := { s.ll with userData := d } } d hd rfl
        refine ⟨?_, ?_, c⟩
        · rw [a]; simp [SecU.view, View.accept, hc]
        · rw [b, a]
  · simp only [h, if_false, Bool.not_false, if_true]
    by_cases hu : s.ll.userData.length > 0
    · simp only [hu, if_true]
      have hne : s.ll.userData ≠ [] := by intro he; rw [he] at hu; simp at hu
      obtain ⟨a, b, c⟩ := answer_some { s with expectedFcb := s.expectedFcb } s.ll.userData hne rfl
      exact ⟨a, by rw [b, a], c⟩
    · simp only [hu, if_false]
      have he : s.ll.userData = [] := by
        cases hq : s.ll.userData with
        | nil => rfl
        | cons x xs => rw [hq] at hu; simp at hu
      obtain ⟨a, b, c⟩ := answer_none { s with expectedFcb := s.expectedFcb } he
      exact ⟨a, by rw [b, a], c⟩

theorem setState_facts (s : SecU) (n : Nat) :
    (s.setState n).1.ll = s.ll ∧ (s.setState n).1.c1 = s.c1 ∧ (s.setState n).1.c2 = s.c2 ∧
    (s.setState n).1.expectedFcb = s.expectedFcb := by
  unfold SecU.setState; split <;> exact ⟨rfl, rfl, rfl, rfl⟩

/-- **one request**: accepted iff its frame count bit is the expected one; a repetition changes nothing the
application or the peer can see, hands nothing to the application, and is answered from the unchanged view -/
theorem request_spec (s : SecU) (r : Req) (fcb : Bool) (hq : s.view.QueuesOk) :
    (s.request r fcb).1.view = (if fcb = s.expectedFcb then s.view.accept r else s.view) ∧
    txB (s.request r fcb).2 = ((s.request r fcb).1.view).resp r ∧
    rxOf (s.request r fcb).2 = (if fcb = s.expectedFcb then r.payload else []) := by
  obtain ⟨t, ht⟩ : ∃ t, t = ({ s with ll := { s.ll with buf := r.buf } } : SecU).setState 3 := ⟨_, rfl⟩
  obtain ⟨g1, g2, g3, g4⟩ := setState_facts ({ s with ll := { s.ll with buf := r.buf } } : SecU) 3
  obtain ⟨_, h2, h3, _⟩ := setState_view ({ s with ll := { s.ll with buf := r.buf } } : SecU) 3
  rw [← ht] at g1 g2 g3 g4 h2 h3
  have hv : t.1.view = s.view := by simp [SecU.view, g1, g2, g3, g4]
  have he : t.1.expectedFcb = s.expectedFcb := g4
  cases r with
  | data b us ul =>
    have hr : s.request (.data b us ul) fcb = ((t.1.userData false fcb true us ul).1, t.2 ++ (t.1.userData false fcb true us ul).2) := by
      unfold SecU.request SecU.handleMessage
      simp [Req.buf]
      subst ht
      exact ⟨rfl, rfl⟩
    obtain ⟨a, bb, c⟩ := userData_step t.1 false fcb us ul
    rw [hr]
    simp only [txB_append, rxOf_append, h2, h3, List.nil_append]
    rw [a, bb, c, he, hv]
    have hb : t.1.ll.buf = b := by rw [g1]; rfl
    refine ⟨?_, ?_, ?_⟩
    · split <;> rfl
    · have hc1 : t.1.c1 = s.view.c1 := g2
      rw [hc1]
      split <;> rfl
    · by_cases h : fcb = s.expectedFcb
      · by_cases hl : ul > 0 <;> simp [h, hl, Req.payload, hb]
      · simp [h]
  | poll b c =>
    have hr : s.request (.poll b c) fcb = ((t.1.poll c fcb true).1, t.2 ++ (t.1.poll c fcb true).2) := by
      unfold SecU.request SecU.handleMessage
      subst ht
      cases c <;> simp [Req.buf] <;> exact ⟨rfl, rfl⟩
    obtain ⟨a, bb, cc⟩ := poll_step t.1 c fcb (by rw [hv]; exact hq)
    rw [hr]
    simp only [txB_append, rxOf_append, h2, h3, List.nil_append]
    rw [bb, cc, a, he, hv]
    refine ⟨?_, rfl, ?_⟩
    · split
      · cases c <;> rfl
      · rfl
    · split <;> rfl

/-! ### streams of requests, each repeated any number of times -/

/-- the same request arrives `n` more times with the same frame count bit -/
def SecU.repeatN (s : SecU) (r : Req) (fcb : Bool) : Nat → SecU × List Obs
  | 0 => (s, [])
  | n + 1 =>
    let r1 := s.request r fcb
    let r2 := SecU.repeatN r1.1 r fcb n
    (r2.1, r1.2 ++ r2.2)

/-- a primary in step with the station sends each request with the bit the station expects, repeats it `n` more
times (lost or late responses), then goes on to the next request with the toggled bit -/
def SecU.runStream (s : SecU) : List (Req × Nat) → SecU × List Obs
  | [] => (s, [])
  | (r, n) :: rest =>
    let fcb := s.expectedFcb
    let r1 := s.request r fcb
    let r2 := r1.1.repeatN r fcb n
    let r3 := SecU.runStream r2.1 rest
    (r3.1, r1.2 ++ r2.2 ++ r3.2)

/-- the specification: every request is accepted once; its response is given `n + 1` times -/
def View.stream (v : View) : List (Req × Nat) → View × List (List Nat) × List (List Nat)
  | [] => (v, [], [])
  | (r, n) :: rest =>
    let v1 := v.accept r
    let r3 := View.stream v1 rest
    (r3.1, (List.replicate (n + 1) (v1.resp r)).flatten ++ r3.2.1, r.payload ++ r3.2.2)

theorem repeatN_spec (r : Req) (fcb : Bool) : ∀ (n : Nat) (s : SecU), s.view.QueuesOk → fcb ≠ s.expectedFcb →
    (s.repeatN r fcb n).1.view = s.view ∧ txB (s.repeatN r fcb n).2 = (List.replicate n (s.view.resp r)).flatten ∧
    rxOf (s.repeatN r fcb n).2 = [] := by
  intro n
  induction n with
  | zero => intro s _ _; exact ⟨rfl, rfl, rfl⟩
  | succ n ih =>
    intro s hq hne
    obtain ⟨a, b, c⟩ := request_spec s r fcb hq
    rw [if_neg hne] at a c
    have hne' : fcb ≠ (s.request r fcb).1.expectedFcb := by
      have : (s.request r fcb).1.expectedFcb = (s.request r fcb).1.view.expectedFcb := rfl
      rw [this, a]; exact hne
    obtain ⟨a2, b2, c2⟩ := ih (s.request r fcb).1 (by rw [a]; exact hq) hne'
    unfold SecU.repeatN
    simp only [txB_append, rxOf_append]
    rw [a2, b2, c2, a, b, c, a]
    exact ⟨rfl, by simp [List.replicate_succ], rfl⟩

theorem accept_toggles (v : View) (r : Req) : (v.accept r).expectedFcb = !v.expectedFcb := by
  cases r with
  | data => rfl
  | poll b c => cases c <;> rfl

/-- **the station refines the specification on every stream** -/
theorem runStream_refines : ∀ (rs : List (Req × Nat)) (s : SecU), s.view.QueuesOk →
    (s.runStream rs).1.view = (s.view.stream rs).1 ∧ txB (s.runStream rs).2 = (s.view.stream rs).2.1 ∧
    rxOf (s.runStream rs).2 = (s.view.stream rs).2.2 := by
  intro rs
  induction rs with
  | nil => intro s _; exact ⟨rfl, rfl, rfl⟩
  | cons x rest ih =>
    obtain ⟨r, n⟩ := x
    intro s hq
    obtain ⟨a, b, c⟩ := request_spec s r s.expectedFcb hq
    simp only [if_true] at a c
    have hq1 : (s.request r s.expectedFcb).1.view.QueuesOk := by rw [a]; exact accept_queuesOk _ _ hq
    have hne : s.expectedFcb ≠ (s.request r s.expectedFcb).1.expectedFcb := by
      have : (s.request r s.expectedFcb).1.expectedFcb = (s.request r s.expectedFcb).1.view.expectedFcb := rfl
      rw [this, a, accept_toggles]
      show s.expectedFcb ≠ !s.expectedFcb
      cases s.expectedFcb <;> decide
    obtain ⟨a2, b2, c2⟩ := repeatN_spec r s.expectedFcb n (s.request r s.expectedFcb).1 hq1 hne
    obtain ⟨a3, b3, c3⟩ := ih ((s.request r s.expectedFcb).1.repeatN r s.expectedFcb n).1 (by rw [a2]; exact hq1)
    unfold SecU.runStream View.stream
    simp only [txB_append, rxOf_append]
    rw [a3, b3, c3, a2, b2, c2, b, c, a]
    refine ⟨rfl, ?_, by simp⟩
    simp [List.replicate_succ]

/-- what the application receives does not depend on the repetitions -/
theorem stream_rx (rs : List (Req × Nat)) : ∀ v : View, (v.stream rs).2.2 = (rs.map fun x => x.1.payload).flatten := by
  induction rs with
  | nil => intro v; rfl
  | cons x rest ih => intro v; obtain ⟨r, n⟩ := x; simp [View.stream, ih]

/-- nor does the state the station ends in -/
theorem stream_view_indep (rs : List (Req × Nat)) : ∀ v : View, (v.stream rs).1 = (v.stream (rs.map fun x => (x.1, 0))).1 := by
  induction rs with
  | nil => intro v; rfl
  | cons x rest ih => intro v; obtain ⟨r, n⟩ := x; simp [View.stream, ih]

end Iec.Link101
