/-
Every reply ring (high-priority queue) of the server is well-formed in every reachable state: the layout invariant `HpInv`
of the ring refinement (Lemmas/HpQueue.lean) holds after every operation of the server model, so `hp_fifo` and the other
reply-ring theorems of C13 apply to reachable states without a hypothesis.
-/
import Iec.Lemmas.Srv104Win
import Iec.Lemmas.HpQueueWf
import Iec.Lemmas.Srv104QWf
import Iec.Lemmas.Srv104EvFree
namespace Iec.Srv104
open Iec.KWindow Iec.Queues

/-- well-formed and large enough for one entry of maximal size -/
def HOk (q : HpQueue) : Prop := HWf q

/-- **the event ring of every group is well-formed** -/
def HInv (s : Slave) : Prop := ∀ g, HOk (s.grp g).highQ

structure HR (s s' : Slave) : Prop where
  imp : HInv s → HInv s'
theorem HR.refl (s : Slave) : HR s s := ⟨id⟩
theorem HR.trans {a b c : Slave} (h1 : HR a b) (h2 : HR b c) : HR a c := ⟨fun h => h2.imp (h1.imp h)⟩

theorem hr_of_groups {s s' : Slave} (hg : s'.groups = s.groups) : HR s s' := by
  refine ⟨fun h g => ?_⟩; unfold Slave.grp; rw [hg]; exact h g

theorem hr_emit (s : Slave) (o : Obs) : HR s (emit s o) := hr_of_groups rfl
def DummyH (_ _ : Conn) : Prop := True
theorem hr_setConn (s : Slave) (i : Nat) (c : Conn) (_ : DummyH (s.conn i) c) : HR s (s.setConn i c) := hr_of_groups rfl
macro "hrc" : tactic => `(tactic| exact trivial)
theorem hr_of_conns {s s' : Slave} (_ : s'.p = s.p) (_ : s'.conns = s.conns) (hg : s'.groups = s.groups) : HR s s' := hr_of_groups hg

/-- replacing a group by one whose event ring is as good -/
theorem hr_setGrp (s : Slave) (g : Nat) (x : Group) (h : HOk (s.grp g).highQ → HOk x.highQ) : HR s (s.setGrp g x) := by
  refine ⟨fun hi g' => ?_⟩
  by_cases hg : g' = g
  · subst hg
    by_cases hl : g' < s.groups.length
    · rw [grp_setGrp _ _ _ hl]; exact h (hi g')
    · have hs : s.groups.set g' x = s.groups := List.set_eq_of_length_le (Nat.le_of_not_lt hl)
      have : (s.setGrp g' x).grp g' = s.grp g' := by unfold Slave.grp Slave.setGrp; simp only [hs]
      rw [this]; exact hi g'
  · rw [grp_setGrp_ne _ _ _ _ hg]; exact hi g'

/-- closes the side condition of `hr_setGrp` for the queue operations the server applies -/
macro "hwc" : tactic => `(tactic| first
  | exact fun h => h
  | exact fun h => hwf_reset _ h)

theorem hr_write (s : Slave) (i : Nat) (b : List Nat) : HR s (write s i b).1 := by
  unfold write; simp only; split
  · exact HR.refl s
  · exact hr_emit s _

theorem hr_sendS (s : Slave) (i : Nat) : HR s (sendS s i) := by
  unfold sendS
  simp only
  have hw := hr_write s i [0x68, 0x04, 0x01, 0, seqLo (s.conn i).vr, seqHi (s.conn i).vr]
  generalize write s i [0x68, 0x04, 0x01, 0, seqLo (s.conn i).vr, seqHi (s.conn i).vr] = r at hw
  obtain ⟨s1, ok⟩ := r
  simp only at hw ⊢
  split
  · exact hw
  · exact HR.trans hw (hr_setConn _ _ _ (by hrc))

theorem hr_sendI (s : Slave) (i : Nat) (a : List Nat) (q : Option (Nat × Nat)) : HR s (sendI s i a q) := by
  unfold sendI
  simp only
  have hw := hr_write s i ([0x68, (a.length + 4) % 256, seqLo (s.conn i).vs, seqHi (s.conn i).vs, seqLo (s.conn i).vr, seqHi (s.conn i).vr] ++ a)
  generalize write s i ([0x68, (a.length + 4) % 256, seqLo (s.conn i).vs, seqHi (s.conn i).vs, seqLo (s.conn i).vr, seqHi (s.conn i).vr] ++ a) = r at hw
  obtain ⟨s1, ok⟩ := r
  simp only at hw ⊢
  refine HR.trans hw (hr_setConn _ _ _ ?_)
  cases ok <;> (simp only [Bool.false_eq_true, if_false, if_true]; hrc)

theorem hr_sendAsduInternal (s : Slave) (i : Nat) (a : List Nat) : HR s (sendAsduInternal s i a).1 := by
  unfold sendAsduInternal
  simp only
  split
  · split
    · exact hr_sendI _ _ _ _
    · have hq : HOk (s.grp (s.gidx i)).highQ → HOk ((s.grp (s.gidx i)).highQ.enqueue a).1 := fun h => hwf_enqueue _ a h
      generalize (s.grp (s.gidx i)).highQ.enqueue a = en at hq
      obtain ⟨hq', ok⟩ := en
      exact hr_setGrp _ _ _ hq
  · exact HR.refl _

theorem hr_deactivate (s : Slave) (i : Nat) : HR s (deactivate s i) := by
  unfold deactivate
  simp only
  split
  · exact HR.trans (hr_emit s _) (hr_setConn _ _ _ (by hrc))
  · exact hr_setConn _ _ _ (by hrc)

theorem hr_foldl0 {α} (f : Slave → α → Slave) (hf : ∀ s a, HR s (f s a)) : ∀ (l : List α) (s : Slave), HR s (l.foldl f s) := by
  intro l
  induction l with
  | nil => intro s; exact HR.refl s
  | cons a l ih => intro s; exact HR.trans (hf s a) (ih _)

theorem hr_confirmReleased (rel : List KEntry) (s : Slave) (i : Nat) : HR s (confirmReleased s i rel) := by
  unfold confirmReleased
  apply hr_foldl0
  intro t e
  split
  · exact hr_setGrp _ _ _ (by hwc)
  · exact HR.refl t

theorem hr_checkSeqConn (s : Slave) (i : Nat) (nr : Nat) : HR s (checkSeqConn s i nr).1 := by
  unfold checkSeqConn
  simp only
  generalize checkSeq (s.conn i).vs (s.conn i).win nr = r
  obtain ⟨ok, w, rel⟩ := r
  simp only
  exact HR.trans (hr_setConn _ _ _ (by hrc)) (hr_confirmReleased _ _ _)

theorem hr_foldl {α} (f : Slave → α → Slave) (hf : ∀ s a, HR s (f s a)) : ∀ (l : List α) (s : Slave), HR s (l.foldl f s) := by
  intro l
  induction l with
  | nil => intro s; exact HR.refl s
  | cons a l ih => intro s; exact HR.trans (hf s a) (ih _)

theorem hr_appHandler (s : Slave) (i : Nat) (a : List Nat) : HR s (appHandler s i a) := by
  unfold appHandler
  simp only
  refine HR.trans (hr_emit s _) (hr_foldl _ ?_ _ _)
  intro t _
  exact HR.trans (hr_sendAsduInternal t i a) (hr_emit _ _)

/-- peel the outermost state transformer off a `HR s (F …)` goal (syntactic match only) -/
macro "hr_step" : tactic => `(tactic| first
  | with_reducible exact HR.refl _
  | ((with_reducible refine HR.trans ?_ (hr_setConn _ _ _ ?_)) <;> (try hrc))
  | with_reducible refine HR.trans ?_ (hr_emit _ _)
  | with_reducible refine HR.trans ?_ (hr_setGrp _ _ _ (by hwc))
  | with_reducible refine HR.trans ?_ (hr_write _ _ _)
  | with_reducible refine HR.trans ?_ (hr_sendS _ _)
  | with_reducible refine HR.trans ?_ (hr_sendI _ _ _ _)
  | with_reducible refine HR.trans ?_ (hr_sendAsduInternal _ _ _)
  | with_reducible refine HR.trans ?_ (hr_deactivate _ _)
  | with_reducible refine HR.trans ?_ (hr_checkSeqConn _ _ _)
  | with_reducible refine HR.trans ?_ (hr_appHandler _ _ _))

theorem hr_handleI (s : Slave) (i : Nat) (buf : List Nat) : HR s (handleI s i buf).1 := by
  unfold handleI
  extract_lets n c c1 s1 ns nr
  have h1 : HR s s1 := hr_setConn _ _ _ (by dsimp only [c1, c]; split <;> hrc)
  split
  · exact HR.refl s
  · split
    · exact HR.refl s
    · split
      · exact h1
      · have h2 := hr_checkSeqConn s1 i nr
        generalize checkSeqConn s1 i nr = r at h2
        obtain ⟨s2, ok⟩ := r
        dsimp only at h2
        show HR s (if (!ok) = true then (s2, false) else _).fst
        have h12 := HR.trans h1 h2
        split
        · exact h12
        · extract_lets c2 s3
          have h3 : HR s2 s3 := hr_setConn _ _ _ (by dsimp only [c2]; hrc)
          split
          · split
            · exact HR.trans h12 h3
            · exact HR.trans h12 (HR.trans h3 (HR.trans (hr_appHandler _ _ _) (hr_setConn _ _ _ (by hrc))))
          · exact HR.trans h12 h3

theorem hr_receiveMessage (s : Slave) (i : Nat) : HR s (receiveMessage s i).1 := by
  unfold receiveMessage
  simp only
  exact hr_setConn _ _ _ (by hrc)

theorem hr_ackIfW (s : Slave) (i : Nat) : HR s (ackIfW s i) := by
  unfold ackIfW
  simp only
  split
  · exact HR.trans (hr_setConn _ _ _ (by hrc)) (hr_sendS _ _)
  · exact HR.refl s

theorem hr_sendWaitingHigh (i : Nat) : ∀ (fuel : Nat) (s : Slave), HR s (sendWaitingHigh s i fuel).1 := by
  intro fuel
  induction fuel with
  | zero => intro s; exact HR.refl s
  | succ n ih =>
    intro s
    unfold sendWaitingHigh
    simp only
    split
    · split
      · exact HR.refl _
      · have hq : HOk (s.grp (s.gidx i)).highQ → HOk (s.grp (s.gidx i)).highQ.getNext.1 := fun h => hwf_getNext _ h
        generalize (s.grp (s.gidx i)).highQ.getNext = gn at hq
        obtain ⟨hq', d⟩ := gn
        simp only at hq ⊢
        split
        · split
          · exact HR.trans (hr_setGrp _ _ _ hq) (hr_sendI _ _ _ _)
          · exact HR.trans (HR.trans (hr_setGrp _ _ _ hq) (hr_sendI _ _ _ _)) (ih _)
        · exact hr_setGrp _ _ _ hq
    · exact HR.refl _

theorem hr_sendWaitingASDUs (s : Slave) (i : Nat) : HR s (sendWaitingASDUs s i) := by
  unfold sendWaitingASDUs
  have h1 := hr_sendWaitingHigh i ((s.grp (s.gidx i)).highQ.count + 1) s
  generalize sendWaitingHigh s i ((s.grp (s.gidx i)).highQ.count + 1) = r at h1
  obtain ⟨s1, cont⟩ := r
  simp only at h1 ⊢
  split
  · exact h1
  · split
    · exact h1
    · generalize (s1.grp (s1.gidx i)).lowQ.getNextWaiting = gn
      obtain ⟨lq, r⟩ := gn
      simp only
      split
      · refine HR.trans h1 (HR.trans ?_ (hr_sendI _ _ _ _))
        exact hr_setGrp _ _ _ (fun h => h)
      · refine HR.trans h1 ?_
        exact hr_setGrp _ _ _ (fun h => h)

/-- unfold nothing, split every `if` / `match`, name every `let`, peel the state transformers from the outside -/
macro "hr_auto" : tactic => `(tactic| repeat' (first
  | (with_reducible exact HR.refl _)
  | hrc
  | split
  | extract_lets
  | hr_step
  | (dsimp (config := { zetaDelta := true, zeta := false }) only)))

theorem hr_phaseT3 (s : Slave) (i : Nat) : HR s (phaseT3 s i) := by
  unfold phaseT3
  try simp (config := { zeta := false }) only []
  hr_auto

theorem hr_phaseTestFR (s : Slave) (i : Nat) : HR s (phaseTestFR s i).1 := by
  unfold phaseTestFR
  try simp (config := { zeta := false }) only []
  hr_auto

theorem hr_phaseT2 (s : Slave) (i : Nat) : HR s (phaseT2 s i) := by
  unfold phaseT2
  try simp (config := { zeta := false }) only []
  hr_auto

theorem hr_phaseT1 (s : Slave) (i : Nat) (ok : Bool) : HR s (phaseT1 s i ok).1 := by
  unfold phaseT1
  try simp (config := { zeta := false }) only []
  hr_auto

theorem hr_handleTimeouts (s : Slave) (i : Nat) : HR s (handleTimeouts s i).1 := by
  unfold handleTimeouts
  try simp (config := { zeta := false }) only []
  exact HR.trans (hr_phaseT3 s i) (HR.trans (hr_phaseTestFR _ i) (HR.trans (hr_phaseT2 _ i) (hr_phaseT1 _ i _)))

theorem hr_periodic (s : Slave) (i : Nat) : HR s (periodic s i) := by
  unfold periodic
  have h1 : HR s (if (s.conn i).state = 1 then sendWaitingASDUs s i else s) := by
    split
    · exact hr_sendWaitingASDUs s i
    · exact HR.refl s
  extract_lets s1
  have h2 := hr_handleTimeouts s1 i
  generalize handleTimeouts s1 i = r at h2
  obtain ⟨s2, ok⟩ := r
  show HR s (if (!ok) = true then s2.setConn i { s2.conn i with isRunning := false } else s2)
  split
  · exact HR.trans h1 (HR.trans h2 (hr_setConn _ _ _ (by hrc)))
  · exact HR.trans h1 h2

theorem hr_resetUnconfirmed (s : Slave) (j : Nat) : HR s (resetUnconfirmed s j) := by
  unfold resetUnconfirmed
  apply hr_foldl
  intro t e
  split
  · exact hr_setGrp _ _ _ (by hwc)
  · exact HR.refl t

theorem hr_t3upd (s : Slave) (i : Nat) : HR s (t3upd s i) := by
  unfold t3upd; exact hr_setConn _ _ _ (by hrc)

theorem hr_hmTestFR (s : Slave) (i : Nat) : HR s (hmTestFR s i).1 := by
  unfold hmTestFR
  have h := hr_write s i TESTFR_CON
  generalize write s i TESTFR_CON = r at h
  obtain ⟨s1, ok⟩ := r
  show HR s (if ok = true then (t3upd s1 i, true) else (s1, false)).1
  split
  · exact HR.trans h (hr_t3upd _ _)
  · exact h

theorem hr_stopTail (s : Slave) (i : Nat) (c : Conn) (hc : DummyH (s.conn i) c) :
    HR s (let s := s.setConn i c
              let (s, ok) := write s i STOPDT_CON
              if ok then (t3upd s i, true) else (s, false)).1 := by
  extract_lets s1
  have h1 : HR s s1 := hr_setConn _ _ _ hc
  have h := hr_write s1 i STOPDT_CON
  generalize write s1 i STOPDT_CON = r at h
  obtain ⟨s2, ok⟩ := r
  show HR s (if ok = true then (t3upd s2 i, true) else (s2, false)).1
  split
  · exact HR.trans h1 (HR.trans h (hr_t3upd _ _))
  · exact HR.trans h1 h

theorem hr_hmStopDT (s : Slave) (i : Nat) : HR s (hmStopDT s i).1 := by
  unfold hmStopDT
  extract_lets s0 c s1
  have h0 : HR s s0 := hr_deactivate s i
  have h1 : HR s0 s1 := by
    dsimp only [s1]
    split
    · exact HR.trans (hr_setConn _ _ _ (by dsimp only [c]; hrc)) (hr_sendS _ _)
    · exact HR.refl _
  split
  · exact HR.trans h0 (HR.trans h1 (hr_t3upd _ _))
  · exact HR.trans h0 (HR.trans h1 (hr_stopTail s1 i _ (by hrc)))

theorem hr_hmS (s : Slave) (i : Nat) (buf : List Nat) : HR s (hmS s i buf).1 := by
  unfold hmS
  extract_lets nr
  have h := hr_checkSeqConn s i nr
  generalize checkSeqConn s i nr = r at h
  obtain ⟨s1, ok⟩ := r
  dsimp only at h
  show HR s (if (!ok) = true then (s1, false) else _).1
  split
  · exact h
  · extract_lets c
    split
    · split
      · exact HR.trans h (hr_stopTail s1 i _ (by dsimp only [c]; hrc))
      · exact HR.trans h (hr_t3upd _ _)
    · split
      · exact h
      · exact HR.trans h (hr_t3upd _ _)


theorem hr_activate (s : Slave) (i : Nat) : HR s (activate s i) := by
  unfold activate
  simp only
  generalize (List.filter _ (List.range s.conns.length)) = js
  have h0 : HR s (js.foldl deactivate s) := hr_foldl _ (fun t j => hr_deactivate t j) _ _
  generalize js.foldl deactivate s = t at h0
  refine HR.trans h0 ?_
  unfold activateConn
  simp only
  split
  · exact HR.trans (hr_emit _ _) (hr_setConn _ _ _ (by hrc))
  · exact hr_setConn _ _ _ (by hrc)

theorem hr_hmStartDT (s : Slave) (i : Nat) : HR s (hmStartDT s i).1 := by
  unfold hmStartDT
  extract_lets s0 g s1
  have h0 : HR s s0 := hr_activate s i
  have h1 : HR s0 s1 := hr_setGrp _ _ _ (by hwc)
  have h := hr_write s1 i STARTDT_CON
  generalize write s1 i STARTDT_CON = r at h
  obtain ⟨s2, ok⟩ := r
  show HR s (if ok = true then (t3upd s2 i, true) else (s2, false)).1
  split
  · exact HR.trans h0 (HR.trans h1 (HR.trans h (hr_t3upd _ _)))
  · exact HR.trans h0 (HR.trans h1 h)

theorem hr_handleMessage (s : Slave) (i : Nat) (buf : List Nat) : HR s (handleMessage s i buf).1 := by
  unfold handleMessage
  extract_lets n b2
  split
  · exact HR.refl s
  split
  · exact HR.refl s
  split
  · exact HR.refl s
  split
  · exact hr_handleI s i buf
  split
  · exact hr_hmTestFR s i
  split
  · exact hr_hmStartDT s i
  split
  · exact hr_hmStopDT s i
  split
  · exact HR.trans (hr_setConn _ _ _ (by hrc)) (hr_t3upd _ _)
  split
  · exact hr_hmS s i buf
  · exact HR.refl s

theorem hr_handleTcpConnection (s : Slave) (i : Nat) : HR s (handleTcpConnection s i) := by
  unfold handleTcpConnection
  have h1 := hr_receiveMessage s i
  generalize receiveMessage s i = r at h1
  obtain ⟨s1, rr, msg⟩ := r
  dsimp only at h1
  simp (config := { zeta := false }) only []
  extract_lets c0 s2 c3 s4
  have h2 : HR s1 s2 := by
    dsimp only [s2]; split
    · exact hr_setConn _ _ _ (by hrc)
    · exact HR.refl _
  have h12 := HR.trans h1 h2
  split
  · have h3 := hr_handleMessage s2 i msg
    have h4 : HR (handleMessage s2 i msg).1 s4 := by
      dsimp only [s4]; split
      · exact hr_setConn _ _ _ (by hrc)
      · exact HR.refl _
    exact HR.trans h12 (HR.trans h3 (HR.trans h4 (hr_ackIfW _ _)))
  · exact h12

theorem hr_reap (t : Slave) (j : Nat) : HR t (reap t j) := by
  unfold reap
  extract_lets s1 s2 c3 s3
  have h1 : HR t s1 := hr_emit _ _
  have h2 : HR s1 s2 := hr_resetUnconfirmed _ _
  have h3 : HR s2 s3 := hr_setConn _ _ _ (by hrc)
  exact HR.trans h1 (HR.trans h2 (HR.trans h3 (hr_of_groups rfl)))

theorem hinv_handleClientConnections (s : Slave) (h : HInv s) : HInv (handleClientConnections s) :=
  p2_handleClientConnections HInv (fun t j _ ht => (hr_handleTcpConnection t j).imp ht)
    (fun t j _ ht => (hr_periodic t j).imp ht) (fun t j _ ht => (hr_reap t j).imp ht) s h

theorem hr_initConn (s : Slave) (i : Nat) (sk : Sock) (g : Nat) : HR s (initConn s i sk g) := by
  unfold initConn
  extract_lets c c1 s1 gi gr gr2
  refine HR.trans (hr_setConn _ _ _ (by hrc)) (hr_setGrp _ _ _ ?_)
  intro h
  show HOk gr2.highQ.reset
  have : gr2.highQ = gr.highQ := by dsimp only [gr2]; split <;> rfl
  rw [this]; exact hwf_reset _ h

theorem hr_accept (s : Slave) : HR s (accept s) := by
  unfold accept
  split
  · split
    · exact HR.refl s
    · rename_i sk rest _
      extract_lets s0
      have h0 : HR s s0 := hr_of_groups rfl
      split
      rename_i answer s1 heq
      have h1 : HR s0 s1 := by
        have e := (congrArg Prod.snd heq).symm
        dsimp only at e
        rw [e]
        split
        · exact HR.refl _
        · exact hr_of_groups rfl
      split
      · exact HR.trans h0 h1
      · extract_lets free grp
        clear_value free grp
        split
        · rename_i g i
          extract_lets gr0 s2 s3 s4 c5 s5
          have h2 : HR s1 s2 := by
            dsimp only [s2]; split
            · exact hr_setGrp _ _ _ (fun h => hwf_reset _ h)
            · exact HR.refl _
          have h3 : HR s2 s3 := hr_initConn _ _ _ _
          have h4 : HR s3 s4 := hr_of_groups rfl
          have h5 : HR s4 s5 := hr_setConn _ _ _ (by hrc)
          exact HR.trans h0 (HR.trans h1 (HR.trans h2 (HR.trans h3 (HR.trans h4 (HR.trans h5 (hr_emit _ _))))))
        · exact HR.trans h0 h1
  · exact HR.refl s

theorem hinv_tick (s : Slave) (h : HInv s) : HInv (tick s) := by
  unfold tick
  exact hinv_handleClientConnections _ ((hr_accept s).imp h)

theorem hok_default : HOk ({} : Group).highQ := hwf_create 1 (by decide)

theorem hinv_enqueue (s : Slave) (a : List Nat) (h : HInv s) : HInv (enqueue s a) := by
  intro g
  rw [grp_of_map (enqueue s a) s.groups (fun g => { g with lowQ := g.lowQ.enqueue a }) rfl g]
  split
  · exact h g
  · exact hok_default

theorem hinv_restart (s : Slave) (hq : 1 ≤ s.p.highQ) (h : HInv s) : HInv (restart s) := by
  intro g
  by_cases hm : s.p.mode = 2
  · have : (restart s).groups = s.groups := by unfold restart; simp [hm]
    unfold Slave.grp; rw [this]; exact h g
  · have : (restart s).groups = s.groups.map fun g => { g with lowQ := MsgQueue.create s.p.lowQ, highQ := HpQueue.create s.p.highQ } := by
      unfold restart; simp [hm]
    rw [grp_of_map (restart s) s.groups _ this g]
    split
    · exact hwf_create _ hq
    · exact hok_default

def HGOk (s : Slave) : Prop := 1 ≤ s.p.highQ ∧ HInv s

theorem hgok_apply (s : Slave) (op : WOp) (h : HGOk s) : HGOk (op.apply s) := by
  refine ⟨by rw [apply_p]; exact h.1, ?_⟩
  cases op with
  | tick => exact hinv_tick s h.2
  | enqueue a => exact hinv_enqueue s a h.2
  | restart => exact hinv_restart s h.1 h.2
  | env e => intro g; show HOk ((e.f s).grp g).highQ; unfold Slave.grp; rw [e.groups]; exact h.2 g

theorem create_hgok (p : Params) (gs : List (String × List (Bool × List Nat))) (hq : 1 ≤ p.highQ) : HGOk (create p gs) := by
  refine ⟨by unfold create; exact hq, fun g => ?_⟩
  have key : ∀ (l : List Group), (∀ x ∈ l, HOk x.highQ) → HOk (l.getD g {}).highQ := by
    intro l hl
    rw [List.getD_eq_getElem?_getD]
    cases hx : l[g]? with
    | none => exact hok_default
    | some x => exact hl x (List.mem_of_getElem? hx)
  unfold Slave.grp create
  simp only
  apply key
  intro x hx
  repeat' split at hx
  all_goals (simp at hx)
  all_goals first
    | (rw [hx]; exact hwf_create _ hq)
    | (obtain ⟨_, _, rfl⟩ := hx; exact hwf_create _ hq)
    | (obtain ⟨_, rfl⟩ := hx; exact hwf_create _ hq)
    | (obtain ⟨_, _, _, rfl⟩ := hx; exact hwf_create _ hq)

/-- **every history**: the reply ring of every redundancy group / connection satisfies the layout invariant `HpInv` -/
theorem run_hgok (p : Params) (gs : List (String × List (Bool × List Nat))) (hq : 1 ≤ p.highQ) (ops : List WOp) :
    HGOk (ops.foldl WOp.apply (create p gs)) := by
  have h0 := create_hgok p gs hq
  generalize create p gs = s at h0
  induction ops generalizing s with
  | nil => exact h0
  | cons op ops ih => exact ih _ (hgok_apply s op h0)

end Iec.Srv104
