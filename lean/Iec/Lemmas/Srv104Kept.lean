/-
"Remains buffered until acknowledged" for the whole server: every function the server runs while it serves connections
leaves the event ring of every group as it was (same entries, order, octets; an unconfirmed entry stays unconfirmed),
EXCEPT the acknowledgement path `checkSequenceNumber` -> `confirmReleased`, and that one only for the entries that the
released k-buffer entries of the acknowledging connection reference.  Relation `KR R`: `KeptX R` for the ring of every group.
-/
import Iec.Lemmas.Srv104QWf
import Iec.Lemmas.MsgQueueKept
namespace Iec.Srv104
open Iec.KWindow Iec.Queues

structure KR (R : List (Nat × Nat)) (s s' : Slave) : Prop where
  kept : ∀ g, KeptX R (s.grp g).lowQ (s'.grp g).lowQ

variable {R : List (Nat × Nat)}

theorem KR.refl (s : Slave) : KR R s s := ⟨fun _ => KeptX.refl _ _⟩
theorem KR.trans {a b c : Slave} (h1 : KR R a b) (h2 : KR R b c) : KR R a c := ⟨fun g => KeptX.trans (h1.kept g) (h2.kept g)⟩
theorem KR.mono {R' : List (Nat × Nat)} (hR : ∀ r ∈ R, r ∈ R') {a b : Slave} (h : KR R a b) : KR R' a b :=
  ⟨fun g => KeptX.mono hR (h.kept g)⟩

theorem kr_of_groups {s s' : Slave} (hg : s'.groups = s.groups) : KR R s s' := by
  refine ⟨fun g => ?_⟩
  have : s'.grp g = s.grp g := by unfold Slave.grp; rw [hg]
  rw [this]; exact KeptX.refl _ _

theorem kr_emit (s : Slave) (o : Obs) : KR R s (emit s o) := kr_of_groups rfl
def DummyK (_ _ : Conn) : Prop := True
theorem kr_setConn (s : Slave) (i : Nat) (c : Conn) (_ : DummyK (s.conn i) c) : KR R s (s.setConn i c) := kr_of_groups rfl
macro "krc" : tactic => `(tactic| exact trivial)

theorem kr_setGrp (s : Slave) (g : Nat) (x : Group) (h : KeptX R (s.grp g).lowQ x.lowQ) : KR R s (s.setGrp g x) := by
  refine ⟨fun g' => ?_⟩
  by_cases hg : g' = g
  · subst hg
    by_cases hl : g' < s.groups.length
    · rw [grp_setGrp _ _ _ hl]; exact h
    · have hs : s.groups.set g' x = s.groups := List.set_eq_of_length_le (Nat.le_of_not_lt hl)
      have : (s.setGrp g' x).grp g' = s.grp g' := by unfold Slave.grp Slave.setGrp; simp only [hs]
      rw [this]; exact KeptX.refl _ _
  · rw [grp_setGrp_ne _ _ _ _ hg]; exact KeptX.refl _ _

macro "kwc" : tactic => `(tactic| first
  | exact KeptX.refl _ _
  | exact kept_setEntryWaiting _ _ _ _
  | exact kept_getNextWaiting _ _)

theorem kr_write (s : Slave) (i : Nat) (b : List Nat) : KR R s (write s i b).1 := by
  unfold write; simp only; split
  · exact KR.refl s
  · exact kr_emit s _

theorem kr_sendS (s : Slave) (i : Nat) : KR R s (sendS s i) := by
  unfold sendS
  simp only
  have hw := kr_write (R := R) s i [0x68, 0x04, 0x01, 0, seqLo (s.conn i).vr, seqHi (s.conn i).vr]
  generalize write s i [0x68, 0x04, 0x01, 0, seqLo (s.conn i).vr, seqHi (s.conn i).vr] = r at hw
  obtain ⟨s1, ok⟩ := r
  simp only at hw ⊢
  split
  · exact hw
  · exact KR.trans hw (kr_setConn _ _ _ (by krc))

theorem kr_sendI (s : Slave) (i : Nat) (a : List Nat) (q : Option (Nat × Nat)) : KR R s (sendI s i a q) := by
  unfold sendI
  simp only
  have hw := kr_write (R := R) s i ([0x68, (a.length + 4) % 256, seqLo (s.conn i).vs, seqHi (s.conn i).vs, seqLo (s.conn i).vr, seqHi (s.conn i).vr] ++ a)
  generalize write s i ([0x68, (a.length + 4) % 256, seqLo (s.conn i).vs, seqHi (s.conn i).vs, seqLo (s.conn i).vr, seqHi (s.conn i).vr] ++ a) = r at hw
  obtain ⟨s1, ok⟩ := r
  simp only at hw ⊢
  refine KR.trans hw (kr_setConn _ _ _ ?_)
  cases ok <;> (simp only [Bool.false_eq_true, if_false, if_true]; krc)

theorem kr_sendAsduInternal (s : Slave) (i : Nat) (a : List Nat) : KR R s (sendAsduInternal s i a).1 := by
  unfold sendAsduInternal
  simp only
  repeat' split
  all_goals first
    | exact kr_sendI _ _ _ _
    | exact kr_setGrp _ _ _ (by kwc)
    | exact KR.refl _

theorem kr_deactivate (s : Slave) (i : Nat) : KR R s (deactivate s i) := by
  unfold deactivate
  simp only
  split
  · exact KR.trans (kr_emit s _) (kr_setConn _ _ _ (by krc))
  · exact kr_setConn _ _ _ (by krc)

theorem kr_foldl0 {α} (f : Slave → α → Slave) (hf : ∀ s a, KR R s (f s a)) : ∀ (l : List α) (s : Slave), KR R s (l.foldl f s) := by
  intro l
  induction l with
  | nil => intro s; exact KR.refl s
  | cons a l ih => intro s; exact KR.trans (hf s a) (ih _)

theorem kr_foldl {α} (f : Slave → α → Slave) (hf : ∀ s a, KR R s (f s a)) : ∀ (l : List α) (s : Slave), KR R s (l.foldl f s) := by
  intro l
  induction l with
  | nil => intro s; exact KR.refl s
  | cons a l ih => intro s; exact KR.trans (hf s a) (ih _)

theorem kr_appHandler (s : Slave) (i : Nat) (a : List Nat) : KR R s (appHandler s i a) := by
  unfold appHandler
  simp only
  refine KR.trans (kr_emit s _) (kr_foldl _ ?_ _ _)
  intro t _
  exact KR.trans (kr_sendAsduInternal t i a) (kr_emit _ _)

/-- peel the outermost state transformer off a `KR R s (F …)` goal (syntactic match only) -/
macro "kr_step" : tactic => `(tactic| first
  | with_reducible exact KR.refl _
  | ((with_reducible refine KR.trans ?_ (kr_setConn _ _ _ ?_)) <;> (try krc))
  | with_reducible refine KR.trans ?_ (kr_emit _ _)
  | with_reducible refine KR.trans ?_ (kr_setGrp _ _ _ (by kwc))
  | with_reducible refine KR.trans ?_ (kr_write _ _ _)
  | with_reducible refine KR.trans ?_ (kr_sendS _ _)
  | with_reducible refine KR.trans ?_ (kr_sendI _ _ _ _)
  | with_reducible refine KR.trans ?_ (kr_sendAsduInternal _ _ _)
  | with_reducible refine KR.trans ?_ (kr_deactivate _ _)

  | with_reducible refine KR.trans ?_ (kr_appHandler _ _ _))

theorem kr_receiveMessage (s : Slave) (i : Nat) : KR R s (receiveMessage s i).1 := by
  unfold receiveMessage
  simp only
  exact kr_setConn _ _ _ (by krc)

theorem kr_ackIfW (s : Slave) (i : Nat) : KR R s (ackIfW s i) := by
  unfold ackIfW
  simp only
  split
  · exact KR.trans (kr_setConn _ _ _ (by krc)) (kr_sendS _ _)
  · exact KR.refl s

theorem kr_sendWaitingHigh (i : Nat) : ∀ (fuel : Nat) (s : Slave), KR R s (sendWaitingHigh s i fuel).1 := by
  intro fuel
  induction fuel with
  | zero => intro s; exact KR.refl s
  | succ n ih =>
    intro s
    unfold sendWaitingHigh
    simp only
    repeat' split
    all_goals first
      | exact KR.refl _
      | exact kr_setGrp _ _ _ (by kwc)
      | exact KR.trans (kr_setGrp _ _ _ (by kwc)) (kr_sendI _ _ _ _)
      | exact KR.trans (KR.trans (kr_setGrp _ _ _ (by kwc)) (kr_sendI _ _ _ _)) (ih _)

theorem kr_sendWaitingASDUs (s : Slave) (i : Nat) : KR R s (sendWaitingASDUs s i) := by
  unfold sendWaitingASDUs
  have h1 := kr_sendWaitingHigh (R := R) i ((s.grp (s.gidx i)).highQ.count + 1) s
  generalize sendWaitingHigh s i ((s.grp (s.gidx i)).highQ.count + 1) = r at h1
  obtain ⟨s1, cont⟩ := r
  simp only at h1 ⊢
  split
  · exact h1
  · split
    · exact h1
    · have hq : KeptX R (s1.grp (s1.gidx i)).lowQ (s1.grp (s1.gidx i)).lowQ.getNextWaiting.1 := kept_getNextWaiting _ _
      generalize (s1.grp (s1.gidx i)).lowQ.getNextWaiting = gn at hq
      obtain ⟨lq, r⟩ := gn
      simp only at hq ⊢
      split
      · refine KR.trans h1 (KR.trans ?_ (kr_sendI _ _ _ _))
        exact kr_setGrp _ _ _ hq
      · refine KR.trans h1 ?_
        exact kr_setGrp _ _ _ hq

/-- unfold nothing, split every `if` / `match`, name every `let`, peel the state transformers from the outside -/
macro "kr_auto" : tactic => `(tactic| repeat' (first
  | (with_reducible exact KR.refl _)
  | krc
  | split
  | extract_lets
  | kr_step
  | (dsimp (config := { zetaDelta := true, zeta := false }) only)))

theorem kr_phaseT3 (s : Slave) (i : Nat) : KR R s (phaseT3 s i) := by
  unfold phaseT3
  try simp (config := { zeta := false }) only []
  kr_auto

theorem kr_phaseTestFR (s : Slave) (i : Nat) : KR R s (phaseTestFR s i).1 := by
  unfold phaseTestFR
  try simp (config := { zeta := false }) only []
  kr_auto

theorem kr_phaseT2 (s : Slave) (i : Nat) : KR R s (phaseT2 s i) := by
  unfold phaseT2
  try simp (config := { zeta := false }) only []
  kr_auto

theorem kr_phaseT1 (s : Slave) (i : Nat) (ok : Bool) : KR R s (phaseT1 s i ok).1 := by
  unfold phaseT1
  try simp (config := { zeta := false }) only []
  kr_auto

theorem kr_handleTimeouts (s : Slave) (i : Nat) : KR R s (handleTimeouts s i).1 := by
  unfold handleTimeouts
  try simp (config := { zeta := false }) only []
  exact KR.trans (kr_phaseT3 s i) (KR.trans (kr_phaseTestFR _ i) (KR.trans (kr_phaseT2 _ i) (kr_phaseT1 _ i _)))

theorem kr_periodic (s : Slave) (i : Nat) : KR R s (periodic s i) := by
  unfold periodic
  have h1 : KR R s (if (s.conn i).state = 1 then sendWaitingASDUs s i else s) := by
    split
    · exact kr_sendWaitingASDUs s i
    · exact KR.refl s
  extract_lets s1
  have h2 := kr_handleTimeouts (R := R) s1 i
  generalize handleTimeouts s1 i = r at h2
  obtain ⟨s2, ok⟩ := r
  show KR R s (if (!ok) = true then s2.setConn i { s2.conn i with isRunning := false } else s2)
  split
  · exact KR.trans h1 (KR.trans h2 (kr_setConn _ _ _ (by krc)))
  · exact KR.trans h1 h2

theorem kr_resetUnconfirmed (s : Slave) (j : Nat) : KR R s (resetUnconfirmed s j) := by
  unfold resetUnconfirmed
  apply kr_foldl
  intro t e
  split
  · exact kr_setGrp _ _ _ (by kwc)
  · exact KR.refl t

theorem kr_t3upd (s : Slave) (i : Nat) : KR R s (t3upd s i) := by
  unfold t3upd; exact kr_setConn _ _ _ (by krc)

theorem kr_hmTestFR (s : Slave) (i : Nat) : KR R s (hmTestFR s i).1 := by
  unfold hmTestFR
  have h := kr_write (R := R) s i TESTFR_CON
  generalize write s i TESTFR_CON = r at h
  obtain ⟨s1, ok⟩ := r
  show KR R s (if ok = true then (t3upd s1 i, true) else (s1, false)).1
  split
  · exact KR.trans h (kr_t3upd _ _)
  · exact h

theorem kr_stopTail (s : Slave) (i : Nat) (c : Conn) (hc : DummyK (s.conn i) c) :
    KR R s (let s := s.setConn i c
              let (s, ok) := write s i STOPDT_CON
              if ok then (t3upd s i, true) else (s, false)).1 := by
  extract_lets s1
  have h1 : KR R s s1 := kr_setConn _ _ _ hc
  have h := kr_write (R := R) s1 i STOPDT_CON
  generalize write s1 i STOPDT_CON = r at h
  obtain ⟨s2, ok⟩ := r
  show KR R s (if ok = true then (t3upd s2 i, true) else (s2, false)).1
  split
  · exact KR.trans h1 (KR.trans h (kr_t3upd _ _))
  · exact KR.trans h1 h

theorem kr_hmStopDT (s : Slave) (i : Nat) : KR R s (hmStopDT s i).1 := by
  unfold hmStopDT
  extract_lets s0 c s1
  have h0 : KR R s s0 := kr_deactivate s i
  have h1 : KR R s0 s1 := by
    dsimp only [s1]
    split
    · exact KR.trans (kr_setConn _ _ _ (by dsimp only [c]; krc)) (kr_sendS _ _)
    · exact KR.refl _
  split
  · exact KR.trans h0 (KR.trans h1 (kr_t3upd _ _))
  · exact KR.trans h0 (KR.trans h1 (kr_stopTail s1 i _ (by krc)))

theorem kr_activate (s : Slave) (i : Nat) : KR R s (activate s i) := by
  unfold activate
  simp only
  generalize (List.filter _ (List.range s.conns.length)) = js
  have h0 : KR R s (js.foldl deactivate s) := kr_foldl _ (fun t j => kr_deactivate t j) _ _
  generalize js.foldl deactivate s = t at h0
  refine KR.trans h0 ?_
  unfold activateConn
  simp only
  split
  · exact KR.trans (kr_emit _ _) (kr_setConn _ _ _ (by krc))
  · exact kr_setConn _ _ _ (by krc)

theorem kr_hmStartDT (s : Slave) (i : Nat) : KR R s (hmStartDT s i).1 := by
  unfold hmStartDT
  extract_lets s0 g s1
  have h0 : KR R s s0 := kr_activate s i
  have h1 : KR R s0 s1 := kr_setGrp _ _ _ (by kwc)
  have h := kr_write (R := R) s1 i STARTDT_CON
  generalize write s1 i STARTDT_CON = r at h
  obtain ⟨s2, ok⟩ := r
  show KR R s (if ok = true then (t3upd s2 i, true) else (s2, false)).1
  split
  · exact KR.trans h0 (KR.trans h1 (KR.trans h (kr_t3upd _ _)))
  · exact KR.trans h0 (KR.trans h1 h)


/-! ### the acknowledgement path -/

/-- the event-queue references carried by k-buffer entries -/
def refsOf (win : List KEntry) : List (Nat × Nat) := win.filterMap (·.qref)

theorem mem_refsOf {win : List KEntry} {e : KEntry} {r : Nat × Nat} (he : e ∈ win) (hr : e.qref = some r) : r ∈ refsOf win := by
  unfold refsOf; exact List.mem_filterMap.mpr ⟨e, he, hr⟩

/-- confirming the released k-buffer entries touches only the ring entries they reference -/
theorem kr_confirmReleased (rel : List KEntry) (hR : ∀ r ∈ refsOf rel, r ∈ R) : ∀ (s : Slave) (i : Nat), KR R s (confirmReleased s i rel) := by
  induction rel with
  | nil => intro s i; exact KR.refl s
  | cons e rest ih =>
    intro s i
    unfold confirmReleased
    simp only [List.foldl_cons]
    have hrest : ∀ r ∈ refsOf rest, r ∈ R := fun r hr => hR r (by
      unfold refsOf at hr ⊢
      obtain ⟨x, hx, hxr⟩ := List.mem_filterMap.mp hr
      exact List.mem_filterMap.mpr ⟨x, by simp [hx], hxr⟩)
    cases hq : e.qref with
    | none => exact ih hrest s i
    | some q =>
      obtain ⟨o, id⟩ := q
      simp only
      have hmem : (o, id) ∈ R := hR _ (mem_refsOf (e := e) (by simp) hq)
      have hk : KeptX R (s.grp (s.gidx i)).lowQ ((s.grp (s.gidx i)).lowQ.markConfirmed o id) :=
        KeptX.mono (R := [(o, id)]) (by intro r hr; simp at hr; rw [hr]; exact hmem) (kept_markConfirmed _ o id)
      refine KR.trans (b := s.setGrp (s.gidx i) { s.grp (s.gidx i) with lowQ := (s.grp (s.gidx i)).lowQ.markConfirmed o id }) ?_ ?_
      · exact kr_setGrp _ _ _ hk
      · exact ih hrest _ i

/-- the entries released by `checkSequenceNumber` are entries of the k-buffer -/
theorem releaseLoop_sub (ovf : Bool) (ov nr : Nat) : ∀ (win : List KEntry), ∀ e ∈ (releaseLoop ovf ov nr win).2, e ∈ win := by
  intro win
  induction win with
  | nil => intro e he; simp [releaseLoop] at he
  | cons x rest ih =>
    intro e he
    unfold releaseLoop at he
    split at he
    · simp at he
    · split at he
      · simp at he
      · split at he
        · simp at he; simp [he]
        · simp only [List.mem_cons] at he
          rcases he with rfl | he
          · simp
          · exact List.mem_cons_of_mem _ (ih e he)

theorem checkSeq_released_sub (vs : Nat) (win : List KEntry) (nr : Nat) : ∀ e ∈ (checkSeq vs win nr).2.2, e ∈ win := by
  unfold checkSeq
  split
  · exact releaseLoop_sub _ _ _ win
  · intro e he; simp at he

theorem kr_checkSeqConn (s : Slave) (i : Nat) (nr : Nat) (hR : ∀ r ∈ refsOf (s.conn i).win, r ∈ R) :
    KR R s (checkSeqConn s i nr).1 := by
  unfold checkSeqConn
  simp only
  have hsub := checkSeq_released_sub (s.conn i).vs (s.conn i).win nr
  generalize checkSeq (s.conn i).vs (s.conn i).win nr = r at hsub
  obtain ⟨ok, w, rel⟩ := r
  simp only at hsub ⊢
  refine KR.trans (kr_setConn _ _ _ (by krc)) (kr_confirmReleased rel ?_ _ _)
  intro r hr
  unfold refsOf at hr
  obtain ⟨x, hx, hxr⟩ := List.mem_filterMap.mp hr
  exact hR r (mem_refsOf (hsub x hx) hxr)

theorem win_after_set (s : Slave) (i : Nat) (c : Conn) (h : c.win = (s.conn i).win) : ((s.setConn i c).conn i).win = (s.conn i).win := by
  by_cases hl : i < s.conns.length
  · rw [conn_setConn _ _ _ hl]; exact h
  · have hs : s.conns.set i c = s.conns := List.set_eq_of_length_le (Nat.le_of_not_lt hl)
    have : (s.setConn i c).conn i = s.conn i := by unfold Slave.conn Slave.setConn; simp only [hs]
    rw [this]

theorem kr_handleI (s : Slave) (i : Nat) (buf : List Nat) (hR : ∀ r ∈ refsOf (s.conn i).win, r ∈ R) : KR R s (handleI s i buf).1 := by
  unfold handleI
  extract_lets n c c1 s1 ns nr
  have h1 : KR R s s1 := kr_setConn _ _ _ (by krc)
  have hw1 : (s1.conn i).win = (s.conn i).win := win_after_set s i c1 (by dsimp only [c1, c]; split <;> rfl)
  split
  · exact KR.refl s
  · split
    · exact KR.refl s
    · split
      · exact h1
      · have h2 := kr_checkSeqConn (R := R) s1 i nr (by rw [hw1]; exact hR)
        generalize checkSeqConn s1 i nr = r at h2
        obtain ⟨s2, ok⟩ := r
        dsimp only at h2
        show KR R s (if (!ok) = true then (s2, false) else _).fst
        have h12 := KR.trans h1 h2
        split
        · exact h12
        · extract_lets c2 s3
          have h3 : KR R s2 s3 := kr_setConn _ _ _ (by krc)
          split
          · split
            · exact KR.trans h12 h3
            · exact KR.trans h12 (KR.trans h3 (KR.trans (kr_appHandler _ _ _) (kr_setConn _ _ _ (by krc))))
          · exact KR.trans h12 h3

theorem kr_hmS (s : Slave) (i : Nat) (buf : List Nat) (hR : ∀ r ∈ refsOf (s.conn i).win, r ∈ R) : KR R s (hmS s i buf).1 := by
  unfold hmS
  extract_lets nr
  have h := kr_checkSeqConn (R := R) s i nr hR
  generalize checkSeqConn s i nr = r at h
  obtain ⟨s1, ok⟩ := r
  dsimp only at h
  show KR R s (if (!ok) = true then (s1, false) else _).1
  split
  · exact h
  · extract_lets c
    split
    · split
      · exact KR.trans h (kr_stopTail s1 i _ (by krc))
      · exact KR.trans h (kr_t3upd _ _)
    · split
      · exact h
      · exact KR.trans h (kr_t3upd _ _)

theorem kr_handleMessage (s : Slave) (i : Nat) (buf : List Nat) (hR : ∀ r ∈ refsOf (s.conn i).win, r ∈ R) :
    KR R s (handleMessage s i buf).1 := by
  unfold handleMessage
  extract_lets n b2
  split
  · exact KR.refl s
  split
  · exact KR.refl s
  split
  · exact KR.refl s
  split
  · exact kr_handleI s i buf hR
  split
  · exact kr_hmTestFR s i
  split
  · exact kr_hmStartDT s i
  split
  · exact kr_hmStopDT s i
  split
  · exact KR.trans (kr_setConn _ _ _ (by krc)) (kr_t3upd _ _)
  split
  · exact kr_hmS s i buf hR
  · exact KR.refl s

/-- **reception on connection `i`**: whatever arrives, the event ring of every group keeps all its entries, and no entry
becomes confirmed, except entries referenced by the k-buffer of connection `i` (sent on it and not yet acknowledged) -/
theorem kr_handleTcpConnection (s : Slave) (i : Nat) : KR (refsOf (s.conn i).win) s (handleTcpConnection s i) := by
  unfold handleTcpConnection
  have h1 := kr_receiveMessage (R := refsOf (s.conn i).win) s i
  have hw1 : ((receiveMessage s i).1.conn i).win = (s.conn i).win := by
    unfold receiveMessage; simp only; exact win_after_set s i _ rfl
  generalize receiveMessage s i = r at h1 hw1
  obtain ⟨s1, rr, msg⟩ := r
  dsimp only at h1 hw1
  simp (config := { zeta := false }) only []
  extract_lets c0 s2 c3 s4
  have h2 : KR (refsOf (s.conn i).win) s1 s2 := by
    dsimp only [s2]; split
    · exact kr_setConn _ _ _ (by krc)
    · exact KR.refl _
  have hw2 : (s2.conn i).win = (s.conn i).win := by
    dsimp only [s2]; split
    · rw [win_after_set s1 i _ (by dsimp only [c0])]; exact hw1
    · exact hw1
  have h12 := KR.trans h1 h2
  split
  · have h3 := kr_handleMessage (R := refsOf (s.conn i).win) s2 i msg (by rw [hw2]; exact fun r hr => hr)
    have h4 : KR (refsOf (s.conn i).win) (handleMessage s2 i msg).1 s4 := by
      dsimp only [s4]; split
      · exact kr_setConn _ _ _ (by krc)
      · exact KR.refl _
    exact KR.trans h12 (KR.trans h3 (KR.trans h4 (kr_ackIfW _ _)))
  · exact h12

theorem kr_reap (t : Slave) (j : Nat) : KR R t (reap t j) := by
  unfold reap
  extract_lets s1 s2 c3 s3
  have h1 : KR R t s1 := kr_emit _ _
  have h2 : KR R s1 s2 := kr_resetUnconfirmed _ _
  have h3 : KR R s2 s3 := kr_setConn _ _ _ (by krc)
  exact KR.trans h1 (KR.trans h2 (KR.trans h3 (kr_of_groups rfl)))

end Iec.Srv104
