import Iec.Model.TimeTag
/-
Calendar table for C19: for every day d of 2000-01-01 .. 2099-12-31 (days 10957 ..
47481 since the epoch) the civil date computed by `civilFromDays` has year
2000..2099, month 1..12, day 1..31 and the closed-form day count of `my_mktime`
maps it back to d.  The quantifier is finite (36 525 days) and is discharged by
kernel evaluation of a balanced conjunction tree (depth 14 per chunk, three
chunks built in parallel); `allTree_spec` lifts a chunk to the ∀ statement.
-/
namespace Iec.Days
open Iec.TimeTag

def allTree (p : Nat → Bool) : Nat → Nat → Bool
  | lo, 0 => p lo
  | lo, k+1 => allTree p lo k && allTree p (lo + 2^k) k

theorem allTree_spec (p : Nat → Bool) :
    ∀ k lo, allTree p lo k = true → ∀ d, lo ≤ d → d < lo + 2^k → p d = true := by
  intro k
  induction k with
  | zero =>
    intro lo h d h1 h2
    simp [allTree] at h
    have : d = lo := by omega
    subst this; exact h
  | succ k ih =>
    intro lo h d h1 h2
    simp only [allTree, Bool.and_eq_true] at h
    by_cases hd : d < lo + 2^k
    · exact ih lo h.1 d h1 hd
    · exact ih (lo + 2^k) h.2 d (by omega) (by rw [Nat.pow_succ] at h2; omega)

/-- `Nat` version of `mkDays` (for tm_year ≥ 100 no subtraction truncates; shown in
`mkDays_eq_nat`) — kernel evaluation on `Nat` uses GMP arithmetic. -/
def mkDaysNat (year mon mday : Nat) : Nat :=
  let m := if mon < 2 then mon + 12 else mon
  let y := if mon < 2 then year - 1 else year
  (y - 69) * 365 + y / 4 - y / 100 * 3 / 4 + (m + 2) * 153 / 5 - 446 + mday

theorem mkDays_eq_nat (year mon mday : Nat) (hy : 100 ≤ year) (hm : mon < 12) :
    mkDays (year : Int) (mon : Int) (mday : Int) = (mkDaysNat year mon mday : Int) := by
  unfold mkDays mkDaysNat
  by_cases h : mon < 2
  · have h' : (mon : Int) < 2 := by omega
    obtain ⟨y', rfl⟩ : ∃ y', year = y' + 1 := ⟨year - 1, by omega⟩
    simp only [h, h', if_true, Nat.add_sub_cancel]
    have e1 : ((y' + 1 : Nat) : Int) - 1 = (y' : Int) := by omega
    rw [e1]
    have a1 : ((y' / 4 : Nat) : Int) = (y' : Int) / 4 := by omega
    have a2 : ((y' / 100 * 3 / 4 : Nat) : Int) = (y' : Int) / 100 * 3 / 4 := by omega
    have a3 : (((mon + 12 + 2) * 153 / 5 : Nat) : Int) = ((mon : Int) + 12 + 2) * 153 / 5 := by
      omega
    omega
  · have h' : ¬ (mon : Int) < 2 := by omega
    simp only [h, h', if_false]
    have a1 : ((year / 4 : Nat) : Int) = (year : Int) / 4 := by omega
    have a2 : ((year / 100 * 3 / 4 : Nat) : Int) = (year : Int) / 100 * 3 / 4 := by omega
    have a3 : (((mon + 2) * 153 / 5 : Nat) : Int) = ((mon : Int) + 2) * 153 / 5 := by omega
    omega

def dayOk (d : Nat) : Bool :=
  if d < 10957 || 47482 ≤ d then true else
  let c := civilFromDays d
  Nat.ble 2000 c.1 && Nat.ble c.1 2099 && Nat.ble 1 c.2.1 && Nat.ble c.2.1 12 &&
    Nat.ble 1 c.2.2 && Nat.ble c.2.2 31 && Nat.beq (mkDaysNat (c.1 - 1900) (c.2.1 - 1) c.2.2) d

end Iec.Days
