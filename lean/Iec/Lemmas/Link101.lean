/-
helper lemmas about the receive buffer of Iec.Link101
-/
import Iec.Model.Link101
namespace Iec.Link101

theorem writeAt_two (buf : List Nat) (x y : Nat) (r : List Nat) :
    writeAt (writeAt buf 0 [x, y]) 2 r = [x, y] ++ r ++ buf.drop (2 + r.length) := by
  unfold writeAt
  simp
  rw [Nat.add_comm 2 r.length]
  show List.drop (r.length + 1 + 1) (x :: y :: List.drop 2 buf) = _
  rw [List.drop_succ_cons, List.drop_succ_cons, List.drop_drop]
  congr 1; omega

theorem readNext_var (aL L : Nat) (rest buf : List Nat) (h : rest.length = L + 4) :
    readNext aL (0x68 :: L :: rest) buf = ([], [0x68, L] ++ rest ++ buf.drop (L + 6), some (L + 6)) := by
  simp only [readNext]
  have ht : List.take (L + 4) rest = rest := List.take_of_length_le (by omega)
  have hd : List.drop (L + 4) rest = [] := List.drop_of_length_le (by omega)
  rw [ht, hd, if_pos h, writeAt_two, h]
  have : 2 + (L + 4) = L + 6 := by omega
  rw [this]


end Iec.Link101
