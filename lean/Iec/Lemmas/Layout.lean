import Iec.Model.Layout
import Iec.Lemmas.Bits
/-
Field-level lemmas: little-endian round trip, lengths, and
`decodeFields (encodeFields vals ++ rest) = (vals, rest)` for well-formed stored values.
-/
namespace Iec.Layout
open Iec.Bits

theorem leBytes_length (n v : Nat) : (leBytes n v).length = n := by
  induction n generalizing v with
  | zero => rfl
  | succ n ih => simp [leBytes, ih]

theorem leVal_leBytes (n v : Nat) (h : v < 256 ^ n) : leVal (leBytes n v) = v := by
  induction n generalizing v with
  | zero => simp [leBytes, leVal] at *; omega
  | succ n ih =>
    simp only [leBytes, leVal]
    have : v / 256 < 256 ^ n := by
      rw [Nat.pow_succ] at h
      exact Nat.div_lt_of_lt_mul (by rw [Nat.mul_comm]; exact h)
    rw [ih _ this]; omega

theorem leBytes_lt (n v : Nat) : ∀ b ∈ leBytes n v, b < 256 := by
  induction n generalizing v with
  | zero => simp [leBytes]
  | succ n ih =>
    intro b hb
    simp only [leBytes, List.mem_cons] at hb
    rcases hb with rfl | hb
    · omega
    · exact ih _ b hb

theorem leVal_lt (bs : List Nat) (h : ∀ b ∈ bs, b < 256) : leVal bs < 256 ^ bs.length := by
  induction bs with
  | nil => simp [leVal]
  | cons b bs ih =>
    simp only [leVal, List.length_cons, Nat.pow_succ]
    have hb : b < 256 := h b (by simp)
    have := ih (fun x hx => h x (by simp [hx]))
    omega

theorem leBytes_leVal (bs : List Nat) (h : ∀ b ∈ bs, b < 256) : leBytes bs.length (leVal bs) = bs := by
  induction bs with
  | nil => rfl
  | cons b bs ih =>
    have hb : b < 256 := h b (by simp)
    simp only [List.length_cons, leBytes, leVal]
    have e1 : (b + 256 * leVal bs) % 256 = b := by omega
    have e2 : (b + 256 * leVal bs) / 256 = leVal bs := by omega
    rw [e1, e2, ih (fun x hx => h x (by simp [hx]))]

/-- octet facts for SIQ / DIQ -/
theorem siq_octet : ∀ q, q < 256 → q % 16 = 0 → ∀ v, v ≤ 1 →
    ((((q &&& 0xf0) + (v &&& 0x01)) % 256) &&& 0x01 = v) ∧ ((((q &&& 0xf0) + (v &&& 0x01)) % 256) &&& 0xf0 = q) := by
  intro q hq hq16 v hv
  have hv' : v = 0 ∨ v = 1 := by omega
  have key : ∀ q, q < 256 → (q % 16 = 0 →
      ((((q &&& 0xf0) + (0 &&& 0x01)) % 256) &&& 0x01 = 0) ∧ ((((q &&& 0xf0) + (0 &&& 0x01)) % 256) &&& 0xf0 = q) ∧
      ((((q &&& 0xf0) + (1 &&& 0x01)) % 256) &&& 0x01 = 1) ∧ ((((q &&& 0xf0) + (1 &&& 0x01)) % 256) &&& 0xf0 = q)) := by
    decide +kernel
  have k := key q hq hq16
  rcases hv' with rfl | rfl
  · exact ⟨k.1, k.2.1⟩
  · exact ⟨k.2.2.1, k.2.2.2⟩

theorem diq_octet : ∀ q, q < 256 → q % 16 = 0 → ∀ v, v ≤ 3 →
    ((((q &&& 0xf0) + (v &&& 0x03)) % 256) &&& 0x03 = v) ∧ ((((q &&& 0xf0) + (v &&& 0x03)) % 256) &&& 0xf0 = q) := by
  intro q hq hq16 v hv
  have key : ∀ q, q < 256 → ∀ v, v < 4 → (q % 16 = 0 →
      ((((q &&& 0xf0) + (v &&& 0x03)) % 256) &&& 0x03 = v) ∧ ((((q &&& 0xf0) + (v &&& 0x03)) % 256) &&& 0xf0 = q)) := by
    decide +kernel
  exact key q hq v (by omega) hq16

theorem wfVals_iff (fs : List FieldSpec) (vs : List Nat) : wfVals fs vs = true ↔ WFVals fs vs := by
  induction fs generalizing vs with
  | nil => cases vs <;> simp [wfVals, WFVals]
  | cons f fs ih =>
    cases f with
    | le n => cases vs with
      | nil => simp [wfVals, WFVals]
      | cons v vs => simp [wfVals, WFVals, ih]
    | siq => match vs with
      | [] => simp [wfVals, WFVals]
      | [_] => simp [wfVals, WFVals]
      | v :: q :: vs => simp [wfVals, WFVals, ih, and_assoc]
    | diq => match vs with
      | [] => simp [wfVals, WFVals]
      | [_] => simp [wfVals, WFVals]
      | v :: q :: vs => simp [wfVals, WFVals, ih, and_assoc]
    | seg => match vs with
      | [] => simp [wfVals, WFVals]
      | [_] => simp [wfVals, WFVals]
      | v :: q :: vs => simp [wfVals, WFVals, ih, and_assoc]

/-- well-formed values always encode, to exactly `fieldsSize` octets, all below 256 -/
theorem encodeFields_wf (fs : List FieldSpec) (vs : List Nat) (h : WFVals fs vs) :
    ∃ bs, encodeFields fs vs = some bs ∧ bs.length = fieldsSize fs vs ∧ ∀ b ∈ bs, b < 256 := by
  induction fs generalizing vs with
  | nil => cases vs with
    | nil => exact ⟨[], rfl, rfl, by simp⟩
    | cons => simp [WFVals] at h
  | cons f fs ih =>
    cases f with
    | le n => cases vs with
      | nil => simp [WFVals] at h
      | cons v vs =>
        simp only [WFVals] at h
        obtain ⟨bs, e, l, lt⟩ := ih vs h.2
        refine ⟨leBytes n v ++ bs, by simp [encodeFields, e], by simp [fieldsSize, leBytes_length, l], ?_⟩
        intro b hb
        rcases List.mem_append.mp hb with hb | hb
        · exact leBytes_lt n v b hb
        · exact lt b hb
    | siq => match vs, h with
      | v :: q :: vs, h =>
        simp only [WFVals] at h
        obtain ⟨bs, e, l, lt⟩ := ih vs h.2.2.2
        refine ⟨((q &&& 0xf0) + (v &&& 0x01)) % 256 :: bs, by simp [encodeFields, e],
          by simp [fieldsSize, l]; omega, ?_⟩
        intro b hb
        rcases List.mem_cons.mp hb with rfl | hb
        · omega
        · exact lt b hb
    | diq => match vs, h with
      | v :: q :: vs, h =>
        simp only [WFVals] at h
        obtain ⟨bs, e, l, lt⟩ := ih vs h.2.2.2
        refine ⟨((q &&& 0xf0) + (v &&& 0x03)) % 256 :: bs, by simp [encodeFields, e],
          by simp [fieldsSize, l]; omega, ?_⟩
        intro b hb
        rcases List.mem_cons.mp hb with rfl | hb
        · omega
        · exact lt b hb
    | seg => match vs, h with
      | los :: d :: vs, h =>
        simp only [WFVals] at h
        obtain ⟨bs, e, l, lt⟩ := ih vs h.2.2
        refine ⟨(los % 256 :: leBytes los d) ++ bs, by simp [encodeFields, e],
          by simp [fieldsSize, leBytes_length, l]; omega, ?_⟩
        intro b hb
        simp only [List.cons_append, List.mem_cons, List.mem_append] at hb
        rcases hb with rfl | hb | hb
        · omega
        · exact leBytes_lt los d b hb
        · exact lt b hb

/-- **field-level round trip**: decoding what was encoded (followed by anything) returns
the stored values and leaves exactly the rest -/
theorem decode_encode_fields (fs : List FieldSpec) (vs : List Nat) (h : WFVals fs vs)
    (bs : List Nat) (he : encodeFields fs vs = some bs) (rest : List Nat) :
    decodeFields fs (bs ++ rest) = some (vs, rest) := by
  induction fs generalizing vs bs with
  | nil => cases vs with
    | nil => simp [encodeFields] at he; subst he; rfl
    | cons => simp [WFVals] at h
  | cons f fs ih =>
    cases f with
    | le n => cases vs with
      | nil => simp [WFVals] at h
      | cons v vs =>
        simp only [WFVals] at h
        simp only [encodeFields, Option.map_eq_some_iff] at he
        obtain ⟨tl, htl, rfl⟩ := he
        have hl : (leBytes n v).length = n := leBytes_length n v
        simp only [decodeFields, List.append_assoc]
        have hlen : ¬ (leBytes n v ++ (tl ++ rest)).length < n := by simp [hl]
        rw [if_neg hlen]
        have hd : (leBytes n v ++ (tl ++ rest)).drop n = tl ++ rest := List.drop_left' hl
        have ht : (leBytes n v ++ (tl ++ rest)).take n = leBytes n v := List.take_left' hl
        rw [hd, ht, ih vs h.2 tl htl, leVal_leBytes n v h.1]
        rfl
    | siq => match vs, h with
      | v :: q :: vs, h =>
        simp only [WFVals] at h
        simp only [encodeFields, Option.map_eq_some_iff] at he
        obtain ⟨tl, htl, rfl⟩ := he
        have k := siq_octet q h.2.1 h.2.2.1 v h.1
        simp only [List.cons_append, decodeFields, ih vs h.2.2.2 tl htl, Option.map_some]
        rw [k.1, k.2]
    | diq => match vs, h with
      | v :: q :: vs, h =>
        simp only [WFVals] at h
        simp only [encodeFields, Option.map_eq_some_iff] at he
        obtain ⟨tl, htl, rfl⟩ := he
        have k := diq_octet q h.2.1 h.2.2.1 v h.1
        simp only [List.cons_append, decodeFields, ih vs h.2.2.2 tl htl, Option.map_some]
        rw [k.1, k.2]
    | seg => match vs, h with
      | los :: d :: vs, h =>
        simp only [WFVals] at h
        simp only [encodeFields, Option.map_eq_some_iff] at he
        obtain ⟨tl, htl, rfl⟩ := he
        have hl : (leBytes los d).length = los := leBytes_length los d
        have hm : los % 256 = los := Nat.mod_eq_of_lt h.1
        simp only [List.cons_append, List.append_assoc, decodeFields, hm]
        have hlen : ¬ (leBytes los d ++ (tl ++ rest)).length < los := by simp [hl]
        rw [if_neg hlen]
        have hd : (leBytes los d ++ (tl ++ rest)).drop los = tl ++ rest := List.drop_left' hl
        have ht : (leBytes los d ++ (tl ++ rest)).take los = leBytes los d := List.take_left' hl
        rw [hd, ht, ih vs h.2.2 tl htl, leVal_leBytes los d h.2.1]
        rfl

end Iec.Layout
