import Iec.Model.KWindow
/-
Lemmas about the k-window model: the acceptance test of checkSequenceNumber is the
modular window test, the release loop drops exactly the acknowledged prefix.
-/
namespace Iec.KWindow

/-- sequence numbers of `n` consecutive frames, the first being frame number `j` after `base` -/
def seqsFrom (base j : Nat) : Nat → List Nat
  | 0 => []
  | n + 1 => (base + 1 + j) % 32768 :: seqsFrom base (j + 1) n

theorem seqsFrom_length (base j n : Nat) : (seqsFrom base j n).length = n := by
  induction n generalizing j with
  | zero => rfl
  | succ n ih => simp [seqsFrom, ih]

theorem seqsFrom_getLast (base j n : Nat) (d : Nat) :
    ((seqsFrom base j (n + 1)).getLast?.getD d) = (base + 1 + j + n) % 32768 := by
  induction n generalizing j with
  | zero => simp [seqsFrom]
  | succ n ih =>
    have := ih (j + 1)
    simp only [seqsFrom] at this ⊢
    rw [List.getLast?_cons_cons]
    rw [this]; congr 1; omega

/-- the k-buffer holds `len` consecutive acknowledgement numbers ending at V(S) -/
def WinInv (vs : Nat) (win : List KEntry) (base len : Nat) : Prop :=
  base < 32768 ∧ len < 32767 ∧ win.map (·.seq) = seqsFrom base 0 len ∧ vs = (base + len) % 32768

/-- distance of a received N(R) from the oldest acknowledged position -/
def dist (base nr : Nat) : Nat := (nr + 32768 - base) % 32768

theorem valid_iff (vs : Nat) (win : List KEntry) (base len : Nat) (h : WinInv vs win base len) (nr : Nat)
    (hnr : nr < 32768) : valid vs win nr = true ↔ dist base nr ≤ len := by
  obtain ⟨hb, hl, hw, hv⟩ := h
  unfold dist
  cases len with
  | zero =>
    have : win = [] := by simpa [seqsFrom] using hw
    subst this
    simp only [valid, beq_iff_eq, hv]
    omega
  | succ n =>
    match win, hw with
    | o :: rest, hw =>
      have ho : o.seq = (base + 1) % 32768 := by
        have := congrArg List.head? hw; simpa [seqsFrom] using this
      have hlast : (((o :: rest).getLast?.getD o)).seq = (base + 1 + n) % 32768 := by
        have h1 := seqsFrom_getLast base 0 n o.seq
        rw [← hw] at h1
        rw [List.getLast?_map] at h1
        cases hg : (o :: rest).getLast? with
        | none => simp at hg
        | some e => simp [hg] at h1 ⊢; omega
      obtain ⟨oo, hoo⟩ : ∃ oo, oo = (base + 1) % 32768 := ⟨_, rfl⟩
      obtain ⟨nn, hnn⟩ : ∃ nn, nn = (base + 1 + n) % 32768 := ⟨_, rfl⟩
      simp only [valid, hlast, ho, ← hoo, ← hnn]
      by_cases c1 : oo ≤ nn <;> by_cases c2 : oo = 0 <;>
        simp only [c1, c2, if_true, if_false, Bool.or_eq_true, Bool.and_eq_true, decide_eq_true_eq, beq_iff_eq,
          ge_iff_le, Nat.zero_le, decide_true, Bool.true_and] <;> omega

theorem loop_suffix (base len d nr : Nat) (ovf : Bool) (ov : Nat) (hb : base < 32768) (hl : len < 32767)
    (hd1 : 1 ≤ d) (hdl : d ≤ len) (hnr : nr = (base + d) % 32768) (hov : ov = base)
    (hovf : ovf = false → (base + 1) % 32768 ≤ (base + len) % 32768) :
    ∀ (n j : Nat) (w : List KEntry), w.map (·.seq) = seqsFrom base j n → j + n = len → j < d →
      releaseLoop ovf ov nr w = (w.drop (d - j), w.take (d - j)) := by
  intro n
  induction n with
  | zero =>
    intro j w hw hj hjd
    have : w = [] := by simpa [seqsFrom] using hw
    subst this; simp [releaseLoop]
  | succ n ih =>
    intro j w hw hj hjd
    match w, hw with
    | e :: rest, hw =>
      simp only [seqsFrom, List.map_cons, List.cons.injEq] at hw
      obtain ⟨he, hrest⟩ := hw
      unfold releaseLoop
      have c1 : ¬ ((!ovf && decide (nr < e.seq)) = true) := by
        cases ovf with
        | true => simp
        | false =>
          have := hovf rfl
          simp only [Bool.not_false, Bool.true_and, decide_eq_true_eq]
          omega
      have c2 : ¬ ((nr == ov) = true) := by
        simp only [beq_iff_eq]; omega
      rw [if_neg c1, if_neg c2]
      by_cases c3 : j + 1 = d
      · have : (e.seq == nr) = true := by simp only [beq_iff_eq]; omega
        rw [if_pos this]
        have hdj : d - j = 1 := by omega
        rw [hdj]; simp
      · have : ¬ ((e.seq == nr) = true) := by simp only [beq_iff_eq]; omega
        rw [if_neg this]
        have := ih (j + 1) rest hrest (by omega) (by omega)
        rw [this]
        have hdj : d - j = (d - (j + 1)) + 1 := by omega
        rw [hdj]; simp

/-- **release**: an accepted N(R) at distance d releases exactly the d oldest entries -/
theorem release_spec (vs : Nat) (win : List KEntry) (base len : Nat) (h : WinInv vs win base len) (nr : Nat)
    (hnr : nr < 32768) (hd : dist base nr ≤ len) :
    releaseLoop (overflowDetected win) (oldestValid win) nr win
      = (win.drop (dist base nr), win.take (dist base nr)) := by
  obtain ⟨hb, hl, hw, hv⟩ := h
  match win, hw with
  | [], hw => simp [releaseLoop]
  | o :: rest, hw =>
    cases len with
    | zero => simp [seqsFrom] at hw
    | succ n =>
      have ho : o.seq = (base + 1) % 32768 := by
        have := congrArg List.head? hw; simpa [seqsFrom] using this
      have hov : oldestValid (o :: rest) = base := by
        simp only [oldestValid, ho]; split <;> omega
      by_cases hd0 : dist base nr = 0
      · rw [hd0]
        have hnrb : nr = base := by unfold dist at hd0; omega
        unfold releaseLoop
        by_cases c1 : (!overflowDetected (o :: rest) && decide (nr < o.seq)) = true
        · rw [if_pos c1]; simp
        · rw [if_neg c1]
          have : (nr == oldestValid (o :: rest)) = true := by rw [hov]; simp [hnrb]
          rw [if_pos this]; simp
      · have hlast : (((o :: rest).getLast?.getD o)).seq = (base + 1 + n) % 32768 := by
          have h1 := seqsFrom_getLast base 0 n o.seq
          rw [← hw] at h1
          rw [List.getLast?_map] at h1
          cases hg : (o :: rest).getLast? with
          | none => simp at hg
          | some e => simp [hg] at h1 ⊢; omega
        have hovf : overflowDetected (o :: rest) = false → (base + 1) % 32768 ≤ (base + (n + 1)) % 32768 := by
          intro hf
          simp only [overflowDetected, hlast, ho, decide_eq_false_iff_not] at hf
          omega
        have := loop_suffix base (n + 1) (dist base nr) nr (overflowDetected (o :: rest)) (oldestValid (o :: rest))
          hb hl (by omega) hd (by unfold dist; omega) hov hovf (n + 1) 0 (o :: rest) hw (by omega) (by omega)
        simpa using this

/-- after an accepted N(R) the invariant holds again with the window shortened from the front -/
theorem winInv_drop (vs : Nat) (win : List KEntry) (base len d : Nat) (h : WinInv vs win base len) (hd : d ≤ len) :
    WinInv vs (win.drop d) ((base + d) % 32768) (len - d) := by
  obtain ⟨hb, hl, hw, hv⟩ := h
  refine ⟨Nat.mod_lt _ (by omega), by omega, ?_, by omega⟩
  rw [List.map_drop, hw]
  -- dropping d of the consecutive numbers shifts the base
  have key : ∀ n j d, d ≤ n → (seqsFrom base j n).drop d = seqsFrom base (j + d) (n - d) := by
    intro n
    induction n with
    | zero => intro j d hd; have : d = 0 := by omega
              subst this; simp [seqsFrom]
    | succ n ih =>
      intro j d hd
      cases d with
      | zero => simp
      | succ d =>
        simp only [seqsFrom, List.drop_succ_cons]
        rw [ih (j + 1) d (by omega)]
        have : n + 1 - (d + 1) = n - d := by omega
        rw [this]; congr 1; omega
  rw [key len 0 d hd]
  have shift : ∀ n j, seqsFrom base (j + d) n = seqsFrom ((base + d) % 32768) j n := by
    intro n
    induction n with
    | zero => intro j; rfl
    | succ n ih =>
      intro j
      simp only [seqsFrom]
      rw [show j + d + 1 = (j + 1) + d by omega, ih (j + 1)]
      congr 1; omega
  simpa using shift (len - d) 0

/-- sending one more I-frame keeps the invariant -/
theorem winInv_push (vs : Nat) (win : List KEntry) (base len : Nat) (h : WinInv vs win base len)
    (hl : len + 1 < 32767) (e : KEntry) (he : e.seq = (vs + 1) % 32768) :
    WinInv ((vs + 1) % 32768) (win ++ [e]) base (len + 1) := by
  obtain ⟨hb, _, hw, hv⟩ := h
  refine ⟨hb, hl, ?_, by omega⟩
  have snoc : ∀ n j, seqsFrom base j (n + 1) = seqsFrom base j n ++ [(base + 1 + j + n) % 32768] := by
    intro n
    induction n with
    | zero => intro j; simp [seqsFrom]
    | succ n ih =>
      intro j
      have := ih (j + 1)
      simp only [seqsFrom, List.cons_append] at this ⊢
      rw [this]; congr 2; congr 1; omega
  rw [List.map_append, hw, snoc len 0]
  simp only [List.map_cons, List.map_nil, he, hv]
  congr 2; omega

end Iec.KWindow
