import Iec.Model.FileSrv
/-
Helper lemmas for the file-service theorems (Iec.Props.C20): segmentation of a section,
checksum arithmetic, the segment pump of `runTask`, composition of `run`.
-/
namespace Iec.FileSrv

/-! ### segmentation -/

/-- the pieces `runTask` cuts a section (from the current offset) into: at most `n` octets each -/
def chunksAux (n : Nat) : Nat → List Nat → List (List Nat)
  | 0, _ => []
  | fuel + 1, d => if d = [] then [] else d.take n :: chunksAux n fuel (d.drop n)

def chunks (n : Nat) (d : List Nat) : List (List Nat) := chunksAux n d.length d

theorem chunksAux_flatten (n : Nat) (hn : 0 < n) : ∀ (fuel : Nat) (d : List Nat), d.length ≤ fuel →
    (chunksAux n fuel d).flatten = d := by
  intro fuel
  induction fuel with
  | zero => intro d h; have : d = [] := List.eq_nil_of_length_eq_zero (by omega); simp [chunksAux, this]
  | succ f ih =>
    intro d h
    unfold chunksAux
    split
    · rename_i hd; simp [hd]
    · rename_i hd
      have hl : 0 < d.length := List.length_pos_iff.mpr hd
      rw [List.flatten_cons, ih (d.drop n) (by simp; omega), List.take_append_drop]

theorem chunks_flatten (n : Nat) (hn : 0 < n) (d : List Nat) : (chunks n d).flatten = d :=
  chunksAux_flatten n hn d.length d (Nat.le_refl _)

theorem chunksAux_bound (n : Nat) : ∀ (fuel : Nat) (d : List Nat), ∀ c ∈ chunksAux n fuel d, c.length ≤ n := by
  intro fuel
  induction fuel with
  | zero => intro d c hc; simp [chunksAux] at hc
  | succ f ih =>
    intro d c hc
    unfold chunksAux at hc
    split at hc
    · simp at hc
    · rcases List.mem_cons.mp hc with h | h
      · rw [h]; simp; omega
      · exact ih _ c h

theorem chunks_bound (n : Nat) (d : List Nat) : ∀ c ∈ chunks n d, c.length ≤ n := chunksAux_bound n _ d

/-- enough fuel: the result does not depend on it -/
theorem chunksAux_fuel (n : Nat) (hn : 0 < n) : ∀ (f1 f2 : Nat) (d : List Nat), d.length ≤ f1 → d.length ≤ f2 →
    chunksAux n f1 d = chunksAux n f2 d := by
  intro f1
  induction f1 with
  | zero =>
    intro f2 d h1 _
    have : d = [] := List.eq_nil_of_length_eq_zero (by omega)
    subst this
    cases f2 <;> first | rfl | simp [chunksAux]
  | succ f ih =>
    intro f2 d h1 h2
    cases f2 with
    | zero =>
      have : d = [] := List.eq_nil_of_length_eq_zero (by omega)
      subst this; first | rfl | simp [chunksAux]
    | succ g =>
      unfold chunksAux
      split
      · rfl
      · rename_i hd
        have hl : 0 < d.length := List.length_pos_iff.mpr hd
        rw [ih g (d.drop n) (by simp; omega) (by simp; omega)]

/-! ### checksums -/

theorem chk_append (a b : List Nat) : chk (a ++ b) = (chk a + chk b) % 256 := by
  simp [chk, List.sum_append]

theorem chk_nil : chk [] = 0 := by simp [chk]

theorem chk_lt (a : List Nat) : chk a < 256 := by simp [chk]; omega

theorem chk_take_drop (n : Nat) (d : List Nat) : (chk (d.take n) + chk (d.drop n)) % 256 = chk d := by
  rw [← chk_append, List.take_append_drop]

/-- accumulating the section checksum segment by segment gives the checksum of the whole -/
theorem chk_acc (c n : Nat) (d : List Nat) :
    ((c + chk (d.take n)) % 256 + chk (d.drop n)) % 256 = (c + chk d) % 256 := by
  have := chk_take_drop n d
  omega

/-! ### composition of histories -/

theorem run_append (e : Env) (s : Srv) (a b : List Op) :
    run e s (a ++ b) = ((run e (run e s a).1 b).1, (run e s a).2 ++ (run e (run e s a).1 b).2) := by
  induction a generalizing s with
  | nil => simp [run]
  | cons op a ih =>
    simp only [List.cons_append, run]
    rw [ih]
    simp [List.append_assoc]

theorem run_cons (e : Env) (s : Srv) (op : Op) (ops : List Op) :
    run e s (op :: ops) = ((run e (step e s op).1 ops).1, (step e s op).2 ++ (run e (step e s op).1 ops).2) := by
  simp [run]

theorem run_nil (e : Env) (s : Srv) : run e s [] = (s, []) := rfl

end Iec.FileSrv

namespace Iec.FileSrv

/-! ### the segment pump of `runTask` -/

theorem segData_eq (f : File) (k : Nat) (sec : List Nat) (hk : 1 ≤ k) (hs : f[k - 1]? = some sec) (off n : Nat) :
    segData f ((k : Int) - 1) off n = (sec.drop off).take n := by
  unfold segData
  have h1 : ¬ ((k : Int) - 1 < 0) := by omega
  have h2 : ((k : Int) - 1).toNat = k - 1 := by omega
  simp only [h1, if_false, h2]
  rw [List.getD_eq_getElem?_getD, hs]; rfl

theorem sectionSize_eq (f : File) (k : Nat) (sec : List Nat) (hk : 1 ≤ k) (hs : f[k - 1]? = some sec) :
    sectionSize f ((k : Int) - 1) = sec.length := by
  unfold sectionSize
  have h1 : ¬ ((k : Int) - 1 < 0) := by omega
  have h2 : ((k : Int) - 1).toNat = k - 1 := by omega
  simp only [h1, if_false, h2]
  rw [List.getD_eq_getElem?_getD, hs]; rfl

theorem sectionSize_none (f : File) (k : Nat) (hk : 1 ≤ k) (hs : f[k - 1]? = none) :
    sectionSize f ((k : Int) - 1) = 0 := by
  unfold sectionSize
  have h1 : ¬ ((k : Int) - 1 < 0) := by omega
  have h2 : ((k : Int) - 1).toNat = k - 1 := by omega
  simp only [h1, if_false, h2]
  rw [List.getD_eq_getElem?_getD, hs]; rfl

/-- the server is pumping section `sec` (its number is `s.secNo`) on connection `conn` -/
structure Pumping (e : Env) (s : Srv) (conn : Nat) (sec : List Nat) : Prop where
  st : s.st = .transmit
  sel : s.selected = true
  con : s.selConn = some conn
  size : s.secSize = sec.length
  off : s.secOff ≤ sec.length
  pos : 1 ≤ s.secNo
  data : e.file[s.secNo - 1]? = some sec
  seg : 0 < s.maxSeg
  chkRange : s.secChk < 256

theorem take_min_drop (m off : Nat) (sec : List Nat) :
    (sec.drop off).take (if sec.length - off > m then m else sec.length - off) = (sec.drop off).take m := by
  split
  · rfl
  · rename_i h
    rw [List.take_of_length_le (by simp), List.take_of_length_le (by simp; omega)]

theorem drop_after_take (m off : Nat) (sec : List Nat) :
    sec.drop (off + ((sec.drop off).take m).length) = (sec.drop off).drop m := by
  rw [List.drop_drop]
  simp only [List.length_take, List.length_drop]
  by_cases h : m ≤ sec.length - off
  · rw [Nat.min_eq_left h, Nat.add_comm]
  · have h' : sec.length - off ≤ m := by omega
    rw [Nat.min_eq_right h']
    rw [List.drop_of_length_le (by omega), List.drop_of_length_le (by omega)]

/-- one `runTask` while octets of the section remain: exactly one segment of at most `maxSeg` octets -/
theorem task_segment (e : Env) (s : Srv) (conn now : Nat) (sec : List Nat) (h : Pumping e s conn sec)
    (hlt : s.secOff < sec.length) :
    runTask e s conn now =
      ({ s with secOff := s.secOff + ((sec.drop s.secOff).take s.maxSeg).length, lastSend := now,
                secChk := (s.secChk + chk ((sec.drop s.secOff).take s.maxSeg)) % 256 },
       [s.send conn s.oa (.segment s.secNo ((sec.drop s.secOff).take s.maxSeg))]) := by
  have hd := segData_eq e.file s.secNo sec h.pos h.data
  have hpos : 0 < sec.length - s.secOff := by omega
  have hto : ¬ (now > now + s.timeout) := by omega
  unfold runTask pumpStep
  simp [h.st, h.sel, h.con, hd, h.size, hpos, hto, take_min_drop, List.length_take, List.length_drop]
  split <;> omega

/-- one `runTask` after the last octet: LAST SEGMENT with the accumulated checksum -/
theorem task_last (e : Env) (s : Srv) (conn now : Nat) (sec : List Nat) (h : Pumping e s conn sec)
    (heq : s.secOff = sec.length) :
    runTask e s conn now =
      ({ s with lastSend := now, st := .waitSectionAck }, [s.send conn s.oa (.lastSegment s.secNo s.secChk)]) := by
  have hn : ¬ (s.secSize - s.secOff > 0) := by rw [h.size, heq]; omega
  have hto : ¬ (now > now + s.timeout) := by omega
  unfold runTask pumpStep
  simp [h.st, h.sel, h.con, hn, hto]

end Iec.FileSrv

namespace Iec.FileSrv

theorem step_task (e : Env) (s : Srv) (conn now : Nat) : step e s (.task conn now) = runTask e s conn now := rfl

/-- **the pump**: from any point of a section, `(number of remaining segments) + 1` task calls send the
remaining octets in pieces of at most `maxSeg`, then LAST SEGMENT with the checksum of the whole pass. -/
theorem pump (e : Env) (conn now : Nat) (sec : List Nat) : ∀ (fuel : Nat) (s : Srv), Pumping e s conn sec →
    sec.length - s.secOff ≤ fuel →
    run e s (List.replicate ((chunksAux s.maxSeg fuel (sec.drop s.secOff)).length + 1) (Op.task conn now)) =
      ({ s with secOff := sec.length, lastSend := now, st := .waitSectionAck,
                secChk := (s.secChk + chk (sec.drop s.secOff)) % 256 },
       (chunksAux s.maxSeg fuel (sec.drop s.secOff)).map (fun d => s.send conn s.oa (.segment s.secNo d)) ++
         [s.send conn s.oa (.lastSegment s.secNo ((s.secChk + chk (sec.drop s.secOff)) % 256))]) := by
  intro fuel
  induction fuel with
  | zero =>
    intro s h hf
    have heq : s.secOff = sec.length := by have := h.off; omega
    have hnil : sec.drop s.secOff = [] := by rw [heq]; simp
    have hc : (s.secChk + 0) % 256 = s.secChk := by have := h.chkRange; omega
    simp only [chunksAux, List.length_nil, Nat.zero_add, List.replicate_one, List.map_nil, List.nil_append,
      run, step_task, task_last e s conn now sec h heq, hnil, chk_nil, hc, List.append_nil]
    rw [← heq]
  | succ f ih =>
    intro s h hf
    by_cases heq : s.secOff = sec.length
    · have hnil : sec.drop s.secOff = [] := by rw [heq]; simp
      have hc : (s.secChk + 0) % 256 = s.secChk := by have := h.chkRange; omega
      simp only [chunksAux, hnil, if_true, List.length_nil, Nat.zero_add, List.replicate_one, List.map_nil, List.nil_append,
        run, step_task, task_last e s conn now sec h heq, chk_nil, hc, List.append_nil]
      rw [← heq]
    · have hlt : s.secOff < sec.length := by have := h.off; omega
      have hne : sec.drop s.secOff ≠ [] := by
        intro hn; have := congrArg List.length hn; simp at this; omega
      -- first task: one segment
      let s1 : Srv := { s with secOff := s.secOff + ((sec.drop s.secOff).take s.maxSeg).length, lastSend := now,
                               secChk := (s.secChk + chk ((sec.drop s.secOff).take s.maxSeg)) % 256 }
      have hstep := task_segment e s conn now sec h hlt
      have hlen : 0 < ((sec.drop s.secOff).take s.maxSeg).length := by
        simp only [List.length_take, List.length_drop]; have := h.seg; omega
      have hle : ((sec.drop s.secOff).take s.maxSeg).length ≤ sec.length - s.secOff := by
        simp only [List.length_take, List.length_drop]; omega
      have hp1 : Pumping e s1 conn sec :=
        { st := h.st, sel := h.sel, con := h.con, size := h.size, off := by show s.secOff + _ ≤ _; omega,
          pos := h.pos, data := h.data, seg := h.seg, chkRange := by show (_ % 256) < 256; omega }
      have hdrop : sec.drop s1.secOff = (sec.drop s.secOff).drop s.maxSeg := drop_after_take s.maxSeg s.secOff sec
      have hih := ih s1 hp1 (by show sec.length - (s.secOff + _) ≤ f; omega)
      have hchk : (s1.secChk + chk (sec.drop s1.secOff)) % 256 = (s.secChk + chk (sec.drop s.secOff)) % 256 := by
        rw [hdrop]; exact chk_acc s.secChk s.maxSeg (sec.drop s.secOff)
      show run e s (List.replicate ((chunksAux s.maxSeg (f + 1) (sec.drop s.secOff)).length + 1) (Op.task conn now)) = _
      unfold chunksAux
      simp only [hne, if_false, List.length_cons, List.replicate_succ, List.map_cons, List.cons_append]
      rw [run_cons, step_task, hstep]
      have hm : s1.maxSeg = s.maxSeg := rfl
      rw [hm, hdrop] at hih
      simp only [List.replicate_succ] at hih
      rw [hih]
      rw [hdrop] at hchk
      simp only [hchk]
      rfl

end Iec.FileSrv

namespace Iec.FileSrv

/-! ### the procedure-following master (download) -/

def mSelect (e : Env) (oa : Nat) : Req :=
  { tid := 122, cot := cotFile, neg := false, ca := e.fca, oa := oa, obj := some (.callSel e.fioa e.fnof 0 1) }
def mCallFile (e : Env) (oa : Nat) : Req :=
  { tid := 122, cot := cotFile, neg := false, ca := e.fca, oa := oa, obj := some (.callSel e.fioa e.fnof 0 2) }
def mCallSection (e : Env) (oa nos : Nat) : Req :=
  { tid := 122, cot := cotFile, neg := false, ca := e.fca, oa := oa, obj := some (.callSel e.fioa e.fnof nos 6) }
def mAck (e : Env) (oa nos afq : Nat) : Req :=
  { tid := 124, cot := cotFile, neg := false, ca := e.fca, oa := oa, obj := some (.ack e.fioa e.fnof nos afq) }

/-- task calls of one pass over a section -/
def passOps (conn now m : Nat) (sec : List Nat) : List Op :=
  List.replicate ((chunks m sec).length + 1) (Op.task conn now)

/-- what one pass puts on the wire: the segments, then LAST SEGMENT with the checksum of the section -/
def passOut (e : Env) (conn soa n m : Nat) (sec : List Nat) : List Out :=
  (chunks m sec).map (fun d => Out.send conn soa e.fca e.fioa e.fnof (.segment n d)) ++
    [Out.send conn soa e.fca e.fioa e.fnof (.lastSegment n (chk sec))]

/-- `k` negative section acknowledgements, each followed by a repeated pass -/
def nackOps (e : Env) (conn now oa n m : Nat) (sec : List Nat) : Nat → List Op
  | 0 => []
  | k + 1 => Op.asdu conn now (mAck e oa n 4) :: (passOps conn now m sec ++ nackOps e conn now oa n m sec k)

def nackOut (e : Env) (conn soa oa n m : Nat) (sec : List Nat) : Nat → List Out
  | 0 => []
  | k + 1 => Out.send conn oa e.fca e.fioa e.fnof (.sectionReady n sec.length) ::
      (passOut e conn soa n m sec ++ nackOut e conn soa oa n m sec k)

/-- facts that stay true during a download on connection `conn` at (virtual) time `now` -/
structure Sel (e : Env) (s : Srv) (conn now m soa : Nat) : Prop where
  sel : s.selected = true
  con : s.selConn = some conn
  ca : s.ca = e.fca
  ioa : s.ioa = e.fioa
  nof : s.nof = e.fnof
  seg : 0 < m
  hm : s.maxSeg = m
  hoa : s.oa = soa
  last : s.lastSend = now

/-- a complete pass of section number `n` has been sent, the server waits for its acknowledgement -/
structure AfterPass (e : Env) (s : Srv) (n : Nat) (sec : List Nat) : Prop where
  st : s.st = .waitSectionAck
  no : s.secNo = n
  pos : 1 ≤ n
  data : e.file[n - 1]? = some sec
  size : s.secSize = sec.length
  off : s.secOff = sec.length
  chk : s.secChk = chk sec

theorem pass_run (e : Env) (s : Srv) (conn now m soa n : Nat) (sec : List Nat)
    (hs : Sel e s conn now m soa) (hst : s.st = .transmit) (hno : s.secNo = n) (hpos : 1 ≤ n)
    (hdata : e.file[n - 1]? = some sec) (hsize : s.secSize = sec.length) (hoff : s.secOff = 0) (hchk : s.secChk = 0) :
    ∃ s', run e s (passOps conn now m sec) = (s', passOut e conn soa n m sec) ∧
      Sel e s' conn now m soa ∧ AfterPass e s' n sec ∧ s'.fileChk = s.fileChk := by
  have hm := hs.hm
  subst hm
  have hp : Pumping e s conn sec :=
    { st := hst, sel := hs.sel, con := hs.con, size := hsize, off := by omega, pos := by omega,
      data := by rw [hno]; exact hdata, seg := hs.seg, chkRange := by omega }
  have h := pump e conn now sec sec.length s hp (by omega)
  simp only [hoff, List.drop_zero, hchk, Nat.zero_add] at h
  have hc : chk sec % 256 = chk sec := Nat.mod_eq_of_lt (chk_lt sec)
  rw [hc] at h
  refine ⟨{ s with secOff := sec.length, lastSend := now, st := .waitSectionAck, secChk := chk sec }, ?_, ?_, ?_, ?_⟩
  · unfold passOps passOut chunks
    rw [h]
    simp [Srv.send, hs.ca, hs.ioa, hs.nof, hs.hoa, hno]
  · exact { sel := hs.sel, con := hs.con, ca := hs.ca, ioa := hs.ioa, nof := hs.nof, seg := hs.seg, hm := rfl,
            hoa := hs.hoa, last := rfl }
  · exact { st := rfl, no := hno, pos := hpos, data := hdata, size := hsize, off := rfl, chk := rfl }
  · rfl

end Iec.FileSrv

namespace Iec.FileSrv

theorem no_expiry (s : Srv) (now : Nat) (h : s.lastSend = now) : s.expire now = s := by
  unfold Srv.expire
  have : ¬ (now > s.lastSend + s.timeout) := by omega
  simp [this]

/-- negative section acknowledgement: SECTION READY again, the section restarts with cleared offset and checksum -/
theorem nack_step (e : Env) (s : Srv) (conn now m soa oa n : Nat) (sec : List Nat)
    (hs : Sel e s conn now m soa) (ap : AfterPass e s n sec) :
    ∃ s1, step e s (.asdu conn now (mAck e oa n 4)) = (s1, [Out.send conn oa e.fca e.fioa e.fnof (.sectionReady n sec.length)]) ∧
      Sel e s1 conn now m soa ∧ s1.st = .transmit ∧ s1.secNo = n ∧ s1.secSize = sec.length ∧ s1.secOff = 0 ∧
      s1.secChk = 0 ∧ s1.fileChk = s.fileChk := by
  refine ⟨{ s with secOff := 0, secChk := 0, lastSend := now, st := .transmit }, ?_, ?_, rfl, ap.no, ap.size, rfl, rfl, rfl⟩
  · simp [step, handleAsdu, mAck, no_expiry s now hs.last, onAck, ap.st, Srv.send, hs.ca, hs.ioa, hs.nof, ap.no, ap.size]
  · exact { sel := hs.sel, con := hs.con, ca := hs.ca, ioa := hs.ioa, nof := hs.nof, seg := hs.seg, hm := hs.hm,
            hoa := hs.hoa, last := rfl }

/-- any number of negative acknowledgements: the section is sent again each time, checksum unaffected -/
theorem nacks_run (e : Env) (conn now m soa oa n : Nat) (sec : List Nat) : ∀ (k : Nat) (s : Srv),
    Sel e s conn now m soa → AfterPass e s n sec →
    ∃ s', run e s (nackOps e conn now oa n m sec k) = (s', nackOut e conn soa oa n m sec k) ∧
      Sel e s' conn now m soa ∧ AfterPass e s' n sec ∧ s'.fileChk = s.fileChk := by
  intro k
  induction k with
  | zero => intro s hs ap; exact ⟨s, rfl, hs, ap, rfl⟩
  | succ k ih =>
    intro s hs ap
    obtain ⟨s1, h1, hs1, hst1, hno1, hsz1, hoff1, hchk1, hf1⟩ := nack_step e s conn now m soa oa n sec hs ap
    obtain ⟨s2, h2, hs2, ap2, hf2⟩ := pass_run e s1 conn now m soa n sec hs1 hst1 hno1 ap.pos ap.data hsz1 hoff1 hchk1
    obtain ⟨s3, h3, hs3, ap3, hf3⟩ := ih s2 hs2 ap2
    refine ⟨s3, ?_, hs3, ap3, by rw [hf3, hf2, hf1]⟩
    simp only [nackOps, nackOut]
    rw [run_cons, h1, run_append, h2, h3]
    simp

end Iec.FileSrv

namespace Iec.FileSrv

/-- the server announced section `n` (SECTION READY sent) and waits for its call -/
structure Announced (e : Env) (s : Srv) (n : Nat) (sec : List Nat) : Prop where
  st : s.st = .waitSectionCall
  no : s.secNo = n
  pos : 1 ≤ n
  data : e.file[n - 1]? = some sec
  ne : sec ≠ []
  chk0 : s.secChk = 0

/-- CALL SECTION for the announced section: the pump starts, nothing is sent yet -/
theorem call_step (e : Env) (s : Srv) (conn now m soa oa n : Nat) (sec : List Nat)
    (hs : Sel e s conn now m soa) (an : Announced e s n sec) :
    ∃ s1, step e s (.asdu conn now (mCallSection e oa n)) = (s1, []) ∧
      Sel e s1 conn now m soa ∧ s1.st = .transmit ∧ s1.secNo = n ∧ s1.secSize = sec.length ∧ s1.secOff = 0 ∧
      s1.secChk = 0 ∧ s1.fileChk = s.fileChk := by
  have hsz := sectionSize_eq e.file n sec an.pos an.data
  have hpos : 0 < sec.length := List.length_pos_iff.mpr an.ne
  refine ⟨{ s with secSize := sec.length, secNo := n, secOff := 0, st := .transmit }, ?_, ?_, rfl, rfl, rfl, rfl, an.chk0, rfl⟩
  · simp [step, handleAsdu, mCallSection, no_expiry s now hs.last, onCallSel, an.st, cotFile, hs.ca, hs.ioa, an.no, hsz, hpos]
  · exact { sel := hs.sel, con := hs.con, ca := hs.ca, ioa := hs.ioa, nof := hs.nof, seg := hs.seg, hm := hs.hm,
            hoa := hs.hoa, last := hs.last }

/-- positive section acknowledgement, another section follows: its checksum enters the file checksum once,
the next section is announced -/
theorem ack_next_step (e : Env) (s : Srv) (conn now m soa oa n : Nat) (sec nx : List Nat)
    (hs : Sel e s conn now m soa) (ap : AfterPass e s n sec) (hn : n + 1 < 256)
    (hnx : e.file[n]? = some nx) (hne : nx ≠ []) :
    ∃ s1, step e s (.asdu conn now (mAck e oa n 3)) =
        (s1, [Out.send conn oa e.fca e.fioa e.fnof (.sectionReady (n + 1) nx.length)]) ∧
      Sel e s1 conn now m soa ∧ Announced e s1 (n + 1) nx ∧ s1.fileChk = (s.fileChk + chk sec) % 256 := by
  have hsz : sectionSize e.file (n : Int) = nx.length := by
    have := sectionSize_eq e.file (n + 1) nx (by omega) (by simpa using hnx)
    simpa using this
  have hpos : 0 < nx.length := List.length_pos_iff.mpr hne
  have hmod : (n + 1) % 256 = n + 1 := Nat.mod_eq_of_lt hn
  refine ⟨{ s with fileChk := (s.fileChk + chk sec) % 256, secNo := n + 1, secOff := 0, secSize := nx.length,
                   lastSend := now, st := .waitSectionCall, secChk := 0 }, ?_, ?_, ?_, rfl⟩
  · have hz : ¬ (nx.length = 0) := by omega
    simp [step, handleAsdu, mAck, no_expiry s now hs.last, onAck, ap.st, ap.no, ap.chk, hmod, hsz, hz, Srv.send,
      hs.ca, hs.ioa, hs.nof]
  · exact { sel := hs.sel, con := hs.con, ca := hs.ca, ioa := hs.ioa, nof := hs.nof, seg := hs.seg, hm := hs.hm,
            hoa := hs.hoa, last := rfl }
  · exact { st := rfl, no := rfl, pos := by omega, data := by simpa using hnx, ne := hne, chk0 := rfl }

/-- positive acknowledgement of the last section: LAST SECTION with the file checksum -/
theorem ack_last_step (e : Env) (s : Srv) (conn now m soa oa n : Nat) (sec : List Nat)
    (hs : Sel e s conn now m soa) (ap : AfterPass e s n sec) (hn : n + 1 < 256) (hnx : e.file[n]? = none) :
    ∃ s1, step e s (.asdu conn now (mAck e oa n 3)) =
        (s1, [Out.send conn oa e.fca e.fioa e.fnof (.lastSection (n + 1) ((s.fileChk + chk sec) % 256))]) ∧
      Sel e s1 conn now m soa ∧ s1.st = .waitFileAck ∧ s1.fileChk = (s.fileChk + chk sec) % 256 := by
  have hsz : sectionSize e.file (n : Int) = 0 := by
    have := sectionSize_none e.file (n + 1) (by omega) (by simpa using hnx)
    simpa using this
  have hmod : (n + 1) % 256 = n + 1 := Nat.mod_eq_of_lt hn
  refine ⟨{ s with fileChk := (s.fileChk + chk sec) % 256, secNo := n + 1, secOff := 0,
                   lastSend := now, st := .waitFileAck, secChk := 0 }, ?_, ?_, rfl, rfl⟩
  · simp [step, handleAsdu, mAck, no_expiry s now hs.last, onAck, ap.st, ap.no, ap.chk, hmod, hsz, Srv.send,
      hs.ca, hs.ioa, hs.nof]
  · exact { sel := hs.sel, con := hs.con, ca := hs.ca, ioa := hs.ioa, nof := hs.nof, seg := hs.seg, hm := hs.hm,
            hoa := hs.hoa, last := rfl }

end Iec.FileSrv

namespace Iec.FileSrv

/-- the master's requests for the sections `rest` (each with its number of negative acknowledgements),
the first of which has number `n` -/
def secOps (e : Env) (conn now oa m : Nat) : Nat → List (List Nat × Nat) → List Op
  | _, [] => []
  | n, (sec, k) :: rest =>
    Op.asdu conn now (mCallSection e oa n) :: (passOps conn now m sec ++ (nackOps e conn now oa n m sec k ++
      (Op.asdu conn now (mAck e oa n 3) :: secOps e conn now oa m (n + 1) rest)))

/-- what the server sends in reply; `c` is the file checksum before section `n` -/
def secOut (e : Env) (conn soa oa m : Nat) : Nat → Nat → List (List Nat × Nat) → List Out
  | _, _, [] => []
  | n, c, (sec, k) :: rest =>
    passOut e conn soa n m sec ++ (nackOut e conn soa oa n m sec k ++
      ((match rest with
        | [] => Out.send conn oa e.fca e.fioa e.fnof (.lastSection (n + 1) ((c + chk sec) % 256))
        | (nx, _) :: _ => Out.send conn oa e.fca e.fioa e.fnof (.sectionReady (n + 1) nx.length)) ::
       secOut e conn soa oa m (n + 1) ((c + chk sec) % 256) rest))

theorem secOps_cons (e : Env) (conn now oa m n : Nat) (sec : List Nat) (k : Nat) (rest : List (List Nat × Nat)) :
    secOps e conn now oa m n ((sec, k) :: rest) =
      Op.asdu conn now (mCallSection e oa n) :: (passOps conn now m sec ++ (nackOps e conn now oa n m sec k ++
        (Op.asdu conn now (mAck e oa n 3) :: secOps e conn now oa m (n + 1) rest))) := rfl

theorem secOut_cons (e : Env) (conn soa oa m n c : Nat) (sec : List Nat) (k : Nat) (rest : List (List Nat × Nat)) :
    secOut e conn soa oa m n c ((sec, k) :: rest) =
      passOut e conn soa n m sec ++ (nackOut e conn soa oa n m sec k ++
        ((match rest with
          | [] => Out.send conn oa e.fca e.fioa e.fnof (.lastSection (n + 1) ((c + chk sec) % 256))
          | (nx, _) :: _ => Out.send conn oa e.fca e.fioa e.fnof (.sectionReady (n + 1) nx.length)) ::
         secOut e conn soa oa m (n + 1) ((c + chk sec) % 256) rest)) := rfl

theorem drop_head {α} (l : List α) (k : Nat) (x : α) (xs : List α) (h : l.drop k = x :: xs) :
    l[k]? = some x ∧ l.drop (k + 1) = xs := by
  constructor
  · have := List.getElem?_drop (xs := l) (i := k) (j := 0)
    rw [h] at this; simpa using this.symm
  · have := congrArg List.tail h
    simpa [List.tail_drop] using this

theorem sections_run (e : Env) (conn now m soa oa : Nat) : ∀ (rest : List (List Nat × Nat)) (n : Nat) (s : Srv)
    (sec : List Nat) (k : Nat) (tl : List (List Nat × Nat)), rest = (sec, k) :: tl →
    Sel e s conn now m soa → Announced e s n sec →
    e.file.drop (n - 1) = rest.map Prod.fst → (∀ p ∈ rest, p.1 ≠ []) → n + rest.length ≤ 255 →
    ∃ s', run e s (secOps e conn now oa m n rest) = (s', secOut e conn soa oa m n s.fileChk rest) ∧
      Sel e s' conn now m soa ∧ s'.st = .waitFileAck := by
  intro rest
  induction rest with
  | nil => intro n s sec k tl h; cases h
  | cons p tl0 ih =>
    intro n s sec k tl hr hs an hfile hne hlen
    cases hr
    have hn1 : 1 ≤ n := an.pos
    simp only [List.map_cons, List.length_cons] at hfile hlen
    obtain ⟨_, hdrop⟩ := drop_head e.file (n - 1) sec (tl0.map Prod.fst) hfile
    have hnn : n - 1 + 1 = n := by omega
    rw [hnn] at hdrop
    -- CALL SECTION, first pass, negative acknowledgements with repeated passes
    obtain ⟨s1, h1, hs1, hst1, hno1, hsz1, hoff1, hchk1, hf1⟩ := call_step e s conn now m soa oa n sec hs an
    obtain ⟨s2, h2, hs2, ap2, hf2⟩ := pass_run e s1 conn now m soa n sec hs1 hst1 hno1 an.pos an.data hsz1 hoff1 hchk1
    obtain ⟨s3, h3, hs3, ap3, hf3⟩ := nacks_run e conn now m soa oa n sec k s2 hs2 ap2
    have hfc : s3.fileChk = s.fileChk := by rw [hf3, hf2, hf1]
    cases tl0 with
    | nil =>
      have hnone : e.file[n]? = none := by
        have : e.file.drop n = [] := by simpa using hdrop
        have hl := List.drop_eq_nil_iff.mp this
        exact List.getElem?_eq_none hl
      obtain ⟨s4, h4, hs4, hst4, _⟩ := ack_last_step e s3 conn now m soa oa n sec hs3 ap3 (by omega) hnone
      refine ⟨s4, ?_, hs4, hst4⟩
      rw [secOps_cons, secOut_cons, run_cons, h1]; dsimp only
      rw [run_append, h2]; dsimp only
      rw [run_append, h3]; dsimp only
      rw [run_cons, h4]; dsimp only
      rw [hfc]
      simp [secOps, secOut, run]
    | cons q tl' =>
      obtain ⟨nx, k'⟩ := q
      simp only [List.map_cons] at hdrop
      obtain ⟨hnx, _⟩ := drop_head e.file n nx (tl'.map Prod.fst) hdrop
      have hnxne : nx ≠ [] := hne (nx, k') (by simp)
      obtain ⟨s4, h4, hs4, an4, hf4⟩ := ack_next_step e s3 conn now m soa oa n sec nx hs3 ap3 (by simp at hlen; omega) hnx hnxne
      obtain ⟨s5, h5, hs5, hst5⟩ := ih (n + 1) s4 nx k' tl' rfl hs4 an4 (by simpa using hdrop)
        (fun p hp => hne p (List.mem_cons_of_mem _ hp)) (by simp at hlen ⊢; omega)
      refine ⟨s5, ?_, hs5, hst5⟩
      rw [secOps_cons, secOut_cons, run_cons, h1]; dsimp only
      rw [run_append, h2]; dsimp only
      rw [run_append, h3]; dsimp only
      rw [run_cons, h4]; dsimp only
      rw [h5, hf4, hfc]
      simp

end Iec.FileSrv

namespace Iec.FileSrv

/-! ### the whole download -/

/-- a procedure-following master fetching the offered file; `plan` = the sections of the file, each with
the number of negative acknowledgements the master answers before it accepts the section -/
def downloadOps (e : Env) (conn now oa m : Nat) (plan : List (List Nat × Nat)) : List Op :=
  Op.asdu conn now (mSelect e oa) :: Op.asdu conn now (mCallFile e oa) ::
    (secOps e conn now oa m 1 plan ++ [Op.asdu conn now (mAck e oa plan.length 1)])

/-- everything the server does in reply, in order -/
def downloadOut (e : Env) (conn soa oa m : Nat) (plan : List (List Nat × Nat)) : List Out :=
  Out.getFile e.fca e.fioa e.fnof :: Out.send conn oa e.fca e.fioa e.fnof (.fileReady (fileSize e.file) true) ::
    Out.send conn oa e.fca e.fioa e.fnof (.sectionReady 1 ((plan.map Prod.fst).headD []).length) ::
      (secOut e conn soa oa m 1 0 plan ++ [Out.complete true])

theorem select_step (e : Env) (s : Srv) (conn now oa : Nat) (hf : e.hasFiles = true) (hst : s.st = .idle) :
    step e s (.asdu conn now (mSelect e oa)) =
      ({ s with selected := true, selConn := some conn, ioa := e.fioa, ca := e.fca, nof := e.fnof, lastSend := now,
                st := .waitFileCall },
       [Out.getFile e.fca e.fioa e.fnof, Out.send conn oa e.fca e.fioa e.fnof (.fileReady (fileSize e.file) true)]) := by
  have hex : s.expire now = s := by simp [Srv.expire, hst]
  simp [step, handleAsdu, mSelect, hex, onCallSel, cotFile, hst, Env.getFile, hf, Srv.send]

theorem download_run (e : Env) (s0 : Srv) (conn now oa : Nat) (sec : List Nat) (k : Nat) (tl : List (List Nat × Nat))
    (hf : e.hasFiles = true) (hfile : ((sec, k) :: tl).map Prod.fst = e.file) (hne : ∀ p ∈ (sec, k) :: tl, p.1 ≠ [])
    (hlen : tl.length + 1 ≤ 254) (hst : s0.st = .idle) (hseg : 0 < s0.maxSeg) :
    ∃ s', run e s0 (downloadOps e conn now oa s0.maxSeg ((sec, k) :: tl)) =
        (s', downloadOut e conn s0.oa oa s0.maxSeg ((sec, k) :: tl)) ∧ s'.st = .idle ∧ s'.selected = false := by
  have hsecne : sec ≠ [] := hne (sec, k) (by simp)
  have hf0 : e.file[0]? = some sec := by rw [← hfile]; simp
  have hsz0 : sectionSize e.file 0 = sec.length := by
    have := sectionSize_eq e.file 1 sec (by omega) (by simpa using hf0); simpa using this
  -- SELECT and CALL FILE
  let s1 : Srv := { s0 with selected := true, selConn := some conn, ioa := e.fioa, ca := e.fca, nof := e.fnof,
                            lastSend := now, st := .waitFileCall }
  let s2 : Srv := { s1 with secNo := 1, secOff := 0, secChk := 0, fileChk := 0, secSize := sec.length, lastSend := now,
                            st := .waitSectionCall }
  have h1 := select_step e s0 conn now oa hf hst
  have h2 : step e s1 (.asdu conn now (mCallFile e oa)) =
      (s2, [Out.send conn oa e.fca e.fioa e.fnof (.sectionReady 1 sec.length)]) := by
    have hex : s1.expire now = s1 := no_expiry s1 now rfl
    simp [step, handleAsdu, mCallFile, hex, onCallSel, cotFile, s1, s2, hsz0, Srv.send]
  have hs2 : Sel e s2 conn now s0.maxSeg s0.oa :=
    { sel := rfl, con := rfl, ca := rfl, ioa := rfl, nof := rfl, seg := hseg, hm := rfl, hoa := rfl, last := rfl }
  have an2 : Announced e s2 1 sec :=
    { st := rfl, no := rfl, pos := by omega, data := by simpa using hf0, ne := hsecne, chk0 := rfl }
  obtain ⟨s3, h3, hs3, hst3⟩ := sections_run e conn now s0.maxSeg s0.oa oa ((sec, k) :: tl) 1 s2 sec k tl rfl hs2 an2
    (by simpa using hfile.symm) hne (by simp; omega)
  -- positive file acknowledgement
  have h4 : step e s3 (.asdu conn now (mAck e oa (tl.length + 1) 1)) =
      ({ s3 with selected := false, selConn := none, st := .idle }, [Out.complete true]) := by
    simp [step, handleAsdu, mAck, no_expiry s3 now hs3.last, onAck, hst3, hs3.sel]
  refine ⟨{ s3 with selected := false, selConn := none, st := .idle }, ?_, rfl, rfl⟩
  unfold downloadOps downloadOut
  rw [run_cons, h1]; dsimp only
  rw [run_cons, h2]; dsimp only
  rw [run_append, h3]; dsimp only
  have hfc : s2.fileChk = 0 := rfl
  rw [hfc, List.length_cons, run_cons, h4]
  simp [run]

end Iec.FileSrv

namespace Iec.FileSrv

/-! ### what the master holds after following the procedure -/

/-- reassembly state of a procedure-following master: octets of the accepted sections, octets of the pass
in progress, number of the section in progress -/
structure Rx where
  done : List Nat
  cur : List Nat
  curNo : Nat
  deriving Repr, DecidableEq

/-- FILE READY (positive) starts a transfer.  SECTION READY for the section in progress = the pass is
repeated (its octets are discarded); for another section = the previous one is complete.  LAST SECTION
completes the last one. -/
def rxStep (r : Rx) : Out → Rx
  | .send _ _ _ _ _ (.fileReady _ true) => ⟨[], [], 0⟩
  | .send _ _ _ _ _ (.sectionReady n _) =>
    if n = r.curNo then { r with cur := [] } else { done := r.done ++ r.cur, cur := [], curNo := n }
  | .send _ _ _ _ _ (.segment _ d) => { r with cur := r.cur ++ d }
  | .send _ _ _ _ _ (.lastSection _ _) => { r with done := r.done ++ r.cur, cur := [] }
  | _ => r

def received (outs : List Out) : List Nat := (outs.foldl rxStep ⟨[], [], 0⟩).done

theorem rx_segments (conn soa ca ioa nof n : Nat) : ∀ (cs : List (List Nat)) (dn cur : List Nat) (no : Nat),
    (cs.map (fun d => Out.send conn soa ca ioa nof (.segment n d))).foldl rxStep ⟨dn, cur, no⟩ = ⟨dn, cur ++ cs.flatten, no⟩ := by
  intro cs
  induction cs with
  | nil => intro dn cur no; simp
  | cons c cs ih => intro dn cur no; simp [rxStep, ih, List.append_assoc]

theorem rx_pass (e : Env) (conn soa n m : Nat) (hm : 0 < m) (sec dn cur : List Nat) (no : Nat) :
    (passOut e conn soa n m sec).foldl rxStep ⟨dn, cur, no⟩ = ⟨dn, cur ++ sec, no⟩ := by
  unfold passOut
  rw [List.foldl_append, rx_segments, chunks_flatten m hm]
  simp [rxStep]

theorem rx_nacks (e : Env) (conn soa oa n m : Nat) (hm : 0 < m) (sec dn : List Nat) : ∀ (k : Nat),
    (nackOut e conn soa oa n m sec k).foldl rxStep ⟨dn, sec, n⟩ = ⟨dn, sec, n⟩ := by
  intro k
  induction k with
  | zero => rfl
  | succ k ih =>
    simp only [nackOut, List.foldl_cons, List.foldl_append, rxStep, if_true]
    rw [rx_pass e conn soa n m hm, List.nil_append]
    exact ih

theorem rx_sections (e : Env) (conn soa oa m : Nat) (hm : 0 < m) : ∀ (rest : List (List Nat × Nat)) (n c : Nat) (dn : List Nat),
    (secOut e conn soa oa m n c rest).foldl rxStep ⟨dn, [], n⟩ =
      (match rest with
       | [] => ⟨dn, [], n⟩
       | _ :: _ => ⟨dn ++ (rest.map Prod.fst).flatten, [], n + rest.length - 1⟩) := by
  intro rest
  induction rest with
  | nil => intro n c dn; rfl
  | cons p tl ih =>
    intro n c dn
    obtain ⟨sec, k⟩ := p
    rw [secOut_cons, List.foldl_append, rx_pass e conn soa n m hm, List.foldl_append, List.nil_append,
      rx_nacks e conn soa oa n m hm sec dn k, List.foldl_cons]
    cases tl with
    | nil =>
      simp [rxStep, secOut]
    | cons q tl' =>
      obtain ⟨nx, k'⟩ := q
      have hne : ¬ (n + 1 = n) := by omega
      simp only [rxStep, hne, if_false]
      rw [ih (n + 1)]
      simp [List.append_assoc]
      omega

end Iec.FileSrv

namespace Iec.FileSrv

theorem received_download (e : Env) (conn soa oa m : Nat) (hm : 0 < m) (p : List Nat × Nat) (tl : List (List Nat × Nat))
    (hfile : (p :: tl).map Prod.fst = e.file) :
    received (downloadOut e conn soa oa m (p :: tl)) = e.file.flatten := by
  unfold received downloadOut
  simp only [List.foldl_cons, List.foldl_append, rxStep]
  have h10 : ¬ ((1 : Nat) = 0) := by omega
  simp only [h10, if_false, List.append_nil]
  rw [rx_sections e conn soa oa m hm (p :: tl) 1 0 []]
  simp [rxStep, hfile]

/-! segments never exceed the segment size; checksums are the sums of the octets -/

theorem passOut_mem (e : Env) (conn soa n m : Nat) (sec : List Nat) (o : Out) (ho : o ∈ passOut e conn soa n m sec) :
    (∃ d, o = Out.send conn soa e.fca e.fioa e.fnof (.segment n d) ∧ d.length ≤ m) ∨
    o = Out.send conn soa e.fca e.fioa e.fnof (.lastSegment n (chk sec)) := by
  unfold passOut at ho
  rcases List.mem_append.mp ho with h | h
  · obtain ⟨d, hd, rfl⟩ := List.mem_map.mp h
    exact Or.inl ⟨d, rfl, chunks_bound m sec d hd⟩
  · simp at h; exact Or.inr h

theorem nackOut_mem (e : Env) (conn soa oa n m : Nat) (sec : List Nat) : ∀ (k : Nat) (o : Out),
    o ∈ nackOut e conn soa oa n m sec k →
    (∃ d, o = Out.send conn soa e.fca e.fioa e.fnof (.segment n d) ∧ d.length ≤ m) ∨
    o = Out.send conn soa e.fca e.fioa e.fnof (.lastSegment n (chk sec)) ∨
    o = Out.send conn oa e.fca e.fioa e.fnof (.sectionReady n sec.length) := by
  intro k
  induction k with
  | zero => intro o ho; simp [nackOut] at ho
  | succ k ih =>
    intro o ho
    simp only [nackOut, List.mem_cons, List.mem_append] at ho
    rcases ho with h | h | h
    · exact Or.inr (Or.inr h)
    · rcases passOut_mem e conn soa n m sec o h with h' | h'
      · exact Or.inl h'
      · exact Or.inr (Or.inl h')
    · exact ih o h

/-- every message of the section phase: a segment of at most `m` octets, a LAST SEGMENT carrying the sum
of the octets of its section, a SECTION READY with the true section length, or LAST SECTION -/
theorem secOut_mem (e : Env) (conn soa oa m : Nat) : ∀ (rest : List (List Nat × Nat)) (n c : Nat) (o : Out),
    o ∈ secOut e conn soa oa m n c rest →
    (∃ j d, o = Out.send conn soa e.fca e.fioa e.fnof (.segment j d) ∧ d.length ≤ m) ∨
    (∃ i, ∃ h : i < rest.length, o = Out.send conn soa e.fca e.fioa e.fnof (.lastSegment (n + i) (chk rest[i].1))) ∨
    (∃ i, ∃ h : i < rest.length, o = Out.send conn oa e.fca e.fioa e.fnof (.sectionReady (n + i) rest[i].1.length)) ∨
    (∃ j c', o = Out.send conn oa e.fca e.fioa e.fnof (.lastSection j c')) := by
  intro rest
  induction rest with
  | nil => intro n c o ho; simp [secOut] at ho
  | cons p tl ih =>
    intro n c o ho
    obtain ⟨sec, k⟩ := p
    rw [secOut_cons] at ho
    simp only [List.mem_append, List.mem_cons] at ho
    rcases ho with h | h | h | h
    · rcases passOut_mem e conn soa n m sec o h with ⟨d, hd, hl⟩ | h'
      · exact Or.inl ⟨n, d, hd, hl⟩
      · exact Or.inr (Or.inl ⟨0, by simp, by simpa using h'⟩)
    · rcases nackOut_mem e conn soa oa n m sec k o h with ⟨d, hd, hl⟩ | h' | h'
      · exact Or.inl ⟨n, d, hd, hl⟩
      · exact Or.inr (Or.inl ⟨0, by simp, by simpa using h'⟩)
      · exact Or.inr (Or.inr (Or.inl ⟨0, by simp, by simpa using h'⟩))
    · cases tl with
      | nil => exact Or.inr (Or.inr (Or.inr ⟨_, _, h⟩))
      | cons q tl' =>
        obtain ⟨nx, k'⟩ := q
        exact Or.inr (Or.inr (Or.inl ⟨1, by simp, by simpa using h⟩))
    · rcases ih (n + 1) _ o h with ⟨j, d, hd, hl⟩ | ⟨i, hi, h'⟩ | ⟨i, hi, h'⟩ | h'
      · exact Or.inl ⟨j, d, hd, hl⟩
      · exact Or.inr (Or.inl ⟨i + 1, by simp; omega, by simpa [Nat.add_assoc, Nat.add_comm 1 i] using h'⟩)
      · exact Or.inr (Or.inr (Or.inl ⟨i + 1, by simp; omega, by simpa [Nat.add_assoc, Nat.add_comm 1 i] using h'⟩))
      · exact Or.inr (Or.inr (Or.inr h'))

/-- the section phase ends with LAST SECTION carrying the sum of all octets (on top of `c`) -/
theorem secOut_last (e : Env) (conn soa oa m : Nat) : ∀ (rest : List (List Nat × Nat)) (n c : Nat), rest ≠ [] → c < 256 →
    ∃ pre, secOut e conn soa oa m n c rest = pre ++
      [Out.send conn oa e.fca e.fioa e.fnof (.lastSection (n + rest.length) ((c + chk (rest.map Prod.fst).flatten) % 256))] := by
  intro rest
  induction rest with
  | nil => intro n c h; exact absurd rfl h
  | cons p tl ih =>
    intro n c _ hc
    obtain ⟨sec, k⟩ := p
    rw [secOut_cons]
    cases tl with
    | nil =>
      refine ⟨passOut e conn soa n m sec ++ nackOut e conn soa oa n m sec k, ?_⟩
      simp [secOut]
    | cons q tl' =>
      obtain ⟨pre, hpre⟩ := ih (n + 1) ((c + chk sec) % 256) (by simp) (by omega)
      obtain ⟨nx, k'⟩ := q
      refine ⟨passOut e conn soa n m sec ++ (nackOut e conn soa oa n m sec k ++
        (Out.send conn oa e.fca e.fioa e.fnof (.sectionReady (n + 1) nx.length) :: pre)), ?_⟩
      rw [hpre]
      have h1 := chk_append sec (nx ++ (tl'.map Prod.fst).flatten)
      have e1 : n + 1 + ((nx, k') :: tl').length = n + ((sec, k) :: (nx, k') :: tl').length := by simp; omega
      have e2 : ((c + chk sec) % 256 + chk (List.map Prod.fst ((nx, k') :: tl')).flatten) % 256 =
          (c + chk (List.map Prod.fst ((sec, k) :: (nx, k') :: tl')).flatten) % 256 := by
        simp only [List.map_cons, List.flatten_cons]
        rw [h1]; omega
      rw [e1, e2]
      simp [List.append_assoc]

end Iec.FileSrv
