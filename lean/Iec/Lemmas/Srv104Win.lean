/-
The k-window of every connection over every operation of the server model: the number of outstanding I-format APDUs never
exceeds k, and on every running connection the k-buffer holds exactly the consecutive acknowledgement numbers that end at
V(S) (`WinInv`) - the hypothesis of `C04.checkSeq_spec` - in every reachable state.  Frame lemmas (relation `WKeep`) for
every function of `Iec.Srv104`; the only places that touch (V(S), k-buffer) are `sendI` (guarded by `isFull` at every call
site), `checkSeqConn` (release), `phaseT1` (time stamp of the oldest entry) and `initConn` (fresh connection).
-/
import Iec.Lemmas.Srv104OneStarted
import Iec.Lemmas.KWindow
namespace Iec.Srv104
open Iec.KWindow Iec.Queues

/-- the window of a connection is within k and, while the connection runs, consecutive up to V(S) -/
def Good (k : Nat) (c : Conn) : Prop :=
  c.win.length ≤ k ∧ (c.isRunning = true → ∃ base, WinInv c.vs c.win base c.win.length)

/-- `maxSentASDUs` is kept, no slot becomes used, and a good window of a connection created with this k stays good -/
def CW (k : Nat) (c c' : Conn) : Prop :=
  c'.maxSent = c.maxSent ∧ (c'.isUsed = true → c.isUsed = true) ∧ (c.maxSent = k → Good k c → Good k c')

theorem CW.refl (k : Nat) (c : Conn) : CW k c c := ⟨rfl, id, fun _ h => h⟩
theorem CW.trans {k : Nat} {a b c : Conn} (h1 : CW k a b) (h2 : CW k b c) : CW k a c :=
  ⟨h2.1.trans h1.1, fun h => h1.2.1 (h2.2.1 h), fun hm hg => h2.2.2 (h1.1.trans hm) (h1.2.2 hm hg)⟩

def WKeep (k : Nat) (s s' : Slave) : Prop :=
  s'.p = s.p ∧ s'.conns.length = s.conns.length ∧ ∀ j, CW k (s.conn j) (s'.conn j)

theorem WKeep.refl (k : Nat) (s : Slave) : WKeep k s s := ⟨rfl, rfl, fun _ => CW.refl k _⟩
theorem WKeep.trans {k : Nat} {a b c : Slave} (h1 : WKeep k a b) (h2 : WKeep k b c) : WKeep k a c :=
  ⟨h2.1.trans h1.1, h2.2.1.trans h1.2.1, fun j => CW.trans (h1.2.2 j) (h2.2.2 j)⟩

theorem w_of_conns {k : Nat} {s s' : Slave} (hp : s'.p = s.p) (hc : s'.conns = s.conns) : WKeep k s s' :=
  ⟨hp, by rw [hc], fun j => by unfold Slave.conn; rw [hc]; exact CW.refl k _⟩

theorem w_emit (k : Nat) (s : Slave) (o : Obs) : WKeep k s (emit s o) := w_of_conns rfl rfl
theorem w_setGrp (k : Nat) (s : Slave) (g : Nat) (x : Group) : WKeep k s (s.setGrp g x) := w_of_conns rfl rfl

theorem w_setConn (k : Nat) (s : Slave) (i : Nat) (c : Conn) (h : CW k (s.conn i) c) : WKeep k s (s.setConn i c) := by
  refine ⟨rfl, setConn_len _ _ _, fun j => ?_⟩
  by_cases hj : j = i
  · subst hj
    by_cases hl : j < s.conns.length
    · rw [conn_setConn _ _ _ hl]; exact h
    · have hs : s.conns.set j c = s.conns := List.set_eq_of_length_le (Nat.le_of_not_lt hl)
      have : (s.setConn j c).conn j = s.conn j := by unfold Slave.conn Slave.setConn; simp only [hs]
      rw [this]; exact CW.refl k _
  · rw [conn_setConn_ne _ _ _ _ hj]; exact CW.refl k _

/-- closes `CW k c { c with … }` goals for updates that leave (maxSent, win, vs) alone and do not set `isUsed` or
`isRunning` -/
macro "cw0" : tactic => `(tactic| first
  | exact CW.refl _ _
  | exact ⟨rfl, fun h => h, fun _ h => h⟩
  | exact ⟨rfl, fun h => h, fun _ h => ⟨h.1, fun hr => Bool.noConfusion hr⟩⟩
  | exact ⟨rfl, fun h => Bool.noConfusion h, fun _ h => h⟩)

theorem cw_after_set (k : Nat) (s : Slave) (i : Nat) (c c' : Conn) (h1 : CW k c c') (h2 : CW k (s.conn i) c') :
    CW k ((s.setConn i c).conn i) c' := by
  by_cases hl : i < s.conns.length
  · rw [conn_setConn _ _ _ hl]; exact h1
  · have hs : s.conns.set i c = s.conns := List.set_eq_of_length_le (Nat.le_of_not_lt hl)
    have : (s.setConn i c).conn i = s.conn i := by unfold Slave.conn Slave.setConn; simp only [hs]
    rw [this]; exact h2

macro "cw" : tactic => `(tactic| first
  | cw0
  | (apply cw_after_set <;> cw0))

theorem write_conns (s : Slave) (i : Nat) (b : List Nat) : (write s i b).1.conns = s.conns ∧ (write s i b).1.p = s.p ∧ (write s i b).1.now = s.now := by
  unfold write; simp only; split <;> exact ⟨rfl, rfl, rfl⟩

theorem w_write (k : Nat) (s : Slave) (i : Nat) (b : List Nat) : WKeep k s (write s i b).1 :=
  w_of_conns (write_conns s i b).2.1 (write_conns s i b).1

theorem w_sendS (k : Nat) (s : Slave) (i : Nat) : WKeep k s (sendS s i) := by
  unfold sendS
  simp only
  have hw := w_write k s i [0x68, 0x04, 0x01, 0, seqLo (s.conn i).vr, seqHi (s.conn i).vr]
  generalize write s i [0x68, 0x04, 0x01, 0, seqLo (s.conn i).vr, seqHi (s.conn i).vr] = r at hw
  obtain ⟨s1, ok⟩ := r
  simp only at hw ⊢
  split
  · exact hw
  · exact WKeep.trans hw (w_setConn _ _ _ _ (by cw))

theorem good_push_ok {k : Nat} (hk0 : 0 < k) (hk : k < 32767) (c : Conn) (hnf : isFull k c.win = false) (t : Nat) (q : Option (Nat × Nat))
    (u : Nat) (b : Bool) (h : Good k c) :
    Good k { c with vs := (c.vs + 1) % 32768, unconf := u, t2Triggered := b,
                    win := c.win ++ [{ seq := (c.vs + 1) % 32768, sentTime := t, qref := q }] } := by
  have hlen : (c.win ++ [({ seq := (c.vs + 1) % 32768, sentTime := t, qref := q } : KEntry)]).length ≤ k := by
    simp only [isFull, Bool.and_eq_false_iff, bne_eq_false_iff_eq, beq_eq_false_iff_ne] at hnf
    have := h.1
    simp only [List.length_append, List.length_cons, List.length_nil]
    rcases hnf with h' | h' <;> omega
  refine ⟨hlen, fun hr => ?_⟩
  obtain ⟨base, hb⟩ := h.2 hr
  refine ⟨base, ?_⟩
  have := winInv_push c.vs c.win base c.win.length hb (by simp only [List.length_append, List.length_cons, List.length_nil] at hlen; omega)
    { seq := (c.vs + 1) % 32768, sentTime := t, qref := q } rfl
  simpa only [List.length_append, List.length_cons, List.length_nil] using this

theorem good_push_fail {k : Nat} (hk0 : 0 < k) (c : Conn) (hnf : isFull k c.win = false) (e : KEntry) (u : Nat) (h : Good k c) :
    Good k { c with isRunning := false, unconf := u, win := c.win ++ [e] } := by
  refine ⟨?_, fun hr => Bool.noConfusion hr⟩
  simp only [isFull, Bool.and_eq_false_iff, bne_eq_false_iff_eq, beq_eq_false_iff_ne] at hnf
  have := h.1
  simp only [List.length_append, List.length_cons, List.length_nil]
  rcases hnf with h' | h' <;> omega

/-- **transmission**: guarded by `isSentBufferFull`, the push keeps the window good -/
theorem w_sendI {k : Nat} (hk0 : 0 < k) (hk : k < 32767) (s : Slave) (i : Nat) (a : List Nat) (q : Option (Nat × Nat))
    (hnf : isFull (s.conn i).maxSent (s.conn i).win = false) : WKeep k s (sendI s i a q) := by
  unfold sendI
  simp only
  have hc := (write_conns s i ([0x68, (a.length + 4) % 256, seqLo (s.conn i).vs, seqHi (s.conn i).vs, seqLo (s.conn i).vr, seqHi (s.conn i).vr] ++ a)).1
  have hw := w_write k s i ([0x68, (a.length + 4) % 256, seqLo (s.conn i).vs, seqHi (s.conn i).vs, seqLo (s.conn i).vr, seqHi (s.conn i).vr] ++ a)
  generalize write s i ([0x68, (a.length + 4) % 256, seqLo (s.conn i).vs, seqHi (s.conn i).vs, seqLo (s.conn i).vr, seqHi (s.conn i).vr] ++ a) = r at hw hc
  obtain ⟨s1, ok⟩ := r
  simp only at hw hc ⊢
  have hci : s1.conn i = s.conn i := by unfold Slave.conn; rw [hc]
  refine WKeep.trans hw (w_setConn _ _ _ _ ?_)
  rw [hci]
  cases ok
  · simp only [Bool.false_eq_true, if_false]
    exact ⟨rfl, fun h => h, fun hm hg => good_push_fail hk0 _ (hm ▸ hnf) _ _ hg⟩
  · simp only [if_true]
    exact ⟨rfl, fun h => h, fun hm hg => good_push_ok hk0 hk _ (hm ▸ hnf) _ _ _ _ hg⟩

theorem w_sendAsduInternal {k : Nat} (hk0 : 0 < k) (hk : k < 32767) (s : Slave) (i : Nat) (a : List Nat) :
    WKeep k s (sendAsduInternal s i a).1 := by
  unfold sendAsduInternal
  simp only
  split
  · split
    · rename_i h
      simp only [Bool.and_eq_true, Bool.not_eq_true'] at h
      exact w_sendI hk0 hk _ _ _ _ h.1
    · exact w_setGrp _ _ _ _
  · exact WKeep.refl _ _

theorem w_deactivate (k : Nat) (s : Slave) (i : Nat) : WKeep k s (deactivate s i) := by
  unfold deactivate
  simp only
  split
  · exact WKeep.trans (w_emit _ s _) (w_setConn _ _ _ _ (by cw))
  · exact w_setConn _ _ _ _ (by cw)

theorem w_confirmReleased (k : Nat) (rel : List KEntry) (s : Slave) (i : Nat) : WKeep k s (confirmReleased s i rel) := by
  have hf := confirmReleased_facts rel s i
  exact w_of_conns hf.2.2.1 hf.1

/-- the release loop leaves a suffix of the k-buffer -/
theorem releaseLoop_suffix (ovf : Bool) (ov nr : Nat) : ∀ win : List KEntry,
    ∃ d, d ≤ win.length ∧ (releaseLoop ovf ov nr win).1 = win.drop d := by
  intro win
  induction win with
  | nil => exact ⟨0, Nat.le_refl _, rfl⟩
  | cons e rest ih =>
    unfold releaseLoop
    split
    · exact ⟨0, Nat.zero_le _, rfl⟩
    · split
      · exact ⟨0, Nat.zero_le _, rfl⟩
      · split
        · exact ⟨1, by simp, rfl⟩
        · obtain ⟨d, hd, he⟩ := ih
          refine ⟨d + 1, by simp; omega, ?_⟩
          simp only [List.drop_succ_cons]
          exact he

theorem checkSeq_suffix (vs : Nat) (win : List KEntry) (nr : Nat) :
    ∃ d, d ≤ win.length ∧ (checkSeq vs win nr).2.1 = win.drop d := by
  unfold checkSeq
  split
  · exact releaseLoop_suffix _ _ _ _
  · exact ⟨0, Nat.zero_le _, rfl⟩

theorem good_suffix {k : Nat} (c : Conn) (d : Nat) (hd : d ≤ c.win.length) (h : Good k c) : Good k { c with win := c.win.drop d } := by
  refine ⟨by have := h.1; simp only [List.length_drop]; omega, fun hr => ?_⟩
  obtain ⟨base, hb⟩ := h.2 hr
  refine ⟨(base + d) % 32768, ?_⟩
  have := winInv_drop c.vs c.win base c.win.length d hb hd
  simpa only [List.length_drop] using this

theorem w_checkSeqConn (k : Nat) (s : Slave) (i : Nat) (nr : Nat) : WKeep k s (checkSeqConn s i nr).1 := by
  unfold checkSeqConn
  simp only
  obtain ⟨d, hd, he⟩ := checkSeq_suffix (s.conn i).vs (s.conn i).win nr
  generalize checkSeq (s.conn i).vs (s.conn i).win nr = r at he
  obtain ⟨ok, w, rel⟩ := r
  simp only at he ⊢
  subst he
  refine WKeep.trans (w_setConn _ _ _ _ ?_) (w_confirmReleased _ _ _ _)
  exact ⟨rfl, fun h => h, fun _ hg => good_suffix _ d hd hg⟩

theorem w_foldl {k : Nat} {α} (f : Slave → α → Slave) (hf : ∀ s a, WKeep k s (f s a)) : ∀ (l : List α) (s : Slave), WKeep k s (l.foldl f s) := by
  intro l
  induction l with
  | nil => intro s; exact WKeep.refl _ s
  | cons a l ih => intro s; exact WKeep.trans (hf s a) (ih _)

theorem w_appHandler {k : Nat} (hk0 : 0 < k) (hk : k < 32767) (s : Slave) (i : Nat) (a : List Nat) : WKeep k s (appHandler s i a) := by
  unfold appHandler
  simp only
  refine WKeep.trans (w_emit _ s _) (w_foldl _ ?_ _ _)
  intro t _
  exact WKeep.trans (w_sendAsduInternal hk0 hk t i a) (w_emit _ _ _)

theorem w_handleI {k : Nat} (hk0 : 0 < k) (hk : k < 32767) (s : Slave) (i : Nat) (buf : List Nat) : WKeep k s (handleI s i buf).1 := by
  unfold handleI
  extract_lets n c c1 s1 ns nr
  have h1 : WKeep k s s1 := w_setConn _ _ _ _ (by dsimp only [c1, c]; split <;> cw)
  split
  · exact WKeep.refl _ s
  · split
    · exact WKeep.refl _ s
    · split
      · exact h1
      · have h2 := w_checkSeqConn k s1 i nr
        generalize checkSeqConn s1 i nr = r at h2
        obtain ⟨s2, ok⟩ := r
        dsimp only at h2
        show WKeep k s (if (!ok) = true then (s2, false) else _).fst
        have h12 := WKeep.trans h1 h2
        split
        · exact h12
        · extract_lets c2 s3
          have h3 : WKeep k s2 s3 := w_setConn _ _ _ _ (by dsimp only [c2]; cw)
          split
          · split
            · exact WKeep.trans h12 h3
            · exact WKeep.trans h12 (WKeep.trans h3 (WKeep.trans (w_appHandler hk0 hk _ _ _) (w_setConn _ _ _ _ (by cw))))
          · exact WKeep.trans h12 h3

theorem w_receiveMessage (k : Nat) (s : Slave) (i : Nat) : WKeep k s (receiveMessage s i).1 := by
  unfold receiveMessage
  simp only
  exact w_setConn _ _ _ _ (by cw)

theorem w_ackIfW (k : Nat) (s : Slave) (i : Nat) : WKeep k s (ackIfW s i) := by
  unfold ackIfW
  simp only
  split
  · exact WKeep.trans (w_setConn _ _ _ _ (by cw)) (w_sendS _ _ _)
  · exact WKeep.refl _ s

theorem grp_conn (s : Slave) (g : Nat) (x : Group) (i : Nat) : (s.setGrp g x).conn i = s.conn i := rfl

theorem w_sendWaitingHigh {k : Nat} (hk0 : 0 < k) (hk : k < 32767) (i : Nat) : ∀ (fuel : Nat) (s : Slave), WKeep k s (sendWaitingHigh s i fuel).1 := by
  intro fuel
  induction fuel with
  | zero => intro s; exact WKeep.refl _ s
  | succ n ih =>
    intro s
    unfold sendWaitingHigh
    simp only
    split
    · split
      · exact WKeep.refl _ _
      · rename_i hnf
        have hnf' : isFull (s.conn i).maxSent (s.conn i).win = false := by simpa using hnf
        split
        · split
          · exact WKeep.trans (w_setGrp _ _ _ _) (w_sendI hk0 hk _ _ _ _ hnf')
          · exact WKeep.trans (WKeep.trans (w_setGrp _ _ _ _) (w_sendI hk0 hk _ _ _ _ hnf')) (ih _)
        · exact w_setGrp _ _ _ _
    · exact WKeep.refl _ _

theorem w_sendWaitingASDUs {k : Nat} (hk0 : 0 < k) (hk : k < 32767) (s : Slave) (i : Nat) : WKeep k s (sendWaitingASDUs s i) := by
  unfold sendWaitingASDUs
  have h1 := w_sendWaitingHigh hk0 hk i ((s.grp (s.gidx i)).highQ.count + 1) s
  generalize sendWaitingHigh s i ((s.grp (s.gidx i)).highQ.count + 1) = r at h1
  obtain ⟨s1, cont⟩ := r
  simp only at h1 ⊢
  split
  · exact h1
  · split
    · exact h1
    · rename_i hnf
      have hnf' : isFull (s1.conn i).maxSent (s1.conn i).win = false := by simpa using hnf
      split
      · exact WKeep.trans h1 (WKeep.trans (w_setGrp _ _ _ _) (w_sendI hk0 hk _ _ _ _ hnf'))
      · exact WKeep.trans h1 (w_setGrp _ _ _ _)

/-- peel the outermost state transformer off a `WKeep k s (F …)` goal (syntactic match only) -/
macro "w_step" : tactic => `(tactic| first
  | with_reducible exact WKeep.refl _ _
  | ((with_reducible refine WKeep.trans ?_ (w_setConn _ _ _ _ ?_)) <;> (try cw))
  | with_reducible refine WKeep.trans ?_ (w_emit _ _ _)
  | with_reducible refine WKeep.trans ?_ (w_setGrp _ _ _ _)
  | with_reducible refine WKeep.trans ?_ (w_write _ _ _ _)
  | with_reducible refine WKeep.trans ?_ (w_sendS _ _ _)
  | with_reducible refine WKeep.trans ?_ (w_deactivate _ _ _)
  | with_reducible refine WKeep.trans ?_ (w_checkSeqConn _ _ _ _))

macro "w_auto" : tactic => `(tactic| repeat' (first
  | (with_reducible exact WKeep.refl _ _)
  | cw
  | split
  | extract_lets
  | w_step
  | (dsimp (config := { zetaDelta := true, zeta := false }) only)))

theorem w_phaseT3 (k : Nat) (s : Slave) (i : Nat) : WKeep k s (phaseT3 s i) := by
  unfold phaseT3
  try simp (config := { zeta := false }) only []
  w_auto

theorem w_phaseTestFR (k : Nat) (s : Slave) (i : Nat) : WKeep k s (phaseTestFR s i).1 := by
  unfold phaseTestFR
  try simp (config := { zeta := false }) only []
  w_auto

theorem w_phaseT2 (k : Nat) (s : Slave) (i : Nat) : WKeep k s (phaseT2 s i) := by
  unfold phaseT2
  try simp (config := { zeta := false }) only []
  w_auto

theorem good_head {k : Nat} (c : Conn) (e e' : KEntry) (rest : List KEntry) (hw : c.win = e :: rest) (hs : e'.seq = e.seq)
    (h : Good k c) : Good k { c with win := e' :: rest } := by
  obtain ⟨h1, h2⟩ := h
  rw [hw] at h1 h2
  refine ⟨h1, fun hr => ?_⟩
  obtain ⟨base, hb, hl, hm, hv⟩ := h2 hr
  exact ⟨base, hb, hl, by simpa only [List.map_cons, hs, List.length_cons] using hm, hv⟩

theorem w_phaseT1 (k : Nat) (s : Slave) (i : Nat) (ok : Bool) : WKeep k s (phaseT1 s i ok).1 := by
  unfold phaseT1
  simp only
  split
  · exact WKeep.refl _ s
  · rename_i e rest hw
    have key : ∀ e' : KEntry, e'.seq = e.seq → WKeep k s (s.setConn i { s.conn i with win := e' :: rest }) := fun e' he =>
      w_setConn _ _ _ _ ⟨rfl, fun h => h, fun _ hg => good_head _ e e' rest hw he hg⟩
    repeat' split
    all_goals exact key _ rfl

theorem w_handleTimeouts (k : Nat) (s : Slave) (i : Nat) : WKeep k s (handleTimeouts s i).1 := by
  unfold handleTimeouts
  try simp (config := { zeta := false }) only []
  exact WKeep.trans (w_phaseT3 k s i) (WKeep.trans (w_phaseTestFR k _ i) (WKeep.trans (w_phaseT2 k _ i) (w_phaseT1 k _ i _)))

theorem w_periodic {k : Nat} (hk0 : 0 < k) (hk : k < 32767) (s : Slave) (i : Nat) : WKeep k s (periodic s i) := by
  unfold periodic
  have h1 : WKeep k s (if (s.conn i).state = 1 then sendWaitingASDUs s i else s) := by
    split
    · exact w_sendWaitingASDUs hk0 hk s i
    · exact WKeep.refl _ s
  extract_lets s1
  have h2 := w_handleTimeouts k s1 i
  generalize handleTimeouts s1 i = r at h2
  obtain ⟨s2, ok⟩ := r
  show WKeep k s (if (!ok) = true then s2.setConn i { s2.conn i with isRunning := false } else s2)
  split
  · exact WKeep.trans h1 (WKeep.trans h2 (w_setConn _ _ _ _ (by cw)))
  · exact WKeep.trans h1 h2

theorem w_resetUnconfirmed (k : Nat) (s : Slave) (j : Nat) : WKeep k s (resetUnconfirmed s j) := by
  unfold resetUnconfirmed
  apply w_foldl
  intro t e
  split
  · exact w_setGrp _ _ _ _
  · exact WKeep.refl _ t

theorem w_t3upd (k : Nat) (s : Slave) (i : Nat) : WKeep k s (t3upd s i) := by
  unfold t3upd; exact w_setConn _ _ _ _ (by cw)

theorem w_hmTestFR (k : Nat) (s : Slave) (i : Nat) : WKeep k s (hmTestFR s i).1 := by
  unfold hmTestFR
  have h := w_write k s i TESTFR_CON
  generalize write s i TESTFR_CON = r at h
  obtain ⟨s1, ok⟩ := r
  show WKeep k s (if ok = true then (t3upd s1 i, true) else (s1, false)).1
  split
  · exact WKeep.trans h (w_t3upd _ _ _)
  · exact h

theorem w_activate (k : Nat) (s : Slave) (i : Nat) : WKeep k s (activate s i) := by
  unfold activate
  simp only
  generalize (List.filter _ (List.range s.conns.length)) = js
  have h0 : WKeep k s (js.foldl deactivate s) := w_foldl _ (fun t j => w_deactivate k t j) _ _
  generalize js.foldl deactivate s = t at h0
  refine WKeep.trans h0 ?_
  unfold activateConn
  simp only
  split
  · exact WKeep.trans (w_emit _ _ _) (w_setConn _ _ _ _ (by cw))
  · exact w_setConn _ _ _ _ (by cw)

theorem w_hmStartDT (k : Nat) (s : Slave) (i : Nat) : WKeep k s (hmStartDT s i).1 := by
  unfold hmStartDT
  extract_lets s0 g s1
  have h0 : WKeep k s s0 := w_activate k s i
  have h1 : WKeep k s0 s1 := w_setGrp _ _ _ _
  have h := w_write k s1 i STARTDT_CON
  generalize write s1 i STARTDT_CON = r at h
  obtain ⟨s2, ok⟩ := r
  show WKeep k s (if ok = true then (t3upd s2 i, true) else (s2, false)).1
  split
  · exact WKeep.trans h0 (WKeep.trans h1 (WKeep.trans h (w_t3upd _ _ _)))
  · exact WKeep.trans h0 (WKeep.trans h1 h)

theorem w_stopTail (k : Nat) (s : Slave) (i : Nat) (c : Conn) (hc : CW k (s.conn i) c) :
    WKeep k s (let s := s.setConn i c
              let (s, ok) := write s i STOPDT_CON
              if ok then (t3upd s i, true) else (s, false)).1 := by
  extract_lets s1
  have h1 : WKeep k s s1 := w_setConn _ _ _ _ hc
  have h := w_write k s1 i STOPDT_CON
  generalize write s1 i STOPDT_CON = r at h
  obtain ⟨s2, ok⟩ := r
  show WKeep k s (if ok = true then (t3upd s2 i, true) else (s2, false)).1
  split
  · exact WKeep.trans h1 (WKeep.trans h (w_t3upd _ _ _))
  · exact WKeep.trans h1 h

theorem w_hmStopDT (k : Nat) (s : Slave) (i : Nat) : WKeep k s (hmStopDT s i).1 := by
  unfold hmStopDT
  extract_lets s0 c s1
  have h0 : WKeep k s s0 := w_deactivate k s i
  have h1 : WKeep k s0 s1 := by
    dsimp only [s1]
    split
    · exact WKeep.trans (w_setConn _ _ _ _ (by dsimp only [c]; cw)) (w_sendS _ _ _)
    · exact WKeep.refl _ _
  split
  · exact WKeep.trans h0 (WKeep.trans h1 (w_t3upd _ _ _))
  · exact WKeep.trans h0 (WKeep.trans h1 (w_stopTail k s1 i _ (by cw)))

theorem w_hmS (k : Nat) (s : Slave) (i : Nat) (buf : List Nat) : WKeep k s (hmS s i buf).1 := by
  unfold hmS
  extract_lets nr
  have h := w_checkSeqConn k s i nr
  generalize checkSeqConn s i nr = r at h
  obtain ⟨s1, ok⟩ := r
  dsimp only at h
  show WKeep k s (if (!ok) = true then (s1, false) else _).1
  split
  · exact h
  · extract_lets c
    split
    · split
      · exact WKeep.trans h (w_stopTail k s1 i _ (by dsimp only [c]; cw))
      · exact WKeep.trans h (w_t3upd _ _ _)
    · split
      · exact h
      · exact WKeep.trans h (w_t3upd _ _ _)

theorem w_handleMessage {k : Nat} (hk0 : 0 < k) (hk : k < 32767) (s : Slave) (i : Nat) (buf : List Nat) :
    WKeep k s (handleMessage s i buf).1 := by
  unfold handleMessage
  extract_lets n b2
  split
  · exact WKeep.refl _ s
  split
  · exact WKeep.refl _ s
  split
  · exact WKeep.refl _ s
  split
  · exact w_handleI hk0 hk s i buf
  split
  · exact w_hmTestFR k s i
  split
  · exact w_hmStartDT k s i
  split
  · exact w_hmStopDT k s i
  split
  · exact WKeep.trans (w_setConn _ _ _ _ (by cw)) (w_t3upd _ _ _)
  split
  · exact w_hmS k s i buf
  · exact WKeep.refl _ s

theorem w_handleTcpConnection {k : Nat} (hk0 : 0 < k) (hk : k < 32767) (s : Slave) (i : Nat) : WKeep k s (handleTcpConnection s i) := by
  unfold handleTcpConnection
  have h1 := w_receiveMessage k s i
  generalize receiveMessage s i = r at h1
  obtain ⟨s1, rr, msg⟩ := r
  dsimp only at h1
  simp (config := { zeta := false }) only []
  extract_lets c0 s2 c3 s4
  have h2 : WKeep k s1 s2 := by
    dsimp only [s2]; split
    · exact w_setConn _ _ _ _ (by dsimp only [c0]; cw)
    · exact WKeep.refl _ _
  have h12 := WKeep.trans h1 h2
  split
  · have h3 := w_handleMessage hk0 hk s2 i msg
    have h4 : WKeep k (handleMessage s2 i msg).1 s4 := by
      dsimp only [s4]; split
      · exact w_setConn _ _ _ _ (by dsimp only [c3]; cw)
      · exact WKeep.refl _ _
    exact WKeep.trans h12 (WKeep.trans h3 (WKeep.trans h4 (w_ackIfW _ _ _)))
  · exact h12

theorem w_foldl3 {k : Nat} {α β} (f : Slave × β → α → Slave × β) (hf : ∀ acc a, WKeep k acc.1 (f acc a).1) :
    ∀ (l : List α) (acc : Slave × β), WKeep k acc.1 (l.foldl f acc).1 := by
  intro l
  induction l with
  | nil => intro s; exact WKeep.refl _ _
  | cons a l ih => intro s; exact WKeep.trans (hf s a) (ih _)

theorem w_handleClientConnections {k : Nat} (hk0 : 0 < k) (hk : k < 32767) (s : Slave) : WKeep k s (handleClientConnections s) := by
  unfold handleClientConnections
  split
  · extract_lets idx
    split
    rename_i s1 anyRunning ready heq
    have i1 : WKeep k s s1 := by
      have e := (congrArg Prod.fst heq).symm
      dsimp only at e
      rw [e]
      apply w_foldl3 _ _ _ (s, false, false)
      intro acc j
      obtain ⟨t, anyR, rdy⟩ := acc
      dsimp only
      split
      · split
        · exact WKeep.refl _ _
        · refine WKeep.trans (WKeep.trans (w_emit _ t _) (WKeep.trans (w_resetUnconfirmed _ _ j) (w_setConn _ _ _ _ ?_))) (w_of_conns rfl rfl)
          cw
      · exact WKeep.refl _ _
    extract_lets s2
    have i2 : WKeep k s1 s2 := by
      dsimp only [s2]
      split
      · apply w_foldl
        intro t j
        split
        · exact w_handleTcpConnection hk0 hk t j
        · exact WKeep.refl _ _
      · exact WKeep.refl _ _
    refine WKeep.trans i1 (WKeep.trans i2 ?_)
    apply w_foldl
    intro t j
    split
    · exact w_periodic hk0 hk t j
    · exact WKeep.refl _ _
  · exact WKeep.refl _ _

theorem w_enqueue (k : Nat) (s : Slave) (a : List Nat) : WKeep k s (enqueue s a) := w_of_conns rfl rfl

theorem w_restart (k : Nat) (s : Slave) : WKeep k s (restart s) := by
  unfold restart
  refine ⟨rfl, by simp, fun j => ?_⟩
  simp only [Slave.conn, List.getD_eq_getElem?_getD, List.getElem?_map]
  cases hc : s.conns[j]? with
  | none => exact CW.refl _ _
  | some c =>
    simp only [Option.map_some, Option.getD_some]
    split
    · exact ⟨rfl, fun h => Bool.noConfusion h, fun _ h => h⟩
    · exact CW.refl _ _

/-! ### the invariant -/

/-- every slot in use was initialised with the configured k; every such connection has a good window -/
def WInv (s : Slave) : Prop :=
  ∀ j, ((s.conn j).isUsed = true → (s.conn j).maxSent = s.p.k) ∧ ((s.conn j).maxSent = s.p.k → Good s.p.k (s.conn j))

theorem winv_keep {s s' : Slave} (h : WInv s) (hs : WKeep s.p.k s s') : WInv s' := by
  intro j
  obtain ⟨hp, _, hc⟩ := hs
  obtain ⟨hm, hu, hg⟩ := hc j
  rw [hp]
  refine ⟨fun hu' => hm.trans ((h j).1 (hu hu')), fun hm' => hg (hm ▸ hm') ((h j).2 (hm ▸ hm'))⟩

theorem winv_setConn (s : Slave) (i : Nat) (c : Conn) (h : WInv s)
    (hc : i < s.conns.length → c.maxSent = s.p.k ∧ Good s.p.k c) : WInv (s.setConn i c) := by
  intro j
  show ((((s.setConn i c).conn j).isUsed = true → ((s.setConn i c).conn j).maxSent = s.p.k) ∧
    (((s.setConn i c).conn j).maxSent = s.p.k → Good s.p.k ((s.setConn i c).conn j)))
  by_cases hj : j = i
  · subst hj
    by_cases hl : j < s.conns.length
    · rw [conn_setConn _ _ _ hl]; exact ⟨fun _ => (hc hl).1, fun _ => (hc hl).2⟩
    · have hs : s.conns.set j c = s.conns := List.set_eq_of_length_le (Nat.le_of_not_lt hl)
      have : (s.setConn j c).conn j = s.conn j := by unfold Slave.conn Slave.setConn; simp only [hs]
      rw [this]; exact h j
  · rw [conn_setConn_ne _ _ _ _ hj]; exact h j

theorem winv_of_conns {s s' : Slave} (h : WInv s) (hp : s'.p = s.p) (hc : s'.conns = s.conns) : WInv s' :=
  winv_keep h (w_of_conns hp hc)

theorem good_fresh (k : Nat) (c : Conn) (hw : c.win = []) (hv : c.vs = 0) : Good k c := by
  refine ⟨by rw [hw]; exact Nat.zero_le _, fun _ => ⟨0, ?_⟩⟩
  rw [hw, hv]
  exact ⟨by decide, by decide, rfl, rfl⟩

theorem winv_initConn (s : Slave) (i : Nat) (sk : Sock) (g : Nat) (h : WInv s) :
    WInv (initConn s i sk g) ∧ (i < s.conns.length → ((initConn s i sk g).conn i).win = [] ∧ ((initConn s i sk g).conn i).vs = 0 ∧
      ((initConn s i sk g).conn i).maxSent = s.p.k) := by
  unfold initConn
  extract_lets c c1 s1 gi gr gr2
  have h1 : WInv s1 := winv_setConn s i c1 h (fun _ => ⟨rfl, good_fresh _ _ rfl rfl⟩)
  refine ⟨winv_of_conns h1 rfl rfl, fun hi => ?_⟩
  show (s1.conn i).win = [] ∧ (s1.conn i).vs = 0 ∧ (s1.conn i).maxSent = s.p.k
  dsimp only [s1]
  rw [conn_setConn _ _ _ hi]
  exact ⟨rfl, rfl, rfl⟩

theorem winv_accept (s : Slave) (h : WInv s) : WInv (accept s) := by
  unfold accept
  split
  · split
    · exact h
    · rename_i sk rest _
      extract_lets s0
      have h0 : WInv s0 := winv_of_conns h rfl rfl
      split
      rename_i answer s1 heq
      have h1 : WInv s1 := by
        have e := (congrArg Prod.snd heq).symm
        dsimp only at e
        rw [e]
        split
        · exact h0
        · exact winv_of_conns h0 rfl rfl
      split
      · exact h1
      · extract_lets free grp
        have hfree : ∀ i, free = some i → i < s1.conns.length := by
          intro i hi
          have := List.mem_of_find?_eq_some hi
          simpa using this
        clear_value free grp
        split
        · rename_i g i
          have hi := hfree i rfl
          extract_lets gr0 s2 s3 s4 c5 s5
          have h2 : WInv s2 := by
            dsimp only [s2]; split
            · exact winv_of_conns h1 rfl rfl
            · exact h1
          have hl2 : i < s2.conns.length := by
            dsimp only [s2]; split
            · exact hi
            · exact hi
          have h3 := winv_initConn s2 i sk g h2
          have hf := h3.2 hl2
          have h4 : WInv s4 := winv_of_conns h3.1 rfl rfl
          have h5 : WInv s5 := by
            apply winv_setConn s4 i _ h4
            intro _
            have e4 : s4.conn i = s3.conn i := rfl
            have hp : s4.p = s2.p := by
              show (initConn s2 i sk g).p = s2.p
              unfold initConn; rfl
            refine ⟨?_, good_fresh _ _ ?_ ?_⟩
            · show (s4.conn i).maxSent = s4.p.k
              rw [e4, hp]; exact hf.2.2
            · show (s4.conn i).win = []
              rw [e4]; exact hf.1
            · show (s4.conn i).vs = 0
              rw [e4]; exact hf.2.1
          exact winv_of_conns h5 rfl rfl
        · exact h1
  · exact h

theorem winv_tick (s : Slave) (hk0 : 0 < s.p.k) (hk : s.p.k < 32767) (h : WInv s) : WInv (tick s) := by
  unfold tick
  have ha := winv_accept s h
  have hp : (accept s).p = s.p := (shrink_accept s).1
  have := w_handleClientConnections (k := s.p.k) hk0 hk (accept s)
  rw [← hp] at this
  exact winv_keep ha this

/-! ### every history -/

/-- what the environment does between two calls: data arrives on sockets, peers close, writes start or stop failing,
connections become pending, the clock advances - the connection records keep everything but their socket -/
structure WEnv where
  f : Slave → Slave
  p : ∀ s, (f s).p = s.p
  len : ∀ s, (f s).conns.length = s.conns.length
  conn : ∀ s j, (f s).conn j = { s.conn j with sock := ((f s).conn j).sock }
  groups : ∀ s, (f s).groups = s.groups
  log : ∀ s, (f s).log = s.log
  oc : ∀ s, (f s).openConnections = s.openConnections

inductive WOp where
  | tick
  | enqueue (asdu : List Nat)
  | restart
  | env (e : WEnv)

def WOp.apply (s : Slave) : WOp → Slave
  | .tick => Iec.Srv104.tick s
  | .enqueue a => Iec.Srv104.enqueue s a
  | .restart => Iec.Srv104.restart s
  | .env e => e.f s

theorem w_env (k : Nat) (e : WEnv) (s : Slave) : WKeep k s (e.f s) := by
  refine ⟨e.p s, e.len s, fun j => ?_⟩
  rw [e.conn s j]
  exact ⟨rfl, fun h => h, fun _ h => h⟩

theorem apply_p (s : Slave) (op : WOp) : (op.apply s).p = s.p := by
  cases op with
  | tick => exact (w_handleClientConnections (k := 1) (by decide) (by decide) (accept s)).1.trans (shrink_accept s).1
  | enqueue a => rfl
  | restart => rfl
  | env e => exact e.p s

theorem winv_apply (s : Slave) (op : WOp) (hk0 : 0 < s.p.k) (hk : s.p.k < 32767) (h : WInv s) : WInv (op.apply s) := by
  cases op with
  | tick => exact winv_tick s hk0 hk h
  | enqueue a => exact winv_keep h (w_enqueue _ s a)
  | restart => exact winv_keep h (w_restart _ s)
  | env e => exact winv_keep h (w_env _ e s)

theorem create_winv (p : Params) (gs : List (String × List (Bool × List Nat))) : WInv (create p gs) := by
  intro j
  have hc : (create p gs).conn j = {} := by
    unfold create
    simp only [Slave.conn, List.getD_eq_getElem?_getD, List.getElem?_map]
    cases (List.range p.nSlots)[j]? <;> rfl
  rw [hc]
  refine ⟨fun hu => Bool.noConfusion hu, fun _ => good_fresh _ _ rfl rfl⟩

/-- **every history**: from a freshly created server with 0 < k < 32767, after any sequence of ticks (accept, receive,
transmit, acknowledge, timeouts, reaping), enqueues, restarts and environment events, every connection in use has at most
k outstanding I-format APDUs, and while it runs its k-buffer is the consecutive run of acknowledgement numbers ending
at V(S) -/
theorem run_winv (p : Params) (gs : List (String × List (Bool × List Nat))) (hk0 : 0 < p.k) (hk : p.k < 32767) (ops : List WOp) :
    WInv (ops.foldl WOp.apply (create p gs)) ∧ (ops.foldl WOp.apply (create p gs)).p = p := by
  have h0 := create_winv p gs
  have hp : (create p gs).p = p := by unfold create; rfl
  generalize create p gs = s at h0 hp
  induction ops generalizing s with
  | nil => exact ⟨h0, hp⟩
  | cons op ops ih =>
    exact ih _ (winv_apply s op (hp ▸ hk0) (hp ▸ hk) h0) ((apply_p s op).trans hp)

/-! ### environment events used by the concrete histories of the property files -/

def lenvPending (sk : Sock) : WEnv where
  f s := { s with pending := s.pending ++ [sk] }
  p _ := rfl
  len _ := rfl
  conn _ _ := rfl
  groups _ := rfl
  log _ := rfl
  oc _ := rfl

def lenvFeed (i : Nat) (bytes : List Nat) : WEnv where
  f s := s.setConn i { s.conn i with sock := { (s.conn i).sock with chunks := (s.conn i).sock.chunks ++ [bytes] } }
  p _ := rfl
  len s := setConn_len _ _ _
  conn s j := by
    by_cases hj : j = i
    · subst hj
      by_cases hl : j < s.conns.length
      · rw [conn_setConn _ _ _ hl]
      · have hs : ∀ c, s.conns.set j c = s.conns := fun c => List.set_eq_of_length_le (Nat.le_of_not_lt hl)
        have : ∀ c, (s.setConn j c).conn j = s.conn j := by intro c; unfold Slave.conn Slave.setConn; simp only [hs]
        rw [this]
    · rw [conn_setConn_ne _ _ _ _ hj]
  groups _ := rfl
  log _ := rfl
  oc _ := rfl

def lifeDemoParams : Params := { k := 2, w := 1, t0 := 10, t1 := 15, t2 := 10, t3 := 20, mode := 0, maxOpen := 0, lowQ := 4, highQ := 4, asduHdr := 6, replies := 0, nSlots := 2 }


end Iec.Srv104
