import Iec.Lemmas.DaysDef
/- chunk 2 of the calendar table: 16384 consecutive days, every one evaluated by the kernel -/
namespace Iec.Days
set_option maxRecDepth 100000 in
theorem chunk2 : allTree dayOk (10957 + 2 * 16384) 14 = true := by decide +kernel
end Iec.Days
