/-
The client's count of received-but-unacknowledged I-format APDUs over every history of a connection object: it grows only
when `checkMessage` accepts an I-format APDU (by one), and the `w` test after every received message brings it below w -
so at every blocking point of the connection thread fewer than w are unacknowledged (C11, client role).
-/
import Iec.Lemmas.Cli104Win
namespace Iec.Cli104
open Iec.KWindow Iec.Srv104

/-- parameters kept, the count does not grow -/
def CU (c c' : Cli) : Prop := c'.p = c.p ∧ c'.unconf ≤ c.unconf

theorem CU.refl (c : Cli) : CU c c := ⟨rfl, Nat.le_refl _⟩
theorem CU.trans {a b c : Cli} (h1 : CU a b) (h2 : CU b c) : CU a c := ⟨h2.1.trans h1.1, Nat.le_trans h2.2 h1.2⟩

theorem cu_write (c : Cli) (b : List Nat) : CU c (write c b) := by
  unfold write emit
  repeat' split
  all_goals exact ⟨rfl, Nat.le_refl _⟩

theorem cu_confirm (c : Cli) : CU c (confirmOutstanding c) := by
  unfold confirmOutstanding
  refine CU.trans (b := { c with lastConf := some c.now, unconf := 0, t2Trigger := false }) ⟨rfl, Nat.zero_le _⟩ (cu_write _ _)

theorem confirm_unconf (c : Cli) : (confirmOutstanding c).unconf = 0 := by
  unfold confirmOutstanding
  have := (cu_write { c with lastConf := some c.now, unconf := 0, t2Trigger := false } [0x68, 4, 1, 0, seqLo c.vr, seqHi c.vr]).2
  exact Nat.le_zero.mp this

set_option linter.unusedSimpArgs false in
/-- `checkMessage` counts at most one -/
theorem cu1_checkMessage (c : Cli) (buf : List Nat) : (checkMessage c buf).1.p = c.p ∧ (checkMessage c buf).1.unconf ≤ c.unconf + 1 := by
  unfold checkMessage
  simp only
  repeat' split
  all_goals first
    | exact ⟨rfl, Nat.le_succ _⟩
    | exact ⟨rfl, Nat.le_refl _⟩
    | (have hw := fun x b => cu_write x b; refine ⟨?_, ?_⟩ <;> simp_all [emit, CU] <;> omega)
    | (refine ⟨?_, ?_⟩ <;> first | exact (cu_write _ _).1 | exact Nat.le_succ_of_le (cu_write _ _).2)

theorem cu_phaseT3 (c : Cli) : CU c (phaseT3 c).1 := by
  unfold phaseT3
  repeat' split
  all_goals first
    | exact CU.refl _
    | exact CU.trans (cu_write _ _) ⟨rfl, Nat.le_refl _⟩

theorem cu_phaseT2 (c : Cli) : CU c (phaseT2 c) := by
  unfold phaseT2
  repeat' split
  all_goals first
    | exact CU.refl _
    | exact cu_confirm _

theorem cu_phaseT1 (c : Cli) : CU c (phaseT1 c).1 := by
  unfold phaseT1
  repeat' split
  all_goals exact CU.refl _

theorem cu_handleTimeouts (c : Cli) : CU c (handleTimeouts c).1 := by
  unfold handleTimeouts
  simp only
  split
  · exact cu_phaseT3 c
  · exact CU.trans (cu_phaseT3 c) (CU.trans (cu_phaseT2 _) (cu_phaseT1 _))

/-- the `w` test: below w afterwards, whatever was counted -/
theorem ackIfW_boundC (c : Cli) (hw : 0 < c.p.w) : (ackIfW c).p = c.p ∧ (ackIfW c).unconf < c.p.w := by
  unfold ackIfW
  split
  · exact ⟨(cu_confirm c).1, by rw [confirm_unconf]; exact hw⟩
  · rename_i h
    simp only [Bool.or_eq_true, decide_eq_true_eq, not_or, Nat.not_le] at h
    exact ⟨rfl, h.1⟩

theorem cu_emit (c : Cli) (o : Obs) : CU c (emit c o) := ⟨rfl, Nat.le_refl _⟩

theorem cu_finish (c : Cli) (ev : String) : CU c (finish c ev) := by
  unfold finish
  simp only
  refine CU.trans ?_ (cu_emit _ _)
  refine CU.trans (b := if c.unconf > 0 then confirmOutstanding c else c) ?_ ⟨rfl, Nat.le_refl _⟩
  split
  · exact cu_confirm c
  · exact CU.refl c

/-- a received message: the parameters are kept (the count may have grown, the `w` test follows) -/
theorem onMessage_p (c : Cli) (msg : List Nat) (lr : Bool) : (onMessage c msg lr).1.p = c.p := by
  unfold onMessage
  have hq := (cu1_checkMessage c msg).1
  generalize checkMessage c msg = r at hq
  obtain ⟨c1, ok⟩ := r
  simp only at hq ⊢
  repeat' split
  all_goals first
    | exact hq
    | (simp_all [emit]; done)

/-- **one pass of the reception**: below w afterwards -/
theorem loopRecv_bound (c : Cli) (hw : 0 < c.p.w) (h : c.unconf < c.p.w) :
    (loopRecv c).1.p = c.p ∧ (loopRecv c).1.unconf < c.p.w := by
  unfold loopRecv
  split
  · generalize recvStep c.recvBuf c.sock = r
    obtain ⟨buf, sk, rr, msg⟩ := r
    simp only
    obtain ⟨c1, hc1⟩ : ∃ c1, c1 = (if rr = -1 then (({ ({ c with recvBuf := buf, sock := sk } : Cli) with failure := true } : Cli), false) else (({ c with recvBuf := buf, sock := sk } : Cli), true)) := ⟨_, rfl⟩
    have h1p : c1.1.p = c.p := by rw [hc1]; split <;> rfl
    rw [← hc1]
    by_cases hr : rr > 0
    · simp only [hr, if_true]
      have hp := onMessage_p c1.1 msg c1.2
      have := ackIfW_boundC (onMessage c1.1 msg c1.2).1 (by rw [hp, h1p]; exact hw)
      rw [hp, h1p] at this
      exact this
    · simp only [hr, if_false]
      have := ackIfW_boundC c1.1 (by rw [h1p]; exact hw)
      rw [h1p] at this
      exact this
  · exact ⟨rfl, h⟩

theorem loopIter_bound (c : Cli) (hw : 0 < c.p.w) (h : c.unconf < c.p.w) :
    (loopIter c).p = c.p ∧ (loopIter c).unconf < c.p.w := by
  unfold loopIter loopBody
  obtain ⟨hp, hb⟩ := loopRecv_bound c hw h
  generalize loopRecv c = r at hp hb
  obtain ⟨c1, lr⟩ := r
  simp only at hp hb ⊢
  have ht := cu_handleTimeouts c1
  generalize handleTimeouts c1 = r2 at ht
  obtain ⟨c2, ok⟩ := r2
  simp only at ht ⊢
  split
  · exact ⟨ht.1.trans hp, Nat.lt_of_le_of_lt ht.2 hb⟩
  · have hf := cu_finish c2 "CLOSED"
    exact ⟨hf.1.trans (ht.1.trans hp), Nat.lt_of_le_of_lt (Nat.le_trans hf.2 ht.2) hb⟩

/-- the invariant with its side condition -/
def CUOk (c : Cli) : Prop := 0 < c.p.w ∧ c.unconf < c.p.w

theorem cuok_cu {c c' : Cli} (h : CUOk c) (hq : CU c c') : CUOk c' :=
  ⟨by rw [hq.1]; exact h.1, by rw [hq.1]; exact Nat.lt_of_le_of_lt hq.2 h.2⟩

theorem cuok_step (c : Cli) (h : CUOk c) : CUOk (step c) := by
  unfold step
  split
  · exact ⟨h.1, h.1⟩
  · split
    · split
      · exact cuok_cu h ⟨rfl, Nat.le_refl _⟩
      · exact cuok_cu h (CU.trans (b := { c with failure := true }) ⟨rfl, Nat.le_refl _⟩ (cu_finish _ _))
    · split
      · obtain ⟨hp, hb⟩ := loopIter_bound c h.1 h.2
        exact ⟨by rw [hp]; exact h.1, by rw [hp]; exact hb⟩
      · exact h

theorem cuok_runToEnd : ∀ (f : Nat) (c : Cli), CUOk c → CUOk (runToEnd f c) := by
  intro f
  induction f with
  | zero => intro c h; exact h
  | succ n ih =>
    intro c h
    unfold runToEnd
    split
    · exact h
    · exact ih _ (cuok_step c h)

theorem cuok_apply (c : Cli) (op : KOp) (h : CUOk c) : CUOk (op.apply c) := by
  cases op with
  | connect => exact cuok_cu h ⟨rfl, Nat.le_refl _⟩
  | step => exact cuok_step c h
  | env sk dt ok => exact cuok_cu h ⟨rfl, Nat.le_refl _⟩
  | send a =>
    show CUOk (sendAsdu c a).1
    unfold sendAsdu
    repeat' split
    all_goals first
      | exact h
      | exact cuok_cu h (CU.trans (cu_write _ _) ⟨rfl, Nat.zero_le _⟩)
  | startdt =>
    show CUOk (sendStartDT c)
    unfold sendStartDT
    exact cuok_cu h (CU.trans (b := { c with conState := 3 }) ⟨rfl, Nat.le_refl _⟩ (cu_write _ _))
  | stopdt =>
    show CUOk (sendStopDT c)
    unfold sendStopDT
    exact cuok_cu h (CU.trans (cu_confirm c) (CU.trans (b := { confirmOutstanding c with conState := 4 }) ⟨rfl, Nat.le_refl _⟩ (cu_write _ _)))
  | close =>
    show CUOk (closeConn c)
    unfold closeConn
    simp only
    exact cuok_cu (cuok_runToEnd 100 _ (cuok_cu h (c' := { c with close := true }) ⟨rfl, Nat.le_refl _⟩)) ⟨rfl, Nat.le_refl _⟩

theorem step_pC (c : Cli) (hw : 0 < c.p.w) (h : c.unconf < c.p.w) : (step c).p = c.p := by
  unfold step
  split
  · rfl
  · split
    · split
      · rfl
      · exact (CU.trans (b := { c with failure := true }) ⟨rfl, Nat.le_refl _⟩ (cu_finish _ _)).1
    · split
      · exact (loopIter_bound c hw h).1
      · rfl

theorem runToEnd_pC : ∀ (f : Nat) (c : Cli), CUOk c → (runToEnd f c).p = c.p := by
  intro f
  induction f with
  | zero => intro c _; rfl
  | succ n ih =>
    intro c h
    unfold runToEnd
    split
    · rfl
    · exact (ih _ (cuok_step c h)).trans (step_pC c h.1 h.2)

theorem apply_pC (c : Cli) (op : KOp) (h : CUOk c) : (op.apply c).p = c.p := by
  cases op with
  | connect => rfl
  | step => exact step_pC c h.1 h.2
  | env sk dt ok => rfl
  | send a =>
    show (sendAsdu c a).1.p = c.p
    unfold sendAsdu
    repeat' split
    all_goals first
      | rfl
      | exact (cu_write _ _).1
  | startdt =>
    show (sendStartDT c).p = c.p
    unfold sendStartDT
    exact (cu_write _ _).1
  | stopdt =>
    show (sendStopDT c).p = c.p
    unfold sendStopDT
    exact ((cu_write _ _).1).trans (cu_confirm c).1
  | close =>
    show (closeConn c).p = c.p
    unfold closeConn
    simp only
    exact runToEnd_pC 100 _ (cuok_cu h (c' := { c with close := true }) ⟨rfl, Nat.le_refl _⟩)

/-- **every history** of a client connection created with w ≥ 1: at every blocking point of its thread (and after every
API call) fewer than w received I-format APDUs are unacknowledged -/
theorem run_cuok (p : Params) (hw : 0 < p.w) (ops : List KOp) :
    CUOk (ops.foldl KOp.apply { p := p }) ∧ (ops.foldl KOp.apply { p := p }).p = p := by
  have h0 : CUOk ({ p := p } : Cli) := ⟨hw, hw⟩
  have hp : ({ p := p } : Cli).p = p := rfl
  generalize ({ p := p } : Cli) = c at h0 hp
  induction ops generalizing c with
  | nil => exact ⟨h0, hp⟩
  | cons op ops ih => exact ih _ (cuok_apply c op h0) ((apply_pC c op h0).trans hp)

end Iec.Cli104
