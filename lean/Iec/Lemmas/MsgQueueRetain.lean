/-
Retention of the event ring (C06): a queue created for N entries keeps at least the N most recent events when they are
of equal size.  On top of the layout invariant `MqInv`: with entries of one size e every offset is a multiple of e (a
grid), a new entry collides with at most ONE old entry, and it collides only when the ring is already full (the upper
part ends less than one entry below the buffer end).
-/
import Iec.Lemmas.MsgQueueOrder
namespace Iec.Queues

/-- grid facts kept between enqueues of equal-size entries, on the pointers alone: the oldest entry lies on the grid; once
the ring has wrapped (the newest entry lies below the oldest) no further entry fits behind the one with the highest offset -/
def Grid (q : MsgQueue) (e : Nat) : Prop :=
  e ∣ q.first.getD 0 ∧ (q.last.getD 0 < q.first.getD 0 → q.size < q.lib.getD 0 + 2 * e)

theorem chain_equal (e : Nat) : ∀ (xs : List MEntry) (o : Nat), MChain o xs → (∀ x ∈ xs, esz x = e) →
    mEnd o xs = o + xs.length * e ∧ (e ∣ o → ∀ x ∈ xs, e ∣ x.1) := by
  intro xs
  induction xs with
  | nil => intro o _ _; exact ⟨by simp [mEnd], fun _ x hx => by cases hx⟩
  | cons y ys ih =>
    intro o hc hs
    obtain ⟨hy, hr⟩ := hc
    have hey : esz y = e := hs y (by simp)
    obtain ⟨h1, h2⟩ := ih (o + esz y) hr (fun x hx => hs x (by simp [hx]))
    refine ⟨?_, fun ho x hx => ?_⟩
    · simp only [mEnd, List.length_cons]
      rw [h1, hey, Nat.succ_mul]; omega
    · rcases List.mem_cons.mp hx with rfl | hx
      · rw [hy]; exact ho
      · exact h2 (by rw [hey]; exact Nat.dvd_add ho (Nat.dvd_refl e)) x hx

/-- on a grid at most one entry lies below a bound that is at most one entry above the first -/
theorem inWay_equal (e bound : Nat) (u0 : MEntry) (rest : List MEntry) (hc : MChain u0.1 (u0 :: rest))
    (hs : ∀ x ∈ u0 :: rest, esz x = e) (hb : bound ≤ u0.1 + e) :
    inWay bound (u0 :: rest) ≤ 1 ∧ (inWay bound (u0 :: rest) = 1 → u0.1 < bound) := by
  simp only [inWay]
  split
  · rename_i hlt
    refine ⟨?_, fun _ => hlt⟩
    cases rest with
    | nil => simp [inWay]
    | cons r rr =>
      have hr : r.1 = u0.1 + esz u0 := hc.2.1
      have : esz u0 = e := hs u0 (by simp)
      have hnot : ¬ (r.1 < bound) := by omega
      simp [inWay, hnot]
  · exact ⟨Nat.zero_le _, fun h => by omega⟩

theorem dvd_lt_eq {e a b : Nat} (ha : e ∣ a) (hb : e ∣ b) (h1 : b ≤ a) (h2 : a < b + e) : a = b := by
  obtain ⟨x, rfl⟩ := ha
  obtain ⟨y, rfl⟩ := hb
  have he : 0 < e := by
    rcases Nat.eq_zero_or_pos e with h | h
    · subst h; omega
    · exact h
  have hxy : y ≤ x := Nat.le_of_mul_le_mul_left h1 he
  have : x < y + 1 := by
    have : e * x < e * (y + 1) := by rw [Nat.mul_add, Nat.mul_one]; exact h2
    exact Nat.lt_of_mul_lt_mul_left this
  have : x = y := by omega
  rw [this]

/-- the ring is full: `c` entries of size `e ≤ 272` whose end is less than one entry below `N * 272` are at least N -/
theorem full_count (e N c : Nat) (he : e ≤ 272) (h : N * 272 < c * e + e) : N ≤ c := by
  rcases Nat.lt_or_ge c N with hlt | hge
  · exfalso
    have h1 : (c + 1) * e ≤ N * e := Nat.mul_le_mul_right e (by omega)
    have h2 : N * e ≤ N * 272 := Nat.mul_le_mul_left N he
    rw [Nat.succ_mul] at h1
    omega
  · exact hge

/-- the pointers of the queue after `writeEntry` -/
theorem writeEntry_ptrs (q : MsgQueue) (np : Nat) (d : List Nat) :
    (writeEntry q np d).first = q.first ∧ (writeEntry q np d).last = some np ∧
    (writeEntry q np d).lib = (if np > q.lib.getD 0 then some np else q.lib) ∧
    (writeEntry q np d).count = q.count + 1 ∧ (writeEntry q np d).size = q.size := by
  have := writeEntry_fields q np d
  exact ⟨this.1, this.2.1, this.2.2.1, this.2.2.2.1, this.2.2.2.2.1⟩

/-- **one enqueue on the grid**: the grid facts are kept and the queue either grows or already held N entries -/
theorem enqueue_grid (q : MsgQueue) (up low : List MEntry) (h : MqInv q up low) (N : Nat) (d : List Nat)
    (hd : d.length ≤ 250) (hsz : ∀ x ∈ up ++ low, esz x = HDR + d.length) (hN : q.size = N * 272)
    (hg : Grid q (HDR + d.length)) :
    Grid (q.enqueue d) (HDR + d.length) ∧ min (q.count + 1) N ≤ (q.enqueue d).count := by
  have he272 : HDR + d.length ≤ 272 := by simp only [HDR]; omega
  have hepos : 0 < HDR + d.length := by simp only [HDR]; omega
  generalize hedef : HDR + d.length = e at hsz hg he272 hepos
  cases up with
  | nil =>
    have := h.lowup rfl; subst this
    have hc : q.count = 0 := by simpa using h.count
    rw [mq_enqueue_empty q d hd hc]
    obtain ⟨w1, w2, w3, w4, _⟩ := writeEntry_ptrs { q with first := some 0, lib := some 0 } 0 d
    refine ⟨⟨by rw [w1]; exact Nat.dvd_zero e, fun hlt => by rw [w1, w2] at hlt; simp at hlt⟩, ?_⟩
    rw [w4, hc]; show min 1 N ≤ 0 + 1; omega
  | cons u0 rest =>
    obtain ⟨hfirst, hchain, hend, hlib⟩ := h.upper u0 rest rfl
    have hcnt : q.count > 0 := by have := h.count; simp at this; omega
    have hbU := mChain_bounds u0.1 (u0 :: rest) hchain
    obtain ⟨L, ul, hL⟩ := msnoc_cases (u0 :: rest) (by simp)
    have hchainL : MChain u0.1 (L ++ [ul]) := hL ▸ hchain
    obtain ⟨_, hEu, _⟩ := mChain_last u0.1 L ul hchainL
    have hmlU : mLast (u0 :: rest) = ul.1 := by rw [hL]; exact mLast_snoc L ul
    have hul_ge : u0.1 ≤ ul.1 := (hbU.2 ul (by rw [hL]; simp)).1
    have hszU : ∀ x ∈ u0 :: rest, esz x = e := fun x hx => hsz x (by simp at hx ⊢; rcases hx with hx | hx; exact Or.inl hx; exact Or.inr (Or.inl hx))
    have hszul : esz ul = e := hszU ul (by rw [hL]; simp)
    have hg1 : e ∣ u0.1 := by have := hg.1; rwa [hfirst] at this
    obtain ⟨hlenU, hdvdU⟩ := chain_equal e (u0 :: rest) u0.1 hchain hszU
    have hdvdU := hdvdU hg1
    have hEup : mEnd u0.1 (u0 :: rest) = ul.1 + e := by rw [hL, hEu, hszul]
    -- what the eviction of entries below `bound ≤ u0.1 + e` costs
    have hway : ∀ bound, bound ≤ u0.1 + e → inWay bound (u0 :: rest) ≤ 1 ∧ (inWay bound (u0 :: rest) = 1 → u0.1 < bound) :=
      fun bound hb => inWay_equal e bound u0 rest hchain hszU hb
    have hdropdvd : ∀ k, k < (u0 :: rest).length → e ∣ (((u0 :: rest).drop k).headD u0).1 := by
      intro k hk
      obtain ⟨y, ys, hys⟩ := drop_cons_of_lt (u0 :: rest) k hk
      rw [hys]; simp only [List.headD_cons]
      exact hdvdU y (List.mem_of_mem_drop (by rw [hys]; simp))
    cases low with
    | nil =>
      have hlast := h.lastU (by simp) rfl
      rw [hmlU] at hlast
      have hgl : q.get ul.1 = some ul.2 := h.data ul (by rw [hL]; simp)
      have hesl := esize_of q ul hgl
      have hE : mEnd u0.1 (u0 :: rest) = ul.1 + HDR + q.esize ul.1 := by rw [hL, hEu, hesl]; simp [esz, Nat.add_assoc]
      have hnp : ul.1 + HDR + q.esize ul.1 = ul.1 + e := by rw [← hE, hEup]
      have hEgt : ¬ (ul.1 + HDR + q.esize ul.1 ≤ u0.1) := by omega
      have hcountU : q.count = (u0 :: rest).length := by have := h.count; simpa using this
      by_cases hfit : ul.1 + HDR + q.esize ul.1 + (HDR + d.length) > q.size
      · rw [mq_enqueue_wrap_unwrapped q d hd hcnt ul.1 u0.1 hlast hfirst hfit hEgt hul_ge]
        have hev := evict_spec 0 (HDR + d.length) (u0 :: rest) { q with lib := q.last } u0 rest rfl hfirst hchain
          (fun x hx => h.data x (by simpa using hx)) (by show q.last = _; rw [hlast, hmlU]) (by have := h.count; simp at this ⊢; omega)
          (q.count + 1) (by have := h.count; simp at this ⊢; omega)
        rw [hev, hedef]
        obtain ⟨hk1, hk2⟩ := hway (0 + e) (by omega)
        -- the ring is full whenever an entry is in the way
        have hfull : inWay (0 + e) (u0 :: rest) = 1 → N ≤ q.count := by
          intro hk
          have hu0 : u0.1 = 0 := dvd_lt_eq hg1 (Nat.dvd_zero e) (Nat.zero_le _) (by have := hk2 hk; omega)
          apply full_count e N q.count he272
          rw [hcountU, ← hN]
          have : mEnd u0.1 (u0 :: rest) = (u0 :: rest).length * e := by rw [hlenU, hu0]; omega
          rw [← this, hEup]
          rw [hnp, hedef] at hfit; omega
        by_cases hall : inWay (0 + e) (u0 :: rest) = (u0 :: rest).length
        · rw [if_pos hall]
          obtain ⟨w1, w2, w3, w4, _⟩ := writeEntry_ptrs { ({ q with lib := q.last } : MsgQueue) with count := q.count - (u0 :: rest).length, first := some 0, lib := some 0 } 0 d
          refine ⟨⟨by rw [w1]; exact Nat.dvd_zero e, fun hlt => by rw [w1, w2] at hlt; simp at hlt⟩, ?_⟩
          rw [w4]
          show min (q.count + 1) N ≤ q.count - (u0 :: rest).length + 1
          have hpos : 0 < (u0 :: rest).length := by simp
          have hone : (u0 :: rest).length = 1 := by omega
          have := hfull (by omega)
          omega
        · rw [if_neg hall]
          have hlen := inWay_le (0 + e) (u0 :: rest)
          obtain ⟨w1, w2, w3, w4, w5⟩ := writeEntry_ptrs { ({ q with lib := q.last } : MsgQueue) with count := q.count - inWay (0 + e) (u0 :: rest), first := some (((u0 :: rest).drop (inWay (0 + e) (u0 :: rest))).headD u0).1 } 0 d
          refine ⟨⟨by rw [w1]; exact hdropdvd _ (by omega), fun _ => ?_⟩, ?_⟩
          · rw [w3, w5]
            show q.size < (if 0 > q.last.getD 0 then some 0 else q.last).getD 0 + 2 * e
            rw [if_neg (by omega), hlast]
            rw [hnp, hedef] at hfit
            simp only [Option.getD_some]; omega
          · rw [w4]
            show min (q.count + 1) N ≤ q.count - inWay (0 + e) (u0 :: rest) + 1
            rcases Nat.eq_zero_or_pos (inWay (0 + e) (u0 :: rest)) with h0 | h0
            · omega
            · have := hfull (by omega); omega
      · rw [mq_enqueue_fits q d hd hcnt ul.1 u0.1 hlast hfirst hfit, if_neg hEgt]
        obtain ⟨w1, w2, w3, w4, _⟩ := writeEntry_ptrs q (ul.1 + HDR + q.esize ul.1) d
        refine ⟨⟨by rw [w1, hfirst]; exact hg1, fun hlt => ?_⟩, by rw [w4]; omega⟩
        rw [w1, w2, hfirst] at hlt
        simp only [Option.getD_some] at hlt
        omega
    | cons l0 lrest =>
      obtain ⟨hlc, hlast, hle⟩ := h.lower l0 lrest rfl
      have hleU := hle u0 rest rfl
      obtain ⟨LL, ll, hLL⟩ := msnoc_cases (l0 :: lrest) (by simp)
      have hlcL : MChain 0 (LL ++ [ll]) := hLL ▸ hlc
      obtain ⟨_, hEl, _⟩ := mChain_last 0 LL ll hlcL
      have hmlL : mLast (l0 :: lrest) = ll.1 := by rw [hLL]; exact mLast_snoc LL ll
      rw [hmlL] at hlast
      have hgl : q.get ll.1 = some ll.2 := h.data ll (List.mem_append.mpr (Or.inr (by rw [hLL]; simp)))
      have hesl := esize_of q ll hgl
      have hE : mEnd 0 (l0 :: lrest) = ll.1 + HDR + q.esize ll.1 := by rw [hLL, hEl, hesl]; simp [esz, Nat.add_assoc]
      have hEle : ll.1 + HDR + q.esize ll.1 ≤ u0.1 := by rw [← hE]; exact hleU
      have hszLow : ∀ x ∈ l0 :: lrest, esz x = e := fun x hx => hsz x (List.mem_append.mpr (Or.inr hx))
      obtain ⟨hlenL, hdvdL⟩ := chain_equal e (l0 :: lrest) 0 hlc hszLow
      have hnpdvd : e ∣ ll.1 + HDR + q.esize ll.1 := by rw [← hE, hlenL, Nat.zero_add]; exact Nat.dvd_mul_left e _
      have hllt : ll.1 < u0.1 := by simp only [HDR] at hEle; omega
      have hcount : q.count = (u0 :: rest).length + (l0 :: lrest).length := h.count
      -- the ring has wrapped, so it is full behind the upper part
      have htight : q.size < ul.1 + 2 * e := by
        have := hg.2 (by rw [hlast, hfirst]; exact hllt)
        rwa [hlib, hmlU] at this
      by_cases hfit : ll.1 + HDR + q.esize ll.1 + (HDR + d.length) > q.size
      · -- impossible on the grid: the upper part lies above the write position and inside the buffer
        exfalso
        rw [hedef] at hfit
        rw [hEup] at hend
        omega
      · rw [mq_enqueue_fits q d hd hcnt ll.1 u0.1 hlast hfirst hfit, if_pos hEle]
        have hev := evict_spec (ll.1 + HDR + q.esize ll.1) (HDR + d.length) (u0 :: rest) q u0 rest rfl hfirst hchain
          (fun x hx => h.data x (List.mem_append.mpr (Or.inl hx))) hlib (by have := h.count; simp at this ⊢; omega)
          (q.count + 1) (by have := h.count; simp at this ⊢; omega)
        rw [hev, hedef]
        obtain ⟨hk1, hk2⟩ := hway (ll.1 + HDR + q.esize ll.1 + e) (by omega)
        have hfull : inWay (ll.1 + HDR + q.esize ll.1 + e) (u0 :: rest) = 1 → N ≤ q.count := by
          intro hk
          have hu0 : u0.1 = ll.1 + HDR + q.esize ll.1 := dvd_lt_eq hg1 hnpdvd hEle (hk2 hk)
          apply full_count e N q.count he272
          rw [← hN]
          have h1 : ul.1 + e = u0.1 + (u0 :: rest).length * e := by rw [← hEup, hlenU]
          have h2 : u0.1 = (l0 :: lrest).length * e := by rw [hu0, ← hE, hlenL]; omega
          have h3 : q.count * e = (u0 :: rest).length * e + (l0 :: lrest).length * e := by rw [hcount, Nat.add_mul]
          omega
        by_cases hall : inWay (ll.1 + HDR + q.esize ll.1 + e) (u0 :: rest) = (u0 :: rest).length
        · rw [if_pos hall]
          obtain ⟨w1, w2, w3, w4, _⟩ := writeEntry_ptrs { q with count := q.count - (u0 :: rest).length, first := some 0, lib := some (ll.1 + HDR + q.esize ll.1) } (ll.1 + HDR + q.esize ll.1) d
          refine ⟨⟨by rw [w1]; exact Nat.dvd_zero e, fun hlt => by rw [w1, w2] at hlt; simp at hlt⟩, ?_⟩
          rw [w4]
          show min (q.count + 1) N ≤ q.count - (u0 :: rest).length + 1
          have hpos : 0 < (u0 :: rest).length := by simp
          have := hfull (by omega)
          omega
        · rw [if_neg hall]
          have hlen := inWay_le (ll.1 + HDR + q.esize ll.1 + e) (u0 :: rest)
          obtain ⟨w1, w2, w3, w4, w5⟩ := writeEntry_ptrs { q with count := q.count - inWay (ll.1 + HDR + q.esize ll.1 + e) (u0 :: rest), first := some (((u0 :: rest).drop (inWay (ll.1 + HDR + q.esize ll.1 + e) (u0 :: rest))).headD u0).1 } (ll.1 + HDR + q.esize ll.1) d
          refine ⟨⟨by rw [w1]; exact hdropdvd _ (by omega), fun _ => ?_⟩, ?_⟩
          · rw [w3, w5]
            show q.size < (if ll.1 + HDR + q.esize ll.1 > q.lib.getD 0 then some (ll.1 + HDR + q.esize ll.1) else q.lib).getD 0 + 2 * e
            rw [hlib, hmlU]
            simp only [Option.getD_some]
            rw [if_neg (by omega)]
            simp only [Option.getD_some]; exact htight
          · rw [w4]
            show min (q.count + 1) N ≤ q.count - inWay (ll.1 + HDR + q.esize ll.1 + e) (u0 :: rest) + 1
            rcases Nat.eq_zero_or_pos (inWay (ll.1 + HDR + q.esize ll.1 + e) (u0 :: rest)) with h0 | h0
            · omega
            · have := hfull (by omega); omega

/-- **any number of equal-size enqueues**: the queue grows until it holds N entries and never falls below N again -/
theorem enqueueAll_count (N L : Nat) (hN : 1 ≤ N) (hL : L ≤ 250) : ∀ (ds : List (List Nat)) (q : MsgQueue) (up low : List MEntry),
    MqInv q up low → (∀ x ∈ up ++ low, esz x = HDR + L) → q.size = N * 272 → Grid q (HDR + L) → (∀ d ∈ ds, d.length = L) →
    min (q.count + ds.length) N ≤ (enqueueAll q ds).count := by
  intro ds
  induction ds with
  | nil => intro q up low _ _ _ _ _; simp only [enqueueAll, List.foldl_nil, List.length_nil, Nat.add_zero]; exact Nat.min_le_left _ _
  | cons d ds ih =>
    intro q up low h hsz hsize hg hds
    have hdl : d.length = L := hds d (by simp)
    have hs266 : 266 ≤ q.size := by
      rw [hsize]
      calc 266 ≤ 1 * 272 := by decide
        _ ≤ N * 272 := Nat.mul_le_mul_right _ hN
    obtain ⟨up1, low1, k1, h1, a1⟩ := mq_enqueue_refines q up low h d (by omega) hs266
    obtain ⟨hg1, hc1⟩ := enqueue_grid q up low h N d (by omega) (by rw [hdl]; exact hsz) hsize (by rw [hdl]; exact hg)
    rw [hdl] at hg1
    have hsz1 : ∀ x ∈ up1 ++ low1, esz x = HDR + L := by
      intro x hx
      have hx2 : x.2 ∈ MqInv.abs up1 low1 := List.mem_map.mpr ⟨x, hx, rfl⟩
      rw [a1] at hx2
      rcases List.mem_append.mp hx2 with hx2 | hx2
      · obtain ⟨y, hy, hyx⟩ := List.mem_map.mp (List.mem_of_mem_drop hx2)
        have := hsz y hy
        unfold esz at this ⊢; rw [← hyx]; exact this
      · have : x.2 = newEntry q d := by simpa using hx2
        unfold esz; rw [this]; show HDR + d.length = HDR + L; rw [hdl]
    have := ih (q.enqueue d) up1 low1 h1 hsz1 (by rw [enqueue_size]; exact hsize) hg1 (fun x hx => hds x (by simp [hx]))
    show min (q.count + (d :: ds).length) N ≤ (enqueueAll (q.enqueue d) ds).count
    simp only [List.length_cons]
    omega

end Iec.Queues
