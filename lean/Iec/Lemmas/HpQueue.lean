import Iec.Model.Queues
/-
Refinement of the high-priority (reply) ring of cs104_slave.c (`Iec.Queues.HpQueue`, byte offsets,
three pointers, association memory) to a FIFO list.

Layout invariant `HpInv q up low`: the queued entries, oldest first, are `up ++ low`; `up` lies back to
back from `first` up to `lib` (the entry with the highest offset), `low` - present once the ring has
wrapped - lies back to back from offset 0 and ends at or below `first`.
-/
namespace Iec.Queues

abbrev HpEntry := Nat × List Nat

/-- entries laid out back to back from offset `o` -/
def Chain : Nat → List HpEntry → Prop
  | _, [] => True
  | o, x :: rest => x.1 = o ∧ Chain (o + 2 + x.2.length) rest

/-- offset just behind a chain that starts at `o` -/
def chainEnd : Nat → List HpEntry → Nat
  | o, [] => o
  | o, x :: rest => chainEnd (o + 2 + x.2.length) rest

def lastOff (xs : List HpEntry) : Nat := (xs.getLast?.map (·.1)).getD 0

theorem chainEnd_append (o : Nat) (xs ys : List HpEntry) : chainEnd o (xs ++ ys) = chainEnd (chainEnd o xs) ys := by
  induction xs generalizing o with
  | nil => rfl
  | cons x xs ih => simp [chainEnd, ih]

theorem chain_append (o : Nat) (xs ys : List HpEntry) : Chain o (xs ++ ys) ↔ Chain o xs ∧ Chain (chainEnd o xs) ys := by
  induction xs generalizing o with
  | nil => simp [Chain, chainEnd]
  | cons x xs ih => simp [Chain, chainEnd, ih, and_assoc]

theorem chain_bounds (o : Nat) (xs : List HpEntry) (h : Chain o xs) :
    o ≤ chainEnd o xs ∧ ∀ x ∈ xs, o ≤ x.1 ∧ x.1 + 2 + x.2.length ≤ chainEnd o xs := by
  induction xs generalizing o with
  | nil => simp [chainEnd]
  | cons x xs ih =>
    obtain ⟨hx, hr⟩ := h
    obtain ⟨h1, h2⟩ := ih _ hr
    refine ⟨by simp only [chainEnd]; omega, ?_⟩
    intro y hy
    simp only [chainEnd]
    rcases List.mem_cons.mp hy with rfl | hy
    · exact ⟨by omega, by rw [hx]; exact h1⟩
    · obtain ⟨h3, h4⟩ := h2 y hy
      exact ⟨by omega, h4⟩

/-- the last entry of a non-empty chain ends where the chain ends -/
theorem chain_last (o : Nat) (xs : List HpEntry) (x : HpEntry) (h : Chain o (xs ++ [x])) :
    lastOff (xs ++ [x]) = x.1 ∧ chainEnd o (xs ++ [x]) = x.1 + 2 + x.2.length ∧ x.1 = chainEnd o xs := by
  have h2 := (chain_append o xs [x]).mp h
  obtain ⟨hx, _⟩ := h2.2
  refine ⟨by simp [lastOff], ?_, hx⟩
  rw [chainEnd_append]; simp [chainEnd, hx]

/-! ### the association memory -/

theorem find_filter_key (l : List HpEntry) (o : Nat) (p : HpEntry → Bool) (hp : ∀ b ∈ l, b.1 = o → p b = true) :
    (l.filter p).find? (·.1 == o) = l.find? (·.1 == o) := by
  induction l with
  | nil => rfl
  | cons b bs ih =>
    have ih' := ih (fun c hc => hp c (List.mem_cons_of_mem _ hc))
    by_cases hb : b.1 = o
    · have hpb := hp b (by simp) hb
      simp [List.filter, hpb, hb]
    · by_cases hpb : p b = true
      · simp [List.filter, hpb, hb, ih']
      · simp [List.filter, hpb, hb, ih']

/-- memory after writing `d` at `np` (`es = 2 + d.length` octets): the new entry is there, everything outside the
written range is as before -/
theorem dataAt_put (q : HpQueue) (np : Nat) (d : List Nat) (fl : Option Nat) (la : Option Nat) (li : Option Nat) (c : Nat) :
    let q' : HpQueue := { q with first := fl, last := la, lib := li, count := c,
                                 mem := (np, d) :: q.mem.filter fun b => !(np ≤ b.1 && b.1 < np + (2 + d.length)) }
    q'.dataAt np = d ∧ ∀ o, (o < np ∨ np + (2 + d.length) ≤ o) → q'.dataAt o = q.dataAt o := by
  intro q'
  constructor
  · simp [HpQueue.dataAt, q']
  · intro o ho
    have hne : ¬ (np = o) := by omega
    simp only [HpQueue.dataAt, q', List.find?_cons]
    have : ((np, d).1 == o) = false := by simpa using hne
    rw [this]
    rw [find_filter_key]
    intro b _ hb
    simp only [Bool.not_eq_true', Bool.and_eq_false_iff, decide_eq_false_iff_not]
    omega

end Iec.Queues

namespace Iec.Queues

/-- **layout invariant** of the reply ring -/
structure HpInv (q : HpQueue) (up low : List HpEntry) : Prop where
  size : 252 ≤ q.size
  count : q.count = up.length + low.length
  data : ∀ x ∈ up ++ low, q.dataAt x.1 = x.2
  lowup : up = [] → low = []
  upper : ∀ u0 rest, up = u0 :: rest →
    q.first = some u0.1 ∧ Chain u0.1 up ∧ chainEnd u0.1 up ≤ q.size ∧ q.lib = some (lastOff up)
  lastU : up ≠ [] → low = [] → q.last = some (lastOff up)
  lower : ∀ l0 rest, low = l0 :: rest →
    Chain 0 low ∧ q.last = some (lastOff low) ∧ ∀ u0 r, up = u0 :: r → chainEnd 0 low ≤ u0.1

theorem snoc_cases {α} (l : List α) (h : l ≠ []) : ∃ L b, l = L ++ [b] := by
  rcases List.eq_nil_or_concat l with h' | ⟨L, b, h'⟩
  · exact absurd h' h
  · exact ⟨L, b, by rw [h']; simp⟩

theorem HpInv.empty (n : Nat) (hn : 1 ≤ n) : HpInv (HpQueue.create n) [] [] := by
  refine ⟨by simp [HpQueue.create]; omega, rfl, by simp, fun _ => rfl, ?_, by simp, ?_⟩
  · intro u0 rest h; cases h
  · intro l0 rest h; cases h

/-- the abstraction: queued replies, oldest first -/
def HpInv.abs (up low : List HpEntry) : List (List Nat) := (up ++ low).map Prod.snd

end Iec.Queues

namespace Iec.Queues

theorem lastOff_cons (x : HpEntry) (xs : List HpEntry) (h : xs ≠ []) : lastOff (x :: xs) = lastOff xs := by
  cases xs with
  | nil => exact absurd rfl h
  | cons y ys => simp [lastOff, List.getLast?_cons_cons]

theorem lastOff_single (x : HpEntry) : lastOff [x] = x.1 := by simp [lastOff]

theorem chain_lastOff (o : Nat) (xs : List HpEntry) (h : Chain o xs) (hne : xs ≠ []) :
    o ≤ lastOff xs ∧ lastOff xs < chainEnd o xs := by
  obtain ⟨L, b, rfl⟩ := snoc_cases xs hne
  obtain ⟨h1, h2, h3⟩ := chain_last o L b h
  have := (chain_bounds o L ((chain_append o L [b]).mp h).1).1
  rw [h1, h2]; omega

theorem chain_head (o : Nat) (x : HpEntry) (xs : List HpEntry) (h : Chain o (x :: xs)) :
    x.1 = o ∧ Chain (o + 2 + x.2.length) xs := h

/-- **dequeue refines `List` head/tail** -/
theorem getNext_refines (q : HpQueue) (u0 : HpEntry) (rest low : List HpEntry) (h : HpInv q (u0 :: rest) low) :
    ∃ q', q.getNext = (q', some u0.2) ∧ (rest ≠ [] → HpInv q' rest low) ∧ (rest = [] → HpInv q' low []) := by
  obtain ⟨hfirst, hchain, hend, hlib⟩ := h.upper u0 rest rfl
  have hcount : q.count = rest.length + 1 + low.length := by simpa using h.count
  have hd : q.dataAt u0.1 = u0.2 := h.data u0 (by simp)
  obtain ⟨hu0, hrestc⟩ := chain_head _ _ _ hchain
  have hpos : q.count > 0 := by omega
  unfold HpQueue.getNext
  simp only [hpos, if_true, hfirst, Option.getD_some, hd]
  by_cases hr : rest = []
  · subst hr
    cases low with
    | nil =>
      -- the queue becomes empty: pointers are stale, nothing is claimed about them
      have hc0 : q.count - 1 = 0 := by simp at hcount; omega
      refine ⟨_, rfl, fun h' => absurd rfl h', fun _ => ?_⟩
      simp only [hc0, Nat.lt_irrefl, if_false]
      exact { size := h.size
              count := rfl
              data := by simp
              lowup := fun _ => rfl
              upper := by intro a b h'; cases h'
              lastU := by simp
              lower := by intro a b h'; cases h' }
    | cons l0 lrest =>
      obtain ⟨hlc, hlast, hle⟩ := h.lower l0 lrest rfl
      have hle' := hle u0 [] rfl
      have hcpos : q.count - 1 > 0 := by simp at hcount; omega
      have hlo := chain_lastOff 0 (l0 :: lrest) hlc (by simp)
      have hne : ¬ (some u0.1 = some (lastOff (l0 :: lrest))) := by simp; omega
      have hlibeq : q.lib = some u0.1 := by rw [hlib, lastOff_single]
      refine ⟨_, rfl, fun h' => absurd rfl h', fun _ => ?_⟩
      simp only [hcpos, if_true, hlast, hlibeq, beq_iff_eq, hne, if_false]
      obtain ⟨hl0, _⟩ := chain_head _ _ _ hlc
      have hb := chain_bounds u0.1 [u0] hchain
      exact { size := h.size
              count := by show q.count - 1 = _; simp at hcount ⊢; omega
              data := by intro x hx; exact h.data x (by simp at hx ⊢; right; exact hx)
              lowup := by intro h'; cases h'
              upper := by
                intro a b hab
                cases hab
                rw [hl0]
                refine ⟨rfl, hlc, ?_, rfl⟩
                have := hb.1
                show chainEnd 0 (l0 :: lrest) ≤ q.size
                omega
              lastU := by intro _ _; rfl
              lower := by intro a b h'; cases h' }
  · obtain ⟨r0, rr, hrr⟩ := List.exists_cons_of_ne_nil hr
    have hcpos : q.count - 1 > 0 := by rw [hrr] at hcount; simp at hcount; omega
    have hlo := chain_lastOff _ rest hrestc hr
    have hlasto : lastOff (u0 :: rest) = lastOff rest := lastOff_cons u0 rest hr
    have hnlib : ¬ (some u0.1 = some (lastOff (u0 :: rest))) := by rw [hlasto]; simp; omega
    have hnlast : ¬ (some u0.1 = q.last) := by
      cases low with
      | nil => rw [h.lastU (by simp) rfl, hlasto]; simp; omega
      | cons l0 lrest =>
        obtain ⟨hlc, hlast, hle⟩ := h.lower l0 lrest rfl
        have hlo2 := chain_lastOff 0 (l0 :: lrest) hlc (by simp)
        have := hle u0 rest rfl
        rw [hlast]; simp; omega
    refine ⟨_, rfl, fun _ => ?_, fun h' => absurd h' hr⟩
    simp only [hcpos, if_true, beq_iff_eq, hnlast, if_false, hlib, hnlib]
    have hr0 : r0.1 = u0.1 + 2 + u0.2.length := by
      have := hrestc; rw [hrr] at this; rw [hu0]; exact this.1
    exact { size := h.size
            count := by show q.count - 1 = _; omega
            data := by
              intro x hx
              exact h.data x (by simp at hx ⊢; rcases hx with hx | hx; exact Or.inr (Or.inl hx); exact Or.inr (Or.inr hx))
            lowup := by intro h'; exact absurd h' hr
            upper := by
              intro a b hab
              have hab' : a = r0 := by rw [hrr] at hab; cases hab; rfl
              subst hab'
              refine ⟨by rw [hr0, hu0], ?_, ?_, by rw [hlasto]⟩
              · rw [hr0, hu0]; exact hrestc
              · simp only [chainEnd] at hend; rw [hr0, hu0]; exact hend
            lastU := by intro _ hl; rw [h.lastU (by simp) hl, hlasto]
            lower := by
              intro l0 lrest hl
              obtain ⟨hlc, hlast, hle⟩ := h.lower l0 lrest hl
              refine ⟨hlc, hlast, ?_⟩
              intro a b hab
              have hab' : a = r0 := by rw [hrr] at hab; cases hab; rfl
              subst hab'
              have := hle u0 rest rfl
              omega }

end Iec.Queues

namespace Iec.Queues

/-- the write of `HighPriorityASDUQueue_enqueue` at position `np` -/
def HpQueue.write (q : HpQueue) (np : Nat) (d : List Nat) : HpQueue :=
  { q with last := some np, count := q.count + 1,
           mem := (np, d) :: q.mem.filter fun b => !(np ≤ b.1 && b.1 < np + (2 + d.length)) }

theorem write_dataAt (q : HpQueue) (np : Nat) (d : List Nat) :
    (q.write np d).dataAt np = d ∧ ∀ o, (o < np ∨ np + (2 + d.length) ≤ o) → (q.write np d).dataAt o = q.dataAt o := by
  have := dataAt_put q np d q.first (some np) q.lib (q.count + 1)
  simpa [HpQueue.write] using this

/-- what `enqueue` computes, case by case -/
theorem enqueue_empty (q : HpQueue) (d : List Nat) (hd : d.length ≤ 250) (hc : q.count = 0) (hs : 252 ≤ q.size) :
    q.enqueue d = (({ q with first := some 0, lib := some 0 } : HpQueue).write 0 d, true) := by
  have h1 : ¬ (d.length > 250) := by omega
  have h2 : ¬ (q.size < 2 + d.length) := by omega
  simp [HpQueue.enqueue, h1, hc, h2, HpQueue.write]

theorem enqueue_nonempty (q : HpQueue) (d : List Nat) (hd : d.length ≤ 250) (hc : q.count > 0) (l f : Nat)
    (hl : q.last = some l) (hf : q.first = some f) :
    let np := l + 2 + (q.dataAt l).length
    let es := 2 + d.length
    q.enqueue d =
      (if np + es > q.size then
        if l < f then (q, false)
        else if es > f then ({ q with lib := q.last }, false)
        else (({ q with lib := q.last } : HpQueue).write 0 d, true)
      else if np ≤ f then
        if np + es > f then (q, false) else (q.write np d, true)
      else (({ q with lib := some np } : HpQueue).write np d, true)) := by
  intro np es
  have h1 : ¬ (d.length > 250) := by omega
  have hc0 : ¬ (q.count = 0) := by omega
  by_cases hw : l + 2 + (q.dataAt l).length + (2 + d.length) > q.size
  · by_cases hlf : l < f
    · simp [HpQueue.enqueue, HpQueue.write, h1, hc0, hl, hf, hc, np, es, hw, hlf]
    · by_cases hes : 2 + d.length > f
      · simp [HpQueue.enqueue, HpQueue.write, h1, hc0, hl, hf, hc, np, es, hw, hlf, hes]
      · simp [HpQueue.enqueue, HpQueue.write, h1, hc0, hl, hf, hc, np, es, hw, hlf, hes]
  · by_cases hnf : l + 2 + (q.dataAt l).length ≤ f
    · by_cases hov : l + 2 + (q.dataAt l).length + (2 + d.length) > f
      · simp [HpQueue.enqueue, HpQueue.write, h1, hc0, hl, hf, hc, np, es, hw, hnf, hov]
      · simp [HpQueue.enqueue, HpQueue.write, h1, hc0, hl, hf, hc, np, es, hw, hnf, hov]
    · simp [HpQueue.enqueue, HpQueue.write, h1, hc0, hl, hf, hc, np, es, hw, hnf]

end Iec.Queues

namespace Iec.Queues

theorem lastOff_snoc (xs : List HpEntry) (x : HpEntry) : lastOff (xs ++ [x]) = x.1 := by simp [lastOff]

/-- **enqueue refines `List` append** (or refuses and changes nothing that matters) -/
theorem enqueue_refines (q : HpQueue) (up low : List HpEntry) (h : HpInv q up low) (d : List Nat) :
    ((q.enqueue d).2 = true → ∃ up' low', HpInv (q.enqueue d).1 up' low' ∧ HpInv.abs up' low' = HpInv.abs up low ++ [d]) ∧
    ((q.enqueue d).2 = false → HpInv (q.enqueue d).1 up low) := by
  by_cases hbig : d.length > 250
  · have : q.enqueue d = (q, false) := by simp [HpQueue.enqueue, hbig]
    rw [this]; exact ⟨by simp, fun _ => h⟩
  have hd : d.length ≤ 250 := by omega
  cases up with
  | nil =>
    have hlow := h.lowup rfl; subst hlow
    have hc : q.count = 0 := by simpa using h.count
    rw [enqueue_empty q d hd hc h.size]
    have hw := write_dataAt ({ q with first := some 0, lib := some 0 }) 0 d
    refine ⟨fun _ => ⟨[(0, d)], [], ?_, by simp [HpInv.abs]⟩, by simp⟩
    exact { size := h.size
            count := by simp [HpQueue.write, hc]
            data := by intro x hx; simp at hx; subst hx; exact hw.1
            lowup := by simp
            upper := by
              intro a b hab; cases hab
              refine ⟨rfl, by simp [Chain], ?_, by simp [HpQueue.write, lastOff]⟩
              have := h.size; simp [chainEnd, HpQueue.write]; omega
            lastU := by intro _ _; simp [HpQueue.write, lastOff]
            lower := by intro a b hab; cases hab }
  | cons u0 rest =>
    obtain ⟨hfirst, hchain, hend, hlib⟩ := h.upper u0 rest rfl
    have hcnt : q.count > 0 := by have := h.count; simp at this; omega
    have hbU := chain_bounds u0.1 (u0 :: rest) hchain
    cases low with
    | nil =>
      have hlast := h.lastU (by simp) rfl
      obtain ⟨L, ul, hL⟩ := snoc_cases (u0 :: rest) (by simp)
      have hchain' : Chain u0.1 (L ++ [ul]) := hL ▸ hchain
      obtain ⟨hlo, hce, _⟩ := chain_last u0.1 L ul hchain'
      have hlastoff : lastOff (u0 :: rest) = ul.1 := by rw [hL]; exact hlo
      have hE : chainEnd u0.1 (u0 :: rest) = ul.1 + 2 + ul.2.length := by rw [hL]; exact hce
      have hdl : q.dataAt ul.1 = ul.2 := h.data ul (by rw [hL]; simp)
      have hul : u0.1 ≤ ul.1 := (hbU.2 ul (by rw [hL]; simp)).1
      rw [hlastoff] at hlast hlib
      have heq := enqueue_nonempty q d hd hcnt ul.1 u0.1 hlast hfirst
      simp only [hdl] at heq
      rw [heq]
      have hnlt : ¬ (ul.1 < u0.1) := by omega
      by_cases hw : ul.1 + 2 + ul.2.length + (2 + d.length) > q.size
      · simp only [hw, if_true, hnlt, if_false]
        by_cases hes : 2 + d.length > u0.1
        · simp only [hes, if_true]
          refine ⟨by simp, fun _ => ?_⟩
          exact { size := h.size, count := h.count, data := h.data, lowup := h.lowup
                  upper := by
                    intro a b hab; cases hab
                    exact ⟨hfirst, hchain, hend, by show q.last = _; rw [hlast, hlastoff]⟩
                  lastU := by intro _ _; show q.last = _; rw [hlast, hlastoff]
                  lower := by intro a b hab; cases hab }
        · simp only [hes, if_false]
          have hw0 := write_dataAt ({ q with lib := q.last }) 0 d
          refine ⟨fun _ => ⟨u0 :: rest, [(0, d)], ?_, by simp [HpInv.abs]⟩, by simp⟩
          exact { size := h.size
                  count := by have := h.count; simp [HpQueue.write] at this ⊢; omega
                  data := by
                    intro x hx
                    simp only [List.mem_append, List.mem_singleton] at hx
                    rcases hx with hx | hx
                    · have hxb := (hbU.2 x hx).1
                      rw [hw0.2 x.1 (Or.inr (by omega))]
                      exact h.data x (by simp; simpa using hx)
                    · subst hx; exact hw0.1
                  lowup := by intro h'; cases h'
                  upper := by
                    intro a b hab; cases hab
                    exact ⟨hfirst, hchain, hend, by show q.last = _; rw [hlast, hlastoff]⟩
                  lastU := by intro _ h'; cases h'
                  lower := by
                    intro a b hab; cases hab
                    refine ⟨by simp [Chain], by simp [HpQueue.write, lastOff], ?_⟩
                    intro a b hab; cases hab
                    simp [chainEnd]; omega }
      · simp only [hw, if_false]
        have hnf : ¬ (ul.1 + 2 + ul.2.length ≤ u0.1) := by omega
        simp only [hnf, if_false]
        have hwE := write_dataAt ({ q with lib := some (ul.1 + 2 + ul.2.length) }) (ul.1 + 2 + ul.2.length) d
        refine ⟨fun _ => ⟨(u0 :: rest) ++ [(ul.1 + 2 + ul.2.length, d)], [], ?_, by simp [HpInv.abs]⟩, by simp⟩
        exact { size := h.size
                count := by have := h.count; simp [HpQueue.write] at this ⊢; omega
                data := by
                  intro x hx
                  simp only [List.append_nil, List.mem_append, List.mem_singleton] at hx
                  rcases hx with hx | hx
                  · have hxb := (hbU.2 x hx).2
                    rw [hwE.2 x.1 (Or.inl (by rw [hE] at hxb; omega))]
                    exact h.data x (by simp; simpa using hx)
                  · subst hx; exact hwE.1
                lowup := by simp
                upper := by
                  intro a b hab
                  have ha : a = u0 := by simp at hab; exact hab.1.symm
                  subst ha
                  refine ⟨hfirst, ?_, ?_, ?_⟩
                  · rw [chain_append]; exact ⟨hchain, by rw [hE]; simp [Chain]⟩
                  · rw [chainEnd_append, hE]; simp [chainEnd, HpQueue.write]; omega
                  · rw [lastOff_snoc]; rfl
                lastU := by intro _ _; rw [lastOff_snoc]; rfl
                lower := by intro a b hab; cases hab }
    | cons l0 lrest =>
      obtain ⟨hlc, hlast, hle⟩ := h.lower l0 lrest rfl
      have hleU := hle u0 rest rfl
      obtain ⟨LL, ll, hLL⟩ := snoc_cases (l0 :: lrest) (by simp)
      have hlc' : Chain 0 (LL ++ [ll]) := hLL ▸ hlc
      obtain ⟨hlo, hce, _⟩ := chain_last 0 LL ll hlc'
      have hlastoff : lastOff (l0 :: lrest) = ll.1 := by rw [hLL]; exact hlo
      have hE : chainEnd 0 (l0 :: lrest) = ll.1 + 2 + ll.2.length := by rw [hLL]; exact hce
      have hdl : q.dataAt ll.1 = ll.2 := h.data ll (by rw [hLL]; simp)
      have hbL := chain_bounds 0 (l0 :: lrest) hlc
      rw [hlastoff] at hlast
      have heq := enqueue_nonempty q d hd hcnt ll.1 u0.1 hlast hfirst
      simp only [hdl] at heq
      rw [heq]
      have hlt : ll.1 < u0.1 := by rw [hE] at hleU; omega
      by_cases hw : ll.1 + 2 + ll.2.length + (2 + d.length) > q.size
      · simp only [hw, if_true, hlt]
        exact ⟨by simp, fun _ => h⟩
      · simp only [hw, if_false]
        have hnf : ll.1 + 2 + ll.2.length ≤ u0.1 := by rw [hE] at hleU; exact hleU
        simp only [hnf, if_true]
        by_cases hov : ll.1 + 2 + ll.2.length + (2 + d.length) > u0.1
        · simp only [hov, if_true]
          exact ⟨by simp, fun _ => h⟩
        · simp only [hov, if_false]
          have hwE := write_dataAt q (ll.1 + 2 + ll.2.length) d
          refine ⟨fun _ => ⟨u0 :: rest, (l0 :: lrest) ++ [(ll.1 + 2 + ll.2.length, d)], ?_, by simp [HpInv.abs]⟩, by simp⟩
          exact { size := h.size
                  count := by have := h.count; simp [HpQueue.write] at this ⊢; omega
                  data := by
                    intro x hx
                    simp only [List.mem_append, List.mem_singleton] at hx
                    rcases hx with hx | hx | hx
                    · have hxb := (hbU.2 x hx).1
                      rw [hwE.2 x.1 (Or.inr (by omega))]
                      exact h.data x (by simp only [List.mem_append]; exact Or.inl hx)
                    · have hxb := (hbL.2 x hx).2
                      rw [hwE.2 x.1 (Or.inl (by rw [hE] at hxb; omega))]
                      exact h.data x (by simp only [List.mem_append]; exact Or.inr hx)
                    · subst hx; exact hwE.1
                  lowup := by intro h'; cases h'
                  upper := by
                    intro a b hab; cases hab
                    exact ⟨hfirst, hchain, hend, hlib⟩
                  lastU := by intro _ h'; simp at h'
                  lower := by
                    intro a b hab
                    refine ⟨?_, ?_, ?_⟩
                    · rw [chain_append]; exact ⟨hlc, by rw [hE]; simp [Chain]⟩
                    · rw [lastOff_snoc]; rfl
                    · intro a' b' hab'; cases hab'
                      rw [chainEnd_append, hE]; simp [chainEnd]; omega }

end Iec.Queues

namespace Iec.Queues

inductive HpOp where
  | enq (d : List Nat)
  | deq
  deriving Repr, DecidableEq

/-- ring after a history; `acc` = replies accepted so far, `out` = replies handed out so far (both in order) -/
def hpRun : HpQueue → List HpOp → HpQueue × List (List Nat) × List (List Nat)
  | q, [] => (q, [], [])
  | q, .enq d :: ops =>
    let r := q.enqueue d
    let t := hpRun r.1 ops
    (t.1, (if r.2 then [d] else []) ++ t.2.1, t.2.2)
  | q, .deq :: ops =>
    let r := q.getNext
    let t := hpRun r.1 ops
    (t.1, t.2.1, (match r.2 with | some d => [d] | none => []) ++ t.2.2)

/-- **the reply ring is a FIFO**: from any state satisfying the layout invariant with queued content `abs`,
after any history: content before ++ everything accepted = everything handed out ++ content after.  Nothing
is lost, duplicated or reordered, for every ring size, every reply size and every interleaving of enqueue
and dequeue (so every wrap position). -/
theorem hp_fifo : ∀ (ops : List HpOp) (q : HpQueue) (up low : List HpEntry), HpInv q up low →
    ∃ up' low', HpInv (hpRun q ops).1 up' low' ∧
      HpInv.abs up low ++ (hpRun q ops).2.1 = (hpRun q ops).2.2 ++ HpInv.abs up' low' := by
  intro ops
  induction ops with
  | nil => intro q up low h; exact ⟨up, low, h, by simp [hpRun]⟩
  | cons op ops ih =>
    intro q up low h
    cases op with
    | enq d =>
      obtain ⟨hacc, hrej⟩ := enqueue_refines q up low h d
      simp only [hpRun]
      by_cases hr : (q.enqueue d).2 = true
      · obtain ⟨up1, low1, h1, habs⟩ := hacc hr
        obtain ⟨up2, low2, h2, heq⟩ := ih _ up1 low1 h1
        refine ⟨up2, low2, h2, ?_⟩
        simp only [hr, if_true]
        rw [← heq, habs]; simp [List.append_assoc]
      · have hr' : (q.enqueue d).2 = false := by simpa using hr
        obtain ⟨up2, low2, h2, heq⟩ := ih _ up low (hrej hr')
        refine ⟨up2, low2, h2, ?_⟩
        simp only [hr', Bool.false_eq_true, if_false, List.nil_append]
        exact heq
    | deq =>
      simp only [hpRun]
      cases up with
      | nil =>
        have hlow := h.lowup rfl; subst hlow
        have hc : q.count = 0 := by simpa using h.count
        have hg : q.getNext = (q, none) := by simp [HpQueue.getNext, hc]
        rw [hg]
        obtain ⟨up2, low2, h2, heq⟩ := ih q [] [] h
        exact ⟨up2, low2, h2, by simpa using heq⟩
      | cons u0 rest =>
        obtain ⟨q', hg, hne, hnil⟩ := getNext_refines q u0 rest low h
        rw [hg]
        by_cases hr : rest = []
        · subst hr
          obtain ⟨up2, low2, h2, heq⟩ := ih q' low [] (hnil rfl)
          refine ⟨up2, low2, h2, ?_⟩
          simp only [HpInv.abs, List.append_nil, List.map_cons, List.singleton_append, List.cons_append, List.nil_append, List.map_nil] at heq ⊢
          rw [heq]
        · obtain ⟨up2, low2, h2, heq⟩ := ih q' rest low (hne hr)
          refine ⟨up2, low2, h2, ?_⟩
          simp only [HpInv.abs, List.map_cons, List.cons_append, List.singleton_append, List.map_append, List.nil_append] at heq ⊢
          rw [heq]

end Iec.Queues
