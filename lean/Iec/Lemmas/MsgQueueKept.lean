/-
"Remains buffered until acknowledged" at the level of one event ring: the operations the server applies to a ring while it
serves connections - handing out the next waiting entry, re-arming an entry, confirming an entry by reference - never remove
an entry or mark it confirmed, EXCEPT `markAsduAsConfirmed`, and that one only for the entry its reference (offset, id)
designates.  Relation `KeptX R q q'`: the entries of `q'` are those of `q` (same offsets, ids, octets, order) without a
prefix of entries named in `R`; an entry that was not confirmed is still not confirmed unless it is named in `R`.
-/
import Iec.Lemmas.MsgQueueWf
namespace Iec.Queues

/-- offset, id and octets of an entry -/
def ekey (x : MEntry) : Nat × Nat × List Nat := (x.1, x.2.id, x.2.data)

/-- position by position: an entry that was not confirmed is not confirmed afterwards, unless it is named in `R` -/
def StKept (R : List (Nat × Nat)) (L L' : List MEntry) : Prop :=
  ∀ (n : Nat) (x x' : MEntry), L[n]? = some x → L'[n]? = some x' → x.2.st ≠ 0 → (x'.2.st ≠ 0 ∨ (x.1, x.2.id) ∈ R)

/-- position by position: a confirmed entry stays confirmed (it is never handed out for transmission again) -/
def CfKept (L L' : List MEntry) : Prop :=
  ∀ (n : Nat) (x x' : MEntry), L[n]? = some x → L'[n]? = some x' → x.2.st = 0 → x'.2.st = 0

def KeptX (R : List (Nat × Nat)) (q q' : MsgQueue) : Prop :=
  ∀ up low, MqInv q up low → ∃ up' low' k, MqInv q' up' low' ∧
    (∀ x ∈ (up ++ low).take k, (x.1, x.2.id) ∈ R) ∧
    (up' ++ low').map ekey = ((up ++ low).drop k).map ekey ∧
    StKept R ((up ++ low).drop k) (up' ++ low') ∧
    CfKept ((up ++ low).drop k) (up' ++ low')

theorem KeptX.refl (R : List (Nat × Nat)) (q : MsgQueue) : KeptX R q q := by
  intro up low h
  refine ⟨up, low, 0, h, by simp, by simp, ?_, ?_⟩
  · intro n x x' h1 h2 hs
    simp only [List.drop_zero] at h1
    rw [h1] at h2
    cases h2
    exact Or.inl hs
  · intro n x x' h1 h2 hs
    simp only [List.drop_zero] at h1
    rw [h1] at h2
    cases h2
    exact hs

theorem KeptX.mono {R R' : List (Nat × Nat)} (hR : ∀ r ∈ R, r ∈ R') {q q' : MsgQueue} (h : KeptX R q q') : KeptX R' q q' := by
  intro up low hi
  obtain ⟨up', low', k, h1, h2, h3, h4, h5⟩ := h up low hi
  refine ⟨up', low', k, h1, fun x hx => hR _ (h2 x hx), h3, ?_, h5⟩
  intro n x x' a b c
  rcases h4 n x x' a b c with h | h
  · exact Or.inl h
  · exact Or.inr (hR _ h)

theorem ekey_eq {x y : MEntry} (h : ekey x = ekey y) : x.1 = y.1 ∧ x.2.id = y.2.id := by
  unfold ekey at h
  simp only [Prod.mk.injEq] at h
  exact ⟨h.1, h.2.1⟩

theorem KeptX.trans {R : List (Nat × Nat)} {a b c : MsgQueue} (h1 : KeptX R a b) (h2 : KeptX R b c) : KeptX R a c := by
  intro up low hi
  obtain ⟨up1, low1, k1, i1, t1, m1, s1, c1⟩ := h1 up low hi
  obtain ⟨up2, low2, k2, i2, t2, m2, s2, c2⟩ := h2 up1 low1 i1
  refine ⟨up2, low2, k1 + k2, i2, ?_, ?_, ?_, ?_⟩
  · -- the dropped prefix: the first k1 entries, then k2 entries whose keys are those of dropped entries of the middle ring
    intro x hx
    obtain ⟨n, hn⟩ := List.getElem?_of_mem hx
    rw [List.getElem?_take] at hn
    by_cases hlt : n < k1 + k2
    · rw [if_pos hlt] at hn
      by_cases hk : n < k1
      · exact t1 x (List.mem_of_getElem? (by rw [List.getElem?_take, if_pos hk]; exact hn))
      · have hd : ((up ++ low).drop k1)[n - k1]? = some x := by rw [List.getElem?_drop]; rw [show k1 + (n - k1) = n by omega]; exact hn
        have hm : ((up1 ++ low1).map ekey)[n - k1]? = some (ekey x) := by rw [m1, List.getElem?_map, hd]; rfl
        rw [List.getElem?_map] at hm
        cases hy : (up1 ++ low1)[n - k1]? with
        | none => rw [hy] at hm; cases hm
        | some y =>
          rw [hy] at hm
          have hky : ekey y = ekey x := by simpa using hm
          have hlt2 : n - k1 < k2 := by omega
          have := t2 y (List.mem_of_getElem? (by rw [List.getElem?_take, if_pos hlt2]; exact hy))
          obtain ⟨e1, e2⟩ := ekey_eq hky
          rw [← e1, ← e2]; exact this
    · rw [if_neg hlt] at hn; cases hn
  · have e1 : ((up1 ++ low1).drop k2).map ekey = (((up ++ low).drop k1).drop k2).map ekey := by
      rw [List.map_drop, List.map_drop, m1]
    rw [m2, e1, List.drop_drop]
  · intro n x x'' hx hx'' hs
    rw [← List.drop_drop, List.getElem?_drop] at hx
    -- the entry of the middle ring at the same position
    have hm : ((up1 ++ low1).map ekey)[k2 + n]? = some (ekey x) := by rw [m1, List.getElem?_map, hx]; rfl
    rw [List.getElem?_map] at hm
    cases hy : (up1 ++ low1)[k2 + n]? with
    | none => rw [hy] at hm; cases hm
    | some y =>
      rw [hy] at hm
      have hky : ekey y = ekey x := by simpa using hm
      obtain ⟨e1, e2⟩ := ekey_eq hky
      rcases s1 (k2 + n) x y hx hy hs with hys | hr
      · have hyd : ((up1 ++ low1).drop k2)[n]? = some y := by rw [List.getElem?_drop]; exact hy
        rcases s2 n y x'' hyd hx'' hys with h | h
        · exact Or.inl h
        · rw [e1, e2] at h; exact Or.inr h
      · exact Or.inr hr
  · intro n x x'' hx hx'' hs
    rw [← List.drop_drop, List.getElem?_drop] at hx
    have hm : ((up1 ++ low1).map ekey)[k2 + n]? = some (ekey x) := by rw [m1, List.getElem?_map, hx]; rfl
    rw [List.getElem?_map] at hm
    cases hy : (up1 ++ low1)[k2 + n]? with
    | none => rw [hy] at hm; cases hm
    | some y =>
      have hyd : ((up1 ++ low1).drop k2)[n]? = some y := by rw [List.getElem?_drop]; exact hy
      exact c2 n y x'' hyd hx'' (c1 (k2 + n) x y hx hy hs)

theorem updSt_ekey (o st : Nat) (x : MEntry) : ekey (updSt o st x) = ekey x := by
  unfold updSt ekey; split <;> rfl

theorem map_updSt_ekey (o st : Nat) (l : List MEntry) : (l.map (updSt o st)).map ekey = l.map ekey := by
  rw [List.map_map]; congr 1; funext x; exact updSt_ekey o st x

/-- a state change of a not-confirmed entry to a state other than "confirmed" keeps everything -/
theorem kept_setState (R : List (Nat × Nat)) (q : MsgQueue) (o st : Nat) (hst : st ≠ 0)
    (hcur : ∀ e, q.get o = some e → e.st ≠ 0) : KeptX R q (q.setState o st) := by
  intro up low h
  refine ⟨_, _, 0, setState_inv q up low h o st, by simp, ?_, ?_, ?_⟩
  · rw [← List.map_append, map_updSt_ekey]; simp
  · intro n x x' h1 h2 hs
    simp only [List.drop_zero] at h1
    rw [← List.map_append, List.getElem?_map, h1] at h2
    simp only [Option.map_some, Option.some.injEq] at h2
    subst h2
    left
    unfold updSt
    split
    · exact hst
    · exact hs
  · intro n x x' h1 h2 hs
    simp only [List.drop_zero] at h1
    rw [← List.map_append, List.getElem?_map, h1] at h2
    simp only [Option.map_some, Option.some.injEq] at h2
    subst h2
    unfold updSt
    split
    · rename_i hx
      exfalso
      have := h.data x (List.mem_of_getElem? h1)
      rw [hx] at this
      exact hcur x.2 this hs
    · exact hs

/-- confirming the entry at `o`: only entries at that offset change, and they are the one the reference names -/
theorem kept_setState0 (q : MsgQueue) (o id : Nat) (e : QEntry) (hg : q.get o = some e) (hid : e.id = id) :
    KeptX [(o, id)] q (q.setState o 0) := by
  intro up low h
  refine ⟨_, _, 0, setState_inv q up low h o 0, by simp, ?_, ?_, ?_⟩
  · rw [← List.map_append, map_updSt_ekey]; simp
  rotate_left
  · intro n x x' h1 h2 hs
    simp only [List.drop_zero] at h1
    rw [← List.map_append, List.getElem?_map, h1] at h2
    simp only [Option.map_some, Option.some.injEq] at h2
    subst h2
    unfold updSt
    split
    · rfl
    · exact hs
  · intro n x x' h1 h2 hs
    simp only [List.drop_zero] at h1
    rw [← List.map_append, List.getElem?_map, h1] at h2
    simp only [Option.map_some, Option.some.injEq] at h2
    subst h2
    by_cases hx : x.1 = o
    · right
      have hxm : x ∈ up ++ low := List.mem_of_getElem? h1
      have := h.data x hxm
      rw [hx, hg] at this
      have hxe : x.2 = e := by simpa using this.symm
      simp [hx, hxe, hid]
    · left
      unfold updSt
      rw [if_neg hx]; exact hs

theorem kept_removeFirst (R : List (Nat × Nat)) (q : MsgQueue) (o id : Nat) (e : QEntry) (hc : q.count > 0)
    (hf : q.first = some o) (hg : q.get o = some e) (hid : e.id = id) (hR : (o, id) ∈ R) : KeptX R q q.removeFirst := by
  intro up low h
  cases up with
  | nil =>
    have := h.lowup rfl; subst this
    have : q.count = 0 := by simpa using h.count
    omega
  | cons u0 rest =>
    obtain ⟨hfirst, _, _, _⟩ := h.upper u0 rest rfl
    have hu0 : u0.1 = o := by rw [hf] at hfirst; simpa using hfirst.symm
    have hu0e : u0.2 = e := by
      have := h.data u0 (by simp)
      rw [hu0, hg] at this; simpa using this.symm
    obtain ⟨h1, h2⟩ := removeFirst_refines q u0 rest low h
    have hdrop : ∀ x ∈ ((u0 :: rest) ++ low).take 1, (x.1, x.2.id) ∈ R := by
      intro x hx
      simp at hx
      rw [hx, hu0, hu0e, hid]; exact hR
    by_cases hr : rest = []
    · subst hr
      refine ⟨low, [], 1, h2 rfl, hdrop, by simp, ?_, ?_⟩
      · intro n x x' a b c
        simp at a b
        rw [a] at b; cases b; exact Or.inl c
      · intro n x x' a b c
        simp at a b
        rw [a] at b; cases b; exact c
    · refine ⟨rest, low, 1, h1 hr, hdrop, by simp, ?_, ?_⟩
      · intro n x x' a b c
        simp at a b
        rw [a] at b; cases b; exact Or.inl c
      · intro n x x' a b c
        simp at a b
        rw [a] at b; cases b; exact c

/-- **`markAsduAsConfirmed` with ANY reference (offset, id)**: nothing is removed or confirmed but the entry the reference
designates -/
theorem kept_markConfirmed (q : MsgQueue) (o id : Nat) : KeptX [(o, id)] q (q.markConfirmed o id) := by
  unfold MsgQueue.markConfirmed
  split
  · rename_i hc
    split
    · split
      · rename_i e hg
        split
        · rename_i hid
          have hid' : e.id = id := by simpa using hid
          simp only
          split
          · rename_i hfo
            have hfo' : q.first = some o := by
              have : some o = q.first := by simpa using hfo
              exact this.symm
            refine KeptX.trans (kept_setState0 q o id e hg hid') ?_
            have hg1 : (q.setState o 0).get o = some { e with st := 0 } := by
              rw [get_setState]; simp [hg]
            exact kept_removeFirst _ (q.setState o 0) o id { e with st := 0 } (by rw [setState_count]; exact hc)
              hfo' hg1 hid' (by simp)
          · exact kept_setState0 q o id e hg hid'
        · exact KeptX.refl _ _
      · exact KeptX.refl _ _
    · exact KeptX.refl _ _
  · exact KeptX.refl _ _

theorem kept_getNextWaiting (R : List (Nat × Nat)) (q : MsgQueue) : KeptX R q q.getNextWaiting.1 := by
  intro up low h
  have hr := getNextWaiting_refines q up low h
  cases hfind : (up ++ low).find? (fun x => x.2.st == 1) with
  | none =>
    rw [hfind] at hr
    simp only at hr
    rw [hr]
    exact KeptX.refl R q up low h
  | some x =>
    rw [hfind] at hr
    simp only at hr
    rw [hr.1]
    have hx : x ∈ up ++ low := List.mem_of_find?_eq_some hfind
    have hst : x.2.st = 1 := by have := List.find?_some hfind; simpa using this
    exact kept_setState R q x.1 2 (by decide) (fun e he => by
      rw [h.data x hx] at he
      have : x.2 = e := by simpa using he
      rw [← this, hst]; decide) up low h

theorem kept_setEntryWaiting (R : List (Nat × Nat)) (q : MsgQueue) (o id : Nat) : KeptX R q (q.setEntryWaiting o id) := by
  unfold MsgQueue.setEntryWaiting
  split
  · split
    · split
      · rename_i e hg
        split
        · rename_i hc
          simp only [Bool.and_eq_true, beq_iff_eq] at hc
          exact kept_setState R q o 1 (by decide) (fun e' he' => by
            rw [hg] at he'
            have : e = e' := by simpa using he'
            rw [← this, hc.2]; decide)
        · exact KeptX.refl _ _
      · exact KeptX.refl _ _
    · exact KeptX.refl _ _
  · exact KeptX.refl _ _

end Iec.Queues
