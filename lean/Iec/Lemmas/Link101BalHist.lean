/-
Balanced station, secondary part: however often the peer repeats a confirmed user-data frame, the application sees it
once (history-level counterpart of `Iec.Props.C15.bal_repeat`).
-/
import Iec.Lemmas.Link101Hist
namespace Iec.Link101

/-- a confirmed user-data frame (FC 3, FCV = 1) as the received frame left it in the buffer -/
structure BReq where
  buf : List Nat
  udStart : Nat
  udLen : Int
  deriving Repr, DecidableEq

def BReq.payload (r : BReq) : List (List Nat) := if r.udLen > 0 then [userDataOf r.buf r.udStart r.udLen] else []

/-- the station receives the frame with frame count bit `fcb`; between two receptions the application may change its
mind about accepting (`acc`) -/
def Bal.dataReq (s : Bal) (r : BReq) (fcb acc : Bool) : Bal × List Obs :=
  ({ s with ll := { s.ll with buf := r.buf }, accept := acc } : Bal).secHandle 3 fcb true r.udStart r.udLen

theorem bal_ack_rx (s : Bal) : rxOf (s.ack).2 = [] ∧ (s.ack).1.expectedFcb = s.expectedFcb := by
  unfold Bal.ack
  split <;> exact ⟨rfl, rfl⟩

/-- one reception: delivered iff the bit is the expected one, which then toggles -/
theorem bal_dataReq_spec (s : Bal) (r : BReq) (fcb acc : Bool) :
    rxOf (s.dataReq r fcb acc).2 = (if fcb = s.expectedFcb then r.payload else []) ∧
    (s.dataReq r fcb acc).1.expectedFcb = (if fcb = s.expectedFcb then !s.expectedFcb else s.expectedFcb) := by
  unfold Bal.dataReq Bal.secHandle
  have hck : checkFCB s.expectedFcb fcb = if fcb = s.expectedFcb then (true, !s.expectedFcb) else (false, s.expectedFcb) := by
    cases s.expectedFcb <;> cases fcb <;> rfl
  simp only [if_true]
  rw [show (({ s with ll := { s.ll with buf := r.buf }, accept := acc } : Bal).expectedFcb) = s.expectedFcb from rfl, hck]
  by_cases h : fcb = s.expectedFcb
  · simp only [h, if_true, Bool.not_true, Bool.false_eq_true, if_false, show (3 : Nat) ≠ 0 by decide, show (3 : Nat) ≠ 2 by decide]
    by_cases hl : r.udLen > 0
    · simp only [hl, if_true]
      cases acc
      · simp [rxOf, BReq.payload, hl]
      · simp only [if_true]
        obtain ⟨a, b⟩ := bal_ack_rx ({ ({ ({ s with ll := { s.ll with buf := r.buf }, accept := true } : Bal) with expectedFcb := !s.expectedFcb } : Bal) with lastAck := true } : Bal)
        constructor
        · rw [rxOf_append, a]
          simp [rxOf, BReq.payload, hl]
        · exact b
    · simp [hl, BReq.payload, rxOf]
  · simp only [h, if_false, Bool.not_false, if_true]
    split
    · obtain ⟨a, b⟩ := bal_ack_rx ({ ({ s with ll := { s.ll with buf := r.buf }, accept := acc } : Bal) with expectedFcb := s.expectedFcb } : Bal)
      exact ⟨a, b⟩
    · exact ⟨rfl, rfl⟩

/-- the same frame arrives again, with whatever the application answers each time -/
def Bal.repeatData (s : Bal) (r : BReq) (fcb : Bool) : List Bool → Bal × List Obs
  | [] => (s, [])
  | acc :: accs =>
    let r1 := s.dataReq r fcb acc
    let r2 := Bal.repeatData r1.1 r fcb accs
    (r2.1, r1.2 ++ r2.2)

/-- a peer in step with the station sends each frame with the bit the station expects and repeats it (ACK lost, not
given, or late) any number of times -/
def Bal.runData (s : Bal) : List (BReq × Bool × List Bool) → Bal × List Obs
  | [] => (s, [])
  | (r, acc, accs) :: rest =>
    let fcb := s.expectedFcb
    let r1 := s.dataReq r fcb acc
    let r2 := r1.1.repeatData r fcb accs
    let r3 := Bal.runData r2.1 rest
    (r3.1, r1.2 ++ r2.2 ++ r3.2)

theorem bal_repeat_spec (r : BReq) (fcb : Bool) : ∀ (accs : List Bool) (s : Bal), fcb ≠ s.expectedFcb →
    rxOf (s.repeatData r fcb accs).2 = [] ∧ (s.repeatData r fcb accs).1.expectedFcb = s.expectedFcb := by
  intro accs
  induction accs with
  | nil => intro s _; exact ⟨rfl, rfl⟩
  | cons a accs ih =>
    intro s hne
    obtain ⟨h1, h2⟩ := bal_dataReq_spec s r fcb a
    rw [if_neg hne] at h1 h2
    obtain ⟨i1, i2⟩ := ih (s.dataReq r fcb a).1 (by rw [h2]; exact hne)
    unfold Bal.repeatData
    simp only [rxOf_append]
    rw [h1, i1, i2, h2]
    exact ⟨rfl, rfl⟩

/-- **balanced station: every confirmed user-data frame reaches the application exactly once, in order, whatever the
repetitions and whatever the application answers** -/
theorem bal_runData_spec : ∀ (rs : List (BReq × Bool × List Bool)) (s : Bal),
    rxOf (s.runData rs).2 = (rs.map fun x => x.1.payload).flatten ∧
    (s.runData rs).1.expectedFcb = (if rs.length % 2 = 0 then s.expectedFcb else !s.expectedFcb) := by
  intro rs
  induction rs with
  | nil => intro s; exact ⟨rfl, rfl⟩
  | cons x rest ih =>
    obtain ⟨r, acc, accs⟩ := x
    intro s
    obtain ⟨h1, h2⟩ := bal_dataReq_spec s r s.expectedFcb acc
    simp only [if_true] at h1 h2
    have hne : s.expectedFcb ≠ (s.dataReq r s.expectedFcb acc).1.expectedFcb := by
      rw [h2]; cases s.expectedFcb <;> decide
    obtain ⟨j1, j2⟩ := bal_repeat_spec r s.expectedFcb accs (s.dataReq r s.expectedFcb acc).1 hne
    obtain ⟨k1, k2⟩ := ih ((s.dataReq r s.expectedFcb acc).1.repeatData r s.expectedFcb accs).1
    unfold Bal.runData
    simp only [rxOf_append]
    rw [h1, j1, k1, k2, j2, h2]
    refine ⟨by simp, ?_⟩
    simp only [List.length_cons]
    by_cases h : rest.length % 2 = 0
    · have : ¬ (rest.length + 1) % 2 = 0 := by omega
      simp [h, this]
    · have : (rest.length + 1) % 2 = 0 := by omega
      simp [h, this]

end Iec.Link101
