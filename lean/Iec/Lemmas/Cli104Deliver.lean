/-
What the client hands to the application over every sequence of received messages: exactly the payloads of the
deliverable I-format APDUs (N(S) = V(R), N(R) inside the window, ASDU header complete), once each, in arrival order.
-/
import Iec.Lemmas.Cli104Vr
namespace Iec.Cli104
open Iec.KWindow Iec.Srv104

def asduLogC (log : List Obs) : List (List Nat) :=
  log.filterMap fun o => match o with
    | .asdu a => some a
    | _ => none

theorem asduLogC_append (a b : List Obs) : asduLogC (a ++ b) = asduLogC a ++ asduLogC b := by simp [asduLogC, List.filterMap_append]

/-- the I-format APDU passes both sequence checks and carries at least an ASDU header -/
def CDeliverable (c : Cli) (buf : List Nat) : Prop := CAccepted c buf ∧ c.p.asduHdr ≤ buf.length - 6

instance (c : Cli) (buf : List Nat) : Decidable (CDeliverable c buf) := by unfold CDeliverable; infer_instance

theorem write_asduLog (c : Cli) (b : List Nat) : asduLogC (write c b).log = asduLogC c.log := by
  unfold write emit
  repeat' split
  all_goals simp [asduLogC]

set_option linter.unusedSimpArgs false in
/-- **`checkMessage`: exactly the deliverable I-format APDUs are handed over, once** -/
theorem checkMessage_asdu (c : Cli) (buf : List Nat) :
    asduLogC (checkMessage c buf).1.log = asduLogC c.log ++ (if CDeliverable c buf then [buf.drop 6] else []) := by
  unfold checkMessage CDeliverable CAccepted frameNS frameNR
  simp only
  repeat' split
  all_goals first
    | (simp_all [checkSeq_fst, write_asduLog, emit, asduLogC]; done)
    | (simp_all [checkSeq_fst, write_asduLog, emit, asduLogC] <;> omega)
    | (have hw := write_asduLog; simp_all [checkSeq_fst, emit, asduLogC]; done)

/-- the messages are checked one after the other until one of them closes the connection -/
def recvRunC (c : Cli) : List (List Nat) → Cli × Bool
  | [] => (c, true)
  | m :: ms => if (checkMessage c m).2 then recvRunC (checkMessage c m).1 ms else ((checkMessage c m).1, false)

def expectedDeliveriesC (c : Cli) : List (List Nat) → List (List Nat)
  | [] => []
  | m :: ms => (if CDeliverable c m then [m.drop 6] else []) ++
      (if (checkMessage c m).2 then expectedDeliveriesC (checkMessage c m).1 ms else [])

/-- **exactly once, in arrival order, iff deliverable - over every sequence of received messages** -/
theorem deliveries_specC : ∀ (ms : List (List Nat)) (c : Cli),
    asduLogC (recvRunC c ms).1.log = asduLogC c.log ++ expectedDeliveriesC c ms := by
  intro ms
  induction ms with
  | nil => intro c; simp [recvRunC, expectedDeliveriesC]
  | cons m ms ih =>
    intro c
    unfold recvRunC expectedDeliveriesC
    have h1 := checkMessage_asdu c m
    by_cases hok : (checkMessage c m).2 = true
    · rw [if_pos hok, if_pos hok, ih, h1]; simp
    · rw [if_neg hok, if_neg hok, h1]; simp

end Iec.Cli104
