/-
ASDUs are handed to the application only by the I-format branch of `handleMessage`: every other function the reception
runs extends the log by observations none of which is an ASDU delivery (`ExtNoAsdu`, here `NA`).  With `iframe_delivery`
this gives C05 over every sequence of received messages: what the application is handed is exactly the payload of the
deliverable I-format APDUs, once each, in arrival order.
-/
import Iec.Lemmas.Srv104Started
import Iec.Lemmas.Srv104Vr
namespace Iec.Srv104
open Iec.KWindow Iec.Queues

abbrev NA := ExtNoAsdu
theorem NA.refl (s : Slave) : NA s s := ext_refl s
theorem NA.trans {a b c : Slave} (h1 : NA a b) (h2 : NA b c) : NA a c := ext_trans h1 h2
theorem na_emit (s : Slave) (o : Obs) (h : o.isAsdu = false) : NA s (emit s o) := ext_emit s o h
theorem na_setGrp (s : Slave) (g : Nat) (x : Group) : NA s (s.setGrp g x) := ext_of_log_eq rfl
theorem na_write (s : Slave) (i : Nat) (b : List Nat) : NA s (write s i b).1 := ext_write s i b
def DummyA (_ _ : Conn) : Prop := True
theorem na_setConn (s : Slave) (i : Nat) (c : Conn) (_ : DummyA (s.conn i) c) : NA s (s.setConn i c) := ext_of_log_eq rfl
macro "nac" : tactic => `(tactic| exact trivial)

theorem na_sendS (s : Slave) (i : Nat) : NA s (sendS s i) := by
  unfold sendS
  simp only
  have hw := na_write s i [0x68, 0x04, 0x01, 0, seqLo (s.conn i).vr, seqHi (s.conn i).vr]
  generalize write s i [0x68, 0x04, 0x01, 0, seqLo (s.conn i).vr, seqHi (s.conn i).vr] = r at hw
  obtain ⟨s1, ok⟩ := r
  simp only at hw ⊢
  split
  · exact hw
  · exact NA.trans hw (na_setConn _ _ _ (by nac))

theorem na_deactivate (s : Slave) (i : Nat) : NA s (deactivate s i) := by
  unfold deactivate
  simp only
  split
  · exact NA.trans (na_emit s _ (by rfl)) (na_setConn _ _ _ (by nac))
  · exact na_setConn _ _ _ (by nac)

theorem na_confirmReleased (rel : List KEntry) : ∀ (s : Slave) (i : Nat), NA s (confirmReleased s i rel) := by
  intro s i
  have hf := confirmReleased_facts rel s i
  exact ext_of_log_eq hf.2.1

theorem na_checkSeqConn (s : Slave) (i : Nat) (nr : Nat) : NA s (checkSeqConn s i nr).1 := by
  unfold checkSeqConn
  simp only
  generalize checkSeq (s.conn i).vs (s.conn i).win nr = r
  obtain ⟨ok, w, rel⟩ := r
  simp only
  exact NA.trans (na_setConn _ _ _ (by nac)) (na_confirmReleased _ _ _)

theorem na_foldl {α} (f : Slave → α → Slave) (hf : ∀ s a, NA s (f s a)) : ∀ (l : List α) (s : Slave), NA s (l.foldl f s) := by
  intro l
  induction l with
  | nil => intro s; exact NA.refl s
  | cons a l ih => intro s; exact NA.trans (hf s a) (ih _)

/-- peel the outermost state transformer off a `NA s (F …)` goal (syntactic match only) -/
macro "na_step" : tactic => `(tactic| first
  | with_reducible exact NA.refl _
  | ((with_reducible refine NA.trans ?_ (na_setConn _ _ _ ?_)) <;> (try nac))
  | with_reducible refine NA.trans ?_ (na_emit _ _ (by rfl))
  | with_reducible refine NA.trans ?_ (na_setGrp _ _ _)
  | with_reducible refine NA.trans ?_ (na_write _ _ _)
  | with_reducible refine NA.trans ?_ (na_sendS _ _)
  | with_reducible refine NA.trans ?_ (ext_sendI _ _ _ _)
  | with_reducible refine NA.trans ?_ (ext_sendAsduInternal _ _ _)
  | with_reducible refine NA.trans ?_ (na_deactivate _ _)
  | with_reducible refine NA.trans ?_ (na_checkSeqConn _ _ _)
  )

theorem na_receiveMessage (s : Slave) (i : Nat) : NA s (receiveMessage s i).1 := by
  unfold receiveMessage
  simp only
  exact na_setConn _ _ _ (by nac)

theorem na_ackIfW (s : Slave) (i : Nat) : NA s (ackIfW s i) := by
  unfold ackIfW
  simp only
  split
  · exact NA.trans (na_setConn _ _ _ (by nac)) (na_sendS _ _)
  · exact NA.refl s

theorem na_sendWaitingHigh (i : Nat) : ∀ (fuel : Nat) (s : Slave), NA s (sendWaitingHigh s i fuel).1 := by
  intro fuel
  induction fuel with
  | zero => intro s; exact NA.refl s
  | succ n ih =>
    intro s
    unfold sendWaitingHigh
    simp only
    repeat' split
    all_goals first
      | exact NA.refl _
      | exact na_setGrp _ _ _
      | exact NA.trans (na_setGrp _ _ _) (ext_sendI _ _ _ _)
      | exact NA.trans (NA.trans (na_setGrp _ _ _) (ext_sendI _ _ _ _)) (ih _)

theorem na_sendWaitingASDUs (s : Slave) (i : Nat) : NA s (sendWaitingASDUs s i) := by
  unfold sendWaitingASDUs
  have h1 := na_sendWaitingHigh i ((s.grp (s.gidx i)).highQ.count + 1) s
  simp only
  repeat' split
  all_goals first
    | exact h1
    | exact NA.trans h1 (na_setGrp _ _ _)
    | exact NA.trans h1 (NA.trans (na_setGrp _ _ _) (ext_sendI _ _ _ _))

/-- unfold nothing, split every `if` / `match`, name every `let`, peel the state transformers from the outside -/
macro "na_auto" : tactic => `(tactic| repeat' (first
  | (with_reducible exact NA.refl _)
  | nac
  | split
  | extract_lets
  | na_step
  | (dsimp (config := { zetaDelta := true, zeta := false }) only)))

theorem na_phaseT3 (s : Slave) (i : Nat) : NA s (phaseT3 s i) := by
  unfold phaseT3
  try simp (config := { zeta := false }) only []
  na_auto

theorem na_phaseTestFR (s : Slave) (i : Nat) : NA s (phaseTestFR s i).1 := by
  unfold phaseTestFR
  try simp (config := { zeta := false }) only []
  na_auto

theorem na_phaseT2 (s : Slave) (i : Nat) : NA s (phaseT2 s i) := by
  unfold phaseT2
  try simp (config := { zeta := false }) only []
  na_auto

theorem na_phaseT1 (s : Slave) (i : Nat) (ok : Bool) : NA s (phaseT1 s i ok).1 := by
  unfold phaseT1
  try simp (config := { zeta := false }) only []
  na_auto

theorem na_handleTimeouts (s : Slave) (i : Nat) : NA s (handleTimeouts s i).1 := by
  unfold handleTimeouts
  try simp (config := { zeta := false }) only []
  exact NA.trans (na_phaseT3 s i) (NA.trans (na_phaseTestFR _ i) (NA.trans (na_phaseT2 _ i) (na_phaseT1 _ i _)))

theorem na_periodic (s : Slave) (i : Nat) : NA s (periodic s i) := by
  unfold periodic
  have h1 : NA s (if (s.conn i).state = 1 then sendWaitingASDUs s i else s) := by
    split
    · exact na_sendWaitingASDUs s i
    · exact NA.refl s
  extract_lets s1
  have h2 := na_handleTimeouts s1 i
  generalize handleTimeouts s1 i = r at h2
  obtain ⟨s2, ok⟩ := r
  show NA s (if (!ok) = true then s2.setConn i { s2.conn i with isRunning := false } else s2)
  split
  · exact NA.trans h1 (NA.trans h2 (na_setConn _ _ _ (by nac)))
  · exact NA.trans h1 h2

theorem na_resetUnconfirmed (s : Slave) (j : Nat) : NA s (resetUnconfirmed s j) := by
  unfold resetUnconfirmed
  apply na_foldl
  intro t e
  split
  · exact na_setGrp _ _ _
  · exact NA.refl t

theorem na_t3upd (s : Slave) (i : Nat) : NA s (t3upd s i) := by
  unfold t3upd; exact na_setConn _ _ _ (by nac)

theorem na_hmTestFR (s : Slave) (i : Nat) : NA s (hmTestFR s i).1 := by
  unfold hmTestFR
  have h := na_write s i TESTFR_CON
  generalize write s i TESTFR_CON = r at h
  obtain ⟨s1, ok⟩ := r
  show NA s (if ok = true then (t3upd s1 i, true) else (s1, false)).1
  split
  · exact NA.trans h (na_t3upd _ _)
  · exact h

theorem na_stopTail (s : Slave) (i : Nat) (c : Conn) (hc : DummyA (s.conn i) c) :
    NA s (let s := s.setConn i c
              let (s, ok) := write s i STOPDT_CON
              if ok then (t3upd s i, true) else (s, false)).1 := by
  extract_lets s1
  have h1 : NA s s1 := na_setConn _ _ _ hc
  have h := na_write s1 i STOPDT_CON
  generalize write s1 i STOPDT_CON = r at h
  obtain ⟨s2, ok⟩ := r
  show NA s (if ok = true then (t3upd s2 i, true) else (s2, false)).1
  split
  · exact NA.trans h1 (NA.trans h (na_t3upd _ _))
  · exact NA.trans h1 h

theorem na_hmStopDT (s : Slave) (i : Nat) : NA s (hmStopDT s i).1 := by
  unfold hmStopDT
  extract_lets s0 c s1
  have h0 : NA s s0 := na_deactivate s i
  have h1 : NA s0 s1 := by
    dsimp only [s1]
    split
    · exact NA.trans (na_setConn _ _ _ (by dsimp only [c]; nac)) (na_sendS _ _)
    · exact NA.refl _
  split
  · exact NA.trans h0 (NA.trans h1 (na_t3upd _ _))
  · exact NA.trans h0 (NA.trans h1 (na_stopTail s1 i _ (by nac)))

theorem na_hmS (s : Slave) (i : Nat) (buf : List Nat) : NA s (hmS s i buf).1 := by
  unfold hmS
  extract_lets nr
  have h := na_checkSeqConn s i nr
  generalize checkSeqConn s i nr = r at h
  obtain ⟨s1, ok⟩ := r
  dsimp only at h
  show NA s (if (!ok) = true then (s1, false) else _).1
  split
  · exact h
  · extract_lets c
    split
    · split
      · exact NA.trans h (na_stopTail s1 i _ (by dsimp only [c]; nac))
      · exact NA.trans h (na_t3upd _ _)
    · split
      · exact h
      · exact NA.trans h (na_t3upd _ _)


theorem na_activate (s : Slave) (i : Nat) : NA s (activate s i) := by
  unfold activate
  simp only
  generalize (List.filter _ (List.range s.conns.length)) = js
  have h0 : NA s (js.foldl deactivate s) := na_foldl _ (fun t j => na_deactivate t j) _ _
  generalize js.foldl deactivate s = t at h0
  refine NA.trans h0 ?_
  unfold activateConn
  simp only
  split
  · exact NA.trans (na_emit _ _ (by rfl)) (ext_of_log_eq rfl)
  · exact ext_of_log_eq rfl

theorem na_hmStartDT (s : Slave) (i : Nat) : NA s (hmStartDT s i).1 := by
  unfold hmStartDT
  extract_lets s0 g s1
  have h0 : NA s s0 := na_activate s i
  have h1 : NA s0 s1 := na_setGrp _ _ _
  have h := na_write s1 i STARTDT_CON
  generalize write s1 i STARTDT_CON = r at h
  obtain ⟨s2, ok⟩ := r
  show NA s (if ok = true then (t3upd s2 i, true) else (s2, false)).1
  split
  · exact NA.trans h0 (NA.trans h1 (NA.trans h (na_t3upd _ _)))
  · exact NA.trans h0 (NA.trans h1 h)

/-- the message is a well-framed I-format APDU on a started connection that passes both sequence checks and carries at
least an ASDU header -/
def Deliverable (s : Slave) (i : Nat) (buf : List Nat) : Prop :=
  buf.getD 0 0 = 0x68 ∧ buf.getD 1 0 = buf.length - 2 ∧ buf.getD 2 0 &&& 1 = 0 ∧ 7 ≤ buf.length ∧
  (s.conn i).state = 1 ∧ IAccept s i buf

instance (s : Slave) (i : Nat) (buf : List Nat) : Decidable (Deliverable s i buf) := by unfold Deliverable; infer_instance

/-- **`handleMessage`: exactly the deliverable I-format APDUs are handed to the application, once; nothing else is** -/
theorem handleMessage_delivery (s : Slave) (i : Nat) (hi : i < s.conns.length) (buf : List Nat) :
    (Deliverable s i buf → (handleMessage s i buf).2 = true ∧
      ∃ l, (handleMessage s i buf).1.log = s.log ++ (.asdu i (buf.drop 6)) :: l ∧ ∀ o ∈ l, o.isAsdu = false) ∧
    (¬ Deliverable s i buf → NA s (handleMessage s i buf).1) := by
  unfold handleMessage Deliverable
  extract_lets n b2
  split
  · rename_i h; exact ⟨fun ha => by have := ha.2.2.2.1; omega, fun _ => NA.refl s⟩
  split
  · rename_i h; exact ⟨fun ha => by rw [ha.1] at h; simp at h, fun _ => NA.refl s⟩
  split
  · rename_i h; exact ⟨fun ha => by rw [ha.2.1] at h; simp [n] at h, fun _ => NA.refl s⟩
  split
  · rename_i h6 h0 h1 hI
    have h0' : buf.getD 0 0 = 0x68 := by simpa using h0
    have h1' : buf.getD 1 0 = buf.length - 2 := by simpa [n] using h1
    have hI' : buf.getD 2 0 &&& 1 = 0 := by simpa [b2] using hI
    by_cases h7 : 7 ≤ buf.length
    · by_cases hst : (s.conn i).state = 1
      · obtain ⟨a, b⟩ := iframe_delivery s i hi buf h7 hst
        refine ⟨fun ha => a ha.2.2.2.2.2, fun hn => ?_⟩
        have := b (fun hacc => hn ⟨h0', h1', hI', h7, hst, hacc⟩)
        exact ext_of_log_eq this.2
      · refine ⟨fun ha => absurd ha.2.2.2.2.1 hst, fun _ => ?_⟩
        unfold handleI
        have hn7 : ¬ buf.length < 7 := by omega
        have hs1 : (((s.conn i).state != 1) = true) := by simpa using hst
        simp only [hn7, hs1, if_false, if_true]
        exact NA.refl s
    · refine ⟨fun ha => absurd ha.2.2.2.1 h7, fun _ => ?_⟩
      unfold handleI
      have hn7 : buf.length < 7 := by omega
      simp only [hn7, if_true]
      exact NA.refl s
  · rename_i hI
    have hnI : ¬ (buf.getD 2 0 &&& 1 = 0) := by simpa [b2] using hI
    refine ⟨fun ha => absurd ha.2.2.1 hnI, fun _ => ?_⟩
    split
    · exact na_hmTestFR s i
    split
    · exact na_hmStartDT s i
    split
    · exact na_hmStopDT s i
    split
    · exact NA.trans (na_setConn _ _ _ (by nac)) (na_t3upd _ _)
    split
    · exact na_hmS s i buf
    · exact NA.refl s

/-! ### every sequence of received messages -/

/-- what the application has been handed, in order: (connection, ASDU octets) -/
def asduLog (log : List Obs) : List (Nat × List Nat) :=
  log.filterMap fun o => match o with
    | .asdu c a => some (c, a)
    | _ => none

theorem asduLog_append (a b : List Obs) : asduLog (a ++ b) = asduLog a ++ asduLog b := by simp [asduLog, List.filterMap_append]

theorem asduLog_noAsdu (l : List Obs) (h : ∀ o ∈ l, o.isAsdu = false) : asduLog l = [] := by
  induction l with
  | nil => rfl
  | cons o l ih =>
    have ho := h o (by simp)
    have := ih (fun x hx => h x (by simp [hx]))
    cases o <;> simp_all [asduLog, Obs.isAsdu]

theorem asduLog_na {s s' : Slave} (h : NA s s') : asduLog s'.log = asduLog s.log := by
  obtain ⟨l, e, n⟩ := h
  rw [e, asduLog_append, asduLog_noAsdu l n]; simp

/-- the messages are handled one after the other until one of them closes the connection -/
def recvRun (s : Slave) (i : Nat) : List (List Nat) → Slave × Bool
  | [] => (s, true)
  | m :: ms => if (handleMessage s i m).2 then recvRun (handleMessage s i m).1 i ms else ((handleMessage s i m).1, false)

/-- the specification: the payload of every deliverable I-format APDU (judged in the state it arrives in), in arrival
order, up to the message that closes the connection -/
def expectedDeliveries (s : Slave) (i : Nat) : List (List Nat) → List (List Nat)
  | [] => []
  | m :: ms => (if Deliverable s i m then [m.drop 6] else []) ++
      (if (handleMessage s i m).2 then expectedDeliveries (handleMessage s i m).1 i ms else [])

theorem handleMessage_len (s : Slave) (i : Nat) (hi : i < s.conns.length) (buf : List Nat) :
    (handleMessage s i buf).1.conns.length = s.conns.length := by
  obtain ⟨a, b⟩ := handleMessage_vr s i hi buf
  by_cases h : Accepted s i buf
  · exact (a h).1
  · exact (b h).1

/-- **exactly once, in arrival order, iff deliverable - over every sequence of received messages** -/
theorem deliveries_spec : ∀ (ms : List (List Nat)) (s : Slave) (i : Nat), i < s.conns.length →
    asduLog (recvRun s i ms).1.log = asduLog s.log ++ (expectedDeliveries s i ms).map (fun a => (i, a)) := by
  intro ms
  induction ms with
  | nil => intro s i _; simp [recvRun, expectedDeliveries]
  | cons m ms ih =>
    intro s i hi
    obtain ⟨a, b⟩ := handleMessage_delivery s i hi m
    have hlen := handleMessage_len s i hi m
    unfold recvRun expectedDeliveries
    by_cases hd : Deliverable s i m
    · obtain ⟨hok, l, hl, hn⟩ := a hd
      have h1 : asduLog (handleMessage s i m).1.log = asduLog s.log ++ [(i, m.drop 6)] := by
        rw [hl, asduLog_append]
        have : asduLog (Obs.asdu i (m.drop 6) :: l) = (i, m.drop 6) :: asduLog l := by simp [asduLog]
        rw [this, asduLog_noAsdu l hn]
      rw [if_pos hok, if_pos hd, if_pos hok, ih _ i (by rw [hlen]; exact hi), h1]
      simp
    · have h1 := asduLog_na (b hd)
      rw [if_neg hd]
      by_cases hok : (handleMessage s i m).2 = true
      · rw [if_pos hok, if_pos hok, ih _ i (by rw [hlen]; exact hi), h1]; simp
      · rw [if_neg hok, if_neg hok, h1]; simp

end Iec.Srv104
