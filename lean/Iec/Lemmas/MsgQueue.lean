import Iec.Model.Queues
/-
Refinement of the event ring of cs104_slave.c (`Iec.Queues.MsgQueue`: byte offsets, 16-octet entry
headers, pointers first / last / lastInBuffer, association memory) to a list of entries, oldest first.

Layout invariant `MqInv q up low` as for the reply ring: `up` lies back to back from `first` up to `lib`,
`low` (present once the ring has wrapped) lies back to back from offset 0 and ends at or below `first`.
Enqueueing never fails; it displaces a prefix (the oldest entries) of the list.
-/
namespace Iec.Queues

abbrev MEntry := Nat × QEntry

def esz (x : MEntry) : Nat := HDR + x.2.data.length

/-- entries laid out back to back from offset `o` -/
def MChain : Nat → List MEntry → Prop
  | _, [] => True
  | o, x :: rest => x.1 = o ∧ MChain (o + esz x) rest

def mEnd : Nat → List MEntry → Nat
  | o, [] => o
  | o, x :: rest => mEnd (o + esz x) rest

def mLast (xs : List MEntry) : Nat := (xs.getLast?.map (·.1)).getD 0

theorem mEnd_append (o : Nat) (xs ys : List MEntry) : mEnd o (xs ++ ys) = mEnd (mEnd o xs) ys := by
  induction xs generalizing o with
  | nil => rfl
  | cons x xs ih => simp [mEnd, ih]

theorem mChain_append (o : Nat) (xs ys : List MEntry) : MChain o (xs ++ ys) ↔ MChain o xs ∧ MChain (mEnd o xs) ys := by
  induction xs generalizing o with
  | nil => simp [MChain, mEnd]
  | cons x xs ih => simp [MChain, mEnd, ih, and_assoc]

theorem mChain_bounds (o : Nat) (xs : List MEntry) (h : MChain o xs) :
    o ≤ mEnd o xs ∧ ∀ x ∈ xs, o ≤ x.1 ∧ x.1 + esz x ≤ mEnd o xs := by
  induction xs generalizing o with
  | nil => simp [mEnd]
  | cons x xs ih =>
    obtain ⟨hx, hr⟩ := h
    obtain ⟨h1, h2⟩ := ih _ hr
    refine ⟨by simp only [mEnd]; omega, ?_⟩
    intro y hy
    simp only [mEnd]
    rcases List.mem_cons.mp hy with rfl | hy
    · exact ⟨by omega, by rw [hx]; exact h1⟩
    · obtain ⟨h3, h4⟩ := h2 y hy
      exact ⟨by omega, h4⟩

theorem mChain_last (o : Nat) (xs : List MEntry) (x : MEntry) (h : MChain o (xs ++ [x])) :
    mLast (xs ++ [x]) = x.1 ∧ mEnd o (xs ++ [x]) = x.1 + esz x ∧ x.1 = mEnd o xs := by
  have h2 := (mChain_append o xs [x]).mp h
  obtain ⟨hx, _⟩ := h2.2
  refine ⟨by simp [mLast], ?_, hx⟩
  rw [mEnd_append]; simp [mEnd, hx]

theorem mLast_cons (x : MEntry) (xs : List MEntry) (h : xs ≠ []) : mLast (x :: xs) = mLast xs := by
  cases xs with
  | nil => exact absurd rfl h
  | cons y ys => simp [mLast, List.getLast?_cons_cons]

theorem mLast_single (x : MEntry) : mLast [x] = x.1 := by simp [mLast]
theorem mLast_snoc (xs : List MEntry) (x : MEntry) : mLast (xs ++ [x]) = x.1 := by simp [mLast]

theorem msnoc_cases {α} (l : List α) (h : l ≠ []) : ∃ L b, l = L ++ [b] := by
  rcases List.eq_nil_or_concat l with h' | ⟨L, b, h'⟩
  · exact absurd h' h
  · exact ⟨L, b, by rw [h']; simp⟩

theorem mChain_lastOff (o : Nat) (xs : List MEntry) (h : MChain o xs) (hne : xs ≠ []) :
    o ≤ mLast xs ∧ mLast xs < mEnd o xs := by
  obtain ⟨L, b, rfl⟩ := msnoc_cases xs hne
  obtain ⟨h1, h2, h3⟩ := mChain_last o L b h
  have := (mChain_bounds o L ((mChain_append o L [b]).mp h).1).1
  rw [h1, h2]; simp only [esz, HDR]; omega

/-- **layout invariant** of the event ring -/
structure MqInv (q : MsgQueue) (up low : List MEntry) : Prop where
  count : q.count = up.length + low.length
  data : ∀ x ∈ up ++ low, q.get x.1 = some x.2
  lowup : up = [] → low = []
  upper : ∀ u0 rest, up = u0 :: rest →
    q.first = some u0.1 ∧ MChain u0.1 up ∧ mEnd u0.1 up ≤ q.size ∧ q.lib = some (mLast up)
  lastU : up ≠ [] → low = [] → q.last = some (mLast up)
  lower : ∀ l0 rest, low = l0 :: rest →
    MChain 0 low ∧ q.last = some (mLast low) ∧ ∀ u0 r, up = u0 :: r → mEnd 0 low ≤ u0.1

/-- the abstraction: queued entries, oldest first -/
def MqInv.abs (up low : List MEntry) : List QEntry := (up ++ low).map Prod.snd

theorem esize_of (q : MsgQueue) (x : MEntry) (h : q.get x.1 = some x.2) : q.esize x.1 = x.2.data.length := by
  simp [MsgQueue.esize, h]

end Iec.Queues

namespace Iec.Queues

/-! ### traversals terminate and visit exactly the queued entries -/

theorem walk_final (q : MsgQueue) : ∀ (xs : List MEntry) (o : Nat) (z : MEntry),
    MChain o (xs ++ [z]) → (∀ x ∈ xs ++ [z], q.get x.1 = some x.2) → q.last = some z.1 →
    (∀ x ∈ xs, some x.1 ≠ q.lib) →
    ∀ k, walk q (xs.length + 1 + k) o = (xs ++ [z]).map Prod.snd := by
  intro xs
  induction xs with
  | nil =>
    intro o z hc hg hl _ k
    obtain ⟨hz, _⟩ := hc
    have hgz := hg z (by simp)
    subst hz
    have : ([] : List MEntry).length + 1 + k = k + 1 := by simp; omega
    rw [this]
    simp [walk, hgz, hl]
  | cons x xs ih =>
    intro o z hc hg hl hlib k
    obtain ⟨hx, hrest⟩ := hc
    have hgx := hg x (by simp)
    have hb := mChain_bounds _ _ hrest
    have hzpos : x.1 < z.1 := by
      have := (hb.2 z (by simp)).1
      simp only [esz, HDR] at this; omega
    have hnl : ¬ (some x.1 = q.last) := by rw [hl]; simp; omega
    have hnlib : ¬ (some x.1 = q.lib) := hlib x (by simp)
    subst hx
    have hnext : q.next x.1 = x.1 + esz x := by
      simp [MsgQueue.next, hnlib, esize_of q x hgx, esz, Nat.add_assoc]
    have hlen : (x :: xs).length + 1 + k = (xs.length + 1 + k) + 1 := by simp; omega
    rw [hlen]
    simp only [walk, hgx, beq_iff_eq, hnl, if_false, hnext]
    rw [ih _ z hrest (fun y hy => hg y (by simp at hy ⊢; rcases hy with hy | hy; exact Or.inr (Or.inl hy); exact Or.inr (Or.inr hy))) hl
      (fun y hy => hlib y (by simp [hy])) k]
    simp

theorem walk_seg (q : MsgQueue) : ∀ (xs : List MEntry) (o : Nat) (z : MEntry),
    MChain o (xs ++ [z]) → (∀ x ∈ xs ++ [z], q.get x.1 = some x.2) → (∀ x ∈ xs ++ [z], some x.1 ≠ q.last) →
    q.lib = some z.1 → ∀ k, walk q (xs.length + 1 + k) o = (xs ++ [z]).map Prod.snd ++ walk q k 0 := by
  intro xs
  induction xs with
  | nil =>
    intro o z hc hg hl hlib k
    obtain ⟨hz, _⟩ := hc
    have hgz := hg z (by simp)
    have hnl : ¬ (some z.1 = q.last) := hl z (by simp)
    subst hz
    have hnext : q.next z.1 = 0 := by simp [MsgQueue.next, hlib]
    have : ([] : List MEntry).length + 1 + k = k + 1 := by simp; omega
    rw [this]
    simp [walk, hgz, hnl, hnext]
  | cons x xs ih =>
    intro o z hc hg hl hlib k
    obtain ⟨hx, hrest⟩ := hc
    have hgx := hg x (by simp)
    have hb := mChain_bounds _ _ hrest
    have hzpos : x.1 < z.1 := by
      have := (hb.2 z (by simp)).1
      simp only [esz, HDR] at this; omega
    have hnl : ¬ (some x.1 = q.last) := hl x (by simp)
    have hnlib : ¬ (some x.1 = q.lib) := by rw [hlib]; simp; omega
    subst hx
    have hnext : q.next x.1 = x.1 + esz x := by
      simp [MsgQueue.next, hnlib, esize_of q x hgx, esz, Nat.add_assoc]
    have hlen : (x :: xs).length + 1 + k = (xs.length + 1 + k) + 1 := by simp; omega
    rw [hlen]
    simp only [walk, hgx, beq_iff_eq, hnl, if_false, hnext]
    rw [ih _ z hrest (fun y hy => hg y (by simp at hy ⊢; rcases hy with hy | hy; exact Or.inr (Or.inl hy); exact Or.inr (Or.inr hy)))
      (fun y hy => hl y (by simp at hy ⊢; rcases hy with hy | hy; exact Or.inr (Or.inl hy); exact Or.inr (Or.inr hy))) hlib k]
    simp

/-- **the FIFO walk of the C code terminates within `count` steps and yields exactly the queued entries** -/
theorem toList_eq (q : MsgQueue) (up low : List MEntry) (h : MqInv q up low) : q.toList = MqInv.abs up low := by
  unfold MsgQueue.toList MqInv.abs
  cases up with
  | nil =>
    have := h.lowup rfl; subst this
    have hc : q.count = 0 := by simpa using h.count
    simp [hc]
  | cons u0 rest =>
    obtain ⟨hfirst, hchain, hend, hlib⟩ := h.upper u0 rest rfl
    have hc : ¬ (q.count = 0) := by have := h.count; simp at this; omega
    simp only [hc, if_false, hfirst, Option.getD_some]
    obtain ⟨L, z, hL⟩ := msnoc_cases (u0 :: rest) (by simp)
    have hchain' : MChain u0.1 (L ++ [z]) := hL ▸ hchain
    have hzlast : mLast (u0 :: rest) = z.1 := by rw [hL]; exact mLast_snoc L z
    have hbU := mChain_bounds u0.1 (u0 :: rest) hchain
    cases low with
    | nil =>
      have hlast := h.lastU (by simp) rfl
      rw [hzlast] at hlast hlib
      have hcount : q.count = L.length + 1 + 0 := by have := h.count; rw [hL] at this; simpa using this
      rw [hcount, hL]
      have hw := walk_final q L u0.1 z hchain' (fun x hx => h.data x (List.mem_append.mpr (Or.inl (by rw [hL]; exact hx)))) hlast
        (by
          intro x hx
          rw [hlib]
          have hb := mChain_bounds _ _ ((mChain_append u0.1 L [z]).mp hchain').1
          have h1 := (hb.2 x hx).2
          have h2 := (mChain_last u0.1 L z hchain').2.2
          simp only [esz, HDR] at h1
          simp; omega) 0
      simpa using hw
    | cons l0 lrest =>
      obtain ⟨hlc, hlast, hle⟩ := h.lower l0 lrest rfl
      have hleU := hle u0 rest rfl
      obtain ⟨LL, zz, hLL⟩ := msnoc_cases (l0 :: lrest) (by simp)
      have hlc' : MChain 0 (LL ++ [zz]) := hLL ▸ hlc
      have hzzlast : mLast (l0 :: lrest) = zz.1 := by rw [hLL]; exact mLast_snoc LL zz
      rw [hzlast] at hlib
      rw [hzzlast] at hlast
      have hcount : q.count = L.length + 1 + (LL.length + 1 + 0) := by
        have := h.count; rw [hL, hLL] at this; simp at this ⊢; omega
      have hbL := mChain_bounds 0 (l0 :: lrest) hlc
      have hzzlt : zz.1 < u0.1 := by
        have := (hbL.2 zz (by rw [hLL]; simp)).2
        simp only [esz, HDR] at this; omega
      rw [hcount, hL, hLL]
      have hw1 := walk_seg q L u0.1 z hchain' (fun x hx => h.data x (List.mem_append.mpr (Or.inl (by rw [hL]; exact hx))))
        (by
          intro x hx
          rw [hlast]
          have := (hbU.2 x (by rw [hL]; exact hx)).1
          simp; omega) hlib (LL.length + 1 + 0)
      rw [hw1]
      have hw2 := walk_final q LL 0 zz hlc' (fun x hx => h.data x (List.mem_append.mpr (Or.inr (by rw [hLL]; exact hx)))) hlast
        (by
          intro x hx
          rw [hlib]
          have h1 := (hbL.2 x (by rw [hLL]; simp [hx])).2
          have h2 := (hbU.2 z (by rw [hL]; simp)).1
          simp only [esz, HDR] at h1
          simp; omega) 0
      rw [hw2]
      simp

end Iec.Queues

namespace Iec.Queues

/-! ### the association memory -/

theorem mfind_filter_key (l : List MEntry) (o : Nat) (p : MEntry → Bool) (hp : ∀ b ∈ l, b.1 = o → p b = true) :
    (l.filter p).find? (·.1 == o) = l.find? (·.1 == o) := by
  induction l with
  | nil => rfl
  | cons b bs ih =>
    have ih' := ih (fun c hc => hp c (List.mem_cons_of_mem _ hc))
    by_cases hb : b.1 = o
    · have hpb := hp b (by simp) hb
      simp [List.filter, hpb, hb]
    · by_cases hpb : p b = true
      · simp [List.filter, hpb, hb, ih']
      · simp [List.filter, hpb, hb, ih']

theorem get_put (q : MsgQueue) (np : Nat) (e : QEntry) :
    (q.put np e).get np = some e ∧
    ∀ o, (o < np ∨ np + HDR + e.data.length ≤ o) → (q.put np e).get o = q.get o := by
  constructor
  · simp [MsgQueue.get, MsgQueue.put]
  · intro o ho
    have hne : ¬ (np = o) := by simp only [HDR] at ho; omega
    simp only [MsgQueue.get, MsgQueue.put, List.find?_cons]
    have : ((np, e).1 == o) = false := by simpa using hne
    rw [this, mfind_filter_key]
    intro b _ hb
    simp only [Bool.not_eq_true', Bool.and_eq_false_iff, decide_eq_false_iff_not]
    omega

/-- number of leading entries whose offset lies below `bound` (they are in the way of a new entry ending there) -/
def inWay (bound : Nat) : List MEntry → Nat
  | [] => 0
  | x :: xs => if x.1 < bound then 1 + inWay bound xs else 0

theorem inWay_le (bound : Nat) (xs : List MEntry) : inWay bound xs ≤ xs.length := by
  induction xs with
  | nil => simp [inWay]
  | cons x xs ih => simp only [inWay]; split <;> simp <;> omega

/-- in a chain everything behind the entries in the way lies at or above the bound -/
theorem inWay_rest (bound o : Nat) (xs : List MEntry) (h : MChain o xs) :
    ∀ x ∈ xs.drop (inWay bound xs), bound ≤ x.1 := by
  induction xs generalizing o with
  | nil => simp
  | cons y ys ih =>
    obtain ⟨hy, hr⟩ := h
    simp only [inWay]
    split
    · intro x hx
      have : (y :: ys).drop (1 + inWay bound ys) = ys.drop (inWay bound ys) := by rw [Nat.add_comm]; rfl
      rw [this] at hx
      exact ih _ hr x hx
    · intro x hx
      simp only [List.drop_zero, List.mem_cons] at hx
      rcases hx with rfl | hx
      · omega
      · have := ((mChain_bounds _ _ hr).2 x hx).1
        simp only [esz, HDR] at this; omega

theorem evictLoop_succ (q : MsgQueue) (np es fuel : Nat) :
    evictLoop q np es (fuel + 1) =
      if np + es > q.first.getD 0 ∧ q.count > 0 then
        (if q.first = q.lib then { q with count := q.count - 1, first := some 0, lib := some np }
         else evictLoop { q with count := q.count - 1, first := some (q.first.getD 0 + HDR + q.esize (q.first.getD 0)) } np es fuel)
      else q := by
  simp only [evictLoop]
  by_cases h1 : np + es > q.first.getD 0 <;> by_cases h2 : q.count > 0 <;> by_cases h3 : q.first = q.lib <;>
    simp [h1, h2, h3]

/-- **the eviction loop** removes exactly the entries in the way, oldest first; when it reaches the entry with
the highest offset it continues at the buffer start -/
theorem evict_spec (np es : Nat) : ∀ (U : List MEntry) (q : MsgQueue) (u0 : MEntry) (rest : List MEntry), U = u0 :: rest →
    q.first = some u0.1 → MChain u0.1 U → (∀ x ∈ U, q.get x.1 = some x.2) → q.lib = some (mLast U) → U.length ≤ q.count →
    ∀ fuel, U.length ≤ fuel →
    evictLoop q np es fuel =
      (if inWay (np + es) U = U.length then { q with count := q.count - U.length, first := some 0, lib := some np }
       else { q with count := q.count - inWay (np + es) U, first := some ((U.drop (inWay (np + es) U)).headD u0).1 }) := by
  intro U
  induction U with
  | nil => intro q u0 rest h; cases h
  | cons u rest' ih =>
    intro q u0 rest hU hfirst hchain hget hlib hcount fuel hfuel
    have hu : u = u0 := by cases hU; rfl
    subst hu
    obtain ⟨_, hrest⟩ := hchain
    cases fuel with
    | zero => simp at hfuel
    | succ fuel =>
      rw [evictLoop_succ]
      simp only [hfirst, Option.getD_some]
      have hcpos : q.count > 0 := by simp at hcount; omega
      by_cases hway : u.1 < np + es
      · rw [if_pos ⟨hway, hcpos⟩]
        simp only [inWay, hway, if_true]
        cases rest' with
        | nil =>
          have hl : q.lib = some u.1 := by rw [hlib, mLast_single]
          rw [if_pos hl.symm]
          simp [inWay]
        | cons r rr =>
          have hb := mChain_lastOff _ _ hrest (by simp : r :: rr ≠ [])
          have hml : mLast (u :: r :: rr) = mLast (r :: rr) := mLast_cons u _ (by simp)
          have hnl : ¬ (some u.1 = q.lib) := by
            rw [hlib, hml]; simp only [esz, HDR] at hb; simp; omega
          have hgu := hget u (by simp)
          have hr1 : r.1 = u.1 + esz u := hrest.1
          rw [if_neg hnl, esize_of q u hgu]
          have hstep := ih { q with count := q.count - 1, first := some (u.1 + HDR + u.2.data.length) } r rr rfl
            (by show some _ = some r.1; rw [hr1]; simp [esz, Nat.add_assoc])
            (by rw [hr1] ; exact hrest) (fun x hx => hget x (by simp at hx ⊢; exact Or.inr hx))
            (by show q.lib = _; rw [hlib, hml]) (by show (r :: rr).length ≤ q.count - 1; simp at hcount ⊢; omega)
            fuel (by simp at hfuel ⊢; omega)
          rw [hstep]
          by_cases hall : inWay (np + es) (r :: rr) = (r :: rr).length
          · have h1 : 1 + inWay (np + es) (r :: rr) = (u :: r :: rr).length := by rw [hall]; simp; omega
            rw [if_pos hall, if_pos h1]
            show ({ q with count := q.count - 1 - (r :: rr).length, first := some 0, lib := some np } : MsgQueue) = _
            have : q.count - 1 - (r :: rr).length = q.count - (u :: r :: rr).length := by simp; omega
            rw [this]
          · have h1 : ¬ (1 + inWay (np + es) (r :: rr) = (u :: r :: rr).length) := by simp at hall ⊢; omega
            rw [if_neg hall, if_neg h1]
            have hd : (u :: r :: rr).drop (1 + inWay (np + es) (r :: rr)) = (r :: rr).drop (inWay (np + es) (r :: rr)) := by
              rw [Nat.add_comm]; rfl
            rw [hd]
            have hle := inWay_le (np + es) (r :: rr)
            have hne : (r :: rr).drop (inWay (np + es) (r :: rr)) ≠ [] := by
              intro hnil
              have := congrArg List.length hnil
              rw [List.length_drop] at this
              simp only [List.length_nil] at this
              omega
            obtain ⟨y, ys, hys⟩ := List.exists_cons_of_ne_nil hne
            rw [hys]
            simp only [List.headD_cons]
            show ({ q with count := q.count - 1 - inWay (np + es) (r :: rr), first := some y.1 } : MsgQueue) = _
            have : q.count - 1 - inWay (np + es) (r :: rr) = q.count - (1 + inWay (np + es) (r :: rr)) := by omega
            rw [this]
      · have hnc : ¬ (np + es > u.1 ∧ q.count > 0) := by omega
        rw [if_neg hnc]
        have hne : ¬ (0 = (u :: rest').length) := by simp
        simp only [inWay, hway, if_false, hne, List.drop_zero, List.headD_cons, Nat.sub_zero]
        cases q; simp_all

end Iec.Queues

namespace Iec.Queues

theorem countUntilEnd_spec (q : MsgQueue) : ∀ (U : List MEntry) (o : Nat) (z : MEntry), MChain o (U ++ [z]) →
    (∀ x ∈ U ++ [z], q.get x.1 = some x.2) → q.lib = some z.1 → ∀ k, countUntilEnd q (U.length + 1 + k) o = U.length + 1 := by
  intro U
  induction U with
  | nil =>
    intro o z hc _ hlib k
    obtain ⟨hz, _⟩ := hc
    subst hz
    have : ([] : List MEntry).length + 1 + k = k + 1 := by simp; omega
    rw [this]
    simp [countUntilEnd, hlib]
  | cons x xs ih =>
    intro o z hc hg hlib k
    obtain ⟨hx, hrest⟩ := hc
    have hgx := hg x (by simp)
    have hb := mChain_bounds _ _ hrest
    have hzpos : x.1 < z.1 := by
      have := (hb.2 z (by simp)).1
      simp only [esz, HDR] at this; omega
    have hnlib : ¬ (some x.1 = q.lib) := by rw [hlib]; simp; omega
    subst hx
    have hlen : (x :: xs).length + 1 + k = (xs.length + 1 + k) + 1 := by simp; omega
    rw [hlen]
    simp only [countUntilEnd, beq_iff_eq, hnlib, if_false, esize_of q x hgx]
    have := ih (x.1 + esz x) z hrest (fun y hy => hg y (by simp at hy ⊢; rcases hy with hy | hy; exact Or.inr (Or.inl hy); exact Or.inr (Or.inr hy))) hlib k
    simp only [esz, ← Nat.add_assoc] at this
    rw [this]; simp; omega

/-- the ring after the pointers were adjusted for a new entry and before it is written: as `MqInv`, but nothing
is said about `last` (it is about to be overwritten) -/
structure MqPre (q : MsgQueue) (up low : List MEntry) : Prop where
  count : q.count = up.length + low.length
  data : ∀ x ∈ up ++ low, q.get x.1 = some x.2
  lowup : up = [] → low = []
  upper : ∀ u0 rest, up = u0 :: rest →
    q.first = some u0.1 ∧ MChain u0.1 up ∧ mEnd u0.1 up ≤ q.size ∧ q.lib = some (mLast up)
  lower : ∀ l0 rest, low = l0 :: rest → MChain 0 low ∧ ∀ u0 r, up = u0 :: r → mEnd 0 low ≤ u0.1

theorem MqInv.toPre {q : MsgQueue} {up low : List MEntry} (h : MqInv q up low) : MqPre q up low :=
  { count := h.count, data := h.data, lowup := h.lowup, upper := h.upper
    lower := fun l0 rest hl => ⟨(h.lower l0 rest hl).1, (h.lower l0 rest hl).2.2⟩ }

/-- `writeEntry` with the pointers spelled out -/
theorem writeEntry_fields (q : MsgQueue) (np : Nat) (d : List Nat) :
    (writeEntry q np d).first = q.first ∧ (writeEntry q np d).last = some np ∧
    (writeEntry q np d).lib = (if np > q.lib.getD 0 then some np else q.lib) ∧
    (writeEntry q np d).count = q.count + 1 ∧ (writeEntry q np d).size = q.size ∧
    (writeEntry q np d).nextId = q.nextId + 1 ∧
    (writeEntry q np d).get np = some ⟨q.nextId, 1, d⟩ ∧
    (∀ o, (o < np ∨ np + HDR + d.length ≤ o) → (writeEntry q np d).get o = q.get o) := by
  unfold writeEntry
  by_cases hl : np > q.lib.getD 0
  · simp only [hl, if_true]
    have hp := get_put ({ q with last := some np, lib := some np, count := q.count + 1 } : MsgQueue) np ⟨q.nextId, 1, d⟩
    refine ⟨rfl, rfl, rfl, rfl, rfl, rfl, ?_, ?_⟩
    · simpa [MsgQueue.get, MsgQueue.put] using hp.1
    · intro o ho; have := hp.2 o ho; simpa [MsgQueue.get, MsgQueue.put] using this
  · simp only [hl, if_false]
    have hp := get_put ({ q with last := some np, count := q.count + 1 } : MsgQueue) np ⟨q.nextId, 1, d⟩
    refine ⟨rfl, rfl, rfl, rfl, rfl, rfl, ?_, ?_⟩
    · simpa [MsgQueue.get, MsgQueue.put] using hp.1
    · intro o ho; have := hp.2 o ho; simpa [MsgQueue.get, MsgQueue.put] using this

end Iec.Queues

namespace Iec.Queues

/-- the new entry -/
def newEntry (q : MsgQueue) (d : List Nat) : QEntry := ⟨q.nextId, 1, d⟩

/-- placement at the end of the upper part (the ring has not wrapped, or its upper part was just evicted) -/
theorem place_append_up (q : MsgQueue) (u0 : MEntry) (rest : List MEntry) (d : List Nat) (np l : Nat)
    (hcount : q.count = (u0 :: rest).length) (hdata : ∀ x ∈ u0 :: rest, q.get x.1 = some x.2)
    (hfirst : q.first = some u0.1) (hchain : MChain u0.1 (u0 :: rest)) (hnp : np = mEnd u0.1 (u0 :: rest))
    (hfit : np + HDR + d.length ≤ q.size) (hlib : q.lib = some l) (hl : l ≤ np) :
    MqInv (writeEntry q np d) ((u0 :: rest) ++ [(np, newEntry q d)]) [] := by
  obtain ⟨hf, hla, hli, hc, hs, _, hg, hgo⟩ := writeEntry_fields q np d
  have hb := mChain_bounds u0.1 (u0 :: rest) hchain
  have hlibnew : (writeEntry q np d).lib = some np := by
    rw [hli, hlib]; simp only [Option.getD_some]
    by_cases h : np > l
    · simp [h]
    · have : l = np := by omega
      simp [h, this]
  exact { count := by rw [hc, hcount]; simp
          data := by
            intro x hx
            simp only [List.append_nil, List.mem_append, List.mem_singleton] at hx
            rcases hx with hx | hx
            · have := (hb.2 x hx).2
              rw [hgo x.1 (Or.inl (by simp only [esz, HDR] at this; omega))]
              exact hdata x hx
            · subst hx; exact hg
          lowup := by simp
          upper := by
            intro a b hab
            have ha : a = u0 := by simp at hab; exact hab.1.symm
            subst ha
            refine ⟨by rw [hf]; exact hfirst, ?_, ?_, ?_⟩
            · rw [mChain_append]; exact ⟨hchain, by rw [← hnp]; simp [MChain]⟩
            · rw [mEnd_append, ← hnp, hs]; simp [mEnd, esz, newEntry]; omega
            · rw [mLast_snoc]; exact hlibnew
          lastU := by intro _ _; rw [mLast_snoc]; exact hla
          lower := by intro a b hab; cases hab }

/-- placement at the buffer start below a non-empty upper part -/
theorem place_new_low (q : MsgQueue) (up : List MEntry) (u0 : MEntry) (rest : List MEntry) (d : List Nat)
    (hp : MqPre q up []) (hup : up = u0 :: rest) (hfit : HDR + d.length ≤ u0.1) :
    MqInv (writeEntry q 0 d) up [(0, newEntry q d)] := by
  obtain ⟨hf, hla, hli, hc, hs, _, hg, hgo⟩ := writeEntry_fields q 0 d
  obtain ⟨hfirst, hchain, hend, hlib⟩ := hp.upper u0 rest hup
  have hb := mChain_bounds u0.1 up hchain
  have hlibsame : (writeEntry q 0 d).lib = q.lib := by rw [hli]; simp
  exact { count := by rw [hc, hp.count]; simp
          data := by
            intro x hx
            simp only [List.mem_append, List.mem_singleton] at hx
            rcases hx with hx | hx
            · have := (hb.2 x hx).1
              rw [hgo x.1 (Or.inr (by omega))]
              exact hp.data x (by simpa using hx)
            · subst hx; exact hg
          lowup := by intro h'; rw [hup] at h'; cases h'
          upper := by
            intro a b hab
            rw [hup] at hab; cases hab
            exact ⟨by rw [hf]; exact hfirst, hchain, by rw [hs]; exact hend, by rw [hlibsame]; exact hlib⟩
          lastU := by intro _ h'; cases h'
          lower := by
            intro a b hab; cases hab
            refine ⟨by simp [MChain], by rw [hla]; simp [mLast], ?_⟩
            intro a b hab; rw [hup] at hab; cases hab
            simp [mEnd, esz, newEntry]; omega }

/-- placement behind the lower part, below the upper part -/
theorem place_append_low (q : MsgQueue) (up low : List MEntry) (u0 : MEntry) (rest : List MEntry) (l0 : MEntry) (lrest : List MEntry)
    (d : List Nat) (np : Nat) (hp : MqPre q up low) (hup : up = u0 :: rest) (hlow : low = l0 :: lrest)
    (hnp : np = mEnd 0 low) (hfit : np + HDR + d.length ≤ u0.1) :
    MqInv (writeEntry q np d) up (low ++ [(np, newEntry q d)]) := by
  obtain ⟨hf, hla, hli, hc, hs, _, hg, hgo⟩ := writeEntry_fields q np d
  obtain ⟨hfirst, hchain, hend, hlib⟩ := hp.upper u0 rest hup
  obtain ⟨hlc, hle⟩ := hp.lower l0 lrest hlow
  have hbU := mChain_bounds u0.1 up hchain
  have hbL := mChain_bounds 0 low hlc
  have hml := mChain_lastOff u0.1 up hchain (by rw [hup]; simp)
  have hlibsame : (writeEntry q np d).lib = q.lib := by
    rw [hli, hlib]; simp only [Option.getD_some]
    have : ¬ (np > mLast up) := by omega
    simp [this]
  exact { count := by rw [hc, hp.count]; simp; omega
          data := by
            intro x hx
            simp only [List.mem_append, List.mem_singleton] at hx
            rcases hx with hx | hx | hx
            · have := (hbU.2 x hx).1
              rw [hgo x.1 (Or.inr (by omega))]
              exact hp.data x (List.mem_append.mpr (Or.inl hx))
            · have := (hbL.2 x hx).2
              rw [hgo x.1 (Or.inl (by simp only [esz, HDR] at this; omega))]
              exact hp.data x (List.mem_append.mpr (Or.inr hx))
            · subst hx; exact hg
          lowup := by intro h'; rw [hup] at h'; cases h'
          upper := by
            intro a b hab
            rw [hup] at hab; cases hab
            exact ⟨by rw [hf]; exact hfirst, hchain, by rw [hs]; exact hend, by rw [hlibsame]; exact hlib⟩
          lastU := by intro _ h'; rw [hlow] at h'; simp at h'
          lower := by
            intro a b hab
            refine ⟨?_, ?_, ?_⟩
            · rw [mChain_append]; exact ⟨hlc, by rw [← hnp]; simp [MChain]⟩
            · rw [mLast_snoc]; exact hla
            · intro a' b' hab'; rw [hup] at hab'; cases hab'
              rw [mEnd_append, ← hnp]; simp [mEnd, esz, newEntry]; omega }

/-- placement into an empty ring -/
theorem place_empty (q : MsgQueue) (d : List Nat) (hc0 : q.count = 0) (hfirst : q.first = some 0) (hlib : q.lib = some 0)
    (hfit : HDR + d.length ≤ q.size) : MqInv (writeEntry q 0 d) [(0, newEntry q d)] [] := by
  obtain ⟨hf, hla, hli, hc, hs, _, hg, _⟩ := writeEntry_fields q 0 d
  exact { count := by rw [hc, hc0]; simp
          data := by intro x hx; simp at hx; subst hx; exact hg
          lowup := by simp
          upper := by
            intro a b hab; cases hab
            refine ⟨by rw [hf]; exact hfirst, by simp [MChain], ?_, ?_⟩
            · rw [hs]; simp [mEnd, esz, newEntry]; omega
            · rw [hli, hlib]; simp [mLast]
          lastU := by intro _ _; rw [hla]; simp [mLast]
          lower := by intro a b hab; cases hab }

end Iec.Queues

namespace Iec.Queues

theorem mq_enqueue_big (q : MsgQueue) (d : List Nat) (h : d.length > 250) : q.enqueue d = q := by
  simp [MsgQueue.enqueue, h]

theorem mq_enqueue_empty (q : MsgQueue) (d : List Nat) (hd : d.length ≤ 250) (hc : q.count = 0) :
    q.enqueue d = writeEntry { q with first := some 0, lib := some 0 } 0 d := by
  have h1 : ¬ (d.length > 250) := by omega
  simp [MsgQueue.enqueue, h1, hc]

theorem mq_enqueue_fits (q : MsgQueue) (d : List Nat) (hd : d.length ≤ 250) (hc : q.count > 0) (l f : Nat)
    (hl : q.last = some l) (hf : q.first = some f) (hfit : ¬ (l + HDR + q.esize l + (HDR + d.length) > q.size)) :
    q.enqueue d =
      writeEntry (if l + HDR + q.esize l ≤ f then evictLoop q (l + HDR + q.esize l) (HDR + d.length) (q.count + 1) else q)
        (l + HDR + q.esize l) d := by
  have h1 : ¬ (d.length > 250) := by omega
  have hc0 : ¬ (q.count = 0) := by omega
  by_cases hnf : l + HDR + q.esize l ≤ f
  · simp [MsgQueue.enqueue, h1, hc0, hl, hf, hfit, hnf]
  · simp [MsgQueue.enqueue, h1, hc0, hl, hf, hfit, hnf]

theorem mq_enqueue_wrap_unwrapped (q : MsgQueue) (d : List Nat) (hd : d.length ≤ 250) (hc : q.count > 0) (l f : Nat)
    (hl : q.last = some l) (hf : q.first = some f) (hnofit : l + HDR + q.esize l + (HDR + d.length) > q.size)
    (hnp : ¬ (l + HDR + q.esize l ≤ f)) (hlf : l ≥ f) :
    q.enqueue d = writeEntry (evictLoop { q with lib := q.last } 0 (HDR + d.length) (q.count + 1)) 0 d := by
  have h1 : ¬ (d.length > 250) := by omega
  have hc0 : ¬ (q.count = 0) := by omega
  simp [MsgQueue.enqueue, h1, hc0, hl, hf, hnofit, hnp, hlf]

theorem mq_enqueue_wrap_wrapped (q : MsgQueue) (d : List Nat) (hd : d.length ≤ 250) (hc : q.count > 0) (l f : Nat)
    (hl : q.last = some l) (hf : q.first = some f) (hnofit : l + HDR + q.esize l + (HDR + d.length) > q.size)
    (hnp : l + HDR + q.esize l ≤ f) :
    q.enqueue d =
      writeEntry (evictLoop { q with count := q.count - countUntilEnd q (q.count + 1) f, first := some 0, lib := q.last } 0
        (HDR + d.length) (q.count - countUntilEnd q (q.count + 1) f + 1)) 0 d := by
  have h1 : ¬ (d.length > 250) := by omega
  have hc0 : ¬ (q.count = 0) := by omega
  simp [MsgQueue.enqueue, h1, hc0, hl, hf, hnofit, hnp]

end Iec.Queues

namespace Iec.Queues

/-- a non-empty suffix of a chain is a chain from its own head, ends where the whole chain ends and has the same
last entry -/
theorem mChain_suffix (o : Nat) (a : List MEntry) (y : MEntry) (ys : List MEntry) (h : MChain o (a ++ y :: ys)) :
    MChain y.1 (y :: ys) ∧ mEnd y.1 (y :: ys) = mEnd o (a ++ y :: ys) ∧ mLast (y :: ys) = mLast (a ++ y :: ys) := by
  obtain ⟨_, h2⟩ := (mChain_append o a (y :: ys)).mp h
  have hy : y.1 = mEnd o a := h2.1
  refine ⟨by rw [hy]; exact h2, by rw [mEnd_append, hy], ?_⟩
  cases hgl : (y :: ys).getLast? with
  | none => simp at hgl
  | some z => simp [mLast, List.getLast?_append, hgl]

theorem drop_cons_of_lt {α} (X : List α) (k : Nat) (h : k < X.length) : ∃ y ys, X.drop k = y :: ys := by
  have : X.drop k ≠ [] := by
    intro hn; have := congrArg List.length hn; rw [List.length_drop] at this; simp at this; omega
  exact List.exists_cons_of_ne_nil this

theorem abs_drop_up (up low : List MEntry) (k : Nat) (hk : k ≤ up.length) :
    (up.drop k ++ low).map Prod.snd = ((up ++ low).map Prod.snd).drop k := by
  rw [← List.map_drop, List.drop_append_of_le_length hk]

theorem abs_drop_low (up low : List MEntry) (k : Nat) :
    (low.drop k).map Prod.snd = ((up ++ low).map Prod.snd).drop (up.length + k) := by
  rw [← List.map_drop, List.drop_append]
  have h1 : List.drop (up.length + k) up = [] := List.drop_of_length_le (by omega)
  have h2 : up.length + k - up.length = k := by omega
  rw [h1, h2]; simp

/-- **enqueueing an event refines `drop the oldest k, then append`** -/
theorem mq_enqueue_refines (q : MsgQueue) (up low : List MEntry) (h : MqInv q up low) (d : List Nat)
    (hd : d.length ≤ 250) (hsize : 266 ≤ q.size) :
    ∃ up' low' k, MqInv (q.enqueue d) up' low' ∧
      MqInv.abs up' low' = (MqInv.abs up low).drop k ++ [newEntry q d] := by
  have hes : HDR + d.length ≤ q.size := by simp only [HDR]; omega
  cases up with
  | nil =>
    have := h.lowup rfl; subst this
    have hc : q.count = 0 := by simpa using h.count
    rw [mq_enqueue_empty q d hd hc]
    exact ⟨_, _, 0, place_empty _ d hc rfl rfl hes, by simp [MqInv.abs, newEntry]⟩
  | cons u0 rest =>
    obtain ⟨hfirst, hchain, hend, hlib⟩ := h.upper u0 rest rfl
    have hcnt : q.count > 0 := by have := h.count; simp at this; omega
    have hbU := mChain_bounds u0.1 (u0 :: rest) hchain
    obtain ⟨L, ul, hL⟩ := msnoc_cases (u0 :: rest) (by simp)
    have hchainL : MChain u0.1 (L ++ [ul]) := hL ▸ hchain
    obtain ⟨_, hEu, _⟩ := mChain_last u0.1 L ul hchainL
    have hmlU : mLast (u0 :: rest) = ul.1 := by rw [hL]; exact mLast_snoc L ul
    have hul_ge : u0.1 ≤ ul.1 := (hbU.2 ul (by rw [hL]; simp)).1
    cases low with
    | nil =>
      have hlast := h.lastU (by simp) rfl
      rw [hmlU] at hlast
      have hgl : q.get ul.1 = some ul.2 := h.data ul (by rw [hL]; simp)
      have hesl := esize_of q ul hgl
      have hE : mEnd u0.1 (u0 :: rest) = ul.1 + HDR + q.esize ul.1 := by rw [hL, hEu, hesl]; simp [esz, Nat.add_assoc]
      have hEgt : ¬ (ul.1 + HDR + q.esize ul.1 ≤ u0.1) := by simp only [HDR]; omega
      by_cases hfit : ul.1 + HDR + q.esize ul.1 + (HDR + d.length) > q.size
      · -- the entry goes to the buffer start; the oldest entries in its way are displaced
        rw [mq_enqueue_wrap_unwrapped q d hd hcnt ul.1 u0.1 hlast hfirst hfit hEgt hul_ge]
        have hev := evict_spec 0 (HDR + d.length) (u0 :: rest) { q with lib := q.last } u0 rest rfl hfirst hchain
          (fun x hx => h.data x (by simpa using hx)) (by show q.last = _; rw [hlast, hmlU]) (by have := h.count; simp at this ⊢; omega)
          (q.count + 1) (by have := h.count; simp at this ⊢; omega)
        rw [hev]
        by_cases hall : inWay (0 + (HDR + d.length)) (u0 :: rest) = (u0 :: rest).length
        · rw [if_pos hall]
          refine ⟨_, _, (u0 :: rest).length, place_empty _ d (by show q.count - _ = 0; have := h.count; simp at this ⊢; omega) rfl rfl hes, ?_⟩
          simp [MqInv.abs, newEntry]
        · rw [if_neg hall]
          have hk := inWay_le (0 + (HDR + d.length)) (u0 :: rest)
          obtain ⟨y, ys, hys⟩ := drop_cons_of_lt (u0 :: rest) _ (by omega : inWay (0 + (HDR + d.length)) (u0 :: rest) < (u0 :: rest).length)
          have hsplit : (u0 :: rest) = (u0 :: rest).take (inWay (0 + (HDR + d.length)) (u0 :: rest)) ++ y :: ys := by
            rw [← hys, List.take_append_drop]
          obtain ⟨hcy, hey, hly⟩ := mChain_suffix u0.1 _ y ys (hsplit ▸ hchain)
          have hrestb := inWay_rest (0 + (HDR + d.length)) u0.1 (u0 :: rest) hchain
          rw [hys] at hrestb ⊢
          simp only [List.headD_cons]
          have hpre : MqPre { ({ q with lib := q.last } : MsgQueue) with count := q.count - inWay (0 + (HDR + d.length)) (u0 :: rest), first := some y.1 } (y :: ys) [] :=
            { count := by
                have := h.count; have hl := congrArg List.length hys; rw [List.length_drop] at hl
                simp at this hl ⊢; omega
              data := by
                intro x hx
                exact h.data x (by simp only [List.append_nil] at hx ⊢; rw [hsplit]; exact List.mem_append.mpr (Or.inr hx))
              lowup := by intro h'; cases h'
              upper := by
                intro a b hab; cases hab
                refine ⟨rfl, hcy, ?_, ?_⟩
                · rw [hey, ← hsplit]; exact hend
                · show q.last = _; rw [hly, ← hsplit, hlast, hmlU]
              lower := by intro a b hab; cases hab }
          have hfit0 := hrestb y (by simp)
          refine ⟨_, _, inWay (0 + (HDR + d.length)) (u0 :: rest), place_new_low _ (y :: ys) y ys d hpre rfl (by omega), ?_⟩
          have := abs_drop_up (u0 :: rest) [] (inWay (0 + (HDR + d.length)) (u0 :: rest)) hk
          rw [hys] at this
          simp only [MqInv.abs, List.append_nil] at this ⊢
          rw [List.map_append, this]; rfl
      · -- the entry fits behind the newest one
        rw [mq_enqueue_fits q d hd hcnt ul.1 u0.1 hlast hfirst hfit, if_neg hEgt]
        refine ⟨_, _, 0, place_append_up q u0 rest d _ (mLast (u0 :: rest)) (by have := h.count; simpa using this)
          (fun x hx => h.data x (by simpa using hx)) hfirst hchain hE.symm (by omega) hlib (by rw [hmlU]; simp only [HDR]; omega), ?_⟩
        simp [MqInv.abs]
    | cons l0 lrest =>
      obtain ⟨hlc, hlast, hle⟩ := h.lower l0 lrest rfl
      have hleU := hle u0 rest rfl
      obtain ⟨LL, ll, hLL⟩ := msnoc_cases (l0 :: lrest) (by simp)
      have hlcL : MChain 0 (LL ++ [ll]) := hLL ▸ hlc
      obtain ⟨_, hEl, _⟩ := mChain_last 0 LL ll hlcL
      have hmlL : mLast (l0 :: lrest) = ll.1 := by rw [hLL]; exact mLast_snoc LL ll
      rw [hmlL] at hlast
      have hgl : q.get ll.1 = some ll.2 := h.data ll (List.mem_append.mpr (Or.inr (by rw [hLL]; simp)))
      have hesl := esize_of q ll hgl
      have hE : mEnd 0 (l0 :: lrest) = ll.1 + HDR + q.esize ll.1 := by rw [hLL, hEl, hesl]; simp [esz, Nat.add_assoc]
      have hEle : ll.1 + HDR + q.esize ll.1 ≤ u0.1 := by rw [← hE]; exact hleU
      have hl0 : l0.1 = 0 := hlc.1
      by_cases hfit : ll.1 + HDR + q.esize ll.1 + (HDR + d.length) > q.size
      · -- no room behind the lower part: the whole upper part goes, the entry is written at the buffer start
        rw [mq_enqueue_wrap_wrapped q d hd hcnt ll.1 u0.1 hlast hfirst hfit hEle]
        have hcu : countUntilEnd q (q.count + 1) u0.1 = (u0 :: rest).length := by
          have hcnt' : q.count + 1 = L.length + 1 + ((l0 :: lrest).length + 1) := by
            have := h.count; rw [hL] at this; simp only [List.length_append, List.length_cons, List.length_nil] at this ⊢; omega
          rw [hcnt']
          have := countUntilEnd_spec q L u0.1 ul hchainL (fun x hx => h.data x (List.mem_append.mpr (Or.inl (by rw [hL]; exact hx))))
            (by rw [hlib, hmlU]) ((l0 :: lrest).length + 1)
          rw [this, hL]; simp
        rw [hcu]
        have hcl : q.count - (u0 :: rest).length = (l0 :: lrest).length := by have := h.count; simp at this ⊢; omega
        rw [hcl]
        have hev := evict_spec 0 (HDR + d.length) (l0 :: lrest)
          { q with count := (l0 :: lrest).length, first := some 0, lib := q.last } l0 lrest rfl
          (by show some 0 = some l0.1; rw [hl0]) (by rw [hl0]; exact hlc)
          (fun x hx => h.data x (List.mem_append.mpr (Or.inr hx))) (by show q.last = _; rw [hlast, hmlL]) (Nat.le_refl _)
          ((l0 :: lrest).length + 1) (by omega)
        rw [hev]
        by_cases hall : inWay (0 + (HDR + d.length)) (l0 :: lrest) = (l0 :: lrest).length
        · rw [if_pos hall]
          refine ⟨_, _, (u0 :: rest).length + (l0 :: lrest).length, place_empty _ d (by show (l0 :: lrest).length - _ = 0; omega) rfl rfl hes, ?_⟩
          simp only [MqInv.abs, newEntry, List.append_nil, List.map_cons, List.map_nil]
          rw [List.drop_of_length_le (by simp; omega)]; rfl
        · rw [if_neg hall]
          have hk := inWay_le (0 + (HDR + d.length)) (l0 :: lrest)
          obtain ⟨y, ys, hys⟩ := drop_cons_of_lt (l0 :: lrest) _ (by omega : inWay (0 + (HDR + d.length)) (l0 :: lrest) < (l0 :: lrest).length)
          have hsplit : (l0 :: lrest) = (l0 :: lrest).take (inWay (0 + (HDR + d.length)) (l0 :: lrest)) ++ y :: ys := by
            rw [← hys, List.take_append_drop]
          obtain ⟨hcy, hey, hly⟩ := mChain_suffix 0 _ y ys (hsplit ▸ hlc)
          have hrestb := inWay_rest (0 + (HDR + d.length)) 0 (l0 :: lrest) hlc
          rw [hys] at hrestb ⊢
          simp only [List.headD_cons]
          have hbL := mChain_bounds 0 (l0 :: lrest) hlc
          have hpre : MqPre { ({ q with count := (l0 :: lrest).length, first := some 0, lib := q.last } : MsgQueue) with count := (l0 :: lrest).length - inWay (0 + (HDR + d.length)) (l0 :: lrest), first := some y.1 } (y :: ys) [] :=
            { count := by
                have hl := congrArg List.length hys; rw [List.length_drop] at hl
                simp at hl ⊢; omega
              data := by
                intro x hx
                exact h.data x (List.mem_append.mpr (Or.inr (by simp only [List.append_nil] at hx; rw [hsplit]; exact List.mem_append.mpr (Or.inr hx))))
              lowup := by intro h'; cases h'
              upper := by
                intro a b hab; cases hab
                refine ⟨rfl, hcy, ?_, ?_⟩
                · rw [hey, ← hsplit]; show mEnd 0 (l0 :: lrest) ≤ q.size
                  have := hbU.1; omega
                · show q.last = _; rw [hly, ← hsplit, hlast, hmlL]
              lower := by intro a b hab; cases hab }
          have hfit0 := hrestb y (by simp)
          refine ⟨_, _, (u0 :: rest).length + inWay (0 + (HDR + d.length)) (l0 :: lrest),
            place_new_low _ (y :: ys) y ys d hpre rfl (by omega), ?_⟩
          have := abs_drop_low (u0 :: rest) (l0 :: lrest) (inWay (0 + (HDR + d.length)) (l0 :: lrest))
          rw [hys] at this
          simp only [MqInv.abs, List.append_nil] at this ⊢
          rw [List.map_append, this]; rfl
      · -- the entry goes behind the lower part; entries of the upper part in its way are displaced
        rw [mq_enqueue_fits q d hd hcnt ll.1 u0.1 hlast hfirst hfit, if_pos hEle]
        have hev := evict_spec (ll.1 + HDR + q.esize ll.1) (HDR + d.length) (u0 :: rest) q u0 rest rfl hfirst hchain
          (fun x hx => h.data x (List.mem_append.mpr (Or.inl hx))) hlib (by have := h.count; simp at this ⊢; omega)
          (q.count + 1) (by have := h.count; simp at this ⊢; omega)
        rw [hev]
        by_cases hall : inWay (ll.1 + HDR + q.esize ll.1 + (HDR + d.length)) (u0 :: rest) = (u0 :: rest).length
        · rw [if_pos hall]
          -- the whole upper part is displaced: the lower part becomes the (only) part
          have hinv := place_append_up { q with count := q.count - (u0 :: rest).length, first := some 0, lib := some (ll.1 + HDR + q.esize ll.1) } l0 lrest d (ll.1 + HDR + q.esize ll.1) (ll.1 + HDR + q.esize ll.1)
            (by show q.count - _ = _; have := h.count; simp at this ⊢; omega)
            (fun x hx => h.data x (List.mem_append.mpr (Or.inr hx))) (by show some 0 = some l0.1; rw [hl0])
            (by rw [hl0]; exact hlc) (by rw [hl0]; exact hE.symm) (by show _ ≤ q.size; omega) rfl (Nat.le_refl _)
          refine ⟨_, _, (u0 :: rest).length, hinv, ?_⟩
          have := abs_drop_low (u0 :: rest) (l0 :: lrest) 0
          simp only [MqInv.abs, List.append_nil, List.drop_zero, Nat.add_zero] at this ⊢
          rw [List.map_append, this]; rfl
        · rw [if_neg hall]
          have hk := inWay_le (ll.1 + HDR + q.esize ll.1 + (HDR + d.length)) (u0 :: rest)
          obtain ⟨y, ys, hys⟩ := drop_cons_of_lt (u0 :: rest) _
            (by omega : inWay (ll.1 + HDR + q.esize ll.1 + (HDR + d.length)) (u0 :: rest) < (u0 :: rest).length)
          have hsplit : (u0 :: rest) = (u0 :: rest).take (inWay (ll.1 + HDR + q.esize ll.1 + (HDR + d.length)) (u0 :: rest)) ++ y :: ys := by
            rw [← hys, List.take_append_drop]
          obtain ⟨hcy, hey, hly⟩ := mChain_suffix u0.1 _ y ys (hsplit ▸ hchain)
          have hrestb := inWay_rest (ll.1 + HDR + q.esize ll.1 + (HDR + d.length)) u0.1 (u0 :: rest) hchain
          rw [hys] at hrestb ⊢
          simp only [List.headD_cons]
          have hyge : u0.1 ≤ y.1 := (hbU.2 y (by rw [hsplit]; simp)).1
          have hpre : MqPre { q with count := q.count - inWay (ll.1 + HDR + q.esize ll.1 + (HDR + d.length)) (u0 :: rest), first := some y.1 } (y :: ys) (l0 :: lrest) :=
            { count := by
                have := h.count; have hl := congrArg List.length hys; rw [List.length_drop] at hl
                simp at this hl ⊢; omega
              data := by
                intro x hx
                rcases List.mem_append.mp hx with hx | hx
                · exact h.data x (List.mem_append.mpr (Or.inl (by rw [hsplit]; exact List.mem_append.mpr (Or.inr hx))))
                · exact h.data x (List.mem_append.mpr (Or.inr hx))
              lowup := by intro h'; cases h'
              upper := by
                intro a b hab; cases hab
                refine ⟨rfl, hcy, ?_, ?_⟩
                · rw [hey, ← hsplit]; exact hend
                · show q.lib = _; rw [hly, ← hsplit]; exact hlib
              lower := by
                intro a b hab
                refine ⟨hab ▸ hlc, ?_⟩
                intro a' b' hab'; cases hab'
                show mEnd 0 (l0 :: lrest) ≤ y.1
                omega }
          have hfit0 := hrestb y (by simp)
          refine ⟨_, _, inWay (ll.1 + HDR + q.esize ll.1 + (HDR + d.length)) (u0 :: rest),
            place_append_low _ (y :: ys) (l0 :: lrest) y ys l0 lrest d _ hpre rfl rfl hE.symm (by omega), ?_⟩
          have := abs_drop_up (u0 :: rest) (l0 :: lrest) (inWay (ll.1 + HDR + q.esize ll.1 + (HDR + d.length)) (u0 :: rest)) hk
          rw [hys] at this
          simp only [MqInv.abs] at this ⊢
          rw [← List.append_assoc, List.map_append, this]; rfl

end Iec.Queues

namespace Iec.Queues

/-! ### searching the ring = searching the list -/

theorem find_final (q : MsgQueue) (p : QEntry → Bool) : ∀ (xs : List MEntry) (o : Nat) (z : MEntry),
    MChain o (xs ++ [z]) → (∀ x ∈ xs ++ [z], q.get x.1 = some x.2) → q.last = some z.1 →
    (∀ x ∈ xs, some x.1 ≠ q.lib) →
    ∀ k, findFrom q p (xs.length + 1 + k) o = ((xs ++ [z]).find? (fun x => p x.2)).map (·.1) := by
  intro xs
  induction xs with
  | nil =>
    intro o z hc hg hl _ k
    obtain ⟨hz, _⟩ := hc
    have hgz := hg z (by simp)
    subst hz
    have : ([] : List MEntry).length + 1 + k = k + 1 := by simp; omega
    rw [this]
    by_cases hp : p z.2 = true <;> simp [findFrom, hgz, hl, hp]
  | cons x xs ih =>
    intro o z hc hg hl hlib k
    obtain ⟨hx, hrest⟩ := hc
    have hgx := hg x (by simp)
    have hb := mChain_bounds _ _ hrest
    have hzpos : x.1 < z.1 := by
      have := (hb.2 z (by simp)).1
      simp only [esz, HDR] at this; omega
    have hnl : ¬ (some x.1 = q.last) := by rw [hl]; simp; omega
    have hnlib : ¬ (some x.1 = q.lib) := hlib x (by simp)
    subst hx
    have hnext : q.next x.1 = x.1 + esz x := by
      simp [MsgQueue.next, hnlib, esize_of q x hgx, esz, Nat.add_assoc]
    have hlen : (x :: xs).length + 1 + k = (xs.length + 1 + k) + 1 := by simp; omega
    rw [hlen]
    by_cases hp : p x.2 = true
    · simp [findFrom, hgx, hp]
    · simp only [findFrom, hgx, hp, Bool.false_eq_true, if_false, beq_iff_eq, hnl, hnext]
      rw [ih _ z hrest (fun y hy => hg y (by simp at hy ⊢; rcases hy with hy | hy; exact Or.inr (Or.inl hy); exact Or.inr (Or.inr hy))) hl
        (fun y hy => hlib y (by simp [hy])) k]
      simp [hp]

theorem find_seg (q : MsgQueue) (p : QEntry → Bool) : ∀ (xs : List MEntry) (o : Nat) (z : MEntry),
    MChain o (xs ++ [z]) → (∀ x ∈ xs ++ [z], q.get x.1 = some x.2) → (∀ x ∈ xs ++ [z], some x.1 ≠ q.last) →
    q.lib = some z.1 → ∀ k, findFrom q p (xs.length + 1 + k) o =
      (match (xs ++ [z]).find? (fun x => p x.2) with
       | some x => some x.1
       | none => findFrom q p k 0) := by
  intro xs
  induction xs with
  | nil =>
    intro o z hc hg hl hlib k
    obtain ⟨hz, _⟩ := hc
    have hgz := hg z (by simp)
    have hnl : ¬ (some z.1 = q.last) := hl z (by simp)
    subst hz
    have hnext : q.next z.1 = 0 := by simp [MsgQueue.next, hlib]
    have : ([] : List MEntry).length + 1 + k = k + 1 := by simp; omega
    rw [this]
    by_cases hp : p z.2 = true <;> simp [findFrom, hgz, hnl, hnext, hp]
  | cons x xs ih =>
    intro o z hc hg hl hlib k
    obtain ⟨hx, hrest⟩ := hc
    have hgx := hg x (by simp)
    have hb := mChain_bounds _ _ hrest
    have hzpos : x.1 < z.1 := by
      have := (hb.2 z (by simp)).1
      simp only [esz, HDR] at this; omega
    have hnl : ¬ (some x.1 = q.last) := hl x (by simp)
    have hnlib : ¬ (some x.1 = q.lib) := by rw [hlib]; simp; omega
    subst hx
    have hnext : q.next x.1 = x.1 + esz x := by
      simp [MsgQueue.next, hnlib, esize_of q x hgx, esz, Nat.add_assoc]
    have hlen : (x :: xs).length + 1 + k = (xs.length + 1 + k) + 1 := by simp; omega
    rw [hlen]
    by_cases hp : p x.2 = true
    · simp [findFrom, hgx, hp]
    · simp only [findFrom, hgx, hp, Bool.false_eq_true, if_false, beq_iff_eq, hnl, hnext]
      rw [ih _ z hrest (fun y hy => hg y (by simp at hy ⊢; rcases hy with hy | hy; exact Or.inr (Or.inl hy); exact Or.inr (Or.inr hy)))
        (fun y hy => hl y (by simp at hy ⊢; rcases hy with hy | hy; exact Or.inr (Or.inl hy); exact Or.inr (Or.inr hy))) hlib k]
      simp [hp]

/-- **the search loops of the C code (isAsduAvailable, getNextWaitingASDU, hasUnconfirmedIMessages) terminate
within `count + 1` steps and find exactly the oldest queued entry with the property** -/
theorem findFrom_eq (q : MsgQueue) (up low : List MEntry) (h : MqInv q up low) (p : QEntry → Bool) (hc : q.count ≠ 0) :
    findFrom q p (q.count + 1) (q.first.getD 0) = ((up ++ low).find? (fun x => p x.2)).map (·.1) := by
  cases up with
  | nil =>
    have := h.lowup rfl; subst this
    exact absurd (by simpa using h.count) hc
  | cons u0 rest =>
    obtain ⟨hfirst, hchain, hend, hlib⟩ := h.upper u0 rest rfl
    simp only [hfirst, Option.getD_some]
    obtain ⟨L, z, hL⟩ := msnoc_cases (u0 :: rest) (by simp)
    have hchain' : MChain u0.1 (L ++ [z]) := hL ▸ hchain
    have hzlast : mLast (u0 :: rest) = z.1 := by rw [hL]; exact mLast_snoc L z
    have hbU := mChain_bounds u0.1 (u0 :: rest) hchain
    cases low with
    | nil =>
      have hlast := h.lastU (by simp) rfl
      rw [hzlast] at hlast hlib
      have hcount : q.count + 1 = L.length + 1 + 1 := by have := h.count; rw [hL] at this; simp at this ⊢; omega
      rw [hcount, hL]
      have hw := find_final q p L u0.1 z hchain' (fun x hx => h.data x (List.mem_append.mpr (Or.inl (by rw [hL]; exact hx)))) hlast
        (by
          intro x hx
          rw [hlib]
          have hb := mChain_bounds _ _ ((mChain_append u0.1 L [z]).mp hchain').1
          have h1 := (hb.2 x hx).2
          have h2 := (mChain_last u0.1 L z hchain').2.2
          simp only [esz, HDR] at h1
          simp; omega) 1
      simpa using hw
    | cons l0 lrest =>
      obtain ⟨hlc, hlast, hle⟩ := h.lower l0 lrest rfl
      have hleU := hle u0 rest rfl
      obtain ⟨LL, zz, hLL⟩ := msnoc_cases (l0 :: lrest) (by simp)
      have hlc' : MChain 0 (LL ++ [zz]) := hLL ▸ hlc
      have hzzlast : mLast (l0 :: lrest) = zz.1 := by rw [hLL]; exact mLast_snoc LL zz
      rw [hzlast] at hlib
      rw [hzzlast] at hlast
      have hcount : q.count + 1 = L.length + 1 + (LL.length + 1 + 1) := by
        have := h.count; rw [hL, hLL] at this; simp at this ⊢; omega
      have hbL := mChain_bounds 0 (l0 :: lrest) hlc
      have hzzlt : zz.1 < u0.1 := by
        have := (hbL.2 zz (by rw [hLL]; simp)).2
        simp only [esz, HDR] at this; omega
      rw [hcount, hL, hLL]
      have hw1 := find_seg q p L u0.1 z hchain' (fun x hx => h.data x (List.mem_append.mpr (Or.inl (by rw [hL]; exact hx))))
        (by
          intro x hx
          rw [hlast]
          have := (hbU.2 x (by rw [hL]; exact hx)).1
          simp; omega) hlib (LL.length + 1 + 1)
      rw [hw1]
      have hw2 := find_final q p LL 0 zz hlc' (fun x hx => h.data x (List.mem_append.mpr (Or.inr (by rw [hLL]; exact hx)))) hlast
        (by
          intro x hx
          rw [hlib]
          have h1 := (hbL.2 x (by rw [hLL]; simp [hx])).2
          have h2 := (hbU.2 z (by rw [hL]; simp)).1
          simp only [esz, HDR] at h1
          simp; omega) 1
      rw [hw2]
      generalize (L ++ [z]) = A
      generalize (LL ++ [zz]) = B
      rw [List.find?_append]
      cases A.find? (fun x => p x.2) <;> simp

end Iec.Queues

namespace Iec.Queues

/-! ### state changes never move anything -/

def updSt (o st : Nat) (x : MEntry) : MEntry := if x.1 = o then (x.1, { x.2 with st := st }) else x

theorem updSt_fst (o st : Nat) (x : MEntry) : (updSt o st x).1 = x.1 := by unfold updSt; split <;> rfl
theorem updSt_esz (o st : Nat) (x : MEntry) : esz (updSt o st x) = esz x := by unfold updSt esz; split <;> rfl

theorem mChain_upd (o' st : Nat) : ∀ (xs : List MEntry) (o : Nat), MChain o xs → MChain o (xs.map (updSt o' st)) := by
  intro xs
  induction xs with
  | nil => intro o _; trivial
  | cons x xs ih =>
    intro o h
    obtain ⟨hx, hr⟩ := h
    refine ⟨by rw [updSt_fst]; exact hx, ?_⟩
    rw [updSt_esz]; exact ih _ hr

theorem mEnd_upd (o' st : Nat) : ∀ (xs : List MEntry) (o : Nat), mEnd o (xs.map (updSt o' st)) = mEnd o xs := by
  intro xs
  induction xs with
  | nil => intro o; rfl
  | cons x xs ih => intro o; simp [mEnd, updSt_esz, ih]

theorem mLast_upd (o' st : Nat) (xs : List MEntry) : mLast (xs.map (updSt o' st)) = mLast xs := by
  unfold mLast
  rw [List.getLast?_map]
  cases xs.getLast? <;> simp [updSt_fst]

theorem find_map_key (l : List MEntry) (o : Nat) (f : MEntry → MEntry) (hf : ∀ b, (f b).1 = b.1) :
    (l.map f).find? (·.1 == o) = (l.find? (·.1 == o)).map f := by
  induction l with
  | nil => rfl
  | cons b bs ih =>
    by_cases hb : b.1 = o
    · simp [List.find?_cons, hf, hb]
    · simp [List.find?_cons, hf, hb, ih]

theorem get_setState (q : MsgQueue) (o st o' : Nat) :
    (q.setState o st).get o' = (q.get o').map (fun e => if o' = o then { e with st := st } else e) := by
  unfold MsgQueue.get MsgQueue.setState
  simp only
  have := find_map_key q.mem o' (fun b => if b.1 == o then (b.1, { b.2 with st := st }) else b)
    (by intro b; split <;> rfl)
  rw [this]
  cases hfind : q.mem.find? (·.1 == o') with
  | none => simp
  | some b =>
    have hb : b.1 = o' := by have := List.find?_some hfind; simpa using this
    by_cases ho : o' = o
    · simp [hb, ho]
    · simp [hb, ho]

/-- changing the state of the entry at offset `o` changes that entry of the list and nothing else -/
theorem setState_inv (q : MsgQueue) (up low : List MEntry) (h : MqInv q up low) (o st : Nat) :
    MqInv (q.setState o st) (up.map (updSt o st)) (low.map (updSt o st)) := by
  exact { count := by have := h.count; simpa [MsgQueue.setState] using this
          data := by
            intro x hx
            rw [← List.map_append] at hx
            obtain ⟨y, hy, rfl⟩ := List.mem_map.mp hx
            rw [get_setState, updSt_fst, h.data y hy]
            unfold updSt
            by_cases hyo : y.1 = o <;> simp [hyo]
          lowup := by intro h'; have := h.lowup (by simpa using h'); simp [this]
          upper := by
            intro a b hab
            cases up with
            | nil => simp at hab
            | cons u0 rest =>
              obtain ⟨hf, hc, he, hl⟩ := h.upper u0 rest rfl
              simp only [List.map_cons, List.cons.injEq] at hab
              obtain ⟨ha, _⟩ := hab
              subst ha
              refine ⟨by rw [updSt_fst]; exact hf, ?_, ?_, ?_⟩
              · rw [updSt_fst]; exact mChain_upd o st _ _ hc
              · rw [updSt_fst, mEnd_upd]; exact he
              · rw [mLast_upd]; exact hl
          lastU := by
            intro hne hl
            have hl' : low = [] := by simpa using hl
            have hne' : up ≠ [] := by intro hh; exact hne (by simp [hh])
            rw [mLast_upd]; exact h.lastU hne' hl'
          lower := by
            intro a b hab
            cases low with
            | nil => simp at hab
            | cons l0 lrest =>
              obtain ⟨hc, hl, hle⟩ := h.lower l0 lrest rfl
              refine ⟨mChain_upd o st _ _ hc, by rw [mLast_upd]; exact hl, ?_⟩
              intro a' b' hab'
              cases up with
              | nil => simp at hab'
              | cons u0 rest =>
                simp only [List.map_cons, List.cons.injEq] at hab'
                rw [← hab'.1, updSt_fst, mEnd_upd]
                exact hle u0 rest rfl }

/-- **getNextWaitingASDU hands out the oldest waiting entry with exactly its stored id and octets** and marks it
sent-but-unconfirmed; every other entry is untouched -/
theorem getNextWaiting_refines (q : MsgQueue) (up low : List MEntry) (h : MqInv q up low) :
    match (up ++ low).find? (fun x => x.2.st == 1) with
    | none => q.getNextWaiting = (q, none)
    | some x => q.getNextWaiting = (q.setState x.1 2, some (x.2.id, x.1, x.2.data)) ∧
        MqInv (q.setState x.1 2) (up.map (updSt x.1 2)) (low.map (updSt x.1 2)) := by
  unfold MsgQueue.getNextWaiting MsgQueue.firstWaiting
  by_cases hc : q.count = 0
  · have hup : up = [] := by
      cases up with
      | nil => rfl
      | cons a b => have := h.count; simp [hc] at this; omega
    subst hup
    have := h.lowup rfl; subst this
    simp [hc]
  · simp only [hc, if_false]
    rw [findFrom_eq q up low h _ hc]
    cases hfind : (up ++ low).find? (fun x => x.2.st == 1) with
    | none => simp
    | some x =>
      have hx : x ∈ up ++ low := List.mem_of_find?_eq_some hfind
      simp only [Option.map_some, h.data x hx]
      exact ⟨trivial, setState_inv q up low h x.1 2⟩

end Iec.Queues

namespace Iec.Queues

/-! ### removing the oldest entry, confirming, re-arming -/

/-- `removeFirstEntry` drops the head of the list and nothing else -/
theorem removeFirst_refines (q : MsgQueue) (u0 : MEntry) (rest low : List MEntry) (h : MqInv q (u0 :: rest) low) :
    (rest ≠ [] → MqInv q.removeFirst rest low) ∧ (rest = [] → MqInv q.removeFirst low []) := by
  obtain ⟨hfirst, hchain, hend, hlib⟩ := h.upper u0 rest rfl
  have hcount : q.count = rest.length + 1 + low.length := by simpa using h.count
  have hg0 : q.get u0.1 = some u0.2 := h.data u0 (by simp)
  obtain ⟨_, hrestc⟩ := hchain
  constructor
  · intro hr
    obtain ⟨r0, rr, hrr⟩ := List.exists_cons_of_ne_nil hr
    have hlo := mChain_lastOff _ rest hrestc hr
    have hml : mLast (u0 :: rest) = mLast rest := mLast_cons u0 rest hr
    have hnlib : ¬ (some u0.1 = q.lib) := by rw [hlib, hml]; simp only [esz, HDR] at hlo; simp; omega
    have hr0 : r0.1 = u0.1 + esz u0 := by have := hrestc; rw [hrr] at this; exact this.1
    have heq : q.removeFirst = { q with first := some (u0.1 + HDR + q.esize u0.1), count := q.count - 1 } := by
      simp [MsgQueue.removeFirst, hfirst, hnlib]
    rw [heq, esize_of q u0 hg0]
    exact { count := by show q.count - 1 = _; omega
            data := by intro x hx; exact h.data x (by simp at hx ⊢; rcases hx with hx | hx; exact Or.inr (Or.inl hx); exact Or.inr (Or.inr hx))
            lowup := by intro h'; exact absurd h' hr
            upper := by
              intro a b hab
              have ha : a = r0 := by rw [hrr] at hab; cases hab; rfl
              subst ha
              refine ⟨by show some _ = some a.1; rw [hr0]; simp [esz, Nat.add_assoc], by rw [hr0]; exact hrestc, ?_, by show q.lib = _; rw [hlib, hml]⟩
              simp only [mEnd] at hend; rw [hr0]; exact hend
            lastU := by intro _ hl; show q.last = _; rw [h.lastU (by simp) hl, hml]
            lower := by
              intro l0 lrest hl
              obtain ⟨hlc, hlast, hle⟩ := h.lower l0 lrest hl
              refine ⟨hlc, hlast, ?_⟩
              intro a b hab
              have ha : a = r0 := by rw [hrr] at hab; cases hab; rfl
              subst ha
              have := hle u0 rest rfl
              simp only [esz, HDR] at hr0; omega }
  · intro hr
    subst hr
    have hlibeq : q.lib = some u0.1 := by rw [hlib, mLast_single]
    cases low with
    | nil =>
      have hlast := h.lastU (by simp) rfl
      have hfl : q.last = some u0.1 := by rw [hlast, mLast_single]
      have heq : q.removeFirst = { q with first := none, last := none, lib := none, count := q.count - 1 } := by
        simp [MsgQueue.removeFirst, hfirst, hlibeq, hfl]
      rw [heq]
      exact { count := by show q.count - 1 = _; simp at hcount ⊢; omega
              data := by simp
              lowup := fun _ => rfl
              upper := by intro a b h'; cases h'
              lastU := by simp
              lower := by intro a b h'; cases h' }
    | cons l0 lrest =>
      obtain ⟨hlc, hlast, hle⟩ := h.lower l0 lrest rfl
      have hleU := hle u0 [] rfl
      have hlo := mChain_lastOff 0 (l0 :: lrest) hlc (by simp)
      have hnl : ¬ (u0.1 = mLast (l0 :: lrest)) := by omega
      have heq : q.removeFirst = { q with first := some 0, lib := q.last, count := q.count - 1 } := by
        simp [MsgQueue.removeFirst, hfirst, hlibeq, hlast, hnl]
      rw [heq]
      have hl0 : l0.1 = 0 := hlc.1
      have hb := mChain_bounds u0.1 [u0] ⟨rfl, hrestc⟩
      exact { count := by show q.count - 1 = _; simp at hcount ⊢; omega
              data := by intro x hx; exact h.data x (by simp at hx ⊢; right; exact hx)
              lowup := by intro h'; cases h'
              upper := by
                intro a b hab; cases hab
                rw [hl0]
                refine ⟨rfl, hlc, ?_, by show q.last = _; exact hlast⟩
                show mEnd 0 (l0 :: lrest) ≤ q.size
                have := hb.1; omega
              lastU := by intro _ _; exact hlast
              lower := by intro a b h'; cases h' }

end Iec.Queues

namespace Iec.Queues

/-- `MessageQueue_markAsduAsConfirmed` for a reference (offset, id) that designates a queued entry inside the id
window: the entry becomes confirmed; if it is the oldest entry it leaves the queue; nothing else changes -/
theorem markConfirmed_refines (q : MsgQueue) (up low : List MEntry) (h : MqInv q up low) (x : MEntry)
    (hx : x ∈ up ++ low) (hwin : x.2.id + 1 ≤ q.nextId ∧ q.nextId - 1 - x.2.id < q.count) :
    ∃ up' low', MqInv (q.markConfirmed x.1 x.2.id) up' low' ∧
      MqInv.abs up' low' =
        (if (up ++ low).head? = some x then (MqInv.abs (up.map (updSt x.1 0)) (low.map (updSt x.1 0))).tail
         else MqInv.abs (up.map (updSt x.1 0)) (low.map (updSt x.1 0))) := by
  have hcnt : q.count > 0 := by omega
  have hgx := h.data x hx
  have hs := setState_inv q up low h x.1 0
  have hwin' : (decide (x.2.id + 1 ≤ q.nextId) && decide (q.nextId - 1 - x.2.id < q.count)) = true := by simp [hwin.1, hwin.2]
  cases up with
  | nil => have := h.lowup rfl; subst this; simp at hx
  | cons u0 rest =>
    obtain ⟨hfirst, hchain, _, _⟩ := h.upper u0 rest rfl
    have hbU := mChain_bounds u0.1 (u0 :: rest) hchain
    by_cases hhead : x = u0
    · subst hhead
      have heq : q.markConfirmed x.1 x.2.id = (q.setState x.1 0).removeFirst := by
        simp [MsgQueue.markConfirmed, hcnt, hwin', hgx, hfirst]
      rw [heq]
      have hs' : MqInv (q.setState x.1 0) (updSt x.1 0 x :: rest.map (updSt x.1 0)) (low.map (updSt x.1 0)) := by simpa using hs
      obtain ⟨hne, hnil⟩ := removeFirst_refines _ _ _ _ hs'
      have hh : ((x :: rest) ++ low).head? = some x := by simp
      rw [if_pos hh]
      by_cases hr : rest = []
      · subst hr
        exact ⟨_, _, hnil (by simp), by simp [MqInv.abs]⟩
      · exact ⟨_, _, hne (by simpa using hr), by simp [MqInv.abs]⟩
    · -- not the oldest entry: its offset differs from `first`
      have hoff : ¬ (some x.1 = q.first) := by
        rw [hfirst]; simp
        intro hxo
        rcases List.mem_append.mp hx with hxu | hxl
        · rcases List.mem_cons.mp hxu with rfl | hxr
          · exact hhead rfl
          · have hc2 := hchain.2
            have := ((mChain_bounds _ _ hc2).2 x hxr).1
            simp only [esz, HDR] at this; omega
        · cases low with
          | nil => simp at hxl
          | cons l0 lrest =>
            obtain ⟨hlc, _, hle⟩ := h.lower l0 lrest rfl
            have := ((mChain_bounds 0 _ hlc).2 x hxl).2
            have h2 := hle u0 rest rfl
            simp only [esz, HDR] at this; omega
      have heq : q.markConfirmed x.1 x.2.id = q.setState x.1 0 := by
        simp [MsgQueue.markConfirmed, hcnt, hwin', hgx, hoff]
      rw [heq]
      have hh : ¬ (((u0 :: rest) ++ low).head? = some x) := by simp; exact fun h' => hhead h'.symm
      rw [if_neg hh]
      exact ⟨_, _, hs, rfl⟩

end Iec.Queues

namespace Iec.Queues

/-! ### re-arming the sent-but-unconfirmed entries (connection lost) -/

/-- same pointers and counters -/
def SameShape (q q' : MsgQueue) : Prop :=
  q'.size = q.size ∧ q'.count = q.count ∧ q'.first = q.first ∧ q'.last = q.last ∧ q'.lib = q.lib ∧ q'.nextId = q.nextId

theorem SameShape.refl (q : MsgQueue) : SameShape q q := ⟨rfl, rfl, rfl, rfl, rfl, rfl⟩
theorem SameShape.setState (q : MsgQueue) (o st : Nat) : SameShape q (q.setState o st) := ⟨rfl, rfl, rfl, rfl, rfl, rfl⟩
theorem SameShape.trans {a b c : MsgQueue} (h1 : SameShape a b) (h2 : SameShape b c) : SameShape a c := by
  obtain ⟨a1, a2, a3, a4, a5, a6⟩ := h1
  obtain ⟨b1, b2, b3, b4, b5, b6⟩ := h2
  exact ⟨b1.trans a1, b2.trans a2, b3.trans a3, b4.trans a4, b5.trans a5, b6.trans a6⟩

def rearmE (e : QEntry) : QEntry := if e.st = 2 then { e with st := 1 } else e
def rearm (x : MEntry) : MEntry := (x.1, rearmE x.2)

theorem rearm_fst (x : MEntry) : (rearm x).1 = x.1 := rfl
theorem rearm_esz (x : MEntry) : esz (rearm x) = esz x := by unfold rearm rearmE esz; split <;> rfl

/-- an invariant-preserving relabelling: same shape, entries replaced by `r x` with the same offset and size -/
theorem inv_of_get (q q' : MsgQueue) (up low : List MEntry) (h : MqInv q up low) (hs : SameShape q q') (r : MEntry → MEntry)
    (hr1 : ∀ x, (r x).1 = x.1) (hr2 : ∀ x, esz (r x) = esz x) (hg : ∀ x ∈ up ++ low, q'.get x.1 = some (r x).2) :
    MqInv q' (up.map r) (low.map r) := by
  obtain ⟨s1, s2, s3, s4, s5, _⟩ := hs
  have hchain : ∀ (xs : List MEntry) (o : Nat), MChain o xs → MChain o (xs.map r) := by
    intro xs
    induction xs with
    | nil => intro o _; trivial
    | cons x xs ih => intro o hc; exact ⟨by rw [hr1]; exact hc.1, by rw [hr2]; exact ih _ hc.2⟩
  have hend : ∀ (xs : List MEntry) (o : Nat), mEnd o (xs.map r) = mEnd o xs := by
    intro xs
    induction xs with
    | nil => intro o; rfl
    | cons x xs ih => intro o; simp [mEnd, hr2, ih]
  have hlast : ∀ (xs : List MEntry), mLast (xs.map r) = mLast xs := by
    intro xs; unfold mLast; rw [List.getLast?_map]; cases xs.getLast? <;> simp [hr1]
  exact { count := by rw [s2]; have := h.count; simpa using this
          data := by
            intro x hx
            rw [← List.map_append] at hx
            obtain ⟨y, hy, rfl⟩ := List.mem_map.mp hx
            rw [hr1]; exact hg y hy
          lowup := by intro h'; have := h.lowup (by simpa using h'); simp [this]
          upper := by
            intro a b hab
            cases up with
            | nil => simp at hab
            | cons u0 rest =>
              obtain ⟨hf, hc, he, hl⟩ := h.upper u0 rest rfl
              simp only [List.map_cons, List.cons.injEq] at hab
              obtain ⟨ha, _⟩ := hab
              subst ha
              refine ⟨by rw [s3, hr1]; exact hf, by rw [hr1]; exact hchain _ _ hc, by rw [hr1, hend, s1]; exact he, by rw [hlast, s5]; exact hl⟩
          lastU := by
            intro hne hl
            have hl' : low = [] := by simpa using hl
            have hne' : up ≠ [] := by intro hh; exact hne (by simp [hh])
            rw [hlast, s4]; exact h.lastU hne' hl'
          lower := by
            intro a b hab
            cases low with
            | nil => simp at hab
            | cons l0 lrest =>
              obtain ⟨hc, hl, hle⟩ := h.lower l0 lrest rfl
              refine ⟨hchain _ _ hc, by rw [hlast, s4]; exact hl, ?_⟩
              intro a' b' hab'
              cases up with
              | nil => simp at hab'
              | cons u0 rest =>
                simp only [List.map_cons, List.cons.injEq] at hab'
                rw [← hab'.1, hr1, hend]
                exact hle u0 rest rfl }

/-- effect of the reset loop on a chain segment that ends at `last` -/
theorem reset_final : ∀ (xs : List MEntry) (q : MsgQueue) (o : Nat) (z : MEntry),
    MChain o (xs ++ [z]) → (∀ x ∈ xs ++ [z], q.get x.1 = some x.2) → q.last = some z.1 →
    (∀ x ∈ xs, some x.1 ≠ q.lib) →
    ∀ k, SameShape q (resetLoop q (xs.length + 1 + k) o) ∧
      (∀ x ∈ xs ++ [z], (resetLoop q (xs.length + 1 + k) o).get x.1 = some (rearmE x.2)) ∧
      (∀ o', (∀ x ∈ xs ++ [z], x.1 ≠ o') → (resetLoop q (xs.length + 1 + k) o).get o' = q.get o') := by
  intro xs
  induction xs with
  | nil =>
    intro q o z hc hg hl _ k
    obtain ⟨hz, _⟩ := hc
    have hgz := hg z (by simp)
    subst hz
    have : ([] : List MEntry).length + 1 + k = k + 1 := by simp; omega
    rw [this]
    simp only [resetLoop, hgz, hl, beq_self_eq_true, if_true, List.nil_append, List.mem_singleton, forall_eq]
    by_cases hst : z.2.st = 2
    · simp only [hst, beq_self_eq_true, if_true]
      refine ⟨SameShape.setState q z.1 1, ?_, ?_⟩
      · rw [get_setState, hgz]; simp [rearmE, hst]
      · intro o' ho'; rw [get_setState]
        have : ¬ (o' = z.1) := fun h => ho' h.symm
        cases q.get o' <;> simp [this]
    · have hst' : (z.2.st == 2) = false := by simpa using hst
      simp only [hst', Bool.false_eq_true, if_false]
      refine ⟨SameShape.refl q, ?_, fun _ _ => trivial⟩
      rw [hgz]; simp [rearmE, hst]
  | cons x xs ih =>
    intro q o z hc hg hl hlib k
    obtain ⟨hx, hrest⟩ := hc
    have hgx := hg x (by simp)
    have hb := mChain_bounds _ _ hrest
    have hzpos : x.1 < z.1 := by
      have := (hb.2 z (by simp)).1
      simp only [esz, HDR] at this; omega
    have hnl : ¬ (some x.1 = q.last) := by rw [hl]; simp; omega
    have hnlib : ¬ (some x.1 = q.lib) := hlib x (by simp)
    subst hx
    have hnext : q.next x.1 = x.1 + esz x := by
      simp [MsgQueue.next, hnlib, esize_of q x hgx, esz, Nat.add_assoc]
    have hlen : (x :: xs).length + 1 + k = (xs.length + 1 + k) + 1 := by simp; omega
    rw [hlen]
    simp only [resetLoop, hgx, beq_iff_eq, hnl, if_false, hnext]
    -- the queue after treating `x`
    have hq1 : ∃ q1, q1 = (if x.2.st = 2 then q.setState x.1 1 else q) ∧ SameShape q q1 ∧
        q1.get x.1 = some (rearmE x.2) ∧ ∀ o', x.1 ≠ o' → q1.get o' = q.get o' := by
      by_cases hst : x.2.st = 2
      · refine ⟨q.setState x.1 1, by simp [hst], SameShape.setState q x.1 1, ?_, ?_⟩
        · rw [get_setState, hgx]; simp [rearmE, hst]
        · intro o' ho'; rw [get_setState]
          have : ¬ (o' = x.1) := fun h => ho' h.symm
          cases q.get o' <;> simp [this]
      · refine ⟨q, by simp [hst], SameShape.refl q, by rw [hgx]; simp [rearmE, hst], fun _ _ => rfl⟩
    obtain ⟨q1, hq1e, hs1, hg1, hgo1⟩ := hq1
    rw [← hq1e]
    have hrest_off : ∀ y ∈ xs ++ [z], x.1 ≠ y.1 := by
      intro y hy; have := (hb.2 y hy).1; simp only [esz, HDR] at this; omega
    obtain ⟨_, _, _, s4, s5, _⟩ := hs1
    have hih := ih q1 (x.1 + esz x) z hrest
      (fun y hy => by rw [hgo1 y.1 (hrest_off y hy)]; exact hg y (by simp at hy ⊢; rcases hy with hy | hy; exact Or.inr (Or.inl hy); exact Or.inr (Or.inr hy)))
      (by rw [s4]; exact hl) (fun y hy => by rw [s5]; exact hlib y (by simp [hy])) k
    obtain ⟨hsh, hgl, hgo⟩ := hih
    refine ⟨SameShape.trans ⟨by assumption, by assumption, by assumption, s4, s5, by assumption⟩ hsh, ?_, ?_⟩
    · intro y hy
      simp only [List.cons_append, List.mem_cons] at hy
      rcases hy with rfl | hy
      · rw [hgo y.1 (fun w hw => (hrest_off w hw).symm)]; exact hg1
      · exact hgl y hy
    · intro o' ho'
      rw [hgo o' (fun w hw => ho' w (by simp at hw ⊢; rcases hw with hw | hw; exact Or.inr (Or.inl hw); exact Or.inr (Or.inr hw)))]
      exact hgo1 o' (ho' x (by simp))

end Iec.Queues

namespace Iec.Queues

/-- effect of the reset loop on the upper part of a wrapped ring: it continues at the buffer start -/
theorem reset_seg : ∀ (xs : List MEntry) (q : MsgQueue) (o : Nat) (z : MEntry),
    MChain o (xs ++ [z]) → (∀ x ∈ xs ++ [z], q.get x.1 = some x.2) → (∀ x ∈ xs ++ [z], some x.1 ≠ q.last) →
    q.lib = some z.1 →
    ∀ k, ∃ q', resetLoop q (xs.length + 1 + k) o = resetLoop q' k 0 ∧ SameShape q q' ∧
      (∀ x ∈ xs ++ [z], q'.get x.1 = some (rearmE x.2)) ∧
      (∀ o', (∀ x ∈ xs ++ [z], x.1 ≠ o') → q'.get o' = q.get o') := by
  intro xs
  induction xs with
  | nil =>
    intro q o z hc hg hl hlib k
    obtain ⟨hz, _⟩ := hc
    have hgz := hg z (by simp)
    have hnl : ¬ (some z.1 = q.last) := hl z (by simp)
    subst hz
    have hnext : q.next z.1 = 0 := by simp [MsgQueue.next, hlib]
    have : ([] : List MEntry).length + 1 + k = k + 1 := by simp; omega
    rw [this]
    simp only [resetLoop, hgz, beq_iff_eq, hnl, if_false, hnext, List.nil_append, List.mem_singleton, forall_eq]
    by_cases hst : z.2.st = 2
    · refine ⟨q.setState z.1 1, by simp [hst], SameShape.setState q z.1 1, ?_, ?_⟩
      · rw [get_setState, hgz]; simp [rearmE, hst]
      · intro o' ho'; rw [get_setState]
        have : ¬ (o' = z.1) := fun h => ho' h.symm
        cases q.get o' <;> simp [this]
    · refine ⟨q, by simp [hst], SameShape.refl q, ?_, fun _ _ => rfl⟩
      rw [hgz]; simp [rearmE, hst]
  | cons x xs ih =>
    intro q o z hc hg hl hlib k
    obtain ⟨hx, hrest⟩ := hc
    have hgx := hg x (by simp)
    have hb := mChain_bounds _ _ hrest
    have hzpos : x.1 < z.1 := by
      have := (hb.2 z (by simp)).1
      simp only [esz, HDR] at this; omega
    have hnl : ¬ (some x.1 = q.last) := hl x (by simp)
    have hnlib : ¬ (some x.1 = q.lib) := by rw [hlib]; simp; omega
    subst hx
    have hnext : q.next x.1 = x.1 + esz x := by
      simp [MsgQueue.next, hnlib, esize_of q x hgx, esz, Nat.add_assoc]
    have hlen : (x :: xs).length + 1 + k = (xs.length + 1 + k) + 1 := by simp; omega
    rw [hlen]
    simp only [resetLoop, hgx, beq_iff_eq, hnl, if_false, hnext]
    have hq1 : ∃ q1, q1 = (if x.2.st = 2 then q.setState x.1 1 else q) ∧ SameShape q q1 ∧
        q1.get x.1 = some (rearmE x.2) ∧ ∀ o', x.1 ≠ o' → q1.get o' = q.get o' := by
      by_cases hst : x.2.st = 2
      · refine ⟨q.setState x.1 1, by simp [hst], SameShape.setState q x.1 1, ?_, ?_⟩
        · rw [get_setState, hgx]; simp [rearmE, hst]
        · intro o' ho'; rw [get_setState]
          have : ¬ (o' = x.1) := fun h => ho' h.symm
          cases q.get o' <;> simp [this]
      · refine ⟨q, by simp [hst], SameShape.refl q, by rw [hgx]; simp [rearmE, hst], fun _ _ => rfl⟩
    obtain ⟨q1, hq1e, hs1, hg1, hgo1⟩ := hq1
    rw [← hq1e]
    have hrest_off : ∀ y ∈ xs ++ [z], x.1 ≠ y.1 := by
      intro y hy; have := (hb.2 y hy).1; simp only [esz, HDR] at this; omega
    obtain ⟨t1, t2, t3, s4, s5, t6⟩ := hs1
    obtain ⟨q', hres, hsh, hgl, hgo⟩ := ih q1 (x.1 + esz x) z hrest
      (fun y hy => by rw [hgo1 y.1 (hrest_off y hy)]; exact hg y (by simp at hy ⊢; rcases hy with hy | hy; exact Or.inr (Or.inl hy); exact Or.inr (Or.inr hy)))
      (fun y hy => by rw [s4]; exact hl y (by simp at hy ⊢; rcases hy with hy | hy; exact Or.inr (Or.inl hy); exact Or.inr (Or.inr hy)))
      (by rw [s5]; exact hlib) k
    refine ⟨q', hres, SameShape.trans ⟨t1, t2, t3, s4, s5, t6⟩ hsh, ?_, ?_⟩
    · intro y hy
      simp only [List.cons_append, List.mem_cons] at hy
      rcases hy with rfl | hy
      · rw [hgo y.1 (fun w hw => (hrest_off w hw).symm)]; exact hg1
      · exact hgl y hy
    · intro o' ho'
      rw [hgo o' (fun w hw => ho' w (by simp at hw ⊢; rcases hw with hw | hw; exact Or.inr (Or.inl hw); exact Or.inr (Or.inr hw)))]
      exact hgo1 o' (ho' x (by simp))

/-- **setWaitingForTransmissionWhenNotConfirmed** terminates and turns exactly the sent-but-unconfirmed entries
back into waiting ones; ids, octets, order and all other states are untouched -/
theorem setWaiting_refines (q : MsgQueue) (up low : List MEntry) (h : MqInv q up low) :
    MqInv q.setWaitingWhenNotConfirmed (up.map rearm) (low.map rearm) := by
  unfold MsgQueue.setWaitingWhenNotConfirmed
  cases up with
  | nil =>
    have := h.lowup rfl; subst this
    have hc : q.count = 0 := by simpa using h.count
    simpa [hc] using h
  | cons u0 rest =>
    obtain ⟨hfirst, hchain, hend, hlib⟩ := h.upper u0 rest rfl
    have hc : ¬ (q.count = 0) := by have := h.count; simp at this; omega
    simp only [hc, if_false, hfirst, Option.getD_some]
    obtain ⟨L, z, hL⟩ := msnoc_cases (u0 :: rest) (by simp)
    have hchain' : MChain u0.1 (L ++ [z]) := hL ▸ hchain
    have hzlast : mLast (u0 :: rest) = z.1 := by rw [hL]; exact mLast_snoc L z
    have hbU := mChain_bounds u0.1 (u0 :: rest) hchain
    cases low with
    | nil =>
      have hlast := h.lastU (by simp) rfl
      rw [hzlast] at hlast hlib
      have hcount : q.count + 1 = L.length + 1 + 1 := by have := h.count; rw [hL] at this; simp at this ⊢; omega
      rw [hcount]
      obtain ⟨hsh, hgl, _⟩ := reset_final L q u0.1 z hchain' (fun x hx => h.data x (List.mem_append.mpr (Or.inl (by rw [hL]; exact hx)))) hlast
        (by
          intro x hx
          rw [hlib]
          have hb := mChain_bounds _ _ ((mChain_append u0.1 L [z]).mp hchain').1
          have h1 := (hb.2 x hx).2
          have h2 := (mChain_last u0.1 L z hchain').2.2
          simp only [esz, HDR] at h1
          simp; omega) 1
      exact inv_of_get q _ (u0 :: rest) [] h hsh rearm rearm_fst rearm_esz
        (fun x hx => hgl x (by rw [← hL]; simpa using hx))
    | cons l0 lrest =>
      obtain ⟨hlc, hlast, hle⟩ := h.lower l0 lrest rfl
      have hleU := hle u0 rest rfl
      obtain ⟨LL, zz, hLL⟩ := msnoc_cases (l0 :: lrest) (by simp)
      have hlc' : MChain 0 (LL ++ [zz]) := hLL ▸ hlc
      have hzzlast : mLast (l0 :: lrest) = zz.1 := by rw [hLL]; exact mLast_snoc LL zz
      rw [hzlast] at hlib
      rw [hzzlast] at hlast
      have hcount : q.count + 1 = L.length + 1 + (LL.length + 1 + 1) := by
        have := h.count; rw [hL, hLL] at this; simp at this ⊢; omega
      have hbL := mChain_bounds 0 (l0 :: lrest) hlc
      have hzzlt : zz.1 < u0.1 := by
        have := (hbL.2 zz (by rw [hLL]; simp)).2
        simp only [esz, HDR] at this; omega
      rw [hcount]
      obtain ⟨q', hres, hsh1, hgl1, hgo1⟩ := reset_seg L q u0.1 z hchain'
        (fun x hx => h.data x (List.mem_append.mpr (Or.inl (by rw [hL]; exact hx))))
        (by
          intro x hx
          rw [hlast]
          have := (hbU.2 x (by rw [hL]; exact hx)).1
          simp; omega) hlib (LL.length + 1 + 1)
      rw [hres]
      obtain ⟨_, _, _, s4, s5, _⟩ := hsh1
      have hdisj : ∀ y ∈ LL ++ [zz], ∀ x ∈ L ++ [z], x.1 ≠ y.1 := by
        intro y hy x hx
        have h1 := (hbL.2 y (by rw [hLL]; exact hy)).2
        have h2 := (hbU.2 x (by rw [hL]; exact hx)).1
        simp only [esz, HDR] at h1; omega
      obtain ⟨hsh2, hgl2, hgo2⟩ := reset_final LL q' 0 zz hlc'
        (fun y hy => by rw [hgo1 y.1 (hdisj y hy)]; exact h.data y (List.mem_append.mpr (Or.inr (by rw [hLL]; exact hy))))
        (by rw [s4]; exact hlast)
        (by
          intro x hx
          rw [s5, hlib]
          have h1 := (hbL.2 x (by rw [hLL]; simp [hx])).2
          have h2 := (hbU.2 z (by rw [hL]; simp)).1
          simp only [esz, HDR] at h1
          simp; omega) 1
      refine inv_of_get q _ (u0 :: rest) (l0 :: lrest) h (SameShape.trans ⟨by assumption, by assumption, by assumption, s4, s5, by assumption⟩ hsh2)
        rearm rearm_fst rearm_esz ?_
      intro x hx
      rcases List.mem_append.mp hx with hx | hx
      · rw [hgo2 x.1 (fun y hy => (hdisj y hy x (by rw [← hL]; exact hx)).symm)]
        exact hgl1 x (by rw [← hL]; exact hx)
      · exact hgl2 x (by rw [← hLL]; exact hx)

end Iec.Queues
