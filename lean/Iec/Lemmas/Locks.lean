/-
Soundness of the collecting interpreter `Iec.Locks.exec` for the path semantics
`Iec.Locks.Run`: if `exec` reports no fault, every outcome of every path is in
the computed sets (and in particular no path faults).
-/
import Iec.Model.Locks
namespace Iec.Locks

/-! ### `uni` is a union -/

theorem uni_step_mem {α} [DecidableEq α] (acc : List α) (x y : α) :
    y ∈ (if x ∈ acc then acc else acc ++ [x]) ↔ y ∈ acc ∨ y = x := by
  by_cases h : x ∈ acc
  · rw [if_pos h]; constructor
    · intro hy; exact Or.inl hy
    · rintro (hy | hy)
      · exact hy
      · exact hy ▸ h
  · rw [if_neg h]; simp

theorem mem_uni {α} [DecidableEq α] (a b : List α) (y : α) : y ∈ uni a b ↔ y ∈ a ∨ y ∈ b := by
  unfold uni
  induction b generalizing a with
  | nil => simp
  | cons x xs ih =>
    rw [List.foldl_cons, ih, uni_step_mem]
    simp only [List.mem_cons]
    constructor
    · rintro ((h | h) | h)
      · exact Or.inl h
      · exact Or.inr (Or.inl h)
      · exact Or.inr (Or.inr h)
    · rintro (h | h | h)
      · exact Or.inl (Or.inl h)
      · exact Or.inl (Or.inr h)
      · exact Or.inr h

theorem uni_length_le {α} [DecidableEq α] (a b : List α) : a.length ≤ (uni a b).length := by
  unfold uni
  induction b generalizing a with
  | nil => simp
  | cons x xs ih =>
    rw [List.foldl_cons]
    refine Nat.le_trans ?_ (ih _)
    by_cases h : x ∈ a
    · rw [if_pos h]; exact Nat.le_refl _
    · rw [if_neg h]; simp

/-- nothing new was added iff the length did not change -/
theorem uni_length_eq {α} [DecidableEq α] (a b : List α) (h : (uni a b).length = a.length) :
    ∀ y ∈ b, y ∈ a := by
  unfold uni at h
  induction b generalizing a with
  | nil => intro y hy; cases hy
  | cons x xs ih =>
    rw [List.foldl_cons] at h
    by_cases hx : x ∈ a
    · rw [if_pos hx] at h
      intro y hy
      rcases List.mem_cons.mp hy with rfl | hy
      · exact hx
      · exact ih a h y hy
    · rw [if_neg hx] at h
      have := uni_length_le (a ++ [x]) xs
      unfold uni at this
      simp at this
      omega

/-! ### coverage -/

/-- the outcome `o` is accounted for in `r` -/
def Covers (r : Res) : Out → Prop
  | .norm st => st ∈ r.norm
  | .brk h => h ∈ r.brk
  | .cont h => h ∈ r.cont
  | .ret h => h ∈ r.ret
  | .fault => r.fault = true

/-- `o` is covered, or the interpreter has raised its fault flag -/
def Ok (r : Res) (o : Out) : Prop := Covers r o ∨ r.fault = true

theorem covers_merge_l {a b : Res} {o : Out} (h : Covers a o) : Covers (a.merge b) o := by
  cases o <;> simp only [Covers, Res.merge] at * <;> first
    | exact (mem_uni _ _ _).mpr (Or.inl h)
    | simp [h]

theorem covers_merge_r {a b : Res} {o : Out} (h : Covers b o) : Covers (a.merge b) o := by
  cases o <;> simp only [Covers, Res.merge] at * <;> first
    | exact (mem_uni _ _ _).mpr (Or.inr h)
    | simp [h]

theorem fault_merge_l {a b : Res} (h : a.fault = true) : (a.merge b).fault = true := by
  simp [Res.merge, h]
theorem fault_merge_r {a b : Res} (h : b.fault = true) : (a.merge b).fault = true := by
  simp [Res.merge, h]

theorem ok_merge_l {a b : Res} {o : Out} (h : Ok a o) : Ok (a.merge b) o :=
  h.elim (fun h => Or.inl (covers_merge_l h)) (fun h => Or.inr (fault_merge_l h))
theorem ok_merge_r {a b : Res} {o : Out} (h : Ok b o) : Ok (a.merge b) o :=
  h.elim (fun h => Or.inl (covers_merge_r h)) (fun h => Or.inr (fault_merge_r h))

theorem overAll_foldl_acc (f : St → Res) (sts : List St) (acc : Res) (o : Out) (h : Ok acc o) :
    Ok (sts.foldl (fun acc st => acc.merge (f st)) acc) o := by
  induction sts generalizing acc with
  | nil => exact h
  | cons x xs ih => exact ih _ (ok_merge_l h)

theorem ok_overAll {f : St → Res} {sts : List St} {st : St} {o : Out} (hm : st ∈ sts)
    (h : Ok (f st) o) : Ok (overAll f sts) o := by
  unfold overAll
  generalize ({} : Res) = acc
  induction sts generalizing acc with
  | nil => cases hm
  | cons x xs ih =>
    rw [List.foldl_cons]
    rcases List.mem_cons.mp hm with rfl | hm
    · exact overAll_foldl_acc f xs _ o (ok_merge_r h)
    · exact ih hm _

/-! ### loop fixpoint -/

/-- what `loopFix` guarantees about its answer -/
structure LoopInv (body step : St → Res) (S : List St) (r : Res) : Prop where
  eq : r = (overAll body S).merge
        { overAll step (uni (overAll body S).norm ((overAll body S).cont.map (fun h => (⟨none, h⟩ : St))))
          with norm := [] }
  closed : ∀ st ∈ (overAll step (uni (overAll body S).norm
        ((overAll body S).cont.map (fun h => (⟨none, h⟩ : St))))).norm, st ∈ S

theorem loopFix_spec (body step : St → Res) (fuel : Nat) (S0 S : List St) (r : Res)
    (h : loopFix body step fuel S0 = some (S, r)) :
    (∀ st ∈ S0, st ∈ S) ∧ LoopInv body step S r := by
  induction fuel generalizing S0 with
  | zero => simp [loopFix] at h
  | succ n ih =>
    simp only [loopFix] at h
    split at h
    · rename_i hlen
      injection h with h
      injection h with h1 h2
      subst h1
      refine ⟨fun st hst => hst, ⟨h2.symm, ?_⟩⟩
      exact uni_length_eq _ _ hlen
    · obtain ⟨hsub, hinv⟩ := ih _ h
      exact ⟨fun st hst => hsub st ((mem_uni _ _ _).mpr (Or.inl hst)), hinv⟩

/-! ### atoms -/

theorem isAtom_exec (s : Stmt) (hs : isAtom s = true) (st : St) : exec s st = execAtom s st := by
  cases s <;> simp [isAtom] at hs <;> simp [exec]

theorem run_atom_ok (s : Stmt) (hs : isAtom s = true) (st : St) (o : Out) (h : Run s st o) :
    Ok (execAtom s st) o := by
  cases h <;> simp [isAtom] at hs <;>
    simp_all [execAtom, Ok, Covers]

/-! ### the theorem -/

theorem loop_sound (a b : Stmt)
    (iha : ∀ st o, Run a st o → Ok (exec a st) o)
    (ihb : ∀ st o, Run b st o → Ok (exec b st) o)
    (S : List St) (r : Res) (hinv : LoopInv (exec a) (exec b) S r)
    (st : St) (o : Out) (hrun : Run (.loop a b) st o) (hst : st ∈ S) :
    Ok (loopRes S r) o := by
  generalize hs : Stmt.loop a b = s at hrun
  induction hrun with
  | seeking_atom hat => subst hs; simp [isAtom] at hat
  | loop_exit =>
    left; simp only [Covers, loopRes]; exact (mem_uni _ _ _).mpr (Or.inl hst)
  | @loop_iter a' b' st st1 st2 o h1 h2 _ _ _ ih3 =>
    injection hs with ha hb; subst ha; subst hb
    -- body
    have hb1 : Ok (overAll (exec a) S) (.norm st1) := ok_overAll hst (iha _ _ h1)
    rcases hb1 with hb1 | hb1
    · have hmid : st1 ∈ uni (overAll (exec a) S).norm ((overAll (exec a) S).cont.map (fun h => (⟨none, h⟩ : St))) :=
        (mem_uni _ _ _).mpr (Or.inl hb1)
      have hs2 := ok_overAll hmid (ihb _ _ h2)
      rcases hs2 with hs2 | hs2
      · exact ih3 (hinv.closed _ hs2) rfl
      · right; simp only [loopRes]; rw [hinv.eq]; exact fault_merge_r hs2
    · right; simp only [loopRes]; rw [hinv.eq]; exact fault_merge_l hb1
  | @loop_cont a' b' st h st2 o h1 h2 _ _ _ ih3 =>
    injection hs with ha hb; subst ha; subst hb
    have hb1 : Ok (overAll (exec a) S) (.cont h) := ok_overAll hst (iha _ _ h1)
    rcases hb1 with hb1 | hb1
    · have hmid : (⟨none, h⟩ : St) ∈ uni (overAll (exec a) S).norm ((overAll (exec a) S).cont.map (fun h => (⟨none, h⟩ : St))) :=
        (mem_uni _ _ _).mpr (Or.inr (List.mem_map.mpr ⟨h, hb1, rfl⟩))
      have hs2 := ok_overAll hmid (ihb _ _ h2)
      rcases hs2 with hs2 | hs2
      · exact ih3 (hinv.closed _ hs2) rfl
      · right; simp only [loopRes]; rw [hinv.eq]; exact fault_merge_r hs2
    · right; simp only [loopRes]; rw [hinv.eq]; exact fault_merge_l hb1
  | @loop_brk a' b' st h h1 _ =>
    injection hs with ha hb; subst ha; subst hb
    have hb1 : Ok (overAll (exec a) S) (.brk h) := ok_overAll hst (iha _ _ h1)
    rcases hb1 with hb1 | hb1
    · left; simp only [Covers, loopRes]
      refine (mem_uni _ _ _).mpr (Or.inr (List.mem_map.mpr ⟨h, ?_, rfl⟩))
      rw [hinv.eq]; exact (mem_uni _ _ _).mpr (Or.inl hb1)
    · right; simp only [loopRes]; rw [hinv.eq]; exact fault_merge_l hb1
  | @loop_body_stop a' b' st o h1 ho _ =>
    injection hs with ha hb; subst ha; subst hb
    have hb1 : Ok (overAll (exec a) S) o := ok_overAll hst (iha _ _ h1)
    rcases hb1 with hb1 | hb1
    · rcases ho with rfl | ⟨h, rfl⟩
      · right; simp only [loopRes]; rw [hinv.eq]; exact fault_merge_l hb1
      · left; simp only [Covers, loopRes]; rw [hinv.eq]; exact (mem_uni _ _ _).mpr (Or.inl hb1)
    · right; simp only [loopRes]; rw [hinv.eq]; exact fault_merge_l hb1
  | @loop_step_stop a' b' st st1 o h1 h2 ho _ _ =>
    injection hs with ha hb; subst ha; subst hb
    have hb1 : Ok (overAll (exec a) S) (.norm st1) := ok_overAll hst (iha _ _ h1)
    rcases hb1 with hb1 | hb1
    · have hmid : st1 ∈ uni (overAll (exec a) S).norm ((overAll (exec a) S).cont.map (fun h => (⟨none, h⟩ : St))) :=
        (mem_uni _ _ _).mpr (Or.inl hb1)
      have hs2 := ok_overAll hmid (ihb _ _ h2)
      rcases hs2 with hs2 | hs2
      · rcases ho with rfl | ⟨h, rfl⟩
        · right; simp only [loopRes]; rw [hinv.eq]; exact fault_merge_r hs2
        · left; simp only [Covers, loopRes]; rw [hinv.eq]; exact (mem_uni _ _ _).mpr (Or.inr hs2)
      · right; simp only [loopRes]; rw [hinv.eq]; exact fault_merge_r hs2
    · right; simp only [loopRes]; rw [hinv.eq]; exact fault_merge_l hb1
  | @loop_step_stop_c a' b' st h o h1 h2 ho _ _ =>
    injection hs with ha hb; subst ha; subst hb
    have hb1 : Ok (overAll (exec a) S) (.cont h) := ok_overAll hst (iha _ _ h1)
    rcases hb1 with hb1 | hb1
    · have hmid : (⟨none, h⟩ : St) ∈ uni (overAll (exec a) S).norm ((overAll (exec a) S).cont.map (fun h => (⟨none, h⟩ : St))) :=
        (mem_uni _ _ _).mpr (Or.inr (List.mem_map.mpr ⟨h, hb1, rfl⟩))
      have hs2 := ok_overAll hmid (ihb _ _ h2)
      rcases hs2 with hs2 | hs2
      · rcases ho with rfl | ⟨h', rfl⟩
        · right; simp only [loopRes]; rw [hinv.eq]; exact fault_merge_r hs2
        · left; simp only [Covers, loopRes]; rw [hinv.eq]; exact (mem_uni _ _ _).mpr (Or.inr hs2)
      · right; simp only [loopRes]; rw [hinv.eq]; exact fault_merge_r hs2
    · right; simp only [loopRes]; rw [hinv.eq]; exact fault_merge_l hb1
  | _ => cases hs

/-- **Soundness of the interpreter.** -/
theorem exec_sound (s : Stmt) : ∀ (st : St) (o : Out), Run s st o → Ok (exec s st) o := by
  induction s with
  | seq a b iha ihb =>
    intro st o h
    cases h with
    | seeking_atom hat => simp [isAtom] at hat
    | seq_norm h1 h2 =>
      simp only [exec]
      rcases iha _ _ h1 with c | f
      · exact ok_merge_r (ok_overAll c (ihb _ _ h2))
      · exact Or.inr (fault_merge_l (by simpa using f))
    | seq_stop h1 hn =>
      simp only [exec]
      rcases iha _ _ h1 with c | f
      · refine ok_merge_l (Or.inl ?_)
        cases o with
        | norm st' => exact absurd rfl (hn st')
        | _ => exact c
      · exact Or.inr (fault_merge_l (by simpa using f))
  | choice a b iha ihb =>
    intro st o h
    cases h with
    | seeking_atom hat => simp [isAtom] at hat
    | choice_l h1 => simp only [exec]; exact ok_merge_l (iha _ _ h1)
    | choice_r h1 => simp only [exec]; exact ok_merge_r (ihb _ _ h1)
  | «catch» a iha =>
    intro st o h
    cases h with
    | seeking_atom hat => simp [isAtom] at hat
    | catch_brk h1 =>
      simp only [exec]
      rcases iha _ _ h1 with c | f
      · left; simp only [Covers]
        exact (mem_uni _ _ _).mpr (Or.inr (List.mem_map.mpr ⟨_, c, rfl⟩))
      · right; exact f
    | catch_other h1 hn =>
      simp only [exec]
      rcases iha _ _ h1 with c | f
      · left
        cases o with
        | brk h => exact absurd rfl (hn h)
        | norm st' => simp only [Covers] at *; exact (mem_uni _ _ _).mpr (Or.inl c)
        | _ => exact c
      · right; exact f
  | loop a b iha ihb =>
    intro st o h
    simp only [exec]
    cases hfix : loopFix (exec a) (exec b) loopFuel [st] with
    | none => right; rfl
    | some p =>
      obtain ⟨S, r⟩ := p
      obtain ⟨hsub, hinv⟩ := loopFix_spec _ _ _ _ _ _ hfix
      exact loop_sound a b iha ihb S r hinv st o h (hsub st (by simp))
  | label n =>
    intro st o h
    cases h with
    | seeking_atom hat => simp [isAtom] at hat
    | label_hit => left; simp [exec, Covers]
    | label_miss hne =>
      left; simp only [exec, Covers]
      rw [if_neg (by intro hc; injection hc with hc; exact hne hc)]; simp
    | label_pass => left; simp [exec, Covers]
  | _ =>
    intro st o h
    rw [isAtom_exec _ (by rfl)]
    exact run_atom_ok _ (by rfl) st o h

/-- What a `true` verdict means for a whole function body. -/
theorem balanced_sound (s : Stmt) (hb : balanced s = true) (o : Out) (hr : Run s start o) :
    o = .norm start ∨ o = .ret [] := by
  have hs := exec_sound s start o hr
  simp only [balanced, Bool.and_eq_true, Bool.not_eq_true', List.all_eq_true, List.isEmpty_iff,
    beq_iff_eq] at hb
  obtain ⟨⟨⟨⟨hf, hbrk⟩, hcont⟩, hnorm⟩, hret⟩ := hb
  rcases hs with c | f
  · cases o with
    | norm st => left; rw [hnorm st c]
    | brk h => simp [Covers, hbrk] at c
    | cont h => simp [Covers, hcont] at c
    | ret h => right; rw [hret h c]
    | fault => simp [Covers, hf] at c
  · rw [hf] at f; cases f

end Iec.Locks

namespace Iec.Locks

/-! ### lock order -/

/-- `Path es x y`: a thread holds `x` and waits for a lock, whose holder waits for a lock, …,
whose holder waits for `y` — each step an edge of the lock-order relation. -/
inductive Path (es : List (Nat × Nat)) : Nat → Nat → Prop where
  | one {x y} : (x, y) ∈ es → Path es x y
  | cons {x y z} : (x, y) ∈ es → Path es y z → Path es x z

/-- A rank that strictly decreases along every edge rules out every cycle, hence every
circular wait among threads that respect the relation. -/
theorem ranked_no_cycle (es : List (Nat × Nat)) (rk : Nat → Nat)
    (h : es.all (fun e => rk e.2 < rk e.1) = true) : ∀ x, ¬ Path es x x := by
  have hp : ∀ x y, Path es x y → rk y < rk x := by
    intro x y p
    induction p with
    | one he => have := List.all_eq_true.mp h _ he; simpa using this
    | cons he _ ih => have := List.all_eq_true.mp h _ he; simp at this; omega
  intro x p
  exact Nat.lt_irrefl _ (hp x x p)

end Iec.Locks
