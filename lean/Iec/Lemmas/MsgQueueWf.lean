/-
Every operation the server applies to an event ring keeps the layout invariant `MqInv` (for SOME pair of lists): the ring
stays well-formed whatever reference `markAsduAsConfirmed` / `setEntryWaitingForTransmission` is called with, stale or not.
-/
import Iec.Lemmas.MsgQueueRetain
namespace Iec.Queues

/-- the ring is well-formed: its pointers, counter and memory describe two back-to-back runs of entries -/
def QWf (q : MsgQueue) : Prop := ∃ up low, MqInv q up low

theorem qwf_create (n : Nat) : QWf (MsgQueue.create n) :=
  ⟨[], [], { count := rfl, data := (by simp), lowup := fun _ => rfl, upper := (by intro a b h; cases h), lastU := (by simp),
             lower := (by intro a b h; cases h) }⟩

theorem qwf_enqueue (q : MsgQueue) (d : List Nat) (hs : 266 ≤ q.size) (h : QWf q) : QWf (q.enqueue d) := by
  obtain ⟨up, low, hi⟩ := h
  by_cases hd : d.length ≤ 250
  · obtain ⟨up', low', _, h', _⟩ := mq_enqueue_refines q up low hi d hd hs
    exact ⟨up', low', h'⟩
  · rw [mq_enqueue_big q d (by omega)]; exact ⟨up, low, hi⟩

theorem qwf_setState (q : MsgQueue) (o st : Nat) (h : QWf q) : QWf (q.setState o st) := by
  obtain ⟨up, low, hi⟩ := h
  exact ⟨_, _, setState_inv q up low hi o st⟩

theorem qwf_getNextWaiting (q : MsgQueue) (h : QWf q) : QWf q.getNextWaiting.1 := by
  unfold MsgQueue.getNextWaiting
  repeat' split
  all_goals first
    | exact h
    | exact qwf_setState _ _ _ h

theorem qwf_removeFirst (q : MsgQueue) (hc : q.count > 0) (h : QWf q) : QWf q.removeFirst := by
  obtain ⟨up, low, hi⟩ := h
  cases up with
  | nil =>
    have := hi.lowup rfl; subst this
    have : q.count = 0 := by simpa using hi.count
    omega
  | cons u0 rest =>
    obtain ⟨h1, h2⟩ := removeFirst_refines q u0 rest low hi
    by_cases hr : rest = []
    · exact ⟨_, _, h2 hr⟩
    · exact ⟨_, _, h1 hr⟩

theorem setState_count (q : MsgQueue) (o st : Nat) : (q.setState o st).count = q.count := rfl

theorem qwf_markConfirmed (q : MsgQueue) (o id : Nat) (h : QWf q) : QWf (q.markConfirmed o id) := by
  unfold MsgQueue.markConfirmed
  split
  · rename_i hc
    split
    · split
      · split
        · simp only
          split
          · exact qwf_removeFirst _ (by rw [setState_count]; exact hc) (qwf_setState _ _ _ h)
          · exact qwf_setState _ _ _ h
        · exact h
      · exact h
    · exact h
  · exact h

theorem qwf_setEntryWaiting (q : MsgQueue) (o id : Nat) (h : QWf q) : QWf (q.setEntryWaiting o id) := by
  unfold MsgQueue.setEntryWaiting
  repeat' split
  all_goals first
    | exact h
    | exact qwf_setState _ _ _ h

theorem qwf_releaseAll (q : MsgQueue) : QWf q.releaseAll :=
  ⟨[], [], { count := rfl, data := (by simp), lowup := fun _ => rfl, upper := (by intro a b h; cases h), lastU := (by simp),
             lower := (by intro a b h; cases h) }⟩

theorem qwf_initialize (q : MsgQueue) : QWf q.initialize :=
  ⟨[], [], { count := rfl, data := (by simp), lowup := fun _ => rfl, upper := (by intro a b h; cases h), lastU := (by simp),
             lower := (by intro a b h; cases h) }⟩

theorem markConfirmed_size (q : MsgQueue) (o id : Nat) : (q.markConfirmed o id).size = q.size := by
  unfold MsgQueue.markConfirmed MsgQueue.removeFirst MsgQueue.setState
  simp only
  repeat' split
  all_goals rfl

theorem setEntryWaiting_size (q : MsgQueue) (o id : Nat) : (q.setEntryWaiting o id).size = q.size := by
  unfold MsgQueue.setEntryWaiting MsgQueue.setState
  repeat' split
  all_goals rfl

theorem getNextWaiting_size (q : MsgQueue) : q.getNextWaiting.1.size = q.size := by
  unfold MsgQueue.getNextWaiting MsgQueue.setState
  repeat' split
  all_goals rfl

end Iec.Queues
