/-
The parser of the unbalanced secondary station accepts what the encoder of the primary produces
(`secHeader_varFrame`): encoder and parser agree on length octets, checksum, address and control octet.
-/
import Iec.Lemmas.Link101
namespace Iec.Link101

/-- the station address fits the configured width and is not the broadcast address -/
def AddrOk (aL a : Nat) : Prop := (aL = 0 ∧ a = 0) ∨ (aL = 1 ∧ a < 255) ∨ (aL = 2 ∧ a < 65535)

theorem ctrl_decode (fc : Nat) (fcb fcv : Bool) (hfc : fc < 16) :
    ctrl fc true false fcb fcv % 16 = fc ∧ ctrl fc true false fcb fcv / 64 % 2 = 1 ∧
    (ctrl fc true false fcb fcv / 32 % 2 = 1 ↔ fcb = true) ∧ (ctrl fc true false fcb fcv / 16 % 2 = 1 ↔ fcv = true) := by
  unfold ctrl b2n
  cases fcb <;> cases fcv <;> simp <;> omega

theorem g_append_left (a b : List Nat) (i : Nat) (h : i < a.length) : g (a ++ b) i = g a i := by
  unfold g; simp [List.getD_eq_getElem?_getD, List.getElem?_append_left h]

theorem g_append_right (a b : List Nat) (i : Nat) (h : a.length ≤ i) : g (a ++ b) i = g b (i - a.length) := by
  unfold g; simp [List.getD_eq_getElem?_getD, List.getElem?_append_right h]

/-- **the slave's header parser accepts every variable-length frame the master's encoder produces for it**, and
reads back function code, FCB, FCV and the position and length of the user data -/
theorem secHeader_varFrame (l : LL) (fc : Nat) (fcb fcv : Bool) (d f rest : List Nat) (hfc : fc < 16)
    (ha : AddrOk l.p.addrLen l.address)
    (hv : varFrame l.p.addrLen (ctrl fc true false fcb fcv) l.address d = some f) (hb : l.buf = f ++ rest) :
    secHeader l f.length = .ok fc false fcb fcv (5 + l.p.addrLen) d.length := by
  obtain ⟨c, hc⟩ : ∃ c, c = ctrl fc true false fcb fcv := ⟨_, rfl⟩
  rw [← hc] at hv
  obtain ⟨cd1, cd2, cd3, cd4⟩ := ctrl_decode fc fcb fcv hfc
  rw [← hc] at cd1 cd2 cd3 cd4
  have hA : l.p.addrLen ≤ 2 := l.p.hA
  have hlen : (addrBytes l.p.addrLen l.address).length = l.p.addrLen := addrBytes_length _ _ hA
  unfold varFrame at hv
  simp only at hv
  split at hv
  · cases hv
  · rename_i hl
    injection hv with hv
    obtain ⟨body, hbody⟩ : ∃ body, body = c :: addrBytes l.p.addrLen l.address ++ d := ⟨_, rfl⟩
    obtain ⟨L, hL⟩ : ∃ L, L = 1 + l.p.addrLen + d.length := ⟨_, rfl⟩
    rw [← hbody, ← hL] at hv
    have hbl : body.length = L := by rw [hbody, hL]; simp [hlen]; omega
    have hbuf : l.buf = [0x68, L, L, 0x68] ++ (body ++ ([sum8 body, 0x16] ++ rest)) := by
      rw [hb, ← hv]; simp
    have hflen : f.length = L + 6 := by rw [← hv]; simp [hbl]
    have G0 : g l.buf 0 = 0x68 := by rw [hbuf]; rfl
    have G1 : g l.buf 1 = L := by rw [hbuf]; rfl
    have G2 : g l.buf 2 = L := by rw [hbuf]; rfl
    have G4 : g l.buf 4 = c := by
      rw [hbuf, g_append_right _ _ 4 (by simp), hbody]; rfl
    have hvar : isVar l := G0
    have hsz : sizeOk l f.length := by
      unfold sizeOk hUdStart hUdLen; rw [G1, hflen, hL]; omega
    have hcs : checksumOk l := by
      unfold checksumOk hCsStart hCsIndex hUdStart hUdLen
      rw [if_pos hvar, if_pos hvar, G1]
      have e1 : ((5 + l.p.addrLen : Nat) : Int) + ((L : Int) - l.p.addrLen - 1) - ((4 : Nat) : Int) = ((L : Nat) : Int) := by omega
      have e2 : ((5 + l.p.addrLen : Nat) : Int) + ((L : Int) - l.p.addrLen - 1) = ((L + 4 : Nat) : Int) := by omega
      rw [e1, e2, Int.toNat_natCast, Int.toNat_natCast, hbuf]
      rw [List.drop_left' (by simp), ← hbl, List.take_left']
      · rw [g_append_right _ _ _ (by simp), g_append_right _ _ _ (by simp)]
        simp [g]
      · rfl
    have hctrl : hCtrl l = c := by unfold hCtrl; rw [if_pos hvar, G4]
    have haddr : frameAddress l = l.address ∧ ¬ isBroadcast l := by
      unfold isBroadcast frameAddress hCsStart
      rw [if_pos hvar]
      rcases ha with ⟨h0, ha0⟩ | ⟨h1, ha1⟩ | ⟨h2, ha2⟩
      · simp [h0, ha0]
      · have hab : addrBytes l.p.addrLen l.address = [l.address % 256] := by rw [h1]; simp [addrBytes]
        have G5 : g l.buf 5 = l.address % 256 := by
          rw [hbuf, g_append_right _ _ 5 (by simp), hbody, hab]; rfl
        simp only [h1, G5]
        have : l.address % 256 = l.address := by omega
        simp [this]; omega
      · have hab : addrBytes l.p.addrLen l.address = [l.address % 256, l.address / 256 % 256] := by rw [h2]; simp [addrBytes]
        have G5 : g l.buf 5 = l.address % 256 := by
          rw [hbuf, g_append_right _ _ 5 (by simp), hbody, hab]; rfl
        have G6 : g l.buf 6 = l.address / 256 % 256 := by
          rw [hbuf, g_append_right _ _ 6 (by simp), hbody, hab]; rfl
        simp only [h2, G5, G6]
        have : l.address % 256 + l.address / 256 % 256 * 256 = l.address := by omega
        simp [this]; omega
    unfold secHeader
    have n1 : ¬ (isVar l ∧ g l.buf 1 ≠ g l.buf 2) := by rw [G1, G2]; simp
    have n2 : ¬ (isVar l ∧ ¬ sizeOk l f.length) := by simp [hsz]
    have n3 : ¬ (¬ isVar l ∧ ¬ isFixed l) := by simp [hvar]
    have n4 : ¬ (isBroadcast l ∧ hCtrl l % 16 ≠ 4) := by simp [haddr.2]
    have n5 : ¬ (¬ isBroadcast l ∧ frameAddress l ≠ l.address) := by simp [haddr.1]
    have n6 : ¬ (hCtrl l / 64 % 2 = 0) := by rw [hctrl, cd2]; decide
    rw [if_neg n1, if_neg n2, if_neg n3, if_neg n4, if_neg n5, if_neg (by simpa using hcs), if_neg n6]
    rw [hctrl, cd1, if_pos hvar, if_pos hvar]
    have e3 : hUdStart l = 5 + l.p.addrLen := rfl
    have e4 : hUdLen l = (d.length : Int) := by unfold hUdLen; rw [G1, hL]; omega
    rw [e3, e4]
    have b1 : decide (isBroadcast l) = false := by simpa using haddr.2
    have b2 : decide (c / 32 % 2 = 1) = fcb := by
      cases fcb
      · have : ¬ (c / 32 % 2 = 1) := by rw [cd3]; simp
        simp [this]
      · have : c / 32 % 2 = 1 := cd3.mpr rfl
        simp [this]
    have b3 : decide (c / 16 % 2 = 1) = fcv := by
      cases fcv
      · have : ¬ (c / 16 % 2 = 1) := by rw [cd4]; simp
        simp [this]
      · have : c / 16 % 2 = 1 := cd4.mpr rfl
        simp [this]
    rw [b1, b2, b3]

/-- feeding the octets of an encoded variable-length frame to the transceiver (any previous buffer content)
delimits exactly that frame, leaves nothing in the port, and the user data read back is the data encoded -/
theorem readNext_varFrame (aL c a : Nat) (d f buf : List Nat) (hA : aL ≤ 2)
    (hv : varFrame aL c a d = some f) :
    readNext aL f buf = ([], f ++ buf.drop f.length, some f.length) ∧
    userDataOf (f ++ buf.drop f.length) (5 + aL) d.length = d := by
  unfold varFrame at hv
  simp only at hv
  split at hv
  · cases hv
  · rename_i hl
    injection hv with hv
    subst hv
    have hlen : (addrBytes aL a).length = aL := addrBytes_length aL a hA
    constructor
    · have := readNext_var aL (1 + aL + d.length)
        ([1 + aL + d.length, 0x68] ++ (c :: addrBytes aL a ++ d) ++ [sum8 (c :: addrBytes aL a ++ d), 0x16]) buf
        (by simp [hlen]; omega)
      simp only [List.cons_append, List.nil_append, List.append_assoc] at this ⊢
      rw [this]
      simp [hlen]
      omega
    · unfold userDataOf
      generalize hT : List.drop _ buf = T
      have e : ([0x68, 1 + aL + d.length, 1 + aL + d.length, 0x68] ++ (c :: addrBytes aL a ++ d) ++
          [sum8 (c :: addrBytes aL a ++ d), 0x16] ++ T) =
          ([0x68, 1 + aL + d.length, 1 + aL + d.length, 0x68, c] ++ addrBytes aL a) ++ (d ++ ([sum8 (c :: addrBytes aL a ++ d), 0x16] ++ T)) := by simp
      rw [e, List.drop_left' (by simp [hlen]; omega)]
      simp

end Iec.Link101
