/-
The parser of the unbalanced secondary station accepts what the encoder of the primary produces
(`secHeader_varFrame`): encoder and parser agree on length octets, checksum, address and control octet.
-/
import Iec.Lemmas.Link101
namespace Iec.Link101

/-- the station address fits the configured width and is not the broadcast address -/
def AddrOk (aL a : Nat) : Prop := (aL = 0 ∧ a = 0) ∨ (aL = 1 ∧ a < 255) ∨ (aL = 2 ∧ a < 65535)

theorem ctrl_decode (fc : Nat) (fcb fcv : Bool) (hfc : fc < 16) :
    ctrl fc true false fcb fcv % 16 = fc ∧ ctrl fc true false fcb fcv / 64 % 2 = 1 ∧
    (ctrl fc true false fcb fcv / 32 % 2 = 1 ↔ fcb = true) ∧ (ctrl fc true false fcb fcv / 16 % 2 = 1 ↔ fcv = true) := by
  unfold ctrl b2n
  cases fcb <;> cases fcv <;> simp <;> omega

theorem g_append_left (a b : List Nat) (i : Nat) (h : i < a.length) : g (a ++ b) i = g a i := by
  unfold g; simp [List.getD_eq_getElem?_getD, List.getElem?_append_left h]

theorem g_append_right (a b : List Nat) (i : Nat) (h : a.length ≤ i) : g (a ++ b) i = g b (i - a.length) := by
  unfold g; simp [List.getD_eq_getElem?_getD, List.getElem?_append_right h]

/-- what the header fields computed by the parsers are on a buffer that starts with an encoded variable-length
frame for address `a` -/
theorem varFrame_buf (l : LL) (c a : Nat) (d f rest : List Nat) (ha : AddrOk l.p.addrLen a)
    (hv : varFrame l.p.addrLen c a d = some f) (hb : l.buf = f ++ rest) :
    isVar l ∧ g l.buf 1 = g l.buf 2 ∧ sizeOk l f.length ∧ checksumOk l ∧ hCtrl l = c ∧ frameAddress l = a ∧
    (isBroadcast l → False) ∧ hUdLen l = (d.length : Int) ∧ g l.buf 0 ≠ 0xe5 := by
  have hA : l.p.addrLen ≤ 2 := l.p.hA
  have hlen : (addrBytes l.p.addrLen a).length = l.p.addrLen := addrBytes_length _ _ hA
  unfold varFrame at hv
  simp only at hv
  split at hv
  · cases hv
  · rename_i hl
    injection hv with hv
    obtain ⟨body, hbody⟩ : ∃ body, body = c :: addrBytes l.p.addrLen a ++ d := ⟨_, rfl⟩
    obtain ⟨L, hL⟩ : ∃ L, L = 1 + l.p.addrLen + d.length := ⟨_, rfl⟩
    rw [← hbody, ← hL] at hv
    have hbl : body.length = L := by rw [hbody, hL]; simp [hlen]; omega
    have hbuf : l.buf = [0x68, L, L, 0x68] ++ (body ++ ([sum8 body, 0x16] ++ rest)) := by
      rw [hb, ← hv]; simp
    have hflen : f.length = L + 6 := by rw [← hv]; simp [hbl]
    have G0 : g l.buf 0 = 0x68 := by rw [hbuf]; rfl
    have G1 : g l.buf 1 = L := by rw [hbuf]; rfl
    have G2 : g l.buf 2 = L := by rw [hbuf]; rfl
    have G4 : g l.buf 4 = c := by
      rw [hbuf, g_append_right _ _ 4 (by simp), hbody]; rfl
    have hvar : isVar l := G0
    have hsz : sizeOk l f.length := by
      unfold sizeOk hUdStart hUdLen; rw [G1, hflen, hL]; omega
    have hcs : checksumOk l := by
      unfold checksumOk hCsStart hCsIndex hUdStart hUdLen
      rw [if_pos hvar, if_pos hvar, G1]
      have e1 : ((5 + l.p.addrLen : Nat) : Int) + ((L : Int) - l.p.addrLen - 1) - ((4 : Nat) : Int) = ((L : Nat) : Int) := by omega
      have e2 : ((5 + l.p.addrLen : Nat) : Int) + ((L : Int) - l.p.addrLen - 1) = ((L + 4 : Nat) : Int) := by omega
      rw [e1, e2, Int.toNat_natCast, Int.toNat_natCast, hbuf]
      rw [List.drop_left' (by simp), ← hbl, List.take_left']
      · rw [g_append_right _ _ _ (by simp), g_append_right _ _ _ (by simp)]
        simp [g]
      · rfl
    have hctrl : hCtrl l = c := by unfold hCtrl; rw [if_pos hvar, G4]
    have haddr : frameAddress l = a ∧ ¬ isBroadcast l := by
      unfold isBroadcast frameAddress hCsStart
      rw [if_pos hvar]
      rcases ha with ⟨h0, ha0⟩ | ⟨h1, ha1⟩ | ⟨h2, ha2⟩
      · simp [h0, ha0]
      · have hab : addrBytes l.p.addrLen a = [a % 256] := by rw [h1]; simp [addrBytes]
        have G5 : g l.buf 5 = a % 256 := by
          rw [hbuf, g_append_right _ _ 5 (by simp), hbody, hab]; rfl
        simp only [h1, G5]
        have : a % 256 = a := by omega
        simp [this]; omega
      · have hab : addrBytes l.p.addrLen a = [a % 256, a / 256 % 256] := by rw [h2]; simp [addrBytes]
        have G5 : g l.buf 5 = a % 256 := by
          rw [hbuf, g_append_right _ _ 5 (by simp), hbody, hab]; rfl
        have G6 : g l.buf 6 = a / 256 % 256 := by
          rw [hbuf, g_append_right _ _ 6 (by simp), hbody, hab]; rfl
        simp only [h2, G5, G6]
        have : a % 256 + a / 256 % 256 * 256 = a := by omega
        simp [this]; omega
    have e4 : hUdLen l = (d.length : Int) := by unfold hUdLen; rw [G1, hL]; omega
    exact ⟨hvar, by rw [G1, G2], hsz, hcs, hctrl, haddr.1, haddr.2, e4, by rw [G0]; decide⟩

theorem decide_bit (c : Nat) (k : Nat) (b : Bool) (h : c / k % 2 = 1 ↔ b = true) : decide (c / k % 2 = 1) = b := by
  cases b
  · have : ¬ (c / k % 2 = 1) := by rw [h]; simp
    simp [this]
  · have : c / k % 2 = 1 := h.mpr rfl
    simp [this]

/-- **the slave's header parser accepts every variable-length frame the master's encoder produces for it**, and
reads back function code, FCB, FCV and the position and length of the user data -/
theorem secHeader_varFrame (l : LL) (fc : Nat) (fcb fcv : Bool) (d f rest : List Nat) (hfc : fc < 16)
    (ha : AddrOk l.p.addrLen l.address)
    (hv : varFrame l.p.addrLen (ctrl fc true false fcb fcv) l.address d = some f) (hb : l.buf = f ++ rest) :
    secHeader l f.length = .ok fc false fcb fcv (5 + l.p.addrLen) d.length := by
  obtain ⟨cd1, cd2, cd3, cd4⟩ := ctrl_decode fc fcb fcv hfc
  obtain ⟨hvar, hg, hsz, hcs, hctrl, hadr, hnb, hul, _⟩ := varFrame_buf l _ l.address d f rest ha hv hb
  unfold secHeader
  have n1 : ¬ (isVar l ∧ g l.buf 1 ≠ g l.buf 2) := by simp [hg]
  have n2 : ¬ (isVar l ∧ ¬ sizeOk l f.length) := by simp [hsz]
  have n3 : ¬ (¬ isVar l ∧ ¬ isFixed l) := by simp [hvar]
  have n4 : ¬ (isBroadcast l ∧ hCtrl l % 16 ≠ 4) := fun h => hnb h.1
  have n5 : ¬ (¬ isBroadcast l ∧ frameAddress l ≠ l.address) := by simp [hadr]
  have n6 : ¬ (hCtrl l / 64 % 2 = 0) := by rw [hctrl, cd2]; decide
  rw [if_neg n1, if_neg n2, if_neg n3, if_neg n4, if_neg n5, if_neg (by simpa using hcs), if_neg n6]
  rw [hctrl, cd1, if_pos hvar, if_pos hvar, hul]
  have b1 : decide (isBroadcast l) = false := by simpa using hnb
  rw [b1, decide_bit _ 32 fcb cd3, decide_bit _ 16 fcv cd4]
  rfl

/-- feeding the octets of an encoded variable-length frame to the transceiver (any previous buffer content)
delimits exactly that frame, leaves nothing in the port, and the user data read back is the data encoded -/
theorem readNext_varFrame (aL c a : Nat) (d f buf : List Nat) (hA : aL ≤ 2)
    (hv : varFrame aL c a d = some f) :
    readNext aL f buf = ([], f ++ buf.drop f.length, some f.length) ∧
    userDataOf (f ++ buf.drop f.length) (5 + aL) d.length = d := by
  unfold varFrame at hv
  simp only at hv
  split at hv
  · cases hv
  · rename_i hl
    injection hv with hv
    subst hv
    have hlen : (addrBytes aL a).length = aL := addrBytes_length aL a hA
    constructor
    · have := readNext_var aL (1 + aL + d.length)
        ([1 + aL + d.length, 0x68] ++ (c :: addrBytes aL a ++ d) ++ [sum8 (c :: addrBytes aL a ++ d), 0x16]) buf
        (by simp [hlen]; omega)
      simp only [List.cons_append, List.nil_append, List.append_assoc] at this ⊢
      rw [this]
      simp [hlen]
      omega
    · unfold userDataOf
      generalize hT : List.drop _ buf = T
      have e : ([0x68, 1 + aL + d.length, 1 + aL + d.length, 0x68] ++ (c :: addrBytes aL a ++ d) ++
          [sum8 (c :: addrBytes aL a ++ d), 0x16] ++ T) =
          ([0x68, 1 + aL + d.length, 1 + aL + d.length, 0x68, c] ++ addrBytes aL a) ++ (d ++ ([sum8 (c :: addrBytes aL a ++ d), 0x16] ++ T)) := by simp
      rw [e, List.drop_left' (by simp [hlen]; omega)]
      simp

/-! ### fixed-length frames -/

theorem fixedFrame_length (aL c a : Nat) (hA : aL ≤ 2) : (fixedFrame aL c a).length = 4 + aL := by
  simp [fixedFrame, addrBytes_length aL a hA]; omega

theorem readNext_fixedFrame (aL c a : Nat) (buf : List Nat) (hA : aL ≤ 2) :
    readNext aL (fixedFrame aL c a) buf =
      ([], fixedFrame aL c a ++ buf.drop (4 + aL), some (4 + aL)) := by
  have hlen := addrBytes_length aL a hA
  unfold fixedFrame
  simp only [List.cons_append, List.nil_append, readNext]
  have hrl : (c :: (addrBytes aL a ++ [sum8 (c :: addrBytes aL a), 0x16])).length = 3 + aL := by simp [hlen]; omega
  have ht : List.take (3 + aL) (c :: (addrBytes aL a ++ [sum8 (c :: addrBytes aL a), 0x16])) = c :: (addrBytes aL a ++ [sum8 (c :: addrBytes aL a), 0x16]) :=
    List.take_of_length_le (by omega)
  have hd : List.drop (3 + aL) (c :: (addrBytes aL a ++ [sum8 (c :: addrBytes aL a), 0x16])) = [] :=
    List.drop_of_length_le (by omega)
  rw [ht, hd, if_pos hrl]
  unfold writeAt
  simp only [List.take_zero, List.nil_append, List.length_cons, List.length_nil, Nat.zero_add, List.cons_append]
  have hrl' : (addrBytes aL a ++ [sum8 (c :: addrBytes aL a), 0x16]).length + 1 = 3 + aL := by simpa using hrl
  rw [hrl']
  have e1 : List.drop (1 + (3 + aL)) (0x10 :: List.drop 1 buf) = List.drop (4 + aL) buf := by
    rw [show 1 + (3 + aL) = (3 + aL) + 1 by omega, List.drop_succ_cons, List.drop_drop]
    congr 1; omega
  rw [e1]
  simp
  omega

theorem fixedFrame_buf (l : LL) (c a : Nat) (rest : List Nat) (ha : AddrOk l.p.addrLen a)
    (hb : l.buf = fixedFrame l.p.addrLen c a ++ rest) :
    ¬ isVar l ∧ isFixed l ∧ checksumOk l ∧ hCtrl l = c ∧ frameAddress l = a ∧ (isBroadcast l → False) ∧ g l.buf 0 ≠ 0xe5 := by
  have hA : l.p.addrLen ≤ 2 := l.p.hA
  have hlen : (addrBytes l.p.addrLen a).length = l.p.addrLen := addrBytes_length _ _ hA
  obtain ⟨body, hbody⟩ : ∃ body, body = c :: addrBytes l.p.addrLen a := ⟨_, rfl⟩
  have hbl : body.length = 1 + l.p.addrLen := by rw [hbody]; simp [hlen]; omega
  have hbuf : l.buf = [0x10] ++ (body ++ ([sum8 body, 0x16] ++ rest)) := by
    rw [hb, hbody]; simp [fixedFrame]
  have G0 : g l.buf 0 = 0x10 := by rw [hbuf]; rfl
  have G1 : g l.buf 1 = c := by rw [hbuf, g_append_right _ _ 1 (by simp), hbody]; rfl
  have hnv : ¬ isVar l := by unfold isVar; rw [G0]; decide
  have hfx : isFixed l := G0
  have hcs : checksumOk l := by
    unfold checksumOk hCsStart hCsIndex
    rw [if_neg hnv, if_neg hnv]
    have e1 : ((2 : Int) + (l.p.addrLen : Int)) - ((1 : Nat) : Int) = ((1 + l.p.addrLen : Nat) : Int) := by omega
    have e2 : ((2 : Int) + (l.p.addrLen : Int)) = ((2 + l.p.addrLen : Nat) : Int) := by omega
    rw [e1, e2, Int.toNat_natCast, Int.toNat_natCast, hbuf]
    rw [List.drop_left' (by simp), ← hbl, List.take_left']
    · rw [g_append_right _ _ _ (by simp; omega), g_append_right _ _ _ (by simp; omega)]
      have : 2 + l.p.addrLen - [0x10].length - body.length = 0 := by simp [hbl]
      rw [this]; rfl
    · rfl
  have hctrl : hCtrl l = c := by unfold hCtrl; rw [if_neg hnv, G1]
  have haddr : frameAddress l = a ∧ ¬ isBroadcast l := by
    unfold isBroadcast frameAddress hCsStart
    rw [if_neg hnv]
    rcases ha with ⟨h0, ha0⟩ | ⟨h1, ha1⟩ | ⟨h2, ha2⟩
    · simp [h0, ha0]
    · have hab : addrBytes l.p.addrLen a = [a % 256] := by rw [h1]; simp [addrBytes]
      have G2 : g l.buf 2 = a % 256 := by
        rw [hbuf, g_append_right _ _ 2 (by simp), hbody, hab]; rfl
      simp only [h1, G2]
      have : a % 256 = a := by omega
      simp [this]; omega
    · have hab : addrBytes l.p.addrLen a = [a % 256, a / 256 % 256] := by rw [h2]; simp [addrBytes]
      have G2 : g l.buf 2 = a % 256 := by
        rw [hbuf, g_append_right _ _ 2 (by simp), hbody, hab]; rfl
      have G3 : g l.buf 3 = a / 256 % 256 := by
        rw [hbuf, g_append_right _ _ 3 (by simp), hbody, hab]; rfl
      simp only [h2, G2, G3]
      have : a % 256 + a / 256 % 256 * 256 = a := by omega
      simp [this]; omega
  exact ⟨hnv, hfx, hcs, hctrl, haddr.1, haddr.2, by rw [G0]; decide⟩

/-- **the slave's header parser accepts every fixed-length frame the master's encoder produces for it** -/
theorem secHeader_fixedFrame (l : LL) (fc : Nat) (fcb fcv : Bool) (rest : List Nat) (hfc : fc < 16)
    (ha : AddrOk l.p.addrLen l.address)
    (hb : l.buf = fixedFrame l.p.addrLen (ctrl fc true false fcb fcv) l.address ++ rest) (n : Nat) :
    secHeader l n = .ok fc false fcb fcv 0 0 := by
  obtain ⟨cd1, cd2, cd3, cd4⟩ := ctrl_decode fc fcb fcv hfc
  obtain ⟨hnv, hfx, hcs, hctrl, hadr, hnb, _⟩ := fixedFrame_buf l _ l.address rest ha hb
  unfold secHeader
  have n1 : ¬ (isVar l ∧ g l.buf 1 ≠ g l.buf 2) := by simp [hnv]
  have n2 : ¬ (isVar l ∧ ¬ sizeOk l n) := by simp [hnv]
  have n3 : ¬ (¬ isVar l ∧ ¬ isFixed l) := by simp [hfx]
  have n4 : ¬ (isBroadcast l ∧ hCtrl l % 16 ≠ 4) := fun h => hnb h.1
  have n5 : ¬ (¬ isBroadcast l ∧ frameAddress l ≠ l.address) := by simp [hadr]
  have n6 : ¬ (hCtrl l / 64 % 2 = 0) := by rw [hctrl, cd2]; decide
  rw [if_neg n1, if_neg n2, if_neg n3, if_neg n4, if_neg n5, if_neg (by simpa using hcs), if_neg n6]
  rw [hctrl, cd1, if_neg hnv, if_neg hnv]
  have b1 : decide (isBroadcast l) = false := by simpa using hnb
  rw [b1, decide_bit _ 32 fcb cd3, decide_bit _ 16 fcv cd4]

/-! ### the master's parser on the slave's frames -/

theorem ctrl_decode_sec (fc : Nat) (acd dfc : Bool) (hfc : fc < 16) :
    ctrl fc false false acd dfc % 16 = fc ∧ ctrl fc false false acd dfc / 64 % 2 = 0 ∧
    (ctrl fc false false acd dfc / 32 % 2 = 1 ↔ acd = true) ∧ (ctrl fc false false acd dfc / 16 % 2 = 1 ↔ dfc = true) := by
  unfold ctrl b2n
  cases acd <;> cases dfc <;> simp <;> omega

/-- **the master's parser accepts every variable-length frame the slave's encoder produces** and reads back the
control octet, the address and the user data position and length -/
theorem parseBP_varFrame (l : LL) (c a : Nat) (d f rest : List Nat) (ha : AddrOk l.p.addrLen a)
    (hv : varFrame l.p.addrLen c a d = some f) (hb : l.buf = f ++ rest) :
    parseBP l f.length = some ⟨false, c, a, 5 + l.p.addrLen, d.length⟩ := by
  obtain ⟨hvar, hg, hsz, hcs, hctrl, hadr, _, hul, h5⟩ := varFrame_buf l c a d f rest ha hv hb
  unfold parseBP
  have n1 : ¬ (isVar l ∧ g l.buf 1 ≠ g l.buf 2) := by simp [hg]
  have n2 : ¬ (isVar l ∧ ¬ sizeOk l f.length) := by simp [hsz]
  have n3 : ¬ (¬ isVar l ∧ ¬ isFixed l) := by simp [hvar]
  rw [if_neg h5, if_neg n1, if_neg n2, if_neg n3, if_neg (by simpa using hcs), hctrl, hadr, if_pos hvar, if_pos hvar, hul]
  rfl

theorem parseBP_fixedFrame (l : LL) (c a : Nat) (rest : List Nat) (ha : AddrOk l.p.addrLen a)
    (hb : l.buf = fixedFrame l.p.addrLen c a ++ rest) (n : Nat) :
    parseBP l n = some ⟨false, c, a, 0, 0⟩ := by
  obtain ⟨hnv, hfx, hcs, hctrl, hadr, _, h5⟩ := fixedFrame_buf l c a rest ha hb
  unfold parseBP
  have n1 : ¬ (isVar l ∧ g l.buf 1 ≠ g l.buf 2) := by simp [hnv]
  have n2 : ¬ (isVar l ∧ ¬ sizeOk l n) := by simp [hnv]
  have n3 : ¬ (¬ isVar l ∧ ¬ isFixed l) := by simp [hfx]
  rw [if_neg h5, if_neg n1, if_neg n2, if_neg n3, if_neg (by simpa using hcs), hctrl, hadr, if_neg hnv, if_neg hnv]

end Iec.Link101
