import Iec.Lemmas.DaysDef
import Iec.Lemmas.Days0
import Iec.Lemmas.Days1
import Iec.Lemmas.Days2
namespace Iec.Days
open Iec.TimeTag

theorem dayOk_all (d : Nat) (h1 : 10957 ≤ d) (h2 : d < 47482) : dayOk d = true := by
  by_cases a : d < 10957 + 1 * 16384
  · exact allTree_spec dayOk 14 _ chunk0 d (by omega) (by omega)
  · by_cases b : d < 10957 + 2 * 16384
    · exact allTree_spec dayOk 14 _ chunk1 d (by omega) (by omega)
    · exact allTree_spec dayOk 14 _ chunk2 d (by omega) (by omega)

/-- the calendar fact used by the round-trip theorem -/
theorem civil_spec (d : Nat) (h1 : 10957 ≤ d) (h2 : d < 47482) :
    let c := civilFromDays d
    2000 ≤ c.1 ∧ c.1 ≤ 2099 ∧ 1 ≤ c.2.1 ∧ c.2.1 ≤ 12 ∧ 1 ≤ c.2.2 ∧ c.2.2 ≤ 31 ∧
    mkDays ((c.1 - 1900 : Nat) : Int) ((c.2.1 - 1 : Nat) : Int) (c.2.2 : Int) = (d : Int) := by
  have h := dayOk_all d h1 h2
  have hn : ¬ (d < 10957 ∨ 47482 ≤ d) := by omega
  simp only [dayOk, Bool.or_eq_true, decide_eq_true_eq, hn, if_false, Bool.and_eq_true,
    Nat.ble_eq, Nat.beq_eq] at h
  obtain ⟨⟨⟨⟨⟨⟨a, b⟩, c⟩, e⟩, f⟩, g⟩, k⟩ := h
  refine ⟨a, b, c, e, f, g, ?_⟩
  rw [mkDays_eq_nat _ _ _ (by omega) (by omega), k]

end Iec.Days
