/-
The supervision deadlines after the periodic tasks of a connection (C11): if the connection is still running after
`MasterConnection_executePeriodicTasks`, then
  * it is not past its t3 deadline without an outstanding TESTFR act,
  * an outstanding TESTFR act is not older than t1,
  * its oldest unacknowledged I-format APDU is not older than t1,
  * received I-format APDUs are not unacknowledged for t2 or longer.
-/
import Iec.Lemmas.Srv104Win
import Iec.Lemmas.Srv104Isolated
import Iec.Lemmas.Srv104LifeLog
namespace Iec.Srv104
open Iec.KWindow Iec.Queues

/-- the four deadlines for the record `c` at time `now` -/
def Deadlines (p : Params) (now : Nat) (c : Conn) : Prop :=
  (c.waitingTestFR = false → now ≤ c.nextT3) ∧
  (c.waitingTestFR = true → now ≤ c.nextTestFR) ∧
  (∀ e rest, c.win = e :: rest → ¬ (now > e.sentTime ∧ now - e.sentTime ≥ p.t1 * 1000)) ∧
  (c.unconf > 0 → ∀ l, c.lastConf = some l → ¬ (now > l ∧ now - l ≥ p.t2 * 1000))

theorem write_conn (s : Slave) (i : Nat) (b : List Nat) (j : Nat) : (write s i b).1.conn j = s.conn j := by
  unfold Slave.conn; rw [(write_conns s i b).1]

theorem write_now (s : Slave) (i : Nat) (b : List Nat) : (write s i b).1.now = s.now := (write_conns s i b).2.2
theorem write_p (s : Slave) (i : Nat) (b : List Nat) : (write s i b).1.p = s.p := (write_conns s i b).2.1

/-- `_sendSMessage` touches only `isRunning` of connection `i` -/
theorem sendS_conn' (s : Slave) (i : Nat) (hi : i < s.conns.length) :
    ((sendS s i).conn i = s.conn i ∨ (sendS s i).conn i = { s.conn i with isRunning := false }) ∧
    (sendS s i).now = s.now ∧ (sendS s i).p = s.p := by
  unfold sendS
  simp only
  have hc := write_conn s i [0x68, 0x04, 0x01, 0, seqLo (s.conn i).vr, seqHi (s.conn i).vr] i
  have hn := write_now s i [0x68, 0x04, 0x01, 0, seqLo (s.conn i).vr, seqHi (s.conn i).vr]
  have hp := write_p s i [0x68, 0x04, 0x01, 0, seqLo (s.conn i).vr, seqHi (s.conn i).vr]
  have hl : (write s i [0x68, 0x04, 0x01, 0, seqLo (s.conn i).vr, seqHi (s.conn i).vr]).1.conns.length = s.conns.length := by
    rw [(write_conns s i _).1]
  generalize write s i [0x68, 0x04, 0x01, 0, seqLo (s.conn i).vr, seqHi (s.conn i).vr] = r at hc hn hp hl
  obtain ⟨s1, ok⟩ := r
  simp only at hc hn hp hl ⊢
  split
  · exact ⟨Or.inl hc, hn, hp⟩
  · refine ⟨Or.inr ?_, hn, hp⟩
    rw [conn_setConn _ _ _ (by rw [hl]; exact hi), hc]

/-- T3 part: afterwards the connection is inside its t3 deadline or a TESTFR act is outstanding -/
theorem phaseT3_post (s : Slave) (i : Nat) (hi : i < s.conns.length) :
    (phaseT3 s i).now = s.now ∧ (phaseT3 s i).p = s.p ∧ (phaseT3 s i).conns.length = s.conns.length ∧
    (((phaseT3 s i).conn i).waitingTestFR = false → s.now ≤ ((phaseT3 s i).conn i).nextT3) ∧
    ((phaseT3 s i).conn i).win = (s.conn i).win ∧ ((phaseT3 s i).conn i).unconf = (s.conn i).unconf ∧
    ((phaseT3 s i).conn i).lastConf = (s.conn i).lastConf := by
  unfold phaseT3
  simp only
  split
  · -- TESTFR con outstanding: nothing happens
    rename_i hw
    simp only [Bool.false_eq_true, if_false]
    refine ⟨rfl, rfl, setConn_len _ _ _, fun h => ?_, ?_, ?_, ?_⟩ <;> rw [conn_setConn _ _ _ hi] <;> try rfl
    rw [conn_setConn _ _ _ hi] at h; rw [hw] at h; exact Bool.noConfusion h
  · generalize hc1 : (if (s.conn i).nextT3 > s.now + s.p.t3 * 1000 then { s.conn i with nextT3 := s.now + s.p.t3 * 1000 } else s.conn i) = c1
    have hc1w : c1.win = (s.conn i).win ∧ c1.unconf = (s.conn i).unconf ∧ c1.lastConf = (s.conn i).lastConf ∧ c1.waitingTestFR = (s.conn i).waitingTestFR := by
      rw [← hc1]; split <;> exact ⟨rfl, rfl, rfl, rfl⟩
    simp only
    split
    · -- t3 expired: TESTFR act, supervision armed
      have hl1 : i < (s.setConn i c1).conns.length := by rw [setConn_len]; exact hi
      have hwc := write_conn (s.setConn i c1) i TESTFR_ACT i
      have hwn := write_now (s.setConn i c1) i TESTFR_ACT
      have hwp := write_p (s.setConn i c1) i TESTFR_ACT
      have hwl : (write (s.setConn i c1) i TESTFR_ACT).1.conns.length = s.conns.length := by rw [(write_conns _ _ _).1, setConn_len]
      generalize write (s.setConn i c1) i TESTFR_ACT = r at hwc hwn hwp hwl
      obtain ⟨s2, ok⟩ := r
      simp only at hwc hwn hwp hwl ⊢
      rw [conn_setConn _ _ _ hi] at hwc
      have hl2 : i < s2.conns.length := by rw [hwl]; exact hi
      split
      · have hl3 : i < (s2.setConn i { s2.conn i with isRunning := false }).conns.length := by rw [setConn_len]; exact hl2
        refine ⟨hwn, hwp, by rw [setConn_len, setConn_len]; exact hwl, fun h => ?_, ?_, ?_, ?_⟩ <;>
          rw [conn_setConn _ _ _ hl3] <;> try (rw [conn_setConn _ _ _ hl2, hwc]; first | exact hc1w.1 | exact hc1w.2.1 | exact hc1w.2.2.1)
        rw [conn_setConn _ _ _ hl3] at h; exact Bool.noConfusion h
      · refine ⟨hwn, hwp, by rw [setConn_len]; exact hwl, fun h => ?_, ?_, ?_, ?_⟩ <;>
          rw [conn_setConn _ _ _ hl2] <;> try (rw [hwc]; first | exact hc1w.1 | exact hc1w.2.1 | exact hc1w.2.2.1)
        rw [conn_setConn _ _ _ hl2] at h; exact Bool.noConfusion h
    · rename_i hhit
      refine ⟨rfl, rfl, setConn_len _ _ _, fun _ => ?_, ?_, ?_, ?_⟩ <;> rw [conn_setConn _ _ _ hi]
      · simpa using hhit
      · exact hc1w.1
      · exact hc1w.2.1
      · exact hc1w.2.2.1

/-- TESTFR part: the verdict is "in time" only if an outstanding TESTFR act is not older than t1 -/
theorem phaseTestFR_post (s : Slave) (i : Nat) (hi : i < s.conns.length) :
    (phaseTestFR s i).1.now = s.now ∧ (phaseTestFR s i).1.p = s.p ∧ (phaseTestFR s i).1.conns.length = s.conns.length ∧
    ((phaseTestFR s i).1.conn i).nextT3 = (s.conn i).nextT3 ∧
    ((phaseTestFR s i).1.conn i).waitingTestFR = (s.conn i).waitingTestFR ∧
    ((phaseTestFR s i).1.conn i).win = (s.conn i).win ∧ ((phaseTestFR s i).1.conn i).unconf = (s.conn i).unconf ∧
    ((phaseTestFR s i).1.conn i).lastConf = (s.conn i).lastConf ∧
    ((phaseTestFR s i).2 = true → (s.conn i).waitingTestFR = true → s.now ≤ ((phaseTestFR s i).1.conn i).nextTestFR) := by
  unfold phaseTestFR
  simp only
  split
  · rename_i hw
    generalize hc1 : (if (s.conn i).nextTestFR > s.now + s.p.t1 * 1000 then { s.conn i with nextTestFR := s.now + s.p.t1 * 1000 } else s.conn i) = c1
    have hf : c1.nextT3 = (s.conn i).nextT3 ∧ c1.waitingTestFR = (s.conn i).waitingTestFR ∧ c1.win = (s.conn i).win ∧
        c1.unconf = (s.conn i).unconf ∧ c1.lastConf = (s.conn i).lastConf := by
      rw [← hc1]; split <;> exact ⟨rfl, rfl, rfl, rfl, rfl⟩
    simp only
    rw [conn_setConn _ _ _ hi]
    refine ⟨rfl, rfl, setConn_len _ _ _, hf.1, hf.2.1, hf.2.2.1, hf.2.2.2.1, hf.2.2.2.2, fun hok _ => ?_⟩
    simpa using hok
  · rename_i hw
    refine ⟨rfl, rfl, rfl, rfl, rfl, rfl, rfl, rfl, fun _ h => absurd h hw⟩

/-- T2 for a record `c` written to slot `i` first -/
def t2body (s : Slave) (i : Nat) (c : Conn) : Slave :=
  match c.lastConf with
  | some l => if s.now > l && s.now - l ≥ s.p.t2 * 1000 then
        sendS ((s.setConn i c).setConn i { c with lastConf := some s.now, unconf := 0, t2Triggered := false }) i
      else s.setConn i c
  | none => s.setConn i c

theorem phaseT2_core (s : Slave) (i : Nat) (hi : i < s.conns.length) (c : Conn) (hcu : c.unconf > 0) :
    let s' := t2body s i c
    s'.now = s.now ∧ s'.p = s.p ∧ s'.conns.length = s.conns.length ∧
    (s'.conn i).nextT3 = c.nextT3 ∧ (s'.conn i).waitingTestFR = c.waitingTestFR ∧
    (s'.conn i).nextTestFR = c.nextTestFR ∧ (s'.conn i).win = c.win ∧
    ((s'.conn i).unconf > 0 → ∀ l, (s'.conn i).lastConf = some l → ¬ (s.now > l ∧ s.now - l ≥ s.p.t2 * 1000)) := by
  intro s'
  have hl1 : i < (s.setConn i c).conns.length := by rw [setConn_len]; exact hi
  cases hlc : c.lastConf with
  | none =>
    have hs' : s' = s.setConn i c := by simp only [s', t2body, hlc]
    rw [hs', conn_setConn _ _ _ hi]
    exact ⟨rfl, rfl, setConn_len _ _ _, rfl, rfl, rfl, rfl, fun _ l hl => by rw [hlc] at hl; cases hl⟩
  | some l =>
    by_cases hexp : (decide (s.now > l) && decide (s.now - l ≥ s.p.t2 * 1000)) = true
    · have hs' : s' = sendS ((s.setConn i c).setConn i { c with lastConf := some s.now, unconf := 0, t2Triggered := false }) i := by
        simp only [s', t2body, hlc, hexp, if_true]
      obtain ⟨hsc, hsn, hsp⟩ := sendS_conn' ((s.setConn i c).setConn i { c with lastConf := some s.now, unconf := 0, t2Triggered := false }) i
        (by rw [setConn_len, setConn_len]; exact hi)
      have hbase : (((s.setConn i c).setConn i { c with lastConf := some s.now, unconf := 0, t2Triggered := false }).conn i) =
          { c with lastConf := some s.now, unconf := 0, t2Triggered := false } := conn_setConn _ _ _ hl1
      have hlen : (sendS ((s.setConn i c).setConn i { c with lastConf := some s.now, unconf := 0, t2Triggered := false }) i).conns.length = s.conns.length := by
        have := (w_sendS 1 ((s.setConn i c).setConn i { c with lastConf := some s.now, unconf := 0, t2Triggered := false }) i).2.1
        rw [this, setConn_len, setConn_len]
      rw [hbase] at hsc
      rw [hs']
      refine ⟨hsn, hsp, hlen, ?_, ?_, ?_, ?_, ?_⟩
      all_goals rcases hsc with h | h <;> rw [h]
      all_goals first
        | rfl
        | (intro hpos; exact absurd hpos (Nat.lt_irrefl 0))
    · have hs' : s' = s.setConn i c := by simp only [s', t2body, hlc, hexp]; rfl
      rw [hs', conn_setConn _ _ _ hi]
      refine ⟨rfl, rfl, setConn_len _ _ _, rfl, rfl, rfl, rfl, fun _ l' hl' => ?_⟩
      rw [hlc] at hl'
      have : l = l' := by simpa using hl'
      subst this
      simpa using hexp

/-- the clock-went-backwards clamp of `lastConfirmationTime` -/
def clampLC (s : Slave) (c : Conn) : Conn :=
  match c.lastConf with
  | some l => if l > s.now then { c with lastConf := some s.now } else c
  | none => c

theorem phaseT2_eq (s : Slave) (i : Nat) :
    phaseT2 s i = if (s.conn i).unconf > 0 then t2body s i (clampLC s (s.conn i)) else s := rfl

/-- T2 part: afterwards nothing received is unacknowledged for t2 or longer -/
theorem phaseT2_post (s : Slave) (i : Nat) (hi : i < s.conns.length) :
    (phaseT2 s i).now = s.now ∧ (phaseT2 s i).p = s.p ∧ (phaseT2 s i).conns.length = s.conns.length ∧
    ((phaseT2 s i).conn i).nextT3 = (s.conn i).nextT3 ∧ ((phaseT2 s i).conn i).waitingTestFR = (s.conn i).waitingTestFR ∧
    ((phaseT2 s i).conn i).nextTestFR = (s.conn i).nextTestFR ∧ ((phaseT2 s i).conn i).win = (s.conn i).win ∧
    (((phaseT2 s i).conn i).unconf > 0 → ∀ l, ((phaseT2 s i).conn i).lastConf = some l → ¬ (s.now > l ∧ s.now - l ≥ s.p.t2 * 1000)) := by
  rw [phaseT2_eq]
  split
  · rename_i hu
    have hf : (clampLC s (s.conn i)).nextT3 = (s.conn i).nextT3 ∧ (clampLC s (s.conn i)).waitingTestFR = (s.conn i).waitingTestFR ∧
        (clampLC s (s.conn i)).nextTestFR = (s.conn i).nextTestFR ∧ (clampLC s (s.conn i)).win = (s.conn i).win ∧
        (clampLC s (s.conn i)).unconf = (s.conn i).unconf := by
      unfold clampLC; split
      · split <;> exact ⟨rfl, rfl, rfl, rfl, rfl⟩
      · exact ⟨rfl, rfl, rfl, rfl, rfl⟩
    have := phaseT2_core s i hi (clampLC s (s.conn i)) (by rw [hf.2.2.2.2]; exact hu)
    rw [hf.1, hf.2.1, hf.2.2.1, hf.2.2.2.1] at this
    exact this
  · rename_i hu
    refine ⟨rfl, rfl, rfl, rfl, rfl, rfl, rfl, fun hpos => absurd hpos hu⟩

/-- T1 part: the verdict is "in time" only if the earlier verdict was and the oldest unacknowledged I-format APDU is not
older than t1 -/
theorem phaseT1_post (s : Slave) (i : Nat) (hi : i < s.conns.length) (ok1 : Bool) :
    (phaseT1 s i ok1).1.now = s.now ∧ (phaseT1 s i ok1).1.p = s.p ∧ (phaseT1 s i ok1).1.conns.length = s.conns.length ∧
    ((phaseT1 s i ok1).1.conn i).nextT3 = (s.conn i).nextT3 ∧ ((phaseT1 s i ok1).1.conn i).waitingTestFR = (s.conn i).waitingTestFR ∧
    ((phaseT1 s i ok1).1.conn i).nextTestFR = (s.conn i).nextTestFR ∧ ((phaseT1 s i ok1).1.conn i).unconf = (s.conn i).unconf ∧
    ((phaseT1 s i ok1).1.conn i).lastConf = (s.conn i).lastConf ∧
    ((phaseT1 s i ok1).2 = true → ok1 = true ∧
      ∀ e rest, ((phaseT1 s i ok1).1.conn i).win = e :: rest → ¬ (s.now > e.sentTime ∧ s.now - e.sentTime ≥ s.p.t1 * 1000)) := by
  unfold phaseT1
  simp only
  split
  · rename_i hw
    refine ⟨rfl, rfl, rfl, rfl, rfl, rfl, rfl, rfl, fun h => ⟨h, fun e rest he => by rw [hw] at he; cases he⟩⟩
  · rename_i e rest hw
    generalize he1 : (if e.sentTime > s.now then { e with sentTime := s.now } else e) = e1
    split
    · rename_i hexp
      refine ⟨rfl, rfl, setConn_len _ _ _, ?_, ?_, ?_, ?_, ?_, fun h => Bool.noConfusion h⟩ <;> rw [conn_setConn _ _ _ hi]
    · rename_i hexp
      refine ⟨rfl, rfl, setConn_len _ _ _, ?_, ?_, ?_, ?_, ?_, fun h => ⟨h, fun e' rest' he' => ?_⟩⟩ <;> rw [conn_setConn _ _ _ hi] at *
      simp only [List.cons.injEq] at he'
      rw [← he'.1]
      simpa [setConn_p, Slave.setConn] using hexp

/-- **`handleTimeouts`**: a verdict "in time" means all four deadlines are met afterwards -/
theorem handleTimeouts_post (s : Slave) (i : Nat) (hi : i < s.conns.length) :
    (handleTimeouts s i).1.now = s.now ∧ (handleTimeouts s i).1.p = s.p ∧ (handleTimeouts s i).1.conns.length = s.conns.length ∧
    ((handleTimeouts s i).2 = true → Deadlines s.p s.now ((handleTimeouts s i).1.conn i)) := by
  have heq : handleTimeouts s i = phaseT1 (phaseT2 (phaseTestFR (phaseT3 s i) i).1 i) i (phaseTestFR (phaseT3 s i) i).2 := rfl
  rw [heq]
  obtain ⟨a1, a2, a3, a4, a5, a6, a7⟩ := phaseT3_post s i hi
  generalize phaseT3 s i = s1 at a1 a2 a3 a4 a5 a6 a7 ⊢
  have hi1 : i < s1.conns.length := by rw [a3]; exact hi
  obtain ⟨b1, b2, b3, b4, b5, b6, b7, b8, b9⟩ := phaseTestFR_post s1 i hi1
  generalize phaseTestFR s1 i = r at b1 b2 b3 b4 b5 b6 b7 b8 b9 ⊢
  obtain ⟨s2, ok1⟩ := r
  simp only at b1 b2 b3 b4 b5 b6 b7 b8 b9 ⊢
  have hi2 : i < s2.conns.length := by rw [b3]; exact hi1
  obtain ⟨c1, c2, c3, c4, c5, c6, c7, c8⟩ := phaseT2_post s2 i hi2
  generalize phaseT2 s2 i = s3 at c1 c2 c3 c4 c5 c6 c7 c8 ⊢
  have hi3 : i < s3.conns.length := by rw [c3]; exact hi2
  obtain ⟨d1, d2, d3, d4, d5, d6, d7, d8, d9⟩ := phaseT1_post s3 i hi3 ok1
  generalize phaseT1 s3 i ok1 = r4 at d1 d2 d3 d4 d5 d6 d7 d8 d9 ⊢
  obtain ⟨s4, ok⟩ := r4
  simp only at d1 d2 d3 d4 d5 d6 d7 d8 d9 ⊢
  have hnow : s3.now = s.now := by rw [c1, b1, a1]
  have hp : s3.p = s.p := by rw [c2, b2, a2]
  refine ⟨by rw [d1, hnow], by rw [d2, hp], by rw [d3, c3, b3, a3], fun hok => ?_⟩
  obtain ⟨hok1, hT1⟩ := d9 hok
  refine ⟨fun hw => ?_, fun hw => ?_, ?_, ?_⟩
  · -- t3
    rw [d5, c5, b5] at hw
    rw [d4, c4, b4]
    exact a4 hw
  · -- TESTFR within t1
    rw [d5, c5] at hw
    rw [d6, c6]
    have := b9 hok1 (by rw [← b5]; exact hw)
    rw [a1] at this; exact this
  · intro e rest he
    have := hT1 e rest he
    rw [hnow, hp] at this; exact this
  · intro hu l hl
    rw [d7] at hu; rw [d8] at hl
    have := c8 hu l hl
    rw [b1, a1, b2, a2] at this; exact this

theorem sendI_now (s : Slave) (i : Nat) (a : List Nat) (q : Option (Nat × Nat)) : (sendI s i a q).now = s.now := by
  unfold sendI
  simp only
  exact write_now s i _

theorem sendWaitingHigh_now (i : Nat) : ∀ (fuel : Nat) (s : Slave), (sendWaitingHigh s i fuel).1.now = s.now := by
  intro fuel
  induction fuel with
  | zero => intro s; rfl
  | succ n ih =>
    intro s
    unfold sendWaitingHigh
    simp only
    split
    · split
      · rfl
      · generalize (s.grp (s.gidx i)).highQ.getNext = gn
        obtain ⟨hq', d⟩ := gn
        simp only
        split
        · split
          · exact sendI_now _ _ _ _
          · rw [ih]; exact sendI_now _ _ _ _
        · rfl
    · rfl

theorem sendWaitingASDUs_now (s : Slave) (i : Nat) : (sendWaitingASDUs s i).now = s.now := by
  unfold sendWaitingASDUs
  have h1 := sendWaitingHigh_now i ((s.grp (s.gidx i)).highQ.count + 1) s
  generalize sendWaitingHigh s i ((s.grp (s.gidx i)).highQ.count + 1) = r at h1
  obtain ⟨s1, cont⟩ := r
  simp only at h1 ⊢
  split
  · exact h1
  · split
    · exact h1
    · generalize (s1.grp (s1.gidx i)).lowQ.getNextWaiting = gn
      obtain ⟨lq, r⟩ := gn
      simp only
      split
      · rw [sendI_now]; exact h1
      · exact h1

/-- **the periodic tasks of connection `i`**: if the connection is still running afterwards, all four deadlines are met -/
theorem periodic_post (s : Slave) (i : Nat) (hi : i < s.conns.length) :
    ((periodic s i).conn i).isRunning = true → Deadlines s.p s.now ((periodic s i).conn i) := by
  unfold periodic
  extract_lets s1
  have h1 : s1.conns.length = s.conns.length ∧ s1.now = s.now ∧ s1.p = s.p := by
    dsimp only [s1]
    split
    · have := w_sendWaitingASDUs (k := 1) (by decide) (by decide) s i
      exact ⟨this.2.1, sendWaitingASDUs_now s i, this.1⟩
    · exact ⟨rfl, rfl, rfl⟩
  have hi1 : i < s1.conns.length := by rw [h1.1]; exact hi
  obtain ⟨t1, t2, t3, t4⟩ := handleTimeouts_post s1 i hi1
  generalize handleTimeouts s1 i = r at t1 t2 t3 t4
  obtain ⟨s2, ok⟩ := r
  simp only at t1 t2 t3 t4
  show ((if (!ok) = true then s2.setConn i { s2.conn i with isRunning := false } else s2).conn i).isRunning = true → _
  intro hr
  cases ok
  · exfalso
    simp only [Bool.not_false, if_true] at hr
    rw [conn_setConn _ _ _ (by rw [t3]; exact hi1)] at hr
    exact Bool.noConfusion hr
  · simp only [Bool.not_true, Bool.false_eq_true, if_false] at hr ⊢
    have := t4 rfl
    rw [h1.2.1, h1.2.2] at this
    exact this

theorem sendS_now (s : Slave) (i : Nat) : (sendS s i).now = s.now := by
  unfold sendS
  simp only
  split
  · exact write_now s i _
  · exact write_now s i _

theorem phaseT3_now (s : Slave) (i : Nat) : (phaseT3 s i).now = s.now := by
  unfold phaseT3
  simp only
  repeat' split
  all_goals first
    | rfl
    | exact write_now _ _ _

theorem phaseTestFR_now (s : Slave) (i : Nat) : (phaseTestFR s i).1.now = s.now := by
  unfold phaseTestFR
  simp only
  repeat' split
  all_goals rfl

theorem phaseT2_now (s : Slave) (i : Nat) : (phaseT2 s i).now = s.now := by
  rw [phaseT2_eq]
  split
  · unfold t2body
    repeat' split
    all_goals first
      | rfl
      | exact sendS_now _ _
  · rfl

theorem phaseT1_now (s : Slave) (i : Nat) (ok : Bool) : (phaseT1 s i ok).1.now = s.now := by
  unfold phaseT1
  simp only
  repeat' split
  all_goals rfl

theorem handleTimeouts_now (s : Slave) (i : Nat) : (handleTimeouts s i).1.now = s.now := by
  have heq : handleTimeouts s i = phaseT1 (phaseT2 (phaseTestFR (phaseT3 s i) i).1 i) i (phaseTestFR (phaseT3 s i) i).2 := rfl
  rw [heq, phaseT1_now, phaseT2_now, phaseTestFR_now, phaseT3_now]

theorem periodic_now_p (s : Slave) (i : Nat) : (periodic s i).now = s.now ∧ (periodic s i).p = s.p ∧ (periodic s i).conns.length = s.conns.length := by
  have hw := w_periodic (k := 1) (by decide) (by decide) s i
  refine ⟨?_, hw.1, hw.2.1⟩
  unfold periodic
  extract_lets s1
  have h1 : s1.now = s.now := by
    dsimp only [s1]; split
    · exact sendWaitingASDUs_now s i
    · rfl
  have hn := handleTimeouts_now s1 i
  generalize handleTimeouts s1 i = r at hn
  obtain ⟨s2, ok⟩ := r
  show (if (!ok) = true then s2.setConn i { s2.conn i with isRunning := false } else s2).now = s.now
  split
  · show s2.now = s.now; rw [← h1]; exact hn
  · rw [← h1]; exact hn

theorem deadlines_deact (p : Params) (now : Nat) (c : Conn) (h : Deadlines p now c) : Deadlines p now { c with state := 2 } := h

/-- the third pass of `handleClientConnections`: afterwards every connection of the processed slots that is in use and
running meets its deadlines -/
theorem pass3_deadlines (p : Params) (now : Nat) : ∀ (l : List Nat) (s : Slave) (done : List Nat), s.p = p → s.now = now →
    (∀ i ∈ done, i < s.conns.length ∧ ((s.conn i).isUsed = true → (s.conn i).isRunning = true → Deadlines p now (s.conn i))) →
    (∀ j ∈ l, j < s.conns.length) →
    let r := l.foldl (fun s j => if (s.conn j).isUsed && (s.conn j).isRunning then periodic s j else s) s
    r.p = p ∧ r.now = now ∧ r.conns.length = s.conns.length ∧
    ∀ i, (i ∈ done ∨ i ∈ l) → ((r.conn i).isUsed = true → (r.conn i).isRunning = true → Deadlines p now (r.conn i)) := by
  intro l
  induction l with
  | nil =>
    intro s done hp hn hd _
    refine ⟨hp, hn, rfl, fun i hi => ?_⟩
    rcases hi with hi | hi
    · exact (hd i hi).2
    · cases hi
  | cons j l ih =>
    intro s done hp hn hd hl
    simp only [List.foldl_cons]
    have hj : j < s.conns.length := hl j (by simp)
    -- one step: slot j is now done
    have step : ∀ s' : Slave, s' = (if (s.conn j).isUsed && (s.conn j).isRunning then periodic s j else s) →
        s'.p = p ∧ s'.now = now ∧ s'.conns.length = s.conns.length ∧
        (∀ i ∈ j :: done, i < s'.conns.length ∧ ((s'.conn i).isUsed = true → (s'.conn i).isRunning = true → Deadlines p now (s'.conn i))) := by
      intro s' hs'
      by_cases hproc : ((s.conn j).isUsed && (s.conn j).isRunning) = true
      · rw [if_pos hproc] at hs'
        obtain ⟨pn, pp, pl⟩ := periodic_now_p s j
        have hiso := ok1_periodic s j
        rw [hs']
        refine ⟨by rw [pp]; exact hp, by rw [pn]; exact hn, pl, fun i hi => ?_⟩
        by_cases hij : i = j
        · subst hij
          refine ⟨by rw [pl]; exact hj, fun _ hr => ?_⟩
          have := periodic_post s i hj hr
          rw [hp, hn] at this; exact this
        · have hid : i ∈ done := by simpa [hij] using hi
          obtain ⟨hil, hdl⟩ := hd i hid
          refine ⟨by rw [pl]; exact hil, ?_⟩
          rcases hiso.other i hij with h | h
          · rw [h]; exact hdl
          · rw [h]; exact fun hu hr => deadlines_deact p now _ (hdl hu hr)
      · rw [if_neg hproc] at hs'
        rw [hs']
        refine ⟨hp, hn, rfl, fun i hi => ?_⟩
        by_cases hij : i = j
        · subst hij
          refine ⟨hj, fun hu hr => ?_⟩
          exfalso; apply hproc; rw [hu, hr]; rfl
        · have hid : i ∈ done := by simpa [hij] using hi
          exact hd i hid
    obtain ⟨sp, sn, sl, sd⟩ := step _ rfl
    have := ih _ (j :: done) sp sn sd (fun x hx => by rw [sl]; exact hl x (by simp [hx]))
    obtain ⟨r1, r2, r3, r4⟩ := this
    refine ⟨r1, r2, by rw [r3, sl], fun i hi => ?_⟩
    apply r4 i
    rcases hi with hi | hi
    · exact Or.inl (by simp [hi])
    · rcases List.mem_cons.mp hi with rfl | hi
      · exact Or.inl (by simp)
      · exact Or.inr hi

/-- **after every call of `handleClientConnections` (with connections open) every connection that is in use and still running
meets its four deadlines** -/
theorem hcc_deadlines (s : Slave) (hoc : s.openConnections > 0) (i : Nat)
    (hu : ((handleClientConnections s).conn i).isUsed = true) (hr : ((handleClientConnections s).conn i).isRunning = true) :
    Deadlines (handleClientConnections s).p (handleClientConnections s).now ((handleClientConnections s).conn i) := by
  revert hu hr
  unfold handleClientConnections
  rw [if_pos hoc]
  extract_lets idx
  split
  rename_i s1 anyRunning ready heq
  have i1 : WKeep 1 s s1 := by
    have e := (congrArg Prod.fst heq).symm
    dsimp only at e
    rw [e]
    apply w_foldl3 _ _ _ (s, false, false)
    intro acc j
    obtain ⟨t, anyR, rdy⟩ := acc
    dsimp only
    split
    · split
      · exact WKeep.refl _ _
      · refine WKeep.trans (WKeep.trans (w_emit _ t _) (WKeep.trans (w_resetUnconfirmed _ _ j) (w_setConn _ _ _ _ ?_))) (w_of_conns rfl rfl)
        cw
    · exact WKeep.refl _ _
  extract_lets s2
  have i2 : WKeep 1 s1 s2 := by
    dsimp only [s2]
    split
    · apply w_foldl
      intro t j
      split
      · exact w_handleTcpConnection (by decide) (by decide) t j
      · exact WKeep.refl _ _
    · exact WKeep.refl _ _
  have hlen : s2.conns.length = s.conns.length := by rw [i2.2.1, i1.2.1]
  obtain ⟨r1, r2, r3, r4⟩ := pass3_deadlines s2.p s2.now idx s2 [] rfl rfl (by intro i hi; cases hi)
    (by intro j hj; rw [hlen]; simpa [idx] using hj)
  intro hu hr
  rw [r1, r2]
  by_cases hi : i < s.conns.length
  · exact r4 i (Or.inr (by simpa [idx] using hi)) hu hr
  · exfalso
    have : ¬ i < (idx.foldl (fun s j => if (s.conn j).isUsed && (s.conn j).isRunning then periodic s j else s) s2).conns.length := by
      rw [r3, hlen]; exact hi
    rw [unused_of_ge _ i (Nat.le_of_not_lt this)] at hu
    exact Bool.noConfusion hu

end Iec.Srv104
