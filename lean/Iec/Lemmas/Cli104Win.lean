/-
The k-window of the client over every history of a connection: never more than k outstanding I-format APDUs, and the
k-buffer is always the consecutive run of acknowledgement numbers ending at V(S) (`WinInv`, the hypothesis of
`C04.checkSeq_spec`).  Only `sendAsdu` (guarded by `isSentBufferFull`), `checkMessage` (release) and `resetConnection`
touch (V(S), k-buffer).
-/
import Iec.Lemmas.Cli104Life
import Iec.Lemmas.Srv104Win
namespace Iec.Cli104
open Iec.KWindow Iec.Srv104

/-- k of the connection: the k-buffer is allocated at the first connect -/
def Cli.k (c : Cli) : Nat := c.maxSent.getD c.p.k

def CGood (c : Cli) : Prop := c.win.length ≤ c.k ∧ ∃ base, WinInv c.vs c.win base c.win.length

/-- parameters, k-buffer size and V(S) are kept; the window only loses a prefix (release) -/
def WQ (c c' : Cli) : Prop :=
  c'.p = c.p ∧ c'.maxSent = c.maxSent ∧ c'.vs = c.vs ∧ ∃ d, d ≤ c.win.length ∧ c'.win = c.win.drop d

theorem WQ.refl (c : Cli) : WQ c c := ⟨rfl, rfl, rfl, 0, Nat.zero_le _, rfl⟩
theorem WQ.trans {a b c : Cli} (h1 : WQ a b) (h2 : WQ b c) : WQ a c := by
  obtain ⟨p1, m1, v1, d1, hd1, e1⟩ := h1
  obtain ⟨p2, m2, v2, d2, hd2, e2⟩ := h2
  refine ⟨p2.trans p1, m2.trans m1, v2.trans v1, d1 + d2, ?_, ?_⟩
  · rw [e1, List.length_drop] at hd2; omega
  · rw [e2, e1, List.drop_drop]
theorem WQ.same {c c' : Cli} (hp : c'.p = c.p) (hm : c'.maxSent = c.maxSent) (hv : c'.vs = c.vs) (hw : c'.win = c.win) : WQ c c' :=
  ⟨hp, hm, hv, 0, Nat.zero_le _, hw⟩

theorem cgood_wq {c c' : Cli} (h : CGood c) (hq : WQ c c') : CGood c' := by
  obtain ⟨hp, hm, hv, d, hd, he⟩ := hq
  obtain ⟨h1, base, hb⟩ := h
  have hk : c'.k = c.k := by unfold Cli.k; rw [hp, hm]
  refine ⟨by rw [hk, he, List.length_drop]; omega, (base + d) % 32768, ?_⟩
  have := winInv_drop c.vs c.win base c.win.length d hb hd
  rw [he, hv, List.length_drop]; exact this

theorem wq_write (c : Cli) (b : List Nat) : WQ c (write c b) := by
  unfold write emit
  repeat' split
  all_goals exact WQ.same rfl rfl rfl rfl

theorem wq_confirm (c : Cli) : WQ c (confirmOutstanding c) := by
  unfold confirmOutstanding
  exact WQ.trans (WQ.same rfl rfl rfl rfl) (wq_write _ _)

theorem wq_checkMessage (c : Cli) (buf : List Nat) : WQ c (checkMessage c buf).1 := by
  unfold checkMessage
  simp only
  repeat' split
  all_goals first
    | exact WQ.same rfl rfl rfl rfl
    | exact WQ.trans (wq_write _ _) (WQ.same rfl rfl rfl rfl)
    | exact ⟨rfl, rfl, rfl, checkSeq_suffix _ _ _⟩
    | (refine WQ.trans ?_ (WQ.same (c := write _ _) rfl rfl rfl rfl); exact WQ.trans (WQ.same rfl rfl rfl rfl) (wq_write _ _))

theorem wq_phaseT3 (c : Cli) : WQ c (phaseT3 c).1 := by
  unfold phaseT3
  repeat' split
  all_goals first
    | exact WQ.refl _
    | exact WQ.trans (wq_write _ _) (WQ.same rfl rfl rfl rfl)

theorem wq_phaseT2 (c : Cli) : WQ c (phaseT2 c) := by
  unfold phaseT2
  repeat' split
  all_goals first
    | exact WQ.refl _
    | exact wq_confirm _

theorem wq_phaseT1 (c : Cli) : WQ c (phaseT1 c).1 := by
  unfold phaseT1
  repeat' split
  all_goals exact WQ.refl _

theorem wq_handleTimeouts (c : Cli) : WQ c (handleTimeouts c).1 := by
  unfold handleTimeouts
  simp only
  split
  · exact wq_phaseT3 c
  · exact WQ.trans (wq_phaseT3 c) (WQ.trans (wq_phaseT2 _) (wq_phaseT1 _))

theorem wq_ackIfW (c : Cli) : WQ c (ackIfW c) := by
  unfold ackIfW; split
  · exact wq_confirm c
  · exact WQ.refl c

theorem wq_emit (c : Cli) (o : Obs) : WQ c (emit c o) := WQ.same rfl rfl rfl rfl

theorem wq_finish (c : Cli) (ev : String) : WQ c (finish c ev) := by
  unfold finish
  simp only
  refine WQ.trans ?_ (wq_emit _ _)
  refine WQ.trans ?_ (WQ.same (c := if c.unconf > 0 then confirmOutstanding c else c) rfl rfl rfl rfl)
  split
  · exact wq_confirm c
  · exact WQ.refl c

theorem wq_onMessage (c : Cli) (msg : List Nat) (lr : Bool) : WQ c (onMessage c msg lr).1 := by
  unfold onMessage
  have hq := wq_checkMessage c msg
  generalize checkMessage c msg = r at hq
  obtain ⟨c1, ok⟩ := r
  simp only at hq ⊢
  obtain ⟨c2, hc2⟩ : ∃ c2, c2 = (if (!ok) = true then (({ c1 with failure := true } : Cli), false) else (c1, lr)).1 := ⟨_, rfl⟩
  have h12 : WQ c1 c2 := by rw [hc2]; split <;> exact WQ.same rfl rfl rfl rfl
  have : WQ c2 (if (c2.conState != c.conState) = true then
      (if (c2.conState == 2) = true then emit c2 (.ev "STARTDT_CON") else if (c2.conState == 1) = true then emit c2 (.ev "STOPDT_CON") else c2)
    else c2) := by
    repeat' split
    all_goals first
      | exact WQ.refl _
      | exact wq_emit _ _
  have hfin := WQ.trans hq (WQ.trans h12 this)
  rw [hc2] at hfin
  cases ok <;> simpa using hfin

theorem wq_loopRecv (c : Cli) : WQ c (loopRecv c).1 := by
  unfold loopRecv
  split
  · generalize recvStep c.recvBuf c.sock = r
    obtain ⟨buf, sk, rr, msg⟩ := r
    simp only
    obtain ⟨c1, hc1⟩ : ∃ c1, c1 = (if rr = -1 then (({ ({ c with recvBuf := buf, sock := sk } : Cli) with failure := true } : Cli), false) else (({ c with recvBuf := buf, sock := sk } : Cli), true)) := ⟨_, rfl⟩
    have h1 : WQ c c1.1 := by rw [hc1]; split <;> exact WQ.same rfl rfl rfl rfl
    rw [← hc1]
    by_cases hr : rr > 0
    · simp only [hr, if_true]
      exact WQ.trans h1 (WQ.trans (wq_onMessage _ _ _) (wq_ackIfW _))
    · simp only [hr, if_false]
      exact WQ.trans h1 (wq_ackIfW _)
  · exact WQ.refl c

theorem wq_loopBody (c : Cli) : WQ c (loopBody c).1 := by
  unfold loopBody
  exact WQ.trans (wq_loopRecv c) (wq_handleTimeouts _)

theorem wq_loopIter (c : Cli) : WQ c (loopIter c) := by
  unfold loopIter
  have hq := wq_loopBody c
  generalize loopBody c = r at hq
  obtain ⟨c2, run⟩ := r
  simp only at hq ⊢
  split
  · exact hq
  · exact WQ.trans hq (wq_finish _ _)

theorem wq_sendStartDT (c : Cli) : WQ c (sendStartDT c) := by
  unfold sendStartDT
  exact WQ.trans (WQ.same rfl rfl rfl rfl) (wq_write _ _)

theorem wq_sendStopDT (c : Cli) : WQ c (sendStopDT c) := by
  unfold sendStopDT
  exact WQ.trans (wq_confirm c) (WQ.trans (WQ.same rfl rfl rfl rfl) (wq_write _ _))

theorem winInv_empty : WinInv 0 [] 0 0 := ⟨by decide, by decide, rfl, rfl⟩

theorem write_fields (c : Cli) (b : List Nat) : (write c b).p = c.p ∧ (write c b).maxSent = c.maxSent ∧ (write c b).vs = c.vs ∧ (write c b).win = c.win := by
  unfold write emit
  repeat' split
  all_goals exact ⟨rfl, rfl, rfl, rfl⟩

/-- the thread, from one blocking point to the next: a (re)connect starts with an empty window, everything else only
releases -/
theorem cgood_step (c : Cli) (h : CGood c) : CGood (step c) ∧ (step c).k = c.k := by
  unfold step
  split
  · exact ⟨⟨Nat.zero_le _, 0, winInv_empty⟩, rfl⟩
  · have key : ∀ c' : Cli, WQ c c' → CGood c' ∧ c'.k = c.k := fun c' hq =>
      ⟨cgood_wq h hq, by unfold Cli.k; rw [hq.1, hq.2.1]⟩
    split
    · split
      · exact key _ (WQ.same rfl rfl rfl rfl)
      · exact key _ (WQ.trans (WQ.same (c' := { c with failure := true }) rfl rfl rfl rfl) (wq_finish _ _))
    · split
      · exact key _ (wq_loopIter c)
      · exact key _ (WQ.refl c)

/-- **transmission** is gated by `isSentBufferFull`: the push keeps the window within k and consecutive -/
theorem cgood_sendAsdu (c : Cli) (a : List Nat) (hk0 : 0 < c.k) (hk : c.k < 32767) (h : CGood c) :
    CGood (sendAsdu c a).1 ∧ (sendAsdu c a).1.k = c.k := by
  unfold sendAsdu
  split
  · split
    · rename_i hnf
      have hnf' : isFull c.k c.win = false := by simpa [Cli.k] using hnf
      obtain ⟨hw1, hw2, hw3, hw4⟩ := write_fields c ([0x68, (a.length + 4) % 256, seqLo c.vs, seqHi c.vs, seqLo c.vr, seqHi c.vr] ++ a)
      simp only
      generalize write c ([0x68, (a.length + 4) % 256, seqLo c.vs, seqHi c.vs, seqLo c.vr, seqHi c.vr] ++ a) = c1 at hw1 hw2 hw3 hw4 ⊢
      obtain ⟨h1, base, hb⟩ := h
      have hk' : ∀ x : Cli, x.p = c1.p → x.maxSent = c1.maxSent → x.k = c.k := by
        intro x hp hm; unfold Cli.k; rw [hp, hm, hw1, hw2]
      refine ⟨⟨?_, base, ?_⟩, hk' _ rfl rfl⟩
      · refine Nat.le_trans ?_ (Nat.le_of_eq (hk' _ rfl rfl).symm)
        show (c1.win ++ [_]).length ≤ c.k
        rw [hw4]
        simp only [isFull, Bool.and_eq_false_iff, bne_eq_false_iff_eq, beq_eq_false_iff_ne] at hnf'
        simp only [List.length_append, List.length_cons, List.length_nil]
        rcases hnf' with h' | h' <;> omega
      · show WinInv ((c1.vs + 1) % 32768) (c1.win ++ [{ seq := (c1.vs + 1) % 32768, sentTime := c1.now, qref := none }]) base (c1.win ++ [_]).length
        rw [hw3, hw4]
        have hl : c.win.length + 1 < 32767 := by
          simp only [isFull, Bool.and_eq_false_iff, bne_eq_false_iff_eq, beq_eq_false_iff_ne] at hnf'
          rcases hnf' with h' | h' <;> omega
        have := winInv_push c.vs c.win base c.win.length hb hl { seq := (c.vs + 1) % 32768, sentTime := c1.now, qref := none } rfl
        simpa only [List.length_append, List.length_cons, List.length_nil] using this
    · exact ⟨h, rfl⟩
  · exact ⟨h, rfl⟩

theorem cgood_runToEnd : ∀ (f : Nat) (c : Cli), CGood c → CGood (runToEnd f c) ∧ (runToEnd f c).k = c.k := by
  intro f
  induction f with
  | zero => intro c h; exact ⟨h, rfl⟩
  | succ n ih =>
    intro c h
    unfold runToEnd
    split
    · exact ⟨h, rfl⟩
    · obtain ⟨h1, k1⟩ := cgood_step c h
      obtain ⟨h2, k2⟩ := ih _ h1
      exact ⟨h2, k2.trans k1⟩

/-! ### every history of a client connection object -/

/-- everything that can happen to a `CS104_Connection`: the application connects, sends, starts / stops data transfer,
closes; the thread runs from one blocking point to the next; the peer, the clock and the connect result change -/
inductive KOp where
  | connect
  | step
  | env (sock : Sock) (dt : Nat) (connectOk : Bool)
  | send (asdu : List Nat)
  | startdt
  | stopdt
  | close

def KOp.apply (c : Cli) : KOp → Cli
  | .connect => connectAsync c
  | .step => Iec.Cli104.step c
  | .env sk dt ok => { c with sock := sk, now := c.now + dt, connectOk := ok }
  | .send a => (sendAsdu c a).1
  | .startdt => sendStartDT c
  | .stopdt => sendStopDT c
  | .close => closeConn c

theorem cgood_apply (c : Cli) (op : KOp) (hk0 : 0 < c.k) (hk : c.k < 32767) (h : CGood c) :
    CGood (op.apply c) ∧ (op.apply c).k = c.k := by
  have key : ∀ c' : Cli, WQ c c' → CGood c' ∧ c'.k = c.k := fun c' hq =>
    ⟨cgood_wq h hq, by unfold Cli.k; rw [hq.1, hq.2.1]⟩
  cases op with
  | connect => exact key _ (WQ.same rfl rfl rfl rfl)
  | step => exact cgood_step c h
  | env sk dt ok => exact key _ (WQ.same rfl rfl rfl rfl)
  | send a => exact cgood_sendAsdu c a hk0 hk h
  | startdt => exact key _ (wq_sendStartDT c)
  | stopdt => exact key _ (wq_sendStopDT c)
  | close =>
    show CGood (closeConn c) ∧ (closeConn c).k = c.k
    unfold closeConn
    simp only
    obtain ⟨h0, k0⟩ := key { c with close := true } (WQ.same rfl rfl rfl rfl)
    obtain ⟨h1, k1⟩ := cgood_runToEnd 100 _ h0
    exact ⟨cgood_wq h1 (WQ.same rfl rfl rfl rfl), k1.trans k0⟩

/-- **every history** of a client connection created with 0 < k < 32767: the k-buffer never holds more than k entries and
is always the consecutive run of acknowledgement numbers that ends at V(S) -/
theorem run_cgood (p : Params) (hk0 : 0 < p.k) (hk : p.k < 32767) (ops : List KOp) :
    CGood (ops.foldl KOp.apply { p := p }) ∧ (ops.foldl KOp.apply { p := p }).k = p.k := by
  have h0 : CGood ({ p := p } : Cli) := ⟨Nat.zero_le _, 0, winInv_empty⟩
  have k0 : ({ p := p } : Cli).k = p.k := rfl
  generalize ({ p := p } : Cli) = c at h0 k0
  induction ops generalizing c with
  | nil => exact ⟨h0, k0⟩
  | cons op ops ih =>
    obtain ⟨h1, k1⟩ := cgood_apply c op (k0 ▸ hk0) (k0 ▸ hk) h0
    exact ih _ h1 (k1.trans k0)

end Iec.Cli104
