/-
V(R) of a connection changes only when an I-format APDU is accepted on it: frame lemmas for everything `handleMessage`
calls (relation `VrKeep`), then the history statement "V(R) = V(R) at the start + number of accepted I-format APDUs".
-/
import Iec.Lemmas.Srv104Started
namespace Iec.Srv104
open Iec.KWindow Iec.Queues

/-- V(R) of every connection and the table size are unchanged -/
def VrKeep (s s' : Slave) : Prop := s'.conns.length = s.conns.length ∧ ∀ j, (s'.conn j).vr = (s.conn j).vr

theorem VrKeep.refl (s : Slave) : VrKeep s s := ⟨rfl, fun _ => rfl⟩
theorem VrKeep.trans {a b c : Slave} (h1 : VrKeep a b) (h2 : VrKeep b c) : VrKeep a c :=
  ⟨h2.1.trans h1.1, fun j => (h2.2 j).trans (h1.2 j)⟩

theorem vr_of_conns {s s' : Slave} (hc : s'.conns = s.conns) : VrKeep s s' :=
  ⟨by rw [hc], fun j => by unfold Slave.conn; rw [hc]⟩

theorem vr_emit (s : Slave) (o : Obs) : VrKeep s (emit s o) := vr_of_conns rfl
theorem vr_setGrp (s : Slave) (g : Nat) (x : Group) : VrKeep s (s.setGrp g x) := vr_of_conns rfl

theorem vr_setConn (s : Slave) (i : Nat) (c : Conn) (h : c.vr = (s.conn i).vr) : VrKeep s (s.setConn i c) := by
  refine ⟨setConn_len _ _ _, fun j => ?_⟩
  by_cases hj : j = i
  · subst hj
    by_cases hl : j < s.conns.length
    · rw [conn_setConn _ _ _ hl]; exact h
    · have hs : s.conns.set j c = s.conns := List.set_eq_of_length_le (Nat.le_of_not_lt hl)
      have : (s.setConn j c).conn j = s.conn j := by unfold Slave.conn Slave.setConn; simp only [hs]
      rw [this]
  · rw [conn_setConn_ne _ _ _ _ hj]

theorem vr_after_set (s : Slave) (i : Nat) (c c' : Conn) (h1 : c'.vr = c.vr) (h2 : c'.vr = (s.conn i).vr) :
    c'.vr = ((s.setConn i c).conn i).vr := by
  by_cases hl : i < s.conns.length
  · rw [conn_setConn _ _ _ hl]; exact h1
  · have hs : s.conns.set i c = s.conns := List.set_eq_of_length_le (Nat.le_of_not_lt hl)
    have : (s.setConn i c).conn i = s.conn i := by unfold Slave.conn Slave.setConn; simp only [hs]
    rw [this]; exact h2

macro "vrc" : tactic => `(tactic| first
  | rfl
  | (apply vr_after_set <;> rfl))

theorem vr_write (s : Slave) (i : Nat) (b : List Nat) : VrKeep s (write s i b).1 := by
  unfold write; simp only; split
  · exact VrKeep.refl s
  · exact vr_emit s _

theorem vr_sendS (s : Slave) (i : Nat) : VrKeep s (sendS s i) := by
  unfold sendS
  simp only
  have hw := vr_write s i [0x68, 0x04, 0x01, 0, seqLo (s.conn i).vr, seqHi (s.conn i).vr]
  generalize write s i [0x68, 0x04, 0x01, 0, seqLo (s.conn i).vr, seqHi (s.conn i).vr] = r at hw
  obtain ⟨s1, ok⟩ := r
  simp only at hw ⊢
  split
  · exact hw
  · exact VrKeep.trans hw (vr_setConn _ _ _ (by vrc))

theorem vr_sendI (s : Slave) (i : Nat) (a : List Nat) (q : Option (Nat × Nat)) : VrKeep s (sendI s i a q) := by
  unfold sendI
  simp only
  have hw := vr_write s i ([0x68, (a.length + 4) % 256, seqLo (s.conn i).vs, seqHi (s.conn i).vs, seqLo (s.conn i).vr, seqHi (s.conn i).vr] ++ a)
  generalize write s i ([0x68, (a.length + 4) % 256, seqLo (s.conn i).vs, seqHi (s.conn i).vs, seqLo (s.conn i).vr, seqHi (s.conn i).vr] ++ a) = r at hw
  obtain ⟨s1, ok⟩ := r
  simp only at hw ⊢
  refine VrKeep.trans hw (vr_setConn _ _ _ ?_)
  cases ok <;> rfl

theorem vr_sendAsduInternal (s : Slave) (i : Nat) (a : List Nat) : VrKeep s (sendAsduInternal s i a).1 := by
  unfold sendAsduInternal
  simp only
  repeat' split
  all_goals first
    | exact vr_sendI _ _ _ _
    | exact vr_setGrp _ _ _
    | exact VrKeep.refl _

theorem vr_deactivate (s : Slave) (i : Nat) : VrKeep s (deactivate s i) := by
  unfold deactivate
  simp only
  split
  · exact VrKeep.trans (vr_emit s _) (vr_setConn _ _ _ (by vrc))
  · exact vr_setConn _ _ _ (by vrc)

theorem vr_confirmReleased (rel : List KEntry) (s : Slave) (i : Nat) : VrKeep s (confirmReleased s i rel) :=
  vr_of_conns (confirmReleased_facts rel s i).1

theorem vr_checkSeqConn (s : Slave) (i : Nat) (nr : Nat) : VrKeep s (checkSeqConn s i nr).1 := by
  unfold checkSeqConn
  simp only
  generalize checkSeq (s.conn i).vs (s.conn i).win nr = r
  obtain ⟨ok, w, rel⟩ := r
  simp only
  exact VrKeep.trans (vr_setConn _ _ _ (by vrc)) (vr_confirmReleased _ _ _)

theorem vr_foldl {α} (f : Slave → α → Slave) (hf : ∀ s a, VrKeep s (f s a)) : ∀ (l : List α) (s : Slave), VrKeep s (l.foldl f s) := by
  intro l
  induction l with
  | nil => intro s; exact VrKeep.refl s
  | cons a l ih => intro s; exact VrKeep.trans (hf s a) (ih _)

theorem vr_appHandler (s : Slave) (i : Nat) (a : List Nat) : VrKeep s (appHandler s i a) := by
  unfold appHandler
  simp only
  refine VrKeep.trans (vr_emit s _) (vr_foldl _ ?_ _ _)
  intro t _
  exact VrKeep.trans (vr_sendAsduInternal t i a) (vr_emit _ _)

theorem vr_t3upd (s : Slave) (i : Nat) : VrKeep s (t3upd s i) := by
  unfold t3upd; exact vr_setConn _ _ _ (by vrc)

theorem vr_hmTestFR (s : Slave) (i : Nat) : VrKeep s (hmTestFR s i).1 := by
  unfold hmTestFR
  have h := vr_write s i TESTFR_CON
  generalize write s i TESTFR_CON = r at h
  obtain ⟨s1, ok⟩ := r
  show VrKeep s (if ok = true then (t3upd s1 i, true) else (s1, false)).1
  split
  · exact VrKeep.trans h (vr_t3upd _ _)
  · exact h

theorem vr_activate (s : Slave) (i : Nat) : VrKeep s (activate s i) := by
  unfold activate
  simp only
  generalize (List.filter _ (List.range s.conns.length)) = js
  have h0 : VrKeep s (js.foldl deactivate s) := vr_foldl _ (fun t j => vr_deactivate t j) _ _
  generalize js.foldl deactivate s = t at h0
  refine VrKeep.trans h0 ?_
  unfold activateConn
  simp only
  split
  · exact VrKeep.trans (vr_emit _ _) (vr_setConn _ _ _ (by vrc))
  · exact vr_setConn _ _ _ (by vrc)

theorem vr_hmStartDT (s : Slave) (i : Nat) : VrKeep s (hmStartDT s i).1 := by
  unfold hmStartDT
  extract_lets s0 g s1
  have h0 : VrKeep s s0 := vr_activate s i
  have h1 : VrKeep s0 s1 := vr_setGrp _ _ _
  have h := vr_write s1 i STARTDT_CON
  generalize write s1 i STARTDT_CON = r at h
  obtain ⟨s2, ok⟩ := r
  show VrKeep s (if ok = true then (t3upd s2 i, true) else (s2, false)).1
  split
  · exact VrKeep.trans h0 (VrKeep.trans h1 (VrKeep.trans h (vr_t3upd _ _)))
  · exact VrKeep.trans h0 (VrKeep.trans h1 h)

theorem vr_stopTail (s : Slave) (i : Nat) (c : Conn) (hc : c.vr = (s.conn i).vr) :
    VrKeep s (let s := s.setConn i c
              let (s, ok) := write s i STOPDT_CON
              if ok then (t3upd s i, true) else (s, false)).1 := by
  extract_lets s1
  have h1 : VrKeep s s1 := vr_setConn _ _ _ hc
  have h := vr_write s1 i STOPDT_CON
  generalize write s1 i STOPDT_CON = r at h
  obtain ⟨s2, ok⟩ := r
  show VrKeep s (if ok = true then (t3upd s2 i, true) else (s2, false)).1
  split
  · exact VrKeep.trans h1 (VrKeep.trans h (vr_t3upd _ _))
  · exact VrKeep.trans h1 h

theorem vr_hmStopDT (s : Slave) (i : Nat) : VrKeep s (hmStopDT s i).1 := by
  unfold hmStopDT
  extract_lets s0 c s1
  have h0 : VrKeep s s0 := vr_deactivate s i
  have h1 : VrKeep s0 s1 := by
    dsimp only [s1]
    split
    · exact VrKeep.trans (vr_setConn _ _ _ (by dsimp only [c])) (vr_sendS _ _)
    · exact VrKeep.refl _
  split
  · exact VrKeep.trans h0 (VrKeep.trans h1 (vr_t3upd _ _))
  · exact VrKeep.trans h0 (VrKeep.trans h1 (vr_stopTail s1 i _ rfl))

theorem vr_hmS (s : Slave) (i : Nat) (buf : List Nat) : VrKeep s (hmS s i buf).1 := by
  unfold hmS
  extract_lets nr
  have h := vr_checkSeqConn s i nr
  generalize checkSeqConn s i nr = r at h
  obtain ⟨s1, ok⟩ := r
  dsimp only at h
  show VrKeep s (if (!ok) = true then (s1, false) else _).1
  split
  · exact h
  · extract_lets c
    split
    · split
      · exact VrKeep.trans h (vr_stopTail s1 i _ (by dsimp only [c]))
      · exact VrKeep.trans h (vr_t3upd _ _)
    · split
      · exact h
      · exact VrKeep.trans h (vr_t3upd _ _)

/-- both sequence checks of an I-format APDU pass on a started connection -/
def SeqOk (s : Slave) (i : Nat) (buf : List Nat) : Prop :=
  7 ≤ buf.length ∧ (s.conn i).state = 1 ∧ frameNS buf = (s.conn i).vr ∧ valid (s.conn i).vs (s.conn i).win (frameNR buf) = true

instance (s : Slave) (i : Nat) (buf : List Nat) : Decidable (SeqOk s i buf) := by unfold SeqOk; infer_instance

/-- V(R) of connection `i` advanced by one, everything else as `VrKeep` -/
def VrInc (s s' : Slave) (i : Nat) : Prop :=
  s'.conns.length = s.conns.length ∧ (s'.conn i).vr = ((s.conn i).vr + 1) % 32768 ∧ ∀ j, j ≠ i → (s'.conn j).vr = (s.conn j).vr

theorem vrInc_of (s a b c : Slave) (i : Nat) (hi : i < a.conns.length) (h1 : VrKeep s a)
    (hb : b = a.setConn i { a.conn i with vr := ((a.conn i).vr + 1) % 32768, unconf := (a.conn i).unconf + 1 }) (h2 : VrKeep b c) :
    VrInc s c i := by
  refine ⟨?_, ?_, ?_⟩
  · rw [h2.1, hb, setConn_len, h1.1]
  · rw [h2.2 i, hb, conn_setConn _ _ _ hi]
    show ((a.conn i).vr + 1) % 32768 = _
    rw [h1.2 i]
  · intro j hj
    rw [h2.2 j, hb, conn_setConn_ne _ _ _ _ hj, h1.2 j]

/-- **an I-format APDU advances V(R) by exactly one (modulo 32768) iff both sequence checks pass; otherwise V(R) of
every connection is unchanged** -/
theorem handleI_vr (s : Slave) (i : Nat) (hi : i < s.conns.length) (buf : List Nat) :
    (SeqOk s i buf → VrInc s (handleI s i buf).1 i) ∧ (¬ SeqOk s i buf → VrKeep s (handleI s i buf).1) := by
  unfold handleI SeqOk
  extract_lets n c c1 s1 ns nr
  have hc1 : c1.vr = (s.conn i).vr ∧ c1.vs = (s.conn i).vs ∧ c1.win = (s.conn i).win := by
    dsimp only [c1, c]; split <;> exact ⟨rfl, rfl, rfl⟩
  have h1 : VrKeep s s1 := vr_setConn _ _ _ hc1.1
  have hs1c : s1.conn i = c1 := conn_setConn s i c1 hi
  have hns : ns = frameNS buf := rfl
  have hnr : nr = frameNR buf := rfl
  split
  · rename_i h7
    exact ⟨fun h => absurd h.1 (by omega), fun _ => VrKeep.refl s⟩
  · rename_i h7
    split
    · rename_i hst
      refine ⟨fun h => ?_, fun _ => VrKeep.refl s⟩
      rw [h.2.1] at hst; simp at hst
    · rename_i hst
      have hst1 : (s.conn i).state = 1 := by simpa [c] using hst
      split
      · rename_i hne
        refine ⟨fun h => ?_, fun _ => h1⟩
        rw [hns, h.2.2.1, hc1.1] at hne; simp at hne
      · rename_i hne
        have hnseq : frameNS buf = (s.conn i).vr := by rw [← hns, ← hc1.1]; simpa using hne
        have hcs := checkSeqConn_facts s1 i nr (by rw [h1.1]; exact hi)
        have h2 := vr_checkSeqConn s1 i nr
        generalize checkSeqConn s1 i nr = r at h2 hcs
        obtain ⟨s2, ok⟩ := r
        dsimp only at h2 hcs
        obtain ⟨hok, _, _, _, hlen2, _, _, _⟩ := hcs
        rw [hs1c, hc1.2.1, hc1.2.2, hnr] at hok
        show (_ → VrInc s (if (!ok) = true then (s2, false) else _).1 i) ∧ (_ → VrKeep s (if (!ok) = true then (s2, false) else _).1)
        split
        · rename_i hnok
          refine ⟨fun h => ?_, fun _ => VrKeep.trans h1 h2⟩
          rw [hok, h.2.2.2] at hnok; simp at hnok
        · rename_i hnok
          have hokt : ok = true := by simpa using hnok
          have hval : valid (s.conn i).vs (s.conn i).win (frameNR buf) = true := by rw [← hok]; exact hokt
          extract_lets c2 s3
          have hi2 : i < s2.conns.length := by rw [hlen2, h1.1]; exact hi
          have hinc : ∀ t, VrKeep s3 t → VrInc s t i :=
            fun t ht => vrInc_of s s2 s3 t i hi2 (VrKeep.trans h1 h2) rfl ht
          refine ⟨fun _ => ?_, fun hn => absurd ⟨by omega, hst1, hnseq, hval⟩ hn⟩
          split
          · split
            · exact hinc _ (VrKeep.refl _)
            · exact hinc _ (VrKeep.trans (vr_appHandler _ _ _) (vr_setConn _ _ _ (by vrc)))
          · exact hinc _ (VrKeep.refl _)

/-- the message is a well-framed I-format APDU that passes both sequence checks on started connection `i` -/
def Accepted (s : Slave) (i : Nat) (buf : List Nat) : Prop :=
  ¬ buf.length < 6 ∧ buf.getD 0 0 = 0x68 ∧ buf.getD 1 0 = buf.length - 2 ∧ buf.getD 2 0 &&& 1 = 0 ∧ SeqOk s i buf

instance (s : Slave) (i : Nat) (buf : List Nat) : Decidable (Accepted s i buf) := by unfold Accepted; infer_instance

/-- **`handleMessage`: V(R) advances by one exactly for an accepted I-format APDU** -/
theorem handleMessage_vr (s : Slave) (i : Nat) (hi : i < s.conns.length) (buf : List Nat) :
    (Accepted s i buf → VrInc s (handleMessage s i buf).1 i) ∧ (¬ Accepted s i buf → VrKeep s (handleMessage s i buf).1) := by
  unfold handleMessage Accepted
  extract_lets n b2
  split
  · rename_i h; exact ⟨fun ha => absurd h ha.1, fun _ => VrKeep.refl s⟩
  split
  · rename_i h; exact ⟨fun ha => by rw [ha.2.1] at h; simp at h, fun _ => VrKeep.refl s⟩
  split
  · rename_i h; exact ⟨fun ha => by rw [ha.2.2.1] at h; simp [n] at h, fun _ => VrKeep.refl s⟩
  split
  · rename_i h6 h0 h1 hI
    obtain ⟨a, b⟩ := handleI_vr s i hi buf
    have h0' : buf.getD 0 0 = 0x68 := by simpa using h0
    have h1' : buf.getD 1 0 = buf.length - 2 := by simpa [n] using h1
    have hI' : buf.getD 2 0 &&& 1 = 0 := by simpa [b2] using hI
    exact ⟨fun ha => a ha.2.2.2.2, fun hn => b (fun hs => hn ⟨h6, h0', h1', hI', hs⟩)⟩
  · rename_i hI
    have hnI : ¬ (buf.getD 2 0 &&& 1 = 0) := by simpa [b2] using hI
    refine ⟨fun ha => absurd ha.2.2.2.1 hnI, fun _ => ?_⟩
    split
    · exact vr_hmTestFR s i
    split
    · exact vr_hmStartDT s i
    split
    · exact vr_hmStopDT s i
    split
    · exact VrKeep.trans (vr_setConn _ _ _ (by vrc)) (vr_t3upd _ _)
    split
    · exact vr_hmS s i buf
    · exact VrKeep.refl s

/-- receive the messages one after the other on connection `i` -/
def recvAll (s : Slave) (i : Nat) (ms : List (List Nat)) : Slave := ms.foldl (fun s m => (handleMessage s i m).1) s

/-- how many of them are accepted I-format APDUs (each judged in the state it arrives in) -/
def acceptedCount (s : Slave) (i : Nat) : List (List Nat) → Nat
  | [] => 0
  | m :: ms => (if Accepted s i m then 1 else 0) + acceptedCount (handleMessage s i m).1 i ms

/-- **V(R) counts the accepted I-format APDUs, modulo 32768, over every sequence of received messages** (I-, S- and
U-format, well-formed or not) -/
theorem vr_counts_accepted : ∀ (ms : List (List Nat)) (s : Slave) (i : Nat), i < s.conns.length →
    (s.conn i).vr < 32768 →
    ((recvAll s i ms).conn i).vr = ((s.conn i).vr + acceptedCount s i ms) % 32768 := by
  intro ms
  induction ms with
  | nil => intro s i _ hv; simp [recvAll, acceptedCount, Nat.mod_eq_of_lt hv]
  | cons m ms ih =>
    intro s i hi hv
    obtain ⟨a, b⟩ := handleMessage_vr s i hi m
    unfold recvAll acceptedCount
    simp only [List.foldl_cons]
    by_cases hacc : Accepted s i m
    · obtain ⟨hl, hvr, _⟩ := a hacc
      have := ih (handleMessage s i m).1 i (by rw [hl]; exact hi) (by rw [hvr]; exact Nat.mod_lt _ (by decide))
      unfold recvAll at this
      rw [this, hvr, if_pos hacc]
      omega
    · obtain ⟨hl, hvr⟩ := b hacc
      have := ih (handleMessage s i m).1 i (by rw [hl]; exact hi) (by rw [hvr i]; exact hv)
      unfold recvAll at this
      rw [this, hvr i, if_neg hacc]
      simp

end Iec.Srv104
