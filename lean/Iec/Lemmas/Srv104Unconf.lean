/-
The number of received-but-unacknowledged I-format APDUs of every connection over every operation of the server model: it
grows only in the I-format branch of `handleMessage` (by one), and the `w` test that follows every received message brings
it below w again - so at every tick boundary of every history fewer than w I-format APDUs are unacknowledged (C11).
-/
import Iec.Lemmas.Srv104Win
import Iec.Lemmas.Srv104EvFree
namespace Iec.Srv104
open Iec.KWindow Iec.Queues

abbrev CUK (c c' : Conn) : Prop := c'.unconf ≤ c.unconf
theorem CUK.refl (c : Conn) : CUK c c := Nat.le_refl _
theorem CUK.trans {a b c : Conn} (h1 : CUK a b) (h2 : CUK b c) : CUK a c := Nat.le_trans h2 h1

/-- parameters and table size are kept, no connection's count of unacknowledged received I-format APDUs grows -/
def UK (s s' : Slave) : Prop := s'.p = s.p ∧ s'.conns.length = s.conns.length ∧ ∀ j, CUK (s.conn j) (s'.conn j)

theorem UK.refl (s : Slave) : UK s s := ⟨rfl, rfl, fun j => CUK.refl _⟩
theorem UK.trans {a b c : Slave} (h1 : UK a b) (h2 : UK b c) : UK a c :=
  ⟨h2.1.trans h1.1, h2.2.1.trans h1.2.1, fun j => CUK.trans (h1.2.2 j) (h2.2.2 j)⟩

theorem uk_of_conns {s s' : Slave} (hp : s'.p = s.p) (hc : s'.conns = s.conns) : UK s s' :=
  ⟨hp, by rw [hc], fun j => by unfold Slave.conn; rw [hc]; exact CUK.refl _⟩

theorem uk_emit (s : Slave) (o : Obs) : UK s (emit s o) := uk_of_conns rfl rfl
theorem uk_setGrp (s : Slave) (g : Nat) (x : Group) : UK s (s.setGrp g x) := uk_of_conns rfl rfl

theorem uk_setConn (s : Slave) (i : Nat) (c : Conn) (h : CUK (s.conn i) c) : UK s (s.setConn i c) := by
  refine ⟨rfl, setConn_len _ _ _, fun j => ?_⟩
  by_cases hj : j = i
  · subst hj
    by_cases hl : j < s.conns.length
    · rw [conn_setConn _ _ _ hl]; exact h
    · have hs : s.conns.set j c = s.conns := List.set_eq_of_length_le (Nat.le_of_not_lt hl)
      have : (s.setConn j c).conn j = s.conn j := by unfold Slave.conn Slave.setConn; simp only [hs]
      rw [this]; exact CUK.refl _
  · rw [conn_setConn_ne _ _ _ _ hj]; exact CUK.refl _

macro "ukc0" : tactic => `(tactic| first
  | exact Nat.le_refl _
  | exact Nat.zero_le _)

theorem cuk_after_set (s : Slave) (i : Nat) (c c' : Conn) (h1 : CUK c c') (h2 : CUK (s.conn i) c') :
    CUK ((s.setConn i c).conn i) c' := by
  by_cases hl : i < s.conns.length
  · rw [conn_setConn _ _ _ hl]; exact h1
  · have hs : s.conns.set i c = s.conns := List.set_eq_of_length_le (Nat.le_of_not_lt hl)
    have : (s.setConn i c).conn i = s.conn i := by unfold Slave.conn Slave.setConn; simp only [hs]
    rw [this]; exact h2

macro "ukc" : tactic => `(tactic| first
  | ukc0
  | (apply cuk_after_set <;> ukc0))

theorem uk_write (s : Slave) (i : Nat) (b : List Nat) : UK s (write s i b).1 := by
  unfold write; simp only; split
  · exact UK.refl s
  · exact uk_emit s _

theorem uk_sendS (s : Slave) (i : Nat) : UK s (sendS s i) := by
  unfold sendS
  simp only
  have hw := uk_write s i [0x68, 0x04, 0x01, 0, seqLo (s.conn i).vr, seqHi (s.conn i).vr]
  generalize write s i [0x68, 0x04, 0x01, 0, seqLo (s.conn i).vr, seqHi (s.conn i).vr] = r at hw
  obtain ⟨s1, ok⟩ := r
  simp only at hw ⊢
  split
  · exact hw
  · exact UK.trans hw (uk_setConn _ _ _ (by ukc))

theorem uk_sendI (s : Slave) (i : Nat) (a : List Nat) (q : Option (Nat × Nat)) : UK s (sendI s i a q) := by
  unfold sendI
  simp only
  have hw := uk_write s i ([0x68, (a.length + 4) % 256, seqLo (s.conn i).vs, seqHi (s.conn i).vs, seqLo (s.conn i).vr, seqHi (s.conn i).vr] ++ a)
  generalize write s i ([0x68, (a.length + 4) % 256, seqLo (s.conn i).vs, seqHi (s.conn i).vs, seqLo (s.conn i).vr, seqHi (s.conn i).vr] ++ a) = r at hw
  obtain ⟨s1, ok⟩ := r
  simp only at hw ⊢
  refine UK.trans hw (uk_setConn _ _ _ ?_)
  cases ok <;> (simp only [Bool.false_eq_true, if_false, if_true]; ukc)

theorem uk_sendAsduInternal (s : Slave) (i : Nat) (a : List Nat) : UK s (sendAsduInternal s i a).1 := by
  unfold sendAsduInternal
  simp only
  repeat' split
  all_goals first
    | exact uk_sendI _ _ _ _
    | exact uk_setGrp _ _ _
    | exact UK.refl _

theorem uk_deactivate (s : Slave) (i : Nat) : UK s (deactivate s i) := by
  unfold deactivate
  simp only
  split
  · exact UK.trans (uk_emit s _) (uk_setConn _ _ _ (by ukc))
  · exact uk_setConn _ _ _ (by ukc)

theorem uk_confirmReleased (rel : List KEntry) : ∀ (s : Slave) (i : Nat), UK s (confirmReleased s i rel) := by
  intro s i
  have hf := confirmReleased_facts rel s i
  exact uk_of_conns hf.2.2.1 hf.1

theorem uk_checkSeqConn (s : Slave) (i : Nat) (nr : Nat) : UK s (checkSeqConn s i nr).1 := by
  unfold checkSeqConn
  simp only
  generalize checkSeq (s.conn i).vs (s.conn i).win nr = r
  obtain ⟨ok, w, rel⟩ := r
  simp only
  exact UK.trans (uk_setConn _ _ _ (by ukc)) (uk_confirmReleased _ _ _)

theorem uk_foldl {α} (f : Slave → α → Slave) (hf : ∀ s a, UK s (f s a)) : ∀ (l : List α) (s : Slave), UK s (l.foldl f s) := by
  intro l
  induction l with
  | nil => intro s; exact UK.refl s
  | cons a l ih => intro s; exact UK.trans (hf s a) (ih _)

theorem uk_appHandler (s : Slave) (i : Nat) (a : List Nat) : UK s (appHandler s i a) := by
  unfold appHandler
  simp only
  refine UK.trans (uk_emit s _) (uk_foldl _ ?_ _ _)
  intro t _
  exact UK.trans (uk_sendAsduInternal t i a) (uk_emit _ _)

/-- peel the outermost state transformer off a `UK s (F …)` goal (syntactic match only) -/
macro "uk_step" : tactic => `(tactic| first
  | with_reducible exact UK.refl _
  | ((with_reducible refine UK.trans ?_ (uk_setConn _ _ _ ?_)) <;> (try ukc))
  | with_reducible refine UK.trans ?_ (uk_emit _ _)
  | with_reducible refine UK.trans ?_ (uk_setGrp _ _ _)
  | with_reducible refine UK.trans ?_ (uk_write _ _ _)
  | with_reducible refine UK.trans ?_ (uk_sendS _ _)
  | with_reducible refine UK.trans ?_ (uk_sendI _ _ _ _)
  | with_reducible refine UK.trans ?_ (uk_sendAsduInternal _ _ _)
  | with_reducible refine UK.trans ?_ (uk_deactivate _ _)
  | with_reducible refine UK.trans ?_ (uk_checkSeqConn _ _ _)
  | with_reducible refine UK.trans ?_ (uk_appHandler _ _ _))

theorem uk_receiveMessage (s : Slave) (i : Nat) : UK s (receiveMessage s i).1 := by
  unfold receiveMessage
  simp only
  exact uk_setConn _ _ _ (by ukc)

theorem uk_ackIfW (s : Slave) (i : Nat) : UK s (ackIfW s i) := by
  unfold ackIfW
  simp only
  split
  · exact UK.trans (uk_setConn _ _ _ (by ukc)) (uk_sendS _ _)
  · exact UK.refl s

theorem uk_sendWaitingHigh (i : Nat) : ∀ (fuel : Nat) (s : Slave), UK s (sendWaitingHigh s i fuel).1 := by
  intro fuel
  induction fuel with
  | zero => intro s; exact UK.refl s
  | succ n ih =>
    intro s
    unfold sendWaitingHigh
    simp only
    repeat' split
    all_goals first
      | exact UK.refl _
      | exact uk_setGrp _ _ _
      | exact UK.trans (uk_setGrp _ _ _) (uk_sendI _ _ _ _)
      | exact UK.trans (UK.trans (uk_setGrp _ _ _) (uk_sendI _ _ _ _)) (ih _)

theorem uk_sendWaitingASDUs (s : Slave) (i : Nat) : UK s (sendWaitingASDUs s i) := by
  unfold sendWaitingASDUs
  have h1 := uk_sendWaitingHigh i ((s.grp (s.gidx i)).highQ.count + 1) s
  simp only
  repeat' split
  all_goals first
    | exact h1
    | exact UK.trans h1 (uk_setGrp _ _ _)
    | exact UK.trans h1 (UK.trans (uk_setGrp _ _ _) (uk_sendI _ _ _ _))

/-- unfold nothing, split every `if` / `match`, name every `let`, peel the state transformers from the outside -/
macro "uk_auto" : tactic => `(tactic| repeat' (first
  | (with_reducible exact UK.refl _)
  | ukc
  | split
  | extract_lets
  | uk_step
  | (dsimp (config := { zetaDelta := true, zeta := false }) only)))

theorem uk_phaseT3 (s : Slave) (i : Nat) : UK s (phaseT3 s i) := by
  unfold phaseT3
  try simp (config := { zeta := false }) only []
  uk_auto

theorem uk_phaseTestFR (s : Slave) (i : Nat) : UK s (phaseTestFR s i).1 := by
  unfold phaseTestFR
  try simp (config := { zeta := false }) only []
  uk_auto

theorem uk_phaseT2 (s : Slave) (i : Nat) : UK s (phaseT2 s i) := by
  unfold phaseT2
  try simp (config := { zeta := false }) only []
  uk_auto

theorem uk_phaseT1 (s : Slave) (i : Nat) (ok : Bool) : UK s (phaseT1 s i ok).1 := by
  unfold phaseT1
  try simp (config := { zeta := false }) only []
  uk_auto

theorem uk_handleTimeouts (s : Slave) (i : Nat) : UK s (handleTimeouts s i).1 := by
  unfold handleTimeouts
  try simp (config := { zeta := false }) only []
  exact UK.trans (uk_phaseT3 s i) (UK.trans (uk_phaseTestFR _ i) (UK.trans (uk_phaseT2 _ i) (uk_phaseT1 _ i _)))

theorem uk_periodic (s : Slave) (i : Nat) : UK s (periodic s i) := by
  unfold periodic
  have h1 : UK s (if (s.conn i).state = 1 then sendWaitingASDUs s i else s) := by
    split
    · exact uk_sendWaitingASDUs s i
    · exact UK.refl s
  extract_lets s1
  have h2 := uk_handleTimeouts s1 i
  generalize handleTimeouts s1 i = r at h2
  obtain ⟨s2, ok⟩ := r
  show UK s (if (!ok) = true then s2.setConn i { s2.conn i with isRunning := false } else s2)
  split
  · exact UK.trans h1 (UK.trans h2 (uk_setConn _ _ _ (by ukc)))
  · exact UK.trans h1 h2

theorem uk_resetUnconfirmed (s : Slave) (j : Nat) : UK s (resetUnconfirmed s j) := by
  unfold resetUnconfirmed
  apply uk_foldl
  intro t e
  split
  · exact uk_setGrp _ _ _
  · exact UK.refl t

theorem uk_t3upd (s : Slave) (i : Nat) : UK s (t3upd s i) := by
  unfold t3upd; exact uk_setConn _ _ _ (by ukc)

theorem uk_hmTestFR (s : Slave) (i : Nat) : UK s (hmTestFR s i).1 := by
  unfold hmTestFR
  have h := uk_write s i TESTFR_CON
  generalize write s i TESTFR_CON = r at h
  obtain ⟨s1, ok⟩ := r
  show UK s (if ok = true then (t3upd s1 i, true) else (s1, false)).1
  split
  · exact UK.trans h (uk_t3upd _ _)
  · exact h

theorem uk_stopTail (s : Slave) (i : Nat) (c : Conn) (hc : CUK (s.conn i) c) :
    UK s (let s := s.setConn i c
              let (s, ok) := write s i STOPDT_CON
              if ok then (t3upd s i, true) else (s, false)).1 := by
  extract_lets s1
  have h1 : UK s s1 := uk_setConn _ _ _ hc
  have h := uk_write s1 i STOPDT_CON
  generalize write s1 i STOPDT_CON = r at h
  obtain ⟨s2, ok⟩ := r
  show UK s (if ok = true then (t3upd s2 i, true) else (s2, false)).1
  split
  · exact UK.trans h1 (UK.trans h (uk_t3upd _ _))
  · exact UK.trans h1 h

theorem uk_hmStopDT (s : Slave) (i : Nat) : UK s (hmStopDT s i).1 := by
  unfold hmStopDT
  extract_lets s0 c s1
  have h0 : UK s s0 := uk_deactivate s i
  have h1 : UK s0 s1 := by
    dsimp only [s1]
    split
    · exact UK.trans (uk_setConn _ _ _ (by dsimp only [c]; ukc)) (uk_sendS _ _)
    · exact UK.refl _
  split
  · exact UK.trans h0 (UK.trans h1 (uk_t3upd _ _))
  · exact UK.trans h0 (UK.trans h1 (uk_stopTail s1 i _ (by ukc)))

theorem uk_hmS (s : Slave) (i : Nat) (buf : List Nat) : UK s (hmS s i buf).1 := by
  unfold hmS
  extract_lets nr
  have h := uk_checkSeqConn s i nr
  generalize checkSeqConn s i nr = r at h
  obtain ⟨s1, ok⟩ := r
  dsimp only at h
  show UK s (if (!ok) = true then (s1, false) else _).1
  split
  · exact h
  · extract_lets c
    split
    · split
      · exact UK.trans h (uk_stopTail s1 i _ (by dsimp only [c]; ukc))
      · exact UK.trans h (uk_t3upd _ _)
    · split
      · exact h
      · exact UK.trans h (uk_t3upd _ _)


theorem uk_activate (s : Slave) (i : Nat) : UK s (activate s i) := by
  unfold activate
  simp only
  generalize (List.filter _ (List.range s.conns.length)) = js
  have h0 : UK s (js.foldl deactivate s) := uk_foldl _ (fun t j => uk_deactivate t j) _ _
  generalize js.foldl deactivate s = t at h0
  refine UK.trans h0 ?_
  unfold activateConn
  simp only
  split
  · exact UK.trans (uk_emit _ _) (uk_setConn _ _ _ (by ukc))
  · exact uk_setConn _ _ _ (by ukc)

theorem uk_hmStartDT (s : Slave) (i : Nat) : UK s (hmStartDT s i).1 := by
  unfold hmStartDT
  extract_lets s0 g s1
  have h0 : UK s s0 := uk_activate s i
  have h1 : UK s0 s1 := uk_setGrp _ _ _
  have h := uk_write s1 i STARTDT_CON
  generalize write s1 i STARTDT_CON = r at h
  obtain ⟨s2, ok⟩ := r
  show UK s (if ok = true then (t3upd s2 i, true) else (s2, false)).1
  split
  · exact UK.trans h0 (UK.trans h1 (UK.trans h (uk_t3upd _ _)))
  · exact UK.trans h0 (UK.trans h1 h)

/-- as `UK`, but connection `i` may have counted one more received I-format APDU -/
def UK1 (i : Nat) (s s' : Slave) : Prop :=
  s'.p = s.p ∧ s'.conns.length = s.conns.length ∧ (∀ j, j ≠ i → (s'.conn j).unconf ≤ (s.conn j).unconf) ∧
  (s'.conn i).unconf ≤ (s.conn i).unconf + 1

theorem UK.toUK1 {s s' : Slave} (i : Nat) (h : UK s s') : UK1 i s s' :=
  ⟨h.1, h.2.1, fun j _ => h.2.2 j, Nat.le_succ_of_le (h.2.2 i)⟩

theorem uk1_of (i : Nat) (s a b c : Slave) (h1 : UK s a)
    (hb : b = a.setConn i { a.conn i with vr := ((a.conn i).vr + 1) % 32768, unconf := (a.conn i).unconf + 1 }) (h2 : UK b c) :
    UK1 i s c := by
  have hbl : b.conns.length = a.conns.length := by rw [hb]; exact setConn_len _ _ _
  refine ⟨by rw [h2.1, hb]; exact h1.1, by rw [h2.2.1, hbl, h1.2.1], fun j hj => ?_, ?_⟩
  · refine Nat.le_trans (h2.2.2 j) ?_
    rw [hb, conn_setConn_ne _ _ _ _ hj]; exact h1.2.2 j
  · refine Nat.le_trans (h2.2.2 i) ?_
    by_cases hl : i < a.conns.length
    · rw [hb, conn_setConn _ _ _ hl]
      show (a.conn i).unconf + 1 ≤ _
      exact Nat.succ_le_succ (h1.2.2 i)
    · have hs : ∀ x, a.conns.set i x = a.conns := fun x => List.set_eq_of_length_le (Nat.le_of_not_lt hl)
      have : b.conn i = a.conn i := by rw [hb]; unfold Slave.conn Slave.setConn; simp only [hs]
      rw [this]; exact Nat.le_succ_of_le (h1.2.2 i)

theorem uk1_handleI (s : Slave) (i : Nat) (buf : List Nat) : UK1 i s (handleI s i buf).1 := by
  unfold handleI
  extract_lets n c c1 s1 ns nr
  have h1 : UK s s1 := uk_setConn _ _ _ (by dsimp only [c1, c]; split <;> ukc)
  split
  · exact (UK.refl s).toUK1 i
  · split
    · exact (UK.refl s).toUK1 i
    · split
      · exact h1.toUK1 i
      · have h2 := uk_checkSeqConn s1 i nr
        generalize checkSeqConn s1 i nr = r at h2
        obtain ⟨s2, ok⟩ := r
        dsimp only at h2
        show UK1 i s (if (!ok) = true then (s2, false) else _).fst
        have h12 := UK.trans h1 h2
        split
        · exact h12.toUK1 i
        · extract_lets c2 s3
          split
          · split
            · exact uk1_of i s s2 s3 _ h12 rfl (UK.refl _)
            · exact uk1_of i s s2 s3 _ h12 rfl (UK.trans (uk_appHandler _ _ _) (uk_setConn _ _ _ (by ukc)))
          · exact uk1_of i s s2 s3 _ h12 rfl (UK.refl _)

theorem uk1_handleMessage (s : Slave) (i : Nat) (buf : List Nat) : UK1 i s (handleMessage s i buf).1 := by
  unfold handleMessage
  extract_lets n b2
  split
  · exact (UK.refl s).toUK1 i
  split
  · exact (UK.refl s).toUK1 i
  split
  · exact (UK.refl s).toUK1 i
  split
  · exact uk1_handleI s i buf
  split
  · exact (uk_hmTestFR s i).toUK1 i
  split
  · exact (uk_hmStartDT s i).toUK1 i
  split
  · exact (uk_hmStopDT s i).toUK1 i
  split
  · exact (UK.trans (uk_setConn _ _ _ (by ukc)) (uk_t3upd _ _)).toUK1 i
  split
  · exact (uk_hmS s i buf).toUK1 i
  · exact (UK.refl s).toUK1 i

/-- **fewer than w received I-format APDUs are unacknowledged** on every connection -/
def UInv (s : Slave) : Prop := ∀ j, (s.conn j).unconf < s.p.w

theorem uinv_uk {s s' : Slave} (h : UInv s) (hk : UK s s') : UInv s' := by
  intro j; rw [hk.1]; exact Nat.lt_of_le_of_lt (hk.2.2 j) (h j)

/-- the `w` test after a received message: connection `i` ends below w whatever it had counted -/
theorem ackIfW_bound (s : Slave) (i : Nat) (hw : 0 < s.p.w) : ((ackIfW s i).conn i).unconf < s.p.w := by
  unfold ackIfW
  simp only
  split
  · rename_i hge
    have hge' : s.p.w ≤ (s.conn i).unconf := by simpa using hge
    have hi : i < s.conns.length := by
      rcases Nat.lt_or_ge i s.conns.length with h | h
      · exact h
      · exfalso
        have : s.conn i = {} := by unfold Slave.conn; rw [List.getD_eq_getElem?_getD, List.getElem?_eq_none h]; rfl
        rw [this] at hge'
        have : ({} : Conn).unconf = 0 := rfl
        omega
    have h1 := (uk_sendS (s.setConn i { s.conn i with lastConf := some s.now, unconf := 0, t2Triggered := false }) i).2.2 i
    rw [conn_setConn _ _ _ hi] at h1
    exact Nat.lt_of_le_of_lt h1 hw
  · rename_i hlt
    have : (s.conn i).unconf < s.p.w := by simpa using hlt
    exact this

theorem uinv_handleTcpConnection (s : Slave) (i : Nat) (hw : 0 < s.p.w) (h : UInv s) : UInv (handleTcpConnection s i) := by
  unfold handleTcpConnection
  have h1 := uk_receiveMessage s i
  generalize receiveMessage s i = r at h1
  obtain ⟨s1, rr, msg⟩ := r
  dsimp only at h1
  simp (config := { zeta := false }) only []
  extract_lets c0 s2 c3 s4
  have h2 : UK s1 s2 := by
    dsimp only [s2]; split
    · exact uk_setConn _ _ _ (by dsimp only [c0]; ukc)
    · exact UK.refl _
  have h12 := UK.trans h1 h2
  split
  · have h3 := uk1_handleMessage s2 i msg
    have h4 : UK (handleMessage s2 i msg).1 s4 := by
      dsimp only [s4]; split
      · exact uk_setConn _ _ _ (by dsimp only [c3]; ukc)
      · exact UK.refl _
    have hp4 : s4.p = s.p := by rw [h4.1, h3.1, h12.1]
    have h5 := uk_ackIfW s4 i
    intro j
    rw [h5.1, hp4]
    by_cases hj : j = i
    · subst hj
      have := ackIfW_bound s4 j (by rw [hp4]; exact hw)
      rw [hp4] at this; exact this
    · have a1 := h5.2.2 j
      have a2 := h4.2.2 j
      have a3 := h3.2.2.1 j hj
      have a4 := h12.2.2 j
      have a5 := h j
      show ((ackIfW s4 i).conn j).unconf < s.p.w
      have b1 : ((ackIfW s4 i).conn j).unconf ≤ (s4.conn j).unconf := a1
      have b2 : (s4.conn j).unconf ≤ ((handleMessage s2 i msg).1.conn j).unconf := a2
      have b4 : (s2.conn j).unconf ≤ (s.conn j).unconf := a4
      omega
  · exact uinv_uk h h12

theorem uk_initConn (s : Slave) (i : Nat) (sk : Sock) (g : Nat) : UK s (initConn s i sk g) := by
  unfold initConn
  extract_lets c c1 s1 gi gr gr2
  exact UK.trans (uk_setConn _ _ _ (by dsimp only [c1, c]; ukc)) (uk_setGrp _ _ _)

theorem uk_accept (s : Slave) : UK s (accept s) := by
  unfold accept
  split
  · split
    · exact UK.refl s
    · rename_i sk rest _
      extract_lets s0
      have h0 : UK s s0 := uk_of_conns rfl rfl
      split
      rename_i answer s1 heq
      have h1 : UK s0 s1 := by
        have e := (congrArg Prod.snd heq).symm
        dsimp only at e
        rw [e]
        split
        · exact UK.refl _
        · exact uk_of_conns rfl rfl
      split
      · exact UK.trans h0 h1
      · extract_lets free grp
        clear_value free grp
        split
        · rename_i g i
          extract_lets gr0 s2 s3 s4 c5 s5
          have h2 : UK s1 s2 := by
            dsimp only [s2]; split
            · exact uk_setGrp _ _ _
            · exact UK.refl _
          have h3 : UK s2 s3 := uk_initConn _ _ _ _
          have h4 : UK s3 s4 := uk_of_conns rfl rfl
          have h5 : UK s4 s5 := uk_setConn _ _ _ (by dsimp only [c5]; ukc)
          exact UK.trans h0 (UK.trans h1 (UK.trans h2 (UK.trans h3 (UK.trans h4 (UK.trans h5 (uk_emit _ _))))))
        · exact UK.trans h0 h1
  · exact UK.refl s


theorem uk_enqueue (s : Slave) (a : List Nat) : UK s (enqueue s a) := uk_of_conns rfl rfl

theorem uk_restart (s : Slave) : UK s (restart s) := by
  unfold restart
  refine ⟨rfl, by simp, fun j => ?_⟩
  simp only [Slave.conn, List.getD_eq_getElem?_getD, List.getElem?_map]
  cases hc : s.conns[j]? with
  | none => exact CUK.refl _
  | some c =>
    simp only [Option.map_some, Option.getD_some]
    split
    · exact Nat.le_refl _
    · exact CUK.refl _

theorem uk_reap (t : Slave) (j : Nat) : UK t (reap t j) := by
  unfold reap
  extract_lets s1 s2 c3 s3
  have h1 : UK t s1 := uk_emit _ _
  have h2 : UK s1 s2 := uk_resetUnconfirmed _ _
  have h3 : UK s2 s3 := uk_setConn _ _ _ (by dsimp only [c3]; ukc)
  exact UK.trans h1 (UK.trans h2 (UK.trans h3 (uk_of_conns rfl rfl)))

/-- the invariant with its side condition on the configuration -/
def UOk (s : Slave) : Prop := 0 < s.p.w ∧ UInv s

theorem uok_uk {s s' : Slave} (h : UOk s) (hk : UK s s') : UOk s' := ⟨by rw [hk.1]; exact h.1, uinv_uk h.2 hk⟩

theorem uok_handleClientConnections (s : Slave) (h : UOk s) : UOk (handleClientConnections s) := by
  apply p2_handleClientConnections UOk _ _ _ s h
  · intro t j _ ht
    have hp : (handleTcpConnection t j).p = t.p := (w_handleTcpConnection (k := 1) (by decide) (by decide) t j).1
    exact ⟨by rw [hp]; exact ht.1, uinv_handleTcpConnection t j ht.1 ht.2⟩
  · intro t j _ ht
    exact uok_uk ht (uk_periodic t j)
  · intro t j _ ht
    exact uok_uk ht (uk_reap t j)

theorem uok_tick (s : Slave) (h : UOk s) : UOk (tick s) := by
  unfold tick
  exact uok_handleClientConnections _ (uok_uk h (uk_accept s))

theorem uok_apply (s : Slave) (op : WOp) (h : UOk s) : UOk (op.apply s) := by
  cases op with
  | tick => exact uok_tick s h
  | enqueue a => exact uok_uk h (uk_enqueue s a)
  | restart => exact uok_uk h (uk_restart s)
  | env e =>
    refine ⟨by show 0 < (e.f s).p.w; rw [e.p]; exact h.1, fun j => ?_⟩
    show ((e.f s).conn j).unconf < (e.f s).p.w
    rw [e.p, e.conn s j]; exact h.2 j

/-- **every history**: from a freshly created server with w ≥ 1, after any sequence of ticks, enqueues, restarts and
environment events, every connection has fewer than w received I-format APDUs unacknowledged -/
theorem run_uok (p : Params) (gs : List (String × List (Bool × List Nat))) (hw : 0 < p.w) (ops : List WOp) :
    UOk (ops.foldl WOp.apply (create p gs)) ∧ (ops.foldl WOp.apply (create p gs)).p = p := by
  have h0 : UOk (create p gs) := by
    refine ⟨by unfold create; exact hw, fun j => ?_⟩
    have hc : (create p gs).conn j = {} := by
      unfold create
      simp only [Slave.conn, List.getD_eq_getElem?_getD, List.getElem?_map]
      cases (List.range p.nSlots)[j]? <;> rfl
    rw [hc]; unfold create; exact hw
  have hp : (create p gs).p = p := by unfold create; rfl
  generalize create p gs = s at h0 hp
  induction ops generalizing s with
  | nil => exact ⟨h0, hp⟩
  | cons op ops ih => exact ih _ (uok_apply s op h0) ((apply_p s op).trans hp)

end Iec.Srv104
